//go:build verif
// +build verif

package goruntime

// Harness of the extension family extra-goruntime: the Go-runtime memory hooks of bootstrap.go
// (sysReserve, sysMap, sysAlloc, getRandomData, nanotime, Init, SetCPUCount) on a simulated machine.
//
// It contains no oracle.  bootstrap.go is compiled UNCHANGED; only the file that declares runtime
// internals by go:linkname is replaced by recording stubs (xg_rt_shim.go).  The hooks run over the REAL
// vmm and the REAL pmm (no mocks between them) on the machine the extra-boot family uses (copied, prefix
// xg): 8 MiB of RAM in a memfd at a fixed low host address (physical address = host address), page tables
// in that RAM read by a software MMU behind vmm's hardware seams (xg_vmm_shim.go), the real boot path
// multiboot.SetInfoPtr -> pmm.Init -> vmm.Init before every case.
//   - goruntime's seams earlyReserveRegionFn and mapFn stay the REAL vmm.EarlyReserveRegion / vmm.Map.
//   - memsetFn: the hooks clear memory through kernel-half virtual addresses, which cannot exist in a user
//     process.  memsetFn is the REAL kernel.Memset composed with the CPU's address translation: each page
//     of the range is translated by the software MMU (present + writable, otherwise a write fault is
//     delivered to the handler vmm.Init installed and the access retried once) and the real Memset runs
//     on the identity alias of the frame.
//   - pmm's tables live in the early-reservation area; as in extra-boot they are served by a host window
//     whose pages alias the frames the ACTIVE address space maps them to.
//   - write faults (R4) need a faulting address the host can really store to, because the real handler
//     copies from the faulting address itself: sysMap is driven on a low-half ARENA of 16 pages that the
//     harness claims in the host; each arena page aliases what the active address space maps there
//     (PROT_NONE / read-only honoured).  A store is a real store instruction; the SIGSEGV is delivered to
//     the handler vmm.Init installed (CR2, error code) and the store retried, as the CPU would.
// bootstrap.go's own init() calls the hooks with zero sizes when the package is initialised: the machine is
// therefore built and booted from a package-level variable initialiser of this file (those run before any
// init() of the package); what init() did to the machine is logged as the first case ("pkginit").
// Every step is logged with the projected state (what changed in the page tables, in the allocator's
// bitmap, the reservation cursor); specs/goruntime/GoRtTrace.tla judges the events.

import (
	"bufio"
	"encoding/binary"
	"encoding/json"
	"fmt"
	"io"
	"math/rand"
	"os"
	"reflect"
	"runtime/debug"
	"sort"
	"strconv"
	"syscall"
	"testing"
	"unsafe"

	"github.com/ProjectSerenity/firefly/kernel"
	"github.com/ProjectSerenity/firefly/kernel/gate"
	"github.com/ProjectSerenity/firefly/kernel/kfmt"
	"github.com/ProjectSerenity/firefly/kernel/mm"
	"github.com/ProjectSerenity/firefly/kernel/mm/pmm"
	"github.com/ProjectSerenity/firefly/kernel/mm/vmm"
	"github.com/ProjectSerenity/firefly/kernel/multiboot"
)

const (
	xgFrameMask = uintptr(0x000ffffffffff000)
	xgNFrames   = 2048 // 8 MiB of simulated RAM
	xgWinPages  = 64
	xgNU        = 16
	xgUBase     = uintptr(0x00007a0000000000)
	xgLeafCap   = 1 << 16
	xgKOffset   = uint64(0xffff800000000000)
)

type xgEv map[string]interface{}

func xgW64(v uint64) [4]int {
	return [4]int{int(v >> 48 & 0xffff), int(v >> 32 & 0xffff), int(v >> 16 & 0xffff), int(v & 0xffff)}
}

func xgB(b bool) int {
	if b {
		return 1
	}
	return 0
}

func xgMmap(addr uintptr, length int, prot, flags int, fd int, off int64) (uintptr, error) {
	r, _, e := syscall.Syscall6(syscall.SYS_MMAP, addr, uintptr(length), uintptr(prot), uintptr(flags), uintptr(fd), uintptr(off))
	if e != 0 {
		return 0, e
	}
	return r, nil
}

const (
	xgMapFixed          = 0x10
	xgMapFixedNoReplace = 0x100000
)

// pending: the call of the real code that is about to be made (vlib hang_guard)
var xgPendingFile *os.File

func xgPending(desc string) {
	if xgPendingFile == nil {
		p := os.Getenv("VERIF_PENDING")
		if p == "" {
			return
		}
		f, err := os.OpenFile(p, os.O_CREATE|os.O_WRONLY, 0644)
		if err != nil {
			return
		}
		xgPendingFile = f
	}
	var rec [256]byte
	copy(rec[:255], desc)
	xgPendingFile.WriteAt(rec[:], 0)
}

// ---------------------------------------------------------------- machine

type xgAlias struct {
	frame uintptr
	prot  int
}

type xgMachine struct {
	fd       int
	base     uintptr // physical (= host) address of the first frame
	active   uintptr // CR3
	bootRoot uintptr
	lastPTE  unsafe.Pointer
	tmpAlias mm.Page
	tmpAddr  uintptr // vmm's temporary-mapping address
	winTop   uintptr // host address standing for tmpAddr
	win      [xgWinPages + 1]xgAlias
	uni      [xgNU]xgAlias
	handlers map[gate.InterruptNumber]func(*gate.Registers)
	cr2      uint64
	info     []uint64
	strtab   []byte
	rng      *rand.Rand
	nfaults  int // write faults delivered since the counter was last cleared
	hz       int // 1 iff every frame a delivered fault installed was zero-filled when the handler returned
}

func xgNewMachine() *xgMachine {
	name := []byte("verif-xg-phys\x00")
	fd, _, e := syscall.Syscall(319 /* memfd_create */, uintptr(unsafe.Pointer(&name[0])), 0, 0)
	if e != 0 {
		panic(fmt.Sprintf("memfd_create: %v", e))
	}
	if err := syscall.Ftruncate(int(fd), xgNFrames*4096); err != nil {
		panic(err)
	}
	m := &xgMachine{fd: int(fd), tmpAddr: vmm.VerifXgTempMappingAddr()}
	for _, cand := range []uintptr{0x40000000, 0x50000000, 0x60000000, 0x30000000, 0x70000000} {
		got, err := xgMmap(cand, xgNFrames*4096, syscall.PROT_READ|syscall.PROT_WRITE, syscall.MAP_SHARED|xgMapFixedNoReplace, int(fd), 0)
		if err == nil && got == cand {
			m.base = cand
			break
		}
		if err == nil {
			syscall.Syscall(syscall.SYS_MUNMAP, got, xgNFrames*4096, 0)
		}
	}
	if m.base == 0 {
		panic("cannot place the simulated physical memory")
	}
	wb, err := xgMmap(0, (xgWinPages+1)*4096, syscall.PROT_NONE, syscall.MAP_PRIVATE|syscall.MAP_ANON, -1, 0)
	if err != nil {
		panic(err)
	}
	m.winTop = wb + xgWinPages*4096
	got, err := xgMmap(xgUBase, xgNU*4096, syscall.PROT_NONE, syscall.MAP_PRIVATE|syscall.MAP_ANON|xgMapFixedNoReplace, -1, 0)
	if err != nil || got != xgUBase {
		panic(fmt.Sprintf("cannot claim the arena at %x: %v", xgUBase, err))
	}
	return m
}

func (m *xgMachine) inRAM(frame uintptr) bool {
	return frame >= m.base>>12 && frame < (m.base>>12)+xgNFrames
}

// powerOn: fresh memory (0xA5 everywhere: a table or a page that is not cleared shows up), the boot address
// space rt0 leaves behind (a root with the recursive last entry in frame 0 of the machine, which the memory
// map never declares available), empty TLB.
func (m *xgMachine) powerOn() {
	b := (*[xgNFrames * 4096]byte)(unsafe.Pointer(m.base))[:]
	b[0] = 0xA5
	for i := 1; i < len(b); i *= 2 {
		copy(b[i:], b[:i])
	}
	m.bootRoot = m.base
	kernel.Memset(m.bootRoot, 0, 4096)
	*(*uintptr)(unsafe.Pointer(m.bootRoot + 511*8)) = m.bootRoot | 3
	m.active = m.bootRoot
	m.handlers = map[gate.InterruptNumber]func(*gate.Registers){}
	m.syncAll()
}

type xgWalk struct {
	leaf   uintptr
	reach  bool
	mapped bool
	effRW  bool
}

// walkVA is the hardware walk: four levels from root, present bit, frame = bits 12-51
func (m *xgMachine) walkVA(root, va uintptr) (w xgWalk) {
	table := root
	w.effRW = true
	for lvl := uint(0); lvl < 4; lvl++ {
		if !m.inRAM(table >> 12) {
			panic(fmt.Sprintf("machine check: table walk reached non-existent memory %x", table))
		}
		e := *(*uintptr)(unsafe.Pointer(table + ((va>>(39-9*lvl))&511)*8))
		if lvl == 3 {
			w.reach, w.leaf = true, e
			w.mapped = e&1 != 0
			w.effRW = w.effRW && e&2 != 0
			return
		}
		if e&1 == 0 {
			return
		}
		w.effRW = w.effRW && e&2 != 0
		table = e & xgFrameMask
	}
	return
}

func (m *xgMachine) xlate(root, va uintptr) (uintptr, bool) {
	w := m.walkVA(root, va)
	if !w.mapped {
		return 0, false
	}
	return w.leaf&xgFrameMask + va&4095, true
}

// ---- the TLB: host aliases of the window pages (pmm's tables) and of the arena pages

func (m *xgMachine) inWindow(kva uintptr) bool {
	return kva >= m.tmpAddr-xgWinPages*4096 && kva < m.tmpAddr+4096
}

func (m *xgMachine) inArena(va uintptr) bool {
	return va >= xgUBase && va < xgUBase+xgNU*4096
}

func (m *xgMachine) toHost(kva uintptr) uintptr {
	if !m.inWindow(kva) {
		panic(fmt.Sprintf("harness limit: kernel address %x outside the aliased window", kva))
	}
	return kva - m.tmpAddr + m.winTop
}

func (m *xgMachine) toKernel(host uintptr) uintptr {
	if host < m.winTop-xgWinPages*4096 || host >= m.winTop+4096 {
		panic(fmt.Sprintf("harness limit: host address %x outside the aliased window", host))
	}
	return host - m.winTop + m.tmpAddr
}

func (m *xgMachine) syncOne(a *xgAlias, host, va uintptr) {
	w := m.walkVA(m.active, va)
	frame, prot := uintptr(0), syscall.PROT_NONE
	if w.mapped && m.inRAM((w.leaf&xgFrameMask)>>12) {
		frame, prot = (w.leaf&xgFrameMask)>>12, syscall.PROT_READ
		if w.effRW {
			prot |= syscall.PROT_WRITE
		}
	}
	if a.frame == frame && a.prot == prot {
		return
	}
	var err error
	if prot == syscall.PROT_NONE {
		_, err = xgMmap(host, 4096, prot, syscall.MAP_PRIVATE|syscall.MAP_ANON|xgMapFixed, -1, 0)
	} else {
		_, err = xgMmap(host, 4096, prot, syscall.MAP_SHARED|xgMapFixed, m.fd, int64(frame-m.base>>12)*4096)
	}
	if err != nil {
		panic("harness: alias mmap failed: " + err.Error())
	}
	a.frame, a.prot = frame, prot
}

func (m *xgMachine) syncAddr(va uintptr) {
	va &^= 4095
	if m.inWindow(va) {
		i := (va - (m.tmpAddr - xgWinPages*4096)) >> 12
		m.syncOne(&m.win[i], m.toHost(va), va)
		return
	}
	if m.inArena(va) {
		m.syncOne(&m.uni[(va-xgUBase)>>12], va, va)
	}
}

func (m *xgMachine) syncAll() {
	for i := 0; i <= xgWinPages; i++ {
		va := m.tmpAddr - xgWinPages*4096 + uintptr(i)*4096
		m.syncOne(&m.win[i], m.toHost(va), va)
	}
	for i := 0; i < xgNU; i++ {
		va := xgUBase + uintptr(i)*4096
		m.syncOne(&m.uni[i], va, va)
	}
}

// deliverWriteFault is what the CPU does on a store it cannot complete: CR2 = address, error code
// (bit 0 = the page was present, bit 1 = write), the page-fault handler of the IDT runs.  Returns "resume"
// when the handler returned, "panic" / "crash: .." when it did not.
func (m *xgMachine) deliverWriteFault(addr uintptr) string {
	w := m.walkVA(m.active, addr)
	code := uint64(2)
	if w.mapped {
		code = 3
	}
	m.cr2 = uint64(addr)
	m.nfaults++
	h := m.handlers[gate.PageFaultException]
	if h == nil {
		return "nohandler"
	}
	regs := gate.Registers{Info: code, RIP: 0xffff800000123456}
	res := xgCall(func() string { h(&regs); return "resume" })
	if res == "resume" {
		if w2 := m.walkVA(m.active, addr); !w2.mapped || m.zeroFilled((w2.leaf&xgFrameMask)>>12) == 0 {
			m.hz = 0
		}
	}
	return res
}

type xgMachineCheck string

// cpuWrite translates one address for a store of the kernel: present + writable, otherwise a write fault is
// delivered and the access retried once.  Returns the identity alias of the byte.
func (m *xgMachine) cpuWrite(addr uintptr) uintptr {
	for try := 0; ; try++ {
		w := m.walkVA(m.active, addr)
		if w.mapped && w.effRW && m.inRAM((w.leaf&xgFrameMask)>>12) {
			return w.leaf&xgFrameMask + addr&4095
		}
		if try == 1 {
			panic(xgMachineCheck(fmt.Sprintf("store to %x faults again after the handler resumed", addr)))
		}
		if r := m.deliverWriteFault(addr); r != "resume" {
			panic(xgMachineCheck(fmt.Sprintf("store to %x: unrecoverable page fault (%s)", addr, r)))
		}
	}
}

// install binds the hardware seams of vmm to the machine, pmm's two seams to the REAL vmm functions
// composed with the window address translation and goruntime's memsetFn to the REAL kernel.Memset composed
// with the CPU's address translation.  goruntime's earlyReserveRegionFn and mapFn are NOT touched.
func (m *xgMachine) install() {
	vmm.VerifXgInstall(vmm.VerifXgSeams{
		PtePtr: func(entryAddr uintptr) unsafe.Pointer {
			pa, ok := m.xlate(m.active, entryAddr)
			if !ok {
				panic(fmt.Sprintf("page fault: access to unmapped address %x", entryAddr))
			}
			m.lastPTE = unsafe.Pointer(pa)
			return m.lastPTE
		},
		NextAddr:      func(uintptr) uintptr { return *(*uintptr)(m.lastPTE) & xgFrameMask },
		FlushTLBEntry: func(a uintptr) { m.syncAddr(a) },
		ActivePDT:     func() uintptr { return m.active },
		SwitchPDT: func(a uintptr) {
			m.active = a
			m.syncAll()
		},
		ReadCR2:         func() uint64 { return m.cr2 },
		HandleInterrupt: func(n gate.InterruptNumber, _ uint8, h func(*gate.Registers)) { m.handlers[n] = h },
		MapTemporary: func(f mm.Frame) (mm.Page, *kernel.Error) {
			m.syncAll()
			p, err := vmm.MapTemporary(f)
			if err != nil {
				return 0, err
			}
			pa, ok := m.xlate(m.active, p.Address())
			if !ok {
				panic("page fault: temporary page not mapped")
			}
			m.tmpAlias = mm.Page(pa >> 12)
			return m.tmpAlias, nil
		},
		Unmap: func(p mm.Page) *kernel.Error {
			m.syncAll()
			if p == m.tmpAlias {
				p = mm.PageFromAddress(m.tmpAddr)
			}
			return vmm.Unmap(p)
		},
	})
	pmm.VerifXgSetSeams(
		func(size uintptr) (uintptr, *kernel.Error) {
			kva, err := vmm.EarlyReserveRegion(size)
			if err != nil {
				return 0, err
			}
			return m.toHost(kva), nil
		},
		func(page mm.Page, frame mm.Frame, flags vmm.PageTableEntryFlag) *kernel.Error {
			return vmm.Map(mm.PageFromAddress(m.toKernel(page.Address())), frame, flags)
		})
	memsetFn = func(addr uintptr, value byte, size uintptr) {
		for size > 0 {
			n := 4096 - addr&4095
			if n > size {
				n = size
			}
			kernel.Memset(m.cpuWrite(addr), value, n)
			addr, size = addr+n, size-n
		}
	}
	kfmt.SetOutputSink(io.Discard)
	debug.SetPanicOnFault(true)
}

// ---------------------------------------------------------------- multiboot encoder (fixed machine shape)

// setInfo: one available region of `ram` frames starting at frame 1, the kernel image in frames 16..19
// (text, data, read-only data sections in the kernel's virtual range)
func (m *xgMachine) setInfo(ram int) (ks, ke uint64) {
	le := binary.LittleEndian
	b := make([]byte, 8)
	tag := make([]byte, 16)
	le.PutUint32(tag[0:], 6)
	le.PutUint32(tag[4:], uint32(16+24*1))
	le.PutUint32(tag[8:], 24)
	b = append(b, tag...)
	e := make([]byte, 24)
	le.PutUint64(e[0:], uint64(m.base)+4096)
	le.PutUint64(e[8:], uint64(ram)*4096)
	le.PutUint32(e[16:], 1)
	b = append(b, e...)
	ks, ke = uint64(m.base)+0x10000, uint64(m.base)+0x14000
	type sec struct{ a, sz, fl uint64 }
	secs := []sec{{ks, 0x2000, 6}, {ks + 0x2000, 0x1000, 3}, {ks + 0x3000, 0x1000, 2}}
	m.strtab = []byte{0}
	nameIdx := make([]uint32, len(secs))
	for i := range secs {
		nameIdx[i] = uint32(len(m.strtab))
		m.strtab = append(m.strtab, []byte(".s"+strconv.Itoa(i))...)
		m.strtab = append(m.strtab, 0)
	}
	n := len(secs) + 1
	tagSize := 8 + 12 + 64*n
	et := make([]byte, tagSize)
	le.PutUint32(et[0:], 9)
	le.PutUint32(et[4:], uint32(tagSize))
	le.PutUint16(et[8:], uint16(n))
	le.PutUint32(et[12:], 64)
	le.PutUint32(et[16:], 0)
	sh := et[20:]
	le.PutUint32(sh[4:], 3)
	le.PutUint64(sh[16:], uint64(uintptr(unsafe.Pointer(&m.strtab[0]))))
	for i, s := range secs {
		h := sh[64*(i+1):]
		le.PutUint32(h[0:], nameIdx[i])
		le.PutUint32(h[4:], 1)
		le.PutUint64(h[8:], s.fl)
		le.PutUint64(h[16:], xgKOffset+s.a)
		le.PutUint64(h[32:], s.sz)
		le.PutUint64(h[48:], 4096)
	}
	for len(b)%8 != 0 {
		b = append(b, 0)
	}
	b = append(b, et...)
	for len(b)%8 != 0 {
		b = append(b, 0)
	}
	b = append(b, 0, 0, 0, 0, 8, 0, 0, 0)
	le.PutUint32(b[0:], uint32(len(b)))
	m.info = make([]uint64, (len(b)+7)/8)
	dst := (*[1 << 20]byte)(unsafe.Pointer(&m.info[0]))[:len(b):len(b)]
	copy(dst, b)
	multiboot.SetInfoPtr(uintptr(unsafe.Pointer(&m.info[0])))
	return
}

// boot: power-on state of machine and packages, then the real boot path in kernel order
func (m *xgMachine) boot(ram int) string {
	pmm.VerifXgPowerOn()
	vmm.VerifXgPowerOn()
	m.powerOn()
	ks, ke := m.setInfo(ram)
	res := xgCall(func() string { return xgErr(pmm.Init(uintptr(ks), uintptr(ke))) })
	if res != "ok" {
		return "pmm:" + res
	}
	res = xgCall(func() string { return xgErr(vmm.Init(uintptr(xgKOffset))) })
	if res != "ok" {
		return "vmm:" + res
	}
	return "ok"
}

// ---------------------------------------------------------------- projection (the only trusted logic)

type xgObs struct {
	leaves map[uintptr]uintptr // page key (address bits 12..47) -> last-level entry
	tables map[int]bool        // frames of the page tables below the root
	resv   map[int]bool        // frames whose bitmap bit is set
	cursor uintptr
	bad    int
	rfault int
}

// enumerate lists every present last-level entry root translates (top-level slot 511, the recursive window,
// excluded) and the frame of every page table below the root
func (m *xgMachine) observe() *xgObs {
	o := &xgObs{leaves: map[uintptr]uintptr{}, tables: map[int]bool{}, resv: map[int]bool{}}
	var rec func(table uintptr, lvl uint, va uintptr)
	rec = func(table uintptr, lvl uint, va uintptr) {
		top := 512
		if lvl == 0 {
			top = 511
		}
		for i := 0; i < top; i++ {
			e := *(*uintptr)(unsafe.Pointer(table + uintptr(i)*8))
			if e&1 == 0 {
				continue
			}
			v := va | uintptr(i)<<(39-9*lvl)
			if lvl == 3 {
				if len(o.leaves) >= xgLeafCap {
					o.bad++
					return
				}
				o.leaves[v>>12] = e // page key: address bits 12..47 (what the MMU translates)
				continue
			}
			if !m.inRAM((e&xgFrameMask)>>12) || len(o.tables) >= 4096 || o.tables[int((e&xgFrameMask)>>12)] {
				o.bad++
				continue
			}
			o.tables[int((e&xgFrameMask)>>12)] = true
			rec(e&xgFrameMask, lvl+1, v)
		}
	}
	if m.inRAM(m.active >> 12) {
		rec(m.active, 0, 0)
	} else {
		o.bad++
	}
	func() {
		defer func() {
			if r := recover(); r != nil {
				o.rfault = 1
			}
		}()
		pmm.VerifXgReserved(func(f mm.Frame) { o.resv[int(f)] = true })
	}()
	o.cursor = vmm.VerifXgEarlyCursor()
	return o
}

func (m *xgMachine) zeroFilled(frame uintptr) int {
	if !m.inRAM(frame) {
		return 0
	}
	for _, x := range (*[512]uint64)(unsafe.Pointer(frame << 12)) {
		if x != 0 {
			return 0
		}
	}
	return 1
}

func xgFl(e uintptr) int { return int(e&0xfff) | int(e>>63)<<12 }

func xgFrameInt(e uintptr) int {
	f := (e & xgFrameMask) >> 12
	if f >= 1<<30 {
		return -1
	}
	return int(f)
}

func xgSortedInts(s map[int]bool, minus map[int]bool) []int {
	out := []int{}
	for f := range s {
		if !minus[f] {
			out = append(out, f)
		}
	}
	sort.Ints(out)
	return out
}

// diff adds to the event what changed between two observations: chg = [p3,p2,p1,p0, frame, flags, zero-filled]
// for every page whose last-level entry differs (flags = low 12 bits | NX << 12; 0 0 0 = not present now),
// nf / ff = frames newly marked / no longer marked in the allocator's bitmap, tabs / tgone = page-table frames
// that appeared / disappeared, cur = reservation cursor, free = frames the allocator has left
func (m *xgMachine) diff(e xgEv, a, b *xgObs) {
	pages := []uintptr{}
	for p, le := range b.leaves {
		if a.leaves[p] != le {
			pages = append(pages, p)
		}
	}
	for p := range a.leaves {
		if _, ok := b.leaves[p]; !ok {
			pages = append(pages, p)
		}
	}
	sort.Slice(pages, func(i, j int) bool { return pages[i] < pages[j] })
	chg := [][7]int{}
	for _, p := range pages {
		w := xgW64(uint64(p))
		le, ok := b.leaves[p]
		if !ok {
			chg = append(chg, [7]int{w[0], w[1], w[2], w[3], 0, 0, 0})
			continue
		}
		chg = append(chg, [7]int{w[0], w[1], w[2], w[3], xgFrameInt(le), xgFl(le), m.zeroFilled((le & xgFrameMask) >> 12)})
	}
	e["chg"] = chg
	e["nf"] = xgSortedInts(b.resv, a.resv)
	e["ff"] = xgSortedInts(a.resv, b.resv)
	e["tabs"] = xgSortedInts(b.tables, a.tables)
	e["tgone"] = xgSortedInts(a.tables, b.tables)
	e["cur"] = xgW64(uint64(b.cursor))
	total, reserved := pmm.VerifXgCounters()
	e["free"] = total - reserved
	e["bad"] = b.bad + b.rfault
	z := uintptr(vmm.ReservedZeroedFrame)
	e["zero"] = int(z)
	e["zf"] = m.zeroFilled(z)
}

// ---------------------------------------------------------------- driving the real code

func xgCall(f func() string) (res string) {
	defer func() {
		if r := recover(); r != nil {
			switch x := r.(type) {
			case *kernel.Error, string:
				res = "panic"
			case error:
				if _, isRt := x.(interface{ RuntimeError() }); isRt {
					res = "crash: " + x.Error()
				} else {
					res = "panic"
				}
			default:
				res = fmt.Sprintf("crash: %v", r)
			}
			if len(res) > 160 {
				res = res[:160]
			}
		}
	}()
	return f()
}

func xgErr(err *kernel.Error) string {
	if err == nil {
		return "ok"
	}
	if err.Message == "out of memory" {
		return "oom"
	}
	return "err:" + err.Message
}

type xgCase struct {
	Ram  int        `json:"ram"`  // frames of the available region
	Stat uint64     `json:"stat"` // initial value of the sysStat counter handed to the hooks
	Ops  [][]uint64 `json:"ops"`
}

type xgBase struct {
	addr uintptr
	ok   bool
}

type xgDriver struct {
	m     *xgMachine
	enc   *json.Encoder
	w     *bufio.Writer
	n     int
	last  *xgObs
	stat  uint64
	bases []xgBase  // what the sysReserve / sysAlloc calls of the case returned (one entry per call)
	top   uintptr   // reservation cursor when the boot finished
	dead  bool
}

func (d *xgDriver) emit(e xgEv) {
	d.enc.Encode(e)
	d.n++
}

// finish: observe, add the differences to the event, log it
func (d *xgDriver) finish(e xgEv) {
	o := d.m.observe()
	d.m.diff(e, d.last, o)
	d.last = o
	d.emit(e)
}

func (d *xgDriver) bootEvent(res string) xgEv {
	m := d.m
	total, reserved := pmm.VerifXgCounters()
	ar := [][4]int{}
	for i := 0; i < xgNU; i++ {
		ar = append(ar, xgW64(uint64((xgUBase+uintptr(i)*4096)>>12)))
	}
	return xgEv{"k": "boot", "res": res, "tmp": xgW64(uint64(m.tmpAddr)), "cur": xgW64(uint64(vmm.VerifXgEarlyCursor())),
		"zero": int(vmm.ReservedZeroedFrame), "zf": m.zeroFilled(uintptr(vmm.ReservedZeroedFrame)), "free": total - reserved,
		"arena": ar, "base": int(m.base >> 12), "nfr": xgNFrames}
}

func (d *xgDriver) rsv(size uint64) {
	var reserved bool
	var ret unsafe.Pointer
	xgPending(fmt.Sprintf(`{"call":"sysReserve","size":%d,"event":%d}`, size, d.n))
	res := xgCall(func() string { ret = sysReserve(nil, uintptr(size), &reserved); return "ok" })
	e := xgEv{"k": "rsv", "size": xgW64(size), "res": res, "ret": xgW64(uint64(uintptr(ret))), "rfl": xgB(reserved)}
	d.bases = append(d.bases, xgBase{uintptr(ret), res == "ok"})
	d.finish(e)
	d.crashed(res)
}

func (d *xgDriver) crashed(res string) {
	if len(res) >= 5 && res[:5] == "crash" {
		d.dead = true
	}
}

func (d *xgDriver) sysmap(addr uintptr, size uint64, reserved bool) {
	// domain: the hook is never asked to map pages of the kernel proper (at or above the reservation cursor the
	// boot left behind
	// (the allocator's own tables live there), and not more than 4096 pages at a time (the page round-up of a size
	// above 2^64-4096 wraps: such sizes are in the domain)
	gsize := size
	if size > ^uint64(0)-4095 {
		gsize = 0
	}
	if gsize > 1<<24 || (!d.m.inArena(addr) && (addr > d.top || uint64(d.top-addr) < gsize+8192)) {
		return
	}
	var ret unsafe.Pointer
	s0 := d.stat
	xgPending(fmt.Sprintf(`{"call":"sysMap","addr":%d,"size":%d,"event":%d}`, addr, size, d.n))
	res := xgCall(func() string { ret = sysMap(unsafe.Pointer(addr), uintptr(size), reserved, &d.stat); return "ok" })
	e := xgEv{"k": "map", "addr": xgW64(uint64(addr)), "size": xgW64(size), "rsvd": xgB(reserved), "res": res,
		"ret": xgW64(uint64(uintptr(ret))), "s0": xgW64(s0), "s1": xgW64(d.stat)}
	d.finish(e)
	d.crashed(res)
}

func (d *xgDriver) alloc(size uint64) {
	var ret unsafe.Pointer
	s0 := d.stat
	d.m.nfaults, d.m.hz = 0, 1
	xgPending(fmt.Sprintf(`{"call":"sysAlloc","size":%d,"event":%d}`, size, d.n))
	res := xgCall(func() string { ret = sysAlloc(uintptr(size), &d.stat); return "ok" })
	e := xgEv{"k": "alloc", "size": xgW64(size), "res": res, "ret": xgW64(uint64(uintptr(ret))), "s0": xgW64(s0), "s1": xgW64(d.stat),
		"nfl": d.m.nfaults}
	d.bases = append(d.bases, xgBase{uintptr(ret), res == "ok" && (ret != nil || d.stat != s0)})
	d.finish(e)
	d.crashed(res)
}

// store: a real store instruction to an arena page; a SIGSEGV is the CPU's page fault
func (d *xgDriver) store(u int, off int) {
	m := d.m
	addr := xgUBase + uintptr(u%xgNU)*4096 + uintptr(off&4095)
	m.nfaults, m.hz = 0, 1
	res := "ok"
	xgPending(fmt.Sprintf(`{"call":"store","addr":%d,"event":%d}`, addr, d.n))
	for try := 0; ; try++ {
		faulted := func() (f bool) {
			defer func() {
				if r := recover(); r != nil {
					f = true
				}
			}()
			*(*byte)(unsafe.Pointer(addr)) = byte(0x5A + try)
			return false
		}()
		if !faulted {
			break
		}
		if try == 2 {
			res = "loop"
			break
		}
		if r := m.deliverWriteFault(addr); r != "resume" {
			res = r
			break
		}
	}
	e := xgEv{"k": "store", "p": xgW64(uint64(addr>>12) & (1<<36 - 1)), "res": res, "nfl": m.nfaults, "hz": m.hz}
	d.finish(e)
	if res != "ok" {
		d.dead = true // the kernel is dead
	}
}

// hold: the rest of the kernel takes frames until `free` are left (one event; the frames taken show up as nf)
func (d *xgDriver) hold(free int) {
	res := xgCall(func() string {
		for {
			total, reserved := pmm.VerifXgCounters()
			if total-reserved <= free {
				return "ok"
			}
			if _, err := mm.AllocFrame(); err != nil {
				return xgErr(err)
			}
		}
	})
	d.finish(xgEv{"k": "hold", "res": res})
	d.crashed(res)
}

func xgBytesOf(b []byte) []int {
	out := make([]int, len(b))
	for i, x := range b {
		out[i] = int(x)
	}
	return out
}

// rnd: the stream experiment.  Run 1: seed s, getRandomData(n bytes, buffer pre-filled with 0x00) then (m bytes);
// run 2: seed s again, getRandomData(n+m bytes, buffer pre-filled with 0xFF).  t1/t2 = 1 iff the bytes behind the
// slices are untouched.
func (d *xgDriver) rnd(seed uint64, n, mlen int) {
	n, mlen = n%65, mlen%65
	e := xgEv{"k": "rnd", "seed": xgW64(seed), "n": n, "m": mlen}
	res := xgCall(func() string {
		buf := make([]byte, n+mlen+8)
		prngSeed = int(seed)
		getRandomData(buf[0:n:n])
		getRandomData(buf[n : n+mlen : n+mlen])
		e["a"], e["b"] = xgBytesOf(buf[:n]), xgBytesOf(buf[n:n+mlen])
		e["t1"] = xgB(string(buf[n+mlen:]) == "\x00\x00\x00\x00\x00\x00\x00\x00")
		e["sa"] = xgW64(uint64(prngSeed))
		buf2 := make([]byte, n+mlen+8)
		for i := range buf2 {
			buf2[i] = 0xff
		}
		prngSeed = int(seed)
		getRandomData(buf2[0 : n+mlen : n+mlen])
		e["c"] = xgBytesOf(buf2[:n+mlen])
		e["t2"] = xgB(string(buf2[n+mlen:]) == "\xff\xff\xff\xff\xff\xff\xff\xff")
		e["sc"] = xgW64(uint64(prngSeed))
		return "ok"
	})
	e["res"] = res
	d.finish(e)
	d.crashed(res)
}

func (d *xgDriver) nano() {
	vs := [][4]int{}
	res := xgCall(func() string {
		for i := 0; i < 3; i++ {
			vs = append(vs, xgW64(nanotime()))
		}
		return "ok"
	})
	d.finish(xgEv{"k": "nano", "v": vs, "res": res})
	d.crashed(res)
}

func (d *xgDriver) callInit() {
	xgStubLog = nil
	old := initGoPackagesFn
	initGoPackagesFn = func() { xgStubLog = append(xgStubLog, "initGoPackages") }
	r := "nil"
	res := xgCall(func() string {
		if err := Init(); err != nil {
			r = "err:" + err.Message
		}
		return "ok"
	})
	initGoPackagesFn = old
	calls := append([]string{}, xgStubLog...)
	d.finish(xgEv{"k": "init", "calls": calls, "ret": r, "res": res})
	d.crashed(res)
}

func (d *xgDriver) cpu(n int32) {
	xgStubLog = nil
	res := xgCall(func() string { SetCPUCount(n); return "ok" })
	calls := append([]string{}, xgStubLog...)
	d.finish(xgEv{"k": "cpu", "n": strconv.Itoa(int(n)), "calls": calls, "res": res})
	d.crashed(res)
}

// Script ops (every number is an input; addresses are relative to what earlier calls returned):
//  [0,F]            the rest of the kernel takes frames until F are left
//  [1,size]         sysReserve(nil, size, &reserved)
//  [2,r,off,size,v] sysMap(base(r)+off, size, v != 0, &stat): base(r) = what the r-th sysReserve / sysAlloc call of the
//                   case returned (r modulo their number; skipped when there is none or that call failed); r >= 1000: the arena
//  [3,size]         sysAlloc(size, &stat)
//  [4,u,off]        store one byte to arena page u
//  [5,seed,n,m]     getRandomData stream experiment
//  [6]              nanotime x 3          [7] Init()          [8,n] SetCPUCount(int32(n))
//  [9,A]            sysReserve of everything but the lowest A pages of the address space that is left
//  [10,h,sub,d]     hook h (1 sysReserve, 3 sysAlloc) with size = cursor - d (sub = 1) or cursor + d (sub = 0)
func (d *xgDriver) runOps(ops [][]uint64) {
	for _, op := range ops {
		if d.dead || len(op) == 0 {
			break
		}
		a := func(i int) uint64 {
			if i < len(op) {
				return op[i]
			}
			return 0
		}
		switch op[0] {
		case 0:
			d.hold(int(a(1)))
		case 1:
			d.rsv(a(1))
		case 2:
			var base uintptr
			if a(1) >= 1000 {
				base = xgUBase
			} else if len(d.bases) == 0 || !d.bases[int(a(1))%len(d.bases)].ok {
				continue
			} else {
				base = d.bases[int(a(1))%len(d.bases)].addr
			}
			d.sysmap(base+uintptr(a(2)), a(3), a(4) != 0)
		case 3:
			d.alloc(a(1))
		case 4:
			d.store(int(a(1)%xgNU), int(a(2)))
		case 5:
			d.rnd(a(1), int(a(2)), int(a(3)))
		case 6:
			d.nano()
		case 7:
			d.callInit()
		case 8:
			d.cpu(int32(a(1)))
		case 9:
			cur := uint64(vmm.VerifXgEarlyCursor())
			if cur > a(1)*4096 {
				d.rsv(cur - a(1)*4096)
			}
		case 10:
			cur := uint64(vmm.VerifXgEarlyCursor())
			size := cur + a(3)
			if a(2) == 1 {
				size = cur - a(3)
			}
			if a(1) == 3 {
				d.alloc(size)
			} else {
				d.rsv(size)
			}
		}
	}
}

// run: one boot in kernel order, then the script
func (d *xgDriver) run(c xgCase) {
	cj, _ := json.Marshal(c)
	if p := os.Getenv("VERIF_PENDING"); p != "" {
		os.WriteFile(p+".case", cj, 0644) // the case that is running, should the process be killed or die
	}
	defer func() {
		d.emit(xgEv{"k": "reset", "case": string(cj), "leg": os.Getenv("VERIF_LEG")})
		d.w.Flush() // a watchdog may kill the process: complete cases are on disk
	}()
	if c.Ram <= 0 || c.Ram > xgNFrames-1 {
		c.Ram = xgNFrames - 1
	}
	res := d.m.boot(c.Ram)
	d.emit(d.bootEvent(res))
	if res != "ok" {
		return
	}
	d.last = d.m.observe()
	d.stat, d.bases, d.dead = c.Stat, nil, false
	d.top = vmm.VerifXgEarlyCursor()
	xgStubLog = nil
	d.runOps(c.Ops)
}

// ---------------------------------------------------------------- package initialisation

type xgPre struct {
	m    *xgMachine
	res  string
	boot xgEv
	obs  *xgObs
	igp  int
}

// xgPreInit runs while the package-level variables are initialised, i.e. BEFORE bootstrap.go's init(): the machine
// exists and is booted when init() makes its dummy calls of the hooks.
var xgPreState = xgPreInit()

func xgPreInit() *xgPre {
	if os.Getenv("TRACE_OUT") == "" {
		return nil
	}
	m := xgNewMachine()
	m.install()
	p := &xgPre{m: m}
	p.res = m.boot(xgNFrames - 1)
	d := &xgDriver{m: m}
	p.boot = d.bootEvent(p.res)
	p.obs = m.observe()
	p.igp = xgB(reflect.ValueOf(initGoPackagesFn).Pointer() == reflect.ValueOf(initGoPackages).Pointer())
	xgStubLog = nil
	return p
}

func xgSetup(t *testing.T) (*xgDriver, func()) {
	p := os.Getenv("TRACE_OUT")
	if p == "" || xgPreState == nil {
		t.Skip("TRACE_OUT not set")
	}
	out, err := os.Create(p)
	if err != nil {
		t.Fatal(err)
	}
	w := bufio.NewWriterSize(out, 1<<20)
	m := xgPreState.m
	debug.SetPanicOnFault(true)
	seed, _ := strconv.ParseInt(os.Getenv("VERIF_SEED"), 10, 64)
	m.rng = rand.New(rand.NewSource(seed*15485863 + 29))
	d := &xgDriver{m: m, enc: json.NewEncoder(w), w: w}
	// case 0: what bootstrap.go's init() did to the booted machine
	d.emit(xgPreState.boot)
	if xgPreState.res == "ok" {
		d.last = xgPreState.obs
		d.finish(xgEv{"k": "pkginit", "igp": xgPreState.igp, "nstub": len(xgStubLog)})
	}
	d.emit(xgEv{"k": "reset", "case": `{"pkginit":1}`, "leg": os.Getenv("VERIF_LEG")})
	w.Flush()
	return d, func() {
		w.Flush()
		out.Close()
	}
}

// ---------------------------------------------------------------- leg G: scripts emitted by TLC

// Model address units -> bytes.  A model page has 4 units; unit offsets 0,1,2,3 inside a page become byte
// offsets 0,1,2048,4095 (monotone, keeps page numbers and page alignment).
func xgBytes(u uint64) uint64 {
	return (u/4)*4096 + [4]uint64{0, 1, 2048, 4095}[u%4]
}

type xgModelCase struct {
	F      int        `json:"f"`  // frames the allocator has left when the script starts
	A      int        `json:"a"`  // pages of address space left when the script starts
	Script [][]uint64 `json:"script"`
}

// the model's two special sizes
const (
	xgModelHuge = 1020 // larger than any address space that can be left; its page round-up does not wrap
	xgModelWrap = 1023 // its page round-up wraps
)

func xgSize(u uint64) uint64 {
	switch u {
	case xgModelHuge:
		return 0xffffffffffffd000
	case xgModelWrap:
		return ^uint64(0)
	}
	return xgBytes(u)
}

func xgFromModel(mc xgModelCase) xgCase {
	c := xgCase{Stat: 0x1000, Ram: 40 + mc.F}
	c.Ops = append(c.Ops, []uint64{9, uint64(mc.A)}, []uint64{0, uint64(mc.F)})
	for _, op := range mc.Script {
		switch op[0] {
		case 1, 3:
			c.Ops = append(c.Ops, []uint64{op[0], xgSize(op[1])})
		case 2:
			r := op[1]
			if r >= 100 {
				r = 1000
			}
			c.Ops = append(c.Ops, []uint64{2, r, xgBytes(op[2]), xgSize(op[3]), op[4]})
		default:
			c.Ops = append(c.Ops, op)
		}
	}
	return c
}

func TestVerifXgCases(t *testing.T) {
	d, done := xgSetup(t)
	defer done()
	in, err := os.Open(os.Getenv("CASES"))
	if err != nil {
		t.Fatal(err)
	}
	defer in.Close()
	raw := os.Getenv("VERIF_RAW") == "1"
	sc := bufio.NewScanner(in)
	sc.Buffer(make([]byte, 1<<20), 1<<26)
	n := 0
	for sc.Scan() {
		line := sc.Bytes()
		if len(line) == 0 {
			continue
		}
		if line[0] == '"' {
			var s string
			if err := json.Unmarshal(line, &s); err != nil {
				t.Fatal(err)
			}
			line = []byte(s)
		}
		var c xgCase
		if raw {
			if err := json.Unmarshal(line, &c); err != nil {
				t.Fatal(err)
			}
		} else {
			var mc xgModelCase
			if err := json.Unmarshal(line, &mc); err != nil {
				t.Fatalf("bad case %q: %v", line, err)
			}
			c = xgFromModel(mc)
		}
		d.run(c)
		n++
	}
	os.Stdout.WriteString("VERIF-STATS cases=" + strconv.Itoa(n) + " events=" + strconv.Itoa(d.n) + "\n")
}

// ---------------------------------------------------------------- leg T: random scripts at real scale

var xgSizes = []uint64{0, 1, 2, 4095, 4096, 4097, 8191, 8192, 8193, 12288, 65535, 65536, 65537, 3 * 4096, 16 * 4096}

func xgRandSize(rng *rand.Rand) uint64 {
	switch r := rng.Intn(20); {
	case r < 14:
		return xgSizes[rng.Intn(len(xgSizes))]
	case r < 17:
		return uint64(1+rng.Intn(9))*4096 + uint64(rng.Intn(3)) - 1
	case r < 19:
		return uint64(rng.Intn(70000))
	default:
		return 2<<20 + uint64(rng.Intn(3)-1)*uint64(rng.Intn(4097)) // around 2 MiB: a region that needs a new page table
	}
}

// sizes that cannot be reserved or whose page round-up wraps.  (Domain: a request either fails or leaves the region in the
// canonical half the cursor is in / at the very bottom of the address space: sizes like 2^63 would put the region into
// non-canonical addresses, which the software MMU - it looks at bits 12..47 only - would alias onto kernel pages.)
var xgHuge = []uint64{0xffffff7ffffff001, 0xffffff8000000000, ^uint64(0), ^uint64(0) - 4094, ^uint64(0) - 4095, ^uint64(0) - 4096, ^uint64(0) - 8191, 0xffffffff00000000}

func xgRandomCase(rng *rand.Rand, idx int) xgCase {
	c := xgCase{Ram: xgNFrames - 1, Stat: uint64(rng.Intn(1 << 20))}
	if rng.Intn(4) == 0 {
		c.Stat = uint64(rng.Int63())
	}
	small := idx%3 == 1 // a machine that runs out of frames
	if small {
		c.Ram = 40 + rng.Intn(60)
	}
	type reg struct{ size uint64 }
	regs := []reg{}
	arenaMapped := map[int]bool{}
	nops := 5 + rng.Intn(14)
	if small && rng.Intn(2) == 0 {
		c.Ops = append(c.Ops, []uint64{0, uint64(rng.Intn(12))})
	}
	for i := 0; i < nops; i++ {
		switch r := rng.Intn(100); {
		case r < 14:
			sz := xgRandSize(rng)
			c.Ops = append(c.Ops, []uint64{1, sz})
			regs = append(regs, reg{sz})
		case r < 18:
			c.Ops = append(c.Ops, []uint64{1, xgHuge[rng.Intn(len(xgHuge))]})
			regs = append(regs, reg{0}) // (one entry per call, as the harness keeps them)
		case r < 40:
			if len(regs) == 0 {
				sz := xgRandSize(rng)
				c.Ops = append(c.Ops, []uint64{1, sz})
				regs = append(regs, reg{sz})
				continue
			}
			// sysMap inside a region returned earlier: whole region, a part, unaligned address, odd size
			ri := rng.Intn(len(regs))
			rs := (regs[ri].size + 4095) &^ 4095
			off, sz := uint64(0), rs
			switch rng.Intn(6) {
			case 0:
				sz = regs[ri].size
			case 1:
				if rs >= 8192 {
					off = uint64(rng.Intn(int(rs/4096))) * 4096
					sz = rs - off
				}
			case 2:
				if rs >= 8192 {
					off = uint64(rng.Intn(int(rs/4096-1)))*4096 + uint64(1+rng.Intn(4095)) // unaligned start
					sz = 4096
				}
			case 3:
				sz = uint64(rng.Intn(int(rs + 1)))
			case 4:
				sz = 0
			}
			v := uint64(1)
			if rng.Intn(12) == 0 {
				v = 0
			}
			c.Ops = append(c.Ops, []uint64{2, uint64(ri), off, sz, v})
		case r < 58:
			sz := xgRandSize(rng)
			if small && rng.Intn(3) == 0 {
				sz = uint64(1+rng.Intn(3)) << 30 // fits the address space, not the RAM
			}
			c.Ops = append(c.Ops, []uint64{3, sz})
			regs = append(regs, reg{sz})
		case r < 61:
			c.Ops = append(c.Ops, []uint64{3, xgHuge[rng.Intn(len(xgHuge))]})
			regs = append(regs, reg{0})
		case r < 72:
			// lazily allocated arena pages
			u := rng.Intn(xgNU)
			np := 1 + rng.Intn(4)
			if u+np > xgNU {
				np = xgNU - u
			}
			sz := uint64(np) * 4096
			if rng.Intn(4) == 0 {
				sz -= uint64(rng.Intn(4095))
			}
			c.Ops = append(c.Ops, []uint64{2, 1000, uint64(u) * 4096, sz, 1})
			for j := 0; j < np; j++ {
				arenaMapped[u+j] = true
			}
		case r < 86:
			// the kernel writes to a lazily allocated page
			if len(arenaMapped) == 0 {
				c.Ops = append(c.Ops, []uint64{2, 1000, 0, 2 * 4096, 1})
				arenaMapped[0], arenaMapped[1] = true, true
				continue
			}
			for u := rng.Intn(xgNU); ; u = (u + 1) % xgNU {
				if arenaMapped[u] {
					c.Ops = append(c.Ops, []uint64{4, uint64(u), uint64(rng.Intn(4096))})
					break
				}
			}
		case r < 90:
			c.Ops = append(c.Ops, []uint64{5, uint64(rng.Int63()) << uint(rng.Intn(2)), uint64(rng.Intn(65)), uint64(rng.Intn(65))})
		case r < 92:
			c.Ops = append(c.Ops, []uint64{6})
		case r < 94:
			c.Ops = append(c.Ops, []uint64{7})
		case r < 96:
			c.Ops = append(c.Ops, []uint64{8, uint64(uint32(int32(rng.Intn(70) - 3)))})
		case r < 98:
			c.Ops = append(c.Ops, []uint64{0, uint64(rng.Intn(20))})
		default:
			// sizes at the edge of the address space that is left
			c.Ops = append(c.Ops, []uint64{10, []uint64{1, 3}[rng.Intn(2)], uint64(rng.Intn(2)), []uint64{1, 4095, 4096, 4097, 8192}[rng.Intn(5)]})
			regs = append(regs, reg{0})
		}
	}
	return c
}

// xgBattery: the calls that have no interaction with the machine, with fixed structure and seeded values (first case of
// every random run)
func xgBattery(rng *rand.Rand) xgCase {
	c := xgCase{Ram: 64, Stat: 5}
	for _, nm := range [][2]uint64{{0, 0}, {1, 0}, {0, 1}, {1, 1}, {7, 9}, {64, 64}, {uint64(rng.Intn(65)), uint64(rng.Intn(65))}} {
		c.Ops = append(c.Ops, []uint64{5, uint64(rng.Int63()), nm[0], nm[1]})
	}
	c.Ops = append(c.Ops, []uint64{5, 0xdeadc0de, 16, 16}, []uint64{5, ^uint64(0), 3, 5}, []uint64{6}, []uint64{7}, []uint64{6}, []uint64{7})
	for _, n := range []int32{1, 0, 2, 33, 64, 255, 1 << 20, 1<<31 - 1, -1, int32(rng.Intn(4096))} {
		c.Ops = append(c.Ops, []uint64{8, uint64(uint32(n))})
	}
	return c
}

func TestVerifXgRandom(t *testing.T) {
	d, done := xgSetup(t)
	defer done()
	n, _ := strconv.Atoi(os.Getenv("NTRACES"))
	if n == 0 {
		n = 30
	}
	d.run(xgBattery(d.m.rng))
	for i := 1; i < n; i++ {
		d.run(xgRandomCase(d.m.rng, i))
	}
	os.Stdout.WriteString("VERIF-STATS cases=" + strconv.Itoa(n) + " events=" + strconv.Itoa(d.n) + "\n")
}
