//go:build verif
// +build verif

package pmm

// Export shim for the extra-goruntime harness (overlaid into kernel/mm/pmm as a NON-test file, never part
// of /repo).  The harness lives in package goruntime and boots the REAL pmm.Init on its simulated machine.
// The shim only moves function values and reads package state: it contains no logic of its own.
//
// Seams: reserveRegionFn / mapFn - the harness composes the REAL vmm.EarlyReserveRegion / vmm.Map with the
// address translation of its host window (kernel-half addresses cannot exist in a user process).
// Read-out: the bitmaps (which frames are marked reserved), the counters and the extent of the allocator's
// own tables.

import (
	"unsafe"

	"github.com/ProjectSerenity/firefly/kernel"
	"github.com/ProjectSerenity/firefly/kernel/mm"
	"github.com/ProjectSerenity/firefly/kernel/mm/vmm"
)

// VerifXgSetSeams binds pmm's two vmm seams and returns the function that restores them.
func VerifXgSetSeams(reserve func(uintptr) (uintptr, *kernel.Error), mapf func(mm.Page, mm.Frame, vmm.PageTableEntryFlag) *kernel.Error) func() {
	o1, o2 := reserveRegionFn, mapFn
	reserveRegionFn, mapFn = reserve, mapf
	return func() { reserveRegionFn, mapFn = o1, o2 }
}

// VerifXgPowerOn puts the package state back to what it is when the machine starts.
func VerifXgPowerOn() {
	mm.SetFrameAllocator(nil)
	bootMemAllocator = BootMemAllocator{}
	bitmapAllocator = BitmapAllocator{}
}

// VerifXgCounters returns the allocator's counters.
func VerifXgCounters() (total, reserved int) {
	return int(bitmapAllocator.totalPages), int(bitmapAllocator.reservedPages)
}

// VerifXgReserved calls visit for every frame whose bitmap bit is set (read through the active address space).
func VerifXgReserved(visit func(mm.Frame)) {
	for _, p := range bitmapAllocator.pools {
		for f := p.startFrame; f <= p.endFrame && f >= p.startFrame; f++ {
			rel := f - p.startFrame
			if p.freeBitmap[rel>>6]&(1<<(63-(rel&63))) != 0 {
				visit(f)
			}
		}
	}
}

// VerifXgFree gives a frame back to the allocator (used by nobody but replays of hand-written cases).
func VerifXgFree(f mm.Frame) *kernel.Error { return bitmapAllocator.FreeFrame(f) }

var _ = unsafe.Sizeof(0)
