//go:build verif
// +build verif

package goruntime

// Overlay for kernel/goruntime/bootstrap_go18+.go (extra-goruntime harness; never part of /repo).
// The original file only DECLARES runtime internals by go:linkname (runtime.alginit, runtime.mallocinit,
// runtime.mSysStatInc, runtime.procresize ...), which the host toolchain refuses to link.  This file
// declares the same identifiers as recording stubs, so that kernel/goruntime/bootstrap.go - the code
// under specification - compiles UNCHANGED.  The stubs contain no expectations: they append what was
// called to a log the harness copies into its events; mSysStatInc additionally does what the runtime's
// function does (adds n to *sysStat), because that is the interface the hooks are written against.

var xgStubLog []string

func xgItoa(v int64) string {
	if v == 0 {
		return "0"
	}
	neg := v < 0
	var b [24]byte
	i := len(b)
	u := uint64(v)
	if neg {
		u = uint64(-v)
	}
	for u > 0 {
		i--
		b[i] = byte('0' + u%10)
		u /= 10
	}
	if neg {
		i--
		b[i] = '-'
	}
	return string(b[i:])
}

func algInit()       { xgStubLog = append(xgStubLog, "algInit") }
func modulesInit()   { xgStubLog = append(xgStubLog, "modulesInit") }
func typeLinksInit() { xgStubLog = append(xgStubLog, "typeLinksInit") }
func itabsInit()     { xgStubLog = append(xgStubLog, "itabsInit") }
func mallocInit()    { xgStubLog = append(xgStubLog, "mallocInit") }

func procResize(n int32) uintptr {
	xgStubLog = append(xgStubLog, "procResize:"+xgItoa(int64(n)))
	return 0
}

// mSysStatInc: runtime.mSysStatInc(sysStat *uint64, n uintptr) adds n to *sysStat (atomically in the runtime).
func mSysStatInc(sysStat *uint64, n uintptr) {
	*sysStat += uint64(n)
}
