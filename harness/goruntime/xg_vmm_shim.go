//go:build verif
// +build verif

package vmm

// Export shim for the extra-goruntime harness (overlaid into kernel/mm/vmm as a NON-test file, never
// part of /repo).  The harness lives in package goruntime (it calls the unexported hooks) and has
// to bind the lowest-level hardware seams of this package to its software MMU.  The shim only
// moves function values and reads package state: it contains no logic of its own.
//
// Seams bound: ptePtrFn / nextAddrFn (how a page-table entry address becomes a pointer),
// flushTLBEntryFn, activePDTFn / switchPDTFn (CR3), readCR2Fn, handleInterruptFn (IDT),
// and mapTemporaryFn / unmapFn - the temporary-mapping page lives in the kernel half and cannot
// exist in a user process, so the harness wraps the REAL MapTemporary / Unmap and hands out the
// identity alias of the frame the MMU shows at that page.
// NOT bound (left at their real defaults): mapFn = Map, translateFn = Translate,
// visitElfSectionsFn = multiboot.VisitElfSections, earlyReserveRegionFn = EarlyReserveRegion.

import (
	"unsafe"

	"github.com/ProjectSerenity/firefly/kernel"
	"github.com/ProjectSerenity/firefly/kernel/gate"
	"github.com/ProjectSerenity/firefly/kernel/mm"
)

// VerifXgSeams holds the hardware seams of package vmm.
type VerifXgSeams struct {
	PtePtr          func(uintptr) unsafe.Pointer
	NextAddr        func(uintptr) uintptr
	FlushTLBEntry   func(uintptr)
	ActivePDT       func() uintptr
	SwitchPDT       func(uintptr)
	ReadCR2         func() uint64
	HandleInterrupt func(gate.InterruptNumber, uint8, func(*gate.Registers))
	MapTemporary    func(mm.Frame) (mm.Page, *kernel.Error)
	Unmap           func(mm.Page) *kernel.Error
}

// VerifXgInstall binds the seams and returns the function that restores the previous bindings.
func VerifXgInstall(s VerifXgSeams) func() {
	o1, o2, o3, o4, o5, o6, o7, o8, o9 := ptePtrFn, nextAddrFn, flushTLBEntryFn, activePDTFn, switchPDTFn, readCR2Fn, handleInterruptFn, mapTemporaryFn, unmapFn
	ptePtrFn, nextAddrFn, flushTLBEntryFn, activePDTFn, switchPDTFn = s.PtePtr, s.NextAddr, s.FlushTLBEntry, s.ActivePDT, s.SwitchPDT
	readCR2Fn, handleInterruptFn, mapTemporaryFn, unmapFn = s.ReadCR2, s.HandleInterrupt, s.MapTemporary, s.Unmap
	return func() {
		ptePtrFn, nextAddrFn, flushTLBEntryFn, activePDTFn, switchPDTFn, readCR2Fn, handleInterruptFn, mapTemporaryFn, unmapFn = o1, o2, o3, o4, o5, o6, o7, o8, o9
		VerifXgPowerOn()
	}
}

// VerifXgPowerOn puts the package state back to what it is when the machine starts.
func VerifXgPowerOn() {
	earlyReserveLastUsed = tempMappingAddr
	protectReservedZeroedPage = false
	ReservedZeroedFrame = 0
	kernelPDT = PageDirectoryTable{}
}

// VerifXgTempMappingAddr returns the address of the temporary-mapping page.
func VerifXgTempMappingAddr() uintptr { return tempMappingAddr }

// VerifXgEarlyCursor returns the early-reservation cursor.
func VerifXgEarlyCursor() uintptr { return earlyReserveLastUsed }

// VerifXgKernelPDTFrame returns the root frame of the kernel address space vmm.Init built.
func VerifXgKernelPDTFrame() mm.Frame { return kernelPDT.pdtFrame }

// VerifXgProtected reports whether the zero-frame guard is armed.
func VerifXgProtected() bool { return protectReservedZeroedPage }
