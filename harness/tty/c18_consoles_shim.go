//go:build verif
// +build verif

package tty

// C18 harness: the REAL VgaTextConsole and VesaFbConsole over host memory, as consoles of the
// common driver in c17_vt_trace_test.go and of the hal leg (harness/hal/c18h_link_test.go); a
// non-test overlay file for that reason.  No oracle here: the consoles are built through their
// exported API (New..., DriverInit, SetLogo, SetFont; the two hardware seams are bound by the
// overlay shim c18_console_shim.go) and what each cell SHOWS is recovered from memory:
//   text mode   : the character / attribute pair of the cell;
//   framebuffer : the <<ch, fg, bg>> whose font glyph, rendered with the console's palette in the
//                 frame buffer's pixel format, equals the cell's pixels exactly (canonical triple
//                 of that picture; -1 when no character and colours produce these pixels).
// Bytes outside the cell grid (guard bytes around the frame buffer, logo rows, the padding bytes
// after every pixel row) are compared with their value at set-up time; partial cells right of /
// below the grid are not looked at (Scroll moves whole visible rows).  A 32 bpp pixel is read
// with all four bytes, masked by the union of the colour component masks.

import (
	"fmt"
	"image/color"
	"io/ioutil"
	"math/rand"
	"strconv"
	"syscall"
	"unsafe"

	"github.com/ProjectSerenity/firefly/kernel/device/video/console"
	"github.com/ProjectSerenity/firefly/kernel/device/video/console/font"
	"github.com/ProjectSerenity/firefly/kernel/device/video/console/logo"
	"github.com/ProjectSerenity/firefly/kernel/multiboot"
)

const (
	c18ArenaSize = 24 << 20
	c18Guard     = 64
	c18Page      = 4096
)

var c18Arena []byte

// c18Mem prepares host memory for a frame buffer of n bytes: page-aligned buffer filled from rng,
// c18Guard pattern bytes directly before and after it.
func c18Mem(n int, rng *rand.Rand) (fb []byte, before, after []byte) {
	if c18Arena == nil {
		var err error
		c18Arena, err = syscall.Mmap(-1, 0, c18ArenaSize, syscall.PROT_READ|syscall.PROT_WRITE, syscall.MAP_ANON|syscall.MAP_PRIVATE)
		if err != nil {
			panic(err)
		}
	}
	if c18Page+n+c18Guard > len(c18Arena) {
		panic("frame buffer of " + strconv.Itoa(n) + " bytes does not fit the arena")
	}
	fb = c18Arena[c18Page : c18Page+n : c18Page+n]
	before = c18Arena[c18Page-c18Guard : c18Page]
	after = c18Arena[c18Page+n : c18Page+n+c18Guard]
	rng.Read(fb)
	for i := range before {
		before[i] = byte(i*7 + 3)
		after[i] = byte(i*11 + 5)
	}
	return
}

func c18Diff(a, b []byte) int {
	n := 0
	for i := range a {
		if a[i] != b[i] {
			n++
		}
	}
	return n
}

// ---------------------------------------------------------------------------------------------
type c18Vga struct {
	*console.VgaTextConsole
	w, h          uint32
	fb            []byte
	before, after []byte
	snapB, snapA  []byte
}

func newC18Vga(w, h uint32, rng *rand.Rand) c17Screen {
	c := &c18Vga{w: w, h: h}
	c.fb, c.before, c.after = c18Mem(int(w*h*2), rng)
	c.snapB, c.snapA = append([]byte(nil), c.before...), append([]byte(nil), c.after...)
	c.VgaTextConsole = console.NewVgaTextConsole(w, h, 0xb8000)
	var asked uintptr
	console.VerifC18BindSeams(uintptr(unsafe.Pointer(&c.fb[0])), func(size uintptr) { asked = size })
	if err := c.DriverInit(ioutil.Discard); err != nil {
		panic(fmt.Sprintf("vga DriverInit: %v", err.Message))
	}
	_ = asked // a console that maps another size than the screen needs shows in the guard bytes / as a panic of its calls
	return c
}

func (c *c18Vga) c17Cells() []int {
	out := make([]int, c.w*c.h)
	for i := range out {
		ch, attr := c.fb[2*i], c.fb[2*i+1]
		out[i] = c17Code(ch, attr&0xf, attr>>4)
	}
	return out
}
func (c *c18Vga) c17Outside() int { return c18Diff(c.before, c.snapB) + c18Diff(c.after, c.snapA) }
func (c *c18Vga) c17Describe(e map[string]interface{}) {
	e["cons"] = "vga"
	// screen memory of w x h character cells (the harness mapped exactly that much)
	e["pw"], e["ph"], e["gw"], e["gh"], e["offy"] = int(c.w), int(c.h), 1, 1, 0
	e["gc"], e["gi"] = []int{}, []int{}
}

// ---------------------------------------------------------------------------------------------
// glyph tables of a font: canonical character per glyph, inverse glyph, pattern index
type c18Glyphs struct {
	gc, gi []int
	byPat  map[string]int
}

var c18GlyphCache = map[*font.Font]*c18Glyphs{}

// c18Pattern returns the glyph of ch as gh rows of BytesPerRow bytes with the unused low bits cleared
// (bit 7 of the first byte is the leftmost pixel, as the console reads the font).
func c18Pattern(f *font.Font, ch int, invert bool) string {
	b := make([]byte, f.GlyphHeight*f.BytesPerRow)
	copy(b, f.Data[uint32(ch)*f.GlyphHeight*f.BytesPerRow:])
	for r := uint32(0); r < f.GlyphHeight; r++ {
		for i := uint32(0); i < f.BytesPerRow; i++ {
			v := b[r*f.BytesPerRow+i]
			if invert {
				v = ^v
			}
			lo := i * 8
			switch {
			case lo >= f.GlyphWidth:
				v = 0
			case lo+8 > f.GlyphWidth:
				v &= 0xff << (lo + 8 - f.GlyphWidth)
			}
			b[r*f.BytesPerRow+i] = v
		}
	}
	return string(b)
}

func c18GlyphsOf(f *font.Font) *c18Glyphs {
	if g := c18GlyphCache[f]; g != nil {
		return g
	}
	g := &c18Glyphs{gc: make([]int, 256), gi: make([]int, 256), byPat: map[string]int{}}
	empty := string(make([]byte, f.GlyphHeight*f.BytesPerRow))
	for ch := 0; ch < 256; ch++ {
		p := c18Pattern(f, ch, false)
		if _, ok := g.byPat[p]; !ok {
			g.byPat[p] = ch
		}
	}
	for ch := 0; ch < 256; ch++ {
		p, ip := c18Pattern(f, ch, false), c18Pattern(f, ch, true)
		switch {
		case p == empty:
			g.gc[ch] = -1
		case ip == empty:
			g.gc[ch] = -2
		default:
			g.gc[ch] = g.byPat[p]
		}
		g.gi[ch] = -1
		if inv, ok := g.byPat[ip]; ok {
			g.gi[ch] = inv
		}
	}
	c18GlyphCache[f] = g
	return g
}

// a font that is not shipped: 9 pixels wide (second font byte nearly empty), 5 rows, glyph = f(ch)
var c18Font9 = func() *font.Font {
	f := &font.Font{Name: "verif9x5", GlyphWidth: 9, GlyphHeight: 5, BytesPerRow: 2, Data: make([]byte, 256*2*5)}
	for ch := 0; ch < 256; ch++ {
		o := ch * 10
		if ch == ' ' {
			continue
		}
		f.Data[o+0], f.Data[o+1] = byte(ch), 0x80
		f.Data[o+2], f.Data[o+3] = byte(ch*7+1), byte(ch&1)<<7
		f.Data[o+4], f.Data[o+5] = byte(ch>>1)|1, 0x7f // low 7 bits of the second byte are outside the glyph
		f.Data[o+6], f.Data[o+7] = byte(ch^0x5a), byte(ch&2)<<6
		f.Data[o+8], f.Data[o+9] = 0x01, 0x80
	}
	return f
}()

// c18Synth builds a font that is not shipped: gw x gh pixels (gh >= 3), BytesPerRow = ceil(gw/8), glyph = f(ch);
// the bits of the last byte that lie outside the glyph are set (a console must not look at them).
func c18Synth(gw, gh uint32) *font.Font {
	bpr := (gw + 7) / 8
	f := &font.Font{Name: "verif" + strconv.Itoa(int(gw)) + "x" + strconv.Itoa(int(gh)), GlyphWidth: gw, GlyphHeight: gh, BytesPerRow: bpr,
		Data: make([]byte, 256*bpr*gh)}
	for ch := uint32(0); ch < 256; ch++ {
		for r := uint32(0); r < gh; r++ {
			for i := uint32(0); i < bpr; i++ {
				v := byte((ch*31 + r*17 + i*7) * 2654435761 >> 13)
				if i == 0 {
					switch r {
					case 0:
						v = v&0x0f | byte(ch&0xf0) // the character code in the leftmost four pixels of rows 0 and 1
					case 1:
						v = v&0x0f | byte(ch&0x0f)<<4
					case 2:
						v |= 0x80
					}
				}
				if ch == ' ' {
					v = 0
				}
				if lo := i * 8; lo+8 > gw {
					v |= 0xff >> (gw - lo) // garbage outside the glyph
				}
				f.Data[(ch*gh+r)*bpr+i] = v
			}
		}
	}
	return f
}

var c18SynthFonts = []*font.Font{c18Font9, c18Synth(5, 7), c18Synth(16, 6), c18Synth(17, 3)}

type c18Fb struct {
	*console.VesaFbConsole
	w, h                 uint32 // cells
	pw, ph, pitch, bpp   uint32
	bytesPP, offY, mask  uint32
	ci                   *multiboot.FramebufferRGBColorInfo
	f                    *font.Font
	gl                   *c18Glyphs
	fb                   []byte
	before, after        []byte
	snapB, snapA, snapLg []byte
	snapPad              []byte
	idx                  map[uint32]int
	desc                 string
}

var c18Fonts = []string{"terminus8x16", "terminus10x18", "terminus14x28"}

func newC18Fb(w, h uint32, rng *rand.Rand) c17Screen {
	c := &c18Fb{w: w, h: h}
	c.bpp = []uint32{8, 15, 16, 24, 32, 32}[rng.Intn(6)]
	c.bytesPP = (c.bpp + 1) >> 3
	rgb := func(r, g, b uint8) *multiboot.FramebufferRGBColorInfo {
		return &multiboot.FramebufferRGBColorInfo{RedPosition: r, RedMaskSize: 8, GreenPosition: g, GreenMaskSize: 8, BluePosition: b, BlueMaskSize: 8}
	}
	switch c.bpp {
	case 15:
		c.ci = [](*multiboot.FramebufferRGBColorInfo){
			{RedPosition: 10, RedMaskSize: 5, GreenPosition: 5, GreenMaskSize: 5, BluePosition: 0, BlueMaskSize: 5},
			{RedPosition: 0, RedMaskSize: 5, GreenPosition: 5, GreenMaskSize: 5, BluePosition: 10, BlueMaskSize: 5}}[rng.Intn(2)]
	case 16:
		c.ci = [](*multiboot.FramebufferRGBColorInfo){
			{RedPosition: 11, RedMaskSize: 5, GreenPosition: 5, GreenMaskSize: 6, BluePosition: 0, BlueMaskSize: 5},
			{RedPosition: 0, RedMaskSize: 5, GreenPosition: 5, GreenMaskSize: 6, BluePosition: 11, BlueMaskSize: 5}}[rng.Intn(2)]
	case 32:
		// XRGB, XBGR and the layouts with a colour component in the fourth byte of a pixel: RGBX, BGRX
		c.ci = [](*multiboot.FramebufferRGBColorInfo){rgb(16, 8, 0), rgb(0, 8, 16), rgb(24, 16, 8), rgb(8, 16, 24)}[rng.Intn(4)]
	default:
		c.ci = [](*multiboot.FramebufferRGBColorInfo){rgb(16, 8, 0), rgb(0, 8, 16)}[rng.Intn(2)]
	}
	// the bits of a pixel that are displayed: the union of the component masks (the other bits of a
	// 32 bpp pixel are not looked at)
	c.mask = (uint32(1)<<c.ci.RedMaskSize-1)<<c.ci.RedPosition | (uint32(1)<<c.ci.GreenMaskSize-1)<<c.ci.GreenPosition |
		(uint32(1)<<c.ci.BlueMaskSize-1)<<c.ci.BluePosition
	if c.bpp == 8 {
		c.mask = 0xff
	}
	fi := rng.Intn(3 + len(c18SynthFonts))
	if w*h > 600 {
		fi = rng.Intn(2) // keep big screens at a size the byte-wise Scroll of the driver handles quickly
	}
	if fi >= 3 {
		c.f = c18SynthFonts[fi-3]
	} else if c.f = font.FindByName(c18Fonts[fi]); c.f == nil {
		c.f = c18Font9
	}
	c.gl = c18GlyphsOf(c.f)
	c.offY = []uint32{0, 0, 1, 5, 13, 64}[rng.Intn(6)]
	c.pw = w*c.f.GlyphWidth + uint32(rng.Intn(int(c.f.GlyphWidth)))
	c.ph = c.offY + h*c.f.GlyphHeight + uint32(rng.Intn(int(c.f.GlyphHeight)))
	c.pitch = c.pw*c.bytesPP + []uint32{0, 0, 1, 3, 4, 7, 17, 32, 255, 1000}[rng.Intn(10)]
	c.fb, c.before, c.after = c18Mem(int(c.ph*c.pitch), rng)
	c.VesaFbConsole = console.NewVesaFbConsole(c.pw, c.ph, uint8(c.bpp), c.pitch, c.ci, 0xe0000000)
	var asked uintptr
	console.VerifC18BindSeams(uintptr(unsafe.Pointer(&c.fb[0])), func(size uintptr) { asked = size })
	if err := c.DriverInit(ioutil.Discard); err != nil {
		panic(fmt.Sprintf("fb DriverInit: %v", err.Message))
	}
	_ = asked // a console that maps another size than the screen needs shows in the guard bytes / as a panic of its calls
	// the order hal uses: logo first (reserves the rows above the text), then the font
	if c.offY > 0 {
		lw := 1 + uint32(rng.Intn(int(c.pw)))
		l := &logo.Image{Width: lw, Height: c.offY, Align: logo.Alignment(rng.Intn(3)), TransparentIndex: 0,
			Palette: []color.RGBA{{R: 1, G: 2, B: 3}, {R: 200, G: 100, B: 50}, {R: 9, G: 99, B: 199}}, Data: make([]uint8, lw*c.offY)}
		for i := range l.Data {
			l.Data[i] = uint8(rng.Intn(3))
		}
		c.SetLogo(l)
	}
	c.SetFont(c.f)
	// the grid is what the console reports (the terminal sizes itself from that); whether every reported
	// cell is completely on the screen is for the monitor to decide from the logged pixel geometry
	c.w, c.h = c.Dimensions(console.Characters)
	// palette -> pixel value, lowest index first
	c.idx = map[uint32]int{}
	pal := c.Palette()
	for i := len(pal) - 1; i >= 0; i-- {
		c.idx[c.pack(pal[i].(color.RGBA), uint8(i))] = i
	}
	c.snapB, c.snapA = append([]byte(nil), c.before...), append([]byte(nil), c.after...)
	c.snapLg = append([]byte(nil), c.fb[:c.offY*c.pitch]...)
	if pad := c.pitch - c.pw*c.bytesPP; pad > 0 {
		for r := uint32(0); r < c.ph; r++ {
			o := r*c.pitch + c.pw*c.bytesPP
			c.snapPad = append(c.snapPad, c.fb[o:o+pad]...)
		}
	}
	c.desc = "bpp=" + strconv.Itoa(int(c.bpp)) + " font=" + c.f.Name + " px=" + strconv.Itoa(int(c.pw)) + "x" + strconv.Itoa(int(c.ph)) +
		" pitch=" + strconv.Itoa(int(c.pitch)) + " logo=" + strconv.Itoa(int(c.offY)) + " redpos=" + strconv.Itoa(int(c.ci.RedPosition)) + " bluepos=" + strconv.Itoa(int(c.ci.BluePosition))
	return c
}

// pack: the pixel value of a palette colour in this frame buffer's format (8 bpp: the index itself)
func (c *c18Fb) pack(col color.RGBA, index uint8) uint32 {
	if c.bpp == 8 {
		return uint32(index)
	}
	p := uint32(col.R>>(8-c.ci.RedMaskSize))<<c.ci.RedPosition |
		uint32(col.G>>(8-c.ci.GreenMaskSize))<<c.ci.GreenPosition |
		uint32(col.B>>(8-c.ci.BlueMaskSize))<<c.ci.BluePosition
	switch c.bytesPP {
	case 2:
		return p & 0xffff
	case 3:
		return p & 0xffffff
	}
	return p
}

func (c *c18Fb) pixel(px, py uint32) uint32 {
	o := (py+c.offY)*c.pitch + px*c.bytesPP
	switch c.bytesPP {
	case 1:
		return uint32(c.fb[o])
	case 2:
		return uint32(c.fb[o]) | uint32(c.fb[o+1])<<8
	case 3:
		return uint32(c.fb[o]) | uint32(c.fb[o+1])<<8 | uint32(c.fb[o+2])<<16
	default: // 32 bpp: every byte of the pixel that carries colour bits
		return (uint32(c.fb[o]) | uint32(c.fb[o+1])<<8 | uint32(c.fb[o+2])<<16 | uint32(c.fb[o+3])<<24) & c.mask
	}
}

// decode one cell: which <<ch, fg, bg>> gives exactly these pixels
func (c *c18Fb) cell(x, y uint32) int {
	gw, gh, bpr := c.f.GlyphWidth, c.f.GlyphHeight, c.f.BytesPerRow
	if (x+1)*gw > c.pw || c.offY+(y+1)*gh > c.ph {
		return -1 // the cell is not completely inside the frame buffer: nothing it could show
	}
	a := c.pixel(x*gw, y*gh)
	b, two := uint32(0), false
	pat := make([]byte, gh*bpr)
	for r := uint32(0); r < gh; r++ {
		for col := uint32(0); col < gw; col++ {
			v := c.pixel(x*gw+col, y*gh+r)
			switch {
			case v == a:
				pat[r*bpr+col/8] |= 0x80 >> (col % 8)
			case !two:
				b, two = v, true
			case v != b:
				return -1 // three different pixel values
			}
		}
	}
	ia, ok := c.idx[a]
	if !ok {
		return -1
	}
	if !two { // one colour everywhere
		return (ia*257+256)*256 + 0
	}
	ib, ok := c.idx[b]
	if !ok {
		return -1
	}
	inv := make([]byte, len(pat))
	for r := uint32(0); r < gh; r++ {
		for col := uint32(0); col < gw; col++ {
			if pat[r*bpr+col/8]&(0x80>>(col%8)) == 0 {
				inv[r*bpr+col/8] |= 0x80 >> (col % 8)
			}
		}
	}
	c1, ok1 := c.gl.byPat[string(pat)] // pixels of value a are the foreground
	c2, ok2 := c.gl.byPat[string(inv)] // pixels of value a are the background
	switch {
	case ok1 && (!ok2 || c1 < c2):
		return (ib*257+ia)*256 + c1
	case ok2:
		return (ia*257+ib)*256 + c2
	}
	return -1
}

func (c *c18Fb) c17Cells() []int {
	out := make([]int, 0, c.w*c.h)
	for y := uint32(0); y < c.h; y++ {
		for x := uint32(0); x < c.w; x++ {
			out = append(out, c.cell(x, y))
		}
	}
	return out
}
func (c *c18Fb) c17Outside() int {
	n := c18Diff(c.before, c.snapB) + c18Diff(c.after, c.snapA) + c18Diff(c.fb[:c.offY*c.pitch], c.snapLg)
	// the padding bytes between the end of each pixel row and the start of the next one
	if pad := c.pitch - c.pw*c.bytesPP; pad > 0 {
		for r := uint32(0); r < c.ph; r++ {
			o := r*c.pitch + c.pw*c.bytesPP
			n += c18Diff(c.fb[o:o+pad], c.snapPad[r*pad:(r+1)*pad])
		}
	}
	return n
}
func (c *c18Fb) c17Describe(e map[string]interface{}) {
	e["cons"] = "fb"
	e["pw"], e["ph"], e["gw"], e["gh"], e["offy"] = int(c.pw), int(c.ph), int(c.f.GlyphWidth), int(c.f.GlyphHeight), int(c.offY)
	e["gc"], e["gi"] = c.gl.gc, c.gl.gi
	e["fbcfg"] = c.desc
}

func init() {
	c17MakeConsole["vga"] = newC18Vga
	c17MakeConsole["fb"] = newC18Fb
}
