//go:build verif
// +build verif

package tty

// Screen projection shared by the C17 / C18 harnesses (overlay-only, never part of /repo; a
// non-test file so that the hal leg of C18, which lives in package hal, can use it as well).
// No oracle here: consoles that can say what every cell SHOWS, a proxy that records the calls a
// terminal makes, and the projection of a VT (cursor, viewport origin, buffer as cell codes).
//
// Cell code = ((bg*257)+fg)*256+ch  (fg 256 = "any", see specs/tty/VT.tla).
// uint32 arguments are logged saturated at 2^30 (TLC integers are 32 bit).

import (
	"image/color"
	"math/rand"

	"github.com/ProjectSerenity/firefly/kernel/device/video/console"
)

const c17Sat = 1 << 30

func c17SatU32(v uint32) int {
	if v > c17Sat {
		return c17Sat
	}
	return int(v)
}

func c17Code(ch, fg, bg uint8) int { return ((int(bg)*257)+int(fg))*256 + int(ch) }

// c17Screen is a console whose cell contents can be projected.
type c17Screen interface {
	console.Device
	// c17Cells returns what every cell of the grid shows, row by row, as cell codes (-1 = garbage).
	c17Cells() []int
	// c17Outside returns the number of bytes outside the cell grid that differ from their value at set-up time.
	c17Outside() int
	// c17Describe adds the description of the console (kind, glyph classes, configuration) to the attach event.
	c17Describe(e map[string]interface{})
}

// ---------------------------------------------------------------------------------------------
// recording console: a plain grid that stores what the terminal tells it (in-range semantics of
// the shipped text console: Write stores the triple, Scroll moves lines, Fill stores blanks).
type c17RecCons struct {
	w, h   uint32
	fg, bg uint8 // the default colours this console reports
	cells  []int
}

// c17RecDefault pins the default colours of the next recording consoles (-1: drawn from the
// configuration generator: half of them the shipped consoles' 7 / 0, the others any pair).
var c17RecDefault = [2]int{-1, -1}

func newC17RecCons(w, h uint32, rng *rand.Rand) *c17RecCons {
	c := &c17RecCons{w: w, h: h, fg: 7, bg: 0, cells: make([]int, w*h)}
	if rng != nil && rng.Intn(2) == 1 {
		c.fg, c.bg = uint8(rng.Intn(256)), uint8(rng.Intn(256))
	}
	if c17RecDefault[0] >= 0 {
		c.fg, c.bg = uint8(c17RecDefault[0]), uint8(c17RecDefault[1])
	}
	for i := range c.cells {
		c.cells[i] = c17Code('?', 9, 9) // something the terminal never writes, so a redraw is visible
	}
	return c
}
func (c *c17RecCons) Dimensions(console.Dimension) (uint32, uint32) { return c.w, c.h }
func (c *c17RecCons) DefaultColors() (uint8, uint8)                 { return c.fg, c.bg }
func (c *c17RecCons) Fill(x, y, w, h uint32, fg, bg uint8) {
	// the cells of the rectangle [x, x+w) x [y, y+h) that exist
	for yy := uint64(1); yy <= uint64(c.h); yy++ {
		for xx := uint64(1); xx <= uint64(c.w); xx++ {
			if xx >= uint64(x) && xx < uint64(x)+uint64(w) && yy >= uint64(y) && yy < uint64(y)+uint64(h) {
				c.cells[(yy-1)*uint64(c.w)+xx-1] = c17Code(' ', fg, bg)
			}
		}
	}
}
func (c *c17RecCons) Scroll(dir console.ScrollDir, lines uint32) {
	if lines == 0 || lines > c.h {
		return
	}
	if dir == console.ScrollDirUp {
		copy(c.cells, c.cells[lines*c.w:])
	} else {
		copy(c.cells[lines*c.w:], c.cells[:(c.h-lines)*c.w])
	}
}
func (c *c17RecCons) Write(ch byte, fg, bg uint8, x, y uint32) {
	if x >= 1 && y >= 1 && x <= c.w && y <= c.h {
		c.cells[(y-1)*c.w+x-1] = c17Code(ch, fg, bg)
	}
}
func (c *c17RecCons) Palette() color.Palette            { return nil }
func (c *c17RecCons) SetPaletteColor(uint8, color.RGBA) {}
func (c *c17RecCons) c17Cells() []int                   { return append([]int(nil), c.cells...) }
func (c *c17RecCons) c17Outside() int                   { return 0 }
func (c *c17RecCons) c17Describe(e map[string]interface{}) {
	e["cons"] = "rec"
	e["pw"], e["ph"], e["gw"], e["gh"], e["offy"] = int(c.w), int(c.h), 1, 1, 0
	e["gc"], e["gi"] = []int{}, []int{}
}

// ---------------------------------------------------------------------------------------------
// c17Proxy sits between the terminal and the console and records every call.
type c17Proxy struct {
	in    c17Screen
	cc    int
	calls [][]int
}

func (p *c17Proxy) Dimensions(d console.Dimension) (uint32, uint32) { return p.in.Dimensions(d) }
func (p *c17Proxy) DefaultColors() (uint8, uint8)                   { return p.in.DefaultColors() }
func (p *c17Proxy) Palette() color.Palette                          { return p.in.Palette() }
func (p *c17Proxy) SetPaletteColor(i uint8, c color.RGBA) {
	p.cc++
	p.in.SetPaletteColor(i, c)
}
func (p *c17Proxy) Fill(x, y, w, h uint32, fg, bg uint8) {
	p.cc++
	p.calls = append(p.calls, []int{2, c17SatU32(x), c17SatU32(y), c17SatU32(w), c17SatU32(h), int(fg), int(bg)})
	if x > 1<<12 || y > 1<<12 || w > 1<<12 || h > 1<<12 {
		// Logged (the monitor rejects a call outside the grid) but not forwarded: the clipping of the shipped
		// consoles wraps for such arguments and then loops for minutes (C19); the terminal never makes
		// such a call on the unchanged tree.
		return
	}
	p.in.Fill(x, y, w, h, fg, bg)
}
func (p *c17Proxy) Scroll(dir console.ScrollDir, lines uint32) {
	p.cc++
	p.calls = append(p.calls, []int{3, int(dir), c17SatU32(lines)})
	p.in.Scroll(dir, lines)
}
func (p *c17Proxy) Write(ch byte, fg, bg uint8, x, y uint32) {
	p.cc++
	p.calls = append(p.calls, []int{1, int(ch), int(fg), int(bg), c17SatU32(x), c17SatU32(y)})
	p.in.Write(ch, fg, bg, x, y)
}

// c17MakeConsole builds a console of w x h cells of the given kind.  The real consoles are
// registered by c18_consoles_shim.go.
var c17MakeConsole = map[string]func(w, h uint32, rng *rand.Rand) c17Screen{
	"rec": func(w, h uint32, rng *rand.Rand) c17Screen { return newC17RecCons(w, h, rng) },
}

func c17Observe(e map[string]interface{}, vt *VT, p *c17Proxy, cp bool) {
	x, y := vt.CursorPosition()
	e["cx"], e["cy"], e["vy"] = c17SatU32(x), c17SatU32(y), c17SatU32(vt.viewportY)
	e["cc"] = p.cc
	if p.calls == nil {
		e["calls"] = [][]int{}
	} else {
		e["calls"] = p.calls
	}
	e["out"] = p.in.c17Outside()
	if cp {
		n := len(vt.data) / 3
		d := make([]int, n)
		for i := 0; i < n; i++ {
			d[i] = c17Code(vt.data[3*i], vt.data[3*i+1], vt.data[3*i+2])
		}
		e["cp"], e["data"], e["scr"] = 1, d, p.in.c17Cells()
	} else {
		e["cp"], e["data"], e["scr"] = 0, []int{}, []int{}
	}
	p.cc, p.calls = 0, nil
}

// ---------------------------------------------------------------------------------------------
// exported handle for harnesses outside the package (harness/hal/c18h_link_test.go)

// VerifC18Console is a console of the requested kind behind the recording proxy.
type VerifC18Console struct{ p *c17Proxy }

// VerifC18NewConsole builds a console of kind "rec", "vga" or "fb" with w x h cells whose memory
// holds garbage; the configuration of a frame buffer is drawn from rng.
func VerifC18NewConsole(kind string, w, h uint32, rng *rand.Rand) *VerifC18Console {
	mk := c17MakeConsole[kind]
	if mk == nil {
		panic("console kind " + kind + " is not available in this build")
	}
	return &VerifC18Console{p: &c17Proxy{in: mk(w, h, rng)}}
}

// Device is what the terminal (or the HAL) gets.
func (c *VerifC18Console) Device() console.Device { return c.p }

// Describe adds the console's geometry, default colours and description to an attach event.
func (c *VerifC18Console) Describe(e map[string]interface{}) {
	w, h := c.p.in.Dimensions(console.Characters)
	fg, bg := c.p.in.DefaultColors()
	e["w"], e["h"], e["dfg"], e["dbg"] = int(w), int(h), int(fg), int(bg)
	c.p.in.c17Describe(e)
}

// VerifC18Observe adds the projected state of the terminal and of the console to an event.
func VerifC18Observe(e map[string]interface{}, vt *VT, c *VerifC18Console, cp bool) {
	c17Observe(e, vt, c.p, cp)
}
