//go:build verif
// +build verif

package tty

// Conformance harness for C17 (terminal emulator vs. reference terminal) and the common driver
// of C18 (terminal / console agreement).
//
// It contains no oracle: it turns an operation list into calls of the REAL tty.VT (AttachTo,
// WriteByte, SetCursorPosition, SetState), recovers panics into events and logs, per call, the
// projected state (c17_screen_shim.go): CursorPosition(), viewportY, at checkpoints the whole
// buffer as cell codes, and the console side (calls the terminal made, what every console cell
// shows).  Every event is judged by the TLA+ monitor specs/tty/VTTrace.tla.
//
// The cases run in a CHILD process with a CPU-time watchdog: an operation of the code under test
// that does not return within C17_CPU_MS of process CPU time is logged as res:"hang" (that the
// call never returned is an observation for the monitor, not a failure of the machinery); the
// parent restarts the child with the next case.
//
// Entry points (parents):
//   TestVerifC17Cases  : replay the operation lists TLC emitted from VTModel (leg G)
//   TestVerifC17Random : seeded random streams at real scale (leg T)
// env: CASES, TRACE_OUT (+ TRACE_OUT.inputs: the exact input of every case, one line per case),
// VERIF_SEED, VERIF_TIER, VERIF_TTY_CONS (comma list of console kinds: rec | vga | fb; the real
// consoles need c18_consoles_shim.go), VERIF_TTY_KINDMOD, NTRACES, VERIF_LEG.

import (
	"bufio"
	"encoding/json"
	"fmt"
	"math/rand"
	"os"
	"os/exec"
	"strconv"
	"strings"
	"sync"
	"sync/atomic"
	"syscall"
	"testing"
	"time"
)

type c17Geom struct {
	W, H, SB, Tab int
}

type c17Case struct {
	W   int `json:"w"`
	H   int `json:"h"`
	SB  int `json:"sb"`
	Tab int `json:"tab"`
	// default colours of the recording console when TLC chose them (nil: the console configuration decides)
	Dfg *int      `json:"dfg,omitempty"`
	Dbg *int      `json:"dbg,omitempty"`
	Ops [][]int64 `json:"ops"`
	// Br: TLC's list of all operations of the scope; the case stands for Ops + [b] for every b in Br
	Br [][]int64 `json:"br,omitempty"`
	// which console, the seed of its configuration and the checkpoint distance (replay files pin them)
	Kind string `json:"kind"`
	Cfg  int64  `json:"cfg"`
	Cp   int    `json:"cp"`
	ID   int    `json:"id"`
	Leg  string `json:"leg"`
}

// an operation: {0,b} WriteByte(b); {1,x,y} SetCursorPosition (-1 = 2^32-1); {2,a} SetState(a);
// {3,b...} Write(bytes)
func c17Arg(v int64) uint32 {
	if v < 0 {
		return 0xffffffff
	}
	return uint32(v)
}

// ---------------------------------------------------------------------------------------------
// event log + watchdog state (child process)

const c17ExitHang = 77

type c17Log struct {
	mu      sync.Mutex
	w       *bufio.Writer
	enc     *json.Encoder
	seq     int64                  // incremented before every call of the code under test
	active  int32                  // 1 while such a call is in flight
	caseIdx int64                  // index of the running case
	pending map[string]interface{} // kind + arguments of the call in flight
}

func (l *c17Log) emit(e map[string]interface{}) {
	l.mu.Lock()
	l.enc.Encode(e)
	l.mu.Unlock()
}

// call runs f (one call of the code under test) under the watchdog; e holds kind and arguments.
func (l *c17Log) call(e map[string]interface{}, f func() string) (res string) {
	l.mu.Lock()
	l.pending = e
	l.mu.Unlock()
	atomic.AddInt64(&l.seq, 1)
	atomic.StoreInt32(&l.active, 1)
	defer atomic.StoreInt32(&l.active, 0)
	defer func() {
		if x := recover(); x != nil {
			res = "panic"
		}
	}()
	return f()
}

func c17CPU() time.Duration {
	var ru syscall.Rusage
	syscall.Getrusage(syscall.RUSAGE_SELF, &ru)
	return time.Duration(ru.Utime.Nano() + ru.Stime.Nano())
}

func (l *c17Log) watchdog(limit time.Duration, progress string) {
	var seen int64 = -1
	var cpu0 time.Duration
	for {
		time.Sleep(20 * time.Millisecond)
		if atomic.LoadInt32(&l.active) == 0 {
			seen = -1
			continue
		}
		seq, now := atomic.LoadInt64(&l.seq), c17CPU()
		if seq != seen {
			seen, cpu0 = seq, now
			continue
		}
		if now-cpu0 < limit {
			continue
		}
		l.mu.Lock()
		if atomic.LoadInt32(&l.active) == 1 && atomic.LoadInt64(&l.seq) == seq {
			// the call in flight did not return within the CPU budget: that is the observation
			e := map[string]interface{}{}
			for k, v := range l.pending {
				e[k] = v
			}
			e["res"], e["msg"] = "hang", fmt.Sprintf("no return after %d ms of CPU time", (now-cpu0)/time.Millisecond)
			e["cx"], e["cy"], e["vy"], e["cc"], e["out"], e["cp"] = 0, 0, 0, 0, 0, 0
			e["calls"], e["data"], e["scr"] = [][]int{}, []int{}, []int{}
			l.enc.Encode(e)
			l.enc.Encode(map[string]interface{}{"k": "reset"})
			l.w.Flush()
			os.WriteFile(progress, []byte(strconv.FormatInt(atomic.LoadInt64(&l.caseIdx), 10)+"\n"), 0644)
			os.Exit(c17ExitHang)
		}
		l.mu.Unlock()
	}
}

// c17RunCase drives one real VT through c.Ops and logs one event per call.  c.Cp = n: the full
// buffer / screen is logged every n-th event, after every state change and at the end (0, 1: always).
// c.Cfg seeds the generator the console constructor draws its configuration from.
func c17RunCase(l *c17Log, c c17Case) {
	g, ops, cpEvery := c17Geom{c.W, c.H, c.SB, c.Tab}, c.Ops, c.Cp
	c17RecDefault = [2]int{-1, -1}
	if c.Dfg != nil && c.Dbg != nil {
		c17RecDefault = [2]int{*c.Dfg, *c.Dbg}
	}
	cons := VerifC18NewConsole(c.Kind, uint32(g.W), uint32(g.H), rand.New(rand.NewSource(c.Cfg)))
	p := cons.p
	vt := NewVT(uint8(g.Tab), uint32(g.SB))
	e := map[string]interface{}{"k": "attach", "sb": g.SB, "tab": g.Tab, "id": c.ID, "leg": c.Leg}
	cons.Describe(e)
	res := l.call(e, func() string {
		vt.AttachTo(p)
		return "ok"
	})
	e["res"] = res
	c17Observe(e, vt, p, res == "ok")
	l.emit(e)
	for i, op := range ops {
		if res != "ok" {
			break
		}
		e = map[string]interface{}{}
		cp := cpEvery <= 1 || (i+1)%cpEvery == 0 || i == len(ops)-1
		var f func() string
		switch op[0] {
		case 0:
			e["k"], e["b"] = "w", int(op[1])
			f = func() string {
				if err := vt.WriteByte(byte(op[1])); err != nil {
					return "err"
				}
				return "ok"
			}
		case 1:
			x, y := c17Arg(op[1]), c17Arg(op[2])
			e["k"], e["x"], e["y"] = "cur", c17SatU32(x), c17SatU32(y)
			f = func() string { vt.SetCursorPosition(x, y); return "ok" }
		case 3:
			bs, ints := make([]byte, len(op)-1), make([]int, len(op)-1)
			for j, v := range op[1:] {
				bs[j], ints[j] = byte(v), int(byte(v))
			}
			e["k"], e["bs"], e["n"] = "ws", ints, -1
			f = func() string {
				n, err := vt.Write(bs)
				e["n"] = n
				if err != nil {
					return "err"
				}
				return "ok"
			}
		default:
			e["k"], e["a"] = "st", int(op[1])
			cp = true
			f = func() string {
				if op[1] == 1 {
					vt.SetState(StateActive)
				} else {
					vt.SetState(StateInactive)
				}
				return "ok"
			}
		}
		res = l.call(e, f)
		e["res"] = res
		c17Observe(e, vt, p, cp && res == "ok")
		l.emit(e)
	}
	l.emit(map[string]interface{}{"k": "reset"})
}

// ---------------------------------------------------------------------------------------------
// child: runs the cases of TRACE_OUT.inputs from C17_START on, appending to TRACE_OUT
func TestVerifC17Child(t *testing.T) {
	if os.Getenv("C17_CHILD") != "1" {
		t.Skip("child process of TestVerifC17Cases / TestVerifC17Random only")
	}
	start, _ := strconv.Atoi(os.Getenv("C17_START"))
	in, err := os.Open(os.Getenv("TRACE_OUT") + ".inputs")
	if err != nil {
		t.Fatal(err)
	}
	defer in.Close()
	out, err := os.OpenFile(os.Getenv("TRACE_OUT"), os.O_APPEND|os.O_CREATE|os.O_WRONLY, 0644)
	if err != nil {
		t.Fatal(err)
	}
	l := &c17Log{w: bufio.NewWriterSize(out, 1<<20)}
	l.enc = json.NewEncoder(l.w)
	limit, _ := strconv.Atoi(os.Getenv("C17_CPU_MS"))
	if limit == 0 {
		limit = 3000
	}
	go l.watchdog(time.Duration(limit)*time.Millisecond, os.Getenv("C17_PROGRESS"))
	sc := bufio.NewScanner(in)
	sc.Buffer(make([]byte, 1<<24), 1<<24)
	for i := 0; sc.Scan(); i++ {
		if i < start {
			continue
		}
		var c c17Case
		if err := json.Unmarshal(sc.Bytes(), &c); err != nil {
			t.Fatalf("bad input line %d: %v", i, err)
		}
		atomic.StoreInt64(&l.caseIdx, int64(i))
		c17RunCase(l, c)
	}
	l.mu.Lock()
	l.w.Flush()
	out.Close()
	l.mu.Unlock()
}

// c17Drive writes the inputs file and runs the child, restarting it after a call that the watchdog cut off.
func c17Drive(t *testing.T, cases []c17Case) {
	tr := os.Getenv("TRACE_OUT")
	inputs, err := os.Create(tr + ".inputs")
	if err != nil {
		t.Fatal(err)
	}
	bi := bufio.NewWriterSize(inputs, 1<<20)
	ienc := json.NewEncoder(bi)
	leg := os.Getenv("VERIF_LEG")
	for i := range cases {
		cases[i].ID, cases[i].Leg = i, leg
		ienc.Encode(cases[i])
	}
	bi.Flush()
	inputs.Close()
	if err := os.WriteFile(tr, nil, 0644); err != nil {
		t.Fatal(err)
	}
	work := os.Getenv("VERIF_WORK")
	if work == "" {
		work = os.TempDir()
	}
	progress := fmt.Sprintf("%s/c17.progress.%d", work, os.Getpid())
	defer os.Remove(progress)
	start, hangs := 0, 0
	for start < len(cases) {
		cmd := exec.Command(os.Args[0], "-test.run", "^TestVerifC17Child$", "-test.timeout", "3000s")
		cmd.Env = append(os.Environ(), "C17_CHILD=1", "C17_START="+strconv.Itoa(start), "C17_PROGRESS="+progress)
		outb, err := cmd.CombinedOutput()
		if err == nil {
			break
		}
		ee, ok := err.(*exec.ExitError)
		if !ok || ee.ExitCode() != c17ExitHang {
			t.Fatalf("child process failed: %v\n%s", err, outb)
		}
		b, rerr := os.ReadFile(progress)
		if rerr != nil {
			t.Fatal(rerr)
		}
		ci, _ := strconv.Atoi(strings.TrimSpace(string(b)))
		start = ci + 1
		if hangs++; hangs >= 8 {
			break // the code under test keeps hanging: the remaining cases are skipped
		}
	}
	os.WriteFile(tr+".status", []byte(fmt.Sprintf("{\"done\":1,\"cases\":%d,\"hangs\":%d}\n", len(cases), hangs)), 0644)
}

func c17Seed() *rand.Rand {
	seed, _ := strconv.ParseInt(os.Getenv("VERIF_SEED"), 10, 64)
	return rand.New(rand.NewSource(seed))
}

func c17Kinds() []string {
	k := os.Getenv("VERIF_TTY_CONS")
	if k == "" {
		k = "rec"
	}
	return strings.Split(k, ",")
}

// leg G: operation lists emitted by TLC from the small-scope model, on every requested console kind.
func TestVerifC17Cases(t *testing.T) {
	rng := c17Seed()
	in, err := os.Open(os.Getenv("CASES"))
	if err != nil {
		t.Fatal(err)
	}
	defer in.Close()
	kinds := c17Kinds()
	kindMod, _ := strconv.Atoi(os.Getenv("VERIF_TTY_KINDMOD"))
	n := 0
	var cases []c17Case
	sc := bufio.NewScanner(in)
	sc.Buffer(make([]byte, 1<<24), 1<<24)
	for sc.Scan() {
		line := sc.Bytes()
		if len(line) == 0 {
			continue
		}
		if line[0] == '"' { // CSVWrite of ToJson(..) yields a JSON string literal containing JSON
			var s string
			if err := json.Unmarshal(line, &s); err != nil {
				t.Fatalf("bad case line: %v", err)
			}
			line = []byte(s)
		}
		var c c17Case
		if err := json.Unmarshal(line, &c); err != nil {
			t.Fatalf("bad case %q: %v", line, err)
		}
		if c.Kind != "" { // a replay file: everything is pinned
			cases = append(cases, c)
			continue
		}
		exp := []c17Case{c}
		if len(c.Br) > 0 {
			exp = exp[:0]
			for _, b := range c.Br {
				e := c
				e.Br = nil
				e.Ops = append(append([][]int64{}, c.Ops...), b)
				exp = append(exp, e)
			}
		}
		for _, e := range exp {
			n++
			for _, k := range kinds {
				if k != "rec" && kindMod > 1 && n%kindMod != 0 {
					continue // the real consoles replay every kindMod-th case
				}
				e.Kind, e.Cfg = k, int64(rng.Int31())
				cases = append(cases, e)
			}
		}
	}
	c17Drive(t, cases)
}

// ---------------------------------------------------------------------------------------------
// leg T: random streams at real scale.
type c17Scale struct {
	g     c17Geom
	n     int // stream length
	cp    int // checkpoint distance
	burst int // longest run of printable bytes
}

func c17Scales(quick bool, rng *rand.Rand) []c17Scale {
	big := 10000
	mid := 3000
	if quick {
		big, mid = 1200, 600
	}
	n1 := 2 + rng.Intn(30)
	s := []c17Scale{
		{c17Geom{80, 25, 80, 4}, big, 211, 200},
		{c17Geom{80, 25, 0, 8}, mid, 97, 200},
		{c17Geom{7, 4, 3, 4}, mid, 1, 20},
		{c17Geom{7, 4, 3, 8}, mid / 2, 1, 20},
		{c17Geom{1, n1, 2, 1}, mid / 2, 1, 5},
		{c17Geom{1, 1, 0, 1}, 200, 1, 3},
		{c17Geom{n1 + 1, 1, 0, 0}, mid / 2, 1, 2 * n1},
		{c17Geom{n1 + 1, 1, 3, 8}, mid / 2, 1, 2 * n1},
		{c17Geom{5, 3, 0, 1}, mid / 2, 1, 12},
		{c17Geom{2 + rng.Intn(12), 1 + rng.Intn(6), rng.Intn(5), rng.Intn(10)}, mid, 1, 30},
		{c17Geom{2 + rng.Intn(40), 2 + rng.Intn(10), rng.Intn(12), rng.Intn(3) * 4}, mid, 13, 60},
		{c17Geom{3, 2, 1, 255}, 300, 7, 4}, // the widest tab a terminal can have (uint8), and the one below
		{c17Geom{4, 3, 2, 254}, 200, 5, 4},
		{c17Geom{2, 2, 150 + rng.Intn(200), 3}, mid * 2, 1 + mid/3, 3},                         // scrollback far longer than the viewport, used up
		{c17Geom{132, 50, 10, 8}, mid, 151, 300},                                               // a wide text mode
		{c17Geom{1 + rng.Intn(6), 1 + rng.Intn(4), rng.Intn(3), rng.Intn(256)}, mid / 2, 1, 8}, // any tab width
	}
	return s
}

func c17Stream(rng *rand.Rand, sc c17Scale) [][]int64 {
	g := sc.g
	var ops [][]int64
	edge := func(hi int) int64 {
		switch rng.Intn(10) {
		case 0:
			return 0
		case 1:
			return int64(hi)
		case 2:
			return int64(hi + 1)
		case 3:
			return -1 // 2^32-1
		case 4:
			return 1 << 31
		case 5:
			return int64(g.H + g.SB)
		case 6:
			return int64(g.H + g.SB + 1)
		default:
			return int64(rng.Intn(hi + 2))
		}
	}
	printable := func() int64 {
		switch k := rng.Intn(12); {
		case k == 0: // neighbours of the four control bytes, glyph-class corner cases of the cp437 fonts
			return int64([]int{0, 1, 7, 11, 12, 14, 27, 31, 127, 128, 160, 219, 220, 221, 222, 223, 255}[rng.Intn(17)])
		case k <= 2: // any byte value that is not one of the four control bytes
			for {
				if b := rng.Intn(256); b != 8 && b != 9 && b != 10 && b != 13 {
					return int64(b)
				}
			}
		}
		return int64(33 + rng.Intn(94))
	}
	anyByte := func() int64 {
		switch k := rng.Intn(10); {
		case k < 2:
			return '\n'
		case k == 2:
			return int64([]int{'\r', '\b', '\t'}[rng.Intn(3)])
		}
		return printable()
	}
	for len(ops) < sc.n {
		switch k := rng.Intn(100); {
		case k < 30:
			ops = append(ops, []int64{0, printable()})
		case k < 40: // a run that reaches the end of the line
			n := 1 + rng.Intn(sc.burst)
			for i := 0; i < n; i++ {
				ops = append(ops, []int64{0, printable()})
			}
		case k < 58:
			ops = append(ops, []int64{0, '\n'})
		case k < 62: // several line feeds: walk through the scrollback
			n := 1 + rng.Intn(g.H+g.SB+2)
			for i := 0; i < n; i++ {
				ops = append(ops, []int64{0, '\n'})
			}
		case k < 68:
			ops = append(ops, []int64{0, '\r'})
		case k < 78:
			ops = append(ops, []int64{0, '\b'})
		case k < 86:
			ops = append(ops, []int64{0, '\t'})
		case k < 87:
			ops = append(ops, []int64{0, ' '})
		case k < 91: // a byte stream handed over with one Write call
			op := []int64{3}
			for n := rng.Intn(2*g.W + 3); n > 0; n-- {
				op = append(op, anyByte())
			}
			ops = append(ops, op)
		case k < 95:
			ops = append(ops, []int64{1, edge(g.W), edge(g.H)})
		default:
			ops = append(ops, []int64{2, int64(rng.Intn(2))})
		}
	}
	return ops[:sc.n]
}

func TestVerifC17Random(t *testing.T) {
	rng := c17Seed()
	quick := os.Getenv("VERIF_TIER") != "thorough"
	rounds, _ := strconv.Atoi(os.Getenv("NTRACES"))
	if rounds == 0 {
		rounds = 1
	}
	kinds := c17Kinds()
	var cases []c17Case
	for r := 0; r < rounds; r++ {
		for _, sc := range c17Scales(quick, rng) {
			// big screens go to one console kind per round, the others to every requested kind
			ks := kinds
			if sc.g.W*sc.g.H > 400 {
				ks = []string{kinds[rng.Intn(len(kinds))]}
			}
			for _, kind := range ks {
				ops := c17Stream(rng, sc)
				cases = append(cases, c17Case{W: sc.g.W, H: sc.g.H, SB: sc.g.SB, Tab: sc.g.Tab, Ops: ops, Kind: kind,
					Cfg: int64(rng.Int31()), Cp: sc.cp})
			}
		}
	}
	c17Drive(t, cases)
}
