//go:build verif
// +build verif

package tty

// Conformance harness for C17 (terminal emulator vs. reference terminal) and the
// common driver of C18 (terminal / console agreement).
//
// It contains no oracle: it turns an operation list into calls of the REAL tty.VT
// (AttachTo, WriteByte, SetCursorPosition, SetState), recovers panics into events
// and logs, per call, the projected state: CursorPosition(), viewportY, at
// checkpoints the whole buffer as cell codes, and the console side (calls the
// terminal made, what every console cell shows).  Every event is judged by the
// TLA+ monitor specs/tty/VTTrace.tla.
//
// Cell code = ((bg*257)+fg)*256+ch  (fg 256 = "any", see specs/tty/VT.tla).
// uint32 arguments are logged saturated at 2^30 (TLC integers are 32 bit).
//
// Entry points:
//   TestVerifC17Cases  : replay the operation lists TLC emitted from VTModel (leg G)
//   TestVerifC17Random : seeded random streams at real scale (leg T)
// env: CASES, TRACE_OUT, VERIF_SEED, VERIF_TIER, VERIF_TTY_CONS (comma list of console
// kinds: rec | vga | fb; the real consoles need c18_consoles_test.go), NTRACES.

import (
	"bufio"
	"encoding/json"
	"image/color"
	"math/rand"
	"os"
	"strconv"
	"strings"
	"testing"

	"github.com/ProjectSerenity/firefly/kernel/device/video/console"
)

const c17Sat = 1 << 30

func c17SatU32(v uint32) int {
	if v > c17Sat {
		return c17Sat
	}
	return int(v)
}

func c17Code(ch, fg, bg uint8) int { return ((int(bg)*257)+int(fg))*256 + int(ch) }

// c17Screen is a console whose cell contents can be projected.
type c17Screen interface {
	console.Device
	// c17Cells returns what every cell of the grid shows, row by row, as cell codes (-1 = garbage).
	c17Cells() []int
	// c17Outside returns the number of bytes outside the cell grid that differ from their value at set-up time.
	c17Outside() int
	// c17Describe adds the description of the console (kind, glyph classes, configuration) to the attach event.
	c17Describe(e map[string]interface{})
}

// ---------------------------------------------------------------------------------------------
// recording console: a plain grid that stores what the terminal tells it (in-range semantics of
// the shipped text console: Write stores the triple, Scroll moves lines, Fill stores blanks).
type c17RecCons struct {
	w, h  uint32
	cells []int
}

func newC17RecCons(w, h uint32) *c17RecCons {
	c := &c17RecCons{w: w, h: h, cells: make([]int, w*h)}
	for i := range c.cells {
		c.cells[i] = c17Code('?', 9, 9) // something the terminal never writes, so a redraw is visible
	}
	return c
}
func (c *c17RecCons) Dimensions(console.Dimension) (uint32, uint32) { return c.w, c.h }
func (c *c17RecCons) DefaultColors() (uint8, uint8)                 { return 7, 0 }
func (c *c17RecCons) Fill(x, y, w, h uint32, fg, bg uint8) {
	// the cells of the rectangle [x, x+w) x [y, y+h) that exist
	for yy := uint64(1); yy <= uint64(c.h); yy++ {
		for xx := uint64(1); xx <= uint64(c.w); xx++ {
			if xx >= uint64(x) && xx < uint64(x)+uint64(w) && yy >= uint64(y) && yy < uint64(y)+uint64(h) {
				c.cells[(yy-1)*uint64(c.w)+xx-1] = c17Code(' ', fg, bg)
			}
		}
	}
}
func (c *c17RecCons) Scroll(dir console.ScrollDir, lines uint32) {
	if lines == 0 || lines > c.h {
		return
	}
	if dir == console.ScrollDirUp {
		copy(c.cells, c.cells[lines*c.w:])
	} else {
		copy(c.cells[lines*c.w:], c.cells[:(c.h-lines)*c.w])
	}
}
func (c *c17RecCons) Write(ch byte, fg, bg uint8, x, y uint32) {
	if x >= 1 && y >= 1 && x <= c.w && y <= c.h {
		c.cells[(y-1)*c.w+x-1] = c17Code(ch, fg, bg)
	}
}
func (c *c17RecCons) Palette() color.Palette            { return nil }
func (c *c17RecCons) SetPaletteColor(uint8, color.RGBA) {}
func (c *c17RecCons) c17Cells() []int                   { return append([]int(nil), c.cells...) }
func (c *c17RecCons) c17Outside() int                   { return 0 }
func (c *c17RecCons) c17Describe(e map[string]interface{}) {
	e["cons"] = "rec"
	e["gc"], e["gi"] = []int{}, []int{}
}

// ---------------------------------------------------------------------------------------------
// c17Proxy sits between the terminal and the console and records every call.
type c17Proxy struct {
	in    c17Screen
	cc    int
	calls [][]int
}

func (p *c17Proxy) Dimensions(d console.Dimension) (uint32, uint32) { return p.in.Dimensions(d) }
func (p *c17Proxy) DefaultColors() (uint8, uint8)                   { return p.in.DefaultColors() }
func (p *c17Proxy) Palette() color.Palette                          { return p.in.Palette() }
func (p *c17Proxy) SetPaletteColor(i uint8, c color.RGBA) {
	p.cc++
	p.in.SetPaletteColor(i, c)
}
func (p *c17Proxy) Fill(x, y, w, h uint32, fg, bg uint8) {
	p.cc++
	p.calls = append(p.calls, []int{2, c17SatU32(x), c17SatU32(y), c17SatU32(w), c17SatU32(h), int(fg), int(bg)})
	if x > 1<<12 || y > 1<<12 || w > 1<<12 || h > 1<<12 {
		// Logged (the monitor rejects a call outside the grid) but not forwarded: the clipping of the shipped
		// consoles wraps for such arguments and then loops for minutes (C19); the terminal never makes
		// such a call on the unchanged tree.
		return
	}
	p.in.Fill(x, y, w, h, fg, bg)
}
func (p *c17Proxy) Scroll(dir console.ScrollDir, lines uint32) {
	p.cc++
	p.calls = append(p.calls, []int{3, int(dir), c17SatU32(lines)})
	p.in.Scroll(dir, lines)
}
func (p *c17Proxy) Write(ch byte, fg, bg uint8, x, y uint32) {
	p.cc++
	p.calls = append(p.calls, []int{1, int(ch), int(fg), int(bg), c17SatU32(x), c17SatU32(y)})
	p.in.Write(ch, fg, bg, x, y)
}

// ---------------------------------------------------------------------------------------------
type c17Geom struct {
	W, H, SB, Tab int
}

// c17MakeConsole builds a console of w x h cells of the given kind.  The real consoles are
// registered by c18_consoles_test.go.
var c17MakeConsole = map[string]func(t *testing.T, w, h uint32, rng *rand.Rand) c17Screen{
	"rec": func(_ *testing.T, w, h uint32, _ *rand.Rand) c17Screen { return newC17RecCons(w, h) },
}

type c17Log struct {
	enc    *json.Encoder
	ienc   *json.Encoder // the exact input of every case, one line per case, for replay files
	events int
	cases  int
}

func (l *c17Log) emit(e map[string]interface{}) { l.enc.Encode(e); l.events++ }

// an operation: {0,b} WriteByte(b); {1,x,y} SetCursorPosition (-1 = 2^32-1); {2,a} SetState(a)
func c17Arg(v int64) uint32 {
	if v < 0 {
		return 0xffffffff
	}
	return uint32(v)
}

func c17Observe(e map[string]interface{}, vt *VT, p *c17Proxy, cp bool) {
	x, y := vt.CursorPosition()
	e["cx"], e["cy"], e["vy"] = c17SatU32(x), c17SatU32(y), c17SatU32(vt.viewportY)
	e["cc"] = p.cc
	if p.calls == nil {
		e["calls"] = [][]int{}
	} else {
		e["calls"] = p.calls
	}
	e["out"] = p.in.c17Outside()
	if cp {
		n := len(vt.data) / 3
		d := make([]int, n)
		for i := 0; i < n; i++ {
			d[i] = c17Code(vt.data[3*i], vt.data[3*i+1], vt.data[3*i+2])
		}
		e["cp"], e["data"], e["scr"] = 1, d, p.in.c17Cells()
	} else {
		e["cp"], e["data"], e["scr"] = 0, []int{}, []int{}
	}
	p.cc, p.calls = 0, nil
}

// c17RunCase drives one real VT through c.Ops and logs one event per call.  c.Cp = n: the full
// buffer / screen is logged every n-th event, after every state change and at the end (0, 1: always).
// c.Cfg seeds the generator the console constructor draws its configuration from.
func c17RunCase(t *testing.T, l *c17Log, c c17Case) {
	kind, g, ops, cpEvery := c.Kind, c17Geom{c.W, c.H, c.SB, c.Tab}, c.Ops, c.Cp
	mk := c17MakeConsole[kind]
	if mk == nil {
		t.Fatalf("console kind %q is not available in this build", kind)
	}
	c.ID, c.Leg = l.cases, os.Getenv("VERIF_LEG")
	l.ienc.Encode(c)
	scr := mk(t, uint32(g.W), uint32(g.H), rand.New(rand.NewSource(c.Cfg)))
	p := &c17Proxy{in: scr}
	vt := NewVT(uint8(g.Tab), uint32(g.SB))
	e := map[string]interface{}{"k": "attach", "sb": g.SB, "tab": g.Tab, "id": c.ID, "leg": os.Getenv("VERIF_LEG")}
	res := func() (r string) {
		defer func() {
			if x := recover(); x != nil {
				r = "panic"
			}
		}()
		vt.AttachTo(p)
		return "ok"
	}()
	w, h := scr.Dimensions(console.Characters)
	fg, bg := scr.DefaultColors()
	e["w"], e["h"], e["dfg"], e["dbg"], e["res"] = int(w), int(h), int(fg), int(bg), res
	scr.c17Describe(e)
	c17Observe(e, vt, p, res == "ok")
	l.emit(e)
	for i, op := range ops {
		if res != "ok" {
			break
		}
		e = map[string]interface{}{}
		cp := cpEvery <= 1 || (i+1)%cpEvery == 0 || i == len(ops)-1
		res = func() (r string) {
			defer func() {
				if x := recover(); x != nil {
					r = "panic"
				}
			}()
			switch op[0] {
			case 0:
				e["k"], e["b"] = "w", int(op[1])
				if err := vt.WriteByte(byte(op[1])); err != nil {
					return "err"
				}
			case 1:
				x, y := c17Arg(op[1]), c17Arg(op[2])
				e["k"], e["x"], e["y"] = "cur", c17SatU32(x), c17SatU32(y)
				vt.SetCursorPosition(x, y)
			case 2:
				e["k"], e["a"] = "st", int(op[1])
				cp = true
				if op[1] == 1 {
					vt.SetState(StateActive)
				} else {
					vt.SetState(StateInactive)
				}
			}
			return "ok"
		}()
		e["res"] = res
		c17Observe(e, vt, p, cp && res == "ok")
		l.emit(e)
	}
	l.emit(map[string]interface{}{"k": "reset"})
	l.cases++
}

func c17Open(t *testing.T) (*c17Log, *rand.Rand, func()) {
	seed, _ := strconv.ParseInt(os.Getenv("VERIF_SEED"), 10, 64)
	out, err := os.Create(os.Getenv("TRACE_OUT"))
	if err != nil {
		t.Fatal(err)
	}
	inputs, err := os.Create(os.Getenv("TRACE_OUT") + ".inputs")
	if err != nil {
		t.Fatal(err)
	}
	bw := bufio.NewWriterSize(out, 1<<20)
	bi := bufio.NewWriterSize(inputs, 1<<20)
	l := &c17Log{enc: json.NewEncoder(bw), ienc: json.NewEncoder(bi)}
	return l, rand.New(rand.NewSource(seed)), func() {
		bw.Flush()
		bi.Flush()
		out.Close()
		inputs.Close()
		os.Stdout.WriteString("VERIF-STATS cases=" + strconv.Itoa(l.cases) + " events=" + strconv.Itoa(l.events) + "\n")
	}
}

func c17Kinds() []string {
	k := os.Getenv("VERIF_TTY_CONS")
	if k == "" {
		k = "rec"
	}
	return strings.Split(k, ",")
}

type c17Case struct {
	W   int       `json:"w"`
	H   int       `json:"h"`
	SB  int       `json:"sb"`
	Tab int       `json:"tab"`
	Ops [][]int64 `json:"ops"`
	// Br: TLC's list of all operations of the scope; the case stands for Ops + [b] for every b in Br
	Br [][]int64 `json:"br,omitempty"`
	// which console, the seed of its configuration and the checkpoint distance (replay files pin them)
	Kind string `json:"kind"`
	Cfg  int64  `json:"cfg"`
	Cp   int    `json:"cp"`
	ID   int    `json:"id"`
	Leg  string `json:"leg"`
}

// leg G: operation lists emitted by TLC from the small-scope model, on every requested console kind.
func TestVerifC17Cases(t *testing.T) {
	l, rng, done := c17Open(t)
	defer done()
	in, err := os.Open(os.Getenv("CASES"))
	if err != nil {
		t.Fatal(err)
	}
	defer in.Close()
	kinds := c17Kinds()
	kindMod, _ := strconv.Atoi(os.Getenv("VERIF_TTY_KINDMOD"))
	n := 0
	sc := bufio.NewScanner(in)
	sc.Buffer(make([]byte, 1<<24), 1<<24)
	for sc.Scan() {
		line := sc.Bytes()
		if len(line) == 0 {
			continue
		}
		if line[0] == '"' { // CSVWrite of ToJson(..) yields a JSON string literal containing JSON
			var s string
			if err := json.Unmarshal(line, &s); err != nil {
				t.Fatalf("bad case line: %v", err)
			}
			line = []byte(s)
		}
		var c c17Case
		if err := json.Unmarshal(line, &c); err != nil {
			t.Fatalf("bad case %q: %v", line, err)
		}
		if c.Kind != "" { // a replay file: everything is pinned
			c17RunCase(t, l, c)
			continue
		}
		exp := []c17Case{c}
		if len(c.Br) > 0 {
			exp = exp[:0]
			for _, b := range c.Br {
				e := c
				e.Br = nil
				e.Ops = append(append([][]int64{}, c.Ops...), b)
				exp = append(exp, e)
			}
		}
		for _, e := range exp {
			n++
			for _, k := range kinds {
				if k != "rec" && kindMod > 1 && n%kindMod != 0 {
					continue // the real consoles replay every kindMod-th case
				}
				e.Kind, e.Cfg = k, int64(rng.Int31())
				c17RunCase(t, l, e)
			}
		}
	}
}

// ---------------------------------------------------------------------------------------------
// leg T: random streams at real scale.
type c17Scale struct {
	g     c17Geom
	n     int // stream length
	cp    int // checkpoint distance
	burst int // longest run of printable bytes
}

func c17Scales(quick bool, rng *rand.Rand) []c17Scale {
	big := 10000
	mid := 3000
	if quick {
		big, mid = 1200, 600
	}
	n1 := 2 + rng.Intn(30)
	s := []c17Scale{
		{c17Geom{80, 25, 80, 4}, big, 211, 200},
		{c17Geom{80, 25, 0, 8}, mid, 97, 200},
		{c17Geom{7, 4, 3, 4}, mid, 1, 20},
		{c17Geom{7, 4, 3, 8}, mid / 2, 1, 20},
		{c17Geom{1, n1, 2, 1}, mid / 2, 1, 5},
		{c17Geom{1, 1, 0, 1}, 200, 1, 3},
		{c17Geom{n1 + 1, 1, 0, 0}, mid / 2, 1, 2 * n1},
		{c17Geom{n1 + 1, 1, 3, 8}, mid / 2, 1, 2 * n1},
		{c17Geom{5, 3, 0, 1}, mid / 2, 1, 12},
		{c17Geom{2 + rng.Intn(12), 1 + rng.Intn(6), rng.Intn(5), rng.Intn(10)}, mid, 1, 30},
		{c17Geom{2 + rng.Intn(40), 2 + rng.Intn(10), rng.Intn(12), rng.Intn(3) * 4}, mid, 13, 60},
		{c17Geom{3, 2, 1, 255}, 300, 7, 4},
	}
	return s
}

func c17Stream(rng *rand.Rand, sc c17Scale) [][]int64 {
	g := sc.g
	var ops [][]int64
	edge := func(hi int) int64 {
		switch rng.Intn(10) {
		case 0:
			return 0
		case 1:
			return int64(hi)
		case 2:
			return int64(hi + 1)
		case 3:
			return -1 // 2^32-1
		case 4:
			return 1 << 31
		case 5:
			return int64(g.H + g.SB)
		case 6:
			return int64(g.H + g.SB + 1)
		default:
			return int64(rng.Intn(hi + 2))
		}
	}
	printable := func() int64 {
		if rng.Intn(12) == 0 {
			return int64([]int{0, 1, 7, 11, 12, 14, 27, 31, 127, 128, 160, 219, 255}[rng.Intn(13)])
		}
		return int64(33 + rng.Intn(94))
	}
	for len(ops) < sc.n {
		switch k := rng.Intn(100); {
		case k < 30:
			ops = append(ops, []int64{0, printable()})
		case k < 40: // a run that reaches the end of the line
			n := 1 + rng.Intn(sc.burst)
			for i := 0; i < n; i++ {
				ops = append(ops, []int64{0, printable()})
			}
		case k < 58:
			ops = append(ops, []int64{0, '\n'})
		case k < 62: // several line feeds: walk through the scrollback
			n := 1 + rng.Intn(g.H+g.SB+2)
			for i := 0; i < n; i++ {
				ops = append(ops, []int64{0, '\n'})
			}
		case k < 68:
			ops = append(ops, []int64{0, '\r'})
		case k < 78:
			ops = append(ops, []int64{0, '\b'})
		case k < 86:
			ops = append(ops, []int64{0, '\t'})
		case k < 88:
			ops = append(ops, []int64{0, ' '})
		case k < 95:
			ops = append(ops, []int64{1, edge(g.W), edge(g.H)})
		default:
			ops = append(ops, []int64{2, int64(rng.Intn(2))})
		}
	}
	return ops[:sc.n]
}

func TestVerifC17Random(t *testing.T) {
	l, rng, done := c17Open(t)
	defer done()
	quick := os.Getenv("VERIF_TIER") != "thorough"
	rounds, _ := strconv.Atoi(os.Getenv("NTRACES"))
	if rounds == 0 {
		rounds = 1
	}
	kinds := c17Kinds()
	for r := 0; r < rounds; r++ {
		for _, sc := range c17Scales(quick, rng) {
			// big screens go to one console kind per round, the others to every requested kind
			ks := kinds
			if sc.g.W*sc.g.H > 400 {
				ks = []string{kinds[rng.Intn(len(kinds))]}
			}
			for _, kind := range ks {
				ops := c17Stream(rng, sc)
				c17RunCase(t, l, c17Case{W: sc.g.W, H: sc.g.H, SB: sc.g.SB, Tab: sc.g.Tab, Ops: ops, Kind: kind,
					Cfg: int64(rng.Int31()), Cp: sc.cp})
			}
		}
	}
}
