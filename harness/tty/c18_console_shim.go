//go:build verif
// +build verif

// Export shim for the C18 harness (package tty): it is overlaid into package console as
// zz_verif_c18_shim.go by `go test -overlay` and never exists in the repository.  The shipped
// consoles map their frame buffer through the unexported seam mapRegionFn and program the VGA DAC
// through portWriteByteFn (the repository's own tests rebind the same two variables); a harness
// outside the package needs a way to bind them to host memory.  Nothing else is exported.
package console

import (
	"github.com/ProjectSerenity/firefly/kernel"
	"github.com/ProjectSerenity/firefly/kernel/mm"
	"github.com/ProjectSerenity/firefly/kernel/mm/vmm"
)

// VerifC18BindSeams makes DriverInit of the shipped consoles map their frame buffer at the host
// address fbAddr (page aligned) and turns DAC port writes into no-ops.  mapped receives the size
// DriverInit asked for.
func VerifC18BindSeams(fbAddr uintptr, mapped func(size uintptr)) {
	mapRegionFn = func(_ mm.Frame, size uintptr, _ vmm.PageTableEntryFlag) (mm.Page, *kernel.Error) {
		if mapped != nil {
			mapped(size)
		}
		return mm.PageFromAddress(fbAddr), nil
	}
	portWriteByteFn = func(uint16, uint8) {}
}
