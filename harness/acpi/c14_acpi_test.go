//go:build verif
// +build verif

package acpi

// Conformance harness for C14 (ACPI table discovery).
//
// It contains no oracle.  An abstract firmware image (root-pointer candidates
// of the BIOS search window, the two root tables, the tables with a good or
// corrupted checksum, the FADT's DSDT pointers; see specs/acpi/AcpiEnum.tla) is
// laid out in ACPI's packed binary format inside a MAP_32BIT arena, so that
// 32-bit table pointers are real addresses and identityMapFn is the identity;
// structures reachable through 64-bit pointers only (XSDT, the tables it lists,
// the DSDT behind X_DSDT) may be placed in a second area above 4 GiB whose
// addresses modulo 2^32 are inaccessible, so a truncated pointer faults.
// rsdpLocationLow/Hi are pointed at a window of the real size (8192 slots);
// window and table area each end flush against a PROT_NONE page.  The REAL
// probeForACPI and DriverInit run on it; one JSON event per image is logged:
// the abstract image plus what the real code did.  The TLA+ monitor AcpiTrace
// decides.
//
//   TestVerifC14Cases  : images TLC enumerated in the small scope (leg G, env CASES -> TRACE_G)
//   TestVerifC14Random : seeded random images at real scale (leg T, env NTRACES -> TRACE_T)
//
// The images are processed by a child process (this binary re-executed) so that
// a fatal error or a non-terminating call of the code under test is a logged
// result ("crash" / "hang"), like a memory fault ("fault") or a panic.

import (
	"bufio"
	"bytes"
	"encoding/binary"
	"encoding/json"
	"fmt"
	"math/rand"
	"os"
	"os/exec"
	"path/filepath"
	"runtime"
	"runtime/debug"
	"sort"
	"strconv"
	"strings"
	"syscall"
	"testing"
	"time"
	"unsafe"

	"github.com/ProjectSerenity/firefly/kernel"
	"github.com/ProjectSerenity/firefly/kernel/mm"
	"github.com/ProjectSerenity/firefly/kernel/mm/vmm"
)

type c14Cand struct {
	Slot int  `json:"slot"`
	Rev  int  `json:"rev"`
	Sig  bool `json:"sig"` // false: the last signature byte is wrong (near miss)
	S20  bool `json:"s20"`
	S36  bool `json:"s36"`
	Tail int  `json:"tail"`
	// LenF: what the structure's own Length field says, plus one (0: the usual 36).  Only decoys whose 36 bytes do
	// not sum to zero carry a value other than 36, and only values below 36: what a rejected structure claims about
	// its own length is firmware garbage, and the checksum is over the 36 bytes of the structure (seeded C14-n).
	LenF int `json:"lenf,omitempty"`
}

type c14Table struct {
	Sig  string `json:"sig"`
	Len  int    `json:"len"`
	Bad  int    `json:"bad"`
	P32  int    `json:"p32"`
	P64  int    `json:"p64"`
	High bool   `json:"high"` // placed above 4 GiB (reachable through 64-bit pointers only)
}

type c14Img struct {
	Cands  []c14Cand  `json:"cands"`
	Rsdt   []int      `json:"rsdt"`
	Xsdt   []int      `json:"xsdt"`
	Tables []c14Table `json:"tables"`
	Xhigh  bool       `json:"xhigh"` // the 64-bit root table sits above 4 GiB
}

type c14Case struct {
	Img   c14Img `json:"img"`
	Scale bool   `json:"scale"` // slots 1..4 of the model are mapped onto the real window
	Fill  int    `json:"fill"`  // seed of the bytes the specification does not talk about (0: zero background)
}

type c14Job struct {
	Leg  string  `json:"leg"`
	Case c14Case `json:"case"`
}

type c14Ev map[string]interface{}

const (
	c14WindowSize = 0x20000
	c14TablePages = 96
	c14Cap        = 3000
)

var (
	c14le      = binary.LittleEndian
	c14SlotMap = []int{0, 3, 4100, 8189, 4101, 4102} // model slots 1..6 (a revision-0 candidate in model slot 4 sits in 8190, the last slot it fits in)
)

// ---------------------------------------------------------------- firmware memory

type c14Arena struct {
	mem    []byte
	window []byte // the BIOS search area, followed by an inaccessible page
	tables []byte // table area, followed by an inaccessible page
	high   []byte // second table area at or above 4 GiB, followed by an inaccessible page; its addresses
	// taken modulo 2^32 are reserved PROT_NONE, so a truncated 64-bit pointer faults
	dirty []int         // window offsets written by the previous image
	used  map[*byte]int // per table area: offset from which the previous image wrote
}

const c14MapFixedNoReplace = 0x100000

func c14MmapAt(addr uintptr, n int, prot int) (uintptr, bool) {
	flags := syscall.MAP_ANON | syscall.MAP_PRIVATE
	if addr != 0 {
		flags |= c14MapFixedNoReplace
	}
	r, _, e := syscall.Syscall6(syscall.SYS_MMAP, addr, uintptr(n), uintptr(prot), uintptr(flags), ^uintptr(0), 0)
	if e != 0 {
		return 0, false
	}
	if addr != 0 && r != addr { // kernel without MAP_FIXED_NOREPLACE treated it as a hint
		syscall.Syscall(syscall.SYS_MUNMAP, r, uintptr(n), 0)
		return 0, false
	}
	return r, true
}

// c14HighArea maps the table area above 4 GiB and makes its low alias (address mod 2^32) inaccessible.
func c14HighArea(t *testing.T) []byte {
	n := (c14TablePages + 1) * 4096
	for _, hint := range []uintptr{0x234567000, 0x312345000, 0x56789a000, 0x1fedcb000, 0x7abcde000, 0} {
		hi, ok := c14MmapAt(hint, n, syscall.PROT_READ|syscall.PROT_WRITE)
		if !ok {
			continue
		}
		if hi < 1<<32 {
			syscall.Syscall(syscall.SYS_MUNMAP, hi, uintptr(n), 0)
			continue
		}
		if _, ok := c14MmapAt(hi&0xffffffff, n, syscall.PROT_NONE); !ok && hint != 0 {
			syscall.Syscall(syscall.SYS_MUNMAP, hi, uintptr(n), 0)
			continue
		}
		mem := (*[1 << 30]byte)(unsafe.Pointer(hi))[:n:n] // (the module's language version predates unsafe.Slice)
		if err := syscall.Mprotect(mem[n-4096:], syscall.PROT_NONE); err != nil {
			t.Fatal(err)
		}
		return mem[:n-4096]
	}
	t.Fatal("no memory above 4 GiB for the high table area")
	return nil
}

func c14NewArena(t *testing.T) *c14Arena {
	total := c14WindowSize + 4096 + c14TablePages*4096 + 4096
	mem, err := syscall.Mmap(-1, 0, total, syscall.PROT_READ|syscall.PROT_WRITE, syscall.MAP_ANON|syscall.MAP_PRIVATE|syscall.MAP_32BIT)
	if err != nil {
		t.Fatal(err)
	}
	if err := syscall.Mprotect(mem[c14WindowSize:c14WindowSize+4096], syscall.PROT_NONE); err != nil {
		t.Fatal(err)
	}
	if err := syscall.Mprotect(mem[total-4096:], syscall.PROT_NONE); err != nil {
		t.Fatal(err)
	}
	a := &c14Arena{mem: mem, window: mem[:c14WindowSize], tables: mem[c14WindowSize+4096 : total-4096], high: c14HighArea(t)}
	if uint64(uintptr(unsafe.Pointer(&mem[0])))+uint64(total) > 1<<32 {
		t.Fatal("arena not below 4 GiB")
	}
	return a
}

func c14Addr(b []byte) uintptr { return uintptr(unsafe.Pointer(&b[0])) }

func c14FixSum(b []byte, at int) {
	b[at] = 0
	var s uint8
	for _, x := range b {
		s += x
	}
	b[at] = -s
}

type c14Layout struct {
	tableAddr []uintptr // per table of the image (index 0 = table 1)
	rsdt      uintptr
	xsdt      uintptr
}

// c14Build lays the image out in memory.  Trusted encoder: it knows nothing about the expected outcome.
func (a *c14Arena) build(c *c14Case) c14Layout {
	img := &c.Img
	rng := rand.New(rand.NewSource(int64(c.Fill) + 1))
	// ---- window background
	if c.Fill != 0 {
		rng.Read(a.window)
		// make sure the noise holds no root-pointer signature of its own
		for i := 0; i+8 <= len(a.window); i += 16 {
			if a.window[i] == 'R' && a.window[i+1] == 'S' {
				a.window[i] = 'r'
			}
		}
		a.dirty = a.dirty[:0]
	} else {
		for _, off := range a.dirty {
			for i := off; i < off+48 && i < len(a.window); i++ {
				a.window[i] = 0
			}
		}
		a.dirty = a.dirty[:0]
		if a.window[c14WindowSize-1] != 0 || a.window[5] != 0 { // left over from a noisy image
			for i := range a.window {
				a.window[i] = 0
			}
		}
	}
	// ---- tables: listed order rotated by the fill seed, the last one ends flush against the guard page
	type placed struct {
		idx int // table index (1-based), -1 rsdt, -2 xsdt
		n   int
		gap int
	}
	// a table that a 32-bit pointer refers to cannot live above 4 GiB (the logged image tells what was built)
	for _, ti := range img.Rsdt {
		img.Tables[ti-1].High = false
	}
	for i := range img.Tables {
		if img.Tables[i].P32 != 0 {
			img.Tables[img.Tables[i].P32-1].High = false
		}
	}
	var order, orderHi []placed
	for i, tb := range img.Tables {
		if tb.High {
			orderHi = append(orderHi, placed{idx: i + 1, n: tb.Len})
		} else {
			order = append(order, placed{idx: i + 1, n: tb.Len})
		}
	}
	order = append(order, placed{idx: -1, n: 36 + 4*len(img.Rsdt)})
	if img.Xhigh {
		orderHi = append(orderHi, placed{idx: -2, n: 36 + 8*len(img.Xsdt)})
	} else {
		order = append(order, placed{idx: -2, n: 36 + 8*len(img.Xsdt)})
	}
	lay := c14Layout{tableAddr: make([]uintptr, len(img.Tables))}
	mem := map[int][]byte{}
	place := func(area []byte, order []placed) {
		if len(order) == 0 {
			return
		}
		rot := (c.Fill + len(img.Cands) + len(img.Rsdt)) % len(order)
		order = append(order[rot:], order[:rot]...)
		total := 0
		for i := range order {
			if c.Fill != 0 {
				order[i].gap = rng.Intn(48)
			} else {
				order[i].gap = 4
			}
			if i == len(order)-1 {
				order[i].gap = 0
			}
			total += order[i].n + order[i].gap
		}
		if total+64 > len(area) {
			panic("c14: table area too small")
		}
		off := len(area) - total
		// wipe what the previous image left (and a margin in front of this one)
		if a.used == nil {
			a.used = map[*byte]int{}
		}
		lo, seen := a.used[&area[0]]
		if !seen || lo > off-64 {
			lo = off - 64
		}
		if !seen {
			lo = 0
		}
		for i := lo; i < len(area); i++ {
			area[i] = 0xa5
		}
		a.used[&area[0]] = off - 64
		for _, p := range order {
			mem[p.idx] = area[off : off+p.n]
			switch p.idx {
			case -1:
				lay.rsdt = c14Addr(area[off:])
			case -2:
				lay.xsdt = c14Addr(area[off:])
			default:
				lay.tableAddr[p.idx-1] = c14Addr(area[off:])
			}
			off += p.n + p.gap
		}
	}
	place(a.tables, order)
	place(a.high, orderHi)
	header := func(b []byte, sig string, rev byte) {
		copy(b, sig)
		c14le.PutUint32(b[4:], uint32(len(b)))
		b[8] = rev
		copy(b[10:], "VERIF ")
		copy(b[16:], "FIREFLY ")
		c14le.PutUint32(b[24:], 1)
		copy(b[28:], "TLA+")
		c14le.PutUint32(b[32:], 2)
	}
	for i, tb := range img.Tables {
		b := mem[i+1]
		for j := range b {
			b[j] = byte(rng.Intn(256))
		}
		header(b, tb.Sig, byte(1+i%4))
		if tb.P32 != 0 || tb.P64 != 0 || tb.Sig == "FACP" {
			// FADT, ACPI binary layout: DSDT at 40, X_DSDT at 140
			var p32, p64 uint64
			if tb.P32 != 0 {
				p32 = uint64(lay.tableAddr[tb.P32-1])
			}
			if tb.P64 != 0 {
				p64 = uint64(lay.tableAddr[tb.P64-1])
			}
			c14le.PutUint32(b[36:], 0)
			c14le.PutUint32(b[40:], uint32(p32))
			if tb.Len >= 148 {
				c14le.PutUint64(b[132:], 0)
				c14le.PutUint64(b[140:], p64)
			} else if p64 != 0 {
				panic("c14: FADT too short for a 64-bit DSDT pointer")
			}
		}
		c14FixSum(b, 9)
		if tb.Bad >= 0 {
			b[tb.Bad] ^= byte(1 + rng.Intn(255))
		}
	}
	rb := mem[-1]
	header(rb, "RSDT", 1) // real firmware: root tables carry revision 1
	for i, ti := range img.Rsdt {
		c14le.PutUint32(rb[36+4*i:], uint32(lay.tableAddr[ti-1]))
	}
	c14FixSum(rb, 9)
	xb := mem[-2]
	header(xb, "XSDT", 1)
	for i, ti := range img.Xsdt {
		c14le.PutUint64(xb[36+8*i:], uint64(lay.tableAddr[ti-1]))
	}
	c14FixSum(xb, 9)
	// ---- root-pointer candidates, in address order.  A structure occupies 20 (revision 0) or 36 bytes; the encoder
	// also writes what follows it (for revision 0: other firmware memory that happens to look like the extension).
	// Candidates may be neighbours: a revision-0 one may be followed 2 slots later (only its trailing memory is
	// overwritten), a revision-0 decoy / near miss even in the next slot (its last 4 bytes are then the
	// neighbour's "RSD ").  A structure never crosses the end of the window.
	for ci := range img.Cands {
		cd := &img.Cands[ci]
		if c.Scale {
			m := c14SlotMap[cd.Slot-1]
			if cd.Slot == 4 && cd.Rev == 0 {
				m = 8190
			}
			cd.Slot = m
		}
	}
	sort.SliceStable(img.Cands, func(i, j int) bool { return img.Cands[i].Slot < img.Cands[j].Slot })
	for ci := range img.Cands {
		cd := &img.Cands[ci]
		need := 36
		if cd.Rev == 0 {
			need = 20
		}
		off := cd.Slot * 16
		if off+need > len(a.window) {
			panic("c14: root-pointer structure crosses the end of the search window")
		}
		if ci > 0 {
			pv := img.Cands[ci-1]
			d := cd.Slot - pv.Slot
			if !(d >= 3 || d == 2 && pv.Rev == 0 || d == 1 && pv.Rev == 0 && !(pv.Sig && pv.S20)) {
				panic("c14: overlapping root-pointer candidates")
			}
		}
		a.dirty = append(a.dirty, off)
		var p [40]byte
		copy(p[:], "RSD PTR ")
		copy(p[9:], "VERIF ")
		if c.Fill != 0 {
			for i := 9; i < 15; i++ {
				p[i] = byte(rng.Intn(256))
			}
		}
		p[15] = byte(cd.Rev)
		c14le.PutUint32(p[16:], uint32(lay.rsdt))
		c14le.PutUint32(p[20:], 36)
		if cd.LenF > 0 {
			c14le.PutUint32(p[20:], uint32(cd.LenF-1))
		}
		c14le.PutUint64(p[24:], uint64(lay.xsdt))
		if !cd.Sig {
			p[7] = '_'
		}
		p[36] = byte(cd.Tail)
		if c.Fill != 0 && cd.Tail != 0 {
			p[37], p[38], p[39] = byte(rng.Intn(256)), byte(rng.Intn(256)), byte(rng.Intn(256))
		}
		copy(a.window[off:], p[:]) // (cut at the end of the window)
	}
	// checksums last, in address order, on the bytes as they ended up (neighbours overlap)
	for ci := range img.Cands {
		cd := &img.Cands[ci]
		p := a.window[cd.Slot*16:]
		c14FixSum(p[:20], 8)
		if !cd.S20 {
			p[8] += byte(1 + rng.Intn(255))
		}
		if cd.Rev != 0 {
			c14FixSum(p[:36], 32)
			if !cd.S36 {
				p[32] += byte(1 + rng.Intn(255))
			}
		} else if len(p) >= 36 && (ci == len(img.Cands)-1 || img.Cands[ci+1].Slot-cd.Slot >= 3) {
			c14FixSum(p[:36], 32) // trailing memory of a revision-0 structure, made to look like a valid extension
			if !cd.S36 {
				p[32] += byte(1 + rng.Intn(255))
			}
		} else {
			cd.S36 = false // there is no such trailing memory (window ends / a neighbour sits there)
		}
	}
	c.Scale = false
	return lay
}

// ---------------------------------------------------------------- running the real driver

func c14Guarded(f func()) (res string) {
	defer func() {
		if r := recover(); r != nil {
			res = "panic"
			if e, ok := r.(runtime.Error); ok {
				if _, isAddr := e.(interface{ Addr() uintptr }); isAddr || strings.Contains(e.Error(), "fault address") || strings.Contains(e.Error(), "invalid memory address") {
					res = "fault"
				}
			}
		}
	}()
	f()
	return "ok"
}

func c14Observe(a *c14Arena, img *c14Img, lay c14Layout) c14Ev {
	mapFn = func(mm.Page, mm.Frame, vmm.PageTableEntryFlag) *kernel.Error { return nil }
	unmapFn = func(mm.Page) *kernel.Error { return nil }
	identityMapFn = func(f mm.Frame, _ uintptr, _ vmm.PageTableEntryFlag) (mm.Page, *kernel.Error) { return mm.Page(f), nil }
	rsdpLocationLow = c14Addr(a.window)
	rsdpLocationHi = c14Addr(a.window) + c14WindowSize - 1

	obs := c14Ev{"probe": "", "root": "", "init": "", "map": [][2]interface{}{}, "rep": []string{}}
	var drv *acpiDriver
	res := c14Guarded(func() {
		if d := probeForACPI(); d != nil {
			drv = d.(*acpiDriver)
		}
	})
	switch {
	case res != "ok":
		obs["probe"] = res
		return obs
	case drv == nil:
		obs["probe"] = "none"
		return obs
	}
	obs["probe"] = "found"
	switch drv.rsdtAddr {
	case lay.rsdt:
		obs["root"] = "rsdt"
	case lay.xsdt:
		obs["root"] = "xsdt"
	default:
		obs["root"] = "other"
	}
	var log bytes.Buffer
	var initErr *kernel.Error
	res = c14Guarded(func() { initErr = drv.DriverInit(&log) })
	if res == "ok" && initErr != nil {
		res = "error"
	}
	obs["init"] = res
	keys := make([]string, 0, len(drv.tableMap))
	for k := range drv.tableMap {
		keys = append(keys, k)
	}
	sort.Strings(keys)
	if len(keys) > c14Cap {
		keys = keys[:c14Cap]
	}
	m := [][2]interface{}{}
	for _, k := range keys {
		idx := 0
		for i, ad := range lay.tableAddr {
			if uintptr(unsafe.Pointer(drv.tableMap[k])) == ad {
				idx = i + 1
			}
		}
		m = append(m, [2]interface{}{k, idx})
	}
	obs["map"] = m
	rep := []string{}
	text := log.String()
	seen := map[string]bool{}
	for _, tb := range img.Tables {
		if !seen[tb.Sig] && strings.Contains(text, tb.Sig) {
			rep = append(rep, tb.Sig)
		}
		seen[tb.Sig] = true
	}
	obs["rep"] = rep
	return obs
}

func c14CPU() time.Duration {
	var ru syscall.Rusage
	syscall.Getrusage(syscall.RUSAGE_SELF, &ru)
	return time.Duration(ru.Utime.Nano() + ru.Stime.Nano())
}

func c14DeadObs(res string) c14Ev {
	return c14Ev{"probe": res, "root": "", "init": "", "map": []int{}, "rep": []int{}}
}

// TestVerifC14Child is the worker: it processes the jobs of C14_CHILD_IN and appends one event per job to C14_CHILD_OUT.
func TestVerifC14Child(t *testing.T) {
	in, outp := os.Getenv("C14_CHILD_IN"), os.Getenv("C14_CHILD_OUT")
	if in == "" || outp == "" {
		t.Skip("worker of TestVerifC14Cases / TestVerifC14Random")
	}
	raw, err := os.ReadFile(in)
	if err != nil {
		t.Fatal(err)
	}
	var jobs []c14Job
	if err := json.Unmarshal(raw, &jobs); err != nil {
		t.Fatal(err)
	}
	out, err := os.OpenFile(outp, os.O_CREATE|os.O_WRONLY|os.O_TRUNC, 0644)
	if err != nil {
		t.Fatal(err)
	}
	defer out.Close()
	syscall.Setrlimit(9 /* RLIMIT_AS */, &syscall.Rlimit{Cur: 3 << 30, Max: 3 << 30})
	syscall.Setrlimit(syscall.RLIMIT_CPU, &syscall.Rlimit{Cur: 300, Max: 300})
	arena := c14NewArena(t)
	for i := range jobs {
		c := &jobs[i].Case
		var lay c14Layout
		func() {
			// a failure of the image builder is a defect of this harness, never a result of the code under test
			defer func() {
				if r := recover(); r != nil {
					line, _ := json.Marshal(c14Ev{"k": "harness", "msg": fmt.Sprint(r)})
					out.Write(append(line, '\n'))
					out.Close()
					os.Exit(8)
				}
			}()
			lay = arena.build(c)
		}()
		done := make(chan c14Ev, 1)
		go func() {
			debug.SetPanicOnFault(true)
			done <- c14Observe(arena, &c.Img, lay)
		}()
		var obs c14Ev
		hang := false
		cpu0 := c14CPU()
		tick := time.NewTicker(50 * time.Millisecond)
	wait:
		for {
			select {
			case obs = <-done:
				break wait
			case <-tick.C:
				// non-termination is decided by CPU time, not wall clock (the machine may be busy)
				if c14CPU()-cpu0 > 5*time.Second {
					hang = true
					obs = c14DeadObs("hang")
					break wait
				}
			}
		}
		tick.Stop()
		line, _ := json.Marshal(c14Ev{"k": "acpi", "leg": jobs[i].Leg, "img": c.Img, "fill": c.Fill, "obs": obs})
		out.Write(append(line, '\n')) // unbuffered: the parent counts these lines when we die
		if hang {
			out.Close()
			os.Exit(7) // the spinning goroutine cannot be stopped
		}
	}
}

// c14RunIsolated processes all jobs in child processes and writes the events (plus the end marker) to the file named by env.
func c14RunIsolated(t *testing.T, env string, jobs []c14Job) {
	path := os.Getenv(env)
	if path == "" {
		t.Skip(env + " not set")
	}
	work := os.Getenv("VERIF_WORK")
	if work == "" {
		work = os.TempDir()
	}
	f, err := os.Create(path)
	if err != nil {
		t.Fatal(err)
	}
	defer f.Close()
	w := bufio.NewWriterSize(f, 1<<20)
	defer w.Flush()
	in := filepath.Join(work, "c14_child_in."+env+".json")
	outp := filepath.Join(work, "c14_child_out."+env+".ndjson")
	defer os.Remove(in)
	defer os.Remove(outp)
	n, dead := 0, 0
	for len(jobs) > 0 && dead < 6 {
		raw, _ := json.Marshal(jobs)
		if err := os.WriteFile(in, raw, 0644); err != nil {
			t.Fatal(err)
		}
		os.Remove(outp)
		cmd := exec.Command(os.Args[0], "-test.run=^TestVerifC14Child$", "-test.timeout=600s")
		cmd.Env = append(os.Environ(), "C14_CHILD_IN="+in, "C14_CHILD_OUT="+outp)
		msg, runErr := cmd.CombinedOutput()
		got := 0
		hung := false
		if cf, err := os.Open(outp); err == nil {
			sc := bufio.NewScanner(cf)
			sc.Buffer(make([]byte, 1<<20), 1<<26)
			for sc.Scan() {
				var probe struct {
					K   string `json:"k"`
					Msg string `json:"msg"`
					Obs struct {
						Probe string `json:"probe"`
					} `json:"obs"`
				}
				if json.Unmarshal(sc.Bytes(), &probe) != nil {
					break // torn last line of a dying child
				}
				if probe.K == "harness" {
					t.Fatalf("harness error while building job %d: %s", n+got, probe.Msg)
				}
				w.Write(sc.Bytes())
				w.WriteByte('\n')
				got++
				hung = probe.Obs.Probe == "hang"
			}
			cf.Close()
		}
		n += got
		if got > len(jobs) {
			t.Fatalf("child wrote %d events for %d jobs", got, len(jobs))
		}
		jobs = jobs[got:]
		if runErr == nil && len(jobs) == 0 {
			break
		}
		if hung {
			dead++
			continue
		}
		if len(jobs) == 0 {
			t.Fatalf("child failed after its last job: %v\n%s", runErr, c14Tail(msg, 2000))
		}
		// the child died while processing jobs[0]
		c := &jobs[0].Case
		line, _ := json.Marshal(c14Ev{"k": "acpi", "leg": jobs[0].Leg, "img": c.Img, "fill": c.Fill, "scale": c.Scale,
			"obs": c14DeadObs("crash"), "note": c14Tail(msg, 400)})
		w.Write(append(line, '\n'))
		n++
		dead++
		jobs = jobs[1:]
	}
	line, _ := json.Marshal(c14Ev{"k": "end", "n": n, "dead": dead, "skipped": len(jobs)})
	w.Write(append(line, '\n'))
}

func c14Tail(b []byte, n int) string {
	s := string(b)
	if i := strings.Index(s, "fatal error"); i >= 0 {
		s = s[i:]
	} else if i := strings.Index(s, "panic:"); i >= 0 {
		s = s[i:]
	}
	if len(s) > n {
		s = s[:n]
	}
	return s
}

func TestVerifC14Cases(t *testing.T) {
	f, err := os.Open(os.Getenv("CASES"))
	if err != nil {
		t.Skip("CASES not set")
	}
	defer f.Close()
	exact := os.Getenv("VERIF_C14_EXACT") != ""
	var jobs []c14Job
	sc := bufio.NewScanner(f)
	sc.Buffer(make([]byte, 1<<20), 1<<26)
	for sc.Scan() {
		if len(sc.Bytes()) == 0 {
			continue
		}
		var c c14Case
		if err := json.Unmarshal(sc.Bytes(), &c); err != nil {
			t.Fatalf("bad case line: %v", err)
		}
		if !exact {
			c.Scale = true
			c.Fill = 0
		}
		jobs = append(jobs, c14Job{"G", c})
	}
	c14RunIsolated(t, "TRACE_G", jobs)
}

// ---------------------------------------------------------------- leg T: seeded random images at real scale

var c14Sigs = []string{"APIC", "SSDT", "HPET", "MCFG", "BGRT", "WAET", "SRAT", "SLIT", "TPM2", "DMAR", "ECDT", "SBST", "BOOT", "UEFI", "MSDM", "LPIT"}

func c14RandImage(rng *rand.Rand) c14Case {
	var img c14Img
	// ---- tables: any number (now and then hundreds), any length from the bare header to beyond 64 KiB
	nt := rng.Intn(5)
	if rng.Intn(4) == 0 {
		nt = rng.Intn(13)
	}
	if rng.Intn(40) == 0 {
		nt = 17 + rng.Intn(300)
	}
	perm := rng.Perm(len(c14Sigs))
	sigOf := func(i int) string {
		if nt <= len(c14Sigs) {
			return c14Sigs[perm[i]]
		}
		return string([]byte{"QTXZ"[i%4], byte('0' + i/100%10), byte('0' + i/10%10), byte('0' + i%10)})
	}
	mkBad := func(n int) int {
		if rng.Intn(3) != 0 {
			return -1
		}
		switch rng.Intn(4) {
		case 0:
			return n - 1
		case 1:
			return 8 + rng.Intn(2)
		default:
			return 8 + rng.Intn(n-8)
		}
	}
	budget := 200000 // bytes of table area left for big tables
	tlen := func(max int) int {
		n := 36 + rng.Intn(3)*rng.Intn(max)
		if rng.Intn(30) == 0 && budget > 0 {
			n = []int{255, 256, 257, 4096, 4097, 65535, 65536, 65537, 70000 + rng.Intn(30000)}[rng.Intn(9)]
			budget -= n
		}
		return n
	}
	for i := 0; i < nt; i++ {
		n := tlen(200)
		if nt > 40 {
			n = 36 + rng.Intn(3)*rng.Intn(20)
		}
		img.Tables = append(img.Tables, c14Table{Sig: sigOf(i), Len: n, Bad: mkBad(n)})
	}
	rev := []int{0, 0, 0, 2, 2, 2, 2, 1, 3, 255}[rng.Intn(10)]
	fadt := 0
	if rng.Intn(5) < 3 {
		n := tlen(400)
		img.Tables = append(img.Tables, c14Table{Sig: "DSDT", Len: n, Bad: mkBad(n)})
		d := len(img.Tables)
		fl := []int{116, 244, 268, 276}[rng.Intn(4)]
		ft := c14Table{Sig: "FACP", Len: fl, Bad: mkBad(fl)}
		mode := rng.Intn(3)
		if fl == 116 || (rev == 0 && mode == 1) {
			mode = 0
		}
		switch mode {
		case 0:
			ft.P32 = d
		case 1:
			ft.P64 = d
		default:
			ft.P32, ft.P64 = d, d
		}
		img.Tables = append(img.Tables, ft)
		fadt = len(img.Tables)
	}
	// ---- the two root tables list different subsets (in different orders) of the tables; the DSDT is listed by neither
	list := func() []int {
		out := []int{}
		for _, i := range rng.Perm(len(img.Tables)) {
			if img.Tables[i].Sig != "DSDT" && (rng.Intn(4) != 0 || i+1 == fadt && rng.Intn(2) == 0) {
				out = append(out, i+1)
			}
		}
		return out
	}
	img.Rsdt, img.Xsdt = list(), list()
	// ---- 64-bit reachable structures may sit above 4 GiB (the builder lowers whatever a 32-bit pointer refers to)
	img.Xhigh = rng.Intn(2) == 0
	if rng.Intn(3) != 0 {
		for i := range img.Tables {
			img.Tables[i].High = rng.Intn(2) == 0
		}
	}
	// ---- search window: possibly one valid root pointer anywhere it fits (revision 0: slots 0..8190, else 0..8189),
	// decoys (bad checksum) and near misses (bad signature) before and after it, also in the neighbouring slots
	tail := func() int {
		if rng.Intn(2) == 0 {
			return 0
		}
		return 1 + rng.Intn(255)
	}
	last := func(r int) int {
		if r == 0 {
			return 8190
		}
		return 8189
	}
	decoy := func(slot, r int) c14Cand {
		cd := c14Cand{Slot: slot, Rev: r, Sig: true, S20: rng.Intn(2) == 0, S36: false, Tail: tail()}
		if r == 0 {
			cd.S20 = false
			cd.S36 = rng.Intn(2) == 0
		}
		if rng.Intn(5) == 0 {
			cd.Sig, cd.S20, cd.S36 = false, true, true // near-miss signature, otherwise a perfect structure
		} else if r != 0 && rng.Intn(2) == 0 {
			// the decoy's own Length field: 0, the 20 legacy bytes, anything below 36 (its legacy sum is then
			// mostly valid: the structure that a "sum over Length bytes" would wrongly accept)
			cd.LenF = 1 + []int{0, 20, 20, rng.Intn(36)}[rng.Intn(4)]
			cd.S20 = rng.Intn(4) != 0
		}
		return cd
	}
	var cands []c14Cand
	if rng.Intn(10) != 0 {
		s := rng.Intn(last(rev) + 1)
		if rng.Intn(5) == 0 {
			s = []int{0, 1, 2, last(rev) - 2, last(rev) - 1, last(rev)}[rng.Intn(6)]
		}
		cands = append(cands, c14Cand{Slot: s, Rev: rev, Sig: true, S20: true, S36: true, Tail: tail()})
		// neighbours of the valid one
		if rng.Intn(4) == 0 && s >= 2 {
			cands = append(cands, decoy(s-1-rng.Intn(2), 0))
		}
		if rng.Intn(6) == 0 && rev == 0 && s+2 <= 8189 {
			cands = append(cands, decoy(s+2, []int{0, 2}[rng.Intn(2)]))
		}
	}
	for i := rng.Intn(4) + rng.Intn(2)*rng.Intn(4); i > 0; i-- {
		r := []int{0, 2, 2, rev}[rng.Intn(4)]
		s := rng.Intn(last(r) + 1)
		if rng.Intn(6) == 0 {
			s = []int{0, 1, 2, last(r) - 2, last(r) - 1, last(r)}[rng.Intn(6)]
		}
		cands = append(cands, decoy(s, r))
	}
	// keep a candidate only if it is compatible with those kept before it (the valid one first)
	ok := func(a, b c14Cand) bool { // a below b
		d := b.Slot - a.Slot
		return d >= 3 || d == 2 && a.Rev == 0 || d == 1 && a.Rev == 0 && !(a.Sig && a.S20)
	}
	for _, cd := range cands {
		fits := true
		for _, k := range img.Cands {
			if k.Slot == cd.Slot || k.Slot < cd.Slot && !ok(k, cd) || cd.Slot < k.Slot && !ok(cd, k) {
				fits = false
			}
		}
		if fits {
			img.Cands = append(img.Cands, cd)
		}
	}
	sort.Slice(img.Cands, func(i, j int) bool { return img.Cands[i].Slot < img.Cands[j].Slot })
	if img.Cands == nil {
		img.Cands = []c14Cand{}
	}
	if img.Tables == nil {
		img.Tables = []c14Table{}
	}
	return c14Case{Img: img, Fill: 1 + rng.Intn(1<<30)}
}

func TestVerifC14Random(t *testing.T) {
	if os.Getenv("TRACE_T") == "" {
		t.Skip("TRACE_T not set")
	}
	seed, _ := strconv.ParseInt(os.Getenv("VERIF_SEED"), 10, 64)
	n, _ := strconv.Atoi(os.Getenv("NTRACES"))
	if n == 0 {
		n = 200
	}
	rng := rand.New(rand.NewSource(seed*104729 + 14))
	var jobs []c14Job
	for i := 0; i < n; i++ {
		jobs = append(jobs, c14Job{"T", c14RandImage(rng)})
	}
	c14RunIsolated(t, "TRACE_T", jobs)
}
