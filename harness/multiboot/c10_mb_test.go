//go:build verif
// +build verif

package multiboot

// Conformance harness for C10 (multiboot information decoding).
//
// It contains no oracle.  An abstract information block (a list of tags, see
// specs/multiboot/Mb2.tla) is encoded into bytes, placed flush against a
// PROT_NONE page (the section-name string table likewise), handed to the REAL
// package through SetInfoPtr and decoded by the four public functions.  One
// JSON event per block is logged: the abstract block that was encoded plus
// what the real code reported.  The TLA+ monitor Mb2Trace decides.
//
//   TestVerifC10Cases  : replays the blocks TLC enumerated in the small scope (leg G, env CASES -> TRACE_G)
//   TestVerifC10Random : seeded random large blocks (leg T, env NTRACES -> TRACE_T)
//
// A memory fault of the code under test is a logged result ("fault"), so is a
// panic; the decoding runs in a child process so that a fatal runtime error
// ("crash") or a decoder that never returns ("hang") is a logged result too.

import (
	"bufio"
	"encoding/binary"
	"encoding/json"
	"fmt"
	"math/rand"
	"os"
	"os/exec"
	"path/filepath"
	"runtime"
	"runtime/debug"
	"sort"
	"strconv"
	"strings"
	"syscall"
	"testing"
	"time"
	"unsafe"
)

type c10Ent struct {
	A [4]int `json:"a"`
	L [4]int `json:"l"`
	T [2]int `json:"t"`
}

type c10Sec struct {
	Ni int    `json:"ni"`
	St int    `json:"st"` // section type (not reported by the kernel; the string-table section gets 3)
	Fl [2]int `json:"fl"`
	Ad [4]int `json:"ad"`
	Sz [4]int `json:"sz"`
}

type c10Tag struct {
	K      string   `json:"k"`
	S      []int    `json:"s"`
	Es     int      `json:"es"`
	Ev     int      `json:"ev"` // memory-map entry version (not reported by the kernel)
	Ents   []c10Ent `json:"ents"`
	Addr   [4]int   `json:"addr"`
	Pitch  [2]int   `json:"pitch"`
	W      [2]int   `json:"w"`
	H      [2]int   `json:"h"`
	Bpp    int      `json:"bpp"`
	Ft     int      `json:"ft"`
	Ci     []int    `json:"ci"`
	Shndx  int      `json:"shndx"`
	Secs   []c10Sec `json:"secs"`
	Strtab []int    `json:"strtab"`
	Ty     int      `json:"ty"`
	Len    int      `json:"len"`
	Fill   uint32   `json:"fill"`
}

type c10Case struct {
	Blk  []c10Tag `json:"blk"`
	Padb int      `json:"padb"`
}

type c10Ev map[string]interface{}

func c10U64(w [4]int) uint64 {
	return uint64(w[0])<<48 | uint64(w[1])<<32 | uint64(w[2])<<16 | uint64(w[3])
}
func c10U32(w [2]int) uint32 { return uint32(w[0])<<16 | uint32(w[1]) }
func c10W64(v uint64) [4]int {
	return [4]int{int(v >> 48 & 0xffff), int(v >> 32 & 0xffff), int(v >> 16 & 0xffff), int(v & 0xffff)}
}
func c10W32(v uint32) [2]int { return [2]int{int(v >> 16), int(v & 0xffff)} }

// c10Cap bounds what is logged when the code under test reports garbage (far above any well-formed case of this harness).
const c10Cap = 3000

func c10Ints(b []byte) []int {
	if len(b) > 4*c10Cap {
		b = b[:4*c10Cap]
	}
	out := make([]int, len(b))
	for i, x := range b {
		out[i] = int(x)
	}
	return out
}

// ---------------------------------------------------------------- guarded memory

// c10Arena is a read/write mapping followed by an inaccessible page.
type c10Arena struct {
	mem  []byte
	size int // usable bytes before the guard page
	used int // start offset of the block placed last (0: arena never wiped)
}

func c10NewArena(t *testing.T, pages int) *c10Arena {
	mem, err := syscall.Mmap(-1, 0, (pages+1)*4096, syscall.PROT_READ|syscall.PROT_WRITE, syscall.MAP_ANON|syscall.MAP_PRIVATE)
	if err != nil {
		t.Fatal(err)
	}
	if err := syscall.Mprotect(mem[pages*4096:], syscall.PROT_NONE); err != nil {
		t.Fatal(err)
	}
	return &c10Arena{mem: mem, size: pages * 4096}
}

// place copies b so that its last byte is the last accessible byte and returns its address.
func (a *c10Arena) place(b []byte) uintptr {
	if len(b) > a.size-64 {
		panic("c10: arena too small")
	}
	start := a.size - len(b)
	// wipe what the previous block left (and a margin in front of this one)
	lo := start - 256
	if a.used < lo {
		lo = a.used
	}
	if lo < 0 || a.used == 0 {
		lo = 0
	}
	for i := range a.mem[lo:a.size] {
		a.mem[lo+i] = 0x5a
	}
	a.used = start
	copy(a.mem[start:a.size], b)
	if len(b) == 0 {
		return uintptr(unsafe.Pointer(&a.mem[0])) + uintptr(a.size)
	}
	return uintptr(unsafe.Pointer(&a.mem[start]))
}

// ---------------------------------------------------------------- encoder (abstract block -> bytes); trusted, knows no expected result

var c10le = binary.LittleEndian

func c10Encode(c *c10Case, strtabs func(int) *c10Arena) []byte {
	b := make([]byte, 8)
	padb := byte(c.Padb)
	nElf := 0
	for ti := range c.Blk {
		tg := &c.Blk[ti]
		var ty uint32
		var body []byte
		switch tg.K {
		case "cmd":
			ty = 1
			for _, ch := range tg.S {
				body = append(body, byte(ch))
			}
			body = append(body, 0)
		case "mmap":
			ty = 6
			body = make([]byte, 8)
			c10le.PutUint32(body[0:], uint32(tg.Es))
			c10le.PutUint32(body[4:], uint32(tg.Ev))
			for _, en := range tg.Ents {
				e := make([]byte, tg.Es)
				for i := range e {
					e[i] = 0xcc
				}
				c10le.PutUint64(e[0:], c10U64(en.A))
				c10le.PutUint64(e[8:], c10U64(en.L))
				c10le.PutUint32(e[16:], c10U32(en.T))
				c10le.PutUint32(e[20:], 0)
				body = append(body, e...)
			}
		case "fb":
			ty = 8
			body = make([]byte, 24)
			c10le.PutUint64(body[0:], c10U64(tg.Addr))
			c10le.PutUint32(body[8:], c10U32(tg.Pitch))
			c10le.PutUint32(body[12:], c10U32(tg.W))
			c10le.PutUint32(body[16:], c10U32(tg.H))
			body[20] = byte(tg.Bpp)
			body[21] = byte(tg.Ft)
			for _, x := range tg.Ci {
				body = append(body, byte(x))
			}
		case "elf":
			ty = 9
			// the string table lives outside the block, flush against its own guard page
			st := make([]byte, len(tg.Strtab))
			for i, x := range tg.Strtab {
				st[i] = byte(x)
			}
			// (one arena per ELF tag of the block: a later duplicate must not overwrite the first tag's table)
			addr := strtabs(nElf).place(st)
			nElf++
			if len(tg.Secs) > 0 { // (an empty section table has no string-table section to point anywhere)
				tg.Secs[tg.Shndx].Ad = c10W64(uint64(addr))
			}
			body = make([]byte, 12)
			c10le.PutUint32(body[0:], uint32(len(tg.Secs)))
			c10le.PutUint32(body[4:], 64)
			c10le.PutUint32(body[8:], uint32(tg.Shndx))
			for si, s := range tg.Secs {
				h := make([]byte, 64)
				c10le.PutUint32(h[0:], uint32(s.Ni))
				if si == tg.Shndx {
					c10le.PutUint32(h[4:], 3)
				} else {
					c10le.PutUint32(h[4:], uint32(s.St))
				}
				c10le.PutUint64(h[8:], uint64(c10U32(s.Fl)))
				c10le.PutUint64(h[16:], c10U64(s.Ad))
				c10le.PutUint64(h[24:], 0x1000*uint64(si+1))
				c10le.PutUint64(h[32:], c10U64(s.Sz))
				c10le.PutUint32(h[40:], 0)
				c10le.PutUint32(h[44:], 0)
				c10le.PutUint64(h[48:], 16)
				c10le.PutUint64(h[56:], 0)
				body = append(body, h...)
			}
		default:
			ty = uint32(tg.Ty)
			body = make([]byte, tg.Len)
			var w [4]byte
			c10le.PutUint32(w[:], tg.Fill)
			for i := range body {
				body[i] = w[i%4]
			}
		}
		h := make([]byte, 8)
		c10le.PutUint32(h[0:], ty)
		c10le.PutUint32(h[4:], uint32(8+len(body)))
		b = append(b, h...)
		b = append(b, body...)
		for len(b)%8 != 0 {
			b = append(b, padb)
		}
	}
	b = append(b, 0, 0, 0, 0, 8, 0, 0, 0)
	c10le.PutUint32(b[0:], uint32(len(b)))
	return b
}

// c10Abstract renders the block that was encoded (the string-table address is the real one by now).
func c10Abstract(c *c10Case) []c10Ev {
	out := []c10Ev{}
	for _, tg := range c.Blk {
		switch tg.K {
		case "cmd":
			s := tg.S
			if s == nil {
				s = []int{}
			}
			out = append(out, c10Ev{"k": "cmd", "s": s})
		case "mmap":
			ents := tg.Ents
			if ents == nil {
				ents = []c10Ent{}
			}
			out = append(out, c10Ev{"k": "mmap", "es": tg.Es, "ev": tg.Ev, "ents": ents})
		case "fb":
			ci := tg.Ci
			if ci == nil {
				ci = []int{}
			}
			out = append(out, c10Ev{"k": "fb", "addr": tg.Addr, "pitch": tg.Pitch, "w": tg.W, "h": tg.H, "bpp": tg.Bpp, "ft": tg.Ft, "ci": ci})
		case "elf":
			secs, st := tg.Secs, tg.Strtab
			if secs == nil {
				secs = []c10Sec{}
			}
			if st == nil {
				st = []int{}
			}
			out = append(out, c10Ev{"k": "elf", "shndx": tg.Shndx, "secs": secs, "strtab": st})
		default:
			out = append(out, c10Ev{"k": "other", "ty": tg.Ty, "len": tg.Len, "fill": int(tg.Fill)})
		}
	}
	return out
}

// ---------------------------------------------------------------- running the real decoders

// c10Guarded runs f and turns a memory fault / panic into a result string.
func c10Guarded(f func()) (res string) {
	defer func() {
		if r := recover(); r != nil {
			res = "panic"
			if e, ok := r.(runtime.Error); ok {
				if _, isAddr := e.(interface{ Addr() uintptr }); isAddr || strings.Contains(e.Error(), "fault address") || strings.Contains(e.Error(), "invalid memory address") {
					res = "fault"
				}
			}
		}
	}()
	f()
	return "ok"
}

func c10Observe(addr uintptr) c10Ev {
	SetInfoPtr(addr)
	cmdLineKV = nil

	regs := []c10Ev{}
	mmRes := c10Guarded(func() {
		n := 0
		VisitMemRegions(func(e *MemoryMapEntry) bool {
			regs = append(regs, c10Ev{"a": c10W64(e.PhysAddress), "l": c10W64(e.Length), "t": c10W32(uint32(e.Type))})
			n++
			return n < c10Cap // (well-formed blocks of this harness hold at most 600 entries)
		})
	})

	fb := c10Ev{"present": false, "addr": c10W64(0), "pitch": c10W32(0), "w": c10W32(0), "h": c10W32(0), "bpp": 0, "ft": 0, "rgb": []int{}}
	fb["res"] = c10Guarded(func() {
		fi := GetFramebufferInfo()
		if fi == nil {
			return
		}
		fb["present"] = true
		fb["addr"] = c10W64(fi.PhysAddr)
		fb["pitch"] = c10W32(fi.Pitch)
		fb["w"] = c10W32(fi.Width)
		fb["h"] = c10W32(fi.Height)
		fb["bpp"] = int(fi.Bpp)
		fb["ft"] = int(fi.Type)
		if ci := fi.RGBColorInfo(); ci != nil {
			fb["rgb"] = []int{int(ci.RedPosition), int(ci.RedMaskSize), int(ci.GreenPosition), int(ci.GreenMaskSize), int(ci.BluePosition), int(ci.BlueMaskSize)}
		}
	})

	kv := [][2][]int{}
	cmdRes := c10Guarded(func() {
		m := GetBootCmdLine()
		keys := make([]string, 0, len(m))
		for k := range m {
			keys = append(keys, k)
		}
		sort.Strings(keys)
		if len(keys) > c10Cap {
			keys = keys[:c10Cap]
		}
		for _, k := range keys {
			kv = append(kv, [2][]int{c10Ints([]byte(k)), c10Ints([]byte(m[k]))})
		}
	})
	cmdLineKV = nil

	secs := []c10Ev{}
	elfRes := c10Guarded(func() {
		VisitElfSections(func(name string, flags ElfSectionFlag, address uintptr, size uint64) {
			if len(secs) >= c10Cap {
				return
			}
			secs = append(secs, c10Ev{"n": c10Ints([]byte(name)), "fl": c10W32(uint32(flags)), "ad": c10W64(uint64(address)), "sz": c10W64(size)})
		})
	})

	return c10Ev{
		"mm":  c10Ev{"res": mmRes, "regs": regs},
		"fb":  fb,
		"cmd": c10Ev{"res": cmdRes, "kv": kv},
		"elf": c10Ev{"res": elfRes, "secs": secs},
	}
}

// ---------------------------------------------------------------- isolation
//
// A decoder fed by a broken scanner can die in ways Go cannot recover from (a
// fault inside runtime.memmove while converting a bogus command line is a fatal
// error) or spin forever.  The cases are therefore decoded by a child process
// (this test binary re-executed with -test.run=TestVerifC10Child) that flushes
// one event per case; when the child dies the parent knows the culprit is the
// first case without an event, logs it with res "crash" and restarts the child
// behind it.  A case that does not return within the watchdog time is logged by
// the child itself as "hang" before it exits.

type c10Job struct {
	Leg  string  `json:"leg"`
	Case c10Case `json:"case"`
}

func c10CPU() time.Duration {
	var ru syscall.Rusage
	syscall.Getrusage(syscall.RUSAGE_SELF, &ru)
	return time.Duration(ru.Utime.Nano() + ru.Stime.Nano())
}

func c10DeadObs(res string) c10Ev {
	return c10Ev{"mm": c10Ev{"res": res, "regs": []int{}}, "fb": c10Ev{"res": res, "present": false},
		"cmd": c10Ev{"res": res, "kv": []int{}}, "elf": c10Ev{"res": res, "secs": []int{}}}
}

// TestVerifC10Child is the worker: it decodes the jobs of C10_CHILD_IN and appends one event per job to C10_CHILD_OUT.
func TestVerifC10Child(t *testing.T) {
	in, outp := os.Getenv("C10_CHILD_IN"), os.Getenv("C10_CHILD_OUT")
	if in == "" || outp == "" {
		t.Skip("worker of TestVerifC10Cases / TestVerifC10Random")
	}
	raw, err := os.ReadFile(in)
	if err != nil {
		t.Fatal(err)
	}
	var jobs []c10Job
	if err := json.Unmarshal(raw, &jobs); err != nil {
		t.Fatal(err)
	}
	out, err := os.OpenFile(outp, os.O_CREATE|os.O_WRONLY|os.O_TRUNC, 0644)
	if err != nil {
		t.Fatal(err)
	}
	defer out.Close()
	// a decoder working on garbage may ask for gigabytes or spin: bound the child, the parent logs its death
	syscall.Setrlimit(9 /* RLIMIT_AS */, &syscall.Rlimit{Cur: 3 << 30, Max: 3 << 30})
	syscall.Setrlimit(syscall.RLIMIT_CPU, &syscall.Rlimit{Cur: 300, Max: 300})
	block := c10NewArena(t, 128)
	var strtab []*c10Arena
	for i := range jobs {
		c := &jobs[i].Case
		var bytes []byte
		var addr uintptr
		func() {
			// a failure of the encoder is a defect of this harness, never a result of the code under test
			defer func() {
				if r := recover(); r != nil {
					line, _ := json.Marshal(c10Ev{"k": "harness", "msg": fmt.Sprint(r)})
					out.Write(append(line, '\n'))
					out.Close()
					os.Exit(8)
				}
			}()
			bytes = c10Encode(c, func(i int) *c10Arena {
				for len(strtab) <= i {
					strtab = append(strtab, c10NewArena(t, 8))
				}
				return strtab[i]
			})
			addr = block.place(bytes)
		}()
		done := make(chan c10Ev, 1)
		go func() {
			debug.SetPanicOnFault(true)
			done <- c10Observe(addr)
		}()
		var obs c10Ev
		hang := false
		cpu0 := c10CPU()
		tick := time.NewTicker(50 * time.Millisecond)
	wait:
		for {
			select {
			case obs = <-done:
				break wait
			case <-tick.C:
				// non-termination is decided by CPU time, not wall clock (the machine may be busy)
				if c10CPU()-cpu0 > 3*time.Second {
					hang = true
					obs = c10DeadObs("hang")
					break wait
				}
			}
		}
		tick.Stop()
		line, _ := json.Marshal(c10Ev{"k": "decode", "leg": jobs[i].Leg, "blk": c10Abstract(c), "padb": c.Padb, "total": len(bytes), "obs": obs})
		out.Write(append(line, '\n')) // unbuffered: the parent counts these lines when we die
		if hang {
			out.Close()
			os.Exit(7) // the spinning goroutine cannot be stopped
		}
	}
}

// c10RunIsolated decodes all jobs in child processes and writes the events (plus the end marker) to the file named by env.
func c10RunIsolated(t *testing.T, env string, jobs []c10Job) {
	path := os.Getenv(env)
	if path == "" {
		t.Skip(env + " not set")
	}
	work := os.Getenv("VERIF_WORK")
	if work == "" {
		work = os.TempDir()
	}
	f, err := os.Create(path)
	if err != nil {
		t.Fatal(err)
	}
	defer f.Close()
	w := bufio.NewWriterSize(f, 1<<20)
	defer w.Flush()
	in := filepath.Join(work, "c10_child_in."+env+".json")
	outp := filepath.Join(work, "c10_child_out."+env+".ndjson")
	defer os.Remove(in)
	defer os.Remove(outp)
	n, dead := 0, 0
	for len(jobs) > 0 && dead < 6 {
		raw, _ := json.Marshal(jobs)
		if err := os.WriteFile(in, raw, 0644); err != nil {
			t.Fatal(err)
		}
		os.Remove(outp)
		cmd := exec.Command(os.Args[0], "-test.run=^TestVerifC10Child$", "-test.timeout=600s")
		cmd.Env = append(os.Environ(), "C10_CHILD_IN="+in, "C10_CHILD_OUT="+outp)
		msg, runErr := cmd.CombinedOutput()
		got := 0
		hung := false
		if cf, err := os.Open(outp); err == nil {
			sc := bufio.NewScanner(cf)
			sc.Buffer(make([]byte, 1<<20), 1<<26)
			for sc.Scan() {
				var probe struct {
					K   string `json:"k"`
					Msg string `json:"msg"`
					Obs struct {
						Mm struct {
							Res string `json:"res"`
						} `json:"mm"`
					} `json:"obs"`
				}
				if json.Unmarshal(sc.Bytes(), &probe) != nil {
					break // torn last line of a dying child
				}
				if probe.K == "harness" {
					t.Fatalf("harness error while encoding job %d: %s", n+got, probe.Msg)
				}
				w.Write(sc.Bytes())
				w.WriteByte('\n')
				got++
				hung = probe.Obs.Mm.Res == "hang"
			}
			cf.Close()
		}
		n += got
		if got > len(jobs) {
			t.Fatalf("child wrote %d events for %d jobs", got, len(jobs))
		}
		jobs = jobs[got:]
		if runErr == nil && len(jobs) == 0 {
			break
		}
		if hung {
			dead++
			continue
		}
		if len(jobs) == 0 {
			t.Fatalf("child failed after its last job: %v\n%s", runErr, c10Tail(msg, 2000))
		}
		// the child died while decoding jobs[0]
		c := &jobs[0].Case
		line, _ := json.Marshal(c10Ev{"k": "decode", "leg": jobs[0].Leg, "blk": c10Abstract(c), "padb": c.Padb, "total": 0,
			"obs": c10DeadObs("crash"), "note": c10Tail(msg, 400)})
		w.Write(append(line, '\n'))
		n++
		dead++
		jobs = jobs[1:]
	}
	line, _ := json.Marshal(c10Ev{"k": "end", "n": n, "dead": dead, "skipped": len(jobs)})
	w.Write(append(line, '\n'))
}

func c10Tail(b []byte, n int) string {
	s := string(b)
	if i := strings.Index(s, "fatal error"); i >= 0 {
		s = s[i:]
	} else if i := strings.Index(s, "panic:"); i >= 0 {
		s = s[i:]
	}
	if len(s) > n {
		s = s[:n]
	}
	return s
}

func TestVerifC10Cases(t *testing.T) {
	f, err := os.Open(os.Getenv("CASES"))
	if err != nil {
		t.Skip("CASES not set")
	}
	defer f.Close()
	var jobs []c10Job
	sc := bufio.NewScanner(f)
	sc.Buffer(make([]byte, 1<<20), 1<<26)
	for sc.Scan() {
		if len(sc.Bytes()) == 0 {
			continue
		}
		var c c10Case
		if err := json.Unmarshal(sc.Bytes(), &c); err != nil {
			t.Fatalf("bad case line: %v", err)
		}
		// every case is decoded twice: zero padding and 0xEE padding between the tags
		if os.Getenv("VERIF_C10_EXACT") == "" {
			c.Padb = 0
			jobs = append(jobs, c10Job{"G", c})
			c.Padb = 0xee
		}
		jobs = append(jobs, c10Job{"G", c})
	}
	c10RunIsolated(t, "TRACE_G", jobs)
}

// ---------------------------------------------------------------- leg T: seeded random blocks at real scale

func c10RandWord(rng *rand.Rand) uint64 {
	switch rng.Intn(8) {
	case 0:
		return 0
	case 1:
		return ^uint64(0)
	case 2:
		return uint64(1) << uint(rng.Intn(64))
	case 3:
		return uint64(1)<<uint(rng.Intn(64)) - 1
	case 4:
		return uint64(rng.Uint32())
	case 5:
		return uint64(rng.Intn(1<<20)) << 12
	default:
		return rng.Uint64()
	}
}

func c10RandType(rng *rand.Rand) uint32 {
	switch rng.Intn(6) {
	case 0, 1, 2:
		return uint32(rng.Intn(8))
	case 3:
		return []uint32{0x7fffffff, 0x80000000, 0xffffffff, 0xfffffffe, 0x10000, 0xffff, 0x80000001, 0x100}[rng.Intn(8)]
	case 4:
		return 1 + uint32(rng.Intn(4)) + uint32(rng.Intn(4))<<(8*uint(1+rng.Intn(3)))
	default:
		return rng.Uint32()
	}
}

func c10RandCmd(rng *rand.Rand) []int {
	n := rng.Intn(8)
	if rng.Intn(4) == 0 {
		n = rng.Intn(40)
	}
	long := rng.Intn(25) == 0 // a command line of kilobytes: hundreds of entries, entries of hundreds of characters
	if long {
		n = 100 + rng.Intn(150)
	}
	ws := []byte{' ', ' ', ' ', '\t', '\n', '\v', '\f', '\r'}
	word := func() string {
		al := "abcxyzKV019._-/:,"
		l := rng.Intn(7)
		if rng.Intn(8) == 0 {
			l = rng.Intn(30)
		}
		if long && rng.Intn(30) == 0 {
			l = 100 + rng.Intn(400)
		}
		s := make([]byte, l)
		for i := range s {
			if rng.Intn(40) == 0 {
				// any byte but NUL and '='; of the non-ASCII ones not the lead bytes C2/E1/E2/E3 with which
				// a Unicode space (U+0085, U+00A0, U+1680, U+2000.., U+3000) could form: the statement does
				// not say whether those separate entries
				s[i] = byte(1 + rng.Intn(255))
				for s[i] == '=' || s[i] == 0xc2 || s[i] == 0xe1 || s[i] == 0xe2 || s[i] == 0xe3 {
					s[i] = byte(1 + rng.Intn(255))
				}
			} else {
				s[i] = al[rng.Intn(len(al))]
			}
		}
		return string(s)
	}
	keys := []string{"a", "b", "consoleFont", "nologo", word(), word()}
	var out []byte
	for i := rng.Intn(3); i > 0; i-- {
		out = append(out, ws[rng.Intn(len(ws))])
	}
	for i := 0; i < n; i++ {
		k := keys[rng.Intn(len(keys))]
		if rng.Intn(3) == 0 {
			k = word()
		}
		switch rng.Intn(10) {
		case 0, 1, 2, 3:
			out = append(out, k...)
		case 4, 5, 6, 7:
			out = append(out, k+"="+word()...)
		case 8:
			out = append(out, "="+word()...)
		default:
			if rng.Intn(4) == 0 {
				out = append(out, k+"="+word()+"="+word()...) // neither form: left unconstrained by the specification
			} else {
				out = append(out, k+"="...)
			}
		}
		for j := 1 + rng.Intn(2); j > 0 && (i < n-1 || rng.Intn(2) == 0); j-- {
			out = append(out, ws[rng.Intn(len(ws))])
		}
	}
	return c10Ints(out)
}

func c10RandTag(rng *rand.Rand, kind int) c10Tag {
	switch kind {
	case 0:
		return c10Tag{K: "cmd", S: c10RandCmd(rng)}
	case 1:
		es := 24 + 8*rng.Intn(4)
		if rng.Intn(5) == 0 {
			es = 24 + rng.Intn(41)
		}
		n := rng.Intn(9)
		if rng.Intn(4) == 0 {
			n = rng.Intn(65)
		}
		switch rng.Intn(16) {
		case 0: // entry sizes far above the 24 bytes the kernel's struct has: around 2^8, 2^12, 2^16
			es = []int{72, 128, 255, 256, 257, 264, 1000, 4096, 4100, 65536, 65544, 70001}[rng.Intn(12)]
			n = rng.Intn(4)
			if es < 300 {
				n = rng.Intn(40)
			}
		case 1: // hundreds of entries
			n = 65 + rng.Intn(500)
		}
		tg := c10Tag{K: "mmap", Es: es, Ev: []int{0, 0, 0, 1, 0x7fffffff}[rng.Intn(5)], Ents: []c10Ent{}}
		for i := 0; i < n; i++ {
			tg.Ents = append(tg.Ents, c10Ent{A: c10W64(c10RandWord(rng)), L: c10W64(c10RandWord(rng)), T: c10W32(c10RandType(rng))})
		}
		return tg
	case 2:
		tg := c10Tag{K: "fb", Addr: c10W64(c10RandWord(rng)), Pitch: c10W32(uint32(c10RandWord(rng))), W: c10W32(uint32(c10RandWord(rng))),
			H: c10W32(uint32(c10RandWord(rng))), Bpp: rng.Intn(256), Ci: []int{}}
		tg.Ft = []int{0, 0, 1, 1, 1, 2, 3, 255, rng.Intn(256)}[rng.Intn(9)]
		n := 0
		switch tg.Ft {
		case 1:
			n = 6 + rng.Intn(3)*rng.Intn(4)
		case 0:
			n = 2 + 3*rng.Intn(6) // colour count + palette entries, where an RGB layout would sit
		default:
			n = rng.Intn(3) * rng.Intn(8)
		}
		for i := 0; i < n; i++ {
			tg.Ci = append(tg.Ci, rng.Intn(256))
		}
		return tg
	case 3:
		ns := 1 + rng.Intn(6)
		if rng.Intn(4) == 0 {
			ns = 1 + rng.Intn(30)
		}
		if rng.Intn(20) == 0 {
			ns = 31 + rng.Intn(400) // past 255 sections
		}
		if rng.Intn(8) == 0 {
			return c10Tag{K: "elf", Shndx: 0, Secs: []c10Sec{}, Strtab: []int{}} // image without section headers
		}
		// string table: NUL, then NUL-terminated names
		st := []int{0}
		starts := []int{0}
		for i := rng.Intn(ns + 2); i >= 0; i-- {
			starts = append(starts, len(st))
			al := ".abcdnoprstxyz_0189"
			nl := rng.Intn(12)
			if rng.Intn(30) == 0 {
				nl = 200 + rng.Intn(300)
			}
			for j := nl; j > 0; j-- {
				st = append(st, int(al[rng.Intn(len(al))]))
			}
			st = append(st, 0)
		}
		tg := c10Tag{K: "elf", Shndx: rng.Intn(ns), Strtab: st}
		for i := 0; i < ns; i++ {
			s := c10Sec{Ni: starts[rng.Intn(len(starts))], St: []int{0, 1, 1, 2, 3, 4, 8, 0x70000001, 0x7fffffff}[rng.Intn(9)], Fl: c10W32(uint32(rng.Intn(8))), Ad: c10W64(c10RandWord(rng)), Sz: c10W64(c10RandWord(rng))}
			if rng.Intn(5) == 0 {
				s.Ni = rng.Intn(len(st)) // in the middle of a name
			}
			if rng.Intn(4) == 0 {
				s.Fl = c10W32(rng.Uint32())
			}
			if rng.Intn(3) == 0 {
				s.Sz = c10W64(0)
			}
			if i == tg.Shndx {
				s.Sz = c10W64(uint64(len(st)))
			}
			tg.Secs = append(tg.Secs, s)
		}
		return tg
	default:
		tys := []int{2, 3, 4, 5, 7, 10, 11, 12, 13, 14, 15, 16, 17, 18, 19, 20, 21, 22, 1000, 0x7fffffff, 0x100, 0x101, 0x106, 0x108, 0x109, 0x10006, 0x1000000,
			-0x80000000, -0x80000000 + 6, -0x80000000 + 1, -1, -250 /* tag types >= 2^31 are written as type - 2^32 */}
		n := rng.Intn(18)
		if rng.Intn(6) == 0 {
			n = rng.Intn(200)
		}
		if rng.Intn(40) == 0 {
			n = 65500 + rng.Intn(40000) // a tag whose size does not fit 16 bits
		}
		return c10Tag{K: "other", Ty: tys[rng.Intn(len(tys))], Len: n, Fill: []uint32{0, 1, 6, 8, 9, 0xeeee, 0x0606, 0x0808}[rng.Intn(8)]}
	}
}

func c10TagSize(tg *c10Tag) int {
	switch tg.K {
	case "cmd":
		return 16 + len(tg.S)
	case "mmap":
		return 24 + tg.Es*len(tg.Ents)
	case "fb":
		return 40 + len(tg.Ci)
	case "elf":
		return 28 + 64*len(tg.Secs)
	}
	return 16 + tg.Len
}

func c10BlockSize(blk []c10Tag) int {
	n := 16
	for i := range blk {
		n += c10TagSize(&blk[i])
	}
	return n
}

func TestVerifC10Random(t *testing.T) {
	if os.Getenv("TRACE_T") == "" {
		t.Skip("TRACE_T not set")
	}
	seed, _ := strconv.ParseInt(os.Getenv("VERIF_SEED"), 10, 64)
	n, _ := strconv.Atoi(os.Getenv("NTRACES"))
	if n == 0 {
		n = 200
	}
	rng := rand.New(rand.NewSource(seed*7919 + 10))
	var jobs []c10Job
	for i := 0; i < n; i++ {
		c := c10Case{Padb: []int{0, 0xee, 6, 1, 0xff}[rng.Intn(5)]}
		nt := rng.Intn(7)
		if rng.Intn(4) == 0 {
			nt = rng.Intn(13)
		}
		for j := 0; j < nt; j++ {
			kind := rng.Intn(8)
			if kind > 4 {
				kind = 4
			}
			c.Blk = append(c.Blk, c10RandTag(rng, kind))
		}
		// the block has to fit the 512 KiB arena: drop the biggest tags of an oversized draw
		for c10BlockSize(c.Blk) > 400000 {
			big := 0
			for j := range c.Blk {
				if c10TagSize(&c.Blk[j]) > c10TagSize(&c.Blk[big]) {
					big = j
				}
			}
			c.Blk = append(c.Blk[:big], c.Blk[big+1:]...)
		}
		// empty-payload corner cases, most often as the LAST tag (flush against the inaccessible page behind the end tag)
		if rng.Intn(3) == 0 {
			var e c10Tag
			switch rng.Intn(5) {
			case 0:
				e = c10Tag{K: "elf", Shndx: 0, Secs: []c10Sec{}, Strtab: []int{}}
			case 1:
				e = c10Tag{K: "elf", Shndx: 0, Strtab: []int{0}, Secs: []c10Sec{{Ni: 0, Sz: c10W64(1)}}}
			case 2:
				e = c10Tag{K: "mmap", Es: 24 + 8*rng.Intn(3), Ents: []c10Ent{}}
			case 3:
				e = c10Tag{K: "cmd", S: []int{}}
			default:
				e = c10Tag{K: "fb", Addr: c10W64(0xb8000), Pitch: c10W32(160), W: c10W32(80), H: c10W32(25), Bpp: 16, Ft: 2, Ci: []int{}}
			}
			if rng.Intn(4) == 0 && len(c.Blk) > 0 {
				at := rng.Intn(len(c.Blk))
				c.Blk = append(c.Blk[:at], append([]c10Tag{e}, c.Blk[at:]...)...)
			} else {
				c.Blk = append(c.Blk, e)
			}
		}
		jobs = append(jobs, c10Job{"T", c})
	}
	c10RunIsolated(t, "TRACE_T", jobs)
}
