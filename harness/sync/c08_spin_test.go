//go:build verif
// +build verif

package sync

// Harness for C08 (spinlock).  It contains no oracle: it drives the REAL
// Spinlock of this package and writes one JSON event per observable step
// (call / ok / fail / rel / relret / probe / reset).  Whether the events are a
// behaviour of the lock specification is decided by TLC with
// specs/sync/SpinTrace.tla.
//
//   TestVerifC08Sched   leg G: replays the controlled schedules TLC emitted from
//                       SpinSched.tla (one goroutine per task, the lock itself is
//                       the scheduling gate).
//   TestVerifC08Stress  leg T: 2..16 goroutines locked to OS threads hammer one
//                       lock with a random mix of Acquire / TryToAcquire /
//                       Release; events are stamped from one atomic sequence
//                       counter.
//
// A call that does not come back within the (generous) deadline is written as a
// `stuck` event and the run stops: that is "inconclusive", never a verdict.

import (
	"bufio"
	"encoding/json"
	"math/rand"
	"os"
	"runtime"
	"runtime/debug"
	"sort"
	"strconv"
	gosync "sync"
	"sync/atomic"
	"syscall"
	"testing"
	"time"
	"unsafe"
)

type c08Ev struct {
	Seq int64  `json:"-"`
	K   string `json:"k"`
	T   int    `json:"t"`
	Op  string `json:"op,omitempty"`
	Res string `json:"res,omitempty"`
	C   int    `json:"c"`
	Eq  int    `json:"eq"` // fail event: 1 the raw lock word was the same before and after the failed try, 0 it differed, -1 not measured
	N0  int    `json:"n0"` // nb event: the 4 bytes behind the lock word before / after the case
	N1  int    `json:"n1"`
}

// Where the lock under test lives (lock operations must neither look at nor touch the bytes next to it):
//
//	0  heap cell, the next 4 bytes are zero          1  heap cell, the next 4 bytes hold a non-zero datum
//	2  heap cell, followed by another Spinlock that is held throughout
//	3  the last 4 bytes of a page whose successor is inaccessible (a wider access faults)
//	4  a package-level variable (data segment), followed by a non-zero datum
//	5  (stress only) two adjacent locks on one cache line, both in use by different groups of tasks
type c08Cell struct {
	l  Spinlock
	nb Spinlock
}

const c08Datum = 0x00010001

var c08Global c08Cell

type c08Place struct {
	lock *Spinlock
	nb   *Spinlock // nil: the neighbouring bytes cannot be read (guard page)
	nb0  int
}

var c08GuardMem []byte

func c08NewPlace(layout int) c08Place {
	var c *c08Cell
	switch layout % 5 {
	case 3:
		if c08GuardMem == nil {
			m, err := syscall.Mmap(-1, 0, 2*4096, syscall.PROT_READ|syscall.PROT_WRITE, syscall.MAP_ANON|syscall.MAP_PRIVATE)
			if err == nil && syscall.Mprotect(m[4096:], syscall.PROT_NONE) == nil {
				c08GuardMem = m
			}
		}
		if c08GuardMem != nil {
			l := (*Spinlock)(unsafe.Pointer(&c08GuardMem[4096-4]))
			atomic.StoreUint32(&l.state, 0)
			return c08Place{lock: l}
		}
		c = &c08Cell{}
	case 4:
		c08Global = c08Cell{}
		c = &c08Global
		atomic.StoreUint32(&c.nb.state, c08Datum)
	default:
		c = &c08Cell{}
		switch layout % 5 {
		case 1:
			atomic.StoreUint32(&c.nb.state, c08Datum)
		case 2:
			c.nb.Acquire()
		}
	}
	return c08Place{lock: &c.l, nb: &c.nb, nb0: int(atomic.LoadUint32(&c.nb.state))}
}

func (p c08Place) nbEvent() c08Ev {
	if p.nb == nil {
		return c08Ev{K: "nb"}
	}
	return c08Ev{K: "nb", N0: p.nb0, N1: int(atomic.LoadUint32(&p.nb.state))}
}

// blocking acquire: through the API, or - att >= 0 - the arch routine with another spin budget than Acquire's
func c08Acquire(l *Spinlock, att int64) {
	if att < 0 {
		l.Acquire()
		return
	}
	archAcquireSpinlock(&l.state, uint32(att))
}

func c08Deadline() time.Duration {
	if s, err := strconv.Atoi(os.Getenv("VERIF_C08_DEADLINE_MS")); err == nil && s > 0 {
		return time.Duration(s) * time.Millisecond
	}
	return 20 * time.Second
}

// How the lock word encodes "held" and "free" is the implementation's business (0/1 today; a generation count
// with a held bit would be just as good).  The harness therefore never interprets the word: whether the lock is
// free is observed through the lock's own API (an observer's TryToAcquire, released again at once), and the raw
// word is only ever compared with itself, for equality, around a try-acquire that failed.
func c08Raw(l *Spinlock) uint32 { return atomic.LoadUint32(&l.state) }

// An assembly routine with a frame of its own has no stack maps; a garbage collection (or stack copy) that
// finds a goroutine parked inside it - it calls yieldFn = runtime.Gosched - aborts the process.  That is an
// artefact of running the kernel's lock under the hosted runtime, so the collector only runs at points
// where no goroutine is inside a lock operation.
func c08QuiescentGC(n int) {
	if n%256 == 255 {
		runtime.GC()
	}
}

// ---------------------------------------------------------------- leg G

type c08Worker struct {
	cmd     chan string
	reply   chan bool
	started int32 // set right before a blocking Acquire is entered
	done    int32 // set after the blocking Acquire returned (c holds the counter value it saw)
	c       int
	logged  bool // the return of the pending Acquire has been written to the trace
	pending bool // a blocking Acquire is in flight (or returned and not yet released)
}

type c08Case struct {
	lock    *Spinlock
	counter int
	cleanup int32
	w       []*c08Worker
	role    map[int]int // task number of the schedule -> worker index
	enc     *json.Encoder
	n       *int
}

func (cs *c08Case) emit(e c08Ev) { cs.enc.Encode(e); *cs.n++ }

// quiet: no blocking Acquire is in flight, so nobody but the caller can touch the lock word right now
func (cs *c08Case) quiet() bool {
	for _, w := range cs.w {
		if w.pending && atomic.LoadInt32(&w.done) == 0 {
			return false
		}
	}
	return true
}

func c08Same(measured bool, a, b uint32) int {
	if !measured {
		return -1
	}
	if a == b {
		return 1
	}
	return 0
}

// probe: an observer (task 0) tries the lock and, if it got it, gives it back at once.  These are ordinary lock
// operations and are recorded as such; the specification says what their outcome may be.
func (cs *c08Case) probe() {
	quiet, before := cs.quiet(), c08Raw(cs.lock)
	if cs.lock.TryToAcquire() {
		c := cs.counter
		cs.emit(c08Ev{K: "call", T: 0, Op: "try", Res: "ok"})
		cs.emit(c08Ev{K: "ok", T: 0, C: c})
		cs.counter = c + 1
		cs.emit(c08Ev{K: "rel", T: 0})
		cs.lock.Release()
		cs.emit(c08Ev{K: "relret", T: 0})
		return
	}
	after := c08Raw(cs.lock)
	cs.emit(c08Ev{K: "call", T: 0, Op: "try", Res: "fail"})
	cs.emit(c08Ev{K: "fail", T: 0, Eq: c08Same(quiet && cs.quiet(), before, after)})
}

func (cs *c08Case) run(w *c08Worker) {
	for cmd := range w.cmd {
		switch cmd {
		case "acq":
			atomic.StoreInt32(&w.started, 1)
			cs.lock.Acquire()
			if atomic.LoadInt32(&cs.cleanup) != 0 {
				cs.lock.Release()
				return
			}
			w.c = cs.counter
			atomic.StoreInt32(&w.done, 1)
		case "try":
			ok := cs.lock.TryToAcquire()
			if ok {
				w.c = cs.counter
			}
			w.reply <- ok
		case "rel":
			cs.counter = w.c + 1
			cs.lock.Release()
			w.reply <- true
		case "srel": // Release by a task that holds nothing (the schedule issues it only while the lock is free)
			cs.lock.Release()
			w.reply <- true
		}
	}
}

func c08Pause(d time.Duration) {
	for t0 := time.Now(); time.Since(t0) < d; {
		runtime.Gosched()
	}
}

// poll writes an `ok` event for every blocking Acquire that has returned and was not reported yet.
// rest is the not yet executed part of the schedule: tasks are interchangeable while they spin, so
// when the lock went to another spinner than the one the schedule awaits next, the two swap roles.
func (cs *c08Case) poll(rest [][2]interface{}) {
	for t, wi := range cs.role {
		w := cs.w[wi]
		if !w.pending || w.logged || atomic.LoadInt32(&w.done) == 0 {
			continue
		}
		as := t
		for _, c := range rest {
			if c[0].(string) == "await" {
				u := int(c[1].(float64))
				uw := cs.w[cs.role[u]]
				if u != t && uw.pending && !uw.logged && atomic.LoadInt32(&uw.done) == 0 {
					cs.role[t], cs.role[u] = cs.role[u], cs.role[t]
					as = u
				}
				break
			}
		}
		w.logged = true
		cs.emit(c08Ev{K: "ok", T: as, C: w.c})
		cs.probe()
		cs.poll(rest) // roles may have changed: start over
		return
	}
}

func (cs *c08Case) waitReply(w *c08Worker) (bool, bool) {
	select {
	case r := <-w.reply:
		return r, true
	case <-time.After(c08Deadline()):
		return false, false
	}
}

// replay returns false when a call did not come back (stuck).
func (cs *c08Case) replay(sched [][2]interface{}, grace time.Duration) bool {
	for i, c := range sched {
		op, t := c[0].(string), int(c[1].(float64))
		rest := sched[i+1:]
		w := cs.w[cs.role[t]]
		switch op {
		case "acq":
			cs.emit(c08Ev{K: "call", T: t, Op: "acq", Res: "none"})
			w.pending, w.logged = true, false
			atomic.StoreInt32(&w.started, 0)
			atomic.StoreInt32(&w.done, 0)
			w.cmd <- "acq"
			for t0 := time.Now(); atomic.LoadInt32(&w.started) == 0 && time.Since(t0) < c08Deadline(); {
				runtime.Gosched()
			}
			c08Pause(grace)
		case "await":
			if !w.logged {
				t0 := time.Now()
				handovers, nextProbe := 0, time.Duration(0)
				for {
					cs.poll(sched[i:])
					w = cs.w[cs.role[t]]
					if w.logged {
						break
					}
					if time.Since(t0) > c08Deadline() {
						cs.emit(c08Ev{K: "stuck", T: t, Op: "acq", C: handovers})
						return false
					}
					if waited := time.Since(t0); waited > 50*time.Millisecond && waited > nextProbe {
						// The awaited Acquire is overdue.  A third party (task 0) tries the lock: if it gets it the
						// lock is provably free while the waiter still waits.  These are ordinary lock operations
						// and are recorded as such; how many of them succeeded goes into the stuck record.
						nextProbe = waited + time.Millisecond
						if cs.lock.TryToAcquire() {
							c := cs.counter
							cs.emit(c08Ev{K: "call", T: 0, Op: "try", Res: "ok"})
							cs.emit(c08Ev{K: "ok", T: 0, C: c})
							cs.counter = c + 1
							cs.emit(c08Ev{K: "rel", T: 0})
							cs.lock.Release()
							cs.emit(c08Ev{K: "relret", T: 0})
							handovers++
						}
					}
					runtime.Gosched()
				}
			}
			continue
		case "try":
			quiet, before := cs.quiet(), c08Raw(cs.lock)
			w.cmd <- "try"
			ok, back := cs.waitReply(w)
			if !back {
				cs.emit(c08Ev{K: "stuck", T: t, Op: "try"})
				return false
			}
			if ok {
				cs.emit(c08Ev{K: "call", T: t, Op: "try", Res: "ok"})
				cs.emit(c08Ev{K: "ok", T: t, C: w.c})
				w.pending, w.logged = true, true
				atomic.StoreInt32(&w.done, 1)
			} else {
				cs.emit(c08Ev{K: "call", T: t, Op: "try", Res: "fail"})
				cs.emit(c08Ev{K: "fail", T: t, Eq: c08Same(quiet && cs.quiet(), before, c08Raw(cs.lock))})
			}
		case "srel":
			cs.emit(c08Ev{K: "srel", T: t})
			w.cmd <- "srel"
			if _, back := cs.waitReply(w); !back {
				cs.emit(c08Ev{K: "stuck", T: t, Op: "srel"})
				return false
			}
			cs.emit(c08Ev{K: "srelret", T: t})
		case "rel":
			cs.emit(c08Ev{K: "rel", T: t})
			w.cmd <- "rel"
			if _, back := cs.waitReply(w); !back {
				cs.emit(c08Ev{K: "stuck", T: t, Op: "rel"})
				return false
			}
			w.pending = false
			cs.emit(c08Ev{K: "relret", T: t})
		}
		cs.probe()
		cs.poll(rest)
	}
	c08Pause(4 * grace)
	cs.poll(nil)
	return true
}

// finish lets every goroutine of the case end (not part of the trace).
func (cs *c08Case) finish() bool {
	atomic.StoreInt32(&cs.cleanup, 1)
	t0 := time.Now()
	for {
		busy := false
		for _, w := range cs.w {
			if !w.pending {
				continue
			}
			if atomic.LoadInt32(&w.started) == 2 { // left through the cleanup branch of run
				w.pending = false
				continue
			}
			if atomic.LoadInt32(&w.done) != 0 { // holds the lock: free it on its behalf
				w.pending = false
				cs.lock.Release()
				continue
			}
			busy = true
		}
		if !busy {
			break
		}
		if time.Since(t0) > 2*time.Second {
			return false
		}
		runtime.Gosched()
	}
	for _, w := range cs.w {
		close(w.cmd)
	}
	return true
}

// Cooperative schedule: the holder only gives the lock up after the waiter has called yieldFn N times (on one
// core the holder would not even run before the waiter yields).  The blocked Acquire must get there: task 1 holds,
// task 2 waits, the hook counts.  Events are the ordinary ones; a waiter that does not reach N yields within the
// deadline is reported as stuck (inconclusive - how fast it polls is not the harness's business; the extracted
// model bounds the number of polls between two yields).
var c08Yields int64

// (the assembly calls yieldFn without a closure context: the hook must be a plain function)
func c08CountingYield() { atomic.AddInt64(&c08Yields, 1); runtime.Gosched() }

func c08YieldProbe(enc *json.Encoder, n *int) bool {
	const want = 40
	var lock Spinlock
	atomic.StoreInt64(&c08Yields, 0)
	yieldFn = c08CountingYield
	defer func() { yieldFn = runtime.Gosched }()
	emit := func(e c08Ev) { enc.Encode(e); *n++ }
	emit(c08Ev{K: "call", T: 1, Op: "acq", Res: "ok"})
	lock.Acquire()
	emit(c08Ev{K: "ok", T: 1, C: 0})
	emit(c08Ev{K: "call", T: 2, Op: "acq", Res: "ok"})
	var done int32
	go func() { lock.Acquire(); atomic.StoreInt32(&done, 1) }()
	t0 := time.Now()
	for atomic.LoadInt64(&c08Yields) < want {
		if time.Since(t0) > c08Deadline() {
			return false
		}
		runtime.Gosched()
	}
	emit(c08Ev{K: "rel", T: 1})
	lock.Release()
	emit(c08Ev{K: "relret", T: 1})
	for atomic.LoadInt32(&done) == 0 {
		if time.Since(t0) > 2*c08Deadline() {
			return false
		}
		runtime.Gosched()
	}
	emit(c08Ev{K: "ok", T: 2, C: 1})
	emit(c08Ev{K: "rel", T: 2})
	lock.Release()
	emit(c08Ev{K: "relret", T: 2})
	emit(c08Ev{K: "reset"})
	return true
}

func TestVerifC08Sched(t *testing.T) {
	defer func(f func()) { yieldFn = f }(yieldFn)
	yieldFn = runtime.Gosched
	debug.SetGCPercent(-1) // see c08QuiescentGC; not restored: the test binary runs exactly one of these tests
	in, err := os.Open(os.Getenv("CASES"))
	if err != nil {
		t.Fatal(err)
	}
	defer in.Close()
	out, err := os.Create(os.Getenv("TRACE_OUT"))
	if err != nil {
		t.Fatal(err)
	}
	defer out.Close()
	bw := bufio.NewWriterSize(out, 1<<20)
	defer bw.Flush()
	enc := json.NewEncoder(bw)
	grace := 30 * time.Microsecond
	if g, err := strconv.Atoi(os.Getenv("VERIF_C08_GRACE_US")); err == nil && g > 0 {
		grace = time.Duration(g) * time.Microsecond
	}
	sc := bufio.NewScanner(in)
	sc.Buffer(make([]byte, 1<<20), 1<<20)
	ncases, nev := 0, 0
	if !c08YieldProbe(enc, &nev) {
		enc.Encode(c08Ev{K: "stuck", Op: "yield"})
		bw.Flush()
		out.Close()
		syscall.Exit(0)
	}
	for sc.Scan() {
		line := sc.Bytes()
		if len(line) == 0 {
			continue
		}
		if line[0] == '"' {
			var s string
			if err := json.Unmarshal(line, &s); err != nil {
				t.Fatalf("bad case line: %v", err)
			}
			line = []byte(s)
		}
		var sched [][2]interface{}
		if err := json.Unmarshal(line, &sched); err != nil {
			t.Fatalf("bad case %q: %v", line, err)
		}
		place := c08NewPlace(ncases)
		cs := &c08Case{role: map[int]int{}, enc: enc, n: &nev, lock: place.lock}
		// yieldFn unset (as in the kernel today) for every third case: no goroutine of an earlier case is alive
		if yieldFn = runtime.Gosched; ncases%3 == 2 {
			yieldFn = nil
		}
		for i := 0; i < 3; i++ {
			w := &c08Worker{cmd: make(chan string, 2), reply: make(chan bool, 1)}
			cs.w = append(cs.w, w)
			cs.role[i+1] = i
			go func(w *c08Worker) {
				cs.run(w)
				atomic.StoreInt32(&w.started, 2)
			}(w)
		}
		good := cs.replay(sched, grace)
		cs.emit(place.nbEvent())
		cs.emit(c08Ev{K: "reset"})
		ncases++
		fin := cs.finish()
		if good && fin {
			c08QuiescentGC(ncases) // every goroutine of the case has ended
		}
		if !good || !fin {
			// a goroutine is lost inside the lock: stop, the runner reports "inconclusive"
			// unless the events written so far already contradict the specification
			enc.Encode(c08Ev{K: "stuck"})
			// goroutines are lost inside the lock: leave without giving the runtime a chance to wait for them
			bw.Flush()
			out.Close()
			syscall.Exit(0)
		}
	}
	os.Stdout.WriteString("VERIF-STATS cases=" + strconv.Itoa(ncases) + " events=" + strconv.Itoa(nev) + "\n")
}

// ---------------------------------------------------------------- leg T

// one group of tasks hammering one lock during a stress window
type c08Group struct {
	lock    *Spinlock
	counter int // protected by lock only
	ids     []int
}

const c08MainTask = 48 // the goroutine that sets a window up (stray releases)

func TestVerifC08Stress(t *testing.T) {
	defer func(f func()) { yieldFn = f }(yieldFn)
	debug.SetGCPercent(-1) // see c08QuiescentGC; not restored: the test binary runs exactly one of these tests
	seed, _ := strconv.ParseInt(os.Getenv("VERIF_SEED"), 10, 64)
	nwin, _ := strconv.Atoi(os.Getenv("NWIN"))
	nops, _ := strconv.Atoi(os.Getenv("NOPS"))
	if nwin == 0 {
		nwin = 10
	}
	if nops == 0 {
		nops = 10
	}
	out, err := os.Create(os.Getenv("TRACE_OUT"))
	if err != nil {
		t.Fatal(err)
	}
	defer out.Close()
	bw := bufio.NewWriterSize(out, 1<<20)
	defer bw.Flush()
	enc := json.NewEncoder(bw)
	master := rand.New(rand.NewSource(seed))
	total := 0
	ncpu := runtime.NumCPU()
	var shapes []map[string]interface{}
	defer func() {
		if b, err := json.Marshal(shapes); err == nil {
			os.WriteFile(os.Getenv("TRACE_OUT")+".shapes", b, 0644)
		}
	}()
	for w := 0; w < nwin; w++ {
		// ---- the shape of the window: every dimension of the quantifier is cycled through, the rest is drawn
		light := w%2 == 1
		// number of tasks: one, a few, one per core, more than cores (those cannot be pinned to threads)
		nth := []int{2, 16, 3, 1, 8, 24, 16, 4, 12, 40, 16, 16}[(w+int(seed))%12]
		if fix, err := strconv.Atoi(os.Getenv("NTHREADS")); err == nil && fix > 0 {
			nth = fix
		}
		pinned := nth <= ncpu && nth <= 16
		// call mix: only blocking acquires ... only try-acquires
		tryPct := []int{0, 20, 40, 70, 100}[master.Intn(5)]
		// spin budget of the blocking acquire: Acquire's own, or 0 / 2 / 64 / the largest value; yieldFn set or unset.
		// A waiter that (practically) never yields needs a thread of its own, or the holder may never run again.
		att := int64(-1)
		yieldFn = runtime.Gosched
		if pinned {
			att = []int64{-1, 0, -1, 2, 64, 0xffffffff}[master.Intn(6)]
			if master.Intn(4) == 0 {
				yieldFn = nil
			}
		}
		layout := (2*w + w/2) % 6
		place := c08NewPlace(layout)
		shapes = append(shapes, map[string]interface{}{"tasks": nth, "pinned": pinned, "light": light, "try_pct": tryPct,
			"spin_budget": att, "yield_set": yieldFn != nil, "placement": layout, "stray_release": w%3 != 2})
		groups := []*c08Group{{lock: place.lock}}
		if layout == 5 && nth >= 2 { // two adjacent locks, both in use
			groups = append(groups, &c08Group{lock: place.nb})
		}
		for th := 0; th < nth; th++ {
			g := groups[th%len(groups)]
			g.ids = append(g.ids, th)
		}
		var seq int64
		logs := make([][]c08Ev, nth)
		seeds := make([]int64, nth)
		for i := range seeds {
			seeds[i] = master.Int63()
		}
		pre, post := make([][]c08Ev, len(groups)), make([][]c08Ev, len(groups))
		stray := w%3 != 2
		if stray { // "Release while the lock is free has no effect": nobody has touched the lock yet
			for gi, g := range groups {
				s0 := atomic.AddInt64(&seq, 1)
				g.lock.Release()
				pre[gi] = []c08Ev{{Seq: s0, K: "srel", T: c08MainTask}, {Seq: atomic.AddInt64(&seq, 1), K: "srelret", T: c08MainTask}}
			}
		}
		var wg gosync.WaitGroup
		var ready int32 // spin barrier: the tasks enter the window within a few hundred nanoseconds
		for th := 0; th < nth; th++ {
			wg.Add(1)
			go func(th int, g *c08Group) {
				defer wg.Done()
				if pinned {
					runtime.LockOSThread()
					defer runtime.UnlockOSThread()
				}
				lock := g.lock
				rng := rand.New(rand.NewSource(seeds[th]))
				local := make([]c08Ev, 0, 4*nops)
				defer func() { logs[th] = local }()
				// a lock operation that touches memory it has no business with (the page behind the lock) faults
				debug.SetPanicOnFault(true)
				defer func() {
					if r := recover(); r != nil {
						local = append(local, c08Ev{Seq: atomic.AddInt64(&seq, 1), K: "fault", T: th})
					}
				}()
				atomic.AddInt32(&ready, 1)
				for t0 := time.Now(); atomic.LoadInt32(&ready) < int32(nth) && time.Since(t0) < c08Deadline(); {
					runtime.Gosched()
				}
				if light {
					// light window: the only instrumentation is inside the critical section, so that
					// nothing staggers the tasks in front of the atomic operation under test; failed
					// try-acquires are not recorded, the call/relret events are written next to the
					// ok/rel events (a call may always be reported early; nothing depends on relret)
					for i, attempts := 0, 0; i < 2*nops && attempts < 400*nops; attempts++ {
						isTry := rng.Intn(100) < tryPct
						if isTry {
							if !lock.TryToAcquire() {
								continue
							}
						} else {
							c08Acquire(lock, att)
						}
						c := g.counter
						s1 := atomic.AddInt64(&seq, 2)
						op := "acq"
						if isTry {
							op = "try"
						}
						local = append(local, c08Ev{Seq: s1 - 1, K: "call", T: th, Op: op, Res: "ok"}, c08Ev{Seq: s1, K: "ok", T: th, C: c})
						g.counter = c + 1
						if rng.Intn(4) == 0 {
							runtime.Gosched()
						}
						s2 := atomic.AddInt64(&seq, 2)
						local = append(local, c08Ev{Seq: s2 - 1, K: "rel", T: th}, c08Ev{Seq: s2, K: "relret", T: th})
						lock.Release()
						i++
					}
					return
				}
				for i := 0; i < nops; i++ {
					got := false
					if rng.Intn(100) < tryPct {
						ci := len(local)
						local = append(local, c08Ev{Seq: atomic.AddInt64(&seq, 1), K: "call", T: th, Op: "try"})
						if lock.TryToAcquire() {
							c := g.counter
							local = append(local, c08Ev{Seq: atomic.AddInt64(&seq, 1), K: "ok", T: th, C: c})
							local[ci].Res = "ok"
							g.counter = c + 1
							got = true
						} else {
							local = append(local, c08Ev{Seq: atomic.AddInt64(&seq, 1), K: "fail", T: th, Eq: -1})
							local[ci].Res = "fail"
						}
					} else {
						local = append(local, c08Ev{Seq: atomic.AddInt64(&seq, 1), K: "call", T: th, Op: "acq", Res: "ok"})
						c08Acquire(lock, att)
						c := g.counter
						local = append(local, c08Ev{Seq: atomic.AddInt64(&seq, 1), K: "ok", T: th, C: c})
						g.counter = c + 1
						got = true
					}
					if got {
						if rng.Intn(4) == 0 {
							runtime.Gosched() // stay inside the lock a little longer
						}
						local = append(local, c08Ev{Seq: atomic.AddInt64(&seq, 1), K: "rel", T: th})
						lock.Release()
						local = append(local, c08Ev{Seq: atomic.AddInt64(&seq, 1), K: "relret", T: th})
					}
				}
			}(th, groups[th%len(groups)])
		}
		fin := make(chan struct{})
		go func() { wg.Wait(); close(fin) }()
		select {
		case <-fin:
		case <-time.After(c08Deadline()):
			enc.Encode(c08Ev{K: "stuck"})
			bw.Flush()
			out.Close()
			syscall.Exit(0)
		}
		yieldFn = runtime.Gosched
		if stray { // every task has stopped and released what it took: the lock is free again
			for gi, g := range groups {
				s0 := atomic.AddInt64(&seq, 1)
				g.lock.Release()
				po := []c08Ev{{Seq: s0, K: "srel", T: c08MainTask}, {Seq: atomic.AddInt64(&seq, 1), K: "srelret", T: c08MainTask},
					{Seq: atomic.AddInt64(&seq, 1), K: "call", T: c08MainTask, Op: "try"}}
				// ... and can still be taken
				if g.lock.TryToAcquire() {
					c := g.counter
					po[2].Res = "ok"
					po = append(po, c08Ev{Seq: atomic.AddInt64(&seq, 1), K: "ok", T: c08MainTask, C: c})
					g.counter = c + 1
					po = append(po, c08Ev{Seq: atomic.AddInt64(&seq, 1), K: "rel", T: c08MainTask})
					g.lock.Release()
					po = append(po, c08Ev{Seq: atomic.AddInt64(&seq, 1), K: "relret", T: c08MainTask})
				} else {
					po[2].Res = "fail"
					po = append(po, c08Ev{Seq: atomic.AddInt64(&seq, 1), K: "fail", T: c08MainTask, Eq: -1})
				}
				post[gi] = po
			}
		}
		// one case per lock: what happens on one lock is judged independently of the lock next to it
		for gi, g := range groups {
			evs := append([]c08Ev{}, pre[gi]...)
			evs = append(evs, post[gi]...)
			for _, th := range g.ids {
				evs = append(evs, logs[th]...)
			}
			sort.Slice(evs, func(i, j int) bool { return evs[i].Seq < evs[j].Seq })
			for _, e := range evs {
				enc.Encode(e)
			}
			if len(groups) == 1 {
				enc.Encode(place.nbEvent())
			}
			enc.Encode(c08Ev{K: "reset"})
			total += len(evs) + 2
		}
		c08QuiescentGC(w*16 + 15) // all tasks of the window have been joined
	}
	os.Stdout.WriteString("VERIF-STATS windows=" + strconv.Itoa(nwin) + " events=" + strconv.Itoa(total) + "\n")
}
