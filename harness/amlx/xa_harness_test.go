//go:build verif
// +build verif

package aml

// Conformance harness for the extension family extra-amlgrow (DESIGN.md section 5 item 6): the AML
// namespace specification grown towards the full opcode table (specs/amlx/AmlNsX.tla).
//
// Superset of the C11 harness (harness/aml/c11_harness_test.go), in files and identifiers of its
// own (prefix xa).  It contains no oracle.  A program is an abstract TOKEN STREAM; this file
//   (a) encodes the tokens into AML byte code,
//   (b) runs the REAL parser (Parser.ParseAML, one call per table, one ObjectTree per program) in
//       a CHILD PROCESS per batch (a Go stack overflow is fatal),
//   (c) projects the resulting object tree through ObjectAt/ArgAt/NumArgs into
//         ns     the named objects (absolute path, kind, argument values in order),
//         calls  every method-invocation node (callee, rendered arguments) in source order,
//         bodies for every method (and every scope that holds executable statements) its statement
//                list, "decompiled" back into the token form (stmt / if / else / while / close),
//         xs     the tree-resident objects that are no namespace objects by ACPI (Alias, External,
//                field containers) with the place the parser gave them,
//   (d) writes one ndjson line per program {id, toks, obs}.
// Whether `obs` is what the token stream means is decided by TLC with specs/amlx/AmlNsXTrace.tla.

import (
	"bytes"
	"encoding/json"
	"fmt"
	"sort"
	"strconv"
	"strings"
	"unsafe"

	"github.com/ProjectSerenity/firefly/kernel/device/acpi/table"
)

// ---------------------------------------------------------------------------------- tokens

type xaForm struct {
	Abs    bool     `json:"abs"`
	Carets int      `json:"carets"`
	Segs   []string `json:"segs"`
}

// xaTerm is a value / expression.  Canonical field sets per type (both in tokens and in the projection):
//   zero|one|ones {t}; byte|word {t,n:[v]}; dword {t,n:[hi16,lo16]}; qword {t,n:[4 limbs]}; string {t,s};
//   buffer {t,a:[len term],n:[bytes]}; package {t,n:[count],a:[elements]}; varpackage {t,a:[count term, elements..]};
//   arg|local {t,n:[i]}; op {t,s,a} (operator s with its operands, targets last; a null target is left out);
//   tokens only:     ref {t,f}  call {t,f,a}
//   projection only: ref {t,p}  call {t,p,a}  name {t,f} (a name string that was not resolved)
//   unit {t,n:[off,bits,accType,accAttrib,lock,update],f} field unit of Field (f = region name as written);
//   iunit {t,n,f,g} unit of IndexField (index, data name); bunit {t,n,f,g,a:[bank value]} unit of BankField.
type xaTerm struct {
	T string
	N []int
	S string
	A []xaTerm
	F *xaForm
	G *xaForm
	P []string
}

func (t xaTerm) MarshalJSON() ([]byte, error) {
	m := map[string]interface{}{"t": t.T}
	ints := func() []int {
		if t.N == nil {
			return []int{}
		}
		return t.N
	}
	terms := func() []xaTerm {
		if t.A == nil {
			return []xaTerm{}
		}
		return t.A
	}
	switch t.T {
	case "zero", "one", "ones":
	case "byte", "word", "dword", "qword", "arg", "local":
		m["n"] = ints()
	case "string":
		m["s"] = t.S
	case "buffer", "package":
		m["n"] = ints()
		m["a"] = terms()
	case "varpackage":
		m["a"] = terms()
	case "ref", "name":
		if t.F != nil {
			m["f"] = t.F
		} else {
			m["p"] = xaStrs(t.P)
		}
	case "call":
		if t.F != nil {
			m["f"] = t.F
		} else {
			m["p"] = xaStrs(t.P)
		}
		m["a"] = terms()
	case "unit":
		m["n"] = ints()
		m["f"] = t.F
	case "iunit":
		m["n"] = ints()
		m["f"] = t.F
		m["g"] = t.G
	case "bunit":
		m["n"] = ints()
		m["f"] = t.F
		m["g"] = t.G
		m["a"] = terms()
	default: // op and anything unexpected
		m["s"] = t.S
		m["a"] = terms()
	}
	return json.Marshal(m)
}

func (t *xaTerm) UnmarshalJSON(b []byte) error {
	var r struct {
		T string   `json:"t"`
		N []int    `json:"n"`
		S string   `json:"s"`
		A []xaTerm `json:"a"`
		F *xaForm  `json:"f"`
		G *xaForm  `json:"g"`
		P []string `json:"p"`
	}
	if err := json.Unmarshal(b, &r); err != nil {
		return err
	}
	*t = xaTerm{T: r.T, N: r.N, S: r.S, A: r.A, F: r.F, G: r.G, P: r.P}
	return nil
}

func xaStrs(s []string) []string {
	if s == nil {
		return []string{}
	}
	return s
}

type xaEl struct {
	E    string `json:"e"` // unit | skip | access
	Name string `json:"name,omitempty"`
	Bits int    `json:"bits"`
	Wl   int    `json:"wl"` // encoding width of the bit count (1..4, widened if needed)
	At   int    `json:"at"`
	Aa   int    `json:"aa"`
}

// token kinds: scope open method close decl field ifield bfield alias external cfield stmt if else while endtable
type xaTok struct {
	K     string   `json:"k"`
	Kind  string   `json:"kind,omitempty"`
	F     *xaForm  `json:"f,omitempty"`
	G     *xaForm  `json:"g,omitempty"`
	W     int      `json:"w,omitempty"`
	Flags int      `json:"flags"`
	Args  []xaTerm `json:"args,omitempty"`
	Els   []xaEl   `json:"els,omitempty"`
	Op    string   `json:"op,omitempty"`
	X     []xaTerm `json:"x,omitempty"`
}

func xaElsJSON(in []xaEl) []map[string]interface{} {
	els := []map[string]interface{}{}
	for _, e := range in {
		switch e.E {
		case "unit":
			els = append(els, map[string]interface{}{"e": "unit", "name": e.Name, "bits": e.Bits, "wl": e.Wl})
		case "skip":
			els = append(els, map[string]interface{}{"e": "skip", "bits": e.Bits, "wl": e.Wl})
		default:
			els = append(els, map[string]interface{}{"e": "access", "at": e.At, "aa": e.Aa})
		}
	}
	return els
}

// canonical token JSON (exactly the fields AmlNsX.tla uses for that token kind)
func (t xaTok) MarshalJSON() ([]byte, error) {
	m := map[string]interface{}{"k": t.K}
	args := t.Args
	if args == nil {
		args = []xaTerm{}
	}
	x := t.X
	if x == nil {
		x = []xaTerm{}
	}
	switch t.K {
	case "scope":
		m["f"], m["w"] = t.F, t.W
	case "open":
		m["kind"], m["f"], m["w"], m["args"] = t.Kind, t.F, t.W, args
	case "method":
		m["f"], m["w"], m["flags"] = t.F, t.W, t.Flags
	case "decl":
		m["kind"], m["f"], m["args"] = t.Kind, t.F, args
	case "field":
		m["f"], m["w"], m["flags"], m["els"] = t.F, t.W, t.Flags, xaElsJSON(t.Els)
	case "ifield":
		m["f"], m["g"], m["w"], m["flags"], m["els"] = t.F, t.G, t.W, t.Flags, xaElsJSON(t.Els)
	case "bfield":
		m["f"], m["g"], m["x"], m["w"], m["flags"], m["els"] = t.F, t.G, x, t.W, t.Flags, xaElsJSON(t.Els)
	case "alias":
		m["f"], m["g"] = t.F, t.G
	case "external":
		m["f"], m["args"] = t.F, args
	case "cfield":
		m["kind"], m["f"], m["x"] = t.Kind, t.F, x
	case "stmt":
		m["op"], m["x"] = t.Op, x
	case "if", "while":
		m["x"], m["w"] = x, t.W
	case "else":
		m["w"] = t.W
	}
	return json.Marshal(m)
}

type xaProg struct {
	ID   int             `json:"id"`
	Toks []xaTok         `json:"-"`
	Raw  json.RawMessage `json:"toks"`
}

// ---------------------------------------------------------------------------------- encoder (trusted, no expected results)

// PkgLength that counts itself, at least `width` bytes wide
func xaEncPkg(body []byte, width int) []byte {
	if width < 1 {
		width = 1
	}
	for w := width; w <= 4; w++ {
		n := len(body) + w
		switch w {
		case 1:
			if n <= 0x3f {
				return append([]byte{byte(n)}, body...)
			}
		case 2:
			if n <= 0xfff {
				return append([]byte{byte(0x40 | n&0xf), byte(n >> 4)}, body...)
			}
		case 3:
			if n <= 0xfffff {
				return append([]byte{byte(0x80 | n&0xf), byte(n >> 4), byte(n >> 12)}, body...)
			}
		case 4:
			return append([]byte{byte(0xc0 | n&0xf), byte(n >> 4), byte(n >> 12), byte(n >> 20)}, body...)
		}
	}
	panic("xa: package too long")
}

// PkgLength-style encoding of a plain value (field widths)
func xaEncPkgVal(v int, width int) []byte {
	if width < 1 {
		width = 1
	}
	for w := width; w <= 4; w++ {
		switch w {
		case 1:
			if v <= 0x3f {
				return []byte{byte(v)}
			}
		case 2:
			if v <= 0xfff {
				return []byte{byte(0x40 | v&0xf), byte(v >> 4)}
			}
		case 3:
			if v <= 0xfffff {
				return []byte{byte(0x80 | v&0xf), byte(v >> 4), byte(v >> 12)}
			}
		case 4:
			return []byte{byte(0xc0 | v&0xf), byte(v >> 4), byte(v >> 12), byte(v >> 20)}
		}
	}
	panic("xa: value too long")
}

func xaEncName(f *xaForm) []byte {
	var b []byte
	if f.Abs {
		b = append(b, '\\')
	}
	for i := 0; i < f.Carets; i++ {
		b = append(b, '^')
	}
	switch len(f.Segs) {
	case 0:
		b = append(b, 0x00)
	case 1:
	case 2:
		b = append(b, 0x2e)
	default:
		b = append(b, 0x2f, byte(len(f.Segs)))
	}
	for _, s := range f.Segs {
		if len(s) != 4 {
			panic("xa: bad name segment " + s)
		}
		b = append(b, s...)
	}
	return b
}

// operators: opcode bytes and operand kinds.  T TermArg, N SuperName/NameString operand (a term, encoded as is),
// G Target (left out of the term's operand list = null target), B/W/D ByteData/WordData/DWordData
// (a byte/word/dword constant term, encoded without its prefix)
var xaOps = map[string]struct {
	code []byte
	sig  string
}{
	"Add": {[]byte{0x72}, "TTG"}, "Concat": {[]byte{0x73}, "TTG"}, "Subtract": {[]byte{0x74}, "TTG"}, "Multiply": {[]byte{0x77}, "TTG"},
	"Divide": {[]byte{0x78}, "TTGG"}, "ShiftLeft": {[]byte{0x79}, "TTG"}, "ShiftRight": {[]byte{0x7a}, "TTG"}, "And": {[]byte{0x7b}, "TTG"},
	"Nand": {[]byte{0x7c}, "TTG"}, "Or": {[]byte{0x7d}, "TTG"}, "Nor": {[]byte{0x7e}, "TTG"}, "Xor": {[]byte{0x7f}, "TTG"},
	"Not": {[]byte{0x80}, "TG"}, "FindSetLeftBit": {[]byte{0x81}, "TG"}, "FindSetRightBit": {[]byte{0x82}, "TG"},
	"DerefOf": {[]byte{0x83}, "T"}, "ConcatRes": {[]byte{0x84}, "TTG"}, "Mod": {[]byte{0x85}, "TTG"}, "Notify": {[]byte{0x86}, "NT"},
	"SizeOf": {[]byte{0x87}, "N"}, "Index": {[]byte{0x88}, "TTG"}, "Match": {[]byte{0x89}, "TBTBTT"}, "ObjectType": {[]byte{0x8e}, "N"},
	"Land": {[]byte{0x90}, "TT"}, "Lor": {[]byte{0x91}, "TT"}, "Lnot": {[]byte{0x92}, "T"}, "LEqual": {[]byte{0x93}, "TT"},
	"LGreater": {[]byte{0x94}, "TT"}, "LLess": {[]byte{0x95}, "TT"}, "ToBuffer": {[]byte{0x96}, "TG"}, "ToDecimalString": {[]byte{0x97}, "TG"},
	"ToHexString": {[]byte{0x98}, "TG"}, "ToInteger": {[]byte{0x99}, "TG"}, "ToString": {[]byte{0x9c}, "TTG"}, "CopyObject": {[]byte{0x9d}, "TN"},
	"Mid": {[]byte{0x9e}, "TTTG"}, "Continue": {[]byte{0x9f}, ""}, "Noop": {[]byte{0xa3}, ""}, "Return": {[]byte{0xa4}, "T"}, "Break": {[]byte{0xa5}, ""},
	"BreakPoint": {[]byte{0xcc}, ""}, "Store": {[]byte{0x70}, "TN"}, "RefOf": {[]byte{0x71}, "N"}, "Increment": {[]byte{0x75}, "N"}, "Decrement": {[]byte{0x76}, "N"},
	"CondRefOf": {[]byte{0x5b, 0x12}, "NG"}, "LoadTable": {[]byte{0x5b, 0x1f}, "TTTTTT"}, "Load": {[]byte{0x5b, 0x20}, "NN"},
	"Stall": {[]byte{0x5b, 0x21}, "T"}, "Sleep": {[]byte{0x5b, 0x22}, "T"}, "Acquire": {[]byte{0x5b, 0x23}, "NW"}, "Signal": {[]byte{0x5b, 0x24}, "N"},
	"Wait": {[]byte{0x5b, 0x25}, "NT"}, "Reset": {[]byte{0x5b, 0x26}, "N"}, "Release": {[]byte{0x5b, 0x27}, "N"}, "FromBCD": {[]byte{0x5b, 0x28}, "TG"},
	"ToBCD": {[]byte{0x5b, 0x29}, "TG"}, "Unload": {[]byte{0x5b, 0x2a}, "N"}, "Revision": {[]byte{0x5b, 0x30}, ""}, "Debug": {[]byte{0x5b, 0x31}, ""},
	"Fatal": {[]byte{0x5b, 0x32}, "BDT"}, "Timer": {[]byte{0x5b, 0x33}, ""},
}

func xaEncTerm(t xaTerm) []byte {
	switch t.T {
	case "zero":
		return []byte{0x00}
	case "one":
		return []byte{0x01}
	case "ones":
		return []byte{0xff}
	case "byte":
		return []byte{0x0a, byte(t.N[0])}
	case "word":
		return []byte{0x0b, byte(t.N[0]), byte(t.N[0] >> 8)}
	case "dword":
		return []byte{0x0c, byte(t.N[1]), byte(t.N[1] >> 8), byte(t.N[0]), byte(t.N[0] >> 8)}
	case "qword":
		return []byte{0x0e, byte(t.N[3]), byte(t.N[3] >> 8), byte(t.N[2]), byte(t.N[2] >> 8), byte(t.N[1]), byte(t.N[1] >> 8), byte(t.N[0]), byte(t.N[0] >> 8)}
	case "string":
		return append(append([]byte{0x0d}, t.S...), 0x00)
	case "buffer":
		body := xaEncTerm(t.A[0])
		for _, v := range t.N {
			body = append(body, byte(v))
		}
		return append([]byte{0x11}, xaEncPkg(body, 1+len(body)%4)...)
	case "package":
		body := []byte{byte(t.N[0])}
		for _, e := range t.A {
			body = append(body, xaEncTerm(e)...)
		}
		return append([]byte{0x12}, xaEncPkg(body, 1+len(body)%4)...)
	case "varpackage":
		var body []byte
		for _, e := range t.A {
			body = append(body, xaEncTerm(e)...)
		}
		return append([]byte{0x13}, xaEncPkg(body, 1+len(body)%4)...)
	case "arg":
		return []byte{byte(0x68 + t.N[0])}
	case "local":
		return []byte{byte(0x60 + t.N[0])}
	case "ref":
		return xaEncName(t.F)
	case "call":
		b := xaEncName(t.F)
		for _, a := range t.A {
			b = append(b, xaEncTerm(a)...)
		}
		return b
	case "op":
		op, ok := xaOps[t.S]
		if !ok {
			panic("xa: bad op " + t.S)
		}
		if len(t.A) > len(op.sig) {
			panic("xa: too many operands for " + t.S)
		}
		b := append([]byte{}, op.code...)
		for i, k := range op.sig {
			switch {
			case i >= len(t.A):
				if k != 'G' {
					panic("xa: missing operand of " + t.S)
				}
				b = append(b, 0x00)
			case k == 'B' || k == 'W' || k == 'D':
				if want := map[rune]string{'B': "byte", 'W': "word", 'D': "dword"}[k]; t.A[i].T != want {
					panic("xa: operand of " + t.S + " must be " + want)
				}
				b = append(b, xaEncTerm(t.A[i])[1:]...)
			default:
				b = append(b, xaEncTerm(t.A[i])...)
			}
		}
		return b
	}
	panic("xa: cannot encode term " + t.T)
}

var xaOpenOp = map[string][]byte{"Device": {0x5b, 0x82}, "ThermalZone": {0x5b, 0x85}, "Processor": {0x5b, 0x83}, "PowerRes": {0x5b, 0x84}}
var xaStmtOp = map[string][]byte{"ret": {0xa4}, "store": {0x70}, "inc": {0x75}, "dec": {0x76}, "call": {}, "x": {}, "noop": {0xa3}}
var xaCreateOp = map[string][]byte{"CreateDWordField": {0x8a}, "CreateWordField": {0x8b}, "CreateByteField": {0x8c}, "CreateBitField": {0x8d},
	"CreateQWordField": {0x8f}, "CreateField": {0x5b, 0x13}}

type xaFrame struct {
	head  []byte // opcode bytes
	body  []byte
	width int
}

func xaEncEls(b []byte, els []xaEl) []byte {
	for _, e := range els {
		switch e.E {
		case "unit":
			b = append(append(b, e.Name...), xaEncPkgVal(e.Bits, e.Wl)...)
		case "skip":
			b = append(append(b, 0x00), xaEncPkgVal(e.Bits, e.Wl)...)
		case "access":
			b = append(b, 0x01, byte(e.At), byte(e.Aa))
		}
	}
	return b
}

// xaEncode turns a token stream into the AML byte code of its tables.
func xaEncode(toks []xaTok) (tables [][]byte, err error) {
	defer func() {
		if r := recover(); r != nil {
			err = fmt.Errorf("encoder: %v", r)
		}
	}()
	stack := []*xaFrame{{}}
	top := func() *xaFrame { return stack[len(stack)-1] }
	raw := func(t xaTerm) []byte { // fixed-width argument data (ByteData/WordData/DwordData): constant without its prefix
		return xaEncTerm(t)[1:]
	}
	for _, t := range toks {
		switch t.K {
		case "scope":
			stack = append(stack, &xaFrame{head: []byte{0x10}, body: xaEncName(t.F), width: t.W})
		case "open":
			b := xaEncName(t.F)
			for _, a := range t.Args {
				b = append(b, raw(a)...)
			}
			stack = append(stack, &xaFrame{head: xaOpenOp[t.Kind], body: b, width: t.W})
		case "method":
			stack = append(stack, &xaFrame{head: []byte{0x14}, body: append(xaEncName(t.F), byte(t.Flags)), width: t.W})
		case "if":
			stack = append(stack, &xaFrame{head: []byte{0xa0}, body: xaEncTerm(t.X[0]), width: t.W})
		case "else":
			stack = append(stack, &xaFrame{head: []byte{0xa1}, width: t.W})
		case "while":
			stack = append(stack, &xaFrame{head: []byte{0xa2}, body: xaEncTerm(t.X[0]), width: t.W})
		case "close":
			f := top()
			stack = stack[:len(stack)-1]
			top().body = append(top().body, append(f.head, xaEncPkg(f.body, f.width)...)...)
		case "decl":
			var b []byte
			switch t.Kind {
			case "Name":
				b = append(append([]byte{0x08}, xaEncName(t.F)...), xaEncTerm(t.Args[0])...)
			case "OpRegion":
				b = append(append([]byte{0x5b, 0x80}, xaEncName(t.F)...), raw(t.Args[0])...)
				b = append(append(b, xaEncTerm(t.Args[1])...), xaEncTerm(t.Args[2])...)
			case "DataRegion":
				b = append([]byte{0x5b, 0x88}, xaEncName(t.F)...)
				b = append(append(append(b, xaEncTerm(t.Args[0])...), xaEncTerm(t.Args[1])...), xaEncTerm(t.Args[2])...)
			case "Mutex":
				b = append(append([]byte{0x5b, 0x01}, xaEncName(t.F)...), raw(t.Args[0])...)
			case "Event":
				b = append([]byte{0x5b, 0x02}, xaEncName(t.F)...)
			default:
				panic("xa: decl kind " + t.Kind)
			}
			top().body = append(top().body, b...)
		case "alias": // DefAlias := AliasOp NameString(source) NameString(alias)
			b := append(append([]byte{0x06}, xaEncName(t.G)...), xaEncName(t.F)...)
			top().body = append(top().body, b...)
		case "external": // DefExternal := ExternalOp NameString ObjectType ArgumentCount
			b := append(append(append([]byte{0x15}, xaEncName(t.F)...), raw(t.Args[0])...), raw(t.Args[1])...)
			top().body = append(top().body, b...)
		case "cfield": // CreateXField(source, index[, bits], name)
			op, ok := xaCreateOp[t.Kind]
			if !ok {
				panic("xa: cfield kind " + t.Kind)
			}
			b := append([]byte{}, op...)
			for _, x := range t.X {
				b = append(b, xaEncTerm(x)...)
			}
			top().body = append(top().body, append(b, xaEncName(t.F)...)...)
		case "field":
			b := xaEncEls(append(xaEncName(t.F), byte(t.Flags)), t.Els)
			top().body = append(top().body, append([]byte{0x5b, 0x81}, xaEncPkg(b, t.W)...)...)
		case "ifield":
			b := xaEncEls(append(append(xaEncName(t.F), xaEncName(t.G)...), byte(t.Flags)), t.Els)
			top().body = append(top().body, append([]byte{0x5b, 0x86}, xaEncPkg(b, t.W)...)...)
		case "bfield":
			b := append(append(xaEncName(t.F), xaEncName(t.G)...), xaEncTerm(t.X[0])...)
			b = xaEncEls(append(b, byte(t.Flags)), t.Els)
			top().body = append(top().body, append([]byte{0x5b, 0x87}, xaEncPkg(b, t.W)...)...)
		case "stmt":
			op, ok := xaStmtOp[t.Op]
			if !ok {
				panic("xa: stmt op " + t.Op)
			}
			b := append([]byte{}, op...)
			for _, x := range t.X {
				b = append(b, xaEncTerm(x)...)
			}
			top().body = append(top().body, b...)
		case "endtable":
			if len(stack) != 1 {
				panic("xa: unbalanced token stream")
			}
			tables = append(tables, top().body)
			stack = []*xaFrame{{}}
		default:
			panic("xa: token kind " + t.K)
		}
	}
	if len(stack) != 1 || len(top().body) != 0 {
		panic("xa: token stream does not end with endtable")
	}
	return tables, nil
}

// ---------------------------------------------------------------------------------- running the real parser

func xaParse(tables [][]byte) (tree *ObjectTree, res string, msg string) {
	tree = NewObjectTree()
	tree.CreateDefaultScopes(0)
	var errb bytes.Buffer
	p := NewParser(&errb, tree)
	res = "ok"
	defer func() {
		if r := recover(); r != nil {
			res, msg = "panic", fmt.Sprint(r)
		}
	}()
	for i, data := range tables {
		headerLen := int(unsafe.Sizeof(table.SDTHeader{}))
		stream := make([]byte, headerLen+len(data))
		copy(stream[headerLen:], data)
		header := (*table.SDTHeader)(unsafe.Pointer(&stream[0]))
		header.Signature = [4]byte{'D', 'S', 'D', 'T'}
		header.Length = uint32(len(stream))
		header.Revision = 2
		if err := p.ParseAML(uint8(i+1), "T"+strconv.Itoa(i+1), header); err != nil {
			return tree, "error", strings.TrimSpace(errb.String())
		}
	}
	return tree, "ok", ""
}

// ---------------------------------------------------------------------------------- projection (trusted, no expected results)

type xaEntry struct {
	P    []string `json:"p"`
	Kind string   `json:"kind"`
	Args []xaTerm `json:"args"`
}
type xaCall struct {
	Tab int      `json:"tab"`
	P   []string `json:"p"`
	A   []xaTerm `json:"a"`
	off uint32
}

// projected statement token: {k:"stmt",x:[term]} {k:"if",x:[pred]} {k:"while",x:[pred]} {k:"else"} {k:"close"}
type xaPTok struct {
	K string
	X []xaTerm
}

func (t xaPTok) MarshalJSON() ([]byte, error) {
	m := map[string]interface{}{"k": t.K}
	if t.K == "stmt" || t.K == "if" || t.K == "while" {
		x := t.X
		if x == nil {
			x = []xaTerm{}
		}
		m["x"] = x
	}
	return json.Marshal(m)
}

type xaBody struct {
	P []string `json:"p"`
	B []xaPTok `json:"b"`
}
type xaObs struct {
	Res    string    `json:"res"`
	Err    string    `json:"err"`
	NS     []xaEntry `json:"ns"`
	Calls  []xaCall  `json:"calls"`
	Bodies []xaBody  `json:"bodies"`
	XS     []xaEntry `json:"xs"`
}

func xaEmptyObs(res, msg string) xaObs {
	return xaObs{Res: res, Err: msg, NS: []xaEntry{}, Calls: []xaCall{}, Bodies: []xaBody{}, XS: []xaEntry{}}
}

// objects that the parser's opcode table flags as named although ACPI gives them no name of their own
func xaPseudoNamed(op uint16) bool {
	return op == pOpIndexField || op == pOpBankField || op == pOpAlias || op == pOpExternal
}

func xaNamed(o *Object) bool {
	return pOpcodeTable[o.infoIndex].flags&pOpFlagNamed != 0 || o.opcode == pOpIntNamedField
}

func xaArgs(tree *ObjectTree, o *Object) []*Object {
	var out []*Object
	for i, n := uint32(0), tree.NumArgs(o); i < n; i++ {
		out = append(out, tree.ArgAt(o, i))
	}
	return out
}

// absolute namespace path of an object: names of its named ancestors (anonymous scope blocks are
// the scope of the object that owns them)
func xaPathOf(tree *ObjectTree, o *Object) []string {
	var rev []string
	for guard := 0; o != nil && o.index != 0 && guard < 1<<16; guard++ {
		if xaNamed(o) && o.name != [amlNameLen]byte{} {
			rev = append(rev, string(o.name[:]))
		}
		o = tree.ObjectAt(o.parentIndex)
	}
	out := make([]string, 0, len(rev))
	for i := len(rev) - 1; i >= 0; i-- {
		out = append(out, rev[i])
	}
	return out
}

func xaDecodeName(b []byte) *xaForm {
	f := &xaForm{Segs: []string{}}
	i := 0
	for ; i < len(b) && (b[i] == '\\' || b[i] == '^'); i++ {
		if b[i] == '\\' {
			f.Abs = true
		} else {
			f.Carets++
		}
	}
	if i < len(b) && b[i] == 0x2e {
		i++
	} else if i+1 < len(b) && b[i] == 0x2f {
		i += 2
	}
	for ; i+4 <= len(b); i += 4 {
		f.Segs = append(f.Segs, string(b[i:i+4]))
	}
	if i != len(b) {
		f.Segs = append(f.Segs, fmt.Sprintf("?%x", b[i:]))
	}
	return f
}

func xaLimbs(v uint64, n int) []int {
	out := make([]int, n)
	for i := n - 1; i >= 0; i-- {
		out[i] = int(v & 0xffff)
		v >>= 16
	}
	return out
}

func xaTerm1(tree *ObjectTree, o *Object, depth int) xaTerm {
	if o == nil {
		return xaTerm{T: "op", S: "nil"}
	}
	if depth > 64 {
		return xaTerm{T: "op", S: "too-deep"}
	}
	sub := func(objs []*Object) []xaTerm {
		out := []xaTerm{}
		for _, a := range objs {
			out = append(out, xaTerm1(tree, a, depth+1))
		}
		return out
	}
	u64 := func() uint64 { v, _ := o.value.(uint64); return v }
	switch o.opcode {
	case pOpZero:
		return xaTerm{T: "zero"}
	case pOpOne:
		return xaTerm{T: "one"}
	case pOpOnes:
		return xaTerm{T: "ones"}
	case pOpBytePrefix:
		return xaTerm{T: "byte", N: []int{int(u64())}}
	case pOpWordPrefix:
		return xaTerm{T: "word", N: []int{int(u64())}}
	case pOpDwordPrefix:
		return xaTerm{T: "dword", N: xaLimbs(u64(), 2)}
	case pOpQwordPrefix:
		return xaTerm{T: "qword", N: xaLimbs(u64(), 4)}
	case pOpStringPrefix:
		b, _ := o.value.([]byte)
		return xaTerm{T: "string", S: string(b)}
	case pOpBuffer:
		args := xaArgs(tree, o)
		if len(args) == 2 && args[1].opcode == pOpIntByteList {
			bl, _ := args[1].value.([]byte)
			n := make([]int, len(bl))
			for i, v := range bl {
				n[i] = int(v)
			}
			return xaTerm{T: "buffer", A: sub(args[:1]), N: n}
		}
		return xaTerm{T: "op", S: "Buffer", A: sub(args)}
	case pOpPackage:
		args := xaArgs(tree, o)
		if len(args) == 2 && args[0].opcode == pOpBytePrefix && args[1].opcode == pOpIntScopeBlock {
			v, _ := args[0].value.(uint64)
			return xaTerm{T: "package", N: []int{int(v)}, A: sub(xaArgs(tree, args[1]))}
		}
		return xaTerm{T: "op", S: "Package", A: sub(args)}
	case pOpVarPackage:
		args := xaArgs(tree, o)
		if len(args) == 2 && args[1].opcode == pOpIntScopeBlock {
			return xaTerm{T: "varpackage", A: append(sub(args[:1]), sub(xaArgs(tree, args[1]))...)}
		}
		return xaTerm{T: "op", S: "VarPackage", A: sub(args)}
	case pOpIntNamePath, pOpIntNamePathOrMethodCall:
		b, _ := o.value.([]byte)
		return xaTerm{T: "name", F: xaDecodeName(b)}
	case pOpIntResolvedNamePath:
		idx, _ := o.value.(uint32)
		return xaTerm{T: "ref", P: xaPathOf(tree, tree.ObjectAt(idx))}
	case pOpIntMethodCall:
		idx, _ := o.value.(uint32)
		return xaTerm{T: "call", P: xaPathOf(tree, tree.ObjectAt(idx)), A: sub(xaArgs(tree, o))}
	}
	switch {
	case o.opcode >= pOpArg0 && o.opcode <= pOpArg6:
		return xaTerm{T: "arg", N: []int{int(o.opcode - pOpArg0)}}
	case o.opcode >= pOpLocal0 && o.opcode <= pOpLocal7:
		return xaTerm{T: "local", N: []int{int(o.opcode - pOpLocal0)}}
	}
	// operator: operands in order; a null target (read as the constant Zero by the first pass, left out
	// by the deferred pass) is left out
	info := &pOpcodeTable[o.infoIndex]
	var ops []*Object
	for i, a := range xaArgs(tree, o) {
		if a.opcode == pOpZero && i < int(info.argFlags.argCount()) && info.argFlags.arg(uint8(i)) == pArgTypeTarget {
			continue
		}
		ops = append(ops, a)
	}
	return xaTerm{T: "op", S: pOpcodeName(o.opcode), A: sub(ops)}
}

// statement list of a block, decompiled into tokens
func xaFlatten(tree *ObjectTree, block *Object, depth int, out *[]xaPTok) {
	xaFlattenObjs(tree, xaArgs(tree, block), depth, out)
}

func xaFlattenObjs(tree *ObjectTree, objs []*Object, depth int, out *[]xaPTok) {
	if depth > 256 {
		*out = append(*out, xaPTok{K: "stmt", X: []xaTerm{{T: "op", S: "too-deep"}}})
		return
	}
	for _, o := range objs {
		args := xaArgs(tree, o)
		switch {
		case (o.opcode == pOpIf || o.opcode == pOpWhile) && len(args) == 2 && args[1].opcode == pOpIntScopeBlock:
			k := "if"
			if o.opcode == pOpWhile {
				k = "while"
			}
			*out = append(*out, xaPTok{K: k, X: []xaTerm{xaTerm1(tree, args[0], 0)}})
			xaFlatten(tree, args[1], depth+1, out)
			*out = append(*out, xaPTok{K: "close"})
		case o.opcode == pOpIf && len(args) == 2:
			// an If that was read by the first pass holds its predicate and ONE statement
			*out = append(*out, xaPTok{K: "if", X: []xaTerm{xaTerm1(tree, args[0], 0)}})
			xaFlattenObjs(tree, args[1:], depth+1, out)
			*out = append(*out, xaPTok{K: "close"})
		case o.opcode == pOpElse && len(args) == 1 && args[0].opcode == pOpIntScopeBlock:
			*out = append(*out, xaPTok{K: "else"})
			xaFlatten(tree, args[0], depth+1, out)
			*out = append(*out, xaPTok{K: "close"})
		case o.opcode == pOpIntNamedField || o.opcode == pOpField || o.opcode == pOpIndexField || o.opcode == pOpBankField:
			// field containers and their units are reported through ns / xs
		default:
			*out = append(*out, xaPTok{K: "stmt", X: []xaTerm{xaTerm1(tree, o, 0)}})
		}
	}
}

func xaFormOfArg(tree *ObjectTree, o *Object, i uint32) *xaForm {
	if a := tree.ArgAt(o, i); a != nil {
		if b, ok := a.value.([]byte); ok && (a.opcode == pOpIntNamePath || a.opcode == pOpIntNamePathOrMethodCall) {
			return xaDecodeName(b)
		}
	}
	return &xaForm{Segs: []string{"?"}}
}

// xaProject walks the tree from the root scope: the children of a scope block are the objects of
// that scope; the scope of a scoped object is the scope block among its arguments.
func xaProject(tree *ObjectTree) (obs xaObs) {
	obs = xaEmptyObs("ok", "")
	budget := 1 << 20
	var walk func(scope *Object, path []string)
	walk = func(scope *Object, path []string) {
		stmts := false
		for _, o := range xaArgs(tree, scope) {
			if budget--; budget < 0 {
				return
			}
			if xaPseudoNamed(o.opcode) {
				// Alias / External / IndexField / BankField: where the parser put it and what it holds
				e := xaEntry{P: append([]string{}, path...), Kind: pOpcodeName(o.opcode), Args: []xaTerm{}}
				if o.name != [amlNameLen]byte{} { // a BankField never gets a name (its arguments are read in the deferred pass)
					e.P = append(e.P, string(o.name[:]))
				}
				for _, a := range xaArgs(tree, o) {
					e.Args = append(e.Args, xaTerm1(tree, a, 0))
				}
				obs.XS = append(obs.XS, e)
				continue
			}
			if !xaNamed(o) && o.opcode != pOpScope {
				if o.opcode != pOpField {
					stmts = true
				}
				continue
			}
			p := append(append([]string{}, path...), string(o.name[:]))
			switch {
			case o.opcode == pOpIntScopeBlock:
				obs.NS = append(obs.NS, xaEntry{P: p, Kind: "ScopeBlock", Args: []xaTerm{}})
				walk(o, p)
			case o.opcode == pOpScope:
				obs.NS = append(obs.NS, xaEntry{P: p, Kind: "Scope(unmerged)", Args: []xaTerm{}})
			case o.opcode == pOpIntNamedField:
				fe, _ := o.value.(*fieldElement)
				u := xaTerm{T: "unit", N: []int{}, F: &xaForm{Segs: []string{}}}
				if fe != nil {
					u.N = []int{int(fe.offset), int(fe.width), int(fe.accessType), int(fe.accessAttrib), int(fe.lockType), int(fe.updateType)}
					if fo := tree.ObjectAt(fe.fieldIndex); fo != nil {
						switch fo.opcode {
						case pOpField:
							u.F = xaFormOfArg(tree, fo, 0)
						case pOpIndexField:
							u.T, u.F, u.G = "iunit", xaFormOfArg(tree, fo, 0), xaFormOfArg(tree, fo, 1)
						case pOpBankField:
							u.T, u.F, u.G = "bunit", xaFormOfArg(tree, fo, 0), xaFormOfArg(tree, fo, 1)
							u.A = []xaTerm{xaTerm1(tree, tree.ArgAt(fo, 2), 0)}
						default:
							u.T = "unit-of-" + pOpcodeName(fo.opcode)
						}
					}
				}
				obs.NS = append(obs.NS, xaEntry{P: p, Kind: "NamedField", Args: []xaTerm{u}})
			default:
				e := xaEntry{P: p, Kind: pOpcodeName(o.opcode), Args: []xaTerm{}}
				var block *Object
				for i, a := range xaArgs(tree, o) {
					if i == 0 && a.opcode == pOpIntNamePath {
						continue // the object's own name
					}
					if a.opcode == pOpIntScopeBlock {
						block = a
						continue
					}
					e.Args = append(e.Args, xaTerm1(tree, a, 0))
				}
				obs.NS = append(obs.NS, e)
				if block != nil && o.opcode != pOpMethod {
					walk(block, p)
				}
				if block != nil && o.opcode == pOpMethod {
					b := xaBody{P: p, B: []xaPTok{}}
					xaFlatten(tree, block, 0, &b.B)
					obs.Bodies = append(obs.Bodies, b)
				}
			}
		}
		if stmts { // executable statements written directly in a scope
			var objs []*Object
			for _, o := range xaArgs(tree, scope) {
				if xaPseudoNamed(o.opcode) || xaNamed(o) || o.opcode == pOpScope || o.opcode == pOpField {
					continue
				}
				objs = append(objs, o)
			}
			b := xaBody{P: append([]string{}, path...), B: []xaPTok{}}
			xaFlattenObjs(tree, objs, 0, &b.B)
			obs.Bodies = append(obs.Bodies, b)
		}
	}
	walk(tree.ObjectAt(0), nil)
	// method invocations: every call node reachable from the root, in source order
	var find func(o *Object, depth int)
	find = func(o *Object, depth int) {
		if budget--; budget < 0 || depth > 4096 {
			return
		}
		if o.opcode == pOpIntMethodCall {
			t := xaTerm1(tree, o, 0)
			obs.Calls = append(obs.Calls, xaCall{Tab: int(o.tableHandle), P: xaStrs(t.P), A: t.A, off: o.amlOffset})
		} else if o.opcode == pOpIntNamePathOrMethodCall {
			obs.Calls = append(obs.Calls, xaCall{Tab: int(o.tableHandle), P: []string{"<unresolved>"}, A: []xaTerm{xaTerm1(tree, o, 0)}, off: o.amlOffset})
		}
		for _, a := range xaArgs(tree, o) {
			find(a, depth+1)
		}
	}
	find(tree.ObjectAt(0), 0)
	sort.SliceStable(obs.Calls, func(i, j int) bool {
		if obs.Calls[i].Tab != obs.Calls[j].Tab {
			return obs.Calls[i].Tab < obs.Calls[j].Tab
		}
		return obs.Calls[i].off < obs.Calls[j].off
	})
	return obs
}
