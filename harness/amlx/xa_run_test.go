//go:build verif
// +build verif

package aml

// extra-amlgrow: running programs on the real parser in child processes, program files, entry points.

import (
	"bufio"
	"bytes"
	"encoding/hex"
	"encoding/json"
	"fmt"
	"os"
	"os/exec"
	"runtime/debug"
	"strconv"
	"strings"
	"sync"
	"testing"
	"time"
)

func xaRunOne(toks []xaTok) xaObs {
	tables, err := xaEncode(toks)
	if err != nil {
		return xaEmptyObs("bad-input", err.Error())
	}
	tree, res, msg := xaParse(tables)
	obs := xaEmptyObs(res, msg)
	if res == "ok" {
		func() {
			defer func() {
				if r := recover(); r != nil {
					obs = xaEmptyObs("panic", "projection: "+fmt.Sprint(r))
				}
			}()
			obs = xaProject(tree)
		}()
	}
	return obs
}

func xaReadProgs(path string) ([]xaProg, error) {
	f, err := os.Open(path)
	if err != nil {
		return nil, err
	}
	defer f.Close()
	var out []xaProg
	sc := bufio.NewScanner(f)
	sc.Buffer(make([]byte, 1<<24), 1<<26)
	for sc.Scan() {
		line := bytes.TrimSpace(sc.Bytes())
		if len(line) == 0 {
			continue
		}
		if line[0] == '"' { // TLC's CSVWrite may wrap the JSON into a string literal
			var s string
			if err := json.Unmarshal(line, &s); err != nil {
				return nil, err
			}
			line = []byte(s)
		}
		var p xaProg
		if err := json.Unmarshal(line, &p); err != nil {
			return nil, fmt.Errorf("bad program line %q: %v", line[:xaMin(len(line), 200)], err)
		}
		if err := json.Unmarshal(p.Raw, &p.Toks); err != nil {
			return nil, fmt.Errorf("bad token list %q: %v", line[:xaMin(len(line), 200)], err)
		}
		if p.ID == 0 {
			p.ID = len(out) + 1
		}
		out = append(out, p)
	}
	return out, sc.Err()
}

func xaMin(a, b int) int {
	if a < b {
		return a
	}
	return b
}

func xaMax(a, b int) int {
	if a > b {
		return a
	}
	return b
}

func xaWriteLine(w *bufio.Writer, p xaProg, obs xaObs) {
	b, _ := json.Marshal(map[string]interface{}{"id": p.ID, "toks": p.Raw, "obs": obs})
	w.Write(b)
	w.WriteByte('\n')
	w.Flush()
}

// TestVerifXaChild parses the programs of XA_CHILD_IN one after the other and appends one line per
// finished program to XA_CHILD_OUT.  A fatal error (stack overflow) or a CPU overrun kills the
// process; the parent then knows that the first unfinished program is the culprit.
func TestVerifXaChild(t *testing.T) {
	in, out := os.Getenv("XA_CHILD_IN"), os.Getenv("XA_CHILD_OUT")
	if in == "" {
		t.Skip("child entry point")
	}
	debug.SetMaxStack(64 << 20)
	progs, err := xaReadProgs(in)
	if err != nil {
		t.Fatal(err)
	}
	f, err := os.OpenFile(out, os.O_CREATE|os.O_WRONLY|os.O_APPEND, 0644)
	if err != nil {
		t.Fatal(err)
	}
	defer f.Close()
	w := bufio.NewWriterSize(f, 1<<16)
	var mu sync.Mutex
	started := time.Now()
	go func() { // watchdog: normal programs take well under a millisecond
		for {
			time.Sleep(200 * time.Millisecond)
			mu.Lock()
			d := time.Since(started)
			mu.Unlock()
			if d > 20*time.Second {
				os.Exit(7)
			}
		}
	}()
	for _, p := range progs {
		mu.Lock()
		started = time.Now()
		mu.Unlock()
		xaWriteLine(w, p, xaRunOne(p.Toks))
	}
}

// xaRunIsolated runs the programs in child processes and appends exactly one line per program to out.
func xaRunIsolated(progs []xaProg, outPath string, work string, tag string) error {
	rest := progs
	for round := 0; len(rest) > 0; round++ {
		inPath := fmt.Sprintf("%s/xa_%s_in_%d.ndjson", work, tag, round)
		chOut := fmt.Sprintf("%s/xa_%s_out_%d.ndjson", work, tag, round)
		f, err := os.Create(inPath)
		if err != nil {
			return err
		}
		bw := bufio.NewWriter(f)
		for _, p := range rest {
			b, _ := json.Marshal(map[string]interface{}{"id": p.ID, "toks": p.Raw})
			bw.Write(b)
			bw.WriteByte('\n')
		}
		bw.Flush()
		f.Close()
		os.Remove(chOut)
		cmd := exec.Command(os.Args[0], "-test.run", "^TestVerifXaChild$", "-test.timeout", "3600s")
		cmd.Env = append(os.Environ(), "XA_CHILD_IN="+inPath, "XA_CHILD_OUT="+chOut)
		var stderr bytes.Buffer
		cmd.Stdout, cmd.Stderr = &stderr, &stderr
		runErr := cmd.Run()
		done := 0
		outF, err := os.OpenFile(outPath, os.O_CREATE|os.O_WRONLY|os.O_APPEND, 0644)
		if err != nil {
			return err
		}
		ow := bufio.NewWriterSize(outF, 1<<16)
		if cf, err := os.Open(chOut); err == nil {
			sc := bufio.NewScanner(cf)
			sc.Buffer(make([]byte, 1<<24), 1<<26)
			for sc.Scan() {
				if !json.Valid(sc.Bytes()) {
					break // torn last line of a killed child
				}
				ow.Write(sc.Bytes())
				ow.WriteByte('\n')
				done++
			}
			cf.Close()
		}
		if done > len(rest) {
			return fmt.Errorf("child wrote %d lines for %d programs", done, len(rest))
		}
		if done < len(rest) {
			// the child died while working on rest[done]
			why := "child died"
			se := stderr.String()
			switch {
			case strings.Contains(se, "stack overflow") || strings.Contains(se, "goroutine stack exceeds"):
				why = "fatal stack overflow (unbounded recursion)"
			case runErr != nil && strings.Contains(runErr.Error(), "exit status 7"):
				why = "no result after 20 s (non-termination)"
			case runErr == nil:
				return fmt.Errorf("child exited cleanly after %d of %d programs:\n%s", done, len(rest), xaTail(se))
			default:
				why = "child died: " + runErr.Error() + ": " + xaTail(se)
			}
			xaWriteLine(ow, rest[done], xaEmptyObs("crash", why))
			done++
		} else if runErr != nil {
			return fmt.Errorf("child failed after finishing its programs: %v\n%s", runErr, xaTail(stderr.String()))
		}
		ow.Flush()
		outF.Close()
		os.Remove(inPath)
		os.Remove(chOut)
		rest = rest[done:]
	}
	return nil
}

func xaTail(s string) string {
	if len(s) > 600 {
		return s[len(s)-600:]
	}
	return s
}

func xaWork(t *testing.T) string {
	w := os.Getenv("VERIF_WORK")
	if w == "" {
		w = t.TempDir()
	}
	return w
}

// TestVerifXaCases: legs G / pinned deviation programs / replay.  XA_IN = programs (ndjson, {"toks":[...]}),
// XA_OUT = trace.  The programs are distributed over XA_PAR child processes.
func TestVerifXaCases(t *testing.T) {
	if os.Getenv("XA_IN") == "" {
		t.Skip("no XA_IN")
	}
	progs, err := xaReadProgs(os.Getenv("XA_IN"))
	if err != nil {
		t.Fatal(err)
	}
	xaRunParallel(t, progs, os.Getenv("XA_OUT"))
}

// TestVerifXaPinned: pinned minimal programs (XA_PIN_IN -> XA_PIN_OUT), one child process per
// program: each of them may kill its process.
func TestVerifXaPinned(t *testing.T) {
	if os.Getenv("XA_PIN_IN") == "" {
		t.Skip("no XA_PIN_IN")
	}
	progs, err := xaReadProgs(os.Getenv("XA_PIN_IN"))
	if err != nil {
		t.Fatal(err)
	}
	out := os.Getenv("XA_PIN_OUT")
	os.Remove(out)
	for i := range progs {
		if err := xaRunIsolated(progs[i:i+1], out, xaWork(t), "pin"); err != nil {
			t.Fatal(err)
		}
	}
	if len(progs) == 0 {
		os.WriteFile(out, nil, 0644)
	}
}

func xaRunParallel(t *testing.T, progs []xaProg, outPath string) {
	par, _ := strconv.Atoi(os.Getenv("XA_PAR"))
	if par < 1 {
		par = 4
	}
	if par > len(progs) {
		par = xaMax(1, len(progs))
	}
	work := xaWork(t)
	os.Remove(outPath)
	var wg sync.WaitGroup
	parts := make([]string, par)
	errs := make([]error, par)
	for i := 0; i < par; i++ {
		lo, hi := len(progs)*i/par, len(progs)*(i+1)/par
		parts[i] = fmt.Sprintf("%s.part%d", outPath, i)
		os.Remove(parts[i])
		wg.Add(1)
		go func(i int, sub []xaProg) {
			defer wg.Done()
			errs[i] = xaRunIsolated(sub, parts[i], work, fmt.Sprintf("p%d", i))
		}(i, progs[lo:hi])
	}
	wg.Wait()
	for _, e := range errs {
		if e != nil {
			t.Fatal(e)
		}
	}
	out, err := os.Create(outPath)
	if err != nil {
		t.Fatal(err)
	}
	defer out.Close()
	n := 0
	for _, pth := range parts {
		b, err := os.ReadFile(pth)
		if err == nil {
			out.Write(b)
			n += bytes.Count(b, []byte{'\n'})
		}
		os.Remove(pth)
	}
	if n != len(progs) {
		t.Fatalf("recorded %d results for %d programs", n, len(progs))
	}
	t.Logf("xa: %d programs parsed", n)
}

// TestVerifXaProbe: developer tool.  XA_PROBE_IN = programs; prints for each the AML bytes, the parse
// result, the pretty-printed tree and the projection.  Runs in-process (no isolation).
func TestVerifXaProbe(t *testing.T) {
	if os.Getenv("XA_PROBE_IN") == "" {
		t.Skip("no XA_PROBE_IN")
	}
	progs, err := xaReadProgs(os.Getenv("XA_PROBE_IN"))
	if err != nil {
		t.Fatal(err)
	}
	for _, p := range progs {
		fmt.Printf("==== program %d\n", p.ID)
		tables, err := xaEncode(p.Toks)
		if err != nil {
			fmt.Println("ENCODE ERROR", err)
			continue
		}
		for i, tb := range tables {
			fmt.Printf("table %d: %s\n", i+1, hex.EncodeToString(tb))
		}
		tree, res, msg := xaParse(tables)
		fmt.Printf("result: %s %s\n", res, msg)
		if os.Getenv("XA_PROBE_TREE") != "0" {
			func() {
				defer func() { recover() }()
				var b bytes.Buffer
				tree.PrettyPrint(&b)
				fmt.Print(b.String())
			}()
		}
		if res == "ok" {
			func() {
				defer func() {
					if r := recover(); r != nil {
						fmt.Println("projection panic:", r)
					}
				}()
				o := xaProject(tree)
				j, _ := json.Marshal(o)
				fmt.Printf("obs: %s\n", j)
			}()
		}
	}
}
