//go:build verif
// +build verif

package aml

// extra-amlgrow, byte level (specs/amlx/AmlEnc.tla): the cases TLC enumerated (leg G) and seeded random
// cases at real scale (leg T) are fed - as BYTES - to the real amlStreamReader, Parser.parsePkgLength,
// Parser.parseNameString, Parser.nextOpcode + Parser.parseSimpleArg; what they return is logged.  No
// expected results here: the monitor AmlEncTrace re-encodes every case with the ACPI definitions and
// judges the observation.

import (
	"bufio"
	"bytes"
	"encoding/json"
	"fmt"
	"math/rand"
	"os"
	"strconv"
	"testing"
	"unsafe"
)

type xaEncOp struct {
	Op string `json:"op"`
	A  int    `json:"a"`
}

type xaEncCase struct {
	K      string    `json:"k"`
	V      int       `json:"v"`
	W      int       `json:"w"`
	Tail   []int     `json:"tail"`
	Cut    int       `json:"cut"`
	Abs    bool      `json:"abs"`
	Carets int       `json:"carets"`
	Nseg   int       `json:"nseg"`
	Multi  bool      `json:"multi"`
	Bad    int       `json:"bad"`
	Kind   string    `json:"kind"`
	Limbs  []int     `json:"limbs"`
	Chars  []int     `json:"chars"`
	Data   []int     `json:"data"`
	Ops    []xaEncOp `json:"ops"`
}

func xaInts(b []byte) []int {
	out := make([]int, len(b))
	for i, v := range b {
		out[i] = int(v)
	}
	return out
}

func xaNN(v []int) []int {
	if v == nil {
		return []int{}
	}
	return v
}

// canonical case JSON: exactly the fields AmlEncModel uses for that kind
func (c xaEncCase) MarshalJSON() ([]byte, error) {
	switch c.K {
	case "pkglen":
		return json.Marshal(map[string]interface{}{"k": c.K, "v": c.V, "w": c.W, "tail": xaNN(c.Tail), "cut": c.Cut})
	case "name":
		return json.Marshal(map[string]interface{}{"k": c.K, "abs": c.Abs, "carets": c.Carets, "nseg": c.Nseg, "multi": c.Multi, "bad": c.Bad, "tail": xaNN(c.Tail), "cut": c.Cut})
	case "const":
		return json.Marshal(map[string]interface{}{"k": c.K, "kind": c.Kind, "limbs": xaNN(c.Limbs), "chars": xaNN(c.Chars), "tail": xaNN(c.Tail), "cut": c.Cut})
	default:
		ops := c.Ops
		if ops == nil {
			ops = []xaEncOp{}
		}
		return json.Marshal(map[string]interface{}{"k": c.K, "data": xaNN(c.Data), "ops": ops})
	}
}

// a parser whose reader covers exactly the given bytes (package end = end of the bytes)
func xaEncParser(stream []byte) *Parser {
	backing := make([]byte, len(stream)+1) // never empty: the reader needs an address
	copy(backing, stream)
	p := NewParser(&bytes.Buffer{}, NewObjectTree())
	p.r.Init(uintptr(unsafe.Pointer(&backing[0])), uint32(len(stream)), 0)
	xaEncKeep = append(xaEncKeep, backing)
	return p
}

var xaEncKeep [][]byte // keeps the backing arrays alive while the reader holds raw addresses

func xaEncRun(c xaEncCase, stream []byte) (obs map[string]interface{}) {
	defer func() {
		if r := recover(); r != nil {
			obs = map[string]interface{}{"ok": false, "panic": fmt.Sprint(r)}
		}
	}()
	fail := map[string]interface{}{"ok": false}
	switch c.K {
	case "pkglen":
		p := xaEncParser(stream)
		v, res := p.parsePkgLength()
		if res != parseResultOk {
			return fail
		}
		return map[string]interface{}{"ok": true, "v": int(v), "n": int(p.r.Offset())}
	case "name":
		p := xaEncParser(stream)
		nm, res := p.parseNameString()
		if res != parseResultOk {
			return fail
		}
		return map[string]interface{}{"ok": true, "name": xaInts(nm), "n": int(p.r.Offset())}
	case "const":
		p := xaEncParser(stream)
		op, res := p.nextOpcode()
		if res != parseResultOk {
			return fail
		}
		kind, argType := "", pArgType(0)
		switch op {
		case pOpZero:
			kind = "zero"
		case pOpOne:
			kind = "one"
		case pOpOnes:
			kind = "ones"
		case pOpBytePrefix:
			kind, argType = "byte", pArgTypeByteData
		case pOpWordPrefix:
			kind, argType = "word", pArgTypeWordData
		case pOpDwordPrefix:
			kind, argType = "dword", pArgTypeDwordData
		case pOpQwordPrefix:
			kind, argType = "qword", pArgTypeQwordData
		case pOpStringPrefix:
			kind, argType = "string", pArgTypeString
		default:
			return fail
		}
		limbs, chars := []int{}, []int{}
		if argType != 0 {
			obj, res := p.parseSimpleArg(argType)
			if res != parseResultOk || obj == nil {
				return fail
			}
			switch v := obj.value.(type) {
			case uint64:
				switch kind {
				case "byte":
					limbs = []int{int(v)}
				case "word":
					limbs = xaLimbs(v, 1)
				case "dword":
					limbs = xaLimbs(v, 2)
				default:
					limbs = xaLimbs(v, 4)
				}
			case []byte:
				chars = xaInts(v)
			}
		}
		return map[string]interface{}{"ok": true, "kind": kind, "limbs": limbs, "chars": chars, "n": int(p.r.Offset())}
	case "reader":
		var r amlStreamReader
		backing := make([]byte, len(c.Data)+1)
		for i, v := range c.Data {
			backing[i] = byte(v)
		}
		xaEncKeep = append(xaEncKeep, backing)
		r.Init(uintptr(unsafe.Pointer(&backing[0])), uint32(len(c.Data)), 0)
		results := [][]interface{}{}
		okv := func(v int) []interface{} { return []interface{}{"ok", v} }
		errv := []interface{}{"err"}
		for _, o := range c.Ops {
			switch o.Op {
			case "read":
				if b, err := r.ReadByte(); err != nil {
					results = append(results, errv)
				} else {
					results = append(results, okv(int(b)))
				}
			case "peek":
				if b, err := r.PeekByte(); err != nil {
					results = append(results, errv)
				} else {
					results = append(results, okv(int(b)))
				}
			case "unread":
				if err := r.UnreadByte(); err != nil {
					results = append(results, errv)
				} else {
					results = append(results, okv(0))
				}
			case "eof":
				if r.EOF() {
					results = append(results, okv(1))
				} else {
					results = append(results, okv(0))
				}
			case "seek":
				r.SetOffset(uint32(o.A))
				results = append(results, okv(0))
			case "setend":
				if err := r.SetPkgEnd(uint32(o.A)); err != nil {
					results = append(results, errv)
				} else {
					results = append(results, okv(0))
				}
			}
		}
		return map[string]interface{}{"res": results, "r": map[string]int{"off": int(r.Offset()), "end": int(r.pkgEnd), "len": len(r.data)}}
	}
	return fail
}

// ---- random cases at real scale (the encoder here is the same trusted one the namespace harness uses; the monitor checks its output)

func xaEncSeg(k int) []byte {
	return []byte{byte(65 + k%26), byte(48 + k%10), 95, byte(65 + (k*7)%26)}
}

func xaEncRandom(rng *rand.Rand) (xaEncCase, []byte) {
	tail := func() []int {
		t := make([]int, rng.Intn(4))
		for i := range t {
			t[i] = []int{0, 46, 47, 65, 92, 94, 255, rng.Intn(256)}[rng.Intn(8)]
		}
		return t
	}
	withTail := func(enc []byte, c *xaEncCase) []byte {
		if c.Cut > 0 {
			if c.Cut > len(enc) {
				c.Cut = len(enc)
			}
			c.Tail = []int{}
			return enc[:len(enc)-c.Cut]
		}
		c.Tail = tail()
		for _, v := range c.Tail {
			enc = append(enc, byte(v))
		}
		return enc
	}
	cut := 0
	if rng.Intn(8) == 0 {
		cut = 1 + rng.Intn(3)
	}
	switch rng.Intn(3) {
	case 0:
		bits := rng.Intn(29)
		v := 0
		if bits > 0 {
			v = rng.Intn(1 << uint(bits))
		}
		if rng.Intn(4) == 0 {
			v = []int{63, 64, 4095, 4096, 1<<20 - 1, 1 << 20, 1<<28 - 1}[rng.Intn(7)]
		}
		minw := 1
		switch {
		case v > 1<<20-1:
			minw = 4
		case v > 4095:
			minw = 3
		case v > 63:
			minw = 2
		}
		w := minw + rng.Intn(5-minw)
		c := xaEncCase{K: "pkglen", V: v, W: w, Cut: cut}
		if w == 1 {
			c.Cut = 0
		}
		return c, withTail(xaEncPkgVal(v, w), &c)
	case 1:
		c := xaEncCase{K: "name", Abs: rng.Intn(2) == 0, Carets: rng.Intn(6), Nseg: []int{0, 1, 2, 3, 4, 7, 64, 65, 90, 95, 128, 255, rng.Intn(256)}[rng.Intn(13)], Cut: cut}
		c.Multi = rng.Intn(4) == 0 && c.Nseg > 0
		var enc []byte
		if c.Abs {
			enc = append(enc, '\\')
		}
		for i := 0; i < c.Carets; i++ {
			enc = append(enc, '^')
		}
		switch {
		case c.Nseg == 0:
			enc = append(enc, 0)
		case c.Nseg == 1 && !c.Multi:
		case c.Nseg == 2 && !c.Multi:
			enc = append(enc, 0x2e)
		default:
			enc = append(enc, 0x2f, byte(c.Nseg))
		}
		for i := 1; i <= c.Nseg; i++ {
			enc = append(enc, xaEncSeg(i)...)
		}
		return c, withTail(enc, &c)
	default:
		kind := []string{"zero", "one", "ones", "byte", "word", "dword", "qword", "string"}[rng.Intn(8)]
		c := xaEncCase{K: "const", Kind: kind, Cut: cut, Limbs: []int{}, Chars: []int{}}
		t := xaTerm{T: kind}
		switch kind {
		case "byte":
			c.Limbs = []int{rng.Intn(256)}
		case "word":
			c.Limbs = []int{rng.Intn(65536)}
		case "dword":
			c.Limbs = []int{rng.Intn(65536), rng.Intn(65536)}
		case "qword":
			c.Limbs = []int{rng.Intn(65536), rng.Intn(65536), rng.Intn(65536), rng.Intn(65536)}
		case "string":
			n := rng.Intn(40)
			b := make([]byte, n)
			for i := range b {
				b[i] = byte(1 + rng.Intn(127))
				c.Chars = append(c.Chars, int(b[i]))
			}
			t.S = string(b)
		default:
			c.Cut = 0
		}
		t.N = c.Limbs
		return c, withTail(xaEncTerm(t), &c)
	}
}

// TestVerifXaEnc: XA_ENC_IN = cases emitted by TLC ({"c":..,"bytes":[..]}), plus XA_ENC_N random cases from VERIF_SEED; results to XA_ENC_OUT.
func TestVerifXaEnc(t *testing.T) {
	out := os.Getenv("XA_ENC_OUT")
	if out == "" {
		t.Skip("no XA_ENC_OUT")
	}
	f, err := os.Create(out)
	if err != nil {
		t.Fatal(err)
	}
	defer f.Close()
	w := bufio.NewWriterSize(f, 1<<16)
	defer w.Flush()
	emit := func(craw json.RawMessage, c xaEncCase, stream []byte) {
		b, _ := json.Marshal(map[string]interface{}{"c": craw, "bytes": xaInts(stream), "obs": xaEncRun(c, stream)})
		w.Write(b)
		w.WriteByte('\n')
	}
	n := 0
	if in := os.Getenv("XA_ENC_IN"); in != "" {
		for _, path := range bytes.Split([]byte(in), []byte(",")) {
			fi, err := os.Open(string(path))
			if err != nil {
				t.Fatal(err)
			}
			sc := bufio.NewScanner(fi)
			sc.Buffer(make([]byte, 1<<20), 1<<24)
			for sc.Scan() {
				line := bytes.TrimSpace(sc.Bytes())
				if len(line) == 0 {
					continue
				}
				if line[0] == '"' {
					var s string
					if err := json.Unmarshal(line, &s); err != nil {
						t.Fatal(err)
					}
					line = []byte(s)
				}
				var rec struct {
					C     json.RawMessage `json:"c"`
					Bytes []int           `json:"bytes"`
				}
				if err := json.Unmarshal(line, &rec); err != nil {
					t.Fatalf("bad case line %q: %v", line[:xaMin(len(line), 200)], err)
				}
				var c xaEncCase
				if err := json.Unmarshal(rec.C, &c); err != nil {
					t.Fatal(err)
				}
				stream := make([]byte, len(rec.Bytes))
				for i, v := range rec.Bytes {
					stream[i] = byte(v)
				}
				emit(rec.C, c, stream)
				n++
			}
			fi.Close()
		}
	}
	seed, _ := strconv.ParseInt(os.Getenv("VERIF_SEED"), 10, 64)
	nr, _ := strconv.Atoi(os.Getenv("XA_ENC_N"))
	rng := rand.New(rand.NewSource(seed*7919 + 13))
	for i := 0; i < nr; i++ {
		c, stream := xaEncRandom(rng)
		raw, _ := json.Marshal(c)
		emit(raw, c, stream)
		n++
	}
	t.Logf("xa-enc: %d cases", n)
}
