//go:build verif
// +build verif

package aml

// Leg T of extra-amlgrow: seeded random programs over the grown grammar (token streams), run on the
// real parser like the TLC-generated ones.  The generator keeps its own list of what it has declared
// only to write programs that are well formed and (mostly) inside the generated language; nothing of
// it is used to judge a result: the TLA+ monitor re-derives well-formedness, the trigger constructs
// and the expected tree from the token stream alone.  Programs that use a construct the specification
// leaves out (a trigger) are counted as skipped by the monitor, an ill-formed program is a broken check.

import (
	"encoding/json"
	"fmt"
	"math/rand"
	"os"
	"strconv"
	"strings"
	"testing"
)

type xaObj struct {
	path  []string
	kind  string // Device Name Method OpRegion DataRegion Unit Mutex Event External BufField
	argc  int
	table int
	node  *xaNode
	reloc bool // declared with a prefix or path: the parser moves it to the end of its scope
}

type xaNode struct {
	tok  xaTok
	kids []*xaNode
	body []xaTok
	blk  bool
}

type xaGen struct {
	rng     *rand.Rand
	ctr     int
	objs    []*xaObj
	table   int
	budget  int
	inScope bool // the level being written is the body of a Scope directive (its objects are appended to the target when it is merged)
}

func xaKey(p []string) string { return strings.Join(p, ".") }
func xaCat(p []string, s ...string) []string {
	return append(append([]string{}, p...), s...)
}
func xaHasPrefix(p, pre []string) bool {
	if len(pre) > len(p) {
		return false
	}
	for i := range pre {
		if p[i] != pre[i] {
			return false
		}
	}
	return true
}

var xaPredef = []string{"_GPE", "_PR_", "_SB_", "_SI_", "_TZ_"}

const xaNameChars = "ABCDEFGHIJKLMNOPQRSTUVWXYZ0123456789_"

func (g *xaGen) fresh() string {
	g.ctr++
	n := g.ctr
	b := []byte{"ABCDEFGHIJKLMNOPQRSTUVWXYZ"[g.rng.Intn(26)], 0, 0, 0}
	for i := 3; i >= 1; i-- {
		b[i] = xaNameChars[n%len(xaNameChars)]
		n /= len(xaNameChars)
	}
	return string(b)
}

func (g *xaGen) width() int { return 1 + g.rng.Intn(4) }

// the scope path is the root or a predefined scope (no object on the way: a path through it can be written in full)
func xaPlain(scope []string) bool {
	return len(scope) == 0 || (len(scope) == 1 && strings.HasPrefix(scope[0], "_"))
}

// a name form that designates the existing object o, written in scope cur ("" if there is none)
func (g *xaGen) refForm(cur []string, o *xaObj, sameScopeOnly bool) *xaForm {
	par := o.path[:len(o.path)-1]
	last := o.path[len(o.path)-1]
	var opts []*xaForm
	if xaKey(par) == xaKey(cur) || (!sameScopeOnly && xaHasPrefix(cur, par)) {
		opts = append(opts, &xaForm{Segs: []string{last}}, &xaForm{Segs: []string{last}})
	}
	if xaPlain(par) {
		opts = append(opts, &xaForm{Abs: true, Segs: o.path})
	}
	if len(opts) == 0 {
		return nil
	}
	return opts[g.rng.Intn(len(opts))]
}

func (g *xaGen) pick(cur []string, kinds string, maxTable int, sameScopeOnly bool) (*xaObj, *xaForm) {
	var cand []*xaObj
	for _, o := range g.objs {
		if strings.Contains(kinds, o.kind) && o.table <= maxTable {
			cand = append(cand, o)
		}
	}
	for try := 0; try < 6 && len(cand) > 0; try++ {
		o := cand[g.rng.Intn(len(cand))]
		if f := g.refForm(cur, o, sameScopeOnly); f != nil {
			return o, f
		}
	}
	return nil, nil
}

// form for a NEW object declared while the current scope is cur (inObj: cur is the scope of an object)
func (g *xaGen) declForm(cur []string, inObj bool) (*xaForm, []string) {
	seg := g.fresh()
	switch k := g.rng.Intn(12); {
	case k < 8:
		return &xaForm{Segs: []string{seg}}, xaCat(cur, seg)
	case k < 10:
		return &xaForm{Abs: true, Segs: []string{seg}}, []string{seg}
	case k < 11:
		p := xaPredef[g.rng.Intn(len(xaPredef))]
		return &xaForm{Abs: true, Segs: []string{p, seg}}, []string{p, seg}
	default:
		if len(cur) == 0 || inObj {
			return &xaForm{Segs: []string{seg}}, xaCat(cur, seg)
		}
		return &xaForm{Carets: 1, Segs: []string{seg}}, xaCat(cur[:len(cur)-1], seg)
	}
}

func (g *xaGen) add(kind string, path []string, argc int, nd *xaNode, f ...*xaForm) *xaObj {
	o := &xaObj{path: path, kind: kind, argc: argc, table: g.table, node: nd}
	if g.inScope || (len(f) > 0 && (f[0].Abs || f[0].Carets > 0 || len(f[0].Segs) > 1)) {
		o.reloc = true
	}
	g.objs = append(g.objs, o)
	return o
}

func (g *xaGen) constTerm() xaTerm {
	switch g.rng.Intn(9) {
	case 0:
		return xaTerm{T: "zero"}
	case 1:
		return xaTerm{T: "one"}
	case 2:
		return xaTerm{T: "ones"}
	case 3, 4:
		return xaTerm{T: "byte", N: []int{g.rng.Intn(256)}}
	case 5:
		return xaTerm{T: "word", N: []int{g.rng.Intn(65536)}}
	case 6:
		return xaTerm{T: "dword", N: []int{[]int{0, 0x7fff, 0x8000, 0xffff, g.rng.Intn(65536)}[g.rng.Intn(5)], g.rng.Intn(65536)}}
	case 7:
		return xaTerm{T: "qword", N: []int{[]int{0, 0x8000, 0xffff, g.rng.Intn(65536)}[g.rng.Intn(4)], g.rng.Intn(65536), g.rng.Intn(65536), g.rng.Intn(65536)}}
	default:
		n := g.rng.Intn(9)
		b := make([]byte, n)
		const chars = " !#$%&'()*+,-./0123456789:;<=>?@ABCXYZ[]^_`abcxyz{|}~"
		for i := range b {
			b[i] = chars[g.rng.Intn(len(chars))]
		}
		return xaTerm{T: "string", S: string(b)}
	}
}

func (g *xaGen) bytes(max int) []int {
	bs := make([]int, 1+g.rng.Intn(max)) // never empty: an empty initializer inside a deferred block is a documented deviation
	for i := range bs {
		bs[i] = g.rng.Intn(256)
	}
	return bs
}

// value of a Name written in place in scope cur: constants, buffers (constant / named / computed length), packages with named references
func (g *xaGen) value(cur []string, depth int, names bool) xaTerm {
	switch k := g.rng.Intn(12); {
	case k < 5 || depth > 2:
		return g.constTerm()
	case k < 7:
		ln := xaTerm{T: "byte", N: []int{g.rng.Intn(12)}}
		if names && g.rng.Intn(2) == 0 {
			switch g.rng.Intn(3) {
			case 0:
				if _, f := g.pick(cur, "Name", g.table, false); f != nil {
					ln = xaTerm{T: "ref", F: f}
				}
			case 1:
				if o, f := g.pick(cur, "Method", g.table, false); f != nil && o.argc <= 1 {
					ln = xaTerm{T: "call", F: f, A: []xaTerm{}}
					if o.argc == 1 {
						ln.A = append(ln.A, g.constTerm())
					}
				}
			default:
				ln = xaTerm{T: "op", S: "Add", A: []xaTerm{g.constTerm(), g.constTerm()}}
			}
		}
		return xaTerm{T: "buffer", A: []xaTerm{ln}, N: g.bytes(6)}
	default:
		n := g.rng.Intn(4)
		p := xaTerm{T: "package", N: []int{n + g.rng.Intn(2)}, A: []xaTerm{}}
		for i := 0; i < n; i++ {
			if names && g.rng.Intn(3) == 0 {
				if o, f := g.pick(cur, "Name Device Method Mutex", g.table, false); f != nil && (o.kind != "Method" || o.argc == 0) {
					p.A = append(p.A, xaTerm{T: "ref", F: f})
					continue
				}
			}
			p.A = append(p.A, g.value(cur, depth+1, names))
		}
		return p
	}
}

func (g *xaGen) els(n int) ([]xaEl, []string) {
	var els []xaEl
	var names []string
	for i := 0; i < n; i++ {
		bits := []int{1, 3, 8, 16, 32, 63, 64, 100, 4095, 4096, 70000}[g.rng.Intn(11)]
		switch g.rng.Intn(6) {
		case 0:
			els = append(els, xaEl{E: "skip", Bits: bits, Wl: g.width()})
		case 1:
			els = append(els, xaEl{E: "access", At: g.rng.Intn(6), Aa: g.rng.Intn(16)})
		default:
			nm := g.fresh()
			names = append(names, nm)
			els = append(els, xaEl{E: "unit", Name: nm, Bits: bits, Wl: g.width()})
		}
	}
	return els, names
}

// one level: the objects written inside the scope cur
func (g *xaGen) level(cur []string, inObj bool, depth int, n int) []*xaNode {
	var out []*xaNode
	flags := func() int { return g.rng.Intn(6) | g.rng.Intn(2)<<4 | g.rng.Intn(3)<<5 }
	for i := 0; i < n && g.budget > 0; i++ {
		g.budget--
		switch k := g.rng.Intn(100); {
		case k < 10 && depth < 3: // Device
			f, p := g.declForm(cur, inObj)
			nd := &xaNode{tok: xaTok{K: "open", Kind: "Device", F: f, W: g.width()}, blk: true}
			switch g.rng.Intn(8) {
			case 0:
				nd.tok.Kind = "ThermalZone"
			case 1:
				nd.tok.Kind = "Processor"
				nd.tok.Args = []xaTerm{{T: "byte", N: []int{g.rng.Intn(256)}}, {T: "dword", N: []int{g.rng.Intn(65536), g.rng.Intn(65536)}}, {T: "byte", N: []int{g.rng.Intn(256)}}}
			case 2:
				nd.tok.Kind = "PowerRes"
				nd.tok.Args = []xaTerm{{T: "byte", N: []int{g.rng.Intn(6)}}, {T: "word", N: []int{g.rng.Intn(65536)}}}
			}
			g.add("Device", p, 0, nd, f)
			was := g.inScope
			g.inScope = false
			nd.kids = g.level(p, true, depth+1, 1+g.rng.Intn(6))
			g.inScope = was
			out = append(out, nd)
		case k < 16 && depth < 3: // Scope directive to a predefined scope or a device, written so that it can be merged at once
			var f *xaForm
			var p []string
			if g.rng.Intn(2) == 0 {
				p = []string{xaPredef[g.rng.Intn(len(xaPredef))]}
				f = &xaForm{Abs: true, Segs: p}
			} else if o, ff := g.pick(cur, "Device", g.table, false); ff != nil {
				f, p = ff, o.path
			} else {
				continue
			}
			nd := &xaNode{tok: xaTok{K: "scope", F: f, W: g.width()}, blk: true}
			was := g.inScope
			g.inScope = true
			nd.kids = g.level(p, !xaPlain(p), depth+1, 1+g.rng.Intn(5))
			g.inScope = was
			out = append(out, nd)
		case k < 28: // Method
			f, p := g.declForm(cur, inObj)
			argc := g.rng.Intn(4)
			nd := &xaNode{tok: xaTok{K: "method", F: f, W: g.width(), Flags: argc | g.rng.Intn(2)<<3 | g.rng.Intn(16)<<4}, blk: true}
			g.add("Method", p, argc, nd, f)
			out = append(out, nd)
		case k < 42: // Name
			f, p := g.declForm(cur, inObj)
			inPlace := !f.Abs && f.Carets == 0
			out = append(out, &xaNode{tok: xaTok{K: "decl", Kind: "Name", F: f, Args: []xaTerm{g.value(cur, 0, inPlace)}}})
			g.add("Name", p, 0, nil, f)
		case k < 52: // OpRegion / DataRegion
			f, p := g.declForm(cur, inObj)
			if g.rng.Intn(3) == 0 {
				out = append(out, &xaNode{tok: xaTok{K: "decl", Kind: "DataRegion", F: f, Args: []xaTerm{{T: "string", S: "SIG" + strconv.Itoa(g.rng.Intn(10))}, {T: "string", S: []string{"", "OEMID0"}[g.rng.Intn(2)]}, {T: "string", S: "TABLE" + strconv.Itoa(g.rng.Intn(100))}}}})
				g.add("DataRegion", p, 0, nil)
			} else {
				off := xaTerm{T: "dword", N: []int{g.rng.Intn(65536), g.rng.Intn(65536)}}
				if g.rng.Intn(2) == 0 {
					off = xaTerm{T: "word", N: []int{g.rng.Intn(65536)}}
				}
				out = append(out, &xaNode{tok: xaTok{K: "decl", Kind: "OpRegion", F: f, Args: []xaTerm{{T: "byte", N: []int{g.rng.Intn(10)}}, off, {T: "byte", N: []int{g.rng.Intn(256)}}}}})
				g.add("OpRegion", p, 0, nil)
			}
		case k < 60: // Field
			if _, f := g.pick(cur, "OpRegion DataRegion", g.table, false); f != nil {
				els, names := g.els(g.rng.Intn(5))
				out = append(out, &xaNode{tok: xaTok{K: "field", F: f, W: g.width(), Flags: flags(), Els: els}})
				for _, nm := range names {
					g.add("Unit", xaCat(cur, nm), 0, nil)
				}
			}
		case k < 67: // IndexField: the index name is written so that the container lands beside the real index field
			oi, fi := g.pick(cur, "Unit", g.table, true)
			_, fd := g.pick(cur, "Unit", g.table, false)
			if fi != nil && fd != nil && !(oi.reloc && oi.table == g.table) {
				els, names := g.els(g.rng.Intn(5))
				out = append(out, &xaNode{tok: xaTok{K: "ifield", F: fi, G: fd, W: g.width(), Flags: flags(), Els: els}})
				for _, nm := range names {
					g.add("Unit", xaCat(cur, nm), 0, nil)
				}
			}
		case k < 74: // BankField
			_, fr := g.pick(cur, "OpRegion DataRegion", g.table, false)
			_, fb := g.pick(cur, "Unit BUnit", g.table, false)
			if fr != nil && fb != nil {
				v := g.constTerm()
				switch g.rng.Intn(4) {
				case 0:
					if _, f := g.pick(cur, "Name", g.table, false); f != nil {
						v = xaTerm{T: "ref", F: f}
					}
				case 1:
					if o, f := g.pick(cur, "Method", g.table, false); f != nil && o.argc == 0 {
						v = xaTerm{T: "call", F: f, A: []xaTerm{}}
					}
				case 2:
					v = xaTerm{T: "op", S: "Add", A: []xaTerm{g.constTerm(), g.constTerm()}}
				}
				for v.T == "string" {
					v = g.constTerm()
				}
				els, names := g.els(g.rng.Intn(4))
				out = append(out, &xaNode{tok: xaTok{K: "bfield", F: fr, G: fb, X: []xaTerm{v}, W: g.width(), Flags: flags(), Els: els}})
				for _, nm := range names {
					g.add("BUnit", xaCat(cur, nm), 0, nil)
				}
			}
		case k < 80: // Alias: the source name is written so that the Alias node lands beside its source
			if o, fs := g.pick(cur, "Name Method Device Unit Mutex", g.table, true); fs != nil && !(o.reloc && o.table == g.table) && (o.kind != "Device" || !fs.Abs) {
				f, _ := g.declForm(cur, inObj)
				out = append(out, &xaNode{tok: xaTok{K: "alias", G: fs, F: f}})
			}
		case k < 84: // External
			f, p := g.declForm(cur, inObj)
			out = append(out, &xaNode{tok: xaTok{K: "external", F: f, Args: []xaTerm{{T: "byte", N: []int{g.rng.Intn(16)}}, {T: "byte", N: []int{g.rng.Intn(8)}}}}})
			g.add("External", p, 0, nil)
		case k < 89: // CreateXField at scope level
			if _, fs := g.pick(cur, "Name", g.table, false); fs != nil {
				f, p := g.declForm(cur, inObj)
				out = append(out, &xaNode{tok: g.cfield(f, xaTerm{T: "ref", F: fs})})
				g.add("BufField", p, 0, nil)
			}
		case k < 92: // load-time statement
			if _, fe := g.pick(cur, "Event", g.table, false); fe != nil {
				out = append(out, &xaNode{tok: xaTok{K: "stmt", Op: "x", X: []xaTerm{{T: "op", S: "Signal", A: []xaTerm{{T: "ref", F: fe}}}}}})
			}
		case k < 96:
			f, p := g.declForm(cur, inObj)
			out = append(out, &xaNode{tok: xaTok{K: "decl", Kind: "Mutex", F: f, Args: []xaTerm{{T: "byte", N: []int{g.rng.Intn(16)}}}}})
			g.add("Mutex", p, 0, nil, f)
		default:
			f, p := g.declForm(cur, inObj)
			out = append(out, &xaNode{tok: xaTok{K: "decl", Kind: "Event", F: f}})
			g.add("Event", p, 0, nil)
		}
	}
	return out
}

func (g *xaGen) cfield(f *xaForm, src xaTerm) xaTok {
	kinds := []string{"CreateBitField", "CreateByteField", "CreateWordField", "CreateDWordField", "CreateQWordField", "CreateField"}
	kd := kinds[g.rng.Intn(len(kinds))]
	x := []xaTerm{src, {T: "byte", N: []int{g.rng.Intn(64)}}}
	if kd == "CreateField" {
		x = append(x, xaTerm{T: "byte", N: []int{1 + g.rng.Intn(63)}})
	}
	return xaTok{K: "cfield", Kind: kd, F: f, X: x}
}

// ---- method bodies

type xaBodyGen struct {
	g      *xaGen
	m      *xaObj
	locals []string
	inIf   int  // nesting depth of Ifs that are read by the first pass (a Package there swallows what follows)
	strict bool // inside a deferred block: names the tree cannot resolve (created fields) and BankField units reject the table
}

func (b *xaBodyGen) simple() xaTerm {
	switch b.g.rng.Intn(5) {
	case 0:
		return xaTerm{T: "arg", N: []int{b.g.rng.Intn(7)}}
	case 1:
		return xaTerm{T: "local", N: []int{b.g.rng.Intn(8)}}
	default:
		return b.g.constTerm()
	}
}

func (b *xaBodyGen) ref(kinds string) (xaTerm, bool) {
	if _, f := b.g.pick(b.m.path, kinds, b.m.table, false); f != nil {
		return xaTerm{T: "ref", F: f}, true
	}
	return xaTerm{}, false
}

// simple or a name
func (b *xaBodyGen) atom() xaTerm {
	if b.g.rng.Intn(3) == 0 {
		kinds := "Name Unit External BufField BUnit"
		if b.strict {
			kinds = "Name Unit External"
		}
		if r, ok := b.ref(kinds); ok {
			return r
		}
		if len(b.locals) > 0 && b.g.rng.Intn(2) == 0 && !b.strict {
			return xaTerm{T: "ref", F: &xaForm{Segs: []string{b.locals[b.g.rng.Intn(len(b.locals))]}}}
		}
	}
	return b.simple()
}

func (b *xaBodyGen) call(depth int, arg func(int) xaTerm) (xaTerm, bool) {
	o, f := b.g.pick(b.m.path, "Method", b.m.table, false)
	if f == nil {
		return xaTerm{}, false
	}
	t := xaTerm{T: "call", F: f, A: []xaTerm{}}
	for i := 0; i < o.argc; i++ {
		t.A = append(t.A, arg(depth+1))
	}
	return t, true
}

// argument of an invocation in flat context: no operator term
func (b *xaBodyGen) flatArg(depth int) xaTerm {
	switch k := b.g.rng.Intn(10); {
	case k < 2 && depth < 3:
		if c, ok := b.call(depth, b.flatArg); ok {
			return c
		}
	case k == 2:
		return xaTerm{T: "buffer", A: []xaTerm{b.bufLen()}, N: b.g.bytes(4)}
	case k == 3 && b.inIf == 0:
		return b.pkg()
	}
	return b.atom()
}

func (b *xaBodyGen) bufLen() xaTerm {
	was := b.strict
	b.strict = true
	defer func() { b.strict = was }()
	switch b.g.rng.Intn(5) {
	case 0:
		if r, ok := b.ref("Name"); ok {
			return r
		}
	case 1:
		if c, ok := b.call(2, func(int) xaTerm { return b.atom() }); ok {
			return c
		}
	case 2:
		return xaTerm{T: "op", S: []string{"Add", "Multiply", "ShiftLeft"}[b.g.rng.Intn(3)], A: []xaTerm{b.simple(), b.simple()}}
	}
	return b.simple()
}

func (b *xaBodyGen) pkg() xaTerm {
	n := b.g.rng.Intn(4)
	p := xaTerm{T: "package", N: []int{n}, A: []xaTerm{}}
	for i := 0; i < n; i++ {
		if b.g.rng.Intn(3) == 0 {
			if r, ok := b.ref("Name Device Mutex"); ok {
				p.A = append(p.A, r)
				continue
			}
		}
		p.A = append(p.A, b.g.constTerm())
	}
	return p
}

var xaBinOps = []string{"Add", "Subtract", "Multiply", "And", "Or", "Xor", "ShiftLeft", "ShiftRight", "Mod", "Concat", "Index"}
var xaCmpOps = []string{"LEqual", "LLess", "LGreater", "Land", "Lor"}

// expression in flat context (not an argument of an invocation)
func (b *xaBodyGen) flatExpr(depth int) xaTerm {
	switch k := b.g.rng.Intn(16); {
	case k < 3 && depth < 3:
		o := xaTerm{T: "op", S: xaBinOps[b.g.rng.Intn(len(xaBinOps))], A: []xaTerm{b.flatExpr(depth + 1), b.flatExpr(depth + 1)}}
		if b.g.rng.Intn(3) == 0 {
			o.A = append(o.A, xaTerm{T: "local", N: []int{b.g.rng.Intn(8)}})
		}
		return o
	case k == 3 && depth < 3:
		return xaTerm{T: "op", S: xaCmpOps[b.g.rng.Intn(len(xaCmpOps))], A: []xaTerm{b.flatExpr(depth + 1), b.flatExpr(depth + 1)}}
	case k == 4 && depth < 3:
		return xaTerm{T: "op", S: []string{"Lnot", "DerefOf", "Not", "ToInteger"}[b.g.rng.Intn(4)], A: []xaTerm{b.flatExpr(depth + 1)}}
	case k == 5:
		if r, ok := b.ref("Name Unit"); ok {
			return xaTerm{T: "op", S: []string{"SizeOf", "ObjectType", "RefOf"}[b.g.rng.Intn(3)], A: []xaTerm{r}}
		}
	case k == 6 && depth < 3:
		if c, ok := b.call(depth, b.flatArg); ok {
			return c
		}
	case k == 7:
		return xaTerm{T: "buffer", A: []xaTerm{b.bufLen()}, N: b.g.bytes(4)}
	case k == 8 && b.inIf == 0:
		return b.pkg()
	case k == 9 && b.inIf == 0:
		return xaTerm{T: "varpackage", A: []xaTerm{[]xaTerm{{T: "arg", N: []int{b.g.rng.Intn(7)}}, {T: "local", N: []int{b.g.rng.Intn(8)}}, {T: "one"}}[b.g.rng.Intn(3)], b.g.constTerm()}}
	case k == 10:
		return xaTerm{T: "op", S: "Match", A: []xaTerm{b.atom(), {T: "byte", N: []int{b.g.rng.Intn(2)}}, b.simple(), {T: "byte", N: []int{b.g.rng.Intn(2)}}, b.simple(), b.simple()}}
	case k == 11:
		if r, ok := b.ref("Mutex"); ok {
			return xaTerm{T: "op", S: "Acquire", A: []xaTerm{r, {T: "word", N: []int{b.g.rng.Intn(65536)}}}}
		}
	case k == 12:
		if r, ok := b.ref("Event"); ok {
			return xaTerm{T: "op", S: "Wait", A: []xaTerm{r, b.simple()}}
		}
	}
	return b.atom()
}

// expression in strict context below an ATTACHED node (statement operand or argument of an invocation): a name or an invocation is
// fine here, an operator term is read detached and must not hold names
func (b *xaBodyGen) strictOperand(depth int, arg bool) xaTerm {
	switch k := b.g.rng.Intn(10); {
	case k < 2 && depth < 2:
		if c, ok := b.call(depth, func(d int) xaTerm { return b.strictOperand(d, true) }); ok {
			return c
		}
	case k == 2 && depth < 3:
		return xaTerm{T: "op", S: xaBinOps[b.g.rng.Intn(len(xaBinOps))], A: []xaTerm{b.detached(depth+1, arg), b.detached(depth+1, arg)}}
	case k == 3 && depth < 3:
		return xaTerm{T: "op", S: xaCmpOps[b.g.rng.Intn(len(xaCmpOps))], A: []xaTerm{b.detached(depth+1, arg), b.detached(depth+1, arg)}}
	case k == 4 && !arg:
		return xaTerm{T: "buffer", A: []xaTerm{b.detached(depth+1, false)}, N: b.g.bytes(3)}
	case k == 5:
		return xaTerm{T: "op", S: "Match", A: []xaTerm{b.simple(), {T: "byte", N: []int{b.g.rng.Intn(6)}}, b.simple(), {T: "byte", N: []int{b.g.rng.Intn(6)}}, b.simple(), b.simple()}}
	}
	return b.atom()
}

// operand of a node that is read detached: a direct name is allowed only when the holder is an argument of an invocation (attached)
func (b *xaBodyGen) detached(depth int, holderAttached bool) xaTerm {
	if holderAttached && b.g.rng.Intn(3) == 0 {
		return b.atom()
	}
	if depth < 3 && b.g.rng.Intn(5) == 0 {
		return xaTerm{T: "op", S: xaBinOps[b.g.rng.Intn(len(xaBinOps))], A: []xaTerm{b.simple(), b.simple()}}
	}
	return b.simple()
}

func (b *xaBodyGen) target() xaTerm {
	if b.g.rng.Intn(3) == 0 {
		if r, ok := b.ref("Name Unit"); ok {
			return r
		}
	}
	return xaTerm{T: "local", N: []int{b.g.rng.Intn(8)}}
}

// a name for an operand that is kept as written (SuperName read by its declared type): any absolute path will do
func (b *xaBodyGen) refTyped(kinds string) (xaTerm, bool) {
	if b.g.rng.Intn(3) == 0 {
		var cand []*xaObj
		for _, o := range b.g.objs {
			if strings.Contains(kinds, o.kind) && o.table <= b.m.table {
				cand = append(cand, o)
			}
		}
		if len(cand) > 0 {
			return xaTerm{T: "ref", F: &xaForm{Abs: true, Segs: cand[b.g.rng.Intn(len(cand))].path}}, true
		}
	}
	return b.ref(kinds)
}

func (b *xaBodyGen) syncStmt() (xaTerm, bool) {
	switch b.g.rng.Intn(7) {
	case 0:
		if r, ok := b.refTyped("Device"); ok {
			return xaTerm{T: "op", S: "Notify", A: []xaTerm{r, b.simple()}}, true
		}
		return xaTerm{T: "op", S: "Notify", A: []xaTerm{{T: "arg", N: []int{0}}, b.simple()}}, true
	case 1:
		if r, ok := b.refTyped("Mutex"); ok {
			return xaTerm{T: "op", S: "Acquire", A: []xaTerm{r, {T: "word", N: []int{b.g.rng.Intn(65536)}}}}, true
		}
	case 2:
		if r, ok := b.refTyped("Mutex"); ok {
			return xaTerm{T: "op", S: "Release", A: []xaTerm{r}}, true
		}
	case 3:
		if r, ok := b.ref("Event"); ok {
			return xaTerm{T: "op", S: "Signal", A: []xaTerm{r}}, true
		}
	case 4:
		if r, ok := b.refTyped("Event"); ok {
			return xaTerm{T: "op", S: "Wait", A: []xaTerm{r, b.simple()}}, true
		}
	case 5:
		if r, ok := b.refTyped("Event"); ok {
			return xaTerm{T: "op", S: "Reset", A: []xaTerm{r}}, true
		}
	default:
		return xaTerm{T: "op", S: []string{"Sleep", "Stall"}[b.g.rng.Intn(2)], A: []xaTerm{b.simple()}}, true
	}
	return xaTerm{}, false
}

func xaX(t xaTerm) xaTok { return xaTok{K: "stmt", Op: "x", X: []xaTerm{t}} }

func (b *xaBodyGen) stmts(depth int, n int, strict bool) []xaTok {
	var out []xaTok
	wasStrict := b.strict
	b.strict = strict
	defer func() { b.strict = wasStrict }()
	expr := func() xaTerm {
		if strict {
			return b.strictOperand(0, false)
		}
		return b.flatExpr(0)
	}
	arg := b.flatArg
	if strict {
		arg = func(d int) xaTerm { return b.strictOperand(d, true) }
	}
	real := 0 // statements that leave something in the tree
	for i := 0; i < n || real == 0; i++ {
		last := i >= n-1
		before := len(out)
		switch k := b.g.rng.Intn(20); {
		case k < 2:
			out = append(out, xaTok{K: "stmt", Op: "ret", X: []xaTerm{expr()}})
		case k < 5:
			out = append(out, xaTok{K: "stmt", Op: "store", X: []xaTerm{expr(), b.target()}})
		case k == 5:
			out = append(out, xaTok{K: "stmt", Op: []string{"inc", "dec"}[b.g.rng.Intn(2)], X: []xaTerm{{T: "local", N: []int{b.g.rng.Intn(8)}}}})
		case k < 9:
			if s, ok := b.syncStmt(); ok {
				out = append(out, xaX(s))
			}
		case k < 12:
			if c, ok := b.call(0, arg); ok {
				out = append(out, xaX(c))
			}
		case k == 12:
			nm := b.g.fresh()
			src := xaTerm{T: "arg", N: []int{b.g.rng.Intn(7)}}
			if r, ok := b.ref("Name"); ok && b.g.rng.Intn(2) == 0 {
				src = r
			}
			out = append(out, b.g.cfield(&xaForm{Segs: []string{nm}}, src))
			b.locals = append(b.locals, nm)
		case k == 13 && strict:
			out = append(out, xaX(xaTerm{T: "op", S: []string{"Break", "Continue"}[b.g.rng.Intn(2)]}))
		case k < 17 && depth < 3 && (!strict || last):
			if !strict {
				b.inIf++
			}
			pred := expr()
			if strict {
				pred = b.strictOperand(1, false)
			}
			out = append(out, xaTok{K: "if", X: []xaTerm{pred}, W: b.g.width()})
			out = append(out, b.stmts(depth+1, 1+b.g.rng.Intn(3), strict)...)
			out = append(out, xaTok{K: "close"})
			if !strict && b.g.rng.Intn(2) == 0 {
				out = append(out, xaTok{K: "else", W: b.g.width()})
				if b.g.rng.Intn(4) > 0 {
					out = append(out, b.stmts(depth+1, 1+b.g.rng.Intn(2), strict)...)
				}
				out = append(out, xaTok{K: "close"})
			}
			if !strict {
				b.inIf--
			}
		case k < 19 && depth < 3 && (!strict || last):
			b.strict = true
			out = append(out, xaTok{K: "while", X: []xaTerm{b.strictOperand(1, false)}, W: b.g.width()})
			if b.g.rng.Intn(5) > 0 {
				out = append(out, b.stmts(depth+1, 1+b.g.rng.Intn(3), true)...)
			}
			out = append(out, xaTok{K: "close"})
			b.strict = strict
		default:
			out = append(out, xaTok{K: "stmt", Op: "noop"})
			continue
		}
		if len(out) > before {
			real++
		}
		if strict && last && real > 0 {
			break
		}
	}
	return out
}

func xaFlattenNodes(nodes []*xaNode, out *[]xaTok) {
	for _, n := range nodes {
		*out = append(*out, n.tok)
		xaFlattenNodes(n.kids, out)
		*out = append(*out, n.body...)
		if n.blk {
			*out = append(*out, xaTok{K: "close"})
		}
	}
}

func xaRandomProgram(seed int64) []xaTok {
	g := &xaGen{rng: rand.New(rand.NewSource(seed))}
	ntab := 1 + g.rng.Intn(2)
	total := 30 + g.rng.Intn(170)
	if g.rng.Intn(6) == 0 {
		total = 4 + g.rng.Intn(25)
	}
	if mx, _ := strconv.Atoi(os.Getenv("XA_SIZE")); mx > 0 { // smaller programs (development, quick tier)
		total = 3 + g.rng.Intn(mx)
	}
	var tables [][]*xaNode
	for g.table = 1; g.table <= ntab; g.table++ {
		g.budget = total / ntab
		var top []*xaNode
		for g.budget > 0 {
			top = append(top, g.level(nil, false, 0, 2+g.rng.Intn(8))...)
		}
		tables = append(tables, top)
	}
	for _, o := range g.objs {
		if o.kind == "Method" {
			b := &xaBodyGen{g: g, m: o}
			if g.rng.Intn(8) > 0 {
				o.node.body = b.stmts(0, 1+g.rng.Intn(5), false)
			}
		}
	}
	var toks []xaTok
	for _, top := range tables {
		xaFlattenNodes(top, &toks)
		toks = append(toks, xaTok{K: "endtable"})
	}
	return toks
}

// TestVerifXaRandom: XA_N programs from VERIF_SEED, results to XA_RAND_OUT.
func TestVerifXaRandom(t *testing.T) {
	if os.Getenv("XA_RAND_OUT") == "" {
		t.Skip("no XA_RAND_OUT")
	}
	seed, _ := strconv.ParseInt(os.Getenv("VERIF_SEED"), 10, 64)
	n, _ := strconv.Atoi(os.Getenv("XA_N"))
	var progs []xaProg
	for i := 0; i < n; i++ {
		toks := xaRandomProgram(seed*1000003 + int64(i))
		raw, err := json.Marshal(toks)
		if err != nil {
			t.Fatal(err)
		}
		p := xaProg{ID: 1000001 + i, Raw: raw}
		if err := json.Unmarshal(raw, &p.Toks); err != nil { // the same decoding path as TLC-made programs
			t.Fatal(fmt.Errorf("generator wrote tokens it cannot read back: %v", err))
		}
		progs = append(progs, p)
	}
	xaRunParallel(t, progs, os.Getenv("XA_RAND_OUT"))
}
