//go:build verif
// +build verif

package pmm

// Conformance harness for C01/C02/C03 (and the sequential part of C09).
// It contains no oracle: it builds a multiboot memory map, runs the REAL boot
// allocator / pmm.Init / AllocFrame / FreeFrame and logs one JSON event per
// call.  The events are judged by the TLA+ monitor specs/pmm/PmmTrace.tla.
//
// Modes (env VERIF_PMM_MODE):
//   cases  : replay the small-scope cases TLC emitted from PmmModel (leg G);
//            model address units are scaled by 1024 so a model page is 4 KiB
//   random : seeded random maps and histories at real scale (leg T)
//   boot   : boot allocator alone, drained to exhaustion, reset, replayed (C02)

import (
	"bufio"
	"encoding/binary"
	"encoding/json"
	"math/rand"
	"os"
	"strconv"
	"syscall"
	"testing"
	"unsafe"

	"github.com/ProjectSerenity/firefly/kernel"
	"github.com/ProjectSerenity/firefly/kernel/mm"
	"github.com/ProjectSerenity/firefly/kernel/mm/vmm"
	"github.com/ProjectSerenity/firefly/kernel/multiboot"
)

type vRegion struct {
	addr, length uint64
	typ          uint32
}

type vEv map[string]interface{}

func vW64(v uint64) [4]int {
	return [4]int{int(v >> 48 & 0xffff), int(v >> 32 & 0xffff), int(v >> 16 & 0xffff), int(v & 0xffff)}
}

func vBuildInfo(regs []vRegion) []byte {
	le := binary.LittleEndian
	b := make([]byte, 8)
	tag := make([]byte, 16)
	le.PutUint32(tag[0:], 6)
	le.PutUint32(tag[4:], uint32(16+24*len(regs)))
	le.PutUint32(tag[8:], 24)
	b = append(b, tag...)
	for _, r := range regs {
		e := make([]byte, 24)
		le.PutUint64(e[0:], r.addr)
		le.PutUint64(e[8:], r.length)
		le.PutUint32(e[16:], r.typ)
		b = append(b, e...)
	}
	for len(b)%8 != 0 {
		b = append(b, 0)
	}
	b = append(b, 0, 0, 0, 0, 8, 0, 0, 0)
	le.PutUint32(b[0:], uint32(len(b)))
	return b
}

func vRegsJSON(regs []vRegion) []vEv {
	out := []vEv{}
	for _, r := range regs {
		out = append(out, vEv{"a": vW64(r.addr), "l": vW64(r.length), "t": [2]int{int(r.typ >> 16), int(r.typ & 0xffff)}})
	}
	return out
}

type vMachine struct {
	mem   []byte
	early []mm.Frame
	enc   *json.Encoder
	info  []byte
	n     int
}

func newVMachine(t *testing.T, out *os.File) *vMachine {
	m := &vMachine{}
	var err error
	m.mem, err = syscall.Mmap(-1, 0, 1024*4096, syscall.PROT_READ|syscall.PROT_WRITE, syscall.MAP_ANON|syscall.MAP_PRIVATE)
	if err != nil {
		t.Fatal(err)
	}
	reserveRegionFn = func(_ uintptr) (uintptr, *kernel.Error) { return uintptr(unsafe.Pointer(&m.mem[0])), nil }
	mapFn = func(page mm.Page, frame mm.Frame, flags vmm.PageTableEntryFlag) *kernel.Error {
		m.early = append(m.early, frame)
		return nil
	}
	m.enc = json.NewEncoder(out)
	return m
}

func (m *vMachine) emit(e vEv) { m.enc.Encode(e); m.n++ }

// pending records the call of the real code that is about to be made (fixed-size side record, see vlib hang_guard):
// if the call never returns the runner knows which one it was.
var vPendingFile *os.File

func vPending(desc string) {
	if vPendingFile == nil {
		p := os.Getenv("VERIF_PENDING")
		if p == "" {
			return
		}
		f, err := os.OpenFile(p, os.O_CREATE|os.O_WRONLY, 0644)
		if err != nil {
			return
		}
		vPendingFile = f
	}
	var rec [256]byte
	copy(rec[:255], desc)
	vPendingFile.WriteAt(rec[:], 0)
}

func (m *vMachine) setMap(regs []vRegion) {
	m.info = vBuildInfo(regs)
	multiboot.SetInfoPtr(uintptr(unsafe.Pointer(&m.info[0])))
	bootMemAllocator = BootMemAllocator{}
	bitmapAllocator = BitmapAllocator{}
	m.early = nil
}

func (m *vMachine) counters(e vEv) {
	e["total"] = int(bitmapAllocator.totalPages)
	e["reserved"] = int(bitmapAllocator.reservedPages)
	e["lock"] = int(*(*uint32)(unsafe.Pointer(&bitmapAllocator.mutex)))
}

// doInit runs the real pmm.Init and logs the "init" event; returns the result string.
func (m *vMachine) doInit(regs []vRegion, ks, ke uint64) string {
	m.setMap(regs)
	e := vEv{"k": "init", "regs": vRegsJSON(regs), "ks": vW64(ks), "ke": vW64(ke)}
	res := func() (s string) {
		defer func() {
			if r := recover(); r != nil {
				s = "panic"
			}
		}()
		vPending(`{"call":"pmm.Init","case":` + strconv.Itoa(m.n) + `}`)
		if err := Init(uintptr(ks), uintptr(ke)); err != nil {
			if err.Message == "out of memory" {
				return "oom"
			}
			return "error: " + err.Message
		}
		return "ok"
	}()
	e["res"] = res
	je := [][4]int{}
	for _, f := range m.early {
		je = append(je, vW64(uint64(f)))
	}
	e["early"] = je
	m.counters(e)
	m.emit(e)
	return res
}

func (m *vMachine) doAlloc() (mm.Frame, string) {
	e := vEv{"k": "alloc", "f": vW64(0)}
	var fr mm.Frame
	res := func() (s string) {
		defer func() {
			if r := recover(); r != nil {
				s = "panic"
			}
		}()
		vPending(`{"call":"AllocFrame","after_event":` + strconv.Itoa(m.n) + `}`)
		f, err := bitmapAllocator.AllocFrame()
		if err != nil {
			return "oom"
		}
		fr = f
		e["f"] = vW64(uint64(f))
		return "ok"
	}()
	e["res"] = res
	m.counters(e)
	m.emit(e)
	return fr, res
}

func (m *vMachine) doFree(f mm.Frame) string {
	e := vEv{"k": "free", "f": vW64(uint64(f))}
	res := func() (s string) {
		defer func() {
			if r := recover(); r != nil {
				s = "panic"
			}
		}()
		vPending(`{"call":"FreeFrame","frame":` + strconv.FormatUint(uint64(f), 10) + `,"after_event":` + strconv.Itoa(m.n) + `}`)
		if err := bitmapAllocator.FreeFrame(f); err != nil {
			return err.Message
		}
		return "ok"
	}()
	e["res"] = res
	m.counters(e)
	m.emit(e)
	return res
}

func (m *vMachine) isReservedByBoot(f mm.Frame, ks, ke uint64) bool {
	if uint64(f) >= ks>>12 && uint64(f) < (ke+4095)>>12 {
		return true
	}
	for _, ef := range m.early {
		if ef == f {
			return true
		}
	}
	return false
}

// badFrame picks a frame that is NOT currently allocated (input choice only; whether the
// allocator must reject it is the monitor's business).  Kernel-image and early-boot frames are
// never chosen (DESIGN 4.1 domain note i).
func (m *vMachine) badFrame(kind int, regs []vRegion, ks, ke uint64, held []mm.Frame, freed []mm.Frame, rng *rand.Rand) (mm.Frame, bool) {
	isHeld := func(f mm.Frame) bool {
		for _, h := range held {
			if h == f {
				return true
			}
		}
		return false
	}
	var f mm.Frame
	switch kind % 5 {
	case 0: // a frame that was freed earlier (double free) if any
		if len(freed) == 0 {
			return 0, false
		}
		f = freed[rng.Intn(len(freed))]
	case 1: // beyond the end of the map
		last := regs[len(regs)-1]
		f = mm.Frame((last.addr+last.length)>>12) + mm.Frame(1+rng.Intn(5))
	case 2: // somewhere inside / near a random region (reserved types, gaps, never allocated frames)
		r := regs[rng.Intn(len(regs))]
		f = mm.Frame(r.addr>>12) + mm.Frame(rng.Intn(int(r.length>>12)+3))
	case 3: // boundary frames of a region: the partial pages before its first / after its last whole frame
		r := regs[rng.Intn(len(regs))]
		if rng.Intn(2) == 0 {
			f = mm.Frame(r.addr >> 12)
		} else {
			f = mm.Frame((r.addr + r.length) >> 12)
		}
	case 4: // far away
		f = mm.Frame(0xfffffff) + mm.Frame(rng.Intn(1000))
	}
	if isHeld(f) || m.isReservedByBoot(f, ks, ke) {
		return 0, false
	}
	return f, true
}

type vCase struct {
	Regs []struct {
		A, L, T int
	} `json:"regs"`
	Ks     int     `json:"ks"`
	Ke     int     `json:"ke"`
	Script [][]int `json:"script"` // [0] alloc, [1,i] free i-th held, [2,k] bad free of kind k, [3] drain, [4] free all
	NBoot  int     `json:"nboot"`
}

func vOpen(t *testing.T) (*os.File, *rand.Rand, int64) {
	seed, _ := strconv.ParseInt(os.Getenv("VERIF_SEED"), 10, 64)
	out, err := os.Create(os.Getenv("TRACE_OUT"))
	if err != nil {
		t.Fatal(err)
	}
	return out, rand.New(rand.NewSource(seed)), seed
}

func (m *vMachine) runScript(regs []vRegion, ks, ke uint64, script [][]int, rng *rand.Rand) {
	if m.doInit(regs, ks, ke) != "ok" {
		m.emit(vEv{"k": "reset"})
		return
	}
	var held, freed []mm.Frame
	dropFreed := func(f mm.Frame) {
		for j, x := range freed {
			if x == f {
				freed = append(freed[:j], freed[j+1:]...)
				return
			}
		}
	}
	alloc := func() string {
		f, res := m.doAlloc()
		if res == "ok" {
			held = append(held, f)
			dropFreed(f)
		}
		return res
	}
	for _, op := range script {
		res := ""
		switch op[0] {
		case 0:
			res = alloc()
		case 1:
			if len(held) == 0 {
				continue
			}
			j := op[1] % len(held)
			f := held[j]
			held = append(held[:j], held[j+1:]...)
			freed = append(freed, f)
			res = m.doFree(f)
		case 2:
			f, ok := m.badFrame(op[1], regs, ks, ke, held, freed, rng)
			if !ok {
				continue
			}
			res = m.doFree(f)
		case 3:
			for i := 0; i < 100000; i++ {
				if res = alloc(); res != "ok" || m.lockHeld() {
					break
				}
			}
			if res == "oom" && !m.lockHeld() {
				res = alloc() // out-of-memory must be stable
			}
		case 5: // free an absolute frame number (model scripts and replays)
			f := mm.Frame(op[1])
			for j, h := range held {
				if h == f {
					held = append(held[:j], held[j+1:]...)
					freed = append(freed, f)
					break
				}
			}
			if m.isReservedByBoot(f, ks, ke) {
				continue // outside the domain (DESIGN 4.1 note i)
			}
			res = m.doFree(f)
		case 4:
			for len(held) > 0 {
				j := rng.Intn(len(held))
				f := held[j]
				held = append(held[:j], held[j+1:]...)
				freed = append(freed, f)
				if res = m.doFree(f); res == "panic" || m.lockHeld() {
					break
				}
			}
		}
		if res == "panic" || m.lockHeld() {
			break // a panic ends the history; so does a lock left held: the next call would spin forever
		}
	}
	m.emit(vEv{"k": "reset"})
}

func (m *vMachine) lockHeld() bool {
	return *(*uint32)(unsafe.Pointer(&bitmapAllocator.mutex)) != 0
}

// markedFrames projects the bitmaps: the frames the main allocator holds as reserved
func vMarkedFrames() [][4]int {
	out := [][4]int{}
	for _, p := range bitmapAllocator.pools {
		for f := p.startFrame; f <= p.endFrame && p.endFrame != mm.InvalidFrame; f++ {
			rel := f - p.startFrame
			blk := rel >> 6
			if int(blk) >= len(p.freeBitmap) {
				break
			}
			if p.freeBitmap[blk]&(1<<(63-(rel-blk<<6))) != 0 {
				out = append(out, vW64(uint64(f)))
			}
		}
	}
	return out
}

// runHandover: k boot allocations, then the REAL hand-over steps of BitmapAllocator.init
func (m *vMachine) runHandover(regs []vRegion, ks, ke uint64, k int) {
	m.setMap(regs)
	bootMemAllocator.init(uintptr(ks), uintptr(ke))
	boot := [][4]int{}
	for i := 0; i < k; i++ {
		f, err := bootMemAllocator.AllocFrame()
		if err != nil {
			break
		}
		boot = append(boot, vW64(uint64(f)))
	}
	e := vEv{"k": "handover"}
	e["res"] = func() (s string) {
		defer func() {
			if r := recover(); r != nil {
				s = "panic"
			}
		}()
		vPending(`{"call":"hand-over (setupPoolBitmaps, reserveKernelFrames, reserveEarlyAllocatorFrames)","after_event":` + strconv.Itoa(m.n) + `}`)
		if err := bitmapAllocator.setupPoolBitmaps(); err != nil {
			return "oom"
		}
		bitmapAllocator.reserveKernelFrames()
		bitmapAllocator.reserveEarlyAllocatorFrames()
		return "ok"
	}()
	for _, f := range m.early { // frames setupPoolBitmaps took from the boot allocator for its own tables
		boot = append(boot, vW64(uint64(f)))
	}
	e["boot"] = boot
	if e["res"] == "ok" {
		e["marked"] = vMarkedFrames()
	} else {
		e["marked"] = [][4]int{}
	}
	m.emit(e)
}

func (m *vMachine) runBoot(regs []vRegion, ks, ke uint64, extra int) {
	m.setMap(regs)
	m.emit(vEv{"k": "binit", "regs": vRegsJSON(regs), "ks": vW64(ks), "ke": vW64(ke)})
	bootMemAllocator.init(uintptr(ks), uintptr(ke))
	balloc := func() string {
		e := vEv{"k": "balloc", "f": vW64(0)}
		res := func() (s string) {
			defer func() {
				if r := recover(); r != nil {
					s = "panic"
				}
			}()
			vPending(`{"call":"BootMemAllocator.AllocFrame","after_event":` + strconv.Itoa(m.n) + `}`)
			f, err := bootMemAllocator.AllocFrame()
			if err != nil {
				return "oom"
			}
			e["f"] = vW64(uint64(f))
			return "ok"
		}()
		e["res"] = res
		m.emit(e)
		return res
	}
	n := 0
	for n < 5000 {
		if balloc() != "ok" {
			break
		}
		n++
	}
	for i := 0; i < extra; i++ { // out-of-memory must not start handing out frames again
		balloc()
	}
	// hand-over replay exactly as reserveEarlyAllocatorFrames does it
	bootMemAllocator.allocCount, bootMemAllocator.lastAllocFrame = 0, 0
	m.emit(vEv{"k": "breset"})
	for i := 0; i < n; i++ {
		if balloc() != "ok" {
			break
		}
	}
	// the real hand-over after 0, a few, or many boot allocations
	for _, k := range []int{0, 1 + extra, n / 2, n - 1} {
		if k >= 0 && k <= n && k <= 300 {
			m.runHandover(regs, ks, ke, k)
		}
	}
	m.emit(vEv{"k": "reset"})
}

// leg G: cases emitted by TLC from the small-scope model.
func TestVerifPmmCases(t *testing.T) {
	out, rng, _ := vOpen(t)
	defer out.Close()
	m := newVMachine(t, out)
	in, err := os.Open(os.Getenv("CASES"))
	if err != nil {
		t.Fatal(err)
	}
	defer in.Close()
	unit := uint64(1024)
	if u, err := strconv.Atoi(os.Getenv("VERIF_UNIT")); err == nil && u > 0 {
		unit = uint64(u)
	}
	mode := os.Getenv("VERIF_PMM_MODE")
	sc := bufio.NewScanner(in)
	sc.Buffer(make([]byte, 1<<20), 1<<20)
	ncases := 0
	for sc.Scan() {
		line := sc.Bytes()
		if len(line) == 0 {
			continue
		}
		// TLC's CSVWrite of ToJson(..) yields a JSON string literal containing JSON, or plain JSON
		var c vCase
		if line[0] == '"' {
			var s string
			if err := json.Unmarshal(line, &s); err != nil {
				t.Fatalf("bad case line: %v", err)
			}
			line = []byte(s)
		}
		if err := json.Unmarshal(line, &c); err != nil {
			t.Fatalf("bad case %q: %v", line, err)
		}
		var regs []vRegion
		for _, r := range c.Regs {
			regs = append(regs, vRegion{uint64(r.A) * unit, uint64(r.L) * unit, uint32(r.T)})
		}
		ks, ke := uint64(c.Ks)*unit, uint64(c.Ke)*unit
		if mode == "boot" {
			m.runBoot(regs, ks, ke, 2)
		} else {
			script := c.Script
			if len(script) == 0 {
				script = [][]int{{3}, {2, 1}, {2, 2}, {2, 3}, {1, 0}, {2, 0}, {0}, {4}, {2, 0}, {3}}
			}
			m.runScript(regs, ks, ke, script, rng)
		}
		ncases++
	}
	os.Stdout.WriteString("VERIF-STATS cases=" + strconv.Itoa(ncases) + " events=" + strconv.Itoa(m.n) + "\n")
}

var vCounts = []uint64{1, 1, 2, 3, 62, 63, 64, 65, 66, 127, 128, 129, 130, 191, 192, 193, 200, 255, 256, 257}

// random sorted non-overlapping memory map + kernel placement at real scale
func vRandomMap(rng *rand.Rand) (regs []vRegion, ks, ke uint64, ok bool) {
	cur := uint64(rng.Intn(3)) * 0x1000
	if rng.Intn(4) == 0 {
		cur += 0x100000000 * uint64(1+rng.Intn(1000))
	} else if rng.Intn(6) == 0 {
		cur += uint64(rng.Int63n(1<<51)) &^ 4095 // frame numbers far beyond 32 bits
	}
	if rng.Intn(8) == 0 {
		cur = 0
	}
	n := 1 + rng.Intn(6)
	var avail, tails []int
	for i := 0; i < n; i++ {
		if rng.Intn(2) == 0 {
			cur += uint64(rng.Intn(3)) * 0x1000
		}
		if rng.Intn(3) == 0 {
			cur += uint64(rng.Intn(4096))
		}
		var ln uint64
		switch rng.Intn(6) {
		case 0:
			ln = uint64(1 + rng.Intn(4095)) // smaller than a page
			if rng.Intn(6) == 0 {
				ln = 0 // an empty entry
			}
		case 1:
			ln = uint64(1+rng.Intn(300)) * 4096
		default:
			ln = vCounts[rng.Intn(len(vCounts))] * 4096
		}
		if rng.Intn(3) == 0 {
			ln += uint64(rng.Intn(4096))
		}
		typ := uint32(1)
		if rng.Intn(3) == 0 {
			switch rng.Intn(4) {
			case 0:
				typ = uint32(rng.Intn(8))
			case 1:
				typ = 0x80000000 + uint32(rng.Intn(4))
			case 2:
				typ = 0xffffffff
			default:
				typ = uint32(2 + rng.Intn(4))
			}
		}
		first := (cur + 4095) &^ 4095
		last := (cur + ln) &^ 4095
		if typ == 1 && last > first {
			avail = append(avail, len(regs))
		}
		if typ == 1 && (cur+ln)&4095 != 0 && last >= cur {
			tails = append(tails, len(regs)) // a page-aligned address lies inside the region's trailing partial page
		}
		regs = append(regs, vRegion{cur, ln, typ})
		cur += ln
	}
	if len(tails) > 0 && (len(avail) == 0 || rng.Intn(6) == 0) {
		// the image starts (page aligned) in the trailing partial page of an available region, which may hold no whole
		// frame at all or be smaller than a page
		kr := regs[tails[rng.Intn(len(tails))]]
		end := kr.addr + kr.length
		ks = end &^ 4095
		ke = ks + 1 + uint64(rng.Intn(int(end-ks)))
		if rng.Intn(3) == 0 {
			ke = end
		}
		return regs, ks, ke, true
	}
	if len(avail) == 0 {
		return nil, 0, 0, false
	}
	kr := regs[avail[rng.Intn(len(avail))]]
	first := (kr.addr + 4095) &^ 4095
	last := (kr.addr + kr.length) &^ 4095 // exclusive
	nfr := (last - first) / 4096
	var koff, klen uint64
	switch rng.Intn(5) {
	case 0: // at the start
		koff, klen = 0, 1+uint64(rng.Intn(int(nfr)))
	case 1: // at the end
		klen = 1 + uint64(rng.Intn(int(nfr)))
		koff = nfr - klen
	case 2: // whole region
		koff, klen = 0, nfr
	default:
		koff = uint64(rng.Intn(int(nfr)))
		klen = 1 + uint64(rng.Intn(int(nfr-koff)))
	}
	if klen > 4 && rng.Intn(4) != 0 {
		klen = 1 + uint64(rng.Intn(4))
		if koff+klen > nfr {
			koff = nfr - klen
		}
	}
	ks = first + koff*4096
	ke = ks + klen*4096
	if rng.Intn(2) == 0 {
		ke -= uint64(rng.Intn(4095))
	} else if tail := kr.addr + kr.length - last; koff+klen == nfr && tail > 0 && rng.Intn(2) == 0 {
		ke += 1 + uint64(rng.Intn(int(tail))) // the image ends inside the trailing partial page of its region
	}
	return regs, ks, ke, true
}

// vBigMap: a first available region of only 1-2 frames followed (after an optional reserved hole) by a region so
// large that the allocator's own tables need several pages: the early-boot allocations then span two pools.
func vBigMap(rng *rand.Rand) (regs []vRegion, ks, ke uint64) {
	cur := uint64(1+rng.Intn(3)) * 0x1000
	small := uint64(1+rng.Intn(2)) * 4096
	if rng.Intn(2) == 0 {
		cur += uint64(rng.Intn(4096))
		small += 4096
	}
	regs = append(regs, vRegion{cur, small, 1})
	cur += small
	if rng.Intn(2) == 0 {
		hole := uint64(1+rng.Intn(3))*4096 + uint64(rng.Intn(4096))
		regs = append(regs, vRegion{cur, hole, uint32(2 + rng.Intn(3))})
		cur += hole
	}
	big := []uint64{32769, 33000, 40000, 65536, 65537, 70000, 98305}[rng.Intn(7)]
	regs = append(regs, vRegion{cur, big * 4096, 1})
	first := (cur + 4095) &^ 4095
	koff := uint64(rng.Intn(8))
	if rng.Intn(3) == 0 {
		koff = 0
	}
	ks = first + koff*4096
	ke = ks + uint64(1+rng.Intn(3))*4096 - uint64(rng.Intn(4095))
	return regs, ks, ke
}

// leg T: seeded random maps and histories at real scale.
func TestVerifPmmRandom(t *testing.T) {
	out, rng, _ := vOpen(t)
	defer out.Close()
	m := newVMachine(t, out)
	ntraces, _ := strconv.Atoi(os.Getenv("NTRACES"))
	if ntraces == 0 {
		ntraces = 50
	}
	mode := os.Getenv("VERIF_PMM_MODE")
	for tr := 0; tr < ntraces; tr++ {
		regs, ks, ke, ok := vRandomMap(rng)
		if !ok {
			tr--
			continue
		}
		bigmap := mode != "boot" && tr%10 == 3
		if bigmap {
			regs, ks, ke = vBigMap(rng)
		}
		if mode == "boot" {
			m.runBoot(regs, ks, ke, 1+rng.Intn(3))
			continue
		}
		var script [][]int
		nops := 10 + rng.Intn(120)
		if bigmap { // no drains on pools of 10^4..10^5 frames: a short history is enough
			for i := 0; i < 40; i++ {
				switch r := rng.Intn(10); {
				case r < 6:
					script = append(script, []int{0})
				case r < 8:
					script = append(script, []int{1, rng.Intn(1 << 20)})
				default:
					script = append(script, []int{2, rng.Intn(5)})
				}
			}
			m.runScript(regs, ks, ke, script, rng)
			continue
		}
		if rng.Intn(3) == 0 {
			script = append(script, []int{3}) // drain first
		}
		for i := 0; i < nops; i++ {
			switch r := rng.Intn(20); {
			case r < 9:
				script = append(script, []int{0})
			case r < 15:
				script = append(script, []int{1, rng.Intn(1 << 20)})
			case r < 18:
				script = append(script, []int{2, rng.Intn(5)})
			case r == 18:
				script = append(script, []int{3})
			default:
				script = append(script, []int{4})
			}
		}
		script = append(script, []int{3}, []int{2, 0}, []int{4}, []int{3})
		m.runScript(regs, ks, ke, script, rng)
	}
	os.Stdout.WriteString("VERIF-STATS cases=" + strconv.Itoa(ntraces) + " events=" + strconv.Itoa(m.n) + "\n")
}
