//go:build verif
// +build verif

package console

// Conformance harness for C19 (console drivers paint exactly the addressed
// cells).  It contains no oracle: it builds a VesaFbConsole / VgaTextConsole
// over host memory through the package's own seams (mapRegionFn,
// portWriteByteFn, DriverInit, SetLogo, SetFont), calls the REAL Write / Fill /
// Scroll with the given 32-bit arguments and logs, per call, the arguments, the
// outcome (ok / panic / hang) and the DIFF of the buffer (one span per changed
// row: first..last changed element with the new values) plus the number of
// guard elements around the buffer that changed.  The events are judged by the
// TLA+ monitor specs/console/ConsoleTrace.tla.
//
// Entry point TestVerifC19 (parent).  Every case runs in a child process (this
// same test binary, TestVerifC19Child) under a CPU-time watchdog: a call that
// burns more than C19_CPU_MS of process CPU time is logged as res:"hang" and
// the child is restarted after that call.  Env:
//   C19_MODE   cases | random
//   C19_CASES  ndjson case file (mode cases); one geometry + call list per line
//   C19_NCASES number of random cases (mode random)
//   TRACE_OUT  ndjson event file (appended); TRACE_OUT.status receives {done,cases,hangs,truncated}

import (
	"bufio"
	"encoding/json"
	"fmt"
	"image/color"
	"io"
	"math/rand"
	"os"
	"os/exec"
	"runtime/debug"
	"strconv"
	"strings"
	"sync"
	"sync/atomic"
	"syscall"
	"testing"
	"time"
	"unsafe"

	"github.com/ProjectSerenity/firefly/kernel"
	"github.com/ProjectSerenity/firefly/kernel/device/video/console/font"
	"github.com/ProjectSerenity/firefly/kernel/device/video/console/logo"
	"github.com/ProjectSerenity/firefly/kernel/mm"
	"github.com/ProjectSerenity/firefly/kernel/mm/vmm"
	"github.com/ProjectSerenity/firefly/kernel/multiboot"
)

const (
	c19Guard    = 64 // guard bytes before and after the buffer
	c19PageSize = 4096
	c19MemPages = 96
	c19ExitHang = 77
)

// c19Case is one input: a console geometry and a list of calls.
// A call is [0,ch,fg,bg,x,y] (Write), [1,x,y,w,h,fg,bg] (Fill) or [2,dir,n] (Scroll).
type c19Case struct {
	ID     int        `json:"id"`
	Cons   string     `json:"cons"` // "fb" | "vga"
	W      uint32     `json:"w"`
	H      uint32     `json:"h"`
	Pitch  uint32     `json:"pitch"`
	Bpp    uint32     `json:"bpp"`
	Ci     [6]uint8   `json:"ci"` // red pos,size, green pos,size, blue pos,size
	Gw     uint32     `json:"gw"`
	Gh     uint32     `json:"gh"`
	OffY   uint32     `json:"offY"`   // logo height
	Font   string     `json:"font"`   // shipped font name, "" = synthetic gw x gh font from the seed
	Align  uint8      `json:"align"`  // logo alignment
	Seed   int64      `json:"seed"`   // buffer content, palette, synthetic font, logo pixels
	Reinit int        `json:"reinit"` // start a fresh case (new init event) every so many calls; 0 = never
	Chk    int        `json:"chk"`    // full checkpoint every so many calls (and at the end); 0 = only if small
	Calls  [][]uint64 `json:"calls"`
}

// ---------------------------------------------------------------- event writer

type c19Out struct {
	w *bufio.Writer
	b []byte
}

func (o *c19Out) str(k, v string) {
	o.b = append(o.b, '"')
	o.b = append(o.b, k...)
	o.b = append(o.b, `":"`...)
	o.b = append(o.b, v...)
	o.b = append(o.b, `",`...)
}
func (o *c19Out) num(k string, v uint64) {
	o.b = append(o.b, '"')
	o.b = append(o.b, k...)
	o.b = append(o.b, `":`...)
	o.b = strconv.AppendUint(o.b, v, 10)
	o.b = append(o.b, ',')
}

// 32-bit word as two 16-bit limbs (TLC's JSON reader truncates ints >= 2^31)
func (o *c19Out) word(k string, v uint64) {
	o.b = append(o.b, '"')
	o.b = append(o.b, k...)
	o.b = append(o.b, `":[`...)
	o.b = strconv.AppendUint(o.b, (v>>16)&0xffff, 10)
	o.b = append(o.b, ',')
	o.b = strconv.AppendUint(o.b, v&0xffff, 10)
	o.b = append(o.b, `],`...)
}
func (o *c19Out) key(k string) {
	o.b = append(o.b, '"')
	o.b = append(o.b, k...)
	o.b = append(o.b, `":`...)
}
func (o *c19Out) ints(vals []uint16) {
	o.b = append(o.b, '[')
	for i, v := range vals {
		if i > 0 {
			o.b = append(o.b, ',')
		}
		o.b = strconv.AppendUint(o.b, uint64(v), 10)
	}
	o.b = append(o.b, ']')
}
func (o *c19Out) begin(kind string) { o.b = append(o.b[:0], '{'); o.str("k", kind) }
func (o *c19Out) end() {
	if o.b[len(o.b)-1] == ',' {
		o.b = o.b[:len(o.b)-1]
	}
	o.b = append(o.b, '}', '\n')
	o.w.Write(o.b)
}

// ---------------------------------------------------------------- watchdog state

var (
	c19Mu      sync.Mutex
	c19Seq     int64 // incremented before every call
	c19Active  int32
	c19CaseIdx int64
	c19CallIdx int64
	c19Pending []byte // event prefix (kind + arguments) of the call in flight
)

func c19CPU() time.Duration {
	var ru syscall.Rusage
	syscall.Getrusage(syscall.RUSAGE_SELF, &ru)
	return time.Duration(ru.Utime.Nano() + ru.Stime.Nano())
}

func c19Watchdog(out *c19Out, limit time.Duration, progress string) {
	var seenSeq int64 = -1
	var cpu0 time.Duration
	for {
		time.Sleep(20 * time.Millisecond)
		if atomic.LoadInt32(&c19Active) == 0 {
			seenSeq = -1
			continue
		}
		seq := atomic.LoadInt64(&c19Seq)
		now := c19CPU()
		if seq != seenSeq {
			seenSeq, cpu0 = seq, now
			continue
		}
		if now-cpu0 < limit {
			continue
		}
		c19Mu.Lock()
		if atomic.LoadInt32(&c19Active) == 1 && atomic.LoadInt64(&c19Seq) == seq {
			// the call in flight never returned within the CPU budget
			b := append([]byte{}, c19Pending...)
			b = append(b, `"res":"hang","msg":"no return after `...)
			b = strconv.AppendInt(b, int64((now-cpu0)/time.Millisecond), 10)
			b = append(b, ` ms of CPU time","d":[],"guard":0}`+"\n"+`{"k":"reset"}`+"\n"...)
			out.w.Write(b)
			out.w.Flush()
			os.WriteFile(progress, []byte(fmt.Sprintf("%d %d\n", atomic.LoadInt64(&c19CaseIdx), atomic.LoadInt64(&c19CallIdx))), 0644)
			os.Exit(c19ExitHang)
		}
		c19Mu.Unlock()
	}
}

// ---------------------------------------------------------------- machine

type c19Machine struct {
	mem   []byte // PROT_NONE page | RW pages ... | PROT_NONE page
	fbOff int    // offset of the (page aligned) buffer start inside mem
}

func c19NewMachine() *c19Machine {
	mem, err := syscall.Mmap(-1, 0, (c19MemPages+2)*c19PageSize, syscall.PROT_READ|syscall.PROT_WRITE, syscall.MAP_ANON|syscall.MAP_PRIVATE)
	if err != nil {
		panic(err)
	}
	syscall.Mprotect(mem[:c19PageSize], syscall.PROT_NONE)
	syscall.Mprotect(mem[(c19MemPages+1)*c19PageSize:], syscall.PROT_NONE)
	return &c19Machine{mem: mem, fbOff: 2 * c19PageSize}
}

// a running console: the device, a view of its buffer as elements and the last seen content
type c19Console struct {
	dev      Device
	elemSize int    // 1 (fb bytes) or 2 (vga cells)
	h, pitch int    // rows and elements per row
	size     int    // height*pitch in bytes
	raw      []byte // the real buffer bytes incl. guards: mem[fbOff-guard : fbOff+size+tail]
	prev     []byte // copy of raw after the previous event
}

func c19SynthFont(gw, gh uint32, rng *rand.Rand) *font.Font {
	bpr := (gw + 7) / 8
	d := make([]byte, 256*bpr*gh)
	rng.Read(d)
	return &font.Font{Name: "synthetic", GlyphWidth: gw, GlyphHeight: gh, BytesPerRow: bpr, Data: d}
}

// setup builds the console of a case through the driver's own initialisation path and logs the init event.
// first is the index of the first call that will run on it; the random environment (buffer content, palette,
// synthetic font, logo pixels) is drawn from seed + 7919*first, which the init event records as its seed.
func (m *c19Machine) setup(c *c19Case, first int, out *c19Out) *c19Console {
	eseed := c.Seed + 7919*int64(first)
	rng := rand.New(rand.NewSource(eseed))
	addr := uintptr(unsafe.Pointer(&m.mem[m.fbOff]))
	var mapped uintptr
	mapRegionFn = func(_ mm.Frame, size uintptr, _ vmm.PageTableEntryFlag) (mm.Page, *kernel.Error) {
		mapped = size
		return mm.PageFromAddress(addr), nil
	}
	portWriteByteFn = func(uint16, uint8) {}
	rc := &c19Console{}
	var fnt *font.Font
	var size, fblen int
	if c.Cons == "vga" {
		cons := NewVgaTextConsole(c.W, c.H, 0xb8000)
		if err := cons.DriverInit(io.Discard); err != nil {
			panic(err.Message)
		}
		rc.dev, rc.elemSize, rc.h, rc.pitch = cons, 2, int(c.H), int(c.W)
		size = int(c.W*c.H) * 2
		fblen = len(cons.fb)
	} else {
		ci := &multiboot.FramebufferRGBColorInfo{RedPosition: c.Ci[0], RedMaskSize: c.Ci[1], GreenPosition: c.Ci[2],
			GreenMaskSize: c.Ci[3], BluePosition: c.Ci[4], BlueMaskSize: c.Ci[5]}
		cons := NewVesaFbConsole(c.W, c.H, uint8(c.Bpp), c.Pitch, ci, 0xfd000000)
		if err := cons.DriverInit(io.Discard); err != nil {
			panic(err.Message)
		}
		for i := 0; i < 256; i++ { // a random palette, set through the driver's non-replacing setter
			cons.setPaletteColor(uint8(i), color.RGBA{R: uint8(rng.Intn(256)), G: uint8(rng.Intn(256)), B: uint8(rng.Intn(256))}, false)
		}
		lw := uint32(0)
		if c.W > 0 {
			lw = uint32(1 + rng.Intn(int(c.W)))
		}
		lg := &logo.Image{Width: lw, Height: c.OffY, Align: logo.Alignment(c.Align % 3), TransparentIndex: 0,
			Palette: []color.RGBA{{R: 255, B: 255}, {R: 10, G: 200, B: 30}, {R: 99, G: 98, B: 97}}}
		lg.Data = make([]uint8, lw*c.OffY)
		for i := range lg.Data {
			lg.Data[i] = uint8(rng.Intn(3))
		}
		cons.SetLogo(lg)
		if c.Font != "" {
			fnt = font.FindByName(c.Font)
			if fnt == nil {
				panic("unknown font " + c.Font)
			}
		} else {
			fnt = c19SynthFont(c.Gw, c.Gh, rng)
		}
		cons.SetFont(fnt)
		rc.dev, rc.elemSize, rc.h, rc.pitch = cons, 1, int(c.H), int(c.Pitch)
		size = int(c.H * c.Pitch)
		fblen = len(cons.fb)
	}
	// The framebuffer proper is height*pitch elements.  Whatever the driver asked the mapper for and whatever length it
	// gave its slice is not assumed but observed: the memory behind height*pitch is watched up to one page past the next
	// page boundary (a slice that was rounded up to whole pages still lies inside the arena, so that a stray access shows
	// up as a changed guard byte rather than as a fault), and the mapped size and the slice length are logged.
	tail := (c19PageSize-size%c19PageSize)%c19PageSize + c19PageSize
	if size+tail > (c19MemPages-2)*c19PageSize {
		panic(fmt.Sprintf("harness arena too small for a framebuffer of %d bytes", size))
	}
	rc.size = size
	rc.raw = m.mem[m.fbOff-c19Guard : m.fbOff+size+tail]
	rng.Read(rc.raw) // random content everywhere: guards, logo rows, text area, padding
	rc.prev = append([]byte{}, rc.raw...)

	cols, nrows := rc.dev.Dimensions(Characters)
	dfg, dbg := rc.dev.DefaultColors()
	out.begin("init")
	out.str("cons", c.Cons)
	out.num("id", uint64(c.ID))
	out.num("seed", uint64(eseed))
	out.str("font", c.Font)
	out.num("align", uint64(c.Align))
	out.num("w", uint64(c.W))
	out.num("h", uint64(c.H))
	out.num("cols", uint64(cols))
	out.num("nrows", uint64(nrows))
	out.num("dfg", uint64(dfg))
	out.num("dbg", uint64(dbg))
	out.num("mapped", uint64(mapped)/uint64(rc.elemSize)) // elements the driver asked the mapper for
	out.num("fblen", uint64(fblen))                       // elements of the driver's view of the buffer
	if c.Cons == "vga" {
		cons := rc.dev.(*VgaTextConsole)
		out.num("pitch", uint64(c.W))
		out.num("bpp", 0)
		out.key("ci")
		out.ints([]uint16{0, 0, 0, 0, 0, 0})
		out.b = append(out.b, ',')
		out.num("gw", 1)
		out.num("gh", 1)
		out.num("bpr", 0)
		out.num("offY", 0)
		out.num("clear", uint64(cons.clearChar))
		out.b = append(out.b, `"fd":[],"pal":[],`...)
	} else {
		out.num("pitch", uint64(c.Pitch))
		out.num("bpp", uint64(c.Bpp))
		out.key("ci")
		out.ints([]uint16{uint16(c.Ci[0]), uint16(c.Ci[1]), uint16(c.Ci[2]), uint16(c.Ci[3]), uint16(c.Ci[4]), uint16(c.Ci[5])})
		out.b = append(out.b, ',')
		out.num("gw", uint64(fnt.GlyphWidth))
		out.num("gh", uint64(fnt.GlyphHeight))
		out.num("bpr", uint64(fnt.BytesPerRow))
		out.num("offY", uint64(c.OffY))
		out.num("clear", 0)
		out.key("fd")
		fd := make([]uint16, len(fnt.Data))
		for i, b := range fnt.Data {
			fd[i] = uint16(b)
		}
		out.ints(fd)
		out.b = append(out.b, `,"pal":[`...)
		for i, pc := range rc.dev.Palette() {
			if i > 0 {
				out.b = append(out.b, ',')
			}
			r := pc.(color.RGBA)
			out.ints([]uint16{uint16(r.R), uint16(r.G), uint16(r.B)})
		}
		out.b = append(out.b, `],`...)
	}
	rc.rows(out)
	out.end()
	return rc
}

// element i of row r of a buffer image (guards stripped)
func (rc *c19Console) elem(img []byte, r, i int) uint16 {
	o := c19Guard + (r*rc.pitch+i)*rc.elemSize
	if rc.elemSize == 1 {
		return uint16(img[o])
	}
	return uint16(img[o]) | uint16(img[o+1])<<8
}

// "rows":[[...],...] full content
func (rc *c19Console) rows(out *c19Out) {
	out.key("rows")
	out.b = append(out.b, '[')
	row := make([]uint16, rc.pitch)
	for r := 0; r < rc.h; r++ {
		if r > 0 {
			out.b = append(out.b, ',')
		}
		for i := range row {
			row[i] = rc.elem(rc.raw, r, i)
		}
		out.ints(row)
	}
	out.b = append(out.b, `],`...)
}

// diff appends "d":[[row,col,[values]],...],"guard":n and brings prev up to date
func (rc *c19Console) diff(out *c19Out) {
	out.key("d")
	out.b = append(out.b, '[')
	first := true
	for r := 0; r < rc.h; r++ {
		lo, hi := -1, -1
		for i := 0; i < rc.pitch; i++ {
			if rc.elem(rc.raw, r, i) != rc.elem(rc.prev, r, i) {
				if lo < 0 {
					lo = i
				}
				hi = i
			}
		}
		if lo < 0 {
			continue
		}
		if !first {
			out.b = append(out.b, ',')
		}
		first = false
		out.b = append(out.b, '[')
		out.b = strconv.AppendInt(out.b, int64(r), 10)
		out.b = append(out.b, ',')
		out.b = strconv.AppendInt(out.b, int64(lo), 10)
		out.b = append(out.b, ',')
		vals := make([]uint16, hi-lo+1)
		for i := range vals {
			vals[i] = rc.elem(rc.raw, r, lo+i)
		}
		out.ints(vals)
		out.b = append(out.b, ']')
	}
	out.b = append(out.b, `],`...)
	g := 0
	for i := 0; i < c19Guard; i++ { // before the buffer
		if rc.raw[i] != rc.prev[i] {
			g++
		}
	}
	for i := c19Guard + rc.size; i < len(rc.raw); i++ { // behind height*pitch
		if rc.raw[i] != rc.prev[i] {
			g++
		}
	}
	out.num("guard", uint64(g))
	copy(rc.prev, rc.raw)
}

// ---------------------------------------------------------------- running a case

func c19Call(dev Device, call []uint64) (res, msg string) {
	defer func() {
		if e := recover(); e != nil {
			res, msg = "panic", strings.Map(func(r rune) rune {
				if r == '"' || r == '\\' || r < 32 {
					return ' '
				}
				return r
			}, fmt.Sprint(e))
		}
	}()
	switch call[0] {
	case 0:
		dev.Write(byte(call[1]), uint8(call[2]), uint8(call[3]), uint32(call[4]), uint32(call[5]))
	case 1:
		dev.Fill(uint32(call[1]), uint32(call[2]), uint32(call[3]), uint32(call[4]), uint8(call[5]), uint8(call[6]))
	case 2:
		dev.Scroll(ScrollDir(call[1]), uint32(call[2]))
	}
	return "ok", ""
}

func c19Prefix(out *c19Out, call []uint64) {
	switch call[0] {
	case 0:
		out.begin("write")
		out.num("ch", call[1])
		out.num("fg", call[2])
		out.num("bg", call[3])
		out.word("x", call[4])
		out.word("y", call[5])
	case 1:
		out.begin("fill")
		out.word("x", call[1])
		out.word("y", call[2])
		out.word("w", call[3])
		out.word("h", call[4])
		out.num("fg", call[5])
		out.num("bg", call[6])
	case 2:
		out.begin("scroll")
		out.num("dir", call[1])
		out.word("n", call[2])
	}
}

// runCase replays the calls of one case starting at call index from.
func (m *c19Machine) runCase(idx int, c *c19Case, from int, out *c19Out) {
	rc := m.setup(c, from, out)
	small := rc.h*rc.pitch <= 1500
	chk := func() {
		out.begin("chk")
		rc.rows(out)
		out.end()
	}
	since := 0
	for i := from; i < len(c.Calls); i++ {
		call := c.Calls[i]
		if c.Reinit > 0 && since >= c.Reinit {
			chk()
			out.begin("reset")
			out.end()
			rc = m.setup(c, i, out)
			since = 0
		}
		since++
		c19Prefix(out, call)
		c19Pending = append(c19Pending[:0], out.b...)
		atomic.StoreInt64(&c19CaseIdx, int64(idx))
		atomic.StoreInt64(&c19CallIdx, int64(i))
		atomic.AddInt64(&c19Seq, 1)
		atomic.StoreInt32(&c19Active, 1)
		res, msg := c19Call(rc.dev, call)
		c19Mu.Lock()
		atomic.StoreInt32(&c19Active, 0)
		c19Mu.Unlock()
		out.str("res", res)
		if msg != "" {
			out.str("msg", msg)
		}
		rc.diff(out)
		out.end()
		if res != "ok" {
			// the console may be half painted: close this case and continue the remaining calls on a fresh one
			out.begin("reset")
			out.end()
			if i+1 < len(c.Calls) {
				rc = m.setup(c, i+1, out)
				since = 0
			} else {
				rc = nil
			}
			continue
		}
		if c.Chk > 0 && since%c.Chk == 0 {
			chk()
		}
	}
	if rc != nil {
		if small || c.Chk > 0 {
			chk()
		}
		out.begin("reset")
		out.end()
	}
}

// ---------------------------------------------------------------- random cases (leg T)

func c19Ext(rng *rand.Rand, max uint32) uint64 {
	switch rng.Intn(24) {
	case 0:
		return 0
	case 1:
		return 0xffffffff
	case 2:
		return 0xfffffffe
	case 3:
		return 0x80000000
	case 4:
		return uint64(max) + 1
	case 5:
		return uint64(max)
	case 6:
		return 0xffffffff - uint64(rng.Intn(int(max)+2))
	case 7:
		return 0x100000000 - uint64(max) + uint64(rng.Intn(3)) - 1
	case 8:
		return uint64(rng.Uint32()) // anywhere in the 32-bit range
	case 9: // around the 16-bit and the sign boundary; a valid-looking low half under a non-zero high half
		return []uint64{0xffff, 0x10000, 0x7fffffff, 0x80000001, 0x10000 + uint64(rng.Intn(int(max)+2)),
			uint64(1+rng.Intn(0xffff))<<16 | uint64(rng.Intn(int(max)+2))}[rng.Intn(6)]
	default:
		if max == 0 {
			return 1
		}
		return uint64(1 + rng.Intn(int(max)))
	}
}

// c19RandomLayout draws a colour-mask layout for a pixel of the given number of usable bits: three non-overlapping
// fields of 0-8 bits (up to 12 in a 32-bit pixel) in random order with random gaps.
func c19RandomLayout(rng *rand.Rand, bits int) [6]uint8 {
	for {
		var size [3]int
		for i := range size {
			size[i] = rng.Intn(9)
			if bits == 32 && rng.Intn(4) == 0 {
				size[i] = 9 + rng.Intn(4)
			}
			if rng.Intn(3) > 0 && size[i] < 4 {
				size[i] = 4 + rng.Intn(5)
			}
		}
		total := size[0] + size[1] + size[2]
		if total > bits {
			continue
		}
		order := rng.Perm(3)
		slack := bits - total
		var ci [6]uint8
		pos := 0
		for _, k := range order {
			gap := 0
			if slack > 0 && rng.Intn(2) == 0 {
				gap = rng.Intn(slack + 1)
			}
			pos += gap
			slack -= gap
			ci[2*k], ci[2*k+1] = uint8(pos), uint8(size[k])
			pos += size[k]
		}
		return ci
	}
}

var c19Layouts = map[uint32][][6]uint8{
	8:  {{0, 0, 0, 0, 0, 0}},
	15: {{10, 5, 5, 5, 0, 5}, {0, 5, 5, 5, 10, 5}},
	16: {{11, 5, 5, 6, 0, 5}, {0, 5, 5, 6, 11, 5}, {10, 5, 5, 5, 0, 5}, {8, 4, 4, 4, 0, 4}},
	24: {{16, 8, 8, 8, 0, 8}, {0, 8, 8, 8, 16, 8}, {8, 8, 16, 8, 0, 8}, {18, 6, 10, 6, 2, 6}},
	32: {{16, 8, 8, 8, 0, 8}, {0, 8, 8, 8, 16, 8}, {24, 8, 16, 8, 8, 8}, {8, 8, 16, 8, 24, 8}, {21, 7, 11, 6, 2, 5}},
}

// c19RandomCase draws a geometry (DESIGN 4.17 leg T) and nCalls calls with boundary and extreme arguments.
// hi32 selects whether 32-bpp layouts with a colour component above bit 23 are drawn.
func c19RandomCase(id int, rng *rand.Rand, nCalls int, hi32 bool) *c19Case {
	c := &c19Case{ID: id, Seed: rng.Int63n(1 << 40)}
	var cols, rows uint32
	if rng.Intn(5) == 0 {
		c.Cons = "vga"
		c.W, c.H = uint32(1+rng.Intn(80)), uint32(1+rng.Intn(25))
		switch rng.Intn(8) {
		case 0, 1:
			c.W, c.H = uint32(1+rng.Intn(5)), uint32(1+rng.Intn(4))
		case 2, 3:
			c.W, c.H = 80, 25 // the real VGA mode 3 grid
		case 4:
			c.W, c.H = uint32(81+rng.Intn(52)), uint32(26+rng.Intn(35)) // larger text modes, up to 132x60
		case 5: // a grid without cells
			if rng.Intn(2) == 0 {
				c.W = 0
			} else {
				c.H = 0
			}
		}
		c.Pitch, c.Gw, c.Gh = c.W, 1, 1
		cols, rows = c.W, c.H
	} else {
		c.Cons = "fb"
		c.Bpp = []uint32{8, 15, 16, 24, 32}[rng.Intn(5)]
		ls := c19Layouts[c.Bpp]
		c.Ci = ls[rng.Intn(len(ls))]
		if c.Bpp != 8 && rng.Intn(2) == 0 {
			c.Ci = c19RandomLayout(rng, int(c.Bpp))
		}
		_ = hi32
		Bpp := (c.Bpp + 1) >> 3
		switch rng.Intn(6) {
		case 0:
			c.Font, c.Gw, c.Gh = "terminus8x16", 8, 16
		case 1:
			c.Font, c.Gw, c.Gh = "terminus10x18", 10, 18
		case 2:
			c.Font, c.Gw, c.Gh = "terminus14x28", 14, 28
		default:
			c.Gw, c.Gh = uint32(8+rng.Intn(9)), uint32(1+rng.Intn(7))
		}
		// logo height: the usual 0/5/13 or anything else
		c.OffY = []uint32{0, 5, 13}[rng.Intn(3)]
		if rng.Intn(3) == 0 {
			c.OffY = uint32(rng.Intn(24))
		}
		// width 8-70 px and height 4-60 px (taller where font and logo need it), so that the grid has at least one cell ...
		c.W = c.Gw + uint32(rng.Intn(int(71-c.Gw)))
		if rng.Intn(15) == 0 {
			c.W = 71 + uint32(rng.Intn(130)) // now and then a wider screen, up to 200 px
		}
		minH := c.OffY + c.Gh
		maxH := uint32(60)
		if minH > maxH {
			maxH = minH + 3
		}
		c.H = minH + uint32(rng.Intn(int(maxH-minH+1)))
		// ... or, now and then, a framebuffer without any cell: narrower than a glyph, or no room for a text line
		// below the logo (down to a logo that fills the framebuffer, and an empty framebuffer)
		switch rng.Intn(12) {
		case 0:
			c.W = uint32(rng.Intn(int(c.Gw)))
		case 1:
			c.H = c.OffY + uint32(rng.Intn(int(c.Gh)))
		case 2:
			c.H = c.OffY
		}
		c.Pitch = c.W*Bpp + uint32(rng.Intn(18))
		if rng.Intn(6) == 0 {
			c.Pitch = c.W * Bpp
		}
		c.Align = uint8(rng.Intn(3))
		cols, rows = c.W/c.Gw, (c.H-c.OffY)/c.Gh
	}
	for i := 0; i < nCalls; i++ {
		col := func() uint64 { // every uint8 is a legal argument; the text console's palette ends at 15
			if c.Cons == "vga" && rng.Intn(3) > 0 {
				return []uint64{0, 1, 7, 14, 15, 16, 17, 128, 255}[rng.Intn(9)]
			}
			if c.Cons == "vga" && rng.Intn(2) == 0 {
				return uint64(rng.Intn(16))
			}
			return uint64(rng.Intn(256))
		}
		switch rng.Intn(10) {
		case 0, 1, 2, 3:
			c.Calls = append(c.Calls, []uint64{0, uint64(rng.Intn(256)), col(), col(), c19Ext(rng, cols), c19Ext(rng, rows)})
		case 4, 5, 6:
			c.Calls = append(c.Calls, []uint64{1, c19Ext(rng, cols), c19Ext(rng, rows), c19Ext(rng, cols), c19Ext(rng, rows), col(), col()})
		default:
			c.Calls = append(c.Calls, []uint64{2, uint64(rng.Intn(2)), c19Ext(rng, rows)})
		}
	}
	return c
}

// ---------------------------------------------------------------- entry points

func c19LoadCases(t *testing.T) []*c19Case {
	var cases []*c19Case
	switch os.Getenv("C19_MODE") {
	case "random":
		n, _ := strconv.Atoi(os.Getenv("C19_NCASES"))
		nc, _ := strconv.Atoi(os.Getenv("C19_NCALLS"))
		if nc == 0 {
			nc = 200
		}
		seed, _ := strconv.ParseInt(os.Getenv("VERIF_SEED"), 10, 64)
		rng := rand.New(rand.NewSource(seed*7919 + 19))
		for i := 0; i < n; i++ {
			cases = append(cases, c19RandomCase(i, rng, nc, os.Getenv("C19_HI32") == "1"))
		}
	default:
		f, err := os.Open(os.Getenv("C19_CASES"))
		if err != nil {
			t.Fatal(err)
		}
		defer f.Close()
		sc := bufio.NewScanner(f)
		sc.Buffer(make([]byte, 1<<20), 1<<28)
		for sc.Scan() {
			if len(strings.TrimSpace(sc.Text())) == 0 {
				continue
			}
			c := &c19Case{}
			if err := json.Unmarshal(sc.Bytes(), c); err != nil {
				t.Fatalf("bad case line: %v", err)
			}
			cases = append(cases, c)
		}
	}
	return cases
}

// TestVerifC19Child runs cases C19_START.. (first one from call C19_CALL) in this process.
func TestVerifC19Child(t *testing.T) {
	if os.Getenv("C19_CHILD") != "1" {
		t.Skip("child process of TestVerifC19 only")
	}
	debug.SetPanicOnFault(true)
	cases := c19LoadCases(t)
	start, _ := strconv.Atoi(os.Getenv("C19_START"))
	from, _ := strconv.Atoi(os.Getenv("C19_CALL"))
	f, err := os.OpenFile(os.Getenv("TRACE_OUT"), os.O_APPEND|os.O_CREATE|os.O_WRONLY, 0644)
	if err != nil {
		t.Fatal(err)
	}
	out := &c19Out{w: bufio.NewWriterSize(f, 1<<20)}
	limit, _ := strconv.Atoi(os.Getenv("C19_CPU_MS"))
	if limit == 0 {
		limit = 1500
	}
	go c19Watchdog(out, time.Duration(limit)*time.Millisecond, os.Getenv("C19_PROGRESS"))
	m := c19NewMachine()
	for i := start; i < len(cases); i++ {
		m.runCase(i, cases[i], from, out)
		from = 0
	}
	c19Mu.Lock()
	out.w.Flush()
	f.Close()
	c19Mu.Unlock()
}

// TestVerifC19 drives the child process and restarts it after a call that was cut off by the watchdog.
func TestVerifC19(t *testing.T) {
	cases := c19LoadCases(t)
	work := os.Getenv("VERIF_WORK")
	if work == "" {
		work = os.TempDir()
	}
	progress := fmt.Sprintf("%s/c19.progress.%d", work, os.Getpid())
	defer os.Remove(progress)
	maxHangs, _ := strconv.Atoi(os.Getenv("C19_MAX_HANGS"))
	if maxHangs == 0 {
		maxHangs = 3
	}
	start, from, hangs, truncated := 0, 0, 0, 0
	for start < len(cases) {
		cmd := exec.Command(os.Args[0], "-test.run", "^TestVerifC19Child$", "-test.timeout", "3000s")
		cmd.Env = append(os.Environ(), "C19_CHILD=1", "C19_START="+strconv.Itoa(start), "C19_CALL="+strconv.Itoa(from), "C19_PROGRESS="+progress)
		outb, err := cmd.CombinedOutput()
		if err == nil {
			break
		}
		ee, ok := err.(*exec.ExitError)
		if !ok || ee.ExitCode() != c19ExitHang {
			t.Fatalf("child process failed: %v\n%s", err, outb)
		}
		hangs++
		b, rerr := os.ReadFile(progress)
		var ci, cl int
		if rerr != nil {
			t.Fatal(rerr)
		}
		fmt.Sscanf(string(b), "%d %d", &ci, &cl)
		if hangs >= maxHangs {
			truncated = 1 // the code under test keeps hanging: the remaining cases are skipped
			break
		}
		start, from = ci, cl+1
		if from >= len(cases[ci].Calls) {
			start, from = ci+1, 0
		}
	}
	// status for the runner (go test hides the stdout of a passing test)
	status := fmt.Sprintf("{\"done\":1,\"cases\":%d,\"hangs\":%d,\"truncated\":%d}\n", len(cases), hangs, truncated)
	if err := os.WriteFile(os.Getenv("TRACE_OUT")+".status", []byte(status), 0644); err != nil {
		t.Fatal(err)
	}
}
