//go:build verif
// +build verif

package pmm

// Harness for C09 (concurrent AllocFrame / FreeFrame).  No oracle in here: it
// builds a multiboot memory map with small pools, runs the REAL pmm.Init and
// then drives the REAL bitmapAllocator from several goroutines, writing JSON
// events that TLC judges with specs/conc/ConcTrace.tla.
//
//   TestVerifC09Gate     deterministic gate probes: the harness itself holds
//                        alloc.mutex while another goroutine enters a call.
//   TestVerifC09Windows  2..16 OS threads x a few operations with call/return
//                        events stamped by one atomic counter (linearizability).
//   TestVerifC09Stress   2..16 OS threads hammering tiny pools; a harness-side
//                        ownership table (one CAS per frame) records who owns a
//                        frame; per-thread logs, no shared counter on the hot path.
//
// A call that does not come back within the deadline is written as a `stuck`
// event and the run stops ("inconclusive", never a verdict).

import (
	"bufio"
	"encoding/binary"
	"encoding/json"
	"math/rand"
	"os"
	"runtime"
	"runtime/debug"
	"sort"
	"strconv"
	gosync "sync"
	"sync/atomic"
	"syscall"
	"testing"
	"time"
	"unsafe"

	"github.com/ProjectSerenity/firefly/kernel"
	"github.com/ProjectSerenity/firefly/kernel/mm"
	"github.com/ProjectSerenity/firefly/kernel/mm/vmm"
	"github.com/ProjectSerenity/firefly/kernel/multiboot"
)

type c09Region struct {
	addr, length uint64
	typ          uint32
}

type c09Ev map[string]interface{}

func c09W64(v uint64) [4]int {
	return [4]int{int(v >> 48 & 0xffff), int(v >> 32 & 0xffff), int(v >> 16 & 0xffff), int(v & 0xffff)}
}

func c09BuildInfo(regs []c09Region) []byte {
	le := binary.LittleEndian
	b := make([]byte, 8)
	tag := make([]byte, 16)
	le.PutUint32(tag[0:], 6)
	le.PutUint32(tag[4:], uint32(16+24*len(regs)))
	le.PutUint32(tag[8:], 24)
	b = append(b, tag...)
	for _, r := range regs {
		e := make([]byte, 24)
		le.PutUint64(e[0:], r.addr)
		le.PutUint64(e[8:], r.length)
		le.PutUint32(e[16:], r.typ)
		b = append(b, e...)
	}
	for len(b)%8 != 0 {
		b = append(b, 0)
	}
	b = append(b, 0, 0, 0, 0, 8, 0, 0, 0)
	le.PutUint32(b[0:], uint32(len(b)))
	return b
}

type c09Machine struct {
	mem   []byte
	early []mm.Frame
	enc   *json.Encoder
	bw    *bufio.Writer
	info  []byte
	n     int
	regs  []c09Region
	ks    uint64
	seed  int64
}

func c09Deadline() time.Duration {
	if s, err := strconv.Atoi(os.Getenv("VERIF_C09_DEADLINE_MS")); err == nil && s > 0 {
		return time.Duration(s) * time.Millisecond
	}
	return 20 * time.Second
}

func c09Open(t *testing.T) (*c09Machine, *rand.Rand, func()) {
	seed, _ := strconv.ParseInt(os.Getenv("VERIF_SEED"), 10, 64)
	out, err := os.Create(os.Getenv("TRACE_OUT"))
	if err != nil {
		t.Fatal(err)
	}
	// A goroutine spinning in the lock's assembly loop (yieldFn is nil in this package) cannot be stopped
	// for a garbage collection; with the collector off nothing ever has to stop it.
	debug.SetGCPercent(-1)
	// more Ps than spinning goroutines, so that the watchdog timers of the harness always get to run
	runtime.GOMAXPROCS(24)
	m := &c09Machine{seed: seed}
	m.mem, err = syscall.Mmap(-1, 0, 64*4096, syscall.PROT_READ|syscall.PROT_WRITE, syscall.MAP_ANON|syscall.MAP_PRIVATE)
	if err != nil {
		t.Fatal(err)
	}
	reserveRegionFn = func(_ uintptr) (uintptr, *kernel.Error) { return uintptr(unsafe.Pointer(&m.mem[0])), nil }
	mapFn = func(page mm.Page, frame mm.Frame, flags vmm.PageTableEntryFlag) *kernel.Error {
		m.early = append(m.early, frame)
		return nil
	}
	m.bw = bufio.NewWriterSize(out, 1<<20)
	m.enc = json.NewEncoder(m.bw)
	return m, rand.New(rand.NewSource(seed)), func() { m.bw.Flush(); out.Close() }
}

func (m *c09Machine) emit(e c09Ev) { m.enc.Encode(e); m.n++ }

// Is the allocator's lock taken ?  Asked through the lock's own API (an observer's TryToAcquire, given back at
// once), never by interpreting the lock word: how the word encodes "held" is the lock's business.  Only used
// at points where no allocator call is in progress.
func c09Lock() int {
	if bitmapAllocator.mutex.TryToAcquire() {
		bitmapAllocator.mutex.Release()
		return 0
	}
	return 1
}

func (m *c09Machine) counters(e c09Ev) {
	e["total"] = int(bitmapAllocator.totalPages)
	e["reserved"] = int(bitmapAllocator.reservedPages)
	e["lock"] = c09Lock()
}

// initPools runs the real pmm.Init on a sorted map whose available regions hold about the given numbers of free
// frames and logs `init`.  Nothing about the map is "nice": the kernel image (1-3 frames, end possibly not page
// aligned) sits at a random offset of a random region, a region may be used up completely by the kernel and the
// allocator's own page (a pool without a single free frame), region bounds may carry partial pages on either
// side, reserved regions may sit in the gaps.  What is free afterwards is the monitor's business (PmmProps).
func (m *c09Machine) initPools(sizes []int, rng *rand.Rand) bool {
	m.regs = nil
	kr, klen := rng.Intn(len(sizes)), 1+rng.Intn(3)
	if rng.Intn(3) == 0 {
		kr = 0
	}
	koff := rng.Intn(sizes[kr] + 1)
	if rng.Intn(3) == 0 {
		koff = sizes[kr] // the image ends the region
	}
	ragged := rng.Intn(3) == 0
	cur := uint64(0x100000) + uint64(rng.Intn(8))*0x1000
	var ks uint64
	for i, n := range sizes {
		frames := n
		if i == 0 {
			frames++ // the page the boot allocator hands out for the bitmaps
		}
		if i == kr {
			ks = cur + uint64(koff)*4096
			if i == 0 && koff > 0 {
				ks += 4096 // the boot allocator's page comes first
			}
			frames += klen
		}
		lead, tail := uint64(0), uint64(0)
		if ragged {
			lead, tail = uint64(rng.Intn(4096)), uint64(rng.Intn(4096))
		}
		m.regs = append(m.regs, c09Region{cur - lead, lead + uint64(frames)*4096 + tail, 1})
		cur += uint64(frames)*4096 + uint64(2+rng.Intn(3))*0x1000
		if rng.Intn(3) == 0 { // a reserved region in the gap
			m.regs = append(m.regs, c09Region{cur, 0x1000, 2})
			cur += 0x3000
		}
	}
	m.ks = ks
	ke := ks + uint64(klen)*4096
	if rng.Intn(2) == 0 {
		ke -= uint64(rng.Intn(4095))
	}
	m.info = c09BuildInfo(m.regs)
	multiboot.SetInfoPtr(uintptr(unsafe.Pointer(&m.info[0])))
	bootMemAllocator = BootMemAllocator{}
	bitmapAllocator = BitmapAllocator{}
	m.early = nil
	rj := []c09Ev{}
	for _, r := range m.regs {
		rj = append(rj, c09Ev{"a": c09W64(r.addr), "l": c09W64(r.length), "t": [2]int{int(r.typ >> 16), int(r.typ & 0xffff)}})
	}
	e := c09Ev{"k": "init", "regs": rj, "ks": c09W64(m.ks), "ke": c09W64(ke)}
	res := func() (s string) {
		defer func() {
			if r := recover(); r != nil {
				s = "panic"
			}
		}()
		if err := Init(uintptr(m.ks), uintptr(ke)); err != nil {
			if err.Message == "out of memory" {
				return "oom"
			}
			return "error: " + err.Message
		}
		return "ok"
	}()
	e["res"] = res
	je := [][4]int{}
	for _, f := range m.early {
		je = append(je, c09W64(uint64(f)))
	}
	e["early"] = je
	m.counters(e)
	m.emit(e)
	return res == "ok"
}

func c09Alloc() (f mm.Frame, res string) {
	defer func() {
		if r := recover(); r != nil {
			f, res = 0, "panic"
		}
	}()
	fr, err := bitmapAllocator.AllocFrame()
	if err != nil {
		return 0, "oom"
	}
	return fr, "ok"
}

func c09Free(f mm.Frame) (res string) {
	defer func() {
		if r := recover(); r != nil {
			res = "panic"
		}
	}()
	if err := bitmapAllocator.FreeFrame(f); err != nil {
		return err.Message
	}
	return "ok"
}

// a frame number that lies in no pool (pools may be listed in any order)
func (m *c09Machine) inPool(f mm.Frame) bool {
	for _, r := range m.regs {
		if r.typ == 1 && uint64(f) >= (r.addr+4095)>>12 && uint64(f) < (r.addr+r.length)>>12 {
			return true
		}
	}
	return false
}

func (m *c09Machine) unmanaged(rng *rand.Rand) mm.Frame {
	var cand []mm.Frame
	for _, r := range m.regs {
		if r.typ != 1 {
			continue
		}
		first, endp1 := mm.Frame((r.addr+4095)>>12), mm.Frame((r.addr+r.length)>>12)
		for _, f := range []mm.Frame{first - 1, first - 2, endp1, endp1 + 1, endp1 + mm.Frame(2+rng.Intn(4))} {
			if f > 0 && !m.inPool(f) {
				cand = append(cand, f)
			}
		}
	}
	cand = append(cand, mm.Frame(0xfffffff)+mm.Frame(rng.Intn(1000)))
	return cand[rng.Intn(len(cand))]
}

// bounds of all pools (for the ownership table)
func (m *c09Machine) span() (lo, hi mm.Frame) {
	lo, hi = mm.Frame(^uint64(0)>>1), 0
	for _, r := range m.regs {
		if r.typ != 1 {
			continue
		}
		if f := mm.Frame(r.addr >> 12); f < lo {
			lo = f
		}
		if f := mm.Frame((r.addr + r.length) >> 12); f > hi {
			hi = f
		}
	}
	return lo, hi
}

// A pool layout: frames [start, start+n) per pool, in the order the allocator lists them.  The allocator makes
// no assumption on that order, so neither does the harness: ascending, descending, unsorted, physically
// adjacent, with gaps, tiny, and around the 64k boundary of the bitmap arithmetic.
type c09Pool struct{ start, n uint64 }

var c09Layouts = [][]c09Pool{
	{{200, 12}, {16, 8}},           // descending
	{{300, 5}, {100, 3}, {200, 2}}, // unsorted
	{{100, 3}, {103, 2}},           // adjacent, ascending
	{{103, 2}, {100, 3}},           // adjacent, descending
	{{77, 1}, {33, 1}, {55, 1}},    // tiny, unsorted
	{{1000, 65}, {130, 63}},        // word boundary, descending, starts not multiples of 64
	{{64, 64}, {0x100000, 70}},     // ascending with a huge gap
	{{9, 2}, {5, 1}, {7, 2}},       // interleaved: 5 | 7 8 | 9 10 adjacent and unsorted
	{{500, 65537}},                 // 64k + 1
	{{70000, 3}, {300, 65536}},     // 64k, descending
	{{40, 65535}, {66000, 2}},      // 64k - 1, adjacent-ish ascending
}

// initDirect builds the allocator state in-package for a layout pmm.Init cannot produce from a sorted
// memory map, and logs the same `init` event (regions in pool order, no kernel image, no early frames).
func (m *c09Machine) initDirect(layout []c09Pool) bool {
	m.regs = nil
	bitmapAllocator = BitmapAllocator{}
	var pools []framePool
	rj := []c09Ev{}
	for _, p := range layout {
		m.regs = append(m.regs, c09Region{p.start * 4096, p.n * 4096, 1})
		pools = append(pools, framePool{startFrame: mm.Frame(p.start), endFrame: mm.Frame(p.start + p.n - 1),
			freeCount: uint32(p.n), freeBitmap: make([]uint64, (p.n+63)/64)})
		bitmapAllocator.totalPages += uint32(p.n)
		rj = append(rj, c09Ev{"a": c09W64(p.start * 4096), "l": c09W64(p.n * 4096), "t": [2]int{0, 1}})
	}
	bitmapAllocator.pools = pools
	m.early = nil
	e := c09Ev{"k": "init", "regs": rj, "ks": c09W64(0), "ke": c09W64(0), "res": "ok", "early": [][4]int{}}
	m.counters(e)
	m.emit(e)
	return true
}

// setup picks the i-th allocator shape: every other one through the real pmm.Init (ascending maps), the
// others built directly.  small = leave out the 64k pools (legs that walk a pool to exhaustion).
func (m *c09Machine) setup(i int, rng *rand.Rand, small bool) bool {
	if i%2 == 0 {
		return m.initPools(c09PoolSizes(rng), rng)
	}
	n := len(c09Layouts)
	if small {
		n -= 3
	}
	return m.initDirect(c09Layouts[(i/2)%n])
}

// projection of everything AllocFrame/FreeFrame may change
func c09Snapshot() []uint64 {
	s := []uint64{uint64(bitmapAllocator.reservedPages)}
	for i := range bitmapAllocator.pools {
		s = append(s, uint64(bitmapAllocator.pools[i].freeCount))
		s = append(s, bitmapAllocator.pools[i].freeBitmap...)
	}
	return s
}

func c09Pause(d time.Duration) {
	for t0 := time.Now(); time.Since(t0) < d; {
		runtime.Gosched()
	}
}

// ---------------------------------------------------------------- gate probes

// gate runs one call on another goroutine while this goroutine holds the allocator's own lock.
func (m *c09Machine) gate(op string, arg mm.Frame, grace time.Duration) (res string, f mm.Frame, stuck bool) {
	bitmapAllocator.mutex.Acquire()
	before := c09Snapshot()
	var started, done int32
	go func() {
		atomic.StoreInt32(&started, 1)
		if op == "alloc" {
			f, res = c09Alloc()
		} else {
			f, res = arg, c09Free(arg)
		}
		atomic.StoreInt32(&done, 1)
	}()
	for t0 := time.Now(); atomic.LoadInt32(&started) == 0 && time.Since(t0) < c09Deadline(); {
		runtime.Gosched()
	}
	c09Pause(grace)
	retheld := atomic.LoadInt32(&done) != 0
	after := c09Snapshot()
	chg := len(before) != len(after)
	for i := range before {
		if !chg && before[i] != after[i] {
			chg = true
		}
	}
	bitmapAllocator.mutex.Release()
	for t0 := time.Now(); atomic.LoadInt32(&done) == 0; {
		if time.Since(t0) > c09Deadline() {
			m.emit(c09Ev{"k": "stuck", "op": op})
			return "", 0, true
		}
		runtime.Gosched()
	}
	lockfree := bitmapAllocator.mutex.TryToAcquire()
	e := c09Ev{"k": "gate", "op": op, "f": c09W64(uint64(f)), "res": res, "retheld": retheld, "chgheld": chg, "lockfree": lockfree}
	bitmapAllocator.mutex.Release() // either ours, or the one a defective return path left behind
	m.counters(e)
	m.emit(e)
	return res, f, false
}

func TestVerifC09Gate(t *testing.T) {
	m, rng, closeOut := c09Open(t)
	defer closeOut()
	ncases, _ := strconv.Atoi(os.Getenv("NCASES"))
	if ncases == 0 {
		ncases = 4
	}
	grace := 300 * time.Microsecond
	if g, err := strconv.Atoi(os.Getenv("VERIF_C09_GRACE_US")); err == nil && g > 0 {
		grace = time.Duration(g) * time.Microsecond
	}
	for c := 0; c < ncases; c++ {
		var ok bool
		if c%2 == 0 {
			ok = m.initPools([][]int{{20, 17}, {3}, {2, 1}, {33, 31, 12}, {0, 2}, {1, 2, 1}, {64, 2}, {65}, {70, 9, 40, 11}, {4, 3}, {0, 1, 0}, {128, 1}}[(c/2)%12], rng)
		} else {
			ok = m.initDirect(c09Layouts[(c/2)%len(c09Layouts)])
		}
		if !ok {
			m.emit(c09Ev{"k": "reset"})
			continue
		}
		var held, freed []mm.Frame
		// every return path of both methods, each once with frames left and once at exhaustion
		script := []string{"alloc", "alloc", "free", "dbl", "unm", "drain", "alloc", "free", "dbl", "unm", "alloc", "alloc", "freeall", "dbl", "alloc"}
		stuck := false
		for _, st := range script {
			if stuck {
				break
			}
			one := func(op string, arg mm.Frame) string {
				res, f, s := m.gate(op, arg, grace)
				stuck = stuck || s
				if op == "alloc" && res == "ok" {
					held = append(held, f)
				}
				return res
			}
			switch st {
			case "alloc":
				one("alloc", 0)
			case "drain":
				for i := 0; i < 200 && !stuck; i++ {
					if one("alloc", 0) != "ok" {
						break
					}
				}
			case "free":
				if len(held) > 0 {
					j := rng.Intn(len(held))
					f := held[j]
					held = append(held[:j], held[j+1:]...)
					freed = append(freed, f)
					one("free", f)
				}
			case "freeall":
				for len(held) > 0 && !stuck {
					f := held[0]
					held = held[1:]
					freed = append(freed, f)
					one("free", f)
				}
			case "dbl": // a frame freed earlier and not handed out again since
				for j := len(freed) - 1; j >= 0; j-- {
					again := false
					for _, h := range held {
						again = again || h == freed[j]
					}
					if !again {
						one("free", freed[j])
						break
					}
				}
			case "unm":
				one("free", m.unmanaged(rng))
			}
		}
		m.emit(c09Ev{"k": "reset"})
		if stuck {
			m.emit(c09Ev{"k": "stuck"})
			break
		}
	}
	os.Stdout.WriteString("VERIF-STATS events=" + strconv.Itoa(m.n) + "\n")
}

// ---------------------------------------------------------------- linearizability windows

type c09Rec struct {
	seq int64
	ev  c09Ev
}

func c09PoolSizes(rng *rand.Rand) []int {
	switch rng.Intn(12) {
	case 9, 10: // 2-4 regions of 9..70 frames: the bitmaps pmm.Init lays out side by side
		n := 2 + rng.Intn(3)
		out := make([]int, n)
		for i := range out {
			out[i] = 9 + rng.Intn(62)
		}
		return out
	case 11:
		return []int{65 + rng.Intn(10), 20 + rng.Intn(20)}
	case 6: // a first pool without a free frame
		return []int{0, 1 + rng.Intn(3)}
	case 7: // two bitmap words
		return []int{126 + rng.Intn(5)}
	case 8:
		return []int{0, 63 + rng.Intn(3), 0}
	case 0:
		return []int{1 + rng.Intn(3)}
	case 1:
		return []int{1 + rng.Intn(3), 1 + rng.Intn(3)}
	case 2:
		return []int{2 + rng.Intn(6), 1 + rng.Intn(4)}
	case 3:
		return []int{62 + rng.Intn(5)}
	case 4:
		return []int{1 + rng.Intn(2), 1, 1 + rng.Intn(2)}
	}
	return []int{1 + rng.Intn(12)}
}

func c09Barrier(ready *int32, n int) {
	atomic.AddInt32(ready, 1)
	for t0 := time.Now(); atomic.LoadInt32(ready) < int32(n) && time.Since(t0) < c09Deadline(); {
		runtime.Gosched()
	}
}

func TestVerifC09Windows(t *testing.T) {
	m, master, closeOut := c09Open(t)
	defer closeOut()
	nwin, _ := strconv.Atoi(os.Getenv("NWIN"))
	nops, _ := strconv.Atoi(os.Getenv("NOPS"))
	if nwin == 0 {
		nwin = 10
	}
	if nops == 0 {
		nops = 6
	}
	for w := 0; w < nwin; w++ {
		nth := []int{2, 3, 4, 6, 8, 16, 12, 16, 1}[master.Intn(9)]
		// call mix of the window: balanced / allocation storm / free-happy
		freeUpTo := []int{9, 3, 14}[master.Intn(3)]
		pub := make([]uint64, nth) // last frame each caller obtained (read by the others: cross-caller frees)
		if !m.setup(w, master, false) {
			m.emit(c09Ev{"k": "reset"})
			continue
		}
		var seq int64
		var ready int32
		logs := make([][]c09Rec, nth)
		seeds := make([]int64, nth)
		bad := make([]mm.Frame, nth)
		for i := range seeds {
			seeds[i] = master.Int63()
			bad[i] = m.unmanaged(master)
		}
		var wg gosync.WaitGroup
		for th := 0; th < nth; th++ {
			wg.Add(1)
			go func(th int) {
				defer wg.Done()
				runtime.LockOSThread()
				defer runtime.UnlockOSThread()
				rng := rand.New(rand.NewSource(seeds[th]))
				var held, freed []mm.Frame
				local := make([]c09Rec, 0, 2*nops)
				c09Barrier(&ready, nth)
				for i := 0; i < nops; i++ {
					r := rng.Intn(20)
					switch {
					case r < freeUpTo && len(held) > 0, r < 12 && len(held) > 2:
						j := rng.Intn(len(held))
						f := held[j]
						held = append(held[:j], held[j+1:]...)
						freed = append(freed, f)
						c := c09Ev{"k": "call", "t": th, "op": "free", "f": c09W64(uint64(f))}
						s0 := atomic.AddInt64(&seq, 1)
						res := c09Free(f)
						s1 := atomic.AddInt64(&seq, 1)
						c["res"] = res
						local = append(local, c09Rec{s0, c}, c09Rec{s1, c09Ev{"k": "ret", "t": th}})
					case r == 12 || (r == 13 && len(freed) > 0) || (r == 14 && nth > 1):
						f := bad[th]
						if r == 13 {
							f = freed[rng.Intn(len(freed))] // freed earlier: free again (whatever happened to it since)
						}
						if r == 14 { // a frame ANOTHER caller obtained (it may hold it, may have freed it, may not have any yet)
							f = mm.Frame(atomic.LoadUint64(&pub[(th+1+rng.Intn(nth-1))%nth]))
						}
						c := c09Ev{"k": "call", "t": th, "op": "free", "f": c09W64(uint64(f))}
						s0 := atomic.AddInt64(&seq, 1)
						res := c09Free(f)
						s1 := atomic.AddInt64(&seq, 1)
						c["res"] = res
						local = append(local, c09Rec{s0, c}, c09Rec{s1, c09Ev{"k": "ret", "t": th}})
					default:
						c := c09Ev{"k": "call", "t": th, "op": "alloc"}
						s0 := atomic.AddInt64(&seq, 1)
						f, res := c09Alloc()
						s1 := atomic.AddInt64(&seq, 1)
						c["res"], c["f"] = res, c09W64(uint64(f))
						if res == "ok" {
							held = append(held, f)
							atomic.StoreUint64(&pub[th], uint64(f))
						}
						local = append(local, c09Rec{s0, c}, c09Rec{s1, c09Ev{"k": "ret", "t": th}})
					}
				}
				logs[th] = local
			}(th)
		}
		fin := make(chan struct{})
		go func() { wg.Wait(); close(fin) }()
		select {
		case <-fin:
		case <-time.After(c09Deadline()):
			m.emit(c09Ev{"k": "reset"})
			m.emit(c09Ev{"k": "stuck", "op": "window"})
			os.Stdout.WriteString("VERIF-STATS events=" + strconv.Itoa(m.n) + " stuck=1\n")
			return
		}
		var all []c09Rec
		for _, lg := range logs {
			all = append(all, lg...)
		}
		sort.Slice(all, func(i, j int) bool { return all[i].seq < all[j].seq })
		for _, r := range all {
			m.emit(r.ev)
		}
		q := c09Ev{"k": "quiesce"}
		m.counters(q)
		m.emit(q)
		m.emit(c09Ev{"k": "reset"})
	}
	os.Stdout.WriteString("VERIF-STATS events=" + strconv.Itoa(m.n) + "\n")
}

// ---------------------------------------------------------------- stress with ownership table

// per-thread event log; the (uncontended) mutex only matters when the watchdog reads it from outside
type c09Log struct {
	mu  gosync.Mutex
	evs []c09Ev
}

func (l *c09Log) add(e c09Ev) { l.mu.Lock(); l.evs = append(l.evs, e); l.mu.Unlock() }
func (l *c09Log) snapshot() []c09Ev {
	l.mu.Lock()
	defer l.mu.Unlock()
	return append([]c09Ev(nil), l.evs...)
}

func TestVerifC09Stress(t *testing.T) {
	m, master, closeOut := c09Open(t)
	defer closeOut()
	nruns, _ := strconv.Atoi(os.Getenv("NRUNS"))
	nops, _ := strconv.Atoi(os.Getenv("NOPS"))
	keep, _ := strconv.Atoi(os.Getenv("KEEP"))
	if nruns == 0 {
		nruns = 4
	}
	if nops == 0 {
		nops = 20000
	}
	if keep == 0 {
		keep = 100
	}
	totalOps := int64(0)
	for run := 0; run < nruns; run++ {
		nth := []int{16, 16, 8, 4, 2, 16, 12, 3, 1}[run%9]
		// call mix: balanced / allocation-heavy (large holdings, long OOM storms) / free-heavy / phased
		// (everybody allocates until the pools are dry, then everybody frees)
		mix := (run/2 + int(m.seed)) % 4
		freePct, maxHeld := []int{48, 20, 75, 0}[mix], []int{8, 40, 4, 1 << 30}[mix]
		var ok bool
		if run%2 == 0 {
			ok = m.initPools([][]int{{33, 31}, {70}, {20, 17, 12}, {1}, {65, 30}, {2, 1}, {70, 9, 40, 11}, {64}, {35, 14}, {3}, {0, 22, 13}, {128}, {1, 1, 1}, {0, 65, 0}}[(run/2+int(m.seed))%14], master)
		} else {
			ok = m.initDirect(c09Layouts[(run/2+int(m.seed))%(len(c09Layouts)-3)])
		}
		if !ok {
			m.emit(c09Ev{"k": "reset"})
			continue
		}
		lo, hi := m.span()
		if lo > 8 {
			lo -= 8
		} else {
			lo = 0
		}
		hi += 72 // room for padding bits that a broken allocator hands out
		owner := make([]int32, int(hi-lo))
		own := func(f mm.Frame, from, to int32) bool {
			if f < lo || f >= hi {
				return false
			}
			return atomic.CompareAndSwapInt32(&owner[f-lo], from, to)
		}
		var ready int32
		logs := make([]c09Log, nth)
		helds := make([][]mm.Frame, nth)
		seeds := make([]int64, nth)
		for i := range seeds {
			seeds[i] = master.Int63()
		}
		bad := m.unmanaged(master)
		var wg gosync.WaitGroup
		for th := 0; th < nth; th++ {
			wg.Add(1)
			go func(th int) {
				defer wg.Done()
				runtime.LockOSThread()
				defer runtime.UnlockOSThread()
				rng := rand.New(rand.NewSource(seeds[th]))
				me := int32(th + 1)
				var held []mm.Frame
				local := &logs[th]
				odd := 0
				c09Barrier(&ready, nth)
				for i := 0; i < nops; i++ {
					r := rng.Intn(100)
					wantFree := r < freePct || len(held) > maxHeld
					if mix == 3 {
						wantFree = i >= nops/2 && r < 90
					}
					if len(held) > 0 && wantFree {
						j := rng.Intn(len(held))
						f := held[j]
						held = append(held[:j], held[j+1:]...)
						cas := own(f, me, 0)
						res := c09Free(f)
						// the four routine shapes are sampled (first `keep` per thread), everything else is always logged
						if routine := cas && res == "ok"; i < keep || (!routine && odd < 50) {
							local.add(c09Ev{"k": "sfree", "t": th, "f": c09W64(uint64(f)), "res": res, "own": true, "cas": cas})
							if !routine {
								odd++
							}
						}
					} else if r >= 98 {
						res := c09Free(bad)
						if routine := res != "ok" && res != "panic"; i < keep || (!routine && odd < 50) {
							local.add(c09Ev{"k": "sfree", "t": th, "f": c09W64(uint64(bad)), "res": res, "own": false, "cas": true})
							if !routine {
								odd++
							}
						}
					} else {
						f, res := c09Alloc()
						cas := true
						if res == "ok" {
							if cas = own(f, 0, me); cas {
								held = append(held, f)
							}
						}
						if routine := cas && (res == "ok" || res == "oom"); i < keep || (!routine && odd < 50) {
							local.add(c09Ev{"k": "salloc", "t": th, "f": c09W64(uint64(f)), "res": res, "cas": cas})
							if !routine {
								odd++
							}
						}
					}
				}
				// keep a few frames, give the rest back
				for len(held) > th%3 {
					f := held[len(held)-1]
					held = held[:len(held)-1]
					cas := own(f, me, 0)
					if res := c09Free(f); !(cas && res == "ok") || rng.Intn(4) == 0 {
						local.add(c09Ev{"k": "sfree", "t": th, "f": c09W64(uint64(f)), "res": res, "own": true, "cas": cas})
					}
				}
				helds[th] = held
			}(th)
		}
		fin := make(chan struct{})
		go func() { wg.Wait(); close(fin) }()
		select {
		case <-fin:
		case <-time.After(c09Deadline() + time.Duration(nops/1000)*time.Second):
			// some thread never came back (e.g. the lock was left taken): what the threads recorded so far
			// is still evidence
			for th := 0; th < nth; th++ {
				for _, e := range logs[th].snapshot() {
					m.emit(e)
				}
			}
			m.emit(c09Ev{"k": "reset"})
			m.emit(c09Ev{"k": "stuck", "op": "stress"})
			os.Stdout.WriteString("VERIF-STATS events=" + strconv.Itoa(m.n) + " stuck=1\n")
			return
		}
		totalOps += int64(nth) * int64(nops)
		for th := 0; th < nth; th++ {
			for _, e := range logs[th].snapshot() {
				m.emit(e)
			}
		}
		nheld := 0
		for th := 0; th < nth; th++ {
			fs := [][4]int{}
			for _, f := range helds[th] {
				fs = append(fs, c09W64(uint64(f)))
			}
			nheld += len(fs)
			m.emit(c09Ev{"k": "sheld", "t": th, "fs": fs})
		}
		q := c09Ev{"k": "squiesce", "nheld": nheld}
		m.counters(q)
		m.emit(q)
		m.emit(c09Ev{"k": "reset"})
	}
	os.WriteFile(os.Getenv("TRACE_OUT")+".stats", []byte("events="+strconv.Itoa(m.n)+" ops="+strconv.FormatInt(totalOps, 10)+"\n"), 0644)
}
