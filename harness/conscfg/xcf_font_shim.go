//go:build verif
// +build verif

package font

// Export shim for the extra-conscfg harness (overlaid into the font package,
// never part of /repo): hal.onConsoleInit selects fonts from the package-private
// list, which the hal harness needs to swap for synthetic lists.

// VerifXcfSetFonts replaces the list of available fonts and returns the previous one.
func VerifXcfSetFonts(l []*Font) []*Font {
	old := availableFonts
	availableFonts = l
	return old
}
