//go:build verif
// +build verif

package multiboot

// Export shim for the extra-conscfg harness (overlaid into the multiboot
// package, never part of /repo): GetBootCmdLine caches the parsed command line
// in a package-private map; the hal harness installs a new info block per case
// and needs the cache dropped.

// VerifXcmResetCmdLine forgets the cached boot command line.
func VerifXcmResetCmdLine() { cmdLineKV = nil }
