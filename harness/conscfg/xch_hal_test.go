//go:build verif
// +build verif

package hal

// Conformance harness for extra-conscfg, statement S2 (hal.onConsoleInit and
// the boot command line).  No oracle: per case it installs a font list and a
// logo list (export shims of the font / logo packages), builds a multiboot
// info block whose command-line tag holds the given tokens, points the REAL
// multiboot package at it, resets the HAL's device state and hands a recording
// mock console with the requested capabilities (FontSetter / LogoSetter or
// not) and pixel dimensions to the REAL onDriverInit.  The event records the
// inputs and the SetLogo / SetFont calls the console received (positions in
// the installed lists by pointer identity, 0 = nil).  Judged by ConsCfgTrace.tla.
//
//   XC_CASES   ndjson cases emitted by TLC (t = hal)      XC_RANDOM  number of random cases
//   TRACE_OUT  event file prefix; this package writes TRACE_OUT.hal

import (
	"bufio"
	"encoding/binary"
	"encoding/json"
	"image/color"
	"io"
	"math/rand"
	"os"
	"strconv"
	"strings"
	"testing"
	"unsafe"

	"github.com/ProjectSerenity/firefly/kernel"
	"github.com/ProjectSerenity/firefly/kernel/device"
	"github.com/ProjectSerenity/firefly/kernel/device/video/console"
	"github.com/ProjectSerenity/firefly/kernel/device/video/console/font"
	"github.com/ProjectSerenity/firefly/kernel/device/video/console/logo"
	"github.com/ProjectSerenity/firefly/kernel/multiboot"
)

type xchFont struct {
	Name string `json:"name"`
	Rw   uint32 `json:"rw"`
	Rh   uint32 `json:"rh"`
	Prio uint32 `json:"prio"`
	Gw   uint32 `json:"gw"`
	Gh   uint32 `json:"gh"`
}
type xchLogo struct {
	W uint32 `json:"w"`
	H uint32 `json:"h"`
}
type xchCase struct {
	T       string     `json:"t"`
	Fonts   []xchFont  `json:"fonts"`
	Logos   []xchLogo  `json:"logos"`
	Cmd     [][]string `json:"cmd"`
	CapFont bool       `json:"capfont"`
	CapLogo bool       `json:"caplogo"`
	First   bool       `json:"first"`
	W       uint32     `json:"w"`
	H       uint32     `json:"h"`
	NoTag   bool       `json:"-"` // leave the command-line tag out (only meaningful for an empty command line)
}

// ---- recording mock consoles: one type per capability set

type xchRec struct {
	w, h  uint32
	fonts []*font.Font
	logos []*logo.Image
	calls [][2]interface{}
}

func (r *xchRec) Dimensions(dim console.Dimension) (uint32, uint32) {
	if dim == console.Characters {
		return 3, 2
	}
	return r.w, r.h
}
func (r *xchRec) DefaultColors() (uint8, uint8)            { return 7, 0 }
func (r *xchRec) Fill(x, y, w, h uint32, fg, bg uint8)     {}
func (r *xchRec) Scroll(console.ScrollDir, uint32)         {}
func (r *xchRec) Write(ch byte, fg, bg uint8, x, y uint32) {}
func (r *xchRec) Palette() color.Palette                   { return nil }
func (r *xchRec) SetPaletteColor(uint8, color.RGBA)        {}
func (r *xchRec) DriverName() string                       { return "xch" }
func (r *xchRec) DriverVersion() (uint16, uint16, uint16)  { return 0, 0, 1 }
func (r *xchRec) DriverInit(io.Writer) *kernel.Error       { return nil }
func (r *xchRec) setFont(f *font.Font) {
	pos := -1
	if f == nil {
		pos = 0
	}
	for i, x := range r.fonts {
		if x == f {
			pos = i + 1
			break
		}
	}
	r.calls = append(r.calls, [2]interface{}{"font", pos})
}
func (r *xchRec) setLogo(l *logo.Image) {
	pos := -1
	if l == nil {
		pos = 0
	}
	for i, x := range r.logos {
		if x == l {
			pos = i + 1
			break
		}
	}
	r.calls = append(r.calls, [2]interface{}{"logo", pos})
}

type xchPlain struct{ *xchRec }
type xchWithFont struct{ *xchRec }
type xchWithLogo struct{ *xchRec }
type xchWithBoth struct{ *xchRec }

func (c xchWithFont) SetFont(f *font.Font)  { c.setFont(f) }
func (c xchWithLogo) SetLogo(l *logo.Image) { c.setLogo(l) }
func (c xchWithBoth) SetFont(f *font.Font)  { c.setFont(f) }
func (c xchWithBoth) SetLogo(l *logo.Image) { c.setLogo(l) }

// ---- multiboot info block with (only) a command-line tag

var xchKeep [][]byte // info blocks stay reachable while the multiboot package points at them

func xchInfoBlock(cmd [][]string, noTag bool) uintptr {
	toks := make([]string, len(cmd))
	for i, parts := range cmd {
		toks[i] = strings.Join(parts, "=")
	}
	line := strings.Join(toks, " ")
	b := make([]byte, 8, 64+len(line))
	if !(noTag && len(cmd) == 0) {
		body := append([]byte(line), 0)
		hdr := make([]byte, 8)
		binary.LittleEndian.PutUint32(hdr[0:], 1)
		binary.LittleEndian.PutUint32(hdr[4:], uint32(8+len(body)))
		b = append(b, hdr...)
		b = append(b, body...)
		for len(b)%8 != 0 {
			b = append(b, 0xa5)
		}
	}
	b = append(b, 0, 0, 0, 0, 8, 0, 0, 0) // end tag
	binary.LittleEndian.PutUint32(b[0:], uint32(len(b)))
	// 8-byte aligned copy
	buf := make([]uint64, (len(b)+7)/8)
	raw := (*[1 << 20]byte)(unsafe.Pointer(&buf[0]))[: len(b) : len(b)]
	copy(raw, b)
	xchKeep = append(xchKeep[:0], raw)
	return uintptr(unsafe.Pointer(&buf[0]))
}

func xchRun(enc *json.Encoder, leg string, c *xchCase) {
	fonts := make([]*font.Font, len(c.Fonts))
	for i, f := range c.Fonts {
		fonts[i] = &font.Font{Name: f.Name, RecommendedWidth: f.Rw, RecommendedHeight: f.Rh, Priority: f.Prio, GlyphWidth: f.Gw, GlyphHeight: f.Gh}
	}
	logos := make([]*logo.Image, len(c.Logos))
	for i, l := range c.Logos {
		logos[i] = &logo.Image{Width: l.W, Height: l.H}
	}
	defer font.VerifXcfSetFonts(font.VerifXcfSetFonts(fonts))
	defer logo.VerifXclSetLogos(logo.VerifXclSetLogos(logos))
	multiboot.SetInfoPtr(xchInfoBlock(c.Cmd, c.NoTag))
	multiboot.VerifXcmResetCmdLine()

	rec := &xchRec{w: c.W, h: c.H, fonts: fonts, logos: logos, calls: [][2]interface{}{}}
	var cons console.Device
	switch {
	case c.CapFont && c.CapLogo:
		cons = xchWithBoth{rec}
	case c.CapFont:
		cons = xchWithFont{rec}
	case c.CapLogo:
		cons = xchWithLogo{rec}
	default:
		cons = xchPlain{rec}
	}
	devices = managedDevices{}
	if !c.First {
		devices.activeConsole = xchWithBoth{&xchRec{w: 1, h: 1}}
	}
	res := "ok"
	func() {
		defer func() {
			if x := recover(); x != nil {
				res = "panic"
			}
		}()
		onDriverInit(&device.DriverInfo{}, cons.(device.Driver))
	}()
	cmd := c.Cmd
	if cmd == nil {
		cmd = [][]string{}
	}
	fl, ll := c.Fonts, c.Logos
	if fl == nil {
		fl = []xchFont{}
	}
	if ll == nil {
		ll = []xchLogo{}
	}
	enc.Encode(map[string]interface{}{"k": "hal", "leg": leg, "fonts": fl, "logos": ll, "cmd": cmd, "capfont": c.CapFont, "caplogo": c.CapLogo,
		"first": c.First, "w": c.W, "h": c.H, "calls": rec.calls, "res": res, "active": devices.activeConsole == cons})
	devices = managedDevices{}
}

func TestVerifXchHal(t *testing.T) {
	f, err := os.Create(os.Getenv("TRACE_OUT") + ".hal")
	if err != nil {
		t.Fatal(err)
	}
	defer f.Close()
	bw := bufio.NewWriterSize(f, 1<<20)
	defer bw.Flush()
	enc := json.NewEncoder(bw)
	n := 0
	tick := func() {
		n++
		if n%100 == 0 {
			enc.Encode(map[string]string{"k": "reset"})
		}
	}

	if p := os.Getenv("XC_CASES"); p != "" {
		in, err := os.Open(p)
		if err != nil {
			t.Fatal(err)
		}
		sc := bufio.NewScanner(in)
		sc.Buffer(make([]byte, 1<<16), 1<<24)
		for sc.Scan() {
			var c xchCase
			if err := json.Unmarshal(sc.Bytes(), &c); err != nil {
				t.Fatalf("bad case: %v", err)
			}
			if c.T != "hal" {
				continue
			}
			c.NoTag = n%2 == 1
			xchRun(enc, "G", &c)
			tick()
		}
		in.Close()
	}

	seed, _ := strconv.ParseInt(os.Getenv("VERIF_SEED"), 10, 64)
	rng := rand.New(rand.NewSource(seed*104729 + 41))
	nrand, _ := strconv.Atoi(os.Getenv("XC_RANDOM"))
	// the shipped lists, described through the export shims
	shippedF := font.VerifXcfSetFonts(nil)
	font.VerifXcfSetFonts(shippedF)
	shippedL := logo.VerifXclSetLogos(nil)
	logo.VerifXclSetLogos(shippedL)
	var shipF []xchFont
	for _, x := range shippedF {
		shipF = append(shipF, xchFont{Name: x.Name, Rw: x.RecommendedWidth, Rh: x.RecommendedHeight, Prio: x.Priority, Gw: x.GlyphWidth, Gh: x.GlyphHeight})
	}
	var shipL []xchLogo
	for _, x := range shippedL {
		shipL = append(shipL, xchLogo{W: x.Width, H: x.Height})
	}
	res := [][2]uint32{{320, 200}, {640, 400}, {640, 480}, {800, 600}, {1024, 768}, {1280, 1024}, {1366, 768}, {1920, 1080}, {1980, 1024},
		{2560, 1600}, {3840, 2160}, {80, 25}, {1, 1}, {0, 0}, {1490, 512}, {2270, 1312}}
	junk := []string{"root", "quiet", "ro", "consolefont", "consoleLogo2", "console", "x"}
	for i := 0; i < nrand; i++ {
		c := &xchCase{T: "hal", CapFont: rng.Intn(4) != 0, CapLogo: rng.Intn(4) != 0, First: rng.Intn(8) != 0, NoTag: rng.Intn(2) == 0}
		if rng.Intn(3) == 0 {
			c.Fonts, c.Logos = shipF, shipL
		} else {
			for j := rng.Intn(5); j > 0; j-- {
				r := res[rng.Intn(len(res))]
				c.Fonts = append(c.Fonts, xchFont{Name: "f" + strconv.Itoa(rng.Intn(4)), Rw: r[0], Rh: r[1], Prio: uint32(rng.Intn(3)), Gw: 8, Gh: 16})
			}
			for j := rng.Intn(4); j > 0; j-- {
				c.Logos = append(c.Logos, xchLogo{W: uint32(32 + rng.Intn(100)), H: uint32(16 * (1 + rng.Intn(10)))})
			}
		}
		d := res[rng.Intn(len(res))]
		c.W, c.H = d[0], d[1]
		if rng.Intn(4) == 0 {
			c.W, c.H = uint32(rng.Intn(4096)), uint32(rng.Intn(2304))
		}
		for j := rng.Intn(5); j > 0; j-- {
			var tok []string
			switch rng.Intn(9) {
			case 0:
				tok = []string{"consoleLogo", "off"}
			case 1:
				tok = []string{"consoleLogo", []string{"on", "OFF", "of", "off2", "", "0"}[rng.Intn(6)]}
			case 2:
				tok = []string{"consoleLogo"}
			case 3, 4:
				nm := "f" + strconv.Itoa(rng.Intn(5))
				if len(c.Fonts) > 0 && rng.Intn(2) == 0 {
					nm = c.Fonts[rng.Intn(len(c.Fonts))].Name
					if rng.Intn(5) == 0 {
						nm = strings.ToUpper(nm)
					}
				}
				tok = []string{"consoleFont", nm}
			case 5:
				tok = []string{"consoleFont", "f1", "off"}
			case 6:
				tok = []string{[]string{"consolelogo", "ConsoleLogo", "consoleLogo ", "consolefont"}[rng.Intn(4)], "off"}
				tok[0] = strings.TrimSpace(tok[0])
			case 7:
				tok = []string{junk[rng.Intn(len(junk))], junk[rng.Intn(len(junk))]}
			default:
				tok = []string{junk[rng.Intn(len(junk))]}
			}
			c.Cmd = append(c.Cmd, tok)
		}
		xchRun(enc, "T", c)
		tick()
	}
	enc.Encode(map[string]string{"k": "reset"})
}
