//go:build verif
// +build verif

package logo

// Export shim for the extra-conscfg harness (overlaid into the logo package,
// never part of /repo); see xcf_font_shim.go.

// VerifXclSetLogos replaces the list of available logos and returns the previous one.
func VerifXclSetLogos(l []*Image) []*Image {
	old := availableLogos
	availableLogos = l
	return old
}
