//go:build verif
// +build verif

package logo

// Conformance harness for extra-conscfg, statement S1 (logo selection).  No
// oracle: installs a logo list (synthetic, or the shipped one), calls the REAL
// BestFit and logs the list (width, height), the queries and the position of
// the returned logo (pointer identity; 0 = nil).  Judged by ConsCfgTrace.tla.
//
//   XC_CASES / XC_RANDOM / XC_STEP / TRACE_OUT as in the font harness; this package writes TRACE_OUT.logo

import (
	"bufio"
	"encoding/json"
	"math/rand"
	"os"
	"sort"
	"strconv"
	"testing"
)

type xclLogo struct {
	W uint32 `json:"w"`
	H uint32 `json:"h"`
}

type xclCase struct {
	T     string    `json:"t"`
	Logos []xclLogo `json:"logos"`
	W     uint32    `json:"w"`
	H     uint32    `json:"h"`
}

type xclOut struct {
	enc *json.Encoder
	n   int
}

func (o *xclOut) emit(e map[string]interface{}) {
	o.enc.Encode(e)
	o.n++
	if o.n%100 == 0 {
		o.enc.Encode(map[string]string{"k": "reset"})
	}
}

func xclBuild(l []xclLogo) []*Image {
	out := make([]*Image, len(l))
	for i, x := range l {
		out[i] = &Image{Width: x.W, Height: x.H}
	}
	return out
}

func xclDescribe(l []*Image) []xclLogo {
	out := make([]xclLogo, len(l))
	for i, x := range l {
		out[i] = xclLogo{W: x.Width, H: x.Height}
	}
	return out
}

func xclPos(l []*Image, x *Image) int {
	if x == nil {
		return 0
	}
	for i, y := range l {
		if y == x {
			return i + 1
		}
	}
	return -1
}

func xclBest(o *xclOut, leg string, l []*Image, qs [][2]uint32) {
	q := make([][3]int64, len(qs))
	for i, d := range qs {
		q[i] = [3]int64{int64(d[0]), int64(d[1]), int64(xclPos(l, BestFit(d[0], d[1])))}
	}
	o.emit(map[string]interface{}{"k": "lbest", "leg": leg, "logos": xclDescribe(l), "q": q})
}

func TestVerifXclLogo(t *testing.T) {
	f, err := os.Create(os.Getenv("TRACE_OUT") + ".logo")
	if err != nil {
		t.Fatal(err)
	}
	defer f.Close()
	bw := bufio.NewWriterSize(f, 1<<20)
	defer bw.Flush()
	o := &xclOut{enc: json.NewEncoder(bw)}
	shipped := availableLogos
	defer func() { availableLogos = shipped }()

	if p := os.Getenv("XC_CASES"); p != "" {
		in, err := os.Open(p)
		if err != nil {
			t.Fatal(err)
		}
		sc := bufio.NewScanner(in)
		sc.Buffer(make([]byte, 1<<16), 1<<24)
		for sc.Scan() {
			var c xclCase
			if err := json.Unmarshal(sc.Bytes(), &c); err != nil {
				t.Fatalf("bad case: %v", err)
			}
			if c.T == "lbest" {
				availableLogos = xclBuild(c.Logos)
				xclBest(o, "G", availableLogos, [][2]uint32{{c.W, c.H}})
			}
		}
		in.Close()
	}

	seed, _ := strconv.ParseInt(os.Getenv("VERIF_SEED"), 10, 64)
	rng := rand.New(rand.NewSource(seed*104729 + 37))
	nrand, _ := strconv.Atoi(os.Getenv("XC_RANDOM"))
	for i := 0; i < nrand; i++ {
		n := rng.Intn(6)
		l := make([]xclLogo, n)
		for j := range l {
			l[j] = xclLogo{W: uint32(16 + rng.Intn(200)), H: uint32(8 * (1 + rng.Intn(32)))}
			if rng.Intn(6) == 0 {
				l[j].H = uint32(rng.Intn(300))
			}
		}
		availableLogos = xclBuild(l)
		var qs [][2]uint32
		for k := 0; k < 24; k++ {
			h := uint32(rng.Intn(3000))
			switch rng.Intn(4) {
			case 0: // thresholds next to a listed height and half way between two of them
				if n > 0 {
					h = (l[rng.Intn(n)].H+l[rng.Intn(n)].H)*5 + uint32(rng.Intn(21))
					if h >= 10 {
						h -= 10
					}
				}
			case 1:
				h = uint32(rng.Intn(1 << rng.Intn(30)))
			}
			qs = append(qs, [2]uint32{uint32(rng.Intn(4200)), h})
		}
		xclBest(o, "T", availableLogos, qs)
	}

	availableLogos = shipped
	step, _ := strconv.Atoi(os.Getenv("XC_STEP"))
	if step > 0 {
		set := map[uint32]bool{2304: true}
		for v := 0; v <= 2304; v += step {
			set[uint32(v)] = true
		}
		for _, a := range shipped {
			for _, b := range shipped {
				m := int64(a.Height+b.Height) * 5
				for d := int64(-11); d <= 11; d++ {
					if m+d >= 0 {
						set[uint32(m+d)] = true
					}
				}
			}
		}
		var hs []uint32
		for v := range set {
			hs = append(hs, v)
		}
		sort.Slice(hs, func(i, j int) bool { return hs[i] < hs[j] })
		for _, w := range []uint32{0, 47, 48, 94, 95, 96, 320, 640, 1024, 1920, 4096} {
			qs := make([][2]uint32, len(hs))
			for i, h := range hs {
				qs[i] = [2]uint32{w, h}
			}
			xclBest(o, "S", shipped, qs)
		}
	}
	o.enc.Encode(map[string]string{"k": "reset"})

	// ---- probe (documents Dev_LogoIgnoresFit on the real code; judged by the strict monitor)
	if os.Getenv("XC_PROBE") == "1" {
		xclBest(o, "P", shipped, [][2]uint32{{40, 30}})
		o.enc.Encode(map[string]string{"k": "reset"})
	}
}
