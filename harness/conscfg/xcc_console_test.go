//go:build verif
// +build verif

package console

// Conformance harness for extra-conscfg, statement S3 (SetLogo / SetFont /
// SetPaletteColor / Palette of the framebuffer console, SetPaletteColor of the
// text console).  It contains no oracle: it builds the REAL console over
// guarded host memory through the package's own seams (mapRegionFn,
// portWriteByteFn, DriverInit), puts the given (or seeded) content into the
// buffer, performs the calls of a script and logs per call: the arguments, the
// outcome (ok / panic), the DIFF of the buffer (one span per changed row), the
// number of changed guard bytes around it, the port writes, the palette
// entries that changed and Dimensions(Characters).  Construction over guarded
// memory and the diff projection follow harness/console/c19_trace_test.go.
// The events are judged by specs/conscfg/ConsCfgTrace.tla.
//
//   XC_DEC_CASES  ndjson file of cases (geometry + tables + scripts; leg G, probes, replay)
//   XC_RANDOM_CONS number of random real-scale cases (leg T), XC_NOPS calls per script
//   TRACE_OUT     event file prefix; this package writes TRACE_OUT.cons

import (
	"bufio"
	"encoding/json"
	"fmt"
	"image/color"
	"io"
	"math/rand"
	"os"
	"runtime/debug"
	"strconv"
	"syscall"
	"testing"
	"unsafe"

	"github.com/ProjectSerenity/firefly/kernel"
	"github.com/ProjectSerenity/firefly/kernel/device/video/console/font"
	"github.com/ProjectSerenity/firefly/kernel/device/video/console/logo"
	"github.com/ProjectSerenity/firefly/kernel/mm"
	"github.com/ProjectSerenity/firefly/kernel/mm/vmm"
	"github.com/ProjectSerenity/firefly/kernel/multiboot"
)

const (
	xccGuard    = 64
	xccPageSize = 4096
	xccMemPages = 96
)

type xccLogo struct {
	W     uint32     `json:"w"`
	H     uint32     `json:"h"`
	Align uint8      `json:"align"`
	Ti    uint8      `json:"ti"`
	Pal   [][4]uint8 `json:"pal"`
	DataI []int      `json:"data"`
	Best  [2]uint32  `json:"best"` // non-zero: use logo.BestFit(best) over the shipped list instead of the fields above
}

type xccFont struct {
	Gw   uint32 `json:"gw"`
	Gh   uint32 `json:"gh"`
	Bpr  uint32 `json:"bpr"`
	Fd   []int  `json:"fd"`
	Name string `json:"name"` // a shipped font (FindByName); fields above are then taken from it
}

// one call: {"op":"font","i":n} {"op":"logo","i":n} (n = 1-based table position, 0 = nil)
// {"op":"pal","idx":i,"c":[r,g,b,a]} {"op":"write","a":[ch,fg,bg,x,y]}
type xccOp struct {
	Op  string `json:"op"`
	I   int    `json:"i"`
	Idx int    `json:"idx"`
	C   [4]int `json:"c"`
	A   []int  `json:"a"`
}

type xccCase struct {
	ID      int       `json:"id"`
	Cons    string    `json:"cons"`
	W       uint32    `json:"w"`
	H       uint32    `json:"h"`
	Pitch   uint32    `json:"pitch"`
	Bpp     uint32    `json:"bpp"`
	Ci      [6]uint8  `json:"ci"`
	Rows    [][]int   `json:"rows"` // initial content; absent: seeded (random bytes, then pixel slots painted with palette colours)
	Seed    int64     `json:"seed"`
	Base    int       `json:"base"` // number of the first script (the seeded content of script i is drawn from seed + 7919*(base+i))
	Paint   []int     `json:"paint"` // palette indices used to paint the seeded content
	Logos   []xccLogo `json:"logos"`
	Fonts   []xccFont `json:"fonts"`
	Scripts [][]xccOp `json:"scripts"`
	Leg     string    `json:"leg"`
}

// ---------------------------------------------------------------- event writer

type xccOut struct {
	w *bufio.Writer
	b []byte
}

func (o *xccOut) str(k, v string) {
	o.b = append(o.b, '"')
	o.b = append(o.b, k...)
	o.b = append(o.b, `":"`...)
	o.b = append(o.b, v...)
	o.b = append(o.b, `",`...)
}
func (o *xccOut) num(k string, v int64) {
	o.key(k)
	o.b = strconv.AppendInt(o.b, v, 10)
	o.b = append(o.b, ',')
}
func (o *xccOut) boolean(k string, v bool) {
	o.key(k)
	o.b = strconv.AppendBool(o.b, v)
	o.b = append(o.b, ',')
}
func (o *xccOut) word(k string, v uint64) {
	o.key(k)
	o.b = append(o.b, '[')
	o.b = strconv.AppendUint(o.b, (v>>16)&0xffff, 10)
	o.b = append(o.b, ',')
	o.b = strconv.AppendUint(o.b, v&0xffff, 10)
	o.b = append(o.b, `],`...)
}
func (o *xccOut) key(k string) {
	o.b = append(o.b, '"')
	o.b = append(o.b, k...)
	o.b = append(o.b, `":`...)
}
func (o *xccOut) ints(vals []int) {
	o.b = append(o.b, '[')
	for i, v := range vals {
		if i > 0 {
			o.b = append(o.b, ',')
		}
		o.b = strconv.AppendInt(o.b, int64(v), 10)
	}
	o.b = append(o.b, ']')
}
func (o *xccOut) intsK(k string, vals []int) {
	o.key(k)
	o.ints(vals)
	o.b = append(o.b, ',')
}
func (o *xccOut) lists(k string, vals [][]int) {
	o.key(k)
	o.b = append(o.b, '[')
	for i, v := range vals {
		if i > 0 {
			o.b = append(o.b, ',')
		}
		o.ints(v)
	}
	o.b = append(o.b, `],`...)
}
func (o *xccOut) begin(kind string) { o.b = append(o.b[:0], '{'); o.str("k", kind) }
func (o *xccOut) end() {
	if o.b[len(o.b)-1] == ',' {
		o.b = o.b[:len(o.b)-1]
	}
	o.b = append(o.b, '}', '\n')
	o.w.Write(o.b)
}
func (o *xccOut) reset() { o.begin("reset"); o.end() }

// ---------------------------------------------------------------- machine

type xccMachine struct {
	mem   []byte // PROT_NONE page | RW pages ... | PROT_NONE page
	fbOff int
}

func xccNewMachine() *xccMachine {
	mem, err := syscall.Mmap(-1, 0, (xccMemPages+2)*xccPageSize, syscall.PROT_READ|syscall.PROT_WRITE, syscall.MAP_ANON|syscall.MAP_PRIVATE)
	if err != nil {
		panic(err)
	}
	syscall.Mprotect(mem[:xccPageSize], syscall.PROT_NONE)
	syscall.Mprotect(mem[(xccMemPages+1)*xccPageSize:], syscall.PROT_NONE)
	return &xccMachine{mem: mem, fbOff: 2 * xccPageSize}
}

type xccConsole struct {
	dev      Device
	fb       *VesaFbConsole
	elemSize int
	h, pitch int
	raw      []byte
	prev     []byte
	prevPal  [][]int
	ports    [][]int
}

func xccPalette(dev Device) [][]int {
	p := dev.Palette()
	out := make([][]int, len(p))
	for i, c := range p {
		if r, ok := c.(color.RGBA); ok {
			out[i] = []int{int(r.R), int(r.G), int(r.B), int(r.A)}
		} else {
			out[i] = []int{-1, -1, -1, -1}
		}
	}
	return out
}

// setup builds the console of a case through the driver's own initialisation path, installs the content and logs the init event.
func (m *xccMachine) setup(c *xccCase, script int, out *xccOut) *xccConsole {
	addr := uintptr(unsafe.Pointer(&m.mem[m.fbOff]))
	var mapped uintptr
	rc := &xccConsole{}
	mapRegionFn = func(_ mm.Frame, size uintptr, _ vmm.PageTableEntryFlag) (mm.Page, *kernel.Error) {
		mapped = size
		return mm.PageFromAddress(addr), nil
	}
	portWriteByteFn = func(port uint16, val uint8) { rc.ports = append(rc.ports, []int{int(port), int(val)}) }
	var size int
	if c.Cons == "vga" {
		cons := NewVgaTextConsole(c.W, c.H, 0xb8000)
		if err := cons.DriverInit(io.Discard); err != nil {
			panic(err.Message)
		}
		rc.dev, rc.elemSize, rc.h, rc.pitch = cons, 2, int(c.H), int(c.W)
		size = int(c.W*c.H) * 2
	} else {
		ci := &multiboot.FramebufferRGBColorInfo{RedPosition: c.Ci[0], RedMaskSize: c.Ci[1], GreenPosition: c.Ci[2],
			GreenMaskSize: c.Ci[3], BluePosition: c.Ci[4], BlueMaskSize: c.Ci[5]}
		cons := NewVesaFbConsole(c.W, c.H, uint8(c.Bpp), c.Pitch, ci, 0xfd000000)
		if err := cons.DriverInit(io.Discard); err != nil {
			panic(err.Message)
		}
		rc.dev, rc.fb, rc.elemSize, rc.h, rc.pitch = cons, cons, 1, int(c.H), int(c.Pitch)
		size = int(c.H * c.Pitch)
	}
	if int(mapped) != size || size+xccGuard > (xccMemPages-1)*xccPageSize {
		panic(fmt.Sprintf("framebuffer size: mapped %d, expected %d", mapped, size))
	}
	rc.raw = m.mem[m.fbOff-xccGuard : m.fbOff+size+xccGuard]
	rng := rand.New(rand.NewSource(c.Seed + 7919*int64(script)))
	rng.Read(rc.raw)
	if c.Rows != nil {
		for r := 0; r < rc.h; r++ {
			for i := 0; i < rc.pitch; i++ {
				v := c.Rows[r][i]
				o := xccGuard + (r*rc.pitch+i)*rc.elemSize
				rc.raw[o] = byte(v)
				if rc.elemSize == 2 {
					rc.raw[o+1] = byte(v >> 8)
				}
			}
		}
	} else if rc.fb != nil && len(c.Paint) > 0 {
		// paint most pixel-sized slots (padding included) with the stored form of a few palette colours: what the
		// driver itself would have stored for them (input construction; the content is logged as it is)
		B := int(rc.fb.bytesPerPixel)
		for r := 0; r < rc.h; r++ {
			for p := 0; p+B <= rc.pitch; p += B {
				if rng.Intn(8) == 0 {
					continue
				}
				idx := uint8(c.Paint[rng.Intn(len(c.Paint))])
				o := xccGuard + r*rc.pitch + p
				switch c.Bpp {
				case 8:
					rc.raw[o] = idx
				case 15, 16:
					comp := rc.fb.packColor16(idx)
					copy(rc.raw[o:], comp[:])
				default:
					comp := rc.fb.packColor32(idx)
					copy(rc.raw[o:], comp[:B])
					if B == 4 && rng.Intn(6) == 0 { // same colour bytes, different top byte
						rc.raw[o+3] = byte(rng.Intn(256))
					}
					if rng.Intn(5) == 0 { // set some of the low bits of colour fields wider than 8 bits
						var slack uint32
						for f := 0; f < 3; f++ {
							if pos, size := uint32(c.Ci[2*f]), uint32(c.Ci[2*f+1]); size > 8 {
								slack |= ((1 << (size - 8)) - 1) << pos
							}
						}
						slack &= rng.Uint32()
						for k := 0; k < B; k++ {
							rc.raw[o+k] |= byte(slack >> (8 * uint(k)))
						}
					}
				}
			}
		}
	}
	rc.prev = append([]byte{}, rc.raw...)
	rc.prevPal = xccPalette(rc.dev)

	cols, nrows := rc.dev.Dimensions(Characters)
	pw, ph := rc.dev.Dimensions(Pixels)
	_, capFont := rc.dev.(FontSetter)
	_, capLogo := rc.dev.(LogoSetter)
	out.begin("init")
	out.str("cons", c.Cons)
	out.str("leg", c.Leg)
	out.num("id", int64(c.ID))
	out.num("script", int64(script))
	out.num("w", int64(c.W))
	out.num("h", int64(c.H))
	out.num("cols", int64(cols))
	out.num("nrows", int64(nrows))
	out.intsK("px", []int{int(pw), int(ph)})
	out.boolean("capfont", capFont)
	out.boolean("caplogo", capLogo)
	if c.Cons == "vga" {
		out.num("pitch", int64(c.W))
		out.num("bpp", 0)
		out.intsK("ci", []int{0, 0, 0, 0, 0, 0})
	} else {
		out.num("pitch", int64(c.Pitch))
		out.num("bpp", int64(c.Bpp))
		out.intsK("ci", []int{int(c.Ci[0]), int(c.Ci[1]), int(c.Ci[2]), int(c.Ci[3]), int(c.Ci[4]), int(c.Ci[5])})
	}
	out.lists("pal", rc.prevPal)
	out.lists("ports", rc.ports)
	rc.ports = rc.ports[:0]
	rc.rows(out)
	out.end()
	return rc
}

func (rc *xccConsole) elem(img []byte, r, i int) int {
	o := xccGuard + (r*rc.pitch+i)*rc.elemSize
	if rc.elemSize == 1 {
		return int(img[o])
	}
	return int(img[o]) | int(img[o+1])<<8
}

func (rc *xccConsole) rows(out *xccOut) {
	out.key("rows")
	out.b = append(out.b, '[')
	row := make([]int, rc.pitch)
	for r := 0; r < rc.h; r++ {
		if r > 0 {
			out.b = append(out.b, ',')
		}
		for i := range row {
			row[i] = rc.elem(rc.raw, r, i)
		}
		out.ints(row)
	}
	out.b = append(out.b, `],`...)
}

// observe appends d, guard, ports, pd, cols, nrows and brings the snapshots up to date
func (rc *xccConsole) observe(out *xccOut) {
	out.key("d")
	out.b = append(out.b, '[')
	first := true
	for r := 0; r < rc.h; r++ {
		lo, hi := -1, -1
		for i := 0; i < rc.pitch; i++ {
			if rc.elem(rc.raw, r, i) != rc.elem(rc.prev, r, i) {
				if lo < 0 {
					lo = i
				}
				hi = i
			}
		}
		if lo < 0 {
			continue
		}
		if !first {
			out.b = append(out.b, ',')
		}
		first = false
		out.b = append(out.b, '[')
		out.b = strconv.AppendInt(out.b, int64(r), 10)
		out.b = append(out.b, ',')
		out.b = strconv.AppendInt(out.b, int64(lo), 10)
		out.b = append(out.b, ',')
		vals := make([]int, hi-lo+1)
		for i := range vals {
			vals[i] = rc.elem(rc.raw, r, lo+i)
		}
		out.ints(vals)
		out.b = append(out.b, ']')
	}
	out.b = append(out.b, `],`...)
	g := 0
	n := len(rc.raw)
	for i := 0; i < xccGuard; i++ {
		if rc.raw[i] != rc.prev[i] {
			g++
		}
		if rc.raw[n-1-i] != rc.prev[n-1-i] {
			g++
		}
	}
	out.num("guard", int64(g))
	copy(rc.prev, rc.raw)
	out.lists("ports", rc.ports)
	rc.ports = rc.ports[:0]
	now := xccPalette(rc.dev)
	var pd [][]int
	for i := range now {
		if i >= len(rc.prevPal) {
			pd = append(pd, []int{i, -2, -2, -2, -2})
			continue
		}
		for k := 0; k < 4; k++ {
			if now[i][k] != rc.prevPal[i][k] {
				pd = append(pd, append([]int{i}, now[i]...))
				break
			}
		}
	}
	rc.prevPal = now
	out.lists("pd", pd)
	cols, nrows := rc.dev.Dimensions(Characters)
	out.num("cols", int64(cols))
	out.num("nrows", int64(nrows))
}

func xccGuarded(f func()) (res string) {
	defer func() {
		if e := recover(); e != nil {
			res = "panic"
		}
	}()
	f()
	return "ok"
}

// resolve the tables of a case into real objects
func xccObjects(c *xccCase) ([]*logo.Image, []*font.Font) {
	logos := make([]*logo.Image, len(c.Logos))
	for i := range c.Logos {
		l := &c.Logos[i]
		if l.Best != [2]uint32{} {
			logos[i] = logo.BestFit(l.Best[0], l.Best[1])
			continue
		}
		img := &logo.Image{Width: l.W, Height: l.H, Align: logo.Alignment(l.Align), TransparentIndex: l.Ti}
		for _, p := range l.Pal {
			img.Palette = append(img.Palette, color.RGBA{R: p[0], G: p[1], B: p[2], A: p[3]})
		}
		img.Data = make([]uint8, len(l.DataI))
		for j, v := range l.DataI {
			img.Data[j] = uint8(v)
		}
		logos[i] = img
	}
	fonts := make([]*font.Font, len(c.Fonts))
	for i := range c.Fonts {
		f := &c.Fonts[i]
		if f.Name != "" {
			fonts[i] = font.FindByName(f.Name)
			if fonts[i] == nil {
				panic("unknown shipped font " + f.Name)
			}
			continue
		}
		d := make([]byte, len(f.Fd))
		for j, v := range f.Fd {
			d[j] = byte(v)
		}
		fonts[i] = &font.Font{Name: "synthetic", GlyphWidth: f.Gw, GlyphHeight: f.Gh, BytesPerRow: f.Bpr, Data: d}
	}
	return logos, fonts
}

func (m *xccMachine) runCase(c *xccCase, out *xccOut) {
	logos, fonts := xccObjects(c)
	for si, script := range c.Scripts {
		rc := m.setup(c, c.Base+si, out)
		lastWrite := -1
		for i, op := range script {
			if op.Op == "write" {
				lastWrite = i
			}
		}
		ok := true
		for i, op := range script {
			var res string
			switch op.Op {
			case "font":
				out.begin("setfont")
				var f *font.Font
				if op.I > 0 {
					f = fonts[op.I-1]
				}
				out.boolean("nil", f == nil)
				if f != nil {
					out.num("gw", int64(f.GlyphWidth))
					out.num("gh", int64(f.GlyphHeight))
					out.num("bpr", int64(f.BytesPerRow))
					if i < lastWrite {
						fd := make([]int, len(f.Data))
						for j, b := range f.Data {
							fd[j] = int(b)
						}
						out.intsK("fd", fd)
					}
				}
				res = xccGuarded(func() { rc.dev.(FontSetter).SetFont(f) })
			case "logo":
				out.begin("setlogo")
				var l *logo.Image
				if op.I > 0 {
					l = logos[op.I-1]
				}
				out.boolean("nil", l == nil)
				if l != nil {
					out.key("l")
					out.b = append(out.b, '{')
					out.num("w", int64(l.Width))
					out.num("h", int64(l.Height))
					out.num("align", int64(l.Align))
					out.num("ti", int64(l.TransparentIndex))
					pal := make([][]int, len(l.Palette))
					for j, p := range l.Palette {
						pal[j] = []int{int(p.R), int(p.G), int(p.B), int(p.A)}
					}
					out.lists("pal", pal)
					data := make([]int, len(l.Data))
					for j, v := range l.Data {
						data[j] = int(v)
					}
					out.key("data")
					out.ints(data)
					out.b = append(out.b, `},`...)
				}
				res = xccGuarded(func() { rc.dev.(LogoSetter).SetLogo(l) })
			case "pal":
				out.begin("setpal")
				out.num("idx", int64(op.Idx))
				out.intsK("c", op.C[:])
				res = xccGuarded(func() {
					rc.dev.SetPaletteColor(uint8(op.Idx), color.RGBA{R: uint8(op.C[0]), G: uint8(op.C[1]), B: uint8(op.C[2]), A: uint8(op.C[3])})
				})
			case "write":
				out.begin("write")
				out.num("ch", int64(op.A[0]))
				out.num("fg", int64(op.A[1]))
				out.num("bg", int64(op.A[2]))
				out.word("x", uint64(op.A[3]))
				out.word("y", uint64(op.A[4]))
				res = xccGuarded(func() { rc.dev.Write(byte(op.A[0]), uint8(op.A[1]), uint8(op.A[2]), uint32(op.A[3]), uint32(op.A[4])) })
			default:
				panic("unknown op " + op.Op)
			}
			out.str("res", res)
			rc.observe(out)
			out.end()
			if res != "ok" {
				ok = false
				break
			}
		}
		if ok && rc.h*rc.pitch <= 4000 {
			out.begin("chk")
			rc.rows(out)
			out.end()
		}
		out.reset()
	}
}

// ---------------------------------------------------------------- random cases (leg T)

var xccLayouts = map[uint32][][6]uint8{
	8:  {{0, 0, 0, 0, 0, 0}},
	15: {{10, 5, 5, 5, 0, 5}, {0, 5, 5, 5, 10, 5}},
	16: {{11, 5, 5, 6, 0, 5}, {0, 5, 5, 6, 11, 5}, {8, 4, 4, 4, 0, 4}},
	24: {{16, 8, 8, 8, 0, 8}, {0, 8, 8, 8, 16, 8}, {18, 6, 10, 6, 2, 6}, {14, 9, 5, 9, 0, 5}},
	32: {{16, 8, 8, 8, 0, 8}, {24, 8, 16, 8, 8, 8}, {8, 8, 16, 8, 24, 8}, {21, 7, 11, 6, 2, 5}, {20, 10, 10, 10, 0, 10}},
}

func xccRandomCase(id int, rng *rand.Rand, nScripts, nOps int) *xccCase {
	c := &xccCase{ID: id, Seed: rng.Int63n(1 << 40), Leg: "T"}
	if rng.Intn(6) == 0 {
		c.Cons = "vga"
		c.W, c.H = uint32(1+rng.Intn(80)), uint32(1+rng.Intn(25))
		if rng.Intn(2) == 0 {
			c.W, c.H = 80, 25
		}
		c.Pitch = c.W
		for s := 0; s < nScripts; s++ {
			var sc []xccOp
			for i := 0; i < nOps; i++ {
				idx := rng.Intn(16)
				if rng.Intn(5) == 0 {
					idx = 16 + rng.Intn(240)
				}
				sc = append(sc, xccOp{Op: "pal", Idx: idx, C: [4]int{rng.Intn(256), rng.Intn(256), rng.Intn(256), rng.Intn(2) * 255}})
			}
			c.Scripts = append(c.Scripts, sc)
		}
		return c
	}
	c.Cons = "fb"
	c.Bpp = []uint32{8, 15, 16, 24, 32}[rng.Intn(5)]
	ls := xccLayouts[c.Bpp]
	c.Ci = ls[rng.Intn(len(ls))]
	B := (c.Bpp + 1) >> 3
	// fonts: the shipped ones and a synthetic one
	c.Fonts = []xccFont{{Name: "terminus8x16"}, {Name: "terminus10x18"}, {Name: "terminus14x28"}}
	gw, gh := uint32(3+rng.Intn(12)), uint32(2+rng.Intn(6))
	sf := xccFont{Gw: gw, Gh: gh, Bpr: (gw + 7) / 8}
	sf.Fd = make([]int, 256*sf.Bpr*gh)
	for i := range sf.Fd {
		sf.Fd[i] = rng.Intn(256)
	}
	c.Fonts = append(c.Fonts, sf)
	c.W = uint32(16 + rng.Intn(55))
	c.H = uint32(20 + rng.Intn(41))
	c.Pitch = c.W*B + B*uint32(rng.Intn(6)) // pixel-aligned padding only (Dev_ReplaceLinearScan keeps the other pitches out)
	// logos that fit: palettes of 1..12 colours, transparent index inside or outside the palette
	for i := 0; i < 3; i++ {
		l := xccLogo{W: uint32(1 + rng.Intn(int(c.W))), H: uint32(1 + rng.Intn(int(c.H)/2)), Align: uint8(rng.Intn(3))}
		if i == 2 && rng.Intn(2) == 0 {
			l.W = c.W
		}
		np := 1 + rng.Intn(12)
		for j := 0; j < np; j++ {
			l.Pal = append(l.Pal, [4]uint8{uint8(rng.Intn(256)), uint8(rng.Intn(256)), uint8(rng.Intn(256)), uint8(rng.Intn(2) * 255)})
		}
		l.Ti = uint8(rng.Intn(np + 1))
		l.DataI = make([]int, l.W*l.H)
		for j := range l.DataI {
			l.DataI[j] = rng.Intn(np)
			if rng.Intn(200) == 0 {
				l.DataI[j] = rng.Intn(256) // an index outside the logo palette
			}
		}
		c.Logos = append(c.Logos, l)
	}
	c.Paint = []int{0, 7, 1 + rng.Intn(15), 1 + rng.Intn(15), 16 + rng.Intn(240), 255}
	for s := 0; s < nScripts; s++ {
		var sc []xccOp
		logoDone, fontOK := false, false
		var cols, rows, offY uint32
		for i := 0; i < nOps; i++ {
			switch r := rng.Intn(10); {
			case r == 0 && !logoDone:
				li := 1 + rng.Intn(len(c.Logos))
				sc = append(sc, xccOp{Op: "logo", I: li})
				logoDone, fontOK, offY = true, false, c.Logos[li-1].H
			case r == 0:
				sc = append(sc, xccOp{Op: "logo", I: 0})
			case r == 1 || r == 2:
				fi := rng.Intn(len(c.Fonts) + 1)
				sc = append(sc, xccOp{Op: "font", I: fi})
				if fi > 0 {
					g := [][2]uint32{{8, 16}, {10, 18}, {14, 28}, {gw, gh}}[fi-1]
					cols, rows, fontOK = c.W/g[0], (c.H-offY)/g[1], true
				}
			case r == 3 && fontOK && cols > 0 && rows > 0:
				sc = append(sc, xccOp{Op: "write", A: []int{rng.Intn(256), c.Paint[rng.Intn(len(c.Paint))], c.Paint[rng.Intn(len(c.Paint))],
					1 + rng.Intn(int(cols)), 1 + rng.Intn(int(rows))}})
			default:
				idx := c.Paint[rng.Intn(len(c.Paint))]
				if rng.Intn(6) == 0 {
					idx = rng.Intn(256)
				}
				col := [4]int{rng.Intn(256), rng.Intn(256), rng.Intn(256), rng.Intn(2) * 255}
				switch rng.Intn(6) {
				case 0: // a colour that another painted entry may hold already (collisions)
					col = [4]int{0, 0, 0, 0}
				case 1:
					col = [4]int{128, 128, 128, 0}
				case 2: // differs from a frequent colour in the low bits only (same packed value on shallow depths)
					col = [4]int{128 + rng.Intn(4), 128 + rng.Intn(4), 128 + rng.Intn(4), 0}
				}
				sc = append(sc, xccOp{Op: "pal", Idx: idx, C: col})
			}
		}
		c.Scripts = append(c.Scripts, sc)
	}
	return c
}

// ---------------------------------------------------------------- entry point

func TestVerifXccConsole(t *testing.T) {
	debug.SetPanicOnFault(true)
	f, err := os.Create(os.Getenv("TRACE_OUT") + ".cons")
	if err != nil {
		t.Fatal(err)
	}
	defer f.Close()
	out := &xccOut{w: bufio.NewWriterSize(f, 1<<20)}
	defer out.w.Flush()
	m := xccNewMachine()

	if p := os.Getenv("XC_DEC_CASES"); p != "" {
		in, err := os.Open(p)
		if err != nil {
			t.Fatal(err)
		}
		sc := bufio.NewScanner(in)
		sc.Buffer(make([]byte, 1<<20), 1<<28)
		for sc.Scan() {
			if len(sc.Bytes()) == 0 {
				continue
			}
			c := &xccCase{}
			if err := json.Unmarshal(sc.Bytes(), c); err != nil {
				t.Fatalf("bad case line: %v", err)
			}
			m.runCase(c, out)
		}
		in.Close()
	}

	seed, _ := strconv.ParseInt(os.Getenv("VERIF_SEED"), 10, 64)
	rng := rand.New(rand.NewSource(seed*104729 + 43))
	nrand, _ := strconv.Atoi(os.Getenv("XC_RANDOM_CONS"))
	nops, _ := strconv.Atoi(os.Getenv("XC_NOPS"))
	if nops == 0 {
		nops = 25
	}
	casesOut := os.Getenv("TRACE_OUT") + ".cons.cases"
	var cf *os.File
	if nrand > 0 {
		cf, _ = os.Create(casesOut)
		defer cf.Close()
	}
	for i := 0; i < nrand; i++ {
		c := xccRandomCase(1000+i, rng, 2, nops)
		if cf != nil { // the exact inputs, for replay files
			b, _ := json.Marshal(c)
			cf.Write(append(b, '\n'))
		}
		m.runCase(c, out)
	}
}
