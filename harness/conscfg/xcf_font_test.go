//go:build verif
// +build verif

package font

// Conformance harness for extra-conscfg, statement S1 (font selection).  No
// oracle: it installs a font list (synthetic, or the shipped one), calls the
// REAL FindByName / BestFit and logs the list, the queries and the position of
// the returned font in the list (pointer identity; 0 = nil, -1 = a font that
// is not in the list).  The events are judged by specs/conscfg/ConsCfgTrace.tla.
//
//   XC_CASES    ndjson file of cases emitted by TLC (t = fbest | fname are replayed here)
//   XC_RANDOM   number of random lists (leg T)
//   XC_STEP     resolution step of the sweep over the shipped list (0 = no sweep)
//   XC_PROBE=1  also log the documented deviation probe (leg P)
//   TRACE_OUT   event file prefix; this package writes TRACE_OUT.font

import (
	"bufio"
	"encoding/json"
	"math/rand"
	"os"
	"sort"
	"strconv"
	"testing"
)

type xcfFont struct {
	Name string `json:"name"`
	Rw   uint32 `json:"rw"`
	Rh   uint32 `json:"rh"`
	Prio uint32 `json:"prio"`
	Gw   uint32 `json:"gw"`
	Gh   uint32 `json:"gh"`
}

type xcfCase struct {
	T     string    `json:"t"`
	Fonts []xcfFont `json:"fonts"`
	W     uint32    `json:"w"`
	H     uint32    `json:"h"`
	Name  string    `json:"name"`
}

type xcfOut struct {
	enc *json.Encoder
	n   int
}

func (o *xcfOut) emit(e map[string]interface{}) {
	o.enc.Encode(e)
	o.n++
	if o.n%100 == 0 {
		o.enc.Encode(map[string]string{"k": "reset"})
	}
}

func xcfBuild(l []xcfFont) []*Font {
	out := make([]*Font, len(l))
	for i, f := range l {
		out[i] = &Font{Name: f.Name, RecommendedWidth: f.Rw, RecommendedHeight: f.Rh, Priority: f.Prio, GlyphWidth: f.Gw, GlyphHeight: f.Gh}
	}
	return out
}

func xcfDescribe(l []*Font) []xcfFont {
	out := make([]xcfFont, len(l))
	for i, f := range l {
		out[i] = xcfFont{Name: f.Name, Rw: f.RecommendedWidth, Rh: f.RecommendedHeight, Prio: f.Priority, Gw: f.GlyphWidth, Gh: f.GlyphHeight}
	}
	return out
}

func xcfPos(l []*Font, f *Font) int {
	if f == nil {
		return 0
	}
	for i, x := range l {
		if x == f {
			return i + 1
		}
	}
	return -1
}

func xcfBest(o *xcfOut, leg string, l []*Font, qs [][2]uint32) {
	q := make([][3]int64, len(qs))
	for i, d := range qs {
		q[i] = [3]int64{int64(d[0]), int64(d[1]), int64(xcfPos(l, BestFit(d[0], d[1])))}
	}
	o.emit(map[string]interface{}{"k": "fbest", "leg": leg, "fonts": xcfDescribe(l), "q": q})
}

func xcfName(o *xcfOut, leg string, l []*Font, names []string) {
	q := make([][2]interface{}, len(names))
	for i, n := range names {
		q[i] = [2]interface{}{n, xcfPos(l, FindByName(n))}
	}
	o.emit(map[string]interface{}{"k": "fname", "leg": leg, "fonts": xcfDescribe(l), "q": q})
}

func TestVerifXcfFont(t *testing.T) {
	f, err := os.Create(os.Getenv("TRACE_OUT") + ".font")
	if err != nil {
		t.Fatal(err)
	}
	defer f.Close()
	bw := bufio.NewWriterSize(f, 1<<20)
	defer bw.Flush()
	o := &xcfOut{enc: json.NewEncoder(bw)}
	shipped := availableFonts
	defer func() { availableFonts = shipped }()

	// ---- leg G: cases emitted by TLC
	if p := os.Getenv("XC_CASES"); p != "" {
		in, err := os.Open(p)
		if err != nil {
			t.Fatal(err)
		}
		sc := bufio.NewScanner(in)
		sc.Buffer(make([]byte, 1<<16), 1<<24)
		for sc.Scan() {
			var c xcfCase
			if err := json.Unmarshal(sc.Bytes(), &c); err != nil {
				t.Fatalf("bad case: %v", err)
			}
			switch c.T {
			case "fbest":
				availableFonts = xcfBuild(c.Fonts)
				xcfBest(o, "G", availableFonts, [][2]uint32{{c.W, c.H}})
			case "fname":
				availableFonts = xcfBuild(c.Fonts)
				xcfName(o, "G", availableFonts, []string{c.Name})
			}
		}
		in.Close()
	}

	// ---- leg T: random lists at real scale
	seed, _ := strconv.ParseInt(os.Getenv("VERIF_SEED"), 10, 64)
	rng := rand.New(rand.NewSource(seed*104729 + 31))
	nrand, _ := strconv.Atoi(os.Getenv("XC_RANDOM"))
	ws := []uint32{0, 320, 640, 800, 1024, 1280, 1920, 1980, 2560, 3840}
	hs := []uint32{0, 200, 400, 480, 600, 768, 1024, 1080, 1600, 2160}
	names := []string{"terminus8x16", "terminus10x18", "Terminus8x16", "terminus8x1", "terminus8x16 ", "", "vga", "a"}
	for i := 0; i < nrand; i++ {
		n := rng.Intn(7)
		l := make([]xcfFont, n)
		for j := range l {
			l[j] = xcfFont{Name: names[rng.Intn(len(names))], Rw: ws[rng.Intn(len(ws))], Rh: hs[rng.Intn(len(hs))], Prio: uint32(rng.Intn(3)),
				Gw: uint32(6 + rng.Intn(10)), Gh: uint32(8 + rng.Intn(24))}
			if rng.Intn(8) == 0 {
				l[j].Rw, l[j].Rh = uint32(rng.Intn(5000)), uint32(rng.Intn(3000))
			}
		}
		availableFonts = xcfBuild(l)
		var qs [][2]uint32
		for k := 0; k < 24; k++ {
			var w, h uint32
			switch rng.Intn(4) {
			case 0: // exactly a recommended size, or next to it
				w, h = ws[rng.Intn(len(ws))]+uint32(rng.Intn(3)), hs[rng.Intn(len(hs))]+uint32(rng.Intn(3))
			case 1: // half way between two recommended sizes (ties)
				w = (ws[rng.Intn(len(ws))] + ws[rng.Intn(len(ws))]) / 2
				h = (hs[rng.Intn(len(hs))] + hs[rng.Intn(len(hs))]) / 2
			case 2:
				w, h = uint32(rng.Intn(1<<rng.Intn(30))), uint32(rng.Intn(1<<rng.Intn(30)))
			default:
				w, h = uint32(rng.Intn(4200)), uint32(rng.Intn(2400))
			}
			qs = append(qs, [2]uint32{w, h})
		}
		xcfBest(o, "T", availableFonts, qs)
		xcfName(o, "T", availableFonts, names)
	}

	// ---- the shipped list over all resolutions up to 4096x2304 in steps, plus boundary values
	availableFonts = shipped
	step, _ := strconv.Atoi(os.Getenv("XC_STEP"))
	if step > 0 {
		axis := func(max int, rec func(*Font) uint32) []uint32 {
			set := map[uint32]bool{}
			for v := 0; v <= max; v += step {
				set[uint32(v)] = true
			}
			for _, a := range shipped {
				for _, b := range shipped {
					m := (int64(rec(a)) + int64(rec(b))) / 2
					for d := int64(-2); d <= 2; d++ {
						if m+d >= 0 {
							set[uint32(m+d)] = true
						}
					}
				}
			}
			set[uint32(max)] = true
			var out []uint32
			for v := range set {
				out = append(out, v)
			}
			sort.Slice(out, func(i, j int) bool { return out[i] < out[j] })
			return out
		}
		wsx := axis(4096, func(f *Font) uint32 { return f.RecommendedWidth })
		hsx := axis(2304, func(f *Font) uint32 { return f.RecommendedHeight })
		for _, w := range wsx {
			qs := make([][2]uint32, len(hsx))
			for i, h := range hsx {
				qs[i] = [2]uint32{w, h}
			}
			xcfBest(o, "S", shipped, qs)
		}
		var sn []string
		for _, f := range shipped {
			sn = append(sn, f.Name, f.Name+"x", f.Name[:len(f.Name)-1])
		}
		sn = append(sn, "", "terminus", "TERMINUS8X16")
		xcfName(o, "S", shipped, sn)
	}
	o.enc.Encode(map[string]string{"k": "reset"})

	// ---- probe (documents Dev_FontPriorityGate on the real code; judged by the strict monitor)
	if os.Getenv("XC_PROBE") == "1" {
		availableFonts = xcfBuild([]xcfFont{{Name: "default", Rw: 800, Rh: 600, Prio: 0, Gw: 8, Gh: 16}, {Name: "exact", Rw: 1024, Rh: 768, Prio: 1, Gw: 8, Gh: 16}})
		xcfBest(o, "P", availableFonts, [][2]uint32{{1024, 768}})
		o.enc.Encode(map[string]string{"k": "reset"})
	}
}
