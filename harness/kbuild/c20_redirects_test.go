//go:build verif
// +build verif

package main

// Conformance harness for C20 (redirect discovery of the kernel build tool).
// It contains no oracle.  It
//   - turns an abstract source tree (files -> declarations -> comment lines, as
//     emitted by TLC from specs/kbuild/RedirectsModel.tla or drawn by the seeded
//     generator below) into Go source text in a scratch directory (encoder),
//   - describes the repository's real kernel tree in the same abstract form with
//     a line scanner that does not use go/parser (decoder),
//   - runs the REAL Context.FindRedirects on the tree, several times in this
//     process and in child processes, and
//   - logs the abstract tree and every resulting table as ndjson events.
// The events are judged by the TLA+ monitor specs/kbuild/RedirectsTrace.tla.
//
// env: CASES (ndjson of trees, optional) -> TRACE_G ; NTREES random trees and,
// with C20_REAL=1, the real kernel tree -> TRACE_T ; C20_RUNS in-process builds
// per tree, C20_CHILDREN child-process builds per tree.

import (
	"bufio"
	"encoding/json"
	"fmt"
	"hash/fnv"
	"io/ioutil"
	"math/rand"
	"os"
	"os/exec"
	"path/filepath"
	"sort"
	"strconv"
	"strings"
	"testing"
	"time"
)

// c20Line is one abstract comment line, logged as [type, symbol] or [type, symbol, n]:
// n > 0 means the line is rendered exactly n bytes long (sizes are logged as numbers, never as content).
type c20Line struct {
	T, Sym string
	N      int
}

func (l c20Line) MarshalJSON() ([]byte, error) {
	if l.N > 0 {
		return json.Marshal([]interface{}{l.T, l.Sym, l.N})
	}
	return json.Marshal([]string{l.T, l.Sym})
}

func (l *c20Line) UnmarshalJSON(b []byte) error {
	var a []interface{}
	if err := json.Unmarshal(b, &a); err != nil {
		return err
	}
	if len(a) < 2 {
		return fmt.Errorf("bad comment line %s", b)
	}
	l.T, _ = a[0].(string)
	l.Sym, _ = a[1].(string)
	l.N = 0
	if len(a) > 2 {
		if f, ok := a[2].(float64); ok {
			l.N = int(f)
		}
	}
	return nil
}

func c20Pad(prefix, suffix string, n int) string {
	k := n - len(prefix) - len(suffix)
	if k < 0 {
		k = 0
	}
	return prefix + strings.Repeat("x", k) + suffix
}

type c20Decl struct {
	Kind string    `json:"kind"`
	Name string    `json:"name"`
	Recv string    `json:"recv"` // methods: "(*T)" or "T"
	Doc  []c20Line `json:"doc"`
	Body []c20Line `json:"body"`
	Tl   []c20Line `json:"tl"`
	Ta   []c20Line `json:"ta"`
	Wide int       `json:"wide"` // var/const only: the declaration is one line of this many bytes (a string literal)
}

type c20File struct {
	Dir   []string  `json:"dir"`
	Name  string    `json:"name"`
	Ext   string    `json:"ext"`
	Pkg   string    `json:"pkg"`
	Hdr   []c20Line `json:"hdr"`
	Imp   []c20Line `json:"imp"` // comment lines on top of the import declaration (none: no import declaration)
	Text  c20Text   `json:"text"`
	Decls []c20Decl `json:"decls"`
}

// c20Text: how the text is stored - line ends, byte-order mark, missing newline at the end of the file.
type c20Text struct {
	Eol  string `json:"eol"`
	Bom  int    `json:"bom"`
	Nonl int    `json:"nonl"`
}

type c20Case struct {
	Files []c20File `json:"files"`
	Real  bool      `json:"real,omitempty"`
	Runs  int       `json:"runs,omitempty"` // in-process builds of this tree (default: C20_RUNS)
}

type c20Result struct {
	Res string      `json:"res"`
	Msg string      `json:"msg,omitempty"`
	Out [][2]string `json:"out"`
}

func c20NN(l []c20Line) []c20Line {
	if l == nil {
		return []c20Line{}
	}
	return l
}

// c20Normalise makes sure empty sequences are logged as [] (never null).
func c20Normalise(c *c20Case) {
	if c.Files == nil {
		c.Files = []c20File{}
	}
	for i := range c.Files {
		f := &c.Files[i]
		if f.Dir == nil {
			f.Dir = []string{}
		}
		f.Hdr = c20NN(f.Hdr)
		f.Imp = c20NN(f.Imp)
		if f.Text.Eol == "" {
			f.Text.Eol = "lf"
		}
		if f.Decls == nil {
			f.Decls = []c20Decl{}
		}
		for j := range f.Decls {
			d := &f.Decls[j]
			d.Doc, d.Body, d.Tl, d.Ta = c20NN(d.Doc), c20NN(d.Body), c20NN(d.Tl), c20NN(d.Ta)
		}
	}
}

// ---------------------------------------------------------------- encoder: abstract tree -> source text

func c20Variant(sym string) int {
	h := fnv.New32a()
	h.Write([]byte(sym))
	return int(h.Sum32() % 6)
}

// c20Comment renders one abstract comment line (possibly as several physical lines).
func c20Comment(ln c20Line, name, indent string, sameLine bool) []string {
	t, sym := ln.T, ln.Sym
	if ln.N > 0 && t == "K" { // one long /* */ line that contains the annotation text
		return []string{c20Pad(indent+"/* ", " //go:redirect-from "+sym+" */", ln.N)}
	}
	if ln.N > 0 && t == "T" { // one long // line
		return []string{c20Pad(indent+"// "+name+" is described here. ", "", ln.N)}
	}
	switch t {
	case "R":
		switch c20Variant(sym) {
		case 3:
			return []string{indent + "//go:redirect-from  " + sym}
		case 4:
			return []string{indent + "//go:redirect-from\t" + sym}
		case 5:
			return []string{indent + "//go:redirect-from " + sym + "  "}
		}
		return []string{indent + "//go:redirect-from " + sym}
	case "D":
		switch c20Variant(name + sym) {
		case 0:
			return []string{indent + "//go:nosplit"}
		case 1:
			return []string{indent + "//go:linkname " + name + " " + sym}
		case 2:
			return []string{indent + "//go:generate echo //go:redirect-from " + sym}
		case 3:
			return []string{indent + "//go:build amd64"}
		}
		return []string{indent + "//go:noinline"}
	case "S":
		return []string{indent + "// go:redirect-from " + sym}
	case "M":
		return []string{indent + "// " + name + " is installed with //go:redirect-from " + sym}
	case "K":
		if sameLine {
			return []string{indent + "/* //go:redirect-from " + sym + " */"}
		}
		return []string{indent + "/*", "//go:redirect-from " + sym, indent + "*/"}
	case "B":
		return []string{""}
	}
	switch c20Variant(sym + name) { // prose: the repository's own style ends doc comments with a bare //
	case 0:
		return []string{indent + "//"}
	case 1:
		return []string{indent + "//\t" + name + "(a) // indented example"}
	case 2:
		return []string{indent + "//nolint:" + name}
	}
	if sym == "" {
		return []string{indent + "// " + name + " is described here."}
	}
	return []string{indent + "// " + name + " replaces " + sym + "."}
}

func c20Comments(ls []c20Line, name, indent string, skipBlank bool) []string {
	var out []string
	for _, ln := range ls {
		if skipBlank && ln.T == "B" {
			continue
		}
		out = append(out, c20Comment(ln, name, indent, false)...)
	}
	return out
}

func c20RenderDecl(d c20Decl) []string {
	var out []string
	out = append(out, c20Comments(d.Doc, d.Name, "", false)...)
	body := c20Comments(d.Body, d.Name, "\t", true)
	var code []string
	switch d.Kind {
	case "func":
		code = append(code, "func "+d.Name+"(a int) int {")
		code = append(code, body...)
		code = append(code, "\treturn a + 1", "}")
	case "method":
		recv := d.Recv
		if recv == "" {
			recv = "(*Recv" + d.Name + ")"
		}
		if strings.HasPrefix(recv, "(*") {
			recv = "*" + strings.TrimSuffix(recv[2:], ")")
		}
		code = append(code, "func (r "+recv+") "+d.Name+"(a int) int {")
		code = append(code, body...)
		code = append(code, "\treturn a + 1", "}")
	case "varfunc":
		code = append(code, "var "+d.Name+" = func(a int) int {")
		code = append(code, body...)
		code = append(code, "\treturn a + 1", "}")
	case "type":
		code = append(code, "type "+d.Name+" struct {")
		code = append(code, body...)
		code = append(code, "\tF func(a int) int", "}")
	case "iface":
		code = append(code, "type "+d.Name+" interface {")
		code = append(code, body...)
		code = append(code, "\tM(a int) int", "}")
	case "const":
		if d.Wide > 0 && len(body) == 0 {
			code = append(code, c20Pad("const "+d.Name+" = \"", "\"", d.Wide))
		} else if len(body) == 0 {
			code = append(code, "const "+d.Name+" = 1")
		} else {
			code = append(code, "const (")
			code = append(code, body...)
			code = append(code, "\t"+d.Name+" = 1", ")")
		}
	default: // var
		if d.Wide > 0 && len(body) == 0 {
			code = append(code, c20Pad("var "+d.Name+" = `", "`", d.Wide))
		} else if len(body) == 0 {
			code = append(code, "var "+d.Name+" int")
		} else {
			code = append(code, "var (")
			code = append(code, body...)
			code = append(code, "\t"+d.Name+" int", ")")
		}
	}
	for _, ln := range d.Tl {
		if ln.T == "B" {
			continue
		}
		c := c20Comment(ln, d.Name, "", true)
		code[len(code)-1] += " " + strings.Join(c, " ")
		break
	}
	out = append(out, code...)
	out = append(out, c20Comments(d.Ta, d.Name, "", true)...)
	return out
}

func c20RenderFile(f c20File) string {
	var out []string
	out = append(out, c20Comments(f.Hdr, f.Pkg, "", false)...)
	pkg := f.Pkg
	if pkg == "" {
		pkg = "kernel"
	}
	out = append(out, "package "+pkg, "")
	if len(f.Imp) > 0 {
		out = append(out, c20Comments(f.Imp, "unsafe", "", false)...)
		out = append(out, "import \"unsafe\"", "")
	}
	for _, d := range f.Decls {
		out = append(out, c20RenderDecl(d)...)
		out = append(out, "")
	}
	text := strings.Join(out, "\n")
	if f.Text.Nonl == 1 {
		text = strings.TrimRight(text, "\n")
	}
	if f.Text.Eol == "crlf" {
		text = strings.Replace(text, "\n", "\r\n", -1)
	}
	if f.Text.Bom == 1 {
		text = "\xef\xbb\xbf" + text
	}
	return text
}

func c20Materialise(c c20Case, root string) error {
	if err := os.MkdirAll(root, 0755); err != nil {
		return err
	}
	for _, f := range c.Files {
		dir := filepath.Join(append([]string{root}, f.Dir...)...)
		if err := os.MkdirAll(dir, 0755); err != nil {
			return err
		}
		if err := ioutil.WriteFile(filepath.Join(dir, f.Name+f.Ext), []byte(c20RenderFile(f)), 0644); err != nil {
			return err
		}
	}
	return nil
}

// ---------------------------------------------------------------- the code under test

var c20Home string

// c20Build runs the real redirect discovery with root as the kernel source directory.
func c20Build(root string) (r c20Result) {
	r.Out = [][2]string{}
	defer os.Chdir(c20Home)
	defer func() {
		if p := recover(); p != nil {
			r = c20Result{Res: "panic", Msg: fmt.Sprint(p), Out: [][2]string{}}
		}
	}()
	if err := os.Chdir(root); err != nil {
		panic("harness: " + err.Error())
	}
	ctx := &Context{}
	ctx.FindRedirects()
	for _, e := range ctx.Redirects {
		r.Out = append(r.Out, [2]string{e.SrcSymbol, e.DstSymbol})
	}
	r.Res = "ok"
	return r
}

// TestVerifC20Child is the child-process half: build every listed root once, in a fresh process.
func TestVerifC20Child(t *testing.T) {
	in := os.Getenv("C20_CHILD_IN")
	if in == "" {
		t.Skip("not a child")
	}
	c20Home, _ = os.Getwd()
	data, err := ioutil.ReadFile(in)
	if err != nil {
		t.Fatal(err)
	}
	out, err := os.Create(os.Getenv("C20_CHILD_OUT"))
	if err != nil {
		t.Fatal(err)
	}
	w := bufio.NewWriter(out)
	enc := json.NewEncoder(w)
	for _, root := range strings.Split(strings.TrimSpace(string(data)), "\n") {
		enc.Encode(c20Build(root))
	}
	w.Flush()
	out.Close()
}

func c20Child(t *testing.T, work string, roots []string) []c20Result {
	in := filepath.Join(work, "c20child.in")
	outp := filepath.Join(work, "c20child.out")
	if err := ioutil.WriteFile(in, []byte(strings.Join(roots, "\n")+"\n"), 0644); err != nil {
		t.Fatal(err)
	}
	os.Remove(outp)
	cmd := exec.Command(os.Args[0], "-test.run", "^TestVerifC20Child$", "-test.timeout", "600s")
	cmd.Dir = c20Home
	cmd.Env = append(os.Environ(), "C20_CHILD_IN="+in, "C20_CHILD_OUT="+outp)
	done := make(chan error, 1)
	var msg []byte
	go func() {
		var err error
		msg, err = cmd.CombinedOutput()
		done <- err
	}()
	var cerr error
	select {
	case cerr = <-done:
	case <-time.After(10 * time.Minute):
		cmd.Process.Kill()
		t.Fatalf("harness: child process timed out")
	}
	if _, exited := cerr.(*exec.ExitError); cerr != nil && !exited {
		t.Fatalf("harness: child process could not be run: %v", cerr) // machinery, not a verdict
	}
	var res []c20Result
	if f, err := os.Open(outp); err == nil {
		sc := bufio.NewScanner(f)
		sc.Buffer(make([]byte, 1<<20), 1<<26)
		for sc.Scan() {
			var r c20Result
			if json.Unmarshal(sc.Bytes(), &r) == nil {
				if r.Out == nil {
					r.Out = [][2]string{}
				}
				res = append(res, r)
			}
		}
		f.Close()
	}
	// a child that died (the tool calls os.Exit on errors) leaves the remaining roots without a table
	for len(res) < len(roots) {
		m := "child process ended early"
		if cerr != nil {
			m += ": " + cerr.Error()
		}
		if len(msg) > 0 {
			tail := string(msg)
			if len(tail) > 300 {
				tail = tail[len(tail)-300:]
			}
			m += ": " + tail
		}
		res = append(res, c20Result{Res: "died", Msg: m, Out: [][2]string{}})
		break
	}
	for len(res) < len(roots) {
		res = append(res, c20Result{Res: "skipped", Out: [][2]string{}})
	}
	os.Remove(in)
	os.Remove(outp)
	return res
}

// c20RunBatch builds every case `runs` times here and `children` times in fresh processes and logs the events.
func c20RunBatch(t *testing.T, enc *json.Encoder, leg, work string, cases []c20Case, runs, children int) {
	roots := make([]string, len(cases))
	base := filepath.Join(work, "c20trees")
	defer os.RemoveAll(base)
	for i, c := range cases {
		if c.Real {
			roots[i] = filepath.Join(c20Home, "..", "kernel")
			continue
		}
		roots[i] = filepath.Join(base, strconv.Itoa(i))
		if err := c20Materialise(c, roots[i]); err != nil {
			t.Fatal(err)
		}
	}
	results := make([][]c20Result, len(cases))
	procs := make([][]string, len(cases))
	for r, more := 0, true; more; r++ {
		more = false
		for i := range cases {
			n := runs
			if cases[i].Runs > 0 {
				n = cases[i].Runs
			}
			if r >= n {
				continue
			}
			more = true
			results[i] = append(results[i], c20Build(roots[i]))
			procs[i] = append(procs[i], "same")
		}
	}
	for c := 0; c < children; c++ {
		rs := c20Child(t, work, roots)
		for i := range cases {
			if rs[i].Res == "skipped" {
				continue
			}
			results[i] = append(results[i], rs[i])
			procs[i] = append(procs[i], "child"+strconv.Itoa(c+1))
		}
	}
	for i, c := range cases {
		for _, f := range c.Files {
			enc.Encode(map[string]interface{}{"k": "file", "f": f})
		}
		for r, res := range results[i] {
			ev := map[string]interface{}{"k": "build", "leg": leg, "run": r + 1, "proc": procs[i][r], "res": res.Res, "out": res.Out}
			if res.Msg != "" {
				ev["msg"] = res.Msg
			}
			if c.Real {
				ev["real"] = 1
			}
			enc.Encode(ev)
		}
		enc.Encode(map[string]interface{}{"k": "reset"})
	}
}

func c20Env(name string, def int) int {
	if v, err := strconv.Atoi(os.Getenv(name)); err == nil {
		return v
	}
	return def
}

func c20ReadCases(t *testing.T, path string) []c20Case {
	in, err := os.Open(path)
	if err != nil {
		t.Fatal(err)
	}
	defer in.Close()
	var cases []c20Case
	sc := bufio.NewScanner(in)
	sc.Buffer(make([]byte, 1<<20), 1<<26)
	for sc.Scan() {
		line := sc.Bytes()
		if len(line) == 0 {
			continue
		}
		// TLC's CSVWrite of ToJson(..) yields a JSON string literal containing JSON, or plain JSON
		if line[0] == '"' {
			var s string
			if err := json.Unmarshal(line, &s); err != nil {
				t.Fatalf("bad case line: %v", err)
			}
			line = []byte(s)
		}
		var c c20Case
		if err := json.Unmarshal(line, &c); err != nil {
			t.Fatalf("bad case: %v", err)
		}
		c20Normalise(&c)
		cases = append(cases, c)
	}
	return cases
}

func TestVerifC20Run(t *testing.T) {
	c20Home, _ = os.Getwd()
	work := os.Getenv("VERIF_WORK")
	if work == "" {
		work = t.TempDir()
	}
	runs, children := c20Env("C20_RUNS", 2), c20Env("C20_CHILDREN", 1)
	if p := os.Getenv("CASES"); p != "" {
		cases := c20ReadCases(t, p)
		out, err := os.Create(os.Getenv("TRACE_G"))
		if err != nil {
			t.Fatal(err)
		}
		w := bufio.NewWriterSize(out, 1<<20)
		enc := json.NewEncoder(w)
		for i := 0; i < len(cases); i += 2000 {
			j := i + 2000
			if j > len(cases) {
				j = len(cases)
			}
			for k := i; k < j; k++ {
				if cases[k].Real {
					cases[k] = c20RealTree(t)
				}
			}
			c20RunBatch(t, enc, "G", work, cases[i:j], runs, children)
		}
		w.Flush()
		out.Close()
		t.Logf("cases: %d", len(cases))
	}
	n := c20Env("NTREES", 0)
	real := os.Getenv("C20_REAL") == "1"
	if n > 0 || real {
		seed := int64(c20Env("VERIF_SEED", 1))
		rng := rand.New(rand.NewSource(seed*7919 + 20))
		var cases []c20Case
		if real {
			cases = append(cases, c20RealTree(t))
		}
		if n > 0 {
			cases = append(cases, c20ScaleTrees(rng)...)
		}
		for i := 0; i < n; i++ {
			c := c20RandTree(rng, 60)
			if i%4 == 1 {
				c20Widen(rng, &c)
			}
			cases = append(cases, c)
		}
		out, err := os.Create(os.Getenv("TRACE_T"))
		if err != nil {
			t.Fatal(err)
		}
		w := bufio.NewWriterSize(out, 1<<20)
		enc := json.NewEncoder(w)
		for i := 0; i < len(cases); i += 200 {
			j := i + 200
			if j > len(cases) {
				j = len(cases)
			}
			c20RunBatch(t, enc, "T", work, cases[i:j], runs, children)
		}
		w.Flush()
		out.Close()
		t.Logf("random trees: %d, real tree: %v", n, real)
	}
}

// ---------------------------------------------------------------- seeded generator of trees at real scale (leg T)

var c20Segs = []string{"mm", "vmm", "pmm", "arch", "amd64", "rt0", "goruntime", "kfmt", "hal", "device", "acpi", "tty", "sync", "cpu",
	"lib.go", "unit_test.go", "x-y", "v1.2", "internal"}
var c20FnNames = []string{"init", "main", "_", "Gr\u00f6\u00dfe", "\u03c3tart"}
var c20Names = []string{"bootstrap", "panic", "alloc", "map", "vmm", "my_test_util", "testing", "x_test_y", "contest", "init", "doc", "walk", "tlb", "fmt"}
var c20Others = []string{".s", ".txt", ".go.bak", ".inc", ".golden", ".gox", ".md"}
var c20Syms = []string{"runtime.sysAlloc", "runtime.sysMap", "runtime.sysReserve", "runtime.nanotime", "runtime.gopanic", "runtime.throw",
	"runtime.(*mheap).alloc", "runtime/internal/atomic.Load", "sync.(*Mutex).Lock", "runtime.getRandomData", "runtime.init", "runtime.mallocinit",
	"runtime\u00b7memclrNoHeapPointers", "main.h\u00e9llo", "runtime.(*itabTableType).add-fm", "type..eq.runtime._defer"}

func c20RandLines(rng *rand.Rand, n int, types string, ctr *int, maxR int) []c20Line {
	out := []c20Line{}
	nr := 0
	for i := 0; i < n; i++ {
		t := string(types[rng.Intn(len(types))])
		if t == "R" {
			if nr >= maxR {
				t = "T"
			}
			nr++
		}
		sym := ""
		if t != "B" && !(t == "T" && rng.Intn(2) == 0) {
			sym = c20Syms[rng.Intn(len(c20Syms))]
			if (t == "R" && rng.Intn(12) != 0) || (t != "R" && rng.Intn(4) != 0) { // now and then the same symbol is annotated again
				*ctr++
				sym += strconv.Itoa(*ctr)
			}
		}
		out = append(out, c20Line{T: t, Sym: sym})
	}
	return out
}

func c20RandTree(rng *rand.Rand, maxFiles int) c20Case {
	var c c20Case
	nf := 1 + rng.Intn(maxFiles)
	if rng.Intn(4) == 0 {
		nf = 1 + rng.Intn(4)
	}
	ndirs := 1 + rng.Intn(8)
	dirs := [][]string{{}}
	for len(dirs) < ndirs {
		p := dirs[rng.Intn(len(dirs))]
		if len(p) >= 6 || (len(p) >= 3 && rng.Intn(3) != 0) {
			continue
		}
		d := append(append([]string{}, p...), c20Segs[rng.Intn(len(c20Segs))])
		dirs = append(dirs, d)
	}
	ctr := 0
	used := map[string]bool{}
	for fi := 0; fi < nf; fi++ {
		f := c20File{Dir: dirs[rng.Intn(len(dirs))]}
		f.Name = c20Names[rng.Intn(len(c20Names))] + strconv.Itoa(fi)
		if rng.Intn(5) == 0 {
			f.Name = c20Names[rng.Intn(len(c20Names))]
		}
		switch x := rng.Intn(100); {
		case x < 65:
			f.Ext = ".go"
		case x < 80:
			f.Ext = "_test.go"
		default:
			f.Ext = c20Others[rng.Intn(len(c20Others))]
		}
		key := strings.Join(f.Dir, "/") + "/" + f.Name + f.Ext
		if used[key] {
			f.Name += "x" + strconv.Itoa(fi)
			key = strings.Join(f.Dir, "/") + "/" + f.Name + f.Ext
		}
		used[key] = true
		switch {
		case rng.Intn(3) == 0:
			f.Pkg = "main"
		case len(f.Dir) == 0:
			f.Pkg = "kernel"
		default: // the package clause needs an identifier; the directory name may be anything
			f.Pkg = strings.Map(func(r rune) rune {
				if r == '.' || r == '-' {
					return '_'
				}
				return r
			}, f.Dir[len(f.Dir)-1])
		}
		if rng.Intn(6) == 0 {
			f.Hdr = c20RandLines(rng, 1+rng.Intn(3), "RTTDB", &ctr, 2)
		}
		if rng.Intn(6) == 0 {
			f.Imp = c20RandLines(rng, 1+rng.Intn(3), "RTDSB", &ctr, 2)
		}
		if rng.Intn(5) == 0 {
			f.Text = c20Text{Eol: []string{"lf", "crlf"}[rng.Intn(2)], Bom: rng.Intn(2), Nonl: rng.Intn(2)}
		}
		nd := rng.Intn(9)
		for di := 0; di < nd; di++ {
			d := c20Decl{}
			x := rng.Intn(100)
			switch {
			case x < 50:
				d.Kind = "func"
			case x < 60:
				d.Kind = "method"
			case x < 70:
				d.Kind = "var"
			case x < 75:
				d.Kind = "varfunc"
			case x < 85:
				d.Kind = "type"
			case x < 90:
				d.Kind = "iface"
			default:
				d.Kind = "const"
			}
			ctr++
			d.Name = []string{"fn", "Sys", "early", "Do"}[rng.Intn(4)] + strconv.Itoa(ctr)
			if rng.Intn(15) == 0 {
				d.Name = c20FnNames[rng.Intn(len(c20FnNames))]
				if rng.Intn(2) == 0 && d.Name != "_" && d.Name != "init" {
					d.Name += strconv.Itoa(ctr)
				}
			}
			if d.Kind == "method" {
				d.Recv = []string{"(*Dev" + strconv.Itoa(ctr%7) + ")", "Dev" + strconv.Itoa(ctr%7)}[rng.Intn(2)]
			}
			types := "RRRRRRRTTTTTTDDSMKBB"
			switch x := rng.Intn(20); {
			case x == 0: // many annotations on one function
				d.Doc = c20RandLines(rng, 4+rng.Intn(8), "RRRRTD", &ctr, 8)
			case x < 16:
				d.Doc = c20RandLines(rng, rng.Intn(6), types, &ctr, 3)
			}
			if rng.Intn(5) == 0 {
				d.Body = c20RandLines(rng, 1+rng.Intn(2), "RTMSK", &ctr, 2)
			}
			if rng.Intn(7) == 0 {
				d.Tl = c20RandLines(rng, 1, "RTSK", &ctr, 1)
			}
			if rng.Intn(7) == 0 {
				d.Ta = c20RandLines(rng, 1+rng.Intn(2), "RTMK", &ctr, 2)
			}
			f.Decls = append(f.Decls, d)
		}
		c.Files = append(c.Files, f)
	}
	c20Normalise(&c)
	return c
}

var c20Widths = []int{4095, 4096, 4097, 32768, 65535, 65536, 65537, 100000, 70000, 131072, 1 << 20}

// c20Widen gives a tree the input-size dimension: very long source lines (a string literal in a var/const
// declaration, a // comment, a /* */ comment) before, between and after annotated functions.
func c20Widen(rng *rand.Rand, c *c20Case) {
	budget := 3 << 20
	pick := func() int {
		n := c20Widths[rng.Intn(len(c20Widths))]
		if n > budget {
			n = 65536
		}
		budget -= n
		return n
	}
	for fi := range c.Files {
		f := &c.Files[fi]
		if len(f.Decls) == 0 || rng.Intn(3) == 0 || budget < 200000 {
			continue
		}
		for k := 1 + rng.Intn(2); k > 0; k-- {
			at := rng.Intn(len(f.Decls) + 1)
			switch rng.Intn(3) {
			case 0: // a new declaration holding a long literal
				d := c20Decl{Kind: []string{"var", "const"}[rng.Intn(2)], Name: "blob" + strconv.Itoa(fi) + "x" + strconv.Itoa(k), Wide: pick()}
				f.Decls = append(f.Decls[:at], append([]c20Decl{d}, f.Decls[at:]...)...)
			case 1: // a long // line on top of an existing doc comment
				if at == len(f.Decls) {
					at--
				}
				f.Decls[at].Doc = append([]c20Line{{T: "T", N: pick()}}, f.Decls[at].Doc...)
			default: // a long /* */ line with the annotation text inside, on top of an existing doc comment
				if at == len(f.Decls) {
					at--
				}
				f.Decls[at].Doc = append([]c20Line{{T: "K", Sym: "runtime.wide" + strconv.Itoa(fi), N: pick()}}, f.Decls[at].Doc...)
			}
		}
	}
	c20Normalise(c)
}

// c20ScaleTrees: the other size thresholds of the walk/parse path - more than 1000 files in one directory,
// a file with more than 1000 declarations (> 64 KiB of source), directories 12 levels deep.
func c20ScaleTrees(rng *rand.Rand) []c20Case {
	ctr := 1 << 20
	fn := func(name string, nR int) c20Decl {
		return c20Decl{Kind: "func", Name: name, Doc: c20RandLines(rng, nR, "R", &ctr, nR)}
	}
	var bigdir c20Case
	for i := 0; i < 1100; i++ {
		f := c20File{Dir: []string{"wide"}, Name: "unit" + strconv.Itoa(i), Ext: ".go", Pkg: "wide"}
		if i%9 == 4 {
			f.Ext = "_test.go"
		}
		if i%50 == 7 || i >= 1090 {
			f.Decls = []c20Decl{fn("dirfn"+strconv.Itoa(i), 1), {Kind: "var", Name: "v" + strconv.Itoa(i)}, fn("dirfm"+strconv.Itoa(i), 2)}
		}
		bigdir.Files = append(bigdir.Files, f)
	}
	var bigfile c20Case
	f := c20File{Dir: []string{"mm"}, Name: "generated", Ext: ".go", Pkg: "mm"}
	for i := 0; i < 1200; i++ {
		switch {
		case i%100 == 99 || i == 0 || i == 1199:
			f.Decls = append(f.Decls, fn("genfn"+strconv.Itoa(i), 1+i%2))
		case i%3 == 0:
			f.Decls = append(f.Decls, c20Decl{Kind: "func", Name: "plain" + strconv.Itoa(i), Doc: []c20Line{{T: "T"}}})
		default:
			f.Decls = append(f.Decls, c20Decl{Kind: "const", Name: "k" + strconv.Itoa(i), Doc: []c20Line{{T: "S", Sym: "runtime.k" + strconv.Itoa(i)}}})
		}
	}
	bigfile.Files = []c20File{f, {Dir: []string{"mm"}, Name: "small", Ext: ".go", Pkg: "mm", Decls: []c20Decl{fn("smallfn", 1)}}}
	var deep c20Case
	var dir []string
	for i := 0; i < 12; i++ {
		dir = append(dir, c20Segs[i%len(c20Segs)])
		d := append([]string{}, dir...)
		deep.Files = append(deep.Files, c20File{Dir: d, Name: "level" + strconv.Itoa(i), Ext: ".go", Pkg: d[len(d)-1],
			Decls: []c20Decl{fn("deepfn"+strconv.Itoa(i), 1), fn("deepfm"+strconv.Itoa(i), 1)}})
	}
	out := []c20Case{bigdir, bigfile, deep, {}} // the last one: a tree without any file
	// an annotation that straddles a 4 KiB / 8 KiB / 32 KiB / 64 KiB / 128 KiB offset of its file (readers with fixed-size chunks):
	// "package p\n\n" is 11 bytes, the long // line takes n+1, so the annotation line starts at offset 12+n = boundary-k
	for _, b := range []int{4096, 8192, 32768, 65536, 131072} {
		for _, k := range []int{0, 1, 9, 17, 18, 19, 30} {
			d := fn("edge"+strconv.Itoa(b)+"x"+strconv.Itoa(k), 1)
			d.Doc = append([]c20Line{{T: "T", N: b - k - 12}}, d.Doc...)
			out = append(out, c20Case{Files: []c20File{{Dir: []string{"mm"}, Name: "edge", Ext: ".go", Pkg: "p",
				Decls: []c20Decl{d, fn("after"+strconv.Itoa(k), 2)}}}})
		}
	}
	for i := range out {
		c20Normalise(&out[i])
	}
	return out
}

// ---------------------------------------------------------------- decoder: real source text -> abstract tree (line scanner)

type c20SrcLine struct {
	code string   // the line without comments and literal contents
	coms []string // comments starting on this line
	cont bool     // inside a block comment started earlier
}

func c20Lex(src string) []c20SrcLine {
	src = strings.Replace(strings.TrimPrefix(src, "\xef\xbb\xbf"), "\r\n", "\n", -1)
	var lines []c20SrcLine
	cur := c20SrcLine{}
	var code, com strings.Builder
	const (
		mCode = iota
		mLine
		mBlock
		mStr
		mRaw
		mRune
	)
	mode := mCode
	flush := func() {
		cur.code = code.String()
		lines = append(lines, cur)
		cur = c20SrcLine{}
		code.Reset()
	}
	for i := 0; i < len(src); i++ {
		ch := src[i]
		switch mode {
		case mCode:
			switch {
			case ch == '\n':
				flush()
			case ch == '/' && i+1 < len(src) && src[i+1] == '/':
				mode = mLine
				com.Reset()
				com.WriteString("//")
				i++
			case ch == '/' && i+1 < len(src) && src[i+1] == '*':
				mode = mBlock
				com.Reset()
				com.WriteString("/*")
				i++
			case ch == '"':
				mode = mStr
				code.WriteByte('"')
			case ch == '`':
				mode = mRaw
				code.WriteByte('"')
			case ch == '\'':
				mode = mRune
				code.WriteByte('"')
			default:
				code.WriteByte(ch)
			}
		case mLine:
			if ch == '\n' {
				cur.coms = append(cur.coms, com.String())
				mode = mCode
				flush()
			} else {
				com.WriteByte(ch)
			}
		case mBlock:
			if ch == '*' && i+1 < len(src) && src[i+1] == '/' {
				com.WriteString("*/")
				i++
				mode = mCode
				if cur.cont {
					// the comment text belongs to the line it started on
					for k := len(lines) - 1; k >= 0; k-- {
						if !lines[k].cont {
							lines[k].coms[len(lines[k].coms)-1] = com.String()
							break
						}
					}
				} else {
					cur.coms = append(cur.coms, com.String())
				}
			} else if ch == '\n' {
				if !cur.cont {
					cur.coms = append(cur.coms, "/*")
				}
				com.WriteByte(ch)
				flush()
				cur.cont = true
			} else {
				com.WriteByte(ch)
			}
		case mStr, mRune:
			q := byte('"')
			if mode == mRune {
				q = '\''
			}
			if ch == '\\' {
				i++
			} else if ch == q {
				code.WriteByte('"')
				mode = mCode
			} else if ch == '\n' {
				mode = mCode
				flush()
			}
		case mRaw:
			if ch == '`' {
				code.WriteByte('"')
				mode = mCode
			} else if ch == '\n' {
				code.WriteString("\"\"")
				flush()
			}
		}
	}
	if mode == mLine {
		cur.coms = append(cur.coms, com.String())
	}
	if code.Len() > 0 || len(cur.coms) > 0 {
		flush()
	}
	return lines
}

func c20FirstField(s string) string {
	f := strings.Fields(s)
	if len(f) == 0 {
		return ""
	}
	return strings.TrimSuffix(f[0], "*/")
}

func c20Classify(text string) c20Line {
	const dir = "//go:redirect-from"
	if strings.HasPrefix(text, "/*") {
		if i := strings.Index(text, "go:redirect-from"); i >= 0 {
			return c20Line{T: "K", Sym: c20FirstField(text[i+len("go:redirect-from"):])}
		}
		return c20Line{T: "T", Sym: ""}
	}
	if strings.HasPrefix(text, dir) {
		rest := text[len(dir):]
		if rest != "" && (rest[0] == ' ' || rest[0] == '\t') && strings.TrimSpace(rest) != "" {
			return c20Line{T: "R", Sym: strings.TrimSpace(rest)}
		}
		return c20Line{T: "D", Sym: ""}
	}
	if strings.HasPrefix(text, "//go:") {
		return c20Line{T: "D", Sym: ""}
	}
	body := strings.TrimSpace(text[2:])
	if strings.HasPrefix(body, "go:redirect-from") {
		return c20Line{T: "S", Sym: strings.TrimSpace(body[len("go:redirect-from"):])}
	}
	if i := strings.Index(text, "go:redirect-from"); i >= 0 {
		return c20Line{T: "M", Sym: c20FirstField(text[i+len("go:redirect-from"):])}
	}
	return c20Line{T: "T", Sym: ""}
}

func c20Ident(s string) string {
	s = strings.TrimSpace(s)
	n := 0
	for n < len(s) && (s[n] == '_' || s[n] >= '0' && s[n] <= '9' || s[n] >= 'a' && s[n] <= 'z' || s[n] >= 'A' && s[n] <= 'Z' || s[n] >= 0x80) {
		n++
	}
	return s[:n]
}

// c20ScanSource describes one Go source text as header comments, package name and top-level declarations.
func c20ScanSource(src string) (hdr []c20Line, pkg string, imp []c20Line, decls []c20Decl) {
	seenImport := false
	var pending []c20Line
	afterDecl := false
	var cur *c20Decl // declaration being read (nil at top level); keep=false for imports and the like
	keep := false
	depth := 0
	trimB := func(l []c20Line) []c20Line {
		for len(l) > 0 && l[0].T == "B" {
			l = l[1:]
		}
		return l
	}
	for _, ln := range c20Lex(src) {
		code := strings.TrimSpace(ln.code)
		if cur == nil && code == "" {
			if ln.cont {
				continue
			}
			if len(ln.coms) == 0 { // empty line
				if afterDecl && len(pending) > 0 && len(decls) > 0 {
					decls[len(decls)-1].Ta = pending
					pending = nil
				}
				afterDecl = false
				if len(pending) > 0 {
					pending = append(pending, c20Line{T: "B", Sym: ""})
				}
				continue
			}
			for _, c := range ln.coms {
				pending = append(pending, c20Classify(c))
			}
			continue
		}
		if cur == nil {
			afterDecl = false
			word := c20Ident(code)
			rest := strings.TrimSpace(code[len(word):])
			switch word {
			case "package":
				hdr, pkg, pending = pending, c20Ident(rest), nil
				continue
			case "func":
				d := c20Decl{Kind: "func", Doc: trimB(pending)}
				if strings.HasPrefix(rest, "(") {
					d.Kind = "method"
					n := 0
					for i := 0; i < len(rest); i++ {
						if rest[i] == '(' {
							n++
						} else if rest[i] == ')' {
							n--
							if n == 0 {
								if fs := strings.Fields(rest[1:i]); len(fs) > 0 { // receiver type: the last word
									d.Recv = fs[len(fs)-1]
									if strings.HasPrefix(d.Recv, "*") {
										d.Recv = "(" + d.Recv + ")"
									}
								}
								rest = rest[i+1:]
								break
							}
						}
					}
				}
				d.Name = c20Ident(rest)
				cur, keep = &d, true
			case "var", "const", "type":
				d := c20Decl{Kind: word, Doc: trimB(pending), Name: c20Ident(rest)}
				if word == "var" && strings.Contains(rest, "func(") {
					d.Kind = "varfunc"
				}
				if word == "type" && strings.Contains(rest, "interface") {
					d.Kind = "iface"
				}
				cur, keep = &d, true
			default:
				if word == "import" && !seenImport {
					seenImport, imp = true, trimB(pending)
				}
				cur, keep = &c20Decl{}, false
			}
			pending = nil
		}
		if cur.Name == "" && depth > 0 && c20Ident(code) != "" {
			cur.Name = c20Ident(code) // first name of a grouped declaration
		}
		for i := 0; i < len(code); i++ {
			switch code[i] {
			case '(', '{', '[':
				depth++
			case ')', '}', ']':
				depth--
			}
		}
		for _, c := range ln.coms {
			cl := c20Classify(c)
			if depth <= 0 && code != "" {
				cur.Tl = append(cur.Tl, cl)
			} else if cl.T != "T" { // prose inside a body cannot matter and is not logged
				cur.Body = append(cur.Body, cl)
			}
		}
		if depth <= 0 && (code != "" || !ln.cont) {
			depth = 0
			if keep {
				decls = append(decls, *cur)
				afterDecl = true
			}
			cur = nil
		}
	}
	if afterDecl && len(pending) > 0 && len(decls) > 0 {
		decls[len(decls)-1].Ta = pending
	}
	return hdr, pkg, imp, decls
}

func c20SplitName(base string) (name, ext string) {
	switch {
	case strings.HasSuffix(base, "_test.go"):
		return strings.TrimSuffix(base, "_test.go"), "_test.go"
	case strings.HasSuffix(base, ".go"):
		return strings.TrimSuffix(base, ".go"), ".go"
	}
	if i := strings.Index(base, "."); i > 0 {
		return base[:i], base[i:]
	}
	return base, ""
}

func c20ScanTree(root string) (c20Case, error) {
	var c c20Case
	err := filepath.Walk(root, func(p string, info os.FileInfo, err error) error {
		if err != nil {
			return err
		}
		if info.IsDir() {
			return nil
		}
		rel, _ := filepath.Rel(root, p)
		f := c20File{}
		if d := filepath.ToSlash(filepath.Dir(rel)); d != "." {
			f.Dir = strings.Split(d, "/")
		}
		f.Name, f.Ext = c20SplitName(filepath.Base(rel))
		if strings.HasSuffix(f.Ext, ".go") {
			data, err := ioutil.ReadFile(p)
			if err != nil {
				return err
			}
			f.Hdr, f.Pkg, f.Imp, f.Decls = c20ScanSource(string(data))
		}
		c.Files = append(c.Files, f)
		return nil
	})
	c20Normalise(&c)
	return c, err
}

func c20RealTree(t *testing.T) c20Case {
	c, err := c20ScanTree(filepath.Join(c20Home, "..", "kernel"))
	if err != nil {
		t.Fatal(err)
	}
	c.Real = true
	return c
}

// TestVerifC20SelfCheck: encoder and decoder are the trusted parts; they must be inverse to each other
// on generated trees (symbols of prose/directive lines and body prose are not part of the comparison).
func TestVerifC20SelfCheck(t *testing.T) {
	c20Home, _ = os.Getwd()
	rng := rand.New(rand.NewSource(int64(c20Env("VERIF_SEED", 1))))
	root := filepath.Join(os.Getenv("VERIF_WORK"), "c20self")
	if os.Getenv("VERIF_WORK") == "" {
		root = filepath.Join(t.TempDir(), "c20self")
	}
	defer os.RemoveAll(root)
	canonL := func(ls []c20Line, dropT bool, dropB bool) string {
		var s []string
		for _, l := range ls {
			if dropT && l.T == "T" || dropB && l.T == "B" {
				continue
			}
			if l.T == "T" || l.T == "D" || l.T == "B" {
				s = append(s, l.T)
			} else {
				s = append(s, l.T+":"+l.Sym)
			}
		}
		return strings.Join(s, ",")
	}
	canon := func(c c20Case) []string {
		var out []string
		for _, f := range c.Files {
			s := strings.Join(f.Dir, "/") + "|" + f.Name + "|" + f.Ext
			if strings.HasSuffix(f.Ext, ".go") {
				hdr := f.Hdr
				for len(hdr) > 0 && hdr[0].T == "B" {
					hdr = hdr[1:]
				}
				imp := f.Imp
				for len(imp) > 0 && imp[0].T == "B" {
					imp = imp[1:]
				}
				s += "|" + f.Pkg + "|" + canonL(hdr, false, false) + "|" + canonL(imp, false, false)
				for _, d := range f.Decls {
					doc := d.Doc
					for len(doc) > 0 && doc[0].T == "B" {
						doc = doc[1:]
					}
					tl := d.Tl
					if len(tl) > 1 {
						tl = tl[:1]
					}
					s += fmt.Sprintf(" {%s %s%s doc=%s body=%s tl=%s ta=%s}", d.Kind, d.Recv, d.Name, canonL(doc, false, false),
						canonL(d.Body, true, true), canonL(tl, false, true), canonL(d.Ta, false, true))
				}
			}
			out = append(out, s)
		}
		sort.Strings(out)
		return out
	}
	for i := 0; i < c20Env("NTREES", 50); i++ {
		c := c20RandTree(rng, 60)
		if i%5 == 2 {
			c20Widen(rng, &c)
		}
		os.RemoveAll(root)
		if err := c20Materialise(c, root); err != nil {
			t.Fatal(err)
		}
		back, err := c20ScanTree(root)
		if err != nil {
			t.Fatal(err)
		}
		a, b := canon(c), canon(back)
		if len(a) != len(b) {
			t.Fatalf("tree %d: %d files written, %d scanned", i, len(a), len(b))
		}
		for k := range a {
			if a[k] != b[k] {
				t.Fatalf("tree %d: encoder/decoder disagree\n wrote   %s\n scanned %s", i, a[k], b[k])
			}
		}
	}
}
