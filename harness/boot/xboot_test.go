//go:build verif
// +build verif

package pmm

// Mini boot for the extension family extra-boot (DESIGN.md section 5 item 1).
//
// It contains no oracle.  For one configuration (multiboot memory map, kernel placement, ELF
// section table) it builds a small simulated machine and runs the REAL boot path in kernel
// order (kmain.Kmain):   multiboot.SetInfoPtr -> pmm.Init -> vmm.Init
// with the REAL wiring between the packages:
//   - pmm reserves the virtual region for its tables with the real vmm.EarlyReserveRegion and maps
//     it with the real vmm.Map (page-table frames come from the boot allocator at that time),
//   - vmm takes every frame through mm.AllocFrame from whatever allocator pmm.Init registered
//     with mm.SetFrameAllocator (the harness never calls SetFrameAllocator itself),
//   - vmm.Init reads the ELF sections through the real multiboot.VisitElfSections and carries the
//     early reservations over with the real Translate.
// The machine: physical memory is a memfd mapped at a fixed low host address (physical address =
// host address, so frame.Address() can be dereferenced where the kernel does so); page tables
// live in it and are read by a software MMU (hardware walk) behind the seams ptePtrFn /
// nextAddrFn / activePDTFn / switchPDTFn / flushTLBEntryFn (bound through the export shim
// xboot_vmm_shim.go).  Kernel-half virtual addresses cannot exist in a user process:
//   - the temporary-mapping page is served by wrapping the REAL MapTemporary / Unmap and handing
//     out the identity alias of the frame the MMU shows there (as harness/vmm/c05, c06 do),
//   - the early-reservation area just below it (64 pages, plus the temporary page itself for code
//     that strays there) is served by a host WINDOW: host address = kernel address -
//     tempMappingAddr + winTop.  Each window page is an mmap alias of the frame the ACTIVE address
//     space maps the kernel page to (PROT_NONE when unmapped, read-only when not writable),
//     refreshed on TLB flush, on CR3 load and at the MapTemporary / Unmap seams (a TLB may drop
//     entries at any time).  pmm's reserveRegionFn / mapFn therefore stay the real vmm functions,
//     composed with that address translation only; the allocator then works on its tables
//     through the window, i.e. through the address space that is active at the time: if vmm.Init
//     does not carry the reservation over, the allocator faults after the switch.
// After the boot a script exercises the composed system (allocate / free through
// mm.AllocFrame, lazily allocated pages backed by the zero frame, write faults delivered to
// the handler vmm.Init installed).  Every step is logged with the projected state; the TLA+
// monitor specs/boot/BootTrace.tla judges the events.

import (
	"bufio"
	"encoding/binary"
	"encoding/json"
	"fmt"
	"io"
	"math/rand"
	"os"
	"runtime/debug"
	"strconv"
	"syscall"
	"testing"
	"unsafe"

	"github.com/ProjectSerenity/firefly/kernel"
	"github.com/ProjectSerenity/firefly/kernel/gate"
	"github.com/ProjectSerenity/firefly/kernel/kfmt"
	"github.com/ProjectSerenity/firefly/kernel/mm"
	"github.com/ProjectSerenity/firefly/kernel/mm/vmm"
	"github.com/ProjectSerenity/firefly/kernel/multiboot"
)

const (
	xbFrameMask = uintptr(0x000ffffffffff000)
	xbNFrames   = 2048 // 8 MiB of simulated RAM
	xbWinPages  = 64
	xbWalkCap   = 1 << 13
	xbNU        = 4
	xbUBase     = uintptr(0x00007a0000000000)
)

// observed lazily-allocated pages (low canonical half): 1,2 share a last-level table, 3 shares
// the level-2 table, 4 only the root
var xbUVA = [xbNU + 1]uintptr{0, xbUBase, xbUBase + 0x1000, xbUBase + 0x200000, xbUBase + 0x8000000000}

type xbEv map[string]interface{}

func xbW64(v uint64) [4]int {
	return [4]int{int(v >> 48 & 0xffff), int(v >> 32 & 0xffff), int(v >> 16 & 0xffff), int(v & 0xffff)}
}

func xbB(b bool) int {
	if b {
		return 1
	}
	return 0
}

func xbMmap(addr uintptr, length int, prot, flags int, fd int, off int64) (uintptr, error) {
	r, _, e := syscall.Syscall6(syscall.SYS_MMAP, addr, uintptr(length), uintptr(prot), uintptr(flags), uintptr(fd), uintptr(off))
	if e != 0 {
		return 0, e
	}
	return r, nil
}

const (
	xbMapFixed          = 0x10
	xbMapFixedNoReplace = 0x100000
)

// ---------------------------------------------------------------- machine

type xbAlias struct {
	frame uintptr
	prot  int
}

type xbMachine struct {
	fd       int
	base     uintptr // physical (= host) address of the first frame
	active   uintptr // CR3
	bootRoot uintptr
	lastPTE  unsafe.Pointer
	tmpAlias mm.Page
	tmpAddr  uintptr // vmm's temporary-mapping address
	winTop   uintptr // host address standing for tmpAddr
	win      [xbWinPages + 1]xbAlias
	uni      [xbNU + 1]xbAlias
	handlers map[gate.InterruptNumber]func(*gate.Registers)
	cr2      uint64
	info     []uint64
	strtab   []byte
	rng      *rand.Rand
	dirty    bool
}

func xbNewMachine(t testing.TB) *xbMachine {
	name := []byte("verif-xboot-phys\x00")
	fd, _, e := syscall.Syscall(319 /* memfd_create */, uintptr(unsafe.Pointer(&name[0])), 0, 0)
	if e != 0 {
		t.Fatalf("memfd_create: %v", e)
	}
	if err := syscall.Ftruncate(int(fd), xbNFrames*4096); err != nil {
		t.Fatal(err)
	}
	m := &xbMachine{fd: int(fd), tmpAddr: vmm.VerifXbTempMappingAddr()}
	// physical memory at a fixed low address: frame numbers stay small and replays are reproducible
	for _, cand := range []uintptr{0x40000000, 0x50000000, 0x60000000, 0x30000000, 0x70000000} {
		got, err := xbMmap(cand, xbNFrames*4096, syscall.PROT_READ|syscall.PROT_WRITE, syscall.MAP_SHARED|xbMapFixedNoReplace, int(fd), 0)
		if err == nil && got == cand {
			m.base = cand
			break
		}
		if err == nil {
			syscall.Syscall(syscall.SYS_MUNMAP, got, xbNFrames*4096, 0)
		}
	}
	if m.base == 0 {
		t.Fatal("cannot place the simulated physical memory")
	}
	wb, err := xbMmap(0, (xbWinPages+1)*4096, syscall.PROT_NONE, syscall.MAP_PRIVATE|syscall.MAP_ANON, -1, 0)
	if err != nil {
		t.Fatal(err)
	}
	m.winTop = wb + xbWinPages*4096
	for i := 1; i <= xbNU; i++ {
		got, err := xbMmap(xbUVA[i], 4096, syscall.PROT_NONE, syscall.MAP_PRIVATE|syscall.MAP_ANON|xbMapFixedNoReplace, -1, 0)
		if err != nil || got != xbUVA[i] {
			t.Fatalf("cannot claim page %x: %v", xbUVA[i], err)
		}
	}
	return m
}

func (m *xbMachine) close() {
	for i := 1; i <= xbNU; i++ {
		syscall.Syscall(syscall.SYS_MUNMAP, xbUVA[i], 4096, 0)
	}
	syscall.Syscall(syscall.SYS_MUNMAP, m.winTop-xbWinPages*4096, (xbWinPages+1)*4096, 0)
	syscall.Syscall(syscall.SYS_MUNMAP, m.base, xbNFrames*4096, 0)
	syscall.Close(m.fd)
}

func (m *xbMachine) inRAM(frame uintptr) bool {
	return frame >= m.base>>12 && frame < (m.base>>12)+xbNFrames
}

// powerOn: fresh memory (0xA5 everywhere, so that a table that is not cleared shows up as bogus
// translations), the boot address space rt0 leaves behind (here: a root with the recursive last entry,
// in frame 0 of the machine, which no memory map of the generators declares available), empty TLB.
func (m *xbMachine) powerOn() {
	b := (*[xbNFrames * 4096]byte)(unsafe.Pointer(m.base))[:]
	b[0] = 0xA5
	for i := 1; i < len(b); i *= 2 {
		copy(b[i:], b[:i])
	}
	m.bootRoot = m.base
	kernel.Memset(m.bootRoot, 0, 4096)
	*(*uintptr)(unsafe.Pointer(m.bootRoot + 511*8)) = m.bootRoot | 3
	m.active = m.bootRoot
	m.handlers = map[gate.InterruptNumber]func(*gate.Registers){}
	m.syncAll()
}

type xbWalk struct {
	up     [3]int
	leaf   uintptr
	reach  bool
	mapped bool
	effRW  bool
}

// walkVA is the hardware walk: four levels from root, present bit, frame = bits 12-51
func (m *xbMachine) walkVA(root, va uintptr) (w xbWalk) {
	table := root
	w.effRW = true
	for lvl := uint(0); lvl < 4; lvl++ {
		if !m.inRAM(table >> 12) {
			panic(fmt.Sprintf("machine check: table walk reached non-existent memory %x", table))
		}
		e := *(*uintptr)(unsafe.Pointer(table + ((va>>(39-9*lvl))&511)*8))
		if lvl == 3 {
			w.reach, w.leaf = true, e
			w.mapped = e&1 != 0
			w.effRW = w.effRW && e&2 != 0
			return
		}
		if e&1 == 0 {
			return
		}
		w.up[lvl] = 1
		w.effRW = w.effRW && e&2 != 0
		table = e & xbFrameMask
	}
	return
}

func (m *xbMachine) xlate(root, va uintptr) (uintptr, bool) {
	w := m.walkVA(root, va)
	if !w.mapped {
		return 0, false
	}
	return w.leaf&xbFrameMask + va&4095, true
}

// ---- the TLB: host aliases of the window pages and of the observed low-half pages

func (m *xbMachine) inWindow(kva uintptr) bool {
	return kva >= m.tmpAddr-xbWinPages*4096 && kva < m.tmpAddr+4096
}

func (m *xbMachine) toHost(kva uintptr) uintptr {
	if !m.inWindow(kva) {
		panic(fmt.Sprintf("harness limit: kernel address %x outside the aliased window", kva))
	}
	return kva - m.tmpAddr + m.winTop
}

func (m *xbMachine) toKernel(host uintptr) uintptr {
	if host < m.winTop-xbWinPages*4096 || host >= m.winTop+4096 {
		panic(fmt.Sprintf("harness limit: host address %x outside the aliased window", host))
	}
	return host - m.winTop + m.tmpAddr
}

func (m *xbMachine) syncOne(a *xbAlias, host, va uintptr) {
	w := m.walkVA(m.active, va)
	frame, prot := uintptr(0), syscall.PROT_NONE
	if w.mapped && m.inRAM((w.leaf&xbFrameMask)>>12) {
		frame, prot = (w.leaf&xbFrameMask)>>12, syscall.PROT_READ
		if w.effRW {
			prot |= syscall.PROT_WRITE
		}
	}
	if a.frame == frame && a.prot == prot {
		return
	}
	var err error
	if prot == syscall.PROT_NONE {
		_, err = xbMmap(host, 4096, prot, syscall.MAP_PRIVATE|syscall.MAP_ANON|xbMapFixed, -1, 0)
	} else {
		_, err = xbMmap(host, 4096, prot, syscall.MAP_SHARED|xbMapFixed, m.fd, int64(frame-m.base>>12)*4096)
	}
	if err != nil {
		panic("harness: alias mmap failed: " + err.Error())
	}
	a.frame, a.prot = frame, prot
}

func (m *xbMachine) syncAddr(va uintptr) {
	va &^= 4095
	if m.inWindow(va) {
		i := (va - (m.tmpAddr - xbWinPages*4096)) >> 12
		m.syncOne(&m.win[i], m.toHost(va), va)
		return
	}
	for i := 1; i <= xbNU; i++ {
		if xbUVA[i] == va {
			m.syncOne(&m.uni[i], va, va)
		}
	}
}

func (m *xbMachine) syncAll() {
	for i := 0; i <= xbWinPages; i++ {
		va := m.tmpAddr - xbWinPages*4096 + uintptr(i)*4096
		m.syncOne(&m.win[i], m.toHost(va), va)
	}
	for i := 1; i <= xbNU; i++ {
		m.syncOne(&m.uni[i], xbUVA[i], xbUVA[i])
	}
}

// install binds the hardware seams of vmm to the machine and pmm's two seams to the REAL vmm
// functions composed with the window address translation.  Returns the undo function.
func (m *xbMachine) install() func() {
	undoVmm := vmm.VerifXbInstall(vmm.VerifXbSeams{
		PtePtr: func(entryAddr uintptr) unsafe.Pointer {
			pa, ok := m.xlate(m.active, entryAddr)
			if !ok {
				panic(fmt.Sprintf("page fault: access to unmapped address %x", entryAddr))
			}
			m.lastPTE = unsafe.Pointer(pa)
			return m.lastPTE
		},
		// the table the entry just handed out points to, reached through its identity alias
		NextAddr:      func(uintptr) uintptr { return *(*uintptr)(m.lastPTE) & xbFrameMask },
		FlushTLBEntry: func(a uintptr) { m.syncAddr(a) },
		ActivePDT:     func() uintptr { return m.active },
		SwitchPDT: func(a uintptr) {
			m.active = a
			m.syncAll()
		},
		ReadCR2:         func() uint64 { return m.cr2 },
		HandleInterrupt: func(n gate.InterruptNumber, _ uint8, h func(*gate.Registers)) { m.handlers[n] = h },
		MapTemporary: func(f mm.Frame) (mm.Page, *kernel.Error) {
			m.syncAll() // a TLB may drop entries at any time: the aliases follow the page tables at every seam
			p, err := vmm.MapTemporary(f)
			if err != nil {
				return 0, err
			}
			pa, ok := m.xlate(m.active, p.Address())
			if !ok {
				panic("page fault: temporary page not mapped")
			}
			m.tmpAlias = mm.Page(pa >> 12)
			return m.tmpAlias, nil
		},
		Unmap: func(p mm.Page) *kernel.Error {
			m.syncAll()
			if p == m.tmpAlias {
				p = mm.PageFromAddress(m.tmpAddr)
			}
			return vmm.Unmap(p)
		},
	})
	o1, o2 := reserveRegionFn, mapFn
	reserveRegionFn = func(size uintptr) (uintptr, *kernel.Error) {
		kva, err := vmm.EarlyReserveRegion(size)
		if err != nil {
			return 0, err
		}
		return m.toHost(kva), nil
	}
	mapFn = func(page mm.Page, frame mm.Frame, flags vmm.PageTableEntryFlag) *kernel.Error {
		return vmm.Map(mm.PageFromAddress(m.toKernel(page.Address())), frame, flags)
	}
	kfmt.SetOutputSink(io.Discard)
	old := debug.SetPanicOnFault(true)
	return func() {
		debug.SetPanicOnFault(old)
		kfmt.SetOutputSink(nil)
		reserveRegionFn, mapFn = o1, o2
		undoVmm()
		mm.SetFrameAllocator(nil)
		multiboot.SetInfoPtr(0)
		bootMemAllocator = BootMemAllocator{}
		bitmapAllocator = BitmapAllocator{}
	}
}

// ---------------------------------------------------------------- multiboot encoder

type xbReg struct {
	A uint64 `json:"a"` // physical address relative to the first frame of the machine
	L uint64 `json:"l"`
	T uint32 `json:"t"`
}

type xbSec struct {
	Kind int    `json:"kind"` // 0: virtual address = kernel offset + physical address (A relative to the machine); 1: A is the virtual address itself
	A    uint64 `json:"a"`
	Sz   uint64 `json:"sz"`
	Fl   uint64 `json:"fl"` // raw ELF sh_flags (bit0 W, bit1 A, bit2 X, others arbitrary)
}

type xbCase struct {
	Regs   []xbReg `json:"regs"`
	Ks     uint64  `json:"ks"` // kernel image [ks, ke), relative physical addresses
	Ke     uint64  `json:"ke"`
	Off    uint64  `json:"off"`
	Secs   []xbSec `json:"secs"`
	Script [][]int `json:"script"`
}

func (m *xbMachine) secAddr(c *xbCase, s xbSec) uint64 {
	if s.Kind == 0 {
		return c.Off + uint64(m.base) + s.A
	}
	return s.A
}

// setInfo encodes memory map (tag 6) and ELF section table (tag 9, 64-byte headers, section 0 = string table holder)
func (m *xbMachine) setInfo(c *xbCase) {
	le := binary.LittleEndian
	b := make([]byte, 8)
	tag := make([]byte, 16)
	le.PutUint32(tag[0:], 6)
	le.PutUint32(tag[4:], uint32(16+24*len(c.Regs)))
	le.PutUint32(tag[8:], 24)
	b = append(b, tag...)
	for _, r := range c.Regs {
		e := make([]byte, 24)
		le.PutUint64(e[0:], uint64(m.base)+r.A)
		le.PutUint64(e[8:], r.L)
		le.PutUint32(e[16:], r.T)
		b = append(b, e...)
	}
	for len(b)%8 != 0 {
		b = append(b, 0)
	}
	m.strtab = []byte{0}
	nameIdx := make([]uint32, len(c.Secs))
	for i := range c.Secs {
		nameIdx[i] = uint32(len(m.strtab))
		m.strtab = append(m.strtab, []byte(".s"+strconv.Itoa(i))...)
		m.strtab = append(m.strtab, 0)
	}
	n := len(c.Secs) + 1
	tagSize := 8 + 12 + 64*n
	et := make([]byte, tagSize)
	le.PutUint32(et[0:], 9)
	le.PutUint32(et[4:], uint32(tagSize))
	le.PutUint16(et[8:], uint16(n))
	le.PutUint32(et[12:], 64)
	le.PutUint32(et[16:], 0)
	sh := et[20:]
	le.PutUint32(sh[4:], 3)
	le.PutUint64(sh[16:], uint64(uintptr(unsafe.Pointer(&m.strtab[0]))))
	for i, s := range c.Secs {
		h := sh[64*(i+1):]
		le.PutUint32(h[0:], nameIdx[i])
		le.PutUint32(h[4:], 1)
		le.PutUint64(h[8:], s.Fl)
		le.PutUint64(h[16:], m.secAddr(c, s))
		le.PutUint64(h[32:], s.Sz)
		le.PutUint64(h[48:], 4096)
	}
	b = append(b, et...)
	for len(b)%8 != 0 {
		b = append(b, 0)
	}
	b = append(b, 0, 0, 0, 0, 8, 0, 0, 0)
	le.PutUint32(b[0:], uint32(len(b)))
	m.info = make([]uint64, (len(b)+7)/8)
	dst := (*[1 << 20]byte)(unsafe.Pointer(&m.info[0]))[:len(b):len(b)]
	copy(dst, b)
	multiboot.SetInfoPtr(uintptr(unsafe.Pointer(&m.info[0])))
}

// ---------------------------------------------------------------- projection (the only trusted logic)

// enumerate lists every page root translates (top-level slot 511, the recursive window, excluded) and the
// frame of every page table below the root; bad counts present entries that point outside physical memory.
func (m *xbMachine) enumerate(root uintptr) (walk []xbEv, tables []int, bad int) {
	walk, tables = []xbEv{}, []int{}
	var rec func(table uintptr, lvl uint, va uintptr, rw, us, nx bool)
	rec = func(table uintptr, lvl uint, va uintptr, rw, us, nx bool) {
		top := 512
		if lvl == 0 {
			top = 511
		}
		for i := 0; i < top; i++ {
			e := *(*uintptr)(unsafe.Pointer(table + uintptr(i)*8))
			if e&1 == 0 {
				continue
			}
			v := va | uintptr(i)<<(39-9*lvl)
			r, u, n := rw && e&2 != 0, us && e&4 != 0, nx || e>>63 != 0
			if lvl == 3 {
				if len(walk) >= xbWalkCap {
					bad++
					return
				}
				if v>>47&1 != 0 {
					v |= 0xffff000000000000
				}
				walk = append(walk, xbEv{"p": xbW64(uint64(v >> 12)), "f": xbW64(uint64((e & xbFrameMask) >> 12)),
					"fl": [3]int{xbB(r), xbB(u), xbB(n)}, "lus": xbB(e&4 != 0), "cow": xbB(e&(1<<9) != 0)})
				continue
			}
			if !m.inRAM((e&xbFrameMask)>>12) || len(tables) >= xbWalkCap {
				bad++
				continue
			}
			tables = append(tables, int((e&xbFrameMask)>>12))
			rec(e&xbFrameMask, lvl+1, v, r, u, n)
		}
	}
	if !m.inRAM(root >> 12) {
		return walk, tables, 1
	}
	rec(root, 0, 0, true, true, false)
	return
}

// reservedFrames reads the allocator's bitmaps (through the window, i.e. through the active address space)
func xbReservedFrames() (out []int, fault int) {
	out = []int{}
	defer func() {
		if r := recover(); r != nil {
			fault = 1
		}
	}()
	for _, p := range bitmapAllocator.pools {
		for f := p.startFrame; f <= p.endFrame && f >= p.startFrame; f++ {
			rel := f - p.startFrame
			if p.freeBitmap[rel>>6]&(1<<(63-(rel&63))) != 0 {
				out = append(out, int(f))
			}
		}
	}
	return
}

// allocatorPages: the kernel pages the allocator's own tables (pool headers + bitmaps) occupy, by its own pointers
func (m *xbMachine) allocatorPages() [][4]int {
	out := [][4]int{}
	lo := bitmapAllocator.poolsHdr.Data
	if lo == 0 {
		return out
	}
	hi := lo + uintptr(bitmapAllocator.poolsHdr.Len)*unsafe.Sizeof(framePool{})
	func() {
		defer func() { recover() }()
		for _, p := range bitmapAllocator.pools {
			if e := p.freeBitmapHdr.Data + uintptr(p.freeBitmapHdr.Len)*8; e > hi {
				hi = e
			}
		}
	}()
	if lo < m.winTop-xbWinPages*4096 || hi > m.winTop+4096 || hi <= lo {
		return append(out, xbW64(uint64(lo>>12)))
	}
	for a := lo &^ 4095; a < hi; a += 4096 {
		out = append(out, xbW64(uint64(m.toKernel(a)>>12)))
	}
	return out
}

func (m *xbMachine) counters(e xbEv) {
	e["total"] = int(bitmapAllocator.totalPages)
	e["reserved"] = int(bitmapAllocator.reservedPages)
	e["lock"] = int(*(*uint32)(unsafe.Pointer(&bitmapAllocator.mutex)))
}

func (m *xbMachine) zeroFilled(frame uintptr) int {
	if !m.inRAM(frame) {
		return 0
	}
	for _, x := range (*[512]uint64)(unsafe.Pointer(frame << 12)) {
		if x != 0 {
			return 0
		}
	}
	return 1
}

// snapshot adds the projected state of both packages to an event
func (m *xbMachine) snapshot(e xbEv) {
	m.counters(e)
	e["resv"], e["rfault"] = xbReservedFrames()
	e["apg"] = m.allocatorPages()
	e["cursor"] = xbW64(uint64(vmm.VerifXbEarlyCursor() >> 12))
	e["root"] = int(m.active >> 12)
	e["walk"], e["tables"], e["bad"] = m.enumerate(m.active)
	_, e["btables"], _ = m.enumerate(m.bootRoot)
	z := uintptr(vmm.ReservedZeroedFrame)
	e["zero"] = int(z)
	e["zfill"] = m.zeroFilled(z)
	e["prot"] = xbB(vmm.VerifXbProtected())
	e["kroot"] = int(vmm.VerifXbKernelPDTFrame())
}

// pageRec: the hardware walk of one address
func (m *xbMachine) pageRec(va uintptr) xbEv {
	w := m.walkVA(m.active, va)
	r := xbEv{"up": w.up, "m": 0, "f": 0, "rw": 0, "cow": 0, "nx": 0, "us": 0}
	if w.reach && w.mapped {
		r["m"], r["f"] = 1, int((w.leaf&xbFrameMask)>>12)
		r["rw"], r["cow"], r["nx"], r["us"] = xbB(w.leaf&2 != 0), xbB(w.leaf&(1<<9) != 0), xbB(w.leaf>>63 != 0), xbB(w.leaf&4 != 0)
	}
	return r
}

// ---------------------------------------------------------------- driving the real code

func xbCall(f func() string) (res string) {
	defer func() {
		if r := recover(); r != nil {
			if _, ok := r.(*kernel.Error); ok {
				res = "panic"
			} else {
				res = fmt.Sprintf("crash: %v", r)
				if len(res) > 160 {
					res = res[:160]
				}
			}
		}
	}()
	return f()
}

// xbErr turns an error into a symbolic result by IDENTITY (the package's own error values, which vmm passes
// through unchanged); diagnostic wording never decides anything.
func xbErr(err *kernel.Error) string {
	switch err {
	case nil:
		return "ok"
	case errBootAllocOutOfMemory, errBitmapAllocOutOfMemory:
		return "oom"
	case errBitmapAllocFrameNotManaged:
		return "notmanaged"
	case errBitmapAllocDoubleFree:
		return "doublefree"
	}
	return "other"
}

type xbDriver struct {
	m    *xbMachine
	enc  *json.Encoder
	n    int
	held []mm.Frame
	free []mm.Frame // frames the driver gave back (for double-free attempts)
}

func (d *xbDriver) emit(e xbEv) {
	d.enc.Encode(e)
	d.n++
}

func (d *xbDriver) alloc() (mm.Frame, string) {
	e := xbEv{"k": "alloc", "f": 0}
	var fr mm.Frame
	res := xbCall(func() string {
		f, err := mm.AllocFrame() // whatever allocator the boot path registered
		if err != nil {
			return xbErr(err)
		}
		fr = f
		e["f"] = int(f)
		return "ok"
	})
	e["res"] = res
	d.m.counters(e)
	d.emit(e)
	if res == "ok" {
		d.held = append(d.held, fr)
		for j, x := range d.free {
			if x == fr {
				d.free = append(d.free[:j], d.free[j+1:]...)
				break
			}
		}
	}
	return fr, res
}

func (d *xbDriver) freeFrame(f mm.Frame) string {
	e := xbEv{"k": "free", "f": int(f)}
	res := xbCall(func() string {
		if err := bitmapAllocator.FreeFrame(f); err != nil {
			return xbErr(err)
		}
		return "ok"
	})
	e["res"] = res
	d.m.counters(e)
	d.emit(e)
	return res
}

// drain: allocate until the allocator reports out of memory (one event with every frame handed out),
// then one more single allocation (out-of-memory must be stable)
func (d *xbDriver) drain() string {
	fs := []int{}
	e := xbEv{"k": "drain"}
	res := xbCall(func() string {
		for i := 0; i < 3*xbNFrames; i++ {
			f, err := mm.AllocFrame()
			if err != nil {
				return xbErr(err)
			}
			fs = append(fs, int(f))
			d.held = append(d.held, f)
		}
		return "endless"
	})
	d.free = nil
	e["res"], e["fs"] = res, fs
	d.m.counters(e)
	d.emit(e)
	if res == "oom" {
		_, res = d.alloc()
	}
	return res
}

// freeAll: give back every frame the driver holds, in random order (one event)
func (d *xbDriver) freeAll() string {
	fs := []int{}
	e := xbEv{"k": "freeall"}
	res := xbCall(func() string {
		for len(d.held) > 0 {
			f := d.takeHeld(d.m.rng.Intn(len(d.held)))
			fs = append(fs, int(f))
			if err := bitmapAllocator.FreeFrame(f); err != nil {
				return xbErr(err)
			}
		}
		return "ok"
	})
	e["res"], e["fs"] = res, fs
	d.m.counters(e)
	d.emit(e)
	return res
}

func (d *xbDriver) takeHeld(j int) mm.Frame {
	f := d.held[j]
	d.held = append(d.held[:j], d.held[j+1:]...)
	d.free = append(d.free, f)
	return f
}

// mapPage: one call of the real vmm.Map on an observed page; frame 0 = the reserved zero frame
func (d *xbDriver) mapPage(u int, frame mm.Frame, flags vmm.PageTableEntryFlag, what string) string {
	m := d.m
	res := xbCall(func() string { return xbErr(vmm.Map(mm.PageFromAddress(xbUVA[u]), frame, flags)) })
	e := xbEv{"k": "map", "what": what, "u": u, "p": xbW64(uint64(xbUVA[u] >> 12)), "fr": int(frame), "res": res, "pg": m.pageRec(xbUVA[u])}
	_, e["tables"], e["bad"] = m.enumerate(m.active)
	m.counters(e)
	d.emit(e)
	return res
}

func (d *xbDriver) fault(u int, off int, code uint64) string {
	m := d.m
	addr := xbUVA[u] + uintptr(off&4095)
	pre := m.pageRec(addr)
	prez := 0
	if pre["m"] == 1 {
		prez = m.zeroFilled(uintptr(pre["f"].(int)))
	}
	m.cr2 = uint64(addr)
	regs := gate.Registers{Info: code, RIP: 0xffff800000123456}
	h := m.handlers[gate.PageFaultException]
	res := "nohandler"
	if h != nil {
		res = xbCall(func() string { h(&regs); return "resume" })
	}
	post := m.pageRec(addr)
	e := xbEv{"k": "fault", "u": u, "p": xbW64(uint64(xbUVA[u] >> 12)), "code": int(code & 0xffff), "pre": pre, "prez": prez, "pg": post, "res": res, "postz": 0}
	if post["m"] == 1 {
		e["postz"] = m.zeroFilled(uintptr(post["f"].(int)))
	}
	_, e["tables"], e["bad"] = m.enumerate(m.active)
	e["zfill"] = m.zeroFilled(uintptr(vmm.ReservedZeroedFrame))
	m.counters(e)
	d.emit(e)
	return res
}

// store: the resumed code writes through the page (through the alias, as the CPU would)
func (d *xbDriver) store(u int) {
	m := d.m
	w := m.walkVA(m.active, xbUVA[u])
	if !w.mapped || !w.effRW || !m.inRAM((w.leaf&xbFrameMask)>>12) {
		return
	}
	res := xbCall(func() string {
		buf := (*[4096]byte)(unsafe.Pointer(xbUVA[u]))[:]
		m.rng.Read(buf[:64])
		return "ok"
	})
	e := xbEv{"k": "store", "u": u, "res": res, "zfill": m.zeroFilled(uintptr(vmm.ReservedZeroedFrame))}
	d.emit(e)
}

// Script ops: [0] alloc  [1,i] free the i-th held frame  [2,i] free again a frame given back earlier
// [3] allocate until out of memory (twice out of memory)  [4] free everything held  [5,f] free frame base+f (replays)
// [6,u] map page u lazily (zero frame, present + copy-on-write + no-execute, as goruntime's sysMap does)
// [7,u,off] write fault on page u  [8,u] allocate a frame and map it writable at page u  [9,u] store through page u
// [10] full snapshot  [11,u] read fault (code 0) on page u  [12,u] unmap page u and give its private frame back
func (d *xbDriver) runScript(script [][]int) {
	m := d.m
	zero := func() mm.Frame { return vmm.ReservedZeroedFrame }
	private := map[int]mm.Frame{}
	for _, op := range script {
		a := func(i int) int {
			if i < len(op) {
				return op[i]
			}
			return 0
		}
		u := 1 + (a(1)%xbNU+xbNU)%xbNU
		res := ""
		if op[0] >= 6 && op[0] != 9 && op[0] != 10 {
			// vmm may take frames from the allocator now: a frame the driver gave back earlier may get a new
			// owner, so it is no longer a candidate for the driver's double-free attempts
			d.free = nil
		}
		switch op[0] {
		case 0:
			_, res = d.alloc()
		case 1:
			if len(d.held) == 0 {
				continue
			}
			res = d.freeFrame(d.takeHeld(a(1) % len(d.held)))
		case 2:
			if len(d.free) == 0 {
				continue
			}
			res = d.freeFrame(d.free[a(1)%len(d.free)])
		case 3:
			res = d.drain()
		case 4:
			res = d.freeAll()
		case 5:
			f := mm.Frame(m.base>>12) + mm.Frame(a(1))
			for j, h := range d.held {
				if h == f {
					d.takeHeld(j)
					break
				}
			}
			res = d.freeFrame(f)
		case 6:
			if _, ok := private[u]; ok {
				continue
			}
			res = d.mapPage(u, zero(), vmm.FlagPresent|vmm.FlagCopyOnWrite|vmm.FlagNoExecute, "lazy")
		case 7, 11:
			code := uint64(3)
			if op[0] == 11 {
				code = 0
			}
			before := m.pageRec(xbUVA[u])
			res = d.fault(u, a(2), code)
			after := m.pageRec(xbUVA[u])
			if res == "resume" && after["m"] == 1 && after["f"] != before["f"] {
				private[u] = mm.Frame(after["f"].(int))
			}
			if res != "resume" {
				res = "panic" // the kernel is dead
			}
		case 8:
			if _, ok := private[u]; ok {
				continue
			}
			f, r := d.alloc()
			if r != "ok" {
				res = r
				break
			}
			if res = d.mapPage(u, f, vmm.FlagPresent|vmm.FlagRW|vmm.FlagNoExecute, "own"); res == "ok" {
				d.held = d.held[:len(d.held)-1] // ownership goes to the mapping
				private[u] = f
			}
		case 9:
			d.store(u)
		case 10:
			e := xbEv{"k": "snap"}
			m.snapshot(e)
			d.emit(e)
		case 12:
			f, ok := private[u]
			if !ok {
				continue
			}
			delete(private, u)
			r := xbCall(func() string { return xbErr(vmm.Unmap(mm.PageFromAddress(xbUVA[u]))) })
			e := xbEv{"k": "unmap", "u": u, "p": xbW64(uint64(xbUVA[u] >> 12)), "res": r, "pg": m.pageRec(xbUVA[u])}
			d.emit(e)
			d.free = append(d.free, f)
			res = d.freeFrame(f)
		}
		if res == "panic" || res == "endless" || (len(res) > 5 && res[:5] == "crash") {
			break // a panic leaves the allocator's lock / the kernel in an undefined state
		}
	}
}

// run: one boot in kernel order, then the script
func (d *xbDriver) run(c xbCase) {
	m := d.m
	cj, _ := json.Marshal(c)
	defer func() {
		d.emit(xbEv{"k": "reset", "case": string(cj), "leg": os.Getenv("VERIF_LEG")})
	}()
	// power-on state of the machine and of the three packages
	mm.SetFrameAllocator(nil)
	bootMemAllocator = BootMemAllocator{}
	bitmapAllocator = BitmapAllocator{}
	vmm.VerifXbPowerOn()
	d.held, d.free = nil, nil
	m.powerOn()
	m.setInfo(&c) // multiboot.SetInfoPtr

	regs := []xbEv{}
	for _, r := range c.Regs {
		regs = append(regs, xbEv{"a": xbW64(uint64(m.base) + r.A), "l": xbW64(r.L), "t": [2]int{int(r.T >> 16), int(r.T & 0xffff)}})
	}
	secs := []xbEv{}
	for _, s := range c.Secs {
		secs = append(secs, xbEv{"a": xbW64(m.secAddr(&c, s)), "sz": xbW64(s.Sz), "fl": int(s.Fl & 0xffff)})
	}
	ks, ke := uint64(m.base)+c.Ks, uint64(m.base)+c.Ke
	upg := [][4]int{}
	for i := 1; i <= xbNU; i++ {
		upg = append(upg, xbW64(uint64(xbUVA[i]>>12)))
	}
	d.emit(xbEv{"k": "boot", "regs": regs, "ks": xbW64(ks), "ke": xbW64(ke), "off": xbW64(c.Off), "secs": secs,
		"tmp": xbW64(uint64(m.tmpAddr >> 12)), "base": int(m.base >> 12), "nfr": xbNFrames, "broot": int(m.bootRoot >> 12), "upg": upg})

	// pmm.Init(kernelStart, kernelEnd)
	res := xbCall(func() string { return xbErr(Init(uintptr(ks), uintptr(ke))) })
	e := xbEv{"k": "pmm", "res": res}
	m.snapshot(e)
	d.emit(e)
	if res != "ok" {
		return
	}
	// vmm.Init(kernelPageOffset)
	res = xbCall(func() string { return xbErr(vmm.Init(uintptr(c.Off))) })
	e = xbEv{"k": "vmm", "res": res}
	m.snapshot(e)
	d.emit(e)
	if res != "ok" {
		return
	}
	d.runScript(c.Script)
	e = xbEv{"k": "snap"}
	m.snapshot(e)
	d.emit(e)
}

func xbSetup(t *testing.T) (*xbDriver, func()) {
	p := os.Getenv("TRACE_OUT")
	if p == "" {
		t.Skip("TRACE_OUT not set")
	}
	out, err := os.Create(p)
	if err != nil {
		t.Fatal(err)
	}
	w := bufio.NewWriterSize(out, 1<<20)
	m := xbNewMachine(t)
	undo := m.install()
	seed, _ := strconv.ParseInt(os.Getenv("VERIF_SEED"), 10, 64)
	m.rng = rand.New(rand.NewSource(seed*15485863 + 11))
	d := &xbDriver{m: m, enc: json.NewEncoder(w)}
	return d, func() {
		undo()
		m.close()
		w.Flush()
		out.Close()
	}
}

// ---------------------------------------------------------------- leg G: configurations emitted by TLC

// Model address units -> bytes.  A model page has 4 units; unit offsets 0,1,2,3 inside a page become byte
// offsets 0,1,2048,4095 (monotone, keeps page numbers and page alignment).
func xbBytes(u uint64) uint64 {
	return (u/4)*4096 + [4]uint64{0, 1, 2048, 4095}[u%4]
}

type xbModelCase struct {
	Regs []struct{ A, L, T uint64 }   `json:"regs"`
	Ks   uint64                       `json:"ks"`
	Ke   uint64                       `json:"ke"`
	Off  uint64                       `json:"off"`
	Secs []struct{ A, Sz, Fl uint64 } `json:"secs"`
	// model script ops are the same numbers as the real ones
	Script [][]int `json:"script"`
}

const xbRealOffset = uint64(0xffff800000000000)

func xbFromModel(mc xbModelCase) xbCase {
	c := xbCase{Off: xbRealOffset, Ks: xbBytes(mc.Ks), Ke: xbBytes(mc.Ke), Script: mc.Script}
	if mc.Off == 0 {
		c.Off = 0
	}
	for _, r := range mc.Regs {
		c.Regs = append(c.Regs, xbReg{A: xbBytes(r.A), L: xbBytes(r.A+r.L) - xbBytes(r.A), T: uint32(r.T)})
	}
	for _, s := range mc.Secs {
		if s.A >= mc.Off {
			a := xbBytes(s.A - mc.Off)
			c.Secs = append(c.Secs, xbSec{Kind: 0, A: a, Sz: xbBytes(s.A+s.Sz-mc.Off) - a, Fl: s.Fl})
		} else {
			a := 0x100000 + xbBytes(s.A)
			c.Secs = append(c.Secs, xbSec{Kind: 1, A: a, Sz: 0x100000 + xbBytes(s.A+s.Sz) - a, Fl: s.Fl})
		}
	}
	return c
}

func TestVerifXbCases(t *testing.T) {
	d, done := xbSetup(t)
	defer done()
	in, err := os.Open(os.Getenv("CASES"))
	if err != nil {
		t.Fatal(err)
	}
	defer in.Close()
	raw := os.Getenv("VERIF_RAW") == "1"
	sc := bufio.NewScanner(in)
	sc.Buffer(make([]byte, 1<<20), 1<<26)
	n := 0
	for sc.Scan() {
		line := sc.Bytes()
		if len(line) == 0 {
			continue
		}
		if line[0] == '"' {
			var s string
			if err := json.Unmarshal(line, &s); err != nil {
				t.Fatal(err)
			}
			line = []byte(s)
		}
		var c xbCase
		if raw {
			if err := json.Unmarshal(line, &c); err != nil {
				t.Fatal(err)
			}
		} else {
			var mc xbModelCase
			if err := json.Unmarshal(line, &mc); err != nil {
				t.Fatalf("bad case %q: %v", line, err)
			}
			c = xbFromModel(mc)
		}
		d.run(c)
		n++
	}
	os.Stdout.WriteString("VERIF-STATS cases=" + strconv.Itoa(n) + " events=" + strconv.Itoa(d.n) + "\n")
}

// ---------------------------------------------------------------- leg T: random machines at real scale

var xbCounts = []uint64{1, 2, 3, 5, 8, 13, 20, 24, 30, 40, 63, 64, 65, 100, 127, 128, 129}

func xbRandomCase(rng *rand.Rand, idx int) (c xbCase, ok bool) {
	// memory map: sorted, non-overlapping, inside the machine, frame 0 (boot page tables) never available
	cur := uint64(4096) * uint64(1+rng.Intn(4))
	many := idx%8 == 5 // many tiny pools: the allocator's tables need more than one page
	n := 1 + rng.Intn(5)
	if many {
		n = 70 + rng.Intn(40)
	}
	limit := uint64(xbNFrames) * 4096
	type av struct{ first, last uint64 }
	var avail []av
	for i := 0; i < n && cur < limit-8192; i++ {
		if rng.Intn(3) == 0 {
			cur += uint64(rng.Intn(3)) * 4096 // hole
		}
		if rng.Intn(4) == 0 {
			cur += uint64(rng.Intn(4096)) // unaligned start
		}
		var ln uint64
		switch {
		case many:
			ln = uint64(1+rng.Intn(3)) * 4096
		case rng.Intn(8) == 0:
			ln = uint64(1 + rng.Intn(4095)) // smaller than a page
		default:
			ln = xbCounts[rng.Intn(len(xbCounts))] * 4096
		}
		if rng.Intn(4) == 0 {
			ln += uint64(rng.Intn(4096))
		}
		if cur+ln > limit {
			ln = limit - cur
		}
		typ := uint32(1)
		if rng.Intn(4) == 0 && !(many && rng.Intn(3) != 0) {
			typ = []uint32{2, 3, 4, 5, 0, 7, 0x80000001}[rng.Intn(7)]
		}
		first, last := (cur+4095)&^4095, (cur+ln)&^4095
		if typ == 1 && last > first {
			avail = append(avail, av{first, last})
		}
		c.Regs = append(c.Regs, xbReg{A: cur, L: ln, T: typ})
		cur += ln
	}
	if len(avail) == 0 {
		return c, false
	}
	// kernel image inside one available region
	kr := avail[rng.Intn(len(avail))]
	nfr := (kr.last - kr.first) / 4096
	klen := uint64(1 + rng.Intn(12))
	if klen > nfr {
		klen = nfr
	}
	var koff uint64
	switch rng.Intn(4) {
	case 0:
		koff = 0
	case 1:
		koff = nfr - klen
	default:
		koff = uint64(rng.Intn(int(nfr - klen + 1)))
	}
	c.Ks = kr.first + koff*4096
	c.Ke = c.Ks + klen*4096
	if rng.Intn(2) == 0 {
		c.Ke -= uint64(rng.Intn(4095))
	}
	switch rng.Intn(8) {
	case 0:
		c.Off = 0xffff900000000000
	case 1:
		c.Off = 0xffff800000000000 + 0x1ff<<21 // straddles page-table boundaries
	default:
		c.Off = xbRealOffset
	}
	// ELF sections tile the image: linker-like (page-aligned blocks) or with gaps and unaligned starts;
	// no two sections share a page
	flagsets := []uint64{6, 2, 3, 3, 2, 7, 0x32, 0x13}
	pos := c.Ks
	for pos < c.Ke && len(c.Secs) < 8 {
		room := c.Ke - pos
		sz := uint64(1 + rng.Intn(3*4096))
		if rng.Intn(3) == 0 {
			sz = []uint64{1, 4095, 4096, 4097, 8192}[rng.Intn(5)]
		}
		if sz > room {
			sz = room
		}
		a := pos
		if rng.Intn(4) == 0 && room > sz+200 {
			a += uint64(rng.Intn(200))
		}
		fl := flagsets[rng.Intn(len(flagsets))]
		if rng.Intn(8) == 0 {
			fl &^= 2 // not loaded
		}
		c.Secs = append(c.Secs, xbSec{Kind: 0, A: a, Sz: sz, Fl: fl})
		pos = (a+sz+4095)&^4095 + uint64(rng.Intn(2))*4096*uint64(rng.Intn(2))
	}
	if rng.Intn(3) == 0 {
		// sections that do not use the kernel's virtual range (multiboot header, debug info at address 0 ...)
		c.Secs = append(c.Secs, xbSec{Kind: 1, A: 0x100000 + uint64(rng.Intn(4096)), Sz: uint64(1 + rng.Intn(8192)), Fl: uint64(rng.Intn(8))})
	}
	if rng.Intn(2) == 0 {
		rng.Shuffle(len(c.Secs), func(i, j int) { c.Secs[i], c.Secs[j] = c.Secs[j], c.Secs[i] })
	}
	// what the kernel does next
	nops := 6 + rng.Intn(40)
	if rng.Intn(5) == 0 {
		c.Script = append(c.Script, []int{3})
	}
	lazy := map[int]bool{} // (generator's own bookkeeping of what it asked for: write faults mostly hit lazily mapped pages)
	for i := 0; i < nops; i++ {
		u := rng.Intn(xbNU)
		switch r := rng.Intn(100); {
		case r < 20:
			c.Script = append(c.Script, []int{0})
		case r < 32:
			c.Script = append(c.Script, []int{1, rng.Intn(1 << 16)})
		case r < 36:
			c.Script = append(c.Script, []int{2, rng.Intn(1 << 16)})
		case r < 38:
			c.Script = append(c.Script, []int{3})
			if rng.Intn(4) != 0 {
				c.Script = append(c.Script, []int{4})
			}
		case r < 42:
			c.Script = append(c.Script, []int{4})
		case r < 60:
			c.Script = append(c.Script, []int{6, u})
			lazy[u] = true
		case r < 80:
			if len(lazy) == 0 {
				c.Script = append(c.Script, []int{6, u})
				lazy[u] = true
				continue
			}
			for !lazy[u] {
				u = rng.Intn(xbNU)
			}
			c.Script = append(c.Script, []int{7, u, rng.Intn(4096)})
			delete(lazy, u)
		case r < 86:
			c.Script = append(c.Script, []int{8, u})
			delete(lazy, u)
		case r < 91:
			c.Script = append(c.Script, []int{9, u})
		case r < 94:
			c.Script = append(c.Script, []int{10})
		case r < 95:
			if i > nops-3 { // a fault that cannot be recovered kills the kernel: only near the end of a script
				c.Script = append(c.Script, []int{[]int{7, 11}[rng.Intn(2)], u, rng.Intn(4096)})
			}
		default:
			c.Script = append(c.Script, []int{12, u})
		}
	}
	c.Script = append(c.Script, []int{3}, []int{4}, []int{0})
	return c, true
}

func TestVerifXbRandom(t *testing.T) {
	d, done := xbSetup(t)
	defer done()
	n, _ := strconv.Atoi(os.Getenv("NTRACES"))
	if n == 0 {
		n = 30
	}
	for i := 0; i < n; i++ {
		c, ok := xbRandomCase(d.m.rng, i)
		if !ok {
			i--
			continue
		}
		d.run(c)
	}
	os.Stdout.WriteString("VERIF-STATS cases=" + strconv.Itoa(n) + " events=" + strconv.Itoa(d.n) + "\n")
}
