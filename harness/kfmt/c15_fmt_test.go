//go:build verif
// +build verif

package kfmt

// Conformance harness for C15 (kernel printf).  It contains no oracle: it
// turns an abstract case (format bytes, tagged argument values) into Go
// values, calls the REAL Fprintf on a pre-sized recording writer, recovers
// panics, measures heap allocations with testing.AllocsPerRun and logs one
// JSON event per case:
//   {"k":"fmt","f":[bytes],"a":[{ty,neg,mag,s,bv}...],"out":[[byte,count]...],"panic":bool,"hang":bool,"allocs":n}
// Output and string contents are logged run-length encoded (a lossless
// re-encoding; a 10^6-byte padding is one pair).  Integers are logged as
// sign + magnitude in four 16-bit limbs (TLC's JSON reader truncates >= 2^31).
// The events are judged by the TLA+ monitor specs/kfmt/KfmtTrace.tla.
//
//   TestVerifC15Cases   replays the cases TLC emitted from KfmtModel (leg G)
//   TestVerifC15Random  seeded random cases at real scale (leg T), followed by the
//                       "local argument" shapes: call sites whose arguments live in the
//                       caller's own stack frame (escape analysis of Fprintf/doWrite decides
//                       whether such a call allocates)
//
// A formatter that does not return is a verdict, not a machinery failure: the
// cases run in a child process (this binary re-executed with C15_CHILD=1); a
// watchdog goroutine decides by CPU time, logs the running case with
// "hang":true and exits; the parent restarts the child behind that case.

import (
	"bufio"
	"encoding/json"
	"io"
	"math/rand"
	"os"
	"os/exec"
	"path/filepath"
	"strconv"
	"sync"
	"sync/atomic"
	"syscall"
	"testing"
	"time"
)

// ---- recording writer (never allocates below its pre-sized capacity)

type c15Writer struct {
	runs     [][2]int
	n        int
	overflow bool
}

func (w *c15Writer) Write(p []byte) (int, error) {
	for _, b := range p {
		if w.n > 0 && w.runs[w.n-1][0] == int(b) {
			w.runs[w.n-1][1]++
			continue
		}
		if w.n == len(w.runs) {
			w.overflow = true
			continue
		}
		w.runs[w.n] = [2]int{int(b), 1}
		w.n++
	}
	return len(p), nil
}

func (w *c15Writer) reset() { w.n = 0 }

var c15W = &c15Writer{runs: make([][2]int, 1<<19)}

// ---- abstract argument <-> Go value

type c15Arg struct {
	Ty  string   `json:"ty"`
	Neg bool     `json:"neg"`
	Mag [4]int   `json:"mag"`
	S   [][2]int `json:"s"`
	Bv  bool     `json:"bv"`
}

type c15Case struct {
	F     []int    `json:"f"`
	A     []c15Arg `json:"a"`
	Shape string   `json:"shape"` // replay files: a local-argument call site and its seed
	Seed  int      `json:"seed"`
}

type c15Other struct{ x int }

func c15Mag(m [4]int) uint64 {
	return uint64(m[0])<<48 | uint64(m[1])<<32 | uint64(m[2])<<16 | uint64(m[3])
}

func c15Limbs(v uint64) [4]int {
	return [4]int{int(v >> 48 & 0xffff), int(v >> 32 & 0xffff), int(v >> 16 & 0xffff), int(v & 0xffff)}
}

func c15Bytes(runs [][2]int) []byte {
	var b []byte
	for _, r := range runs {
		for i := 0; i < r[1]; i++ {
			b = append(b, byte(r[0]))
		}
	}
	if b == nil {
		b = []byte{}
	}
	return b
}

func c15Runs(b []byte) [][2]int {
	out := [][2]int{}
	for _, c := range b {
		if n := len(out); n > 0 && out[n-1][0] == int(c) {
			out[n-1][1]++
		} else {
			out = append(out, [2]int{int(c), 1})
		}
	}
	return out
}

// c15Value builds the Go value an abstract argument stands for.
func c15Value(a c15Arg) interface{} {
	m := c15Mag(a.Mag)
	s := int64(m)
	if a.Neg {
		s = -s
	}
	switch a.Ty {
	case "int8":
		return int8(s)
	case "int16":
		return int16(s)
	case "int32":
		return int32(s)
	case "int64":
		return int64(s)
	case "int":
		return int(s)
	case "uint8":
		return uint8(m)
	case "uint16":
		return uint16(m)
	case "uint32":
		return uint32(m)
	case "uint64":
		return uint64(m)
	case "uint":
		return uint(m)
	case "uintptr":
		return uintptr(m)
	case "string":
		return string(c15Bytes(a.S))
	case "bytes":
		return c15Bytes(a.S)
	case "bool":
		return a.Bv
	case "float64":
		return 3.5
	case "nil":
		return nil
	case "ptr":
		return &a
	default:
		return c15Other{1}
	}
}

func c15Signed(ty string, v int64) c15Arg {
	if v < 0 {
		return c15Arg{Ty: ty, Neg: true, Mag: c15Limbs(uint64(-v)), S: [][2]int{}}
	}
	return c15Arg{Ty: ty, Mag: c15Limbs(uint64(v)), S: [][2]int{}}
}

// c15Describe re-encodes a Go value as the tagged value that is logged (from the value itself).
func c15Describe(v interface{}) c15Arg {
	switch x := v.(type) {
	case int8:
		return c15Signed("int8", int64(x))
	case int16:
		return c15Signed("int16", int64(x))
	case int32:
		return c15Signed("int32", int64(x))
	case int64:
		return c15Signed("int64", x)
	case int:
		return c15Signed("int", int64(x))
	case uint8:
		return c15Arg{Ty: "uint8", Mag: c15Limbs(uint64(x)), S: [][2]int{}}
	case uint16:
		return c15Arg{Ty: "uint16", Mag: c15Limbs(uint64(x)), S: [][2]int{}}
	case uint32:
		return c15Arg{Ty: "uint32", Mag: c15Limbs(uint64(x)), S: [][2]int{}}
	case uint64:
		return c15Arg{Ty: "uint64", Mag: c15Limbs(x), S: [][2]int{}}
	case uint:
		return c15Arg{Ty: "uint", Mag: c15Limbs(uint64(x)), S: [][2]int{}}
	case uintptr:
		return c15Arg{Ty: "uintptr", Mag: c15Limbs(uint64(x)), S: [][2]int{}}
	case string:
		return c15Arg{Ty: "string", S: c15Runs([]byte(x))}
	case []byte:
		return c15Arg{Ty: "bytes", S: c15Runs(x)}
	case bool:
		return c15Arg{Ty: "bool", Bv: x, S: [][2]int{}}
	case float64:
		return c15Arg{Ty: "float64", S: [][2]int{}}
	case nil:
		return c15Arg{Ty: "nil", S: [][2]int{}}
	case *c15Arg:
		return c15Arg{Ty: "ptr", S: [][2]int{}}
	default:
		return c15Arg{Ty: "struct", S: [][2]int{}}
	}
}

// ---- one case

func c15Call(format string, args []interface{}) (panicked bool) {
	defer func() {
		if r := recover(); r != nil {
			panicked = true
		}
	}()
	c15W.reset()
	Fprintf(c15W, format, args...)
	return false
}

type c15Event struct {
	K      string   `json:"k"`
	Shape  string   `json:"shape,omitempty"`
	Seed   int      `json:"seed,omitempty"`
	F      []int    `json:"f"`
	A      []c15Arg `json:"a"`
	Out    [][2]int `json:"out"`
	Panic  bool     `json:"panic"`
	Hang   bool     `json:"hang"`
	Allocs int      `json:"allocs"`
}

// ---- worker (child process) with a CPU-time watchdog

type c15Worker struct {
	t    *testing.T
	mu   sync.Mutex
	f    *os.File
	bw   *bufio.Writer
	enc  *json.Encoder
	skip int    // cases already decided by an earlier child
	idx  int    // index of the next case
	cur  int64  // atomic: index of the case being executed
	hang []byte // the event to log if the current case never returns
}

const c15CPULimit = 3 * time.Second // the slowest legitimate case (10^6-byte padding, 5 calls) needs about 30 ms

var c15Ru syscall.Rusage

func c15CPU() time.Duration {
	syscall.Getrusage(syscall.RUSAGE_SELF, &c15Ru)
	return time.Duration(c15Ru.Utime.Nano() + c15Ru.Stime.Nano())
}

func c15NewWorker(t *testing.T) *c15Worker {
	f, err := os.Create(os.Getenv("C15_CHILD_OUT"))
	if err != nil {
		t.Fatal(err)
	}
	w := &c15Worker{t: t, f: f, bw: bufio.NewWriterSize(f, 1<<20), cur: -1}
	w.enc = json.NewEncoder(w.bw)
	w.skip, _ = strconv.Atoi(os.Getenv("C15_SKIP"))
	go func() { // the watchdog allocates nothing while a case is being measured
		last, start := int64(-2), time.Duration(0)
		for {
			time.Sleep(100 * time.Millisecond)
			cur, cpu := atomic.LoadInt64(&w.cur), c15CPU()
			if cur != last {
				last, start = cur, cpu
				continue
			}
			if cur >= 0 && cpu-start > c15CPULimit {
				w.mu.Lock()
				w.bw.Flush()
				w.f.Write(w.hang)
				w.f.Close()
				os.Exit(7) // the spinning goroutine cannot be stopped
			}
		}
	}()
	return w
}

func (w *c15Worker) done() {
	w.mu.Lock()
	atomic.StoreInt64(&w.cur, -1)
	w.bw.Flush()
	w.f.Close()
	w.mu.Unlock()
}

// run executes one case: call is the measured call site, (fbytes, args) describe it.
func (w *c15Worker) run(kind, shape string, seed int, fbytes []byte, args []interface{}, call func() bool) {
	i := w.idx
	w.idx++
	if i < w.skip {
		return
	}
	ev := c15Event{K: kind, Shape: shape, Seed: seed, F: make([]int, len(fbytes)), A: make([]c15Arg, len(args)), Out: [][2]int{}}
	for j, b := range fbytes {
		ev.F[j] = int(b)
	}
	for j, v := range args {
		ev.A[j] = c15Describe(v)
	}
	ev.Hang = true
	line, _ := json.Marshal(&ev)
	ev.Hang = false
	w.mu.Lock()
	w.hang = append(line, '\n')
	atomic.StoreInt64(&w.cur, int64(i))
	w.mu.Unlock()

	ev.Panic = call()
	ev.Out = make([][2]int, c15W.n)
	copy(ev.Out, c15W.runs[:c15W.n])
	if c15W.overflow {
		w.t.Fatalf("recording writer too small for %q", fbytes)
	}
	if !ev.Panic {
		ev.Allocs = int(testing.AllocsPerRun(3, func() { call() }))
	}
	w.mu.Lock()
	atomic.StoreInt64(&w.cur, -1)
	if err := w.enc.Encode(&ev); err != nil {
		w.t.Fatal(err)
	}
	w.mu.Unlock()
}

func (w *c15Worker) runCase(kind string, fbytes []byte, args []interface{}) {
	format := string(fbytes)
	if kind == "printf" { // the same case through kfmt.Printf with the recording writer as the output sink
		w.run(kind, "", 0, fbytes, args, func() bool { return c15CallPrintf(format, args) })
		return
	}
	w.run(kind, "", 0, fbytes, args, func() bool { return c15Call(format, args) })
}

func c15CallPrintf(format string, args []interface{}) (panicked bool) {
	defer func() {
		outputSink = nil
		if r := recover(); r != nil {
			panicked = true
		}
	}()
	c15W.reset()
	outputSink = c15W
	Printf(format, args...)
	return false
}

// c15Parent runs the named test as worker processes until every case has an event; a child that
// exits with status 7 has logged a hang and is restarted behind that case.
func c15Parent(t *testing.T, name string) {
	out, err := os.Create(os.Getenv("TRACE_OUT"))
	if err != nil {
		t.Fatal(err)
	}
	defer out.Close()
	work := os.Getenv("VERIF_WORK")
	if work == "" {
		work = os.TempDir()
	}
	tmp := filepath.Join(work, "c15_child."+name+".ndjson")
	defer os.Remove(tmp)
	skip, hangs := 0, 0
	for {
		os.Remove(tmp)
		cmd := exec.Command(os.Args[0], "-test.run=^"+name+"$", "-test.timeout=3000s")
		cmd.Env = append(os.Environ(), "C15_CHILD=1", "C15_SKIP="+strconv.Itoa(skip), "C15_CHILD_OUT="+tmp)
		msg, runErr := cmd.CombinedOutput()
		got := 0
		if cf, err := os.Open(tmp); err == nil {
			sc := bufio.NewScanner(cf)
			sc.Buffer(make([]byte, 1<<20), 1<<26)
			for sc.Scan() {
				out.Write(sc.Bytes())
				out.Write([]byte{'\n'})
				got++
			}
			cf.Close()
		}
		skip += got
		if runErr == nil {
			break
		}
		if ee, ok := runErr.(*exec.ExitError); ok && ee.ExitCode() == 7 && got > 0 {
			if hangs++; hangs >= 5 {
				t.Logf("stopped after %d cases that did not return", hangs)
				break
			}
			continue
		}
		t.Fatalf("worker failed: %v\n%s", runErr, msg)
	}
	t.Logf("%d events, %d hang(s)", skip, hangs)
}

// TestVerifC15Cases replays the cases in $CASES (one JSON object per line).
func TestVerifC15Cases(t *testing.T) {
	if os.Getenv("C15_CHILD") == "" {
		c15Parent(t, "TestVerifC15Cases")
		return
	}
	in, err := os.Open(os.Getenv("CASES"))
	if err != nil {
		t.Fatal(err)
	}
	defer in.Close()
	w := c15NewWorker(t)
	defer w.done()
	sc := bufio.NewScanner(in)
	sc.Buffer(make([]byte, 1<<20), 1<<26)
	n := 0
	for sc.Scan() {
		if len(sc.Bytes()) == 0 {
			continue
		}
		if w.idx < w.skip { // decided by an earlier worker
			w.idx++
			continue
		}
		var c c15Case
		if err := json.Unmarshal(sc.Bytes(), &c); err != nil {
			t.Fatalf("case %d: %v", n, err)
		}
		if c.Shape != "" {
			for _, sh := range c15Shapes {
				if sh.name == c.Shape {
					w.runShape(sh, byte(c.Seed))
				}
			}
			n++
			continue
		}
		fb := make([]byte, len(c.F))
		for i, v := range c.F {
			fb[i] = byte(v)
		}
		args := make([]interface{}, len(c.A))
		for i, a := range c.A {
			args[i] = c15Value(a)
		}
		w.runCase("fmt", fb, args)
		n++
	}
}

// ---- random cases at real scale

var c15IntTypes = []string{"int8", "int16", "int32", "int64", "int", "uint8", "uint16", "uint32", "uint64", "uint", "uintptr"}

func c15Bits(ty string) uint {
	switch ty {
	case "int8", "uint8":
		return 8
	case "int16", "uint16":
		return 16
	case "int32", "uint32":
		return 32
	}
	return 64
}

func c15RandInt(rng *rand.Rand) interface{} {
	ty := c15IntTypes[rng.Intn(len(c15IntTypes))]
	bits := c15Bits(ty)
	signed := ty[0] == 'i'
	var raw uint64
	switch rng.Intn(10) {
	case 0:
		raw = 0
	case 1:
		raw = 1
	case 2:
		raw = ^uint64(0) // -1 / max unsigned
	case 3:
		raw = uint64(1) << (bits - 1) // min signed / 2^(n-1)
	case 4:
		raw = uint64(1)<<(bits-1) - 1 // max signed
	case 5:
		raw = uint64(1)<<(bits-1) + 1
	default:
		raw = rng.Uint64() >> uint(rng.Intn(int(bits))) // random bit length
		if rng.Intn(2) == 0 {
			raw = -raw
		}
	}
	a := c15Arg{Ty: ty}
	if signed {
		v := int64(raw<<(64-bits)) >> (64 - bits) // sign-extend the low bits
		a = c15Signed(ty, v)
	} else {
		if bits < 64 {
			raw &= uint64(1)<<bits - 1
		}
		a.Mag = c15Limbs(raw)
	}
	return c15Value(a)
}

func c15RandStr(rng *rand.Rand) interface{} {
	n := rng.Intn(12)
	switch rng.Intn(20) {
	case 0:
		n = 100 + rng.Intn(3000)
	case 1:
		n = 28 + rng.Intn(8)
	}
	b := make([]byte, n)
	var cur byte = byte(rng.Intn(256))
	for i := range b {
		if n < 50 || rng.Intn(40) == 0 {
			cur = byte(rng.Intn(256))
			if rng.Intn(3) > 0 {
				cur = byte(32 + rng.Intn(95))
			}
		}
		b[i] = cur
	}
	if rng.Intn(2) == 0 {
		return string(b)
	}
	if n == 0 && rng.Intn(2) == 0 {
		return []byte(nil)
	}
	return b
}

type c15Named struct{ a, b int }

func (c15Named) String() string { return "named" }
func (c15Named) Error() string  { return "named" }

func c15RandOther(rng *rand.Rand) interface{} {
	switch rng.Intn(14) {
	case 0:
		return 3.5
	case 1:
		return nil
	case 2:
		return &c15Arg{}
	case 3:
		return float32(1.5)
	case 4:
		return complex(1, 2)
	case 5:
		return []int{1, 2}
	case 6:
		return [4]byte{1, 2, 3, 4}
	case 7:
		return map[string]int{}
	case 8:
		return func() {}
	case 9:
		return c15Named{1, 2} // a Stringer / error: the formatter must not look for methods
	case 10:
		return &c15Named{}
	case 11:
		return []string{"a"}
	case 12:
		return make(chan int)
	}
	return c15Other{2}
}

func c15RandAny(rng *rand.Rand) interface{} {
	switch rng.Intn(5) {
	case 0, 1:
		return c15RandInt(rng)
	case 2:
		return c15RandStr(rng)
	case 3:
		return rng.Intn(2) == 0
	}
	return c15RandOther(rng)
}

// c15Structured: literal text, %% and verbs with optional width; arguments mostly matching.
func c15Structured(rng *rand.Rand, big, long *int) ([]byte, []interface{}) {
	var f []byte
	var args []interface{}
	pieces := rng.Intn(7)
	if rng.Intn(60) == 0 && *long > 0 {
		*long--
		pieces = 100 + rng.Intn(300) // a long format string with a long argument list
	}
	for k := pieces; k >= 0; k-- {
		switch r := rng.Intn(10); {
		case r < 3:
			for n := 1 + rng.Intn(6); n > 0; n-- {
				c := byte(32 + rng.Intn(95))
				if rng.Intn(8) == 0 {
					c = byte(rng.Intn(256))
				}
				if c == '%' {
					c = '#'
				}
				f = append(f, c)
			}
		case r < 4:
			f = append(f, '%', '%')
		default:
			verb := "dxost"[rng.Intn(5)]
			f = append(f, '%')
			switch w := rng.Intn(20); {
			case w < 7:
			case w < 13:
				f = strconv.AppendInt(f, int64(rng.Intn(41)), 10)
			case w < 16:
				f = strconv.AppendInt(f, int64(29+rng.Intn(6)), 10)
			case w < 17:
				f = append(f, '0', '0')
				f = strconv.AppendInt(f, int64(rng.Intn(20)), 10)
			case w < 19:
				if verb == 's' {
					f = strconv.AppendInt(f, int64(rng.Intn(3000)), 10)
				} else {
					f = strconv.AppendInt(f, int64(rng.Intn(1000001)), 10)
				}
			default:
				if verb != 's' || *big > 0 {
					if verb == 's' {
						*big--
					}
					f = strconv.AppendInt(f, []int64{1000000, 999999, 65536, 100000}[rng.Intn(4)], 10)
				}
			}
			f = append(f, verb)
			if rng.Intn(8) == 0 {
				args = append(args, c15RandAny(rng))
			} else if verb == 's' {
				args = append(args, c15RandStr(rng))
			} else if verb == 't' {
				args = append(args, rng.Intn(2) == 0)
			} else {
				args = append(args, c15RandInt(rng))
			}
		}
	}
	switch rng.Intn(8) {
	case 0:
		if len(args) > 0 {
			args = args[:len(args)-1-rng.Intn(len(args))]
		}
	case 1:
		for n := 1 + rng.Intn(3); n > 0; n-- {
			args = append(args, c15RandAny(rng))
		}
	}
	return f, args
}

// c15Arbitrary: any byte string (digit runs capped so that a width cannot reach 10^7) and any arguments.
func c15Arbitrary(rng *rand.Rand, long *int) ([]byte, []interface{}) {
	n := rng.Intn(24)
	if rng.Intn(40) == 0 && *long > 0 {
		*long--
		n = 200 + rng.Intn(3000)
	}
	// A digit run is a width of any size (it overflows an int beyond 19 digits).  Only a string or byte-slice
	// argument can turn a width into that many writes, so unbounded digit runs are drawn together with
	// argument lists that hold no string / []byte; otherwise a run is capped at 5 digits.
	wild := rng.Intn(3) == 0
	f := make([]byte, 0, n)
	digits := 0
	for i := 0; i < n; i++ {
		var c byte
		switch r := rng.Intn(10); {
		case r < 3:
			c = '%'
		case r < 5:
			c = byte('0' + rng.Intn(10))
		case r < 7:
			c = "dxost"[rng.Intn(5)]
		case r < 9:
			c = byte(32 + rng.Intn(95))
		default:
			c = byte(rng.Intn(256))
		}
		if wild && c == '%' && rng.Intn(3) == 0 { // % followed by a long width
			f = append(f, '%')
			for k := 6 + rng.Intn(20); k > 0 && len(f) < n+40; k-- {
				f = append(f, byte('0'+rng.Intn(10)))
			}
			continue
		}
		if c >= '0' && c <= '9' {
			digits++
			if !wild && digits > 5 {
				c = '_'
				digits = 0
			}
		} else {
			digits = 0
		}
		f = append(f, c)
	}
	var args []interface{}
	for k := rng.Intn(5 + n/40); k > 0; k-- {
		a := c15RandAny(rng)
		if wild {
			switch a.(type) {
			case string, []byte:
				a = c15RandInt(rng)
			}
		}
		args = append(args, a)
	}
	return f, args
}

func TestVerifC15Random(t *testing.T) {
	if os.Getenv("C15_CHILD") == "" {
		c15Parent(t, "TestVerifC15Random")
		return
	}
	seed, _ := strconv.ParseInt(os.Getenv("VERIF_SEED"), 10, 64)
	n, _ := strconv.Atoi(os.Getenv("NCASES"))
	if n == 0 {
		n = 1000
	}
	rng := rand.New(rand.NewSource(seed*7919 + 15))
	w := c15NewWorker(t)
	defer w.done()
	big := 2 + n/1500  // how many 10^5..10^6-wide %s paddings the whole run may contain
	long := 3 + n/1000 // how many kilobyte-long format strings (they are slow to judge)
	for i := 0; i < n; i++ {
		if rng.Intn(10) < 3 {
			f, a := c15Arbitrary(rng, &long)
			w.runCase("any", f, a)
		} else {
			f, a := c15Structured(rng, &big, &long)
			if rng.Intn(8) == 0 {
				w.runCase("printf", f, a)
			} else {
				w.runCase("fmt", f, a)
			}
		}
	}
	// strings and byte slices of "any length": a megabyte goes through the formatter one byte at a time
	hugeS := string(c15Repeat(byte('a'+rng.Intn(26)), 999990+rng.Intn(10)))
	hugeB := c15Repeat(byte('A'+rng.Intn(26)), 300000+rng.Intn(1000))
	w.runCase("fmt", []byte("<%s>"), []interface{}{hugeS})
	w.runCase("fmt", []byte("%1000000s|%5s"), []interface{}{hugeS, hugeB})
	w.runCase("fmt", []byte("%d%300500s"), []interface{}{int16(-7), hugeB})
	for _, sh := range c15Shapes {
		for k := 0; k < 3; k++ {
			w.runShape(sh, byte(rng.Intn(200)))
		}
	}
}

func (w *c15Worker) runShape(sh c15Shape, sd byte) {
	f, a := sh.desc(sd)
	w.run("fmt", sh.name, int(sd), []byte(f), a, func() (panicked bool) {
		defer func() {
			if r := recover(); r != nil {
				panicked = true
			}
		}()
		c15W.reset()
		sh.call(c15W, sd)
		return false
	})
}

// ---- call sites whose arguments live in the caller's stack frame.  Every call function is a
// dedicated non-inlined function; desc rebuilds the same format and (heap) values for the log.

func c15Fill(b []byte, seed byte) {
	for i := range b {
		b[i] = 'A' + (seed+byte(i))%26
	}
}

func c15Repeat(c byte, n int) []byte {
	b := make([]byte, n)
	for i := range b {
		b[i] = c
	}
	return b
}

func c15Filled(n int, seed byte) []byte { b := make([]byte, n); c15Fill(b, seed); return b }

//go:noinline
func c15LocalB1(w io.Writer, seed byte) { var b [1]byte; c15Fill(b[:], seed); Fprintf(w, "%s", b[:]) }

//go:noinline
func c15LocalB8(w io.Writer, seed byte) {
	var b [8]byte
	c15Fill(b[:], seed)
	Fprintf(w, "[%12s]", b[:])
}

//go:noinline
func c15LocalB32(w io.Writer, seed byte) { var b [32]byte; c15Fill(b[:], seed); Fprintf(w, "%s", b[:]) }

//go:noinline
func c15LocalB33(w io.Writer, seed byte) { var b [33]byte; c15Fill(b[:], seed); Fprintf(w, "%s", b[:]) }

//go:noinline
func c15LocalB64(w io.Writer, seed byte) {
	var b [64]byte
	c15Fill(b[:], seed)
	Fprintf(w, "%s|%70s", b[:40], b[:])
}

//go:noinline
func c15LocalB200(w io.Writer, seed byte) {
	var b [200]byte
	c15Fill(b[:], seed)
	Fprintf(w, "x%sy", b[:])
}

//go:noinline
func c15LocalS1(w io.Writer, seed byte) {
	var b [1]byte
	c15Fill(b[:], seed)
	s := string(b[:])
	Fprintf(w, "%s%3s", s, s)
}

//go:noinline
func c15LocalS16(w io.Writer, seed byte) {
	var b [16]byte
	c15Fill(b[:], seed)
	s := string(b[:])
	Fprintf(w, "%s", s)
}

//go:noinline
func c15LocalS32(w io.Writer, seed byte) {
	var b [32]byte
	c15Fill(b[:], seed)
	s := string(b[:])
	Fprintf(w, "<%40s>", s)
}

//go:noinline
func c15LocalInts(w io.Writer, seed byte) {
	x := int64(seed)*1000003 - 77777777
	y := uint32(seed) + 70000
	z := uint(seed) + 1<<40
	Fprintf(w, "%d %8x %o", x, y, z)
}

//go:noinline
func c15LocalSmallInts(w io.Writer, seed byte) {
	a, b, c := int8(seed), uintptr(seed)<<20|1, int16(seed)*100
	Fprintf(w, "%d%x%6d", a, b, c)
}

//go:noinline
func c15LocalMixed(w io.Writer, seed byte) {
	var b [48]byte
	c15Fill(b[:], seed)
	n := int(seed) * 4099
	ok := seed&1 == 0
	Fprintf(w, "%s=%d (%t) %x", b[:], n, ok, b[:5])
}

type c15Shape struct {
	name string
	call func(w io.Writer, seed byte)
	desc func(seed byte) (string, []interface{})
}

var c15Shapes = []c15Shape{
	{"local-bytes-1", c15LocalB1, func(s byte) (string, []interface{}) { return "%s", []interface{}{c15Filled(1, s)} }},
	{"local-bytes-8", c15LocalB8, func(s byte) (string, []interface{}) { return "[%12s]", []interface{}{c15Filled(8, s)} }},
	{"local-bytes-32", c15LocalB32, func(s byte) (string, []interface{}) { return "%s", []interface{}{c15Filled(32, s)} }},
	{"local-bytes-33", c15LocalB33, func(s byte) (string, []interface{}) { return "%s", []interface{}{c15Filled(33, s)} }},
	{"local-bytes-64", c15LocalB64, func(s byte) (string, []interface{}) {
		return "%s|%70s", []interface{}{c15Filled(64, s)[:40], c15Filled(64, s)}
	}},
	{"local-bytes-200", c15LocalB200, func(s byte) (string, []interface{}) { return "x%sy", []interface{}{c15Filled(200, s)} }},
	{"local-string-1", c15LocalS1, func(s byte) (string, []interface{}) {
		return "%s%3s", []interface{}{string(c15Filled(1, s)), string(c15Filled(1, s))}
	}},
	{"local-string-16", c15LocalS16, func(s byte) (string, []interface{}) { return "%s", []interface{}{string(c15Filled(16, s))} }},
	{"local-string-32", c15LocalS32, func(s byte) (string, []interface{}) { return "<%40s>", []interface{}{string(c15Filled(32, s))} }},
	{"local-ints", c15LocalInts, func(s byte) (string, []interface{}) {
		return "%d %8x %o", []interface{}{int64(s)*1000003 - 77777777, uint32(s) + 70000, uint(s) + 1<<40}
	}},
	{"local-small-ints", c15LocalSmallInts, func(s byte) (string, []interface{}) {
		return "%d%x%6d", []interface{}{int8(s), uintptr(s)<<20 | 1, int16(s) * 100}
	}},
	{"local-mixed", c15LocalMixed, func(s byte) (string, []interface{}) {
		return "%s=%d (%t) %x", []interface{}{c15Filled(48, s), int(s) * 4099, s&1 == 0, c15Filled(48, s)[:5]}
	}},
}
