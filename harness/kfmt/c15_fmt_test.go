//go:build verif
// +build verif

package kfmt

// Conformance harness for C15 (kernel printf).  It contains no oracle: it
// turns an abstract case (format bytes, tagged argument values) into Go
// values, calls the REAL Fprintf on a pre-sized recording writer, recovers
// panics, measures heap allocations with testing.AllocsPerRun and logs one
// JSON event per case:
//   {"k":"fmt","f":[bytes],"a":[{ty,neg,mag,s,bv}...],"out":[[byte,count]...],"panic":bool,"allocs":n}
// Output and string contents are logged run-length encoded (a lossless
// re-encoding; a 10^6-byte padding is one pair).  Integers are logged as
// sign + magnitude in four 16-bit limbs (TLC's JSON reader truncates >= 2^31).
// The events are judged by the TLA+ monitor specs/kfmt/KfmtTrace.tla.
//
//   TestVerifC15Cases   replays the cases TLC emitted from KfmtModel (leg G)
//   TestVerifC15Random  seeded random cases at real scale (leg T)

import (
	"bufio"
	"encoding/json"
	"math/rand"
	"os"
	"strconv"
	"testing"
)

// ---- recording writer (never allocates below its pre-sized capacity)

type c15Writer struct {
	runs     [][2]int
	n        int
	overflow bool
}

func (w *c15Writer) Write(p []byte) (int, error) {
	for _, b := range p {
		if w.n > 0 && w.runs[w.n-1][0] == int(b) {
			w.runs[w.n-1][1]++
			continue
		}
		if w.n == len(w.runs) {
			w.overflow = true
			continue
		}
		w.runs[w.n] = [2]int{int(b), 1}
		w.n++
	}
	return len(p), nil
}

func (w *c15Writer) reset() { w.n = 0 }

var c15W = &c15Writer{runs: make([][2]int, 1<<17)}

// ---- abstract argument <-> Go value

type c15Arg struct {
	Ty  string   `json:"ty"`
	Neg bool     `json:"neg"`
	Mag [4]int   `json:"mag"`
	S   [][2]int `json:"s"`
	Bv  bool     `json:"bv"`
}

type c15Case struct {
	F []int    `json:"f"`
	A []c15Arg `json:"a"`
}

type c15Other struct{ x int }

func c15Mag(m [4]int) uint64 {
	return uint64(m[0])<<48 | uint64(m[1])<<32 | uint64(m[2])<<16 | uint64(m[3])
}

func c15Limbs(v uint64) [4]int {
	return [4]int{int(v >> 48 & 0xffff), int(v >> 32 & 0xffff), int(v >> 16 & 0xffff), int(v & 0xffff)}
}

func c15Bytes(runs [][2]int) []byte {
	var b []byte
	for _, r := range runs {
		for i := 0; i < r[1]; i++ {
			b = append(b, byte(r[0]))
		}
	}
	if b == nil {
		b = []byte{}
	}
	return b
}

func c15Runs(b []byte) [][2]int {
	out := [][2]int{}
	for _, c := range b {
		if n := len(out); n > 0 && out[n-1][0] == int(c) {
			out[n-1][1]++
		} else {
			out = append(out, [2]int{int(c), 1})
		}
	}
	return out
}

// c15Value builds the Go value an abstract argument stands for.
func c15Value(a c15Arg) interface{} {
	m := c15Mag(a.Mag)
	s := int64(m)
	if a.Neg {
		s = -s
	}
	switch a.Ty {
	case "int8":
		return int8(s)
	case "int16":
		return int16(s)
	case "int32":
		return int32(s)
	case "int64":
		return int64(s)
	case "int":
		return int(s)
	case "uint8":
		return uint8(m)
	case "uint16":
		return uint16(m)
	case "uint32":
		return uint32(m)
	case "uint64":
		return uint64(m)
	case "uint":
		return uint(m)
	case "uintptr":
		return uintptr(m)
	case "string":
		return string(c15Bytes(a.S))
	case "bytes":
		return c15Bytes(a.S)
	case "bool":
		return a.Bv
	case "float64":
		return 3.5
	case "nil":
		return nil
	case "ptr":
		return &a
	default:
		return c15Other{1}
	}
}

func c15Signed(ty string, v int64) c15Arg {
	if v < 0 {
		return c15Arg{Ty: ty, Neg: true, Mag: c15Limbs(uint64(-v)), S: [][2]int{}}
	}
	return c15Arg{Ty: ty, Mag: c15Limbs(uint64(v)), S: [][2]int{}}
}

// c15Describe re-encodes a Go value as the tagged value that is logged (from the value itself).
func c15Describe(v interface{}) c15Arg {
	switch x := v.(type) {
	case int8:
		return c15Signed("int8", int64(x))
	case int16:
		return c15Signed("int16", int64(x))
	case int32:
		return c15Signed("int32", int64(x))
	case int64:
		return c15Signed("int64", x)
	case int:
		return c15Signed("int", int64(x))
	case uint8:
		return c15Arg{Ty: "uint8", Mag: c15Limbs(uint64(x)), S: [][2]int{}}
	case uint16:
		return c15Arg{Ty: "uint16", Mag: c15Limbs(uint64(x)), S: [][2]int{}}
	case uint32:
		return c15Arg{Ty: "uint32", Mag: c15Limbs(uint64(x)), S: [][2]int{}}
	case uint64:
		return c15Arg{Ty: "uint64", Mag: c15Limbs(x), S: [][2]int{}}
	case uint:
		return c15Arg{Ty: "uint", Mag: c15Limbs(uint64(x)), S: [][2]int{}}
	case uintptr:
		return c15Arg{Ty: "uintptr", Mag: c15Limbs(uint64(x)), S: [][2]int{}}
	case string:
		return c15Arg{Ty: "string", S: c15Runs([]byte(x))}
	case []byte:
		return c15Arg{Ty: "bytes", S: c15Runs(x)}
	case bool:
		return c15Arg{Ty: "bool", Bv: x, S: [][2]int{}}
	case float64:
		return c15Arg{Ty: "float64", S: [][2]int{}}
	case nil:
		return c15Arg{Ty: "nil", S: [][2]int{}}
	case *c15Arg:
		return c15Arg{Ty: "ptr", S: [][2]int{}}
	default:
		return c15Arg{Ty: "struct", S: [][2]int{}}
	}
}

// ---- one case

func c15Call(format string, args []interface{}) (panicked bool) {
	defer func() {
		if r := recover(); r != nil {
			panicked = true
		}
	}()
	c15W.reset()
	Fprintf(c15W, format, args...)
	return false
}

type c15Event struct {
	K      string     `json:"k"`
	F      []int      `json:"f"`
	A      []c15Arg   `json:"a"`
	Out    [][2]int   `json:"out"`
	Panic  bool       `json:"panic"`
	Allocs int        `json:"allocs"`
}

func c15Run(t *testing.T, enc *json.Encoder, kind string, fbytes []byte, args []interface{}) {
	format := string(fbytes)
	ev := c15Event{K: kind, F: make([]int, len(fbytes)), A: make([]c15Arg, len(args))}
	for i, b := range fbytes {
		ev.F[i] = int(b)
	}
	for i, v := range args {
		ev.A[i] = c15Describe(v)
	}
	ev.Panic = c15Call(format, args)
	ev.Out = make([][2]int, c15W.n)
	copy(ev.Out, c15W.runs[:c15W.n])
	if c15W.overflow {
		t.Fatalf("recording writer too small for %q", format)
	}
	if !ev.Panic {
		ev.Allocs = int(testing.AllocsPerRun(3, func() { c15Call(format, args) }))
	}
	if err := enc.Encode(&ev); err != nil {
		t.Fatal(err)
	}
}

func c15Out(t *testing.T) (*bufio.Writer, *json.Encoder, func()) {
	f, err := os.Create(os.Getenv("TRACE_OUT"))
	if err != nil {
		t.Fatal(err)
	}
	bw := bufio.NewWriterSize(f, 1<<20)
	return bw, json.NewEncoder(bw), func() { bw.Flush(); f.Close() }
}

// TestVerifC15Cases replays the cases in $CASES (one JSON object per line).
func TestVerifC15Cases(t *testing.T) {
	in, err := os.Open(os.Getenv("CASES"))
	if err != nil {
		t.Fatal(err)
	}
	defer in.Close()
	_, enc, done := c15Out(t)
	defer done()
	sc := bufio.NewScanner(in)
	sc.Buffer(make([]byte, 1<<20), 1<<26)
	n := 0
	for sc.Scan() {
		if len(sc.Bytes()) == 0 {
			continue
		}
		var c c15Case
		if err := json.Unmarshal(sc.Bytes(), &c); err != nil {
			t.Fatalf("case %d: %v", n, err)
		}
		fb := make([]byte, len(c.F))
		for i, v := range c.F {
			fb[i] = byte(v)
		}
		args := make([]interface{}, len(c.A))
		for i, a := range c.A {
			args[i] = c15Value(a)
		}
		c15Run(t, enc, "fmt", fb, args)
		n++
	}
	t.Logf("replayed %d cases", n)
}

// ---- random cases at real scale

var c15IntTypes = []string{"int8", "int16", "int32", "int64", "int", "uint8", "uint16", "uint32", "uint64", "uint", "uintptr"}

func c15Bits(ty string) uint {
	switch ty {
	case "int8", "uint8":
		return 8
	case "int16", "uint16":
		return 16
	case "int32", "uint32":
		return 32
	}
	return 64
}

func c15RandInt(rng *rand.Rand) interface{} {
	ty := c15IntTypes[rng.Intn(len(c15IntTypes))]
	bits := c15Bits(ty)
	signed := ty[0] == 'i'
	var raw uint64
	switch rng.Intn(10) {
	case 0:
		raw = 0
	case 1:
		raw = 1
	case 2:
		raw = ^uint64(0) // -1 / max unsigned
	case 3:
		raw = uint64(1) << (bits - 1) // min signed / 2^(n-1)
	case 4:
		raw = uint64(1)<<(bits-1) - 1 // max signed
	case 5:
		raw = uint64(1)<<(bits-1) + 1
	default:
		raw = rng.Uint64() >> uint(rng.Intn(int(bits))) // random bit length
		if rng.Intn(2) == 0 {
			raw = -raw
		}
	}
	a := c15Arg{Ty: ty}
	if signed {
		v := int64(raw << (64 - bits)) >> (64 - bits) // sign-extend the low bits
		a = c15Signed(ty, v)
	} else {
		if bits < 64 {
			raw &= uint64(1)<<bits - 1
		}
		a.Mag = c15Limbs(raw)
	}
	return c15Value(a)
}

func c15RandStr(rng *rand.Rand) interface{} {
	n := rng.Intn(12)
	switch rng.Intn(20) {
	case 0:
		n = 100 + rng.Intn(3000)
	case 1:
		n = 28 + rng.Intn(8)
	}
	b := make([]byte, n)
	var cur byte = byte(rng.Intn(256))
	for i := range b {
		if n < 50 || rng.Intn(40) == 0 {
			cur = byte(rng.Intn(256))
			if rng.Intn(3) > 0 {
				cur = byte(32 + rng.Intn(95))
			}
		}
		b[i] = cur
	}
	if rng.Intn(2) == 0 {
		return string(b)
	}
	return b
}

func c15RandOther(rng *rand.Rand) interface{} {
	switch rng.Intn(4) {
	case 0:
		return 3.5
	case 1:
		return nil
	case 2:
		return &c15Arg{}
	}
	return c15Other{2}
}

func c15RandAny(rng *rand.Rand) interface{} {
	switch rng.Intn(5) {
	case 0, 1:
		return c15RandInt(rng)
	case 2:
		return c15RandStr(rng)
	case 3:
		return rng.Intn(2) == 0
	}
	return c15RandOther(rng)
}

// c15Structured: literal text, %% and verbs with optional width; arguments mostly matching.
func c15Structured(rng *rand.Rand, big *int) ([]byte, []interface{}) {
	var f []byte
	var args []interface{}
	for k := rng.Intn(7); k >= 0; k-- {
		switch r := rng.Intn(10); {
		case r < 3:
			for n := 1 + rng.Intn(6); n > 0; n-- {
				c := byte(32 + rng.Intn(95))
				if rng.Intn(8) == 0 {
					c = byte(rng.Intn(256))
				}
				if c == '%' {
					c = '#'
				}
				f = append(f, c)
			}
		case r < 4:
			f = append(f, '%', '%')
		default:
			verb := "dxost"[rng.Intn(5)]
			f = append(f, '%')
			switch w := rng.Intn(20); {
			case w < 7:
			case w < 13:
				f = strconv.AppendInt(f, int64(rng.Intn(41)), 10)
			case w < 16:
				f = strconv.AppendInt(f, int64(29+rng.Intn(6)), 10)
			case w < 17:
				f = append(f, '0', '0')
				f = strconv.AppendInt(f, int64(rng.Intn(20)), 10)
			case w < 19:
				if verb == 's' {
					f = strconv.AppendInt(f, int64(rng.Intn(3000)), 10)
				} else {
					f = strconv.AppendInt(f, int64(rng.Intn(1000001)), 10)
				}
			default:
				if verb != 's' || *big > 0 {
					if verb == 's' {
						*big--
					}
					f = strconv.AppendInt(f, []int64{1000000, 999999, 65536, 100000}[rng.Intn(4)], 10)
				}
			}
			f = append(f, verb)
			if rng.Intn(8) == 0 {
				args = append(args, c15RandAny(rng))
			} else if verb == 's' {
				args = append(args, c15RandStr(rng))
			} else if verb == 't' {
				args = append(args, rng.Intn(2) == 0)
			} else {
				args = append(args, c15RandInt(rng))
			}
		}
	}
	switch rng.Intn(8) {
	case 0:
		if len(args) > 0 {
			args = args[:len(args)-1-rng.Intn(len(args))]
		}
	case 1:
		for n := 1 + rng.Intn(3); n > 0; n-- {
			args = append(args, c15RandAny(rng))
		}
	}
	return f, args
}

// c15Arbitrary: any byte string (digit runs capped so that a width cannot reach 10^7) and any arguments.
func c15Arbitrary(rng *rand.Rand) ([]byte, []interface{}) {
	n := rng.Intn(24)
	f := make([]byte, 0, n)
	digits := 0
	for i := 0; i < n; i++ {
		var c byte
		switch r := rng.Intn(10); {
		case r < 3:
			c = '%'
		case r < 5:
			c = byte('0' + rng.Intn(10))
		case r < 7:
			c = "dxost"[rng.Intn(5)]
		case r < 9:
			c = byte(32 + rng.Intn(95))
		default:
			c = byte(rng.Intn(256))
		}
		if c >= '0' && c <= '9' {
			digits++
			if digits > 5 {
				c = '_'
				digits = 0
			}
		} else {
			digits = 0
		}
		f = append(f, c)
	}
	var args []interface{}
	for k := rng.Intn(5); k > 0; k-- {
		args = append(args, c15RandAny(rng))
	}
	return f, args
}

func TestVerifC15Random(t *testing.T) {
	seed, _ := strconv.ParseInt(os.Getenv("VERIF_SEED"), 10, 64)
	n, _ := strconv.Atoi(os.Getenv("NCASES"))
	if n == 0 {
		n = 1000
	}
	rng := rand.New(rand.NewSource(seed*7919 + 15))
	_, enc, done := c15Out(t)
	defer done()
	big := 2 + n/1500 // how many 10^5..10^6-wide %s paddings the whole run may contain
	for i := 0; i < n; i++ {
		if rng.Intn(10) < 3 {
			f, a := c15Arbitrary(rng)
			c15Run(t, enc, "any", f, a)
		} else {
			f, a := c15Structured(rng, &big)
			c15Run(t, enc, "fmt", f, a)
		}
	}
}
