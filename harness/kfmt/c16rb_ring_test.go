//go:build verif
// +build verif

package kfmt

// Conformance harness for the early-log ring of C16.  No oracle: it applies
// Write / Read / io.Copy to a REAL kfmt.ringBuffer and logs one JSON event per
// call.  Payload byte j of a case is (base+j) % 251, and byte strings are
// logged as canonical segments [[start,len],...] (segment byte i = (start+i) %
// 251; a byte >= 251 is its own segment) - a lossless re-encoding.
//   {"k":"w","p":segs,"n":ret,"err":bool}   {"k":"r","n":len(p),"got":segs,"eof":bool}
//   {"k":"drain","got":segs}                 {"k":"reset"}
// Judged by specs/kfmt/RingTrace.tla (abstract FIFO, capacity 2047).
//
//   TestVerifC16RingScripts  replays the behaviours TLC emitted from RingBufModel (Size 4):
//                            a model length k becomes k*512+delta bytes, after a prelude that
//                            moves both indices to a chosen offset (leg G)
//   TestVerifC16RingRandom   seeded random chunking across the 2048-byte wrap point (leg T)

import (
	"bufio"
	"encoding/json"
	"io"
	"math/rand"
	"os"
	"strconv"
	"testing"
)

type c16rbEv map[string]interface{}

func c16rbSegs(b []byte) [][2]int {
	out := [][2]int{}
	for _, c := range b {
		if n := len(out); n > 0 && out[n-1][0] < 251 && c < 251 && (out[n-1][0]+out[n-1][1])%251 == int(c) {
			out[n-1][1]++
		} else {
			out = append(out, [2]int{int(c), 1})
		}
	}
	return out
}

type c16rbRun struct {
	global bool // operate on the package's earlyPrintBuffer through Printf / SetOutputSink (the hand-over path)
	rb     ringBuffer
	serial int
	enc    *json.Encoder
	t      *testing.T
}

func (r *c16rbRun) emit(e c16rbEv) {
	if err := r.enc.Encode(e); err != nil {
		r.t.Fatal(err)
	}
}

func (r *c16rbRun) guard(e c16rbEv, f func()) {
	defer func() {
		if x := recover(); x != nil {
			e["res"] = "panic"
			e["k"] = "panic"
		}
	}()
	f()
}

func (r *c16rbRun) write(k int) {
	if k < 0 {
		k = 0
	}
	p := make([]byte, k)
	for i := range p {
		p[i] = byte((r.serial + i) % 251)
	}
	r.serial += k
	e := c16rbEv{"k": "w", "p": c16rbSegs(p)}
	if r.global {
		e["k"] = "pw"
		r.guard(e, func() { Printf("%s", p) })
		r.emit(e)
		return
	}
	r.guard(e, func() {
		n, err := r.rb.Write(p)
		e["n"], e["err"] = n, err != nil
	})
	r.emit(e)
}

func (r *c16rbRun) read(n int) {
	if n < 0 {
		n = 0
	}
	p := make([]byte, n)
	e := c16rbEv{"k": "r", "n": n}
	r.guard(e, func() {
		rb := &r.rb
		if r.global {
			rb = &earlyPrintBuffer
		}
		got, err := rb.Read(p)
		if got < 0 || got > n {
			e["got"], e["eof"], e["bad"] = [][2]int{}, err == io.EOF, got
			e["k"] = "panic"
			return
		}
		e["got"], e["eof"] = c16rbSegs(p[:got]), err == io.EOF
		if err != nil && err != io.EOF {
			e["k"] = "panic"
		}
	})
	r.emit(e)
}

type c16rbSink struct {
	b     []byte
	calls int
}

func (s *c16rbSink) Write(p []byte) (int, error) {
	s.calls++
	if s.calls > 1<<16 || len(s.b) > 1<<20 {
		panic("drain does not terminate")
	}
	s.b = append(s.b, p...)
	return len(p), nil
}

func (r *c16rbRun) drain() {
	var s c16rbSink
	e := c16rbEv{"k": "drain"}
	if r.global { // the hand-over as the kernel does it: the new sink receives the early log
		r.guard(e, func() {
			SetOutputSink(&s)
			SetOutputSink(nil)
			e["got"] = c16rbSegs(s.b)
		})
		r.emit(e)
		return
	}
	r.guard(e, func() {
		spins := 0
		src := c16rbReaderFunc(func(p []byte) (int, error) {
			n, err := r.rb.Read(p)
			if n == 0 && err == nil {
				if spins++; spins > 1000 {
					panic("Read makes no progress")
				}
			}
			return n, err
		})
		io.Copy(&s, src)
		e["got"] = c16rbSegs(s.b)
	})
	r.emit(e)
}

// c16rbReaderFunc exposes nothing but io.Reader, so io.Copy drains with plain Read calls.
type c16rbReaderFunc func(p []byte) (int, error)

func (f c16rbReaderFunc) Read(p []byte) (int, error) { return f(p) }

func c16rbOut(t *testing.T) (*json.Encoder, func()) {
	f, err := os.Create(os.Getenv("TRACE_OUT"))
	if err != nil {
		t.Fatal(err)
	}
	bw := bufio.NewWriterSize(f, 1<<20)
	return json.NewEncoder(bw), func() { bw.Flush(); f.Close() }
}

// TestVerifC16RingScripts replays $SCRIPTS: {"ops":[["w",k],["r",n],["d",0],...]} per line.
func TestVerifC16RingScripts(t *testing.T) {
	enc, done := c16rbOut(t)
	defer done()
	c16rbScripts(t, enc, false)
}

func c16rbScripts(t *testing.T, enc *json.Encoder, global bool) {
	in, err := os.Open(os.Getenv("SCRIPTS"))
	if err != nil {
		t.Fatal(err)
	}
	defer in.Close()
	unit := ringBufferSize / 4 // the model has Size = 4
	offsets := []int{0, ringBufferSize - 1, ringBufferSize/2 + 3, ringBufferSize - unit}
	sc := bufio.NewScanner(in)
	sc.Buffer(make([]byte, 1<<16), 1<<22)
	idx := 0
	for sc.Scan() {
		if len(sc.Bytes()) == 0 {
			continue
		}
		var c struct {
			Ops    [][2]interface{} `json:"ops"`
			Var    *int             `json:"var"`
			Raw    bool             `json:"raw"`    // replay files: lengths are bytes, no prelude, no scaling
			Global bool             `json:"global"` // replay files: through Printf / SetOutputSink on the package's early buffer
			Base   int              `json:"base"`   // first payload byte
		}
		if err := json.Unmarshal(sc.Bytes(), &c); err != nil {
			t.Fatalf("script %d: %v", idx, err)
		}
		if c.Raw {
			run := &c16rbRun{enc: enc, t: t, serial: c.Base, global: c.Global || global}
			if run.global {
				outputSink, earlyPrintBuffer = nil, ringBuffer{}
			}
			run.emit(c16rbEv{"k": "case", "var": -1, "ops": c.Ops, "global": run.global})
			for _, op := range c.Ops {
				k := int(op[1].(float64))
				switch op[0].(string) {
				case "w":
					run.write(k)
				case "r":
					run.read(k)
				case "d":
					run.drain()
				}
			}
			run.emit(c16rbEv{"k": "reset"})
			idx++
			continue
		}
		v := idx
		if c.Var != nil {
			v = *c.Var
		}
		delta := []int{0, 1, -1}[v%3]
		off := offsets[(v/3)%4]
		run := &c16rbRun{enc: enc, t: t, serial: (v * 37) % 251, global: global}
		if global {
			outputSink, earlyPrintBuffer = nil, ringBuffer{}
		}
		run.emit(c16rbEv{"k": "case", "var": v, "ops": c.Ops, "global": global})
		if off > 0 { // prelude: move both indices to `off` through the public operations
			run.write(off)
			run.read(4096)
			run.read(4096)
		}
		for _, op := range c.Ops {
			k := int(op[1].(float64))
			switch op[0].(string) {
			case "w":
				run.write(k*unit + delta)
			case "r":
				if k == 0 {
					run.read(0)
				} else {
					run.read(k*unit - delta)
				}
			case "d":
				run.drain()
			}
		}
		run.emit(c16rbEv{"k": "reset"})
		idx++
	}
	t.Logf("replayed %d scripts", idx)
}

func TestVerifC16RingRandom(t *testing.T) {
	seed, _ := strconv.ParseInt(os.Getenv("VERIF_SEED"), 10, 64)
	n, _ := strconv.Atoi(os.Getenv("NTRACES"))
	if n == 0 {
		n = 50
	}
	rng := rand.New(rand.NewSource(seed*104729 + 16))
	enc, done := c16rbOut(t)
	defer done()
	size := func() int {
		switch r := rng.Intn(20); {
		case r < 8:
			return 1 + rng.Intn(64)
		case r < 11:
			return ringBufferSize - 8 + rng.Intn(17)
		case r < 17:
			return 100 + rng.Intn(1400)
		case r < 19:
			return ringBufferSize + 1 + rng.Intn(4000)
		}
		return 0
	}
	for i := 0; i < n; i++ {
		run := &c16rbRun{enc: enc, t: t, serial: rng.Intn(251)}
		run.emit(c16rbEv{"k": "case", "var": i})
		for ops := 10 + rng.Intn(40); ops > 0; ops-- {
			switch r := rng.Intn(10); {
			case r < 5:
				run.write(size())
			case r < 9:
				run.read(size())
			default:
				run.drain()
			}
		}
		run.drain()
		run.emit(c16rbEv{"k": "reset"})
	}
}

// TestVerifC16RingHandover exercises the hand-over path of kfmt itself (Printf into the package's early
// buffer while no sink is set, then SetOutputSink(recorder)): the TLC scripts once more, and early-log
// volumes EXACTLY at k*size and k*size +- 1 (k = 1..3) for several chunkings and start offsets.
func TestVerifC16RingHandover(t *testing.T) {
	enc, done := c16rbOut(t)
	defer done()
	defer func() { outputSink, earlyPrintBuffer = nil, ringBuffer{} }()
	if os.Getenv("SCRIPTS") != "" {
		c16rbScripts(t, enc, true)
	}
	seed, _ := strconv.ParseInt(os.Getenv("VERIF_SEED"), 10, 64)
	rng := rand.New(rand.NewSource(seed*32452843 + 16))
	id := 0
	for k := 1; k <= 3; k++ {
		for _, d := range []int{0, -1, 1} {
			for _, off := range []int{0, 1, 1000, ringBufferSize - 1} {
				for chunking := 0; chunking < 5; chunking++ {
					outputSink, earlyPrintBuffer = nil, ringBuffer{}
					run := &c16rbRun{enc: enc, t: t, serial: rng.Intn(251), global: true}
					run.emit(c16rbEv{"k": "case", "var": id, "global": true, "exact": []int{k, d, off, chunking}})
					id++
					if off > 0 { // both indices to off
						run.write(off)
						run.drain()
					}
					total := k*ringBufferSize - off + d // the write index ends at d (mod size)
					switch chunking {
					case 0:
						run.write(total)
					case 1:
						for rest := total; rest > 0; rest -= 512 {
							if rest < 512 {
								run.write(rest)
							} else {
								run.write(512)
							}
						}
					case 2:
						run.write(1)
						run.write(total - 2)
						run.write(1)
					case 3:
						for rest := total; rest > 0; {
							c := 1 + rng.Intn(700)
							if c > rest {
								c = rest
							}
							run.write(c)
							rest -= c
						}
					default:
						run.write(total - 1)
						run.read(7) // a partial read before the hand-over
						run.write(1)
					}
					run.drain()
					run.write(10)
					run.drain()
					run.emit(c16rbEv{"k": "reset"})
				}
			}
		}
	}
}
