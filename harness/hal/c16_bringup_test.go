//go:build verif
// +build verif

package hal

// Conformance harness for C16 (device bring-up).  No oracle: it registers mock
// drivers through the REAL device.RegisterDriver, calls the REAL
// hal.DetectHardware, logs through the REAL kfmt.Printf / early ring /
// PrefixWriter / SetOutputSink, and records one JSON event per observable step
// (see specs/hal/Bringup.tla for the vocabulary).  Terminals are the real
// tty.VT wrapped by a recorder; consoles are recording mocks.
//
// Everything the harness itself logs consists of bytes >= 128 in the serial
// pattern 128 + (j % 128) ("injected" bytes), so the TLA+ monitor can follow
// them through the HAL's own ASCII messages without depending on their wording.
//
//   TestVerifC16HalCases   replays the scenarios TLC emitted from BringupModel (leg G)
//   TestVerifC16HalRandom  seeded random scenarios at real scale (leg T)

import (
	"bufio"
	"encoding/json"
	"image/color"
	"io"
	"math/rand"
	"os"
	"strconv"
	"testing"
	"unsafe"

	"github.com/ProjectSerenity/firefly/kernel"
	"github.com/ProjectSerenity/firefly/kernel/device"
	"github.com/ProjectSerenity/firefly/kernel/device/tty"
	"github.com/ProjectSerenity/firefly/kernel/device/video/console"
	"github.com/ProjectSerenity/firefly/kernel/device/video/console/font"
	"github.com/ProjectSerenity/firefly/kernel/device/video/console/logo"
	"github.com/ProjectSerenity/firefly/kernel/kfmt"
	"github.com/ProjectSerenity/firefly/kernel/multiboot"
)

type c16Ev map[string]interface{}

// lines of scrollback of the real terminals: more than any scenario can fill, so nothing the
// terminal accepted may be missing from what it holds at the end
const c16Scrollback = 900

type c16DrvSpec struct {
	Order   int    `json:"order"`
	Kind    string `json:"kind"`
	ProbeOk bool   `json:"probeOk"`
	InitOk  bool   `json:"initOk"`
	Say     int    `json:"say"`    // injected bytes written during DriverInit
	NL      int    `json:"nl"`     // >0: a line feed after that many of them
	Direct  int    `json:"direct"` // injected bytes the driver logs with kfmt.Printf itself during DriverInit
	Font    bool   `json:"font"`   // (TLC scenarios) a console with font support
	Caps    int    `json:"caps"`   // console: 1 console.FontSetter, 2 console.LogoSetter, 4 the real VesaFbConsole over host memory
}

type c16Print struct {
	At   int `json:"at"` // 0: before DetectHardware; j: inside the j-th probe call; n+1: after DetectHardware
	Len  int `json:"len"`
	Fill int `json:"fill"` // >0: one ASCII byte (text, blank, line feed, tab) after every Fill injected bytes
}

type c16Scenario struct {
	Drv    []c16DrvSpec `json:"drv"`
	Prints []c16Print   `json:"prints"`
	Unit   int          `json:"unit"`  // byte length of one model length unit
	Align  bool         `json:"align"` // start from an early ring whose indices are zero
}

type c16Run struct {
	enc    *json.Encoder
	t      *testing.T
	serial int
	probes int
	sc     *c16Scenario
}

func (r *c16Run) emit(e c16Ev) {
	if err := r.enc.Encode(e); err != nil {
		r.t.Fatal(err)
	}
}

func (r *c16Run) inject(n int) (int, []byte) {
	from := r.serial
	b := make([]byte, n)
	for i := range b {
		b[i] = byte(128 + (from+i)%128)
	}
	r.serial += n
	return from, b
}

func (r *c16Run) print(n, fill int) {
	from, b := r.inject(n)
	r.emit(c16Ev{"k": "print", "from": from, "len": n})
	if fill > 0 { // ordinary log text around the injected bytes (no backspace / carriage return: they edit the terminal)
		const text = " .-abz,:"
		out := make([]byte, 0, n+n/fill+1)
		for i, c := range b {
			out = append(out, c)
			if (i+1)%fill == 0 {
				switch k := from + i; {
				case k%97 == 0:
					out = append(out, '\n')
				case k%13 == 0:
					out = append(out, '\t')
				default:
					out = append(out, text[k%len(text)])
				}
			}
		}
		b = out
	}
	kfmt.Printf("%s", b)
}

func c16Ints(b []byte) []int {
	out := make([]int, len(b))
	for i, c := range b {
		out[i] = int(c)
	}
	return out
}

// ---- mock drivers

type c16Base struct {
	run  *c16Run
	id   int
	spec c16DrvSpec
	name string
	msg  string
}

func (d *c16Base) verifID() int                            { return d.id }
func (d *c16Base) DriverName() string                      { return d.name }
func (d *c16Base) DriverVersion() (uint16, uint16, uint16) { return 1, 2, 3 }
func (d *c16Base) DriverInit(w io.Writer) *kernel.Error {
	if d.spec.Direct > 0 {
		d.run.print(d.spec.Direct, 0)
	}
	from, b := d.run.inject(d.spec.Say)
	d.run.emit(c16Ev{"k": "init", "id": d.id, "from": from, "len": d.spec.Say, "ok": d.spec.InitOk})
	if len(b) > 0 {
		if d.spec.NL > 0 && d.spec.NL < len(b) {
			kfmt.Fprintf(w, "%s\n%s", b[:d.spec.NL], b[d.spec.NL:])
		} else if d.spec.NL > 0 {
			kfmt.Fprintf(w, "%s\n", b)
		} else {
			kfmt.Fprintf(w, "%s", b)
		}
	}
	if !d.spec.InitOk {
		return &kernel.Error{Module: "M" + d.msg, Message: d.msg}
	}
	return nil
}

type c16IDer interface{ verifID() int }

// c16Cons is a recording console.  With font support (like the shipped frame-buffer console) it has no
// character geometry until SetFont; a logo takes rows away from the text area.
type c16Cons struct {
	c16Base
	pw, ph                 uint32
	needFont               bool
	gw, gh, logoH          uint32
	writes, fills, scrolls int
}

func (c *c16Cons) Dimensions(dim console.Dimension) (uint32, uint32) {
	if dim != console.Characters {
		return c.pw, c.ph
	}
	if !c.needFont {
		return 80, 25 - c.logoH/16
	}
	if c.gw == 0 || c.gh == 0 || c.logoH >= c.ph {
		return 0, 0
	}
	return c.pw / c.gw, (c.ph - c.logoH) / c.gh
}
func (c *c16Cons) DefaultColors() (uint8, uint8)            { return 7, 0 }
func (c *c16Cons) Fill(x, y, w, h uint32, fg, bg uint8)     { c.fills++ }
func (c *c16Cons) Scroll(console.ScrollDir, uint32)         { c.scrolls++ }
func (c *c16Cons) Write(ch byte, fg, bg uint8, x, y uint32) { c.writes++ }
func (c *c16Cons) Palette() color.Palette                   { return nil }
func (c *c16Cons) SetPaletteColor(uint8, color.RGBA)        {}
func (c *c16Cons) setFont(f *font.Font) {
	if f != nil {
		c.gw, c.gh = f.GlyphWidth, f.GlyphHeight
	}
}
func (c *c16Cons) setLogo(l *logo.Image) {
	if l != nil {
		c.logoH = l.Height
	}
}

type c16ConsF struct{ *c16Cons }
type c16ConsL struct{ *c16Cons }
type c16ConsFL struct{ *c16Cons }

func (c c16ConsF) SetFont(f *font.Font)   { c.setFont(f) }
func (c c16ConsL) SetLogo(l *logo.Image)  { c.setLogo(l) }
func (c c16ConsFL) SetFont(f *font.Font)  { c.setFont(f) }
func (c c16ConsFL) SetLogo(l *logo.Image) { c.setLogo(l) }

// c16ConsFB is the shipped VesaFbConsole (8 bpp) over host memory behind the mock driver identity.
type c16ConsFB struct {
	c16Base
	*console.VesaFbConsole
}

func (c *c16ConsFB) DriverName() string                      { return c.c16Base.DriverName() }
func (c *c16ConsFB) DriverVersion() (uint16, uint16, uint16) { return c.c16Base.DriverVersion() }
func (c *c16ConsFB) DriverInit(w io.Writer) *kernel.Error {
	if err := c.c16Base.DriverInit(w); err != nil {
		return err
	}
	return c.VesaFbConsole.DriverInit(w)
}

var c16FbMem []byte

func c16NewFB(base c16Base) *c16ConsFB {
	const w, h = 640, 480
	if c16FbMem == nil {
		c16FbMem = make([]byte, w*h+8192)
	}
	addr := (uintptr(unsafe.Pointer(&c16FbMem[0])) + 4095) &^ 4095
	console.VerifC16BindFb(addr)
	return &c16ConsFB{c16Base: base, VesaFbConsole: console.NewVesaFbConsole(w, h, 8, w, nil, addr)}
}

var c16Info = []uint64{16, 8 << 32} // a multiboot info block with nothing but the end tag (the HAL reads the command line)

type c16TTY struct {
	c16Base
	vt       *tty.VT
	recv     []byte
	attached int
}

// The terminal has "received" what the real VT underneath accepted (an unattached VT refuses input).
func (t *c16TTY) Write(p []byte) (int, error) {
	n, err := t.vt.Write(p)
	if n < 0 || n > len(p) {
		n = 0
	}
	t.recv = append(t.recv, p[:n]...)
	return n, err
}
func (t *c16TTY) WriteByte(b byte) error {
	err := t.vt.WriteByte(b)
	if err == nil {
		t.recv = append(t.recv, b)
	}
	return err
}
func (t *c16TTY) AttachTo(c console.Device) {
	cid := 0
	if x, ok := c.(c16IDer); ok {
		cid = x.verifID()
	}
	t.attached = cid
	t.run.emit(c16Ev{"k": "attach", "tty": t.id, "cons": cid})
	t.vt.AttachTo(c)
}
func (t *c16TTY) State() tty.State { return t.vt.State() }
func (t *c16TTY) SetState(s tty.State) {
	t.run.emit(c16Ev{"k": "state", "tty": t.id, "st": int(s)})
	t.vt.SetState(s)
}
func (t *c16TTY) CursorPosition() (uint32, uint32) { return t.vt.CursorPosition() }
func (t *c16TTY) SetCursorPosition(x, y uint32)    { t.vt.SetCursorPosition(x, y) }

// ---- one scenario

func c16ID(x interface{}) int {
	if x == nil {
		return 0
	}
	if d, ok := x.(c16IDer); ok {
		return d.verifID()
	}
	return -1
}

// c16Scenario1 runs one scenario; it returns the write index of the early ring at the end of DetectHardware.
func c16Scenario1(t *testing.T, enc *json.Encoder, sc *c16Scenario, tag interface{}) (wEnd int) {
	r := &c16Run{enc: enc, t: t, sc: sc}
	if sc.Unit <= 0 {
		sc.Unit = 1
	}
	// fresh world: registry, HAL state, log sink, early ring
	device.VerifC16ResetDrivers()
	devices = managedDevices{}
	if sc.Align {
		kfmt.VerifC16ResetEarly()
	} else {
		kfmt.SetOutputSink(nil)
		io.Copy(io.Discard, kfmt.GetOutputSink().(io.Reader))
	}

	multiboot.SetInfoPtr(uintptr(unsafe.Pointer(&c16Info[0])))
	var ttys []*c16TTY
	var conses []c16ConsRef
	haveFB := false
	drvEv := []c16Ev{}
	n := len(sc.Drv)
	for i := range sc.Drv {
		spec := sc.Drv[i]
		spec.Say *= sc.Unit
		id := i + 1
		base := c16Base{run: r, id: id, spec: spec, name: "N" + strconv.Itoa(id) + ";", msg: "E" + strconv.Itoa(id) + ";"}
		var drv device.Driver
		switch spec.Kind {
		case "tty":
			x := &c16TTY{c16Base: base, vt: tty.NewVT(4, c16Scrollback)}
			ttys = append(ttys, x)
			drv = x
		case "cons":
			caps := spec.Caps
			if spec.Font && caps == 0 {
				caps = 1 + 2*(id%2)
			}
			sizes := [][2]uint32{{640, 480}, {800, 600}, {1024, 768}, {320, 200}}
			mc := &c16Cons{c16Base: base, pw: sizes[id%4][0], ph: sizes[id%4][1], needFont: caps&1 != 0}
			switch {
			case caps&4 != 0 && !haveFB:
				haveFB = true
				x := c16NewFB(base)
				conses = append(conses, c16ConsRef{id, x})
				drv = x
			case caps&3 == 3:
				drv = c16ConsFL{mc}
			case caps&3 == 1:
				drv = c16ConsF{mc}
			case caps&3 == 2:
				drv = c16ConsL{mc}
			default:
				drv = mc
			}
			if _, fb := drv.(*c16ConsFB); !fb {
				conses = append(conses, c16ConsRef{id, drv.(console.Device)})
			}
		default:
			x := base
			drv = &x
		}
		drvEv = append(drvEv, c16Ev{"id": id, "order": spec.Order, "kind": spec.Kind,
			"name": c16Ints([]byte(base.name)), "msg": c16Ints([]byte(base.msg))})
		probeOk := spec.ProbeOk
		device.RegisterDriver(&device.DriverInfo{Order: device.DetectOrder(spec.Order), Probe: func() device.Driver {
			r.probes++
			r.emit(c16Ev{"k": "probe", "id": id})
			for _, p := range sc.Prints {
				if p.At == r.probes {
					r.print(p.Len*sc.Unit, p.Fill)
				}
			}
			if !probeOk {
				return nil
			}
			return drv
		}})
	}
	r.emit(c16Ev{"k": "start", "drv": drvEv, "tag": tag, "unit": sc.Unit})

	func() {
		defer func() {
			if x := recover(); x != nil {
				r.emit(c16Ev{"k": "panic"})
			}
		}()
		for _, p := range sc.Prints {
			if p.At <= 0 {
				r.print(p.Len*sc.Unit, p.Fill)
			}
		}
		DetectHardware()
		for _, p := range sc.Prints {
			if p.At > n {
				r.print(p.Len*sc.Unit, p.Fill)
			}
		}
		wEnd = kfmt.VerifC16EarlyWIndex()
		// one last chunk in every scenario: whatever is the log sink now must still receive output
		r.print(3, 0)
	}()

	// final observation
	end := c16Ev{"k": "end"}
	at := ActiveTTY()
	if at == nil {
		end["activeTTY"] = 0
	} else {
		end["activeTTY"] = c16ID(at)
	}
	if devices.activeConsole == nil {
		end["activeCons"] = 0
	} else {
		end["activeCons"] = c16ID(devices.activeConsole)
	}
	act := []int{}
	for _, d := range devices.activeDrivers {
		act = append(act, c16ID(d))
	}
	end["active"] = act
	switch s := kfmt.GetOutputSink().(type) {
	case *c16TTY:
		end["sink"] = s.id
	case io.Reader: // the early ring
		end["sink"] = 0
	default:
		end["sink"] = -1
	}
	shown, state, attached, held := []c16Ev{}, []c16Ev{}, []c16Ev{}, []c16Ev{}
	for _, x := range ttys {
		shown = append(shown, c16Ev{"id": x.id, "v": c16Ints(x.recv)})
		// what the real terminal holds now: its non-blank cells in row-major order
		cells := []byte{}
		for _, ch := range x.vt.VerifC16Held() {
			if ch != ' ' {
				cells = append(cells, ch)
			}
		}
		held = append(held, c16Ev{"id": x.id, "v": c16Ints(cells)})
		state = append(state, c16Ev{"id": x.id, "v": int(x.State())})
		attached = append(attached, c16Ev{"id": x.id, "v": x.attached})
	}
	end["shown"], end["state"], end["attached"], end["held"] = shown, state, attached, held
	geom, consGeom := []c16Ev{}, []c16Ev{}
	for _, x := range ttys {
		gw, gh := x.vt.VerifC16Geometry()
		geom = append(geom, c16Ev{"id": x.id, "v": []int{int(gw), int(gh)}})
	}
	for _, c := range conses {
		cw, ch := c.cons.Dimensions(console.Characters)
		consGeom = append(consGeom, c16Ev{"id": c.id, "v": []int{int(cw), int(ch)}})
	}
	end["geom"], end["consGeom"] = geom, consGeom
	var rest c16Sink
	kfmt.SetOutputSink(nil)
	io.Copy(&rest, kfmt.GetOutputSink().(io.Reader))
	end["ring"] = c16Ints(rest.b)
	r.emit(end)
	r.emit(c16Ev{"k": "reset"})
	return wEnd
}

type c16ConsRef struct {
	id   int
	cons console.Device
}

type c16Sink struct{ b []byte }

func (s *c16Sink) Write(p []byte) (int, error) { s.b = append(s.b, p...); return len(p), nil }

func c16Out(t *testing.T) (*json.Encoder, func()) {
	f, err := os.Create(os.Getenv("TRACE_OUT"))
	if err != nil {
		t.Fatal(err)
	}
	bw := bufio.NewWriterSize(f, 1<<20)
	return json.NewEncoder(bw), func() { bw.Flush(); f.Close() }
}

// TestVerifC16HalCases replays $CASES: one scenario JSON object per line.
func TestVerifC16HalCases(t *testing.T) {
	in, err := os.Open(os.Getenv("CASES"))
	if err != nil {
		t.Fatal(err)
	}
	defer in.Close()
	enc, done := c16Out(t)
	defer done()
	sc := bufio.NewScanner(in)
	sc.Buffer(make([]byte, 1<<16), 1<<24)
	n := 0
	for sc.Scan() {
		if len(sc.Bytes()) == 0 {
			continue
		}
		var s c16Scenario
		if err := json.Unmarshal(sc.Bytes(), &s); err != nil {
			t.Fatalf("scenario %d: %v", n, err)
		}
		if s.Drv == nil {
			s.Drv = []c16DrvSpec{}
		}
		if s.Prints == nil {
			s.Prints = []c16Print{}
		}
		if s.Unit <= 0 {
			s.Unit = 1
		}
		enc.Encode(c16Ev{"k": "scenario", "sc": s})
		c16Scenario1(t, enc, &s, n)
		n++
	}
	t.Logf("replayed %d scenarios", n)
}

// TestVerifC16HalRandom: seeded random scenarios at real scale; each is logged as a "scenario"
// line first so that it can be replayed exactly through TestVerifC16HalCases.
func TestVerifC16HalRandom(t *testing.T) {
	seed, _ := strconv.ParseInt(os.Getenv("VERIF_SEED"), 10, 64)
	n, _ := strconv.Atoi(os.Getenv("NTRACES"))
	if n == 0 {
		n = 100
	}
	rng := rand.New(rand.NewSource(seed*15485863 + 16))
	enc, done := c16Out(t)
	defer done()
	kinds := []string{"tty", "cons", "other"}
	fixed := []int{-128, -127, 0, 127}
	for i := 0; i < n; i++ {
		s := c16Scenario{Drv: []c16DrvSpec{}, Prints: []c16Print{}, Unit: 1, Align: rng.Intn(2) == 0}
		nd := rng.Intn(9)
		pairs := rng.Intn(3) == 0 // several terminals and consoles, in every order relative to each other and to failing drivers
		if pairs {
			nd = 3 + rng.Intn(5)
		} else if rng.Intn(12) == 0 {
			nd = 9 + rng.Intn(16) // beyond the insertion-sort threshold of sort.Sort
		}
		for j := 0; j < nd; j++ {
			d := c16DrvSpec{Kind: kinds[rng.Intn(3)], ProbeOk: rng.Intn(6) != 0, InitOk: rng.Intn(4) != 0}
			if pairs {
				d.Kind = kinds[rng.Intn(2)]
				d.ProbeOk = rng.Intn(10) != 0
			}
			if rng.Intn(2) == 0 {
				d.Order = fixed[rng.Intn(4)]
			} else {
				d.Order = rng.Intn(256) - 128
			}
			switch rng.Intn(4) {
			case 0:
			case 1:
				d.Say = 1 + rng.Intn(40)
			case 2:
				d.Say = 1 + rng.Intn(40)
				d.NL = 1 + rng.Intn(d.Say)
			default:
				d.Say = 100 + rng.Intn(400)
			}
			if rng.Intn(5) == 0 {
				d.Direct = 1 + rng.Intn(50)
			}
			if d.Kind == "cons" {
				d.Caps = []int{0, 1, 2, 3, 3, 1, 0, 4}[rng.Intn(8)]
			}
			s.Drv = append(s.Drv, d)
		}
		heavy := rng.Intn(3) == 0 // scenarios that overflow the 2047-byte ring before the link
		for k := rng.Intn(7); k > 0; k-- {
			p := c16Print{At: rng.Intn(nd + 2)}
			switch r := rng.Intn(10); {
			case r < 5:
				p.Len = 1 + rng.Intn(60)
			case r < 8 || !heavy:
				p.Len = 100 + rng.Intn(500)
			default:
				p.Len = 1200 + rng.Intn(1500)
			}
			if rng.Intn(3) == 0 {
				p.Fill = 1 + rng.Intn(40)
			}
			s.Prints = append(s.Prints, p)
		}
		if heavy && rng.Intn(2) == 0 { // land close to the capacity
			s.Prints = append(s.Prints, c16Print{At: 0, Len: 1900 + rng.Intn(300)})
		}
		enc.Encode(c16Ev{"k": "scenario", "sc": s})
		c16Scenario1(t, enc, &s, i)
	}

	// Early-log volumes EXACTLY at k*size and k*size +- 1 at the moment the terminal takes over, for several
	// chunkings and both arrival orders.  The HAL's own messages count too and their length is not ours to
	// know: a first run 64 bytes short tells (from where the ring's write index ends up) how many bytes the
	// HAL adds, the following runs use that to land on the boundary.  Inputs only; the monitor judges as usual.
	maxK, _ := strconv.Atoi(os.Getenv("C16_SWEEP_K"))
	if maxK == 0 {
		maxK = 2
	}
	size := kfmt.VerifC16RingSize()
	tag := n
	for k := 1; k <= maxK; k++ {
		for cfg := 0; cfg < 4; cfg++ {
			for chunking := 0; chunking < 3; chunking++ {
				mk := func(total int) c16Scenario {
					s := c16Scenario{Drv: []c16DrvSpec{}, Prints: []c16Print{}, Unit: 1, Align: true}
					tt := c16DrvSpec{Order: -128, Kind: "tty", ProbeOk: true, InitOk: true}
					cc := c16DrvSpec{Order: 0, Kind: "cons", ProbeOk: true, InitOk: true}
					if cfg&2 != 0 {
						tt.Say, cc.Say = 5, 9
						cc.Caps = 3
					}
					if cfg&1 == 0 {
						s.Drv = append(s.Drv, tt, cc)
					} else {
						cc.Order, tt.Order = -128, 0
						s.Drv = append(s.Drv, cc, tt)
					}
					var parts []int
					switch chunking {
					case 0:
						parts = []int{total}
					case 1:
						for rest := total; rest > 0; rest -= 512 {
							if rest < 512 {
								parts = append(parts, rest)
							} else {
								parts = append(parts, 512)
							}
						}
					default:
						parts = []int{1, total - 2, 1}
					}
					for i, p := range parts {
						at := 0
						if chunking == 1 && i%3 == 2 {
							at = 1 + i%2 // some chunks between the driver steps
						}
						if p > 0 {
							s.Prints = append(s.Prints, c16Print{At: at, Len: p})
						}
					}
					return s
				}
				probe := mk(k*size - 64)
				enc.Encode(c16Ev{"k": "scenario", "sc": probe})
				w := c16Scenario1(t, enc, &probe, tag)
				tag++
				// the write index is where the early log ended: (k*size - 64 + halBytes) mod size
				short := (size - w%size) % size // bytes still missing to the next multiple of size
				for _, d := range []int{0, -1, 1} {
					s := mk(k*size - 64 + short + d)
					enc.Encode(c16Ev{"k": "scenario", "sc": s})
					c16Scenario1(t, enc, &s, tag)
					tag++
				}
			}
		}
	}
}
