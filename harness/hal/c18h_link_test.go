//go:build verif
// +build verif

package hal

// C18, hal leg: the REAL hal links a console and a REAL tty.VT (onDriverInit -> onConsoleInit /
// linkTTYToConsole), in both driver orders and with further consoles / terminals coming later,
// over consoles whose memory holds garbage when the HAL gets them (boot-loader text, splash).
// Output then goes through the kfmt sink the HAL installed and through hal.ActiveTTY().
//
// No oracle: the terminal handed to the HAL is a thin recorder around the real VT that logs one
// event per call the HAL / kfmt / the harness makes (attach, st, w, cur) with the same projected
// state as harness/tty (VerifC18Observe: cursor, viewport origin, buffer, console calls, what
// every console cell shows).  The events are judged by specs/tty/VTTrace.tla (C18): the
// terminal's commanded state is followed from the SetState calls, whether before or after
// AttachTo, and an active terminal's console must show the viewport after activation and after
// every write.
//
//   TestVerifC18HalLink   env: TRACE_OUT (+ .inputs), VERIF_SEED, VERIF_TIER, NTRACES, CASES (replay)

import (
	"bufio"
	"encoding/json"
	"io"
	"math/rand"
	"os"
	"strconv"
	"testing"

	"github.com/ProjectSerenity/firefly/kernel"
	"github.com/ProjectSerenity/firefly/kernel/device"
	"github.com/ProjectSerenity/firefly/kernel/device/tty"
	"github.com/ProjectSerenity/firefly/kernel/device/video/console"
	"github.com/ProjectSerenity/firefly/kernel/kfmt"
)

type c18hCase struct {
	Hal   bool      `json:"hal"`
	Kind  string    `json:"kind"` // console kind of the first console: rec | vga | fb
	W     int       `json:"w"`
	H     int       `json:"h"`
	SB    int       `json:"sb"`
	Tab   int       `json:"tab"`
	Cfg   int64     `json:"cfg"`
	Cp    int       `json:"cp"`
	Order []string  `json:"order"` // driver initialisation order: "cons" | "tty" (the first of each kind is the one above)
	Early []int     `json:"early"` // bytes printed through kfmt before any driver exists (early ring)
	Ops   [][]int64 `json:"ops"`   // {0,b} ActiveTTY().WriteByte; {1,x,y} SetCursorPosition; {2,a} SetState; {3,b...} kfmt.Printf("%s")
	ID    int       `json:"id"`
	Leg   string    `json:"leg"`
}

type c18hRun struct {
	enc *json.Encoder
	c   *c18hCase
	n   int // events since attach
}

func (r *c18hRun) emit(e map[string]interface{}) { r.enc.Encode(e) }

// a console as a device driver (what the HAL's type switch needs)
type c18hCons struct {
	console.Device
	h *tty.VerifC18Console
}

func (c *c18hCons) DriverName() string                      { return "c18h_console" }
func (c *c18hCons) DriverVersion() (uint16, uint16, uint16) { return 0, 0, 1 }
func (c *c18hCons) DriverInit(io.Writer) *kernel.Error      { return nil }

// the recorder around the real VT
type c18hTTY struct {
	run  *c18hRun
	vt   *tty.VT
	cons *c18hCons // nil until attached
}

func (t *c18hTTY) DriverName() string                      { return "c18h_tty" }
func (t *c18hTTY) DriverVersion() (uint16, uint16, uint16) { return 0, 0, 1 }
func (t *c18hTTY) DriverInit(io.Writer) *kernel.Error      { return nil }

func c18hSat(v uint32) int {
	if v > 1<<30 {
		return 1 << 30
	}
	return int(v)
}

// log one call: e holds kind and arguments, f makes the call on the real VT
func (t *c18hTTY) call(e map[string]interface{}, forceCp bool, f func() string) string {
	res := func() (r string) {
		defer func() {
			if x := recover(); x != nil {
				r = "panic"
			}
		}()
		return f()
	}()
	e["res"] = res
	if t.cons != nil {
		t.run.n++
		cp := forceCp || t.run.c.Cp <= 1 || t.run.n%t.run.c.Cp == 0
		tty.VerifC18Observe(e, t.vt, t.cons.h, cp && res == "ok")
	}
	t.run.emit(e)
	return res
}

func (t *c18hTTY) AttachTo(c console.Device) {
	hc, ok := c.(*c18hCons)
	if !ok {
		return
	}
	e := map[string]interface{}{"k": "attach", "sb": t.run.c.SB, "tab": t.run.c.Tab, "id": t.run.c.ID, "leg": t.run.c.Leg}
	hc.h.Describe(e)
	t.cons = hc
	t.call(e, true, func() string { t.vt.AttachTo(c); return "ok" })
}
func (t *c18hTTY) State() tty.State { return t.vt.State() }
func (t *c18hTTY) SetState(s tty.State) {
	t.call(map[string]interface{}{"k": "st", "a": int(s)}, true, func() string { t.vt.SetState(s); return "ok" })
}
func (t *c18hTTY) CursorPosition() (uint32, uint32) { return t.vt.CursorPosition() }
func (t *c18hTTY) SetCursorPosition(x, y uint32) {
	t.call(map[string]interface{}{"k": "cur", "x": c18hSat(x), "y": c18hSat(y)}, false,
		func() string { t.vt.SetCursorPosition(x, y); return "ok" })
}
func (t *c18hTTY) WriteByte(b byte) error {
	var err error
	t.call(map[string]interface{}{"k": "w", "b": int(b)}, false, func() string {
		if err = t.vt.WriteByte(b); err != nil {
			return "err"
		}
		return "ok"
	})
	return err
}

// Write passes the bytes on one at a time (one event per byte), through the real VT.Write.
func (t *c18hTTY) Write(p []byte) (int, error) {
	for i := range p {
		var err error
		t.call(map[string]interface{}{"k": "w", "b": int(p[i])}, false, func() string {
			if _, err = t.vt.Write(p[i : i+1]); err != nil {
				return "err"
			}
			return "ok"
		})
		if err != nil {
			return i, err
		}
	}
	return len(p), nil
}

func c18hArg(v int64) uint32 {
	if v < 0 {
		return 0xffffffff
	}
	return uint32(v)
}

func c18hRunCase(enc *json.Encoder, c *c18hCase) {
	r := &c18hRun{enc: enc, c: c}
	// fresh world: HAL state, log sink, early ring
	devices = managedDevices{}
	kfmt.SetOutputSink(nil)
	io.Copy(io.Discard, kfmt.GetOutputSink().(io.Reader))
	rng := rand.New(rand.NewSource(c.Cfg))

	if len(c.Early) > 0 {
		b := make([]byte, len(c.Early))
		for i, v := range c.Early {
			b[i] = byte(v)
		}
		kfmt.Printf("%s", b)
	}
	func() {
		defer func() {
			if x := recover(); x != nil {
				r.emit(map[string]interface{}{"k": "w", "b": 0, "res": "panic", "cx": 0, "cy": 0, "vy": 0, "cc": 0, "out": 0,
					"cp": 0, "calls": [][]int{}, "data": []int{}, "scr": []int{}})
			}
		}()
		ncons, ntty := 0, 0
		for _, k := range c.Order {
			switch k {
			case "cons":
				kind, w, h := c.Kind, c.W, c.H
				if ncons > 0 { // a second console coming later: another size, so that a wrong link shows
					kind, w, h = "rec", c.W+1, c.H+1
				}
				ncons++
				hnd := tty.VerifC18NewConsole(kind, uint32(w), uint32(h), rng)
				onDriverInit(&device.DriverInfo{}, &c18hCons{Device: hnd.Device(), h: hnd})
			case "tty":
				ntty++
				onDriverInit(&device.DriverInfo{}, &c18hTTY{run: r, vt: tty.NewVT(uint8(c.Tab), uint32(c.SB))})
			}
		}
		at := ActiveTTY()
		for _, op := range c.Ops {
			if at == nil {
				break
			}
			switch op[0] {
			case 0:
				at.WriteByte(byte(op[1]))
			case 1:
				at.SetCursorPosition(c18hArg(op[1]), c18hArg(op[2]))
			case 2:
				at.SetState(tty.State(op[1]))
			case 3:
				b := make([]byte, len(op)-1)
				for i, v := range op[1:] {
					b[i] = byte(v)
				}
				kfmt.Printf("%s", b)
			}
		}
	}()
	r.emit(map[string]interface{}{"k": "reset"})
}

func c18hText(rng *rand.Rand, n int) []int {
	out := make([]int, n)
	for i := range out {
		switch k := rng.Intn(20); {
		case k < 3:
			out[i] = '\n'
		case k == 3:
			out[i] = '\t'
		case k == 4:
			out[i] = '\b'
		case k == 5:
			out[i] = '\r'
		default:
			out[i] = 33 + rng.Intn(94)
		}
	}
	return out
}

func c18hRandomCase(rng *rand.Rand, i int, quick bool) *c18hCase {
	orders := [][]string{{"cons", "tty"}, {"tty", "cons"}, {"cons", "tty", "cons", "tty"}, {"tty", "tty", "cons", "cons"},
		{"cons", "cons", "tty"}, {"tty", "cons", "tty", "cons"}}
	kinds := []string{"rec", "vga", "fb"}
	c := &c18hCase{Hal: true, Kind: kinds[i%3], Order: orders[(i/3)%len(orders)], Cfg: int64(rng.Int31()), Cp: 1}
	c.W, c.H, c.SB, c.Tab = 2+rng.Intn(12), 1+rng.Intn(6), rng.Intn(4), rng.Intn(6)
	nops := 10 + rng.Intn(40)
	if i%11 == 10 { // the size the kernel boots with
		c.W, c.H, c.SB, c.Tab, c.Cp = 80, 25, 80, 4, 37
		nops = 100
		if !quick {
			nops = 500
		}
	}
	if rng.Intn(4) > 0 {
		c.Early = c18hText(rng, 1+rng.Intn(3*c.W))
	}
	for len(c.Ops) < nops {
		switch k := rng.Intn(20); {
		case k < 8:
			c.Ops = append(c.Ops, []int64{0, int64(c18hText(rng, 1)[0])})
		case k < 16:
			op := []int64{3}
			lim := 2 * c.W
			if lim > 40 {
				lim = 40
			}
			for _, b := range c18hText(rng, 1+rng.Intn(lim)) {
				op = append(op, int64(b))
			}
			c.Ops = append(c.Ops, op)
		case k < 18:
			c.Ops = append(c.Ops, []int64{1, int64(rng.Intn(c.W + 2)), int64(rng.Intn(c.H + 2))})
		default:
			c.Ops = append(c.Ops, []int64{2, int64(rng.Intn(2))})
		}
	}
	return c
}

func TestVerifC18HalLink(t *testing.T) {
	seed, _ := strconv.ParseInt(os.Getenv("VERIF_SEED"), 10, 64)
	rng := rand.New(rand.NewSource(seed*31 + 18))
	quick := os.Getenv("VERIF_TIER") != "thorough"
	var cases []*c18hCase
	if p := os.Getenv("CASES"); p != "" { // replay: pinned cases
		f, err := os.Open(p)
		if err != nil {
			t.Fatal(err)
		}
		sc := bufio.NewScanner(f)
		sc.Buffer(make([]byte, 1<<24), 1<<24)
		for sc.Scan() {
			c := &c18hCase{}
			if err := json.Unmarshal(sc.Bytes(), c); err != nil {
				t.Fatalf("bad case: %v", err)
			}
			cases = append(cases, c)
		}
		f.Close()
	} else {
		n, _ := strconv.Atoi(os.Getenv("NTRACES"))
		if n == 0 {
			n = 36
		}
		for i := 0; i < n; i++ {
			cases = append(cases, c18hRandomCase(rng, i, quick))
		}
	}
	out, err := os.Create(os.Getenv("TRACE_OUT"))
	if err != nil {
		t.Fatal(err)
	}
	inputs, err := os.Create(os.Getenv("TRACE_OUT") + ".inputs")
	if err != nil {
		t.Fatal(err)
	}
	bw, bi := bufio.NewWriterSize(out, 1<<20), bufio.NewWriterSize(inputs, 1<<20)
	enc, ienc := json.NewEncoder(bw), json.NewEncoder(bi)
	for i, c := range cases {
		c.ID, c.Leg, c.Hal = i, "H", true
		ienc.Encode(c)
		c18hRunCase(enc, c)
	}
	bw.Flush()
	bi.Flush()
	out.Close()
	inputs.Close()
	os.WriteFile(os.Getenv("TRACE_OUT")+".status", []byte("{\"done\":1,\"cases\":"+strconv.Itoa(len(cases))+",\"hangs\":0}\n"), 0644)
}
