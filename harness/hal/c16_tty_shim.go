//go:build verif
// +build verif

package tty

// Export shim for the C16 harness (overlaid into kernel/device/tty, never part
// of /repo): a read-only projection of what the terminal currently HOLDS, so
// that the bring-up monitor can see output being discarded (e.g. by a second
// AttachTo) and not only what was once written to the terminal.

// VerifC16Held returns the character of every cell of the terminal buffer
// (scrollback included) in row-major order; nil for a terminal that was never
// attached.
func (t *VT) VerifC16Held() []byte {
	out := make([]byte, 0, len(t.data)/3)
	for i := 0; i+2 < len(t.data); i += 3 {
		out = append(out, t.data[i])
	}
	return out
}

// VerifC16Geometry returns the character geometry the terminal was attached with.
func (t *VT) VerifC16Geometry() (uint32, uint32) { return t.viewportWidth, t.viewportHeight }
