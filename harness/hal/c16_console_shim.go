//go:build verif
// +build verif

package console

// Export shim for the C16 bring-up harness (overlaid into kernel/device/video/console, never
// part of /repo): the shipped frame-buffer console maps its frame buffer through the unexported
// seam mapRegionFn and programs the VGA DAC through portWriteByteFn (the repository's own tests
// rebind the same two variables); the harness binds them to host memory.

import (
	"github.com/ProjectSerenity/firefly/kernel"
	"github.com/ProjectSerenity/firefly/kernel/mm"
	"github.com/ProjectSerenity/firefly/kernel/mm/vmm"
)

// VerifC16BindFb makes DriverInit of the shipped consoles map their frame buffer at the
// page-aligned host address addr and turns DAC port writes into no-ops.
func VerifC16BindFb(addr uintptr) {
	mapRegionFn = func(_ mm.Frame, _ uintptr, _ vmm.PageTableEntryFlag) (mm.Page, *kernel.Error) {
		return mm.PageFromAddress(addr), nil
	}
	portWriteByteFn = func(uint16, uint8) {}
}
