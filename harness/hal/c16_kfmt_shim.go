//go:build verif
// +build verif

package kfmt

// Export shim for the C16 bring-up harness (overlaid into kernel/kfmt, never
// part of /repo): scenarios that place the early-log volume exactly on a
// multiple of the ring size need to start from a ring whose indices are zero
// and to learn where the write index ended up.

// VerifC16ResetEarly detaches the output sink and empties the early ring with both indices at zero.
func VerifC16ResetEarly() {
	outputSink = nil
	earlyPrintBuffer = ringBuffer{}
}

// VerifC16EarlyWIndex returns the write index of the early ring.
func VerifC16EarlyWIndex() int { return earlyPrintBuffer.wIndex }

// VerifC16RingSize returns the size of the early ring.
func VerifC16RingSize() int { return ringBufferSize }
