//go:build verif
// +build verif

package device

// Export shim for the C16 harness (overlaid into kernel/device, never part of
// /repo): hal.DetectHardware reads the package-private driver registry, which
// the acpi / console / tty packages fill from their init functions.  The
// harness needs to start every scenario from an empty registry.

// VerifC16ResetDrivers empties the list of registered drivers.
func VerifC16ResetDrivers() { registeredDrivers = nil }
