//go:build verif
// +build verif

package vmm

// Conformance harness for C06 (copy-on-write faults, zero-frame protection; DESIGN 4.4).
//
// It contains no oracle.  "Physical memory" is a memfd mapped once MAP_SHARED (frame number =
// host address >> 12); page tables live in it and are read by a software MMU (hardware walk).
// The pages of a small observed universe sit at low-canonical virtual addresses that are
// aliased (mmap MAP_FIXED of the memfd) onto whatever frame the page tables currently map
// them to, read-only unless the walk says writable, so that the REAL pageFaultHandler's
// Memcopy(faultPage, tmpPage) reads the bytes the MMU would show.  The aliases play the TLB:
// they are refreshed whenever the code under test reaches a seam (allocator, MapTemporary,
// Unmap, flush).  The real vmm.Init installs the handlers (captured through
// handleInterruptFn) and reserves the zero frame; scripts then call the real mapping
// interface and deliver faults.  Every call is logged with the projected state after it;
// specs/vmm/CoWTrace.tla judges the events.

import (
	"bufio"
	"crypto/sha1"
	"encoding/json"
	"fmt"
	"io"
	"math/rand"
	"os"
	"runtime/debug"
	"strconv"
	"syscall"
	"testing"
	"unsafe"

	"github.com/ProjectSerenity/firefly/kernel"
	"github.com/ProjectSerenity/firefly/kernel/gate"
	"github.com/ProjectSerenity/firefly/kernel/kfmt"
	"github.com/ProjectSerenity/firefly/kernel/mm"
	"github.com/ProjectSerenity/firefly/kernel/multiboot"
)

const (
	c06FrameMask = uintptr(0x000ffffffffff000)
	c06NFrames   = 160
	c06UBase     = uintptr(0x00007a0000000000)
	c06NP        = 6
)

// virtual addresses of the observed universe: 1,2,6 share a last-level table, 3 shares the level-2
// table, 4 the level-1 table, 5 only the root
var c06UVA = [c06NP + 1]uintptr{0,
	c06UBase, c06UBase + 0x1000, c06UBase + 0x200000, c06UBase + 0x40000000, c06UBase + 0x8000000000, c06UBase + 0x2000}

type c06Ev map[string]interface{}

type c06Flush struct {
	Pg  int `json:"pg"`
	F   int `json:"f"`
	RW  int `json:"rw"`
	CoW int `json:"cow"`
}

type c06Machine struct {
	fd       int
	base     uintptr
	next     int
	allocs   int
	failAt   int
	nfail    int
	handed   []int // frame ids handed out since arm()
	tmpFail  bool
	tmpFails int
	active   uintptr
	roots    []uintptr // every address space that exists (for the zero-frame scan)
	lastPTE  unsafe.Pointer
	tmpAlias mm.Page
	flushes  []c06Flush
	cr2      uint64
	handlers map[gate.InterruptNumber]func(*gate.Registers)
	alias    [c06NP + 1]struct {
		frame uintptr
		prot  int
	}
	contentIDs map[[20]byte]int
	info       [2]uint64
	dead       bool
	rng        *rand.Rand
}

func c06Mmap(addr uintptr, length int, prot, flags int, fd int, off int64) (uintptr, error) {
	r, _, e := syscall.Syscall6(syscall.SYS_MMAP, addr, uintptr(length), uintptr(prot), uintptr(flags), uintptr(fd), uintptr(off))
	if e != 0 {
		return 0, e
	}
	return r, nil
}

func c06NewMachine(t testing.TB) *c06Machine {
	name := []byte("verif-c06-phys\x00")
	fd, _, e := syscall.Syscall(319 /* memfd_create */, uintptr(unsafe.Pointer(&name[0])), 0, 0)
	if e != 0 {
		t.Fatalf("memfd_create: %v", e)
	}
	if err := syscall.Ftruncate(int(fd), c06NFrames*4096); err != nil {
		t.Fatal(err)
	}
	base, err := c06Mmap(0, c06NFrames*4096, syscall.PROT_READ|syscall.PROT_WRITE, syscall.MAP_SHARED, int(fd), 0)
	if err != nil {
		t.Fatal(err)
	}
	m := &c06Machine{fd: int(fd), base: base, contentIDs: map[[20]byte]int{}}
	// claim the universe addresses (fail rather than clobber something the Go runtime owns)
	const mapFixedNoReplace = 0x100000
	for i := 1; i <= c06NP; i++ {
		got, err := c06Mmap(c06UVA[i], 4096, syscall.PROT_NONE, syscall.MAP_PRIVATE|syscall.MAP_ANON|mapFixedNoReplace, -1, 0)
		if err != nil || got != c06UVA[i] {
			t.Fatalf("cannot claim universe page %x: %v", c06UVA[i], err)
		}
		m.alias[i].prot = syscall.PROT_NONE
	}
	var zero [4096]byte
	m.contentIDs[sha1.Sum(zero[:])] = 0
	return m
}

func (m *c06Machine) close() {
	for i := 1; i <= c06NP; i++ {
		syscall.Syscall(syscall.SYS_MUNMAP, c06UVA[i], 4096, 0)
	}
	syscall.Syscall(syscall.SYS_MUNMAP, m.base, c06NFrames*4096, 0)
	syscall.Close(m.fd)
}

func (m *c06Machine) bytes(frame uintptr) []byte {
	return (*[4096]byte)(unsafe.Pointer(frame << 12))[:]
}

func (m *c06Machine) reset() {
	n := m.next
	if n == 0 || n > c06NFrames {
		n = c06NFrames
	}
	b := (*[c06NFrames * 4096]byte)(unsafe.Pointer(m.base))[: n*4096 : n*4096]
	b[0] = 0xA5
	for i := 1; i < len(b); i *= 2 {
		copy(b[i:], b[:i])
	}
	m.next, m.allocs, m.failAt, m.nfail, m.handed, m.tmpFail, m.tmpFails = 0, 0, 0, 0, nil, false, 0
	m.active, m.roots, m.flushes, m.dead = 0, nil, nil, false
	m.handlers = map[gate.InterruptNumber]func(*gate.Registers){}
}

func (m *c06Machine) inPool(frame uintptr) bool {
	return frame >= m.base>>12 && frame < (m.base>>12)+c06NFrames
}

// frame id: 1-based index into physical memory, -1 outside it
func (m *c06Machine) fid(frame uintptr) int {
	if !m.inPool(frame) {
		return -1
	}
	return int(frame-m.base>>12) + 1
}

func (m *c06Machine) arm(failAt int, tmpFail bool) {
	m.allocs, m.nfail, m.failAt, m.handed, m.tmpFail, m.tmpFails, m.flushes = 0, 0, failAt, []int{}, tmpFail, 0, []c06Flush{}
}

func (m *c06Machine) alloc() (mm.Frame, *kernel.Error) {
	m.syncAliases()
	m.allocs++
	if (m.failAt != 0 && m.allocs == m.failAt) || m.next >= c06NFrames {
		m.nfail++
		return mm.InvalidFrame, &kernel.Error{Module: "verif", Message: "out of memory"}
	}
	f := (m.base >> 12) + uintptr(m.next)
	m.next++
	m.handed = append(m.handed, m.fid(f))
	return mm.Frame(f), nil
}

// envFrame hands a frame to the environment (test set-up), filled with fresh random bytes
func (m *c06Machine) envFrame() uintptr {
	if m.next >= c06NFrames {
		m.next = c06NFrames - 1 // (never reached by the generators: a case uses < 100 frames)
	}
	f := (m.base >> 12) + uintptr(m.next)
	m.next++
	m.rng.Read(m.bytes(f))
	return f
}

type c06Walk struct {
	up     [3][6]int // per upper level, as far as the walk gets: P,RW,US,CoW,NX of the entry and the id of the table it points to
	upOK   bool      // all three upper levels present
	leaf   uintptr // last-level entry if reached
	reach  bool    // all upper levels present
	effRW  bool
	mapped bool
}

func (m *c06Machine) walkVA(root, va uintptr) (w c06Walk) {
	table := root
	w.effRW = true
	for lvl := uint(0); lvl < 4; lvl++ {
		if !m.inPool(table >> 12) {
			panic(fmt.Sprintf("machine check: table walk reached non-existent memory %x", table))
		}
		e := *(*uintptr)(unsafe.Pointer(table + ((va>>(39-9*lvl))&511)*8))
		if lvl == 3 {
			w.reach, w.leaf = true, e
			w.mapped = e&1 != 0
			w.effRW = w.effRW && e&2 != 0
			return
		}
		b := c06Bits(e)
		w.up[lvl] = [6]int{b[0], b[1], b[2], b[3], b[4], 0}
		if e&1 == 0 {
			return // the entry that stops the walk is reported with its other bits; nothing is seen below it
		}
		w.up[lvl][5] = m.fid((e & c06FrameMask) >> 12)
		w.upOK = lvl == 2
		w.effRW = w.effRW && e&2 != 0
		table = e & c06FrameMask
	}
	return
}

func (m *c06Machine) xlate(root, va uintptr) (uintptr, bool) {
	w := m.walkVA(root, va)
	if !w.mapped {
		return 0, false
	}
	return w.leaf&c06FrameMask + va&4095, true
}

// entryPtr returns a host pointer to the level-lvl entry for va (nil if an upper level is absent)
func (m *c06Machine) entryPtr(va uintptr, lvl uint) *uintptr {
	table := m.active
	for l := uint(0); ; l++ {
		p := (*uintptr)(unsafe.Pointer(table + ((va>>(39-9*l))&511)*8))
		if l == lvl {
			return p
		}
		if *p&1 == 0 {
			return nil
		}
		table = *p & c06FrameMask
	}
}

func c06Bits(e uintptr) [5]int {
	b := func(x uintptr) int {
		if x != 0 {
			return 1
		}
		return 0
	}
	return [5]int{b(e & 1), b(e & 2), b(e & 4), b(e & (1 << 9)), b(e >> 63)}
}

// c06Extra decodes a mask over the page-table bits that carry no meaning for this property: write-through,
// cache-disable, accessed, dirty, bit 7 (PAT in a last-level entry; never used on upper levels, where it would
// mean a huge page), global, the available bits 10, 11, 52, 58 and protection-key bit 62
func c06Extra(mask int, leaf bool) uintptr {
	var e uintptr
	for i, pos := range []uint{3, 4, 5, 6, 7, 8, 10, 11, 52, 58, 62} {
		if mask>>uint(i)&1 != 0 && (leaf || pos != 7) {
			e |= 1 << pos
		}
	}
	return e
}

func c06Flags(bits int) PageTableEntryFlag {
	var f PageTableEntryFlag
	for i, fl := range []PageTableEntryFlag{FlagPresent, FlagRW, FlagUserAccessible, FlagCopyOnWrite, FlagNoExecute} {
		if bits>>uint(i)&1 != 0 {
			f |= fl
		}
	}
	return f
}

func (m *c06Machine) pageRec(va uintptr) c06Ev {
	w := m.walkVA(m.active, va)
	r := c06Ev{"up": w.up, "fl": [5]int{}, "f": 0}
	if w.reach {
		r["fl"] = c06Bits(w.leaf)
		if w.mapped {
			r["f"] = m.fid((w.leaf & c06FrameMask) >> 12)
		}
	}
	return r
}

// syncAliases makes every universe address show what the page tables say right now
func (m *c06Machine) syncAliases() {
	if m.active == 0 {
		return
	}
	for i := 1; i <= c06NP; i++ {
		m.syncAlias(i)
	}
}

func (m *c06Machine) syncAlias(i int) {
	const mapFixed = 0x10
	w := m.walkVA(m.active, c06UVA[i])
	frame, prot := uintptr(0), syscall.PROT_NONE
	if w.mapped && m.inPool((w.leaf&c06FrameMask)>>12) {
		frame, prot = (w.leaf&c06FrameMask)>>12, syscall.PROT_READ
		if w.effRW {
			prot |= syscall.PROT_WRITE
		}
	}
	a := &m.alias[i]
	if a.frame == frame && a.prot == prot {
		return
	}
	var err error
	if prot == syscall.PROT_NONE {
		_, err = c06Mmap(c06UVA[i], 4096, prot, syscall.MAP_PRIVATE|syscall.MAP_ANON|mapFixed, -1, 0)
	} else {
		_, err = c06Mmap(c06UVA[i], 4096, prot, syscall.MAP_SHARED|mapFixed, m.fd, int64(frame-m.base>>12)*4096)
	}
	if err != nil {
		panic("harness: alias mmap failed: " + err.Error())
	}
	a.frame, a.prot = frame, prot
}

func (m *c06Machine) contentID(frame uintptr) int {
	h := sha1.Sum(m.bytes(frame))
	id, ok := m.contentIDs[h]
	if !ok {
		id = len(m.contentIDs)
		m.contentIDs[h] = id
	}
	return id
}

func (m *c06Machine) universeOf(va uintptr) int {
	for i := 1; i <= c06NP; i++ {
		if c06UVA[i] == va&^4095 {
			return i
		}
	}
	return 0
}

// state projects the machine into the `st` field of an event
func (m *c06Machine) state() c06Ev {
	z := 0
	zf := uintptr(ReservedZeroedFrame)
	if zf != 0 {
		z = m.fid(zf)
	}
	pg := []c06Ev{}
	frames := map[int]uintptr{}
	order := []int{}
	add := func(f uintptr) {
		if id := m.fid(f); id > 0 {
			if _, ok := frames[id]; !ok {
				frames[id] = f
				order = append(order, id)
			}
		}
	}
	if zf != 0 {
		add(zf)
	}
	for i := 1; i <= c06NP; i++ {
		r := m.pageRec(c06UVA[i])
		pg = append(pg, r)
		w := m.walkVA(m.active, c06UVA[i])
		if w.mapped && w.upOK {
			add((w.leaf & c06FrameMask) >> 12)
		}
	}
	ct := []c06Ev{}
	for _, id := range order {
		ct = append(ct, c06Ev{"f": id, "c": m.contentID(frames[id])})
	}
	zrw := [][5]int{}
	if zf != 0 {
		for ri, root := range m.roots {
			m.scanZero(root, ri, zf, &zrw)
		}
	}
	return c06Ev{"z": z, "pg": pg, "ct": ct, "zrw": zrw}
}

// scanZero lists every present last-level entry of root (recursive slot excluded) that points to the zero frame with RW set
func (m *c06Machine) scanZero(root uintptr, ri int, zf uintptr, out *[][5]int) {
	var rec func(table uintptr, lvl int, idx [4]int)
	rec = func(table uintptr, lvl int, idx [4]int) {
		if !m.inPool(table >> 12) {
			return
		}
		top := 512
		if lvl == 0 {
			top = 511
		}
		for i := 0; i < top; i++ {
			e := *(*uintptr)(unsafe.Pointer(table + uintptr(i)*8))
			if e&1 == 0 {
				continue
			}
			idx[lvl] = i
			if lvl == 3 {
				if (e&c06FrameMask)>>12 == zf && e&2 != 0 && len(*out) < 64 {
					*out = append(*out, [5]int{ri, idx[0], idx[1], idx[2], idx[3]})
				}
				continue
			}
			rec(e&c06FrameMask, lvl+1, idx)
		}
	}
	rec(root, 0, [4]int{})
}

func (m *c06Machine) install() func() {
	o1, o2, o3, o4, o5 := ptePtrFn, nextAddrFn, flushTLBEntryFn, activePDTFn, switchPDTFn
	o6, o7, o8, o9, o10, o11 := mapTemporaryFn, unmapFn, handleInterruptFn, visitElfSectionsFn, translateFn, mapFn
	o12, o13 := earlyReserveRegionFn, readCR2Fn
	ptePtrFn = func(entryAddr uintptr) unsafe.Pointer {
		pa, ok := m.xlate(m.active, entryAddr)
		if !ok {
			panic(fmt.Sprintf("page fault: access to unmapped address %x", entryAddr))
		}
		m.lastPTE = unsafe.Pointer(pa)
		return m.lastPTE
	}
	nextAddrFn = func(uintptr) uintptr { return *(*uintptr)(m.lastPTE) & c06FrameMask }
	flushTLBEntryFn = func(a uintptr) {
		m.syncAliases()
		if i := m.universeOf(a); i != 0 {
			w := m.walkVA(m.active, c06UVA[i])
			f := c06Flush{Pg: i}
			if w.reach && w.mapped {
				b := c06Bits(w.leaf)
				f.F, f.RW, f.CoW = m.fid((w.leaf&c06FrameMask)>>12), b[1], b[3]
			}
			m.flushes = append(m.flushes, f)
		}
	}
	activePDTFn = func() uintptr { return m.active }
	switchPDTFn = func(a uintptr) {
		m.active = a
		m.addRoot(a)
	}
	mapTemporaryFn = func(f mm.Frame) (mm.Page, *kernel.Error) {
		m.syncAliases()
		if m.tmpFail {
			m.tmpFails++
			return 0, &kernel.Error{Module: "verif", Message: "temporary mapping failed"}
		}
		p, err := MapTemporary(f)
		if err != nil {
			return 0, err
		}
		pa, ok := m.xlate(m.active, p.Address())
		if !ok {
			panic("page fault: temporary page not mapped")
		}
		m.tmpAlias = mm.Page(pa >> 12)
		return m.tmpAlias, nil
	}
	unmapFn = func(p mm.Page) *kernel.Error {
		m.syncAliases()
		if p == m.tmpAlias {
			p = mm.PageFromAddress(tempMappingAddr)
		}
		return Unmap(p)
	}
	handleInterruptFn = func(n gate.InterruptNumber, _ uint8, h func(*gate.Registers)) { m.handlers[n] = h }
	visitElfSectionsFn = multiboot.VisitElfSections
	translateFn = Translate
	mapFn = Map
	earlyReserveRegionFn = EarlyReserveRegion
	readCR2Fn = func() uint64 { return m.cr2 }
	mm.SetFrameAllocator(m.alloc)
	kfmt.SetOutputSink(io.Discard)
	old := debug.SetPanicOnFault(true)
	return func() {
		debug.SetPanicOnFault(old)
		kfmt.SetOutputSink(nil)
		ptePtrFn, nextAddrFn, flushTLBEntryFn, activePDTFn, switchPDTFn = o1, o2, o3, o4, o5
		mapTemporaryFn, unmapFn, handleInterruptFn, visitElfSectionsFn, translateFn, mapFn = o6, o7, o8, o9, o10, o11
		earlyReserveRegionFn, readCR2Fn = o12, o13
		mm.SetFrameAllocator(nil)
		earlyReserveLastUsed = tempMappingAddr
		protectReservedZeroedPage = false
		ReservedZeroedFrame = 0
		kernelPDT = PageDirectoryTable{}
		multiboot.SetInfoPtr(0)
	}
}

func (m *c06Machine) addRoot(a uintptr) {
	for _, r := range m.roots {
		if r == a {
			return
		}
	}
	m.roots = append(m.roots, a)
}

// ---------------------------------------------------------------- driving the real code

type c06Driver struct {
	m   *c06Machine
	enc *json.Encoder
	n   int
	pdt PageDirectoryTable // a second, inactive address space (created on first use)
}

func (d *c06Driver) emit(e c06Ev) {
	d.m.syncAliases()
	e["st"] = d.m.state()
	d.enc.Encode(e)
	d.n++
}

func c06Call(f func() string) (res string) {
	defer func() {
		if r := recover(); r != nil {
			if _, ok := r.(*kernel.Error); ok {
				res = "panic"
			} else {
				res = fmt.Sprintf("crash: %v", r)
				if len(res) > 120 {
					res = res[:120]
				}
			}
		}
	}()
	return f()
}

func c06b(b bool) int {
	if b {
		return 1
	}
	return 0
}

func c06Err(err *kernel.Error) string {
	if err != nil {
		return "err:" + err.Message
	}
	return "ok"
}

// boot: a hand-made boot address space, then the REAL vmm.Init (new kernel address space, fault
// handlers, zero frame)
func (d *c06Driver) boot() bool {
	m := d.m
	m.reset()
	earlyReserveLastUsed = tempMappingAddr
	protectReservedZeroedPage = false
	ReservedZeroedFrame = 0
	kernelPDT = PageDirectoryTable{}
	d.pdt = PageDirectoryTable{}
	f, _ := m.alloc()
	kernel.Memset(f.Address(), 0, 4096)
	*(*uintptr)(unsafe.Pointer(f.Address() + 511*8)) = f.Address() | 3
	m.active = f.Address()
	m.addRoot(m.active)
	// empty multiboot block: no ELF sections
	m.info = [2]uint64{16, 8 << 32}
	multiboot.SetInfoPtr(uintptr(unsafe.Pointer(&m.info[0])))
	m.arm(0, false)
	res := c06Call(func() string { return c06Err(Init(0xffff800000000000)) })
	d.emit(c06Ev{"k": "init", "res": res})
	return res == "ok"
}

func (d *c06Driver) zeroFrame() mm.Frame { return ReservedZeroedFrame }

// mapCall: one call of the mapping interface; via 0 Map, 1 kernelPDT.Map (active), 2 Map on an inactive address space
// secondSpace creates the second address space on first use
func (d *c06Driver) secondSpace() {
	if d.pdt.pdtFrame == 0 {
		nf, _ := d.m.alloc()
		if err := d.pdt.Init(nf); err != nil {
			panic("harness: cannot create second address space")
		}
		d.m.addRoot(nf.Address())
	}
}

func (d *c06Driver) mapCall(via int, pg int, page mm.Page, frame mm.Frame, bits int, extra ...int) string {
	m := d.m
	m.arm(0, false)
	fl := c06Flags(bits)
	if len(extra) > 0 {
		fl |= PageTableEntryFlag(c06Extra(extra[0], true))
	}
	var res string
	name := "map"
	switch via {
	case 0:
		res = c06Call(func() string { return c06Err(Map(page, frame, fl)) })
	case 1:
		name = "pdt"
		res = c06Call(func() string { return c06Err(kernelPDT.Map(page, frame, fl)) })
	default:
		name = "pdti"
		d.secondSpace()
		m.arm(0, false)
		res = c06Call(func() string { return c06Err(d.pdt.Map(page, frame, fl)) })
	}
	d.emit(c06Ev{"k": "map", "via": name, "pg": pg, "fr": m.fid(uintptr(frame)), "fl": bits, "res": res})
	return res
}

func (d *c06Driver) mapTemporary(frame mm.Frame) {
	d.m.arm(0, false)
	res := c06Call(func() string { _, err := MapTemporary(frame); return c06Err(err) })
	d.emit(c06Ev{"k": "map", "via": "tmp", "pg": 0, "fr": d.m.fid(uintptr(frame)), "fl": 3, "res": res})
}

func (d *c06Driver) mapRegion(identity bool, frame mm.Frame, size uintptr, bits int) {
	d.m.arm(0, false)
	fl := c06Flags(bits)
	name := "region"
	var res string
	if identity {
		name = "idregion"
		res = c06Call(func() string { _, err := IdentityMapRegion(frame, size, fl); return c06Err(err) })
	} else {
		res = c06Call(func() string { _, err := MapRegion(frame, size, fl); return c06Err(err) })
	}
	d.emit(c06Ev{"k": "map", "via": name, "pg": 0, "fr": d.m.fid(uintptr(frame)), "n": int(size), "fl": bits, "res": res})
}

// fault delivers a page fault to the handler vmm.Init installed.  Returns false when the kernel is dead.
func (d *c06Driver) fault(addr uintptr, code uint64, failAt int, tmpFail bool) bool {
	m := d.m
	m.syncAliases()
	pg := m.universeOf(addr)
	pre := m.pageRec(addr)
	m.cr2 = uint64(addr)
	regs := gate.Registers{Info: code, RIP: 0xffff800000123456}
	m.arm(failAt, tmpFail)
	h := m.handlers[gate.PageFaultException]
	res := "nohandler"
	if h != nil {
		res = c06Call(func() string { h(&regs); return "resume" })
	}
	fails, tfails, handed, fl := m.nfail, m.tmpFails, m.handed, m.flushes
	m.arm(0, false)
	d.emit(c06Ev{"k": "fault", "pg": pg, "off": int(addr & 4095), "code": int(code & 0x7fffffff), "pre": pre,
		"afail": failAt, "tfail": c06b(tmpFail), "nfail": fails, "tfailed": tfails, "alloc": handed, "flush": fl, "res": res})
	return res == "resume"
}

func (d *c06Driver) gpf() {
	m := d.m
	regs := gate.Registers{Info: 0}
	m.arm(0, false)
	h := m.handlers[gate.GPFException]
	res := "nohandler"
	if h != nil {
		res = c06Call(func() string { h(&regs); return "resume" })
	}
	d.emit(c06Ev{"k": "gpf", "res": res})
}

func (d *c06Driver) env(what string) { d.emit(c06Ev{"k": "env", "what": what}) }

// environment: set the five flag bits of a page's last-level entry (other bits and the frame stay)
func (d *c06Driver) poke(pg int, bits int, extra uintptr) {
	p := d.m.entryPtr(c06UVA[pg], 3)
	if p == nil || !d.m.inPool((*p&c06FrameMask)>>12) {
		return // only entries that point into physical memory are given new flag bits
	}
	e := *p &^ (uintptr(FlagPresent|FlagRW|FlagUserAccessible|FlagCopyOnWrite) | 1<<63)
	*p = e | uintptr(c06Flags(bits)) | extra
	d.env("poke")
}

// environment: toggle the present bit of an upper-level entry on the page's path
func (d *c06Driver) pokeUp(pg int, lvl uint, present int) {
	p := d.m.entryPtr(c06UVA[pg], lvl)
	if p == nil || *p&c06FrameMask == 0 {
		return
	}
	if present != 0 {
		*p |= 1
	} else {
		*p &^= 1
	}
	d.env("pokeup")
}

// environment: give an upper-level entry on the page's path exactly these five flag bits (frame and other
// bits stay).  Works on entries whose next table is missing too; the present bit is only set on an entry that
// points into physical memory.
func (d *c06Driver) pokeUpFlags(pg int, lvl uint, bits int, extra int) {
	p := d.m.entryPtr(c06UVA[pg], lvl)
	if p == nil {
		return
	}
	if bits&1 != 0 && !d.m.inPool((*p&c06FrameMask)>>12) {
		bits &^= 1
	}
	e := *p &^ (uintptr(FlagPresent|FlagRW|FlagUserAccessible|FlagCopyOnWrite) | 1<<63)
	*p = e | uintptr(c06Flags(bits)) | c06Extra(extra, false)
	d.env("pokeupf")
}

// environment: the resumed code writes to a page it may write to
func (d *c06Driver) store(pg int) {
	w := d.m.walkVA(d.m.active, c06UVA[pg])
	if !w.mapped || !w.effRW || !d.m.inPool((w.leaf&c06FrameMask)>>12) || mm.Frame((w.leaf&c06FrameMask)>>12) == ReservedZeroedFrame {
		return // (the environment itself never writes to the zero frame)
	}
	d.m.syncAliases()
	buf := (*[4096]byte)(unsafe.Pointer(c06UVA[pg]))[:] // through the alias, as the CPU would
	d.m.rng.Read(buf)
	d.env("store")
}

func (d *c06Driver) frameOf(pg int) (mm.Frame, bool) {
	w := d.m.walkVA(d.m.active, c06UVA[pg])
	if !w.mapped {
		return 0, false
	}
	return mm.Frame((w.leaf & c06FrameMask) >> 12), true
}

// ---------------------------------------------------------------- scripts (shared by legs G and T and by replay)
//
// An op is a JSON array: ["fault",pg,off,code,afail,tfail] ["faultat",kind,code] ["mapz",pg,bits,via,extra] ["tmpz"] ["droptmp",lvl] ["activate",which]
// ["regionz",k,n,bits,identity] ["share",q,p,bits] ["mapnew",pg,bits] ["poke",pg,bits,extra] ["pokeup",pg,lvl,present] ["pokeupf",pg,lvl,bits]
// ["store",pg] ["unmap",pg] ["gpf"] ["tmp"]

func c06Int(v interface{}) int {
	switch x := v.(type) {
	case float64:
		return int(x)
	case int:
		return x
	case string:
		n, _ := strconv.Atoi(x)
		return n
	}
	return 0
}

var c06OtherAddrs = []uintptr{
	0, 0x1000, 0x00007b0000000000, c06UBase + 0x5000, c06UBase + 0x201000, 0xffff800000100000,
	tempMappingAddr, 0xfffffffffffff000, 0xffffff7fbfdfe000, 0x0000800000000000, 0xffff7fffffffffff, c06UBase + 0x8000001000,
	// never-created tables below entries that exist on the universe's paths (missing level 1 / 2 / 3 entry)
	c06UBase + 0x80000000, c06UBase + 0x400000, c06UBase + 0x8040000000, c06UBase + 0x40200000, c06UBase + 0x8000200000,
}

// run executes one case: boot, standard set-up (pages 1..3 lazily allocated from the zero frame exactly as
// goruntime does, page 4 private and writable), then the script.
func (d *c06Driver) run(script [][]interface{}) {
	executed := [][]interface{}{} // the concrete calls made (meta ops resolved): what a replay file holds
	defer func() {
		sj, _ := json.Marshal(executed)
		d.enc.Encode(c06Ev{"k": "reset", "script": string(sj), "leg": os.Getenv("VERIF_LEG")})
	}()
	if !d.boot() {
		return
	}
	for pg := 1; pg <= 3; pg++ {
		d.mapCall(0, pg, mm.PageFromAddress(c06UVA[pg]), d.zeroFrame(), 1|8|16)
	}
	d.mapCall(0, 4, mm.PageFromAddress(c06UVA[4]), mm.Frame(d.m.envFrame()), 1|2|16)
	for _, op := range script {
		a := func(i int) int {
			if i < len(op) {
				return c06Int(op[i])
			}
			return 0
		}
		if op[0].(string) == "faultcow" {
			// meta op (leg T): fault on a page that currently is present, read-only and copy-on-write, if there is one
			var cand []int
			for pg := 1; pg <= c06NP; pg++ {
				w := d.m.walkVA(d.m.active, c06UVA[pg])
				if w.mapped && w.leaf&2 == 0 && w.leaf&(1<<9) != 0 {
					cand = append(cand, pg)
				}
			}
			pg := 1 + d.m.rng.Intn(c06NP)
			if len(cand) > 0 {
				pg = cand[d.m.rng.Intn(len(cand))]
			}
			op = []interface{}{"fault", pg, a(1), a(2), a(3), a(4)}
		}
		executed = append(executed, op)
		switch op[0].(string) {
		case "fault":
			if !d.fault(c06UVA[a(1)]+uintptr(a(2)&4095), uint64(a(3)), a(4), a(5) != 0) {
				return
			}
		case "faultat":
			if !d.fault(c06OtherAddrs[a(1)%len(c06OtherAddrs)]+uintptr(a(3)&4095), uint64(a(2)), 0, false) {
				return
			}
		case "mapz":
			d.mapCall(a(3), a(1), mm.PageFromAddress(c06UVA[a(1)]), d.zeroFrame(), a(2), a(4))
		case "tmpz":
			d.mapTemporary(d.zeroFrame())
		case "tmp":
			d.mapTemporary(mm.Frame(d.m.envFrame()))
		case "regionz":
			// a physical region of n pages whose k-th frame is the zero frame
			d.mapRegion(a(4) != 0, d.zeroFrame()-mm.Frame(a(1)), uintptr(a(2)), a(3))
		case "share":
			if f, ok := d.frameOf(a(2)); ok {
				d.mapCall(0, a(1), mm.PageFromAddress(c06UVA[a(1)]), f, a(3))
			}
		case "mapnew":
			d.mapCall(0, a(1), mm.PageFromAddress(c06UVA[a(1)]), mm.Frame(d.m.envFrame()), a(2))
		case "poke":
			d.poke(a(1), a(2), c06Extra(a(3), true))
		case "pokeup":
			d.pokeUp(a(1), uint(a(2))%3, a(3))
		case "pokeupf":
			d.pokeUpFlags(a(1), uint(a(2))%3, a(3), a(4))
		case "droptmp":
			// environment: the tables of the temporary-mapping page are gone (as in an address space that never
			// used it), so the next MapTemporary has to allocate them
			if p := d.m.entryPtr(tempMappingAddr, 1+uint(a(1))%2); p != nil {
				*p = 0
				d.env("droptmp")
			}
		case "activate":
			// environment: switch to the second address space / back to the kernel's (real Activate)
			if a(1) != 0 {
				d.secondSpace()
				d.pdt.Activate()
			} else {
				kernelPDT.Activate()
			}
			d.env("activate")
		case "store":
			d.store(a(1))
		case "unmap":
			d.m.arm(0, false)
			c06Call(func() string { return c06Err(Unmap(mm.PageFromAddress(c06UVA[a(1)]))) })
			d.env("unmap")
		case "gpf":
			d.gpf()
			return
		}
	}
}

func c06Setup(t *testing.T) (*c06Driver, func()) {
	p := os.Getenv("TRACE_OUT")
	if p == "" {
		t.Skip("TRACE_OUT not set")
	}
	out, err := os.Create(p)
	if err != nil {
		t.Fatal(err)
	}
	w := bufio.NewWriterSize(out, 1<<20)
	m := c06NewMachine(t)
	undo := m.install()
	seed, _ := strconv.ParseInt(os.Getenv("VERIF_SEED"), 10, 64)
	m.rng = rand.New(rand.NewSource(seed*104729 + 6))
	d := &c06Driver{m: m, enc: json.NewEncoder(w)}
	return d, func() {
		undo()
		m.close()
		w.Flush()
		out.Close()
	}
}

// ---------------------------------------------------------------- leg G: behaviours emitted by TLC

func TestVerifC06Cases(t *testing.T) {
	d, done := c06Setup(t)
	defer done()
	in, err := os.Open(os.Getenv("CASES"))
	if err != nil {
		t.Fatal(err)
	}
	defer in.Close()
	sc := bufio.NewScanner(in)
	sc.Buffer(make([]byte, 1<<20), 1<<24)
	n := 0
	for sc.Scan() {
		line := sc.Bytes()
		if len(line) == 0 {
			continue
		}
		if line[0] == '"' {
			var s string
			if err := json.Unmarshal(line, &s); err != nil {
				t.Fatal(err)
			}
			line = []byte(s)
		}
		var c struct {
			Script [][]interface{} `json:"script"`
		}
		if err := json.Unmarshal(line, &c); err != nil {
			t.Fatalf("bad case %q: %v", line, err)
		}
		d.run(c.Script)
		n++
	}
	t.Logf("replayed %d cases", n)
}

// ---------------------------------------------------------------- leg T: random histories at real scale

func c06RandomScript(rng *rand.Rand) [][]interface{} {
	var s [][]interface{}
	op := func(v ...interface{}) { s = append(s, v) }
	n := 8 + rng.Intn(40)
	bitsets := []int{1, 1 | 2, 1 | 8, 1 | 8 | 16, 1 | 2 | 16, 1 | 2 | 8, 1 | 4 | 8 | 16, 1 | 16, 1 | 2 | 4, 0, 8, 2 | 8}
	randBits := func() int {
		if rng.Intn(3) == 0 {
			return rng.Intn(32)
		}
		return bitsets[rng.Intn(len(bitsets))]
	}
	codes := []int{0, 1, 2, 3, 4, 5, 6, 7, 8, 9, 11, 16, 17, 19, 31, 0xf00, 0x7fffffff, 0xffffffff, 1 << 32, 1<<40 + 3}
	for i := 0; i < n; i++ {
		pg := 1 + rng.Intn(c06NP)
		switch r := rng.Intn(100); {
		case r < 30:
			afail, tfail := 0, 0
			switch rng.Intn(12) {
			case 0:
				afail = 1 + rng.Intn(4)
			case 1:
				tfail = 1
			}
			if r < 24 {
				op("faultcow", rng.Intn(4096), codes[rng.Intn(len(codes))], afail, tfail)
			} else {
				op("fault", pg, rng.Intn(4096), codes[rng.Intn(len(codes))], afail, tfail)
			}
		case r < 33:
			op("faultat", rng.Intn(len(c06OtherAddrs)), codes[rng.Intn(len(codes))], rng.Intn(4096))
		case r < 47:
			mb := randBits()
			if rng.Intn(6) != 0 {
				mb |= 1 // (mostly present; a writable but non-present request is part of the interface too)
			}
			mx := 0
			if rng.Intn(3) == 0 {
				mx = rng.Intn(2048)
			}
			op("mapz", pg, mb, rng.Intn(3), mx)
		case r < 50:
			op("tmpz")
		case r < 52:
			op("tmp")
		case r < 58:
			k := rng.Intn(3)
			op("regionz", k, (k+rng.Intn(3))*4096+1+rng.Intn(4096), randBits()|1, rng.Intn(2))
		case r < 68:
			op("share", pg, 1+rng.Intn(c06NP), randBits()|1)
		case r < 74:
			op("mapnew", pg, randBits()|1)
		case r < 86:
			op("poke", pg, randBits(), rng.Intn(2048))
		case r < 89:
			op("pokeup", pg, rng.Intn(3), rng.Intn(2))
		case r < 93:
			// upper-level flags: mostly "present, read-only, bit 9" and friends, sometimes anything
			ub := []int{1 | 8, 1 | 8 | 16, 1, 1 | 2 | 8, 8, 1 | 4 | 8}[rng.Intn(6)]
			if rng.Intn(3) == 0 {
				ub = rng.Intn(32)
			}
			op("pokeupf", pg, rng.Intn(3), ub, rng.Intn(2)*rng.Intn(2048))
		case r < 95:
			op("store", pg)
		case r < 96:
			op("droptmp", rng.Intn(2))
		case r < 97:
			op("activate", rng.Intn(2))
		case r < 99:
			op("unmap", pg)
		default:
			op("gpf")
		}
	}
	return s
}

func TestVerifC06Random(t *testing.T) {
	d, done := c06Setup(t)
	defer done()
	n, _ := strconv.Atoi(os.Getenv("NTRACES"))
	if n == 0 {
		n = 50
	}
	inputs, _ := os.Create(os.Getenv("INPUTS_OUT"))
	for i := 0; i < n; i++ {
		s := c06RandomScript(d.m.rng)
		if inputs != nil {
			b, _ := json.Marshal(map[string]interface{}{"script": s})
			inputs.Write(append(b, '\n'))
		}
		d.run(s)
	}
	if inputs != nil {
		inputs.Close()
	}
}
