//go:build verif
// +build verif

package vmm

// Conformance harness for C05 (kernel address space, DESIGN 4.3).
//
// It contains no oracle.  For one configuration (kernel offset, ELF section
// table, early reservations) it
//   - builds a boot address space on a software MMU over host memory
//     (frame number = host address >> 12, DESIGN 3.2),
//   - encodes the section table as a real multiboot2 ELF-symbols tag so that
//     the REAL multiboot.VisitElfSections feeds the REAL vmm.Init /
//     setupPDTForKernel,
//   - then enumerates every page the *active* root translates (hardware walk:
//     present bit at every level, RW/US = AND over the levels, NX = OR) and
//     logs it.
// The events are judged by the TLA+ monitor specs/vmm/KernelPDTTrace.tla.
//
// Events:  cfg {off secs rsv hist tmp}   done {res walk bad nfail}   reset

import (
	"bufio"
	"encoding/binary"
	"encoding/json"
	"fmt"
	"math/rand"
	"os"
	"runtime/debug"
	"strconv"
	"syscall"
	"testing"
	"unsafe"

	"github.com/ProjectSerenity/firefly/kernel"
	"github.com/ProjectSerenity/firefly/kernel/cpu"
	"github.com/ProjectSerenity/firefly/kernel/gate"
	"github.com/ProjectSerenity/firefly/kernel/mm"
	"github.com/ProjectSerenity/firefly/kernel/multiboot"
)

const (
	c05FrameMask = uintptr(0x000ffffffffff000)
	c05WalkCap   = 1 << 14
)

type c05Ev map[string]interface{}

func c05W64(v uint64) [4]int {
	return [4]int{int(v >> 48 & 0xffff), int(v >> 32 & 0xffff), int(v >> 16 & 0xffff), int(v & 0xffff)}
}

// ---------------------------------------------------------------- machine

type c05Machine struct {
	mem      []byte
	base     uintptr
	nframes  int
	next     int
	allocs   int
	failAt   int // fail the k-th allocation counted from the last arm() (0 = never)
	nfail    int
	active   uintptr
	lastPTE  unsafe.Pointer
	tmpAlias mm.Page
	info     []uint64 // multiboot block (kept alive)
	strtab   []byte
}

func c05NewMachine(t testing.TB, n int) *c05Machine {
	mem, err := syscall.Mmap(-1, 0, n*4096, syscall.PROT_READ|syscall.PROT_WRITE, syscall.MAP_ANON|syscall.MAP_PRIVATE)
	if err != nil {
		t.Fatal(err)
	}
	return &c05Machine{mem: mem, base: uintptr(unsafe.Pointer(&mem[0])), nframes: n}
}

func (m *c05Machine) reset() {
	// fresh frames are filled with 0xA5 so that a table that is not cleared shows up as bogus translations
	used := m.next * 4096
	if used == 0 || used > len(m.mem) {
		used = len(m.mem)
	}
	b := m.mem[:used]
	b[0] = 0xA5
	for i := 1; i < len(b); i *= 2 {
		copy(b[i:], b[:i])
	}
	m.next, m.allocs, m.failAt, m.nfail, m.active = 0, 0, 0, 0, 0
}

func (m *c05Machine) inPool(frame uintptr) bool {
	return frame >= m.base>>12 && frame < (m.base>>12)+uintptr(m.nframes)
}

func (m *c05Machine) alloc() (mm.Frame, *kernel.Error) {
	m.allocs++
	if m.failAt != 0 && m.allocs == m.failAt {
		m.nfail++
		return mm.InvalidFrame, &kernel.Error{Module: "verif", Message: "out of memory"}
	}
	if m.next >= m.nframes {
		m.nfail++
		return mm.InvalidFrame, &kernel.Error{Module: "verif", Message: "out of memory"}
	}
	f := mm.Frame((m.base >> 12) + uintptr(m.next))
	m.next++
	return f, nil
}

// xlate is the hardware walk: four levels from root, present bit, bits 12-51.
// rw/us are the AND over the levels, nx the OR (x86-64 semantics).
func (m *c05Machine) xlate(root uintptr, va uintptr) (pa uintptr, rw, us, nx bool, ok bool) {
	table := root
	rw, us = true, true
	for lvl := uint(0); lvl < 4; lvl++ {
		if !m.inPool(table >> 12) {
			panic(fmt.Sprintf("machine check: table walk reached non-existent memory %x", table))
		}
		idx := (va >> (39 - 9*lvl)) & 511
		e := *(*uintptr)(unsafe.Pointer(table + idx*8))
		if e&1 == 0 {
			return 0, false, false, false, false
		}
		rw = rw && e&2 != 0
		us = us && e&4 != 0
		nx = nx || e>>63 != 0
		table = e & c05FrameMask
	}
	return table + (va & 4095), rw, us, nx, true
}

// install binds every seam the code under test uses to the machine and returns the undo function.
func (m *c05Machine) install() func() {
	o1, o2, o3, o4, o5 := ptePtrFn, nextAddrFn, flushTLBEntryFn, activePDTFn, switchPDTFn
	o6, o7, o8, o9, o10, o11 := mapTemporaryFn, unmapFn, handleInterruptFn, visitElfSectionsFn, translateFn, mapFn
	o12 := earlyReserveRegionFn
	ptePtrFn = func(entryAddr uintptr) unsafe.Pointer {
		pa, _, _, _, ok := m.xlate(m.active, entryAddr)
		if !ok {
			panic(fmt.Sprintf("page fault: access to unmapped address %x", entryAddr))
		}
		if !m.inPool(pa >> 12) {
			panic(fmt.Sprintf("machine check: access to non-existent memory %x", pa))
		}
		m.lastPTE = unsafe.Pointer(pa)
		return m.lastPTE
	}
	nextAddrFn = func(uintptr) uintptr {
		// the table the entry just handed out points to, reached through its identity alias
		return *(*uintptr)(m.lastPTE) & c05FrameMask
	}
	flushTLBEntryFn = func(uintptr) {}
	activePDTFn = func() uintptr { return m.active }
	switchPDTFn = func(a uintptr) { m.active = a }
	// The temporary-mapping page lives in the kernel half and cannot exist in a user process: run the
	// real MapTemporary, ask the MMU where that page points now and hand out the identity alias.
	mapTemporaryFn = func(f mm.Frame) (mm.Page, *kernel.Error) {
		p, err := MapTemporary(f)
		if err != nil {
			return 0, err
		}
		pa, _, _, _, ok := m.xlate(m.active, p.Address())
		if !ok {
			panic("page fault: temporary page not mapped")
		}
		if !m.inPool(pa >> 12) {
			panic("machine check: temporary page points to non-existent memory")
		}
		m.tmpAlias = mm.Page(pa >> 12)
		return m.tmpAlias, nil
	}
	unmapFn = func(p mm.Page) *kernel.Error {
		if p == m.tmpAlias {
			p = mm.PageFromAddress(tempMappingAddr)
		}
		return Unmap(p)
	}
	handleInterruptFn = func(gate.InterruptNumber, uint8, func(*gate.Registers)) {}
	visitElfSectionsFn = multiboot.VisitElfSections
	translateFn = Translate
	mapFn = Map
	earlyReserveRegionFn = EarlyReserveRegion
	mm.SetFrameAllocator(m.alloc)
	oldPoF := debug.SetPanicOnFault(true) // a stray access of the code under test becomes a recoverable panic
	return func() {
		debug.SetPanicOnFault(oldPoF)
		ptePtrFn, nextAddrFn, flushTLBEntryFn, activePDTFn, switchPDTFn = o1, o2, o3, o4, o5
		mapTemporaryFn, unmapFn, handleInterruptFn, visitElfSectionsFn, translateFn, mapFn = o6, o7, o8, o9, o10, o11
		earlyReserveRegionFn = o12
		_ = cpu.ActivePDT
		mm.SetFrameAllocator(nil)
		earlyReserveLastUsed = tempMappingAddr
		protectReservedZeroedPage = false
		ReservedZeroedFrame = 0
		kernelPDT = PageDirectoryTable{}
		multiboot.SetInfoPtr(0)
	}
}

// newRoot bootstraps an address space by hand the way rt0 does: zeroed frame, recursive last entry.
func (m *c05Machine) newRoot() mm.Frame {
	f, _ := m.alloc()
	kernel.Memset(f.Address(), 0, 4096)
	*(*uintptr)(unsafe.Pointer(f.Address() + 511*8)) = f.Address() | 3
	return f
}

type c05Walked struct {
	page, frame uint64
	rw, us, nx  bool // as the hardware combines the four levels
	leafUS      bool // the user bit of the last-level entry itself
}

// enumerate lists every page the root translates (top-level slot 511, the recursive window, excluded).
// bad counts present upper-level entries that point outside physical memory.
func (m *c05Machine) enumerate(root uintptr) (out []c05Walked, bad int) {
	var rec func(table uintptr, lvl uint, va uintptr, rw, us, nx bool)
	rec = func(table uintptr, lvl uint, va uintptr, rw, us, nx bool) {
		if !m.inPool(table >> 12) {
			bad++
			return
		}
		top := 512
		if lvl == 0 {
			top = 511
		}
		for i := 0; i < top; i++ {
			e := *(*uintptr)(unsafe.Pointer(table + uintptr(i)*8))
			if e&1 == 0 {
				continue
			}
			v := va | uintptr(i)<<(39-9*lvl)
			r, u, n := rw && e&2 != 0, us && e&4 != 0, nx || e>>63 != 0
			if lvl == 3 {
				if len(out) >= c05WalkCap {
					bad++
					return
				}
				if v>>47&1 != 0 {
					v |= 0xffff000000000000
				}
				out = append(out, c05Walked{uint64(v >> 12), uint64((e & c05FrameMask) >> 12), r, u, n, e&4 != 0})
				continue
			}
			rec(e&c05FrameMask, lvl+1, v, r, u, n)
		}
	}
	rec(root, 0, 0, true, true, false)
	return
}

// ---------------------------------------------------------------- multiboot encoder

type c05Sec struct {
	Addr  uint64 `json:"a"`
	Size  uint64 `json:"sz"`
	Flags uint64 `json:"fl"` // raw ELF sh_flags (bit0 W, bit1 A, bit2 X, others arbitrary)
}

// setSections encodes the section table as a multiboot2 info block with one ELF-symbols tag (type 9,
// 64-byte section headers, section 0 = the empty string-table holder) and points the multiboot package at it.
func (m *c05Machine) setSections(secs []c05Sec) {
	le := binary.LittleEndian
	m.strtab = []byte{0}
	nameIdx := make([]uint32, len(secs))
	for i := range secs {
		nameIdx[i] = uint32(len(m.strtab))
		m.strtab = append(m.strtab, []byte(".s"+strconv.Itoa(i))...)
		m.strtab = append(m.strtab, 0)
	}
	n := len(secs) + 1
	tagSize := 8 + 12 + 64*n
	b := make([]byte, 8, 8+tagSize+16)
	tag := make([]byte, tagSize)
	le.PutUint32(tag[0:], 9)
	le.PutUint32(tag[4:], uint32(tagSize))
	le.PutUint16(tag[8:], uint16(n))
	le.PutUint32(tag[12:], 64)
	le.PutUint32(tag[16:], 0)
	sh := tag[20:]
	// section 0: string table holder; size 0 so the visitor skips it, its address is where names are read
	le.PutUint32(sh[4:], 3)
	le.PutUint64(sh[16:], uint64(uintptr(unsafe.Pointer(&m.strtab[0]))))
	for i, s := range secs {
		h := sh[64*(i+1):]
		le.PutUint32(h[0:], nameIdx[i])
		le.PutUint32(h[4:], [4]uint32{1, 8, 1, 7}[i%4]) // PROGBITS / NOBITS / NOTE: the type carries no meaning for the mapping
		le.PutUint64(h[8:], s.Flags)
		le.PutUint64(h[16:], s.Addr)
		le.PutUint64(h[32:], s.Size)
		le.PutUint64(h[48:], 4096)
	}
	b = append(b, tag...)
	for len(b)%8 != 0 {
		b = append(b, 0)
	}
	b = append(b, 0, 0, 0, 0, 8, 0, 0, 0)
	le.PutUint32(b[0:], uint32(len(b)))
	m.info = make([]uint64, (len(b)+7)/8)
	dst := (*[1 << 20]byte)(unsafe.Pointer(&m.info[0]))[:len(b):len(b)]
	copy(dst, b)
	multiboot.SetInfoPtr(uintptr(unsafe.Pointer(&m.info[0])))
}

// ---------------------------------------------------------------- one case

// c05Req is one early virtual-region request the boot code makes before vmm.Init: either
// EarlyReserveRegion(size) followed by Map of every page (kind 0) or MapRegion(frame, size, flags)
// (kind 1).  Oversized requests (larger than the space that is left, up to 2^64-1) are part of the
// history too: the real code has to refuse them.
type c05Req struct {
	Kind  int    `json:"k"`
	Size  uint64 `json:"sz"`
	Frame uint64 `json:"f"`
	Flags uint64 `json:"fl"` // boot permissions of the pages: bit0 RW, bit1 NX, bit2 US
}

type c05Case struct {
	Off    uint64   `json:"off"`
	Secs   []c05Sec `json:"secs"`
	Hist   []c05Req `json:"hist"`   // boot history, in call order
	FailAt int      `json:"failat"` // 0 = no allocation failure
}

func c05Perms(code uint64) PageTableEntryFlag {
	fl := FlagPresent
	if code&1 != 0 {
		fl |= FlagRW
	}
	if code&2 != 0 {
		fl |= FlagNoExecute
	}
	if code&4 != 0 {
		fl |= FlagUserAccessible
	}
	return fl
}

// c05Request performs one request of the boot history on the real code.  It returns the result and the
// addresses of the pages that are now reserved AND mapped (none for a refused request; none either if the
// real code hands out something that does not lie below the temporary-mapping page, where nothing can be mapped).
func c05Request(r c05Req) (res string, pages []uintptr) {
	const maxPages = 640
	fl := c05Perms(r.Flags)
	n := uintptr(0)
	if r.Size <= maxPages*4096 {
		n = uintptr((r.Size + 4095) / 4096)
	}
	usable := func(a uintptr) bool {
		return n > 0 && a%4096 == 0 && a >= tempMappingAddr-(1<<30) && a+n*4096 <= tempMappingAddr
	}
	defer func() {
		if x := recover(); x != nil {
			res, pages = "panic", nil
		}
	}()
	if r.Kind == 0 {
		a, err := EarlyReserveRegion(uintptr(r.Size))
		if err != nil {
			return "err", nil
		}
		if !usable(a) {
			return "ok-unusable", nil
		}
		for i := uintptr(0); i < n; i++ {
			if err := Map(mm.PageFromAddress(a+i*4096), mm.Frame(r.Frame)+mm.Frame(i*3), fl); err != nil {
				return "maperr", pages
			}
			pages = append(pages, a+i*4096)
		}
		return "ok", pages
	}
	p, err := MapRegion(mm.Frame(r.Frame), uintptr(r.Size), fl)
	if err != nil {
		return "err", nil
	}
	if !usable(p.Address()) {
		return "ok-unusable", nil
	}
	for i := uintptr(0); i < n; i++ {
		pages = append(pages, p.Address()+i*4096)
	}
	return "ok", pages
}

func c05Run(m *c05Machine, enc *json.Encoder, c c05Case) {
	m.reset()
	boot := m.newRoot()
	m.active = boot.Address()
	earlyReserveLastUsed = tempMappingAddr
	protectReservedZeroedPage = false
	ReservedZeroedFrame = 0
	kernelPDT = PageDirectoryTable{}

	// boot address space: an identity-mapped low page (rt0 maps the first 8M) and the early reservations
	if err := Map(mm.Page(0x42), mm.Frame(0x42), FlagPresent|FlagRW); err != nil {
		panic("harness: boot map failed")
	}
	var reserved []uintptr // pages reserved and mapped by the boot history (the harness's own record of what it did)
	hist := []c05Ev{}
	for _, r := range c.Hist {
		res, pages := c05Request(r)
		reserved = append(reserved, pages...)
		hist = append(hist, c05Ev{"k": r.Kind, "sz": c05W64(r.Size), "f": c05W64(r.Frame), "fl": int(r.Flags), "res": res})
	}
	m.setSections(c.Secs)

	// cfg event: the inputs, with the reservations as the boot address space translates them
	secs := []c05Ev{}
	for _, s := range c.Secs {
		secs = append(secs, c05Ev{"a": c05W64(s.Addr), "sz": c05W64(s.Size), "fl": int(s.Flags & 0xffff), "flr": c05W64(s.Flags)})
	}
	rsv := []c05Ev{}
	corrupt := false // the boot history left page tables that point outside physical memory
	for _, a := range reserved {
		func() {
			defer func() {
				if recover() != nil {
					corrupt = true
				}
			}()
			if pa, _, _, _, ok := m.xlate(m.active, a); ok {
				rsv = append(rsv, c05Ev{"p": c05W64(uint64(a >> 12)), "f": c05W64(uint64(pa >> 12))})
			}
		}()
	}
	enc.Encode(c05Ev{"k": "cfg", "off": c05W64(c.Off), "secs": secs, "rsv": rsv, "hist": hist,
		"tmp": c05W64(uint64(tempMappingAddr >> 12)), "failat": c.FailAt, "leg": os.Getenv("VERIF_LEG")})

	m.allocs, m.nfail, m.failAt = 0, 0, c.FailAt
	res := func() (s string) {
		defer func() {
			if r := recover(); r != nil {
				s = "panic"
			}
		}()
		if corrupt {
			return "machine-check"
		}
		if err := Init(uintptr(c.Off)); err != nil {
			return "err:" + err.Message
		}
		return "ok"
	}()
	m.failAt = 0

	walked, bad := m.enumerate(m.active)
	walk := make([]c05Ev, 0, len(walked))
	for _, w := range walked {
		walk = append(walk, c05Ev{"p": c05W64(w.page), "f": c05W64(w.frame), "fl": [3]int{c05b(w.rw), c05b(w.us), c05b(w.nx)}, "lus": c05b(w.leafUS)})
	}
	enc.Encode(c05Ev{"k": "done", "res": res, "walk": walk, "bad": bad, "nfail": m.nfail})
	enc.Encode(c05Ev{"k": "reset"})
}

func c05b(b bool) int {
	if b {
		return 1
	}
	return 0
}

func c05Open(t *testing.T) (*os.File, *json.Encoder) {
	p := os.Getenv("TRACE_OUT")
	if p == "" {
		t.Skip("TRACE_OUT not set")
	}
	f, err := os.Create(p)
	if err != nil {
		t.Fatal(err)
	}
	return f, json.NewEncoder(f)
}

// ---------------------------------------------------------------- leg G: cases emitted by TLC

// Model units -> bytes.  A model page has 4 units; unit offsets 0,1,2,3 inside a page become byte
// offsets 0,1,2048,4095, so the map is monotone, keeps page numbers and page alignment, and turns the
// model sizes {1 unit, page-1, page, page+1, 2 pages} into {1, 4095, 4096, 4097, 8192} bytes.
func c05Bytes(u uint64) uint64 {
	return (u/4)*4096 + [4]uint64{0, 1, 2048, 4095}[u%4]
}

type c05ModelCase struct {
	Off  uint64 `json:"off"`
	Secs []struct {
		A, Sz, Fl uint64
	} `json:"secs"`
	Hist []int64 `json:"hist"` // c >= 0: one-page request mapped with permission code c; -1..-5: oversized request
}

// c05Oversized: request sizes that cannot be satisfied when `good` pages have been reserved so far
func c05Oversized(kind int64, good int) uint64 {
	cur := uint64(tempMappingAddr) - uint64(good)*4096
	switch kind {
	case -1:
		return cur + 1
	case -2:
		return cur + 4096
	case -3:
		return ^uint64(0) - 8191
	case -4:
		return ^uint64(0) - 4095
	}
	return ^uint64(0)
}

const c05RealOffset = uint64(0xffff800000000000)

func c05FromModel(mc c05ModelCase) c05Case {
	var c c05Case
	if mc.Off != 0 {
		c.Off = c05RealOffset
	}
	for _, s := range mc.Secs {
		var a, e uint64
		if s.A >= mc.Off && s.A < mc.Off+8 {
			// sections starting on the first two pages of the range stay there ("exactly at the offset")
			a = c.Off + c05Bytes(s.A-mc.Off)
			e = c.Off + c05Bytes(s.A+s.Sz-mc.Off)
		} else if s.A >= mc.Off {
			// kernel window: model page offset+2.. becomes last-level index 510, 511, 0, 1, ... (table boundary kept)
			a = c.Off + 508*4096 + c05Bytes(s.A-mc.Off)
			e = c.Off + 508*4096 + c05Bytes(s.A+s.Sz-mc.Off)
		} else {
			a = 0x100000 + c05Bytes(s.A)
			e = 0x100000 + c05Bytes(s.A+s.Sz)
		}
		c.Secs = append(c.Secs, c05Sec{Addr: a, Size: e - a, Flags: s.Fl})
	}
	good := 0
	for i, h := range mc.Hist {
		r := c05Req{Kind: i % 2, Frame: 0x3300 + uint64(i)*7}
		if h >= 0 {
			r.Size, r.Flags = [3]uint64{4096, 1, 4095}[i%3], uint64(h)
			good++
		} else {
			r.Size, r.Flags = c05Oversized(h, good), 1
		}
		c.Hist = append(c.Hist, r)
	}
	return c
}

func TestVerifC05Cases(t *testing.T) {
	out, enc := c05Open(t)
	defer out.Close()
	in, err := os.Open(os.Getenv("CASES"))
	if err != nil {
		t.Fatal(err)
	}
	defer in.Close()
	m := c05NewMachine(t, 256)
	defer m.install()()
	raw := os.Getenv("VERIF_RAW") == "1" // replay files hold real-scale cases
	sc := bufio.NewScanner(in)
	sc.Buffer(make([]byte, 1<<20), 1<<26)
	n := 0
	for sc.Scan() {
		line := sc.Bytes()
		if len(line) == 0 {
			continue
		}
		if line[0] == '"' { // TLC's CSVWrite of ToJson(..) yields a JSON string literal containing JSON
			var s string
			if err := json.Unmarshal(line, &s); err != nil {
				t.Fatal(err)
			}
			line = []byte(s)
		}
		var c c05Case
		if raw {
			if err := json.Unmarshal(line, &c); err != nil {
				t.Fatal(err)
			}
		} else {
			var mc c05ModelCase
			if err := json.Unmarshal(line, &mc); err != nil {
				t.Fatal(err)
			}
			c = c05FromModel(mc)
		}
		c05Run(m, enc, c)
		n++
	}
	t.Logf("replayed %d cases", n)
}

// ---------------------------------------------------------------- leg T: random section tables at real scale

func c05RandomCase(rng *rand.Rand) c05Case {
	var c c05Case
	switch rng.Intn(10) {
	case 0:
		c.Off = 0
	case 1:
		c.Off = 0x40000000
	case 2:
		c.Off = 0xffff900000000000
	case 3:
		c.Off = 0xffffc00000000000
	case 4:
		c.Off = 0x0000008000000000
	default:
		c.Off = c05RealOffset
	}
	// any count: none, one, a handful, now and then many small ones
	nsec := rng.Intn(15)
	many := rng.Intn(15) == 0
	if many {
		nsec = 30 + rng.Intn(35)
	}
	sizes := []uint64{1, 2, 4095, 4096, 4097, 8191, 8192, 8193, 12288}
	randSize := func() uint64 {
		if many {
			return sizes[rng.Intn(5)]
		}
		if rng.Intn(40) == 0 {
			return uint64(500+rng.Intn(600))*4096 + uint64(rng.Intn(4096)) // spans more than one last-level table
		}
		switch rng.Intn(10) {
		case 0:
			return 1 + uint64(rng.Intn(64*4096))
		case 1, 2:
			return 1 + uint64(rng.Intn(5*4096))
		default:
			return sizes[rng.Intn(len(sizes))]
		}
	}
	randFlags := func() uint64 {
		fl := uint64(rng.Intn(8))
		if rng.Intn(3) != 0 {
			fl |= 2 // most sections are allocated
		}
		if rng.Intn(3) == 0 {
			fl |= []uint64{0x10, 0x20, 0x30, 0x40, 0x80, 0x400, 0x80000000, 0x0ff00000, 1 << 32, 7 << 32, 1 << 63}[rng.Intn(11)]
		}
		return fl
	}
	// in-range sections: a cursor walks upwards from the kernel load address; every section starts on a
	// page the previous one does not touch (the quantifier: no two sections share a page)
	base := c.Off + 0x100000
	if rng.Intn(4) == 0 {
		base = c.Off // a section starting exactly at the offset
	}
	if rng.Intn(5) == 0 {
		base = c.Off + uint64(rng.Intn(1<<18))<<12 + 510*4096 // straddle page-table boundaries at several levels
	}
	if rng.Intn(8) == 0 {
		base += 1 << 33 // loaded above 4 GiB: frame numbers beyond 32 bits of physical address
	}
	cur := base
	var in []c05Sec
	linker := rng.Intn(2) == 0
	for i := 0; i < nsec; i++ {
		a := cur
		if !linker {
			switch rng.Intn(4) {
			case 0:
				a += uint64(rng.Intn(4096)) // unaligned start
			case 1:
				a += 4095 // one-byte tail of a page
			case 2:
				a += uint64(rng.Intn(3)) * 4096 // gap
			}
		}
		sz := randSize()
		if !linker && rng.Intn(6) == 0 {
			sz = 4096 - a%4096 // ends exactly at the end of its page
		}
		if rng.Intn(8) == 0 {
			// an empty section (ELF null section, empty .bss): no bytes, no pages - at a fresh page, mid-page, or address 0
			in = append(in, c05Sec{Addr: []uint64{cur, cur + uint64(rng.Intn(4096)), 0}[rng.Intn(3)], Size: 0, Flags: randFlags()})
		}
		in = append(in, c05Sec{Addr: a, Size: sz, Flags: randFlags()})
		cur = (a+sz-1)/4096*4096 + 4096
	}
	// sections outside the kernel range (only possible below a non-zero offset)
	var below []c05Sec
	if c.Off != 0 {
		nb := rng.Intn(4)
		lo := uint64(0x1000) * uint64(1+rng.Intn(64))
		for i := 0; i < nb; i++ {
			sz := randSize()
			below = append(below, c05Sec{Addr: lo + uint64(rng.Intn(4096)), Size: sz, Flags: randFlags()})
			lo = (lo+4096+sz)/4096*4096 + 4096
		}
		if rng.Intn(3) == 0 {
			// ends on the last byte below the offset
			sz := randSize()
			below = append(below, c05Sec{Addr: c.Off - sz, Size: sz, Flags: randFlags()})
		}
		if rng.Intn(4) == 0 && c.Off == c05RealOffset {
			// the kernel's physical load address: same numbers as the frames the kernel occupies
			below = append(below, c05Sec{Addr: 0x100000 + uint64(rng.Intn(4096)), Size: randSize(), Flags: randFlags()})
		}
	}
	if c.Off != 0 && rng.Intn(3) == 0 {
		// what a real ELF table also holds: non-loaded sections (.comment, .symtab, .strtab ...) that all sit at
		// address 0 and overlap one another; they are outside the kernel's range
		for i := rng.Intn(5); i > 0; i-- {
			below = append(below, c05Sec{Addr: 0, Size: 1 + uint64(rng.Intn(3*4096)), Flags: uint64(rng.Intn(8)) &^ 2})
		}
	}
	c.Secs = append(in, below...)
	if rng.Intn(2) == 0 {
		rng.Shuffle(len(c.Secs), func(i, j int) { c.Secs[i], c.Secs[j] = c.Secs[j], c.Secs[i] })
	}
	// boot history: 0-6 successful requests of 1-3 pages; refused (oversized) requests before, between and after them
	nr, good := rng.Intn(7), 0
	refused := func() {
		for rng.Intn(4) == 0 {
			cur := uint64(tempMappingAddr) - uint64(good)*4096
			var sz uint64
			switch k := rng.Intn(8); k {
			case 0, 1, 2, 3, 4:
				sz = c05Oversized(-int64(k)-1, good)
			case 5:
				sz = cur + 1 + uint64(rng.Int63n(int64(^cur-8192))) // anything between the space left and 2^64
			case 6:
				sz = cur + uint64(1+rng.Intn(16))*4096
			default:
				sz = ^uint64(0) - uint64(rng.Intn(3*4096))
			}
			c.Hist = append(c.Hist, c05Req{Kind: rng.Intn(2), Size: sz, Frame: uint64(0x1000 + rng.Intn(1<<24)), Flags: uint64(rng.Intn(8))})
		}
	}
	for i := 0; i < nr; i++ {
		refused()
		pages := 1 + rng.Intn(3)
		if rng.Intn(25) == 0 {
			pages = 500 + rng.Intn(60) // a large early region (the frame bitmap of a big machine): crosses a page-table boundary
		}
		sz := uint64(pages)*4096 - uint64([4]int{0, 1, 2048, 4095}[rng.Intn(4)])
		c.Hist = append(c.Hist, c05Req{Kind: rng.Intn(2), Size: sz, Frame: uint64(0x1000 + rng.Intn(1<<24)), Flags: uint64(rng.Intn(8))})
		good += pages
	}
	refused()
	if rng.Intn(10) == 0 {
		c.FailAt = 1 + rng.Intn(12)
	}
	return c
}

func TestVerifC05Random(t *testing.T) {
	out, enc := c05Open(t)
	defer out.Close()
	seed, _ := strconv.ParseInt(os.Getenv("VERIF_SEED"), 10, 64)
	n, _ := strconv.Atoi(os.Getenv("NTRACES"))
	if n == 0 {
		n = 50
	}
	rng := rand.New(rand.NewSource(seed*7919 + 5))
	m := c05NewMachine(t, 512)
	defer m.install()()
	inputs, _ := os.Create(os.Getenv("INPUTS_OUT"))
	for i := 0; i < n; i++ {
		c := c05RandomCase(rng)
		if inputs != nil {
			b, _ := json.Marshal(c)
			inputs.Write(append(b, '\n'))
		}
		c05Run(m, enc, c)
	}
	if inputs != nil {
		inputs.Close()
	}
}
