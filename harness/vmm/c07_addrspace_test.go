//go:build verif
// +build verif

package vmm

// Conformance harness for C07 (kernel virtual-region reservations).
// No oracle here: it feeds sizes to the REAL EarlyReserveRegion / MapRegion /
// IdentityMapRegion, records the returned address / error, the package's
// reservation cursor and the (page, frame) pairs handed to the map seam, and
// writes one JSON event per call.  The events are judged by the TLA+ monitor
// specs/vmm/AddrSpaceTrace.tla (operators of AddrSpaceProps.tla).
//
//   TestVerifC07Cases  : replay the behaviours TLC emitted from AddrSpace.tla (leg G, 64-bit scope, verbatim)
//   TestVerifC07Random : seeded random histories (leg T)

import (
	"bufio"
	"encoding/json"
	"math/rand"
	"os"
	"strconv"
	"testing"

	"github.com/ProjectSerenity/firefly/kernel"
	"github.com/ProjectSerenity/firefly/kernel/mm"
)

type c07Ev map[string]interface{}

func c07W(v uint64) [4]int {
	return [4]int{int(v >> 48 & 0xffff), int(v >> 32 & 0xffff), int(v >> 16 & 0xffff), int(v & 0xffff)}
}

func c07U(l []uint64) uint64 {
	var v uint64
	for _, x := range l {
		v = v<<16 | (x & 0xffff)
	}
	return v
}

// The recording map seam has a failure budget K chosen by the case: it accepts K calls and fails on call K+1
// with c07ErrSeam.  Every call (also the failing one) is recorded.  A mapper that keeps calling after the seam
// failed is stopped by a panic a little later (recovered and logged as res = "panic").
type c07Machine struct {
	enc      *json.Encoder
	pairs    [][2][4]int
	budget   int
	seamfail bool
	n        int
}

var c07ErrSeam = &kernel.Error{Module: "verif", Message: "map seam budget used up"}

func c07New(out *os.File) *c07Machine {
	m := &c07Machine{enc: json.NewEncoder(out)}
	mapFn = func(page mm.Page, frame mm.Frame, _ PageTableEntryFlag) *kernel.Error {
		if len(m.pairs) > m.budget+8 {
			panic("verif: mapper ignores the map seam's error")
		}
		m.pairs = append(m.pairs, [2][4]int{c07W(uint64(page)), c07W(uint64(frame))})
		if len(m.pairs) > m.budget {
			m.seamfail = true
			return c07ErrSeam
		}
		return nil
	}
	earlyReserveRegionFn = EarlyReserveRegion
	return m
}

func (m *c07Machine) emit(e c07Ev) { m.enc.Encode(e); m.n++ }

func (m *c07Machine) begin() {
	earlyReserveLastUsed = tempMappingAddr
	m.emit(c07Ev{"k": "asinit", "top": c07W(uint64(tempMappingAddr)), "cur": c07W(uint64(earlyReserveLastUsed))})
}

func (m *c07Machine) end() { m.emit(c07Ev{"k": "reset"}) }

// do runs one real call and logs it.  op: "reserve" | "mapregion" | "identity".
func (m *c07Machine) do(op string, size, frame uint64, budget int) {
	m.pairs = [][2][4]int{}
	m.seamfail = false
	m.budget = budget
	e := c07Ev{"k": op, "size": c07W(size)}
	var (
		ret uint64
		res string
	)
	func() {
		defer func() {
			if r := recover(); r != nil {
				res, ret = "panic", 0
			}
		}()
		var err *kernel.Error
		switch op {
		case "reserve":
			var a uintptr
			a, err = EarlyReserveRegion(uintptr(size))
			ret = uint64(a)
		case "mapregion":
			var p mm.Page
			p, err = MapRegion(mm.Frame(frame), uintptr(size), FlagPresent|FlagRW)
			ret = uint64(p)
		case "identity":
			var p mm.Page
			p, err = IdentityMapRegion(mm.Frame(frame), uintptr(size), FlagPresent|FlagRW)
			ret = uint64(p)
		}
		if err == c07ErrSeam {
			res, ret = "seamerr", 0
		} else if err != nil {
			res, ret = "err", 0
		} else {
			res = "ok"
		}
	}()
	e["res"] = res
	e["cur"] = c07W(uint64(earlyReserveLastUsed))
	if op == "reserve" {
		e["addr"] = c07W(ret)
	} else {
		e["f"] = c07W(frame)
		e["page"] = c07W(ret)
		e["budget"] = budget
		e["pairs"] = m.pairs
		e["seamfail"] = m.seamfail
	}
	m.emit(e)
}

func c07Restore() func() {
	o1, o2, o3 := mapFn, earlyReserveRegionFn, earlyReserveLastUsed
	return func() { mapFn, earlyReserveRegionFn, earlyReserveLastUsed = o1, o2, o3 }
}

func c07Out(t *testing.T) *os.File {
	f, err := os.Create(os.Getenv("TRACE_OUT"))
	if err != nil {
		t.Fatal(err)
	}
	return f
}

type c07Case struct {
	Script []struct {
		Op   string   `json:"op"`
		Size []uint64 `json:"size"`
		F    []uint64 `json:"f"`
		K    int      `json:"budget"`
	} `json:"script"`
}

func TestVerifC07Cases(t *testing.T) {
	defer c07Restore()()
	in, err := os.Open(os.Getenv("CASES"))
	if err != nil {
		t.Fatal(err)
	}
	defer in.Close()
	out := c07Out(t)
	defer out.Close()
	m := c07New(out)
	sc := bufio.NewScanner(in)
	sc.Buffer(make([]byte, 1<<20), 1<<26)
	n := 0
	for sc.Scan() {
		if len(sc.Bytes()) == 0 {
			continue
		}
		var c c07Case
		if err := json.Unmarshal(sc.Bytes(), &c); err != nil {
			t.Fatalf("bad case line %d: %v", n, err)
		}
		m.begin()
		for _, o := range c.Script {
			m.do(o.Op, c07U(o.Size), c07U(o.F), o.K)
		}
		m.end()
		n++
	}
	t.Logf("replayed %d cases, %d events", n, m.n)
}

// c07Size draws a request size; c is the current cursor (input selection only).
func c07Size(rng *rand.Rand, c uint64) uint64 {
	small := []uint64{0, 1, 2, 4095, 4096, 4097, 8191, 8192, 8193}
	switch rng.Intn(10) {
	case 0:
		return small[rng.Intn(len(small))]
	case 1:
		return uint64(rng.Intn(48))*4096 + uint64(rng.Intn(3)) - 1 // n*4096 +- 1 (wraps to 2^64-1 for n = 0)
	case 2:
		return uint64(rng.Intn(48 * 4096))
	case 3:
		return c - uint64(rng.Intn(6))*4096 + uint64(rng.Intn(3)) - 1 // just below / at / above the cursor
	case 4:
		return c + uint64(rng.Intn(8193))
	case 5:
		return -uint64(1 + rng.Intn(8200)) // near 2^64
	case 6:
		return 1<<63 + uint64(rng.Intn(3)) - 1
	case 7:
		// satisfiable huge sizes: m * 2^32 pages + a few pages (+- a byte): page count with low 32 bits zero / small
		return uint64(1+rng.Intn(6))<<44 + uint64(rng.Intn(7))*4096 + uint64(rng.Intn(3)) - 1
	case 8:
		// huge page counts of any shape, up to the remaining address space
		if c > 0 {
			return rng.Uint64() % c
		}
		return 0
	default:
		return rng.Uint64()
	}
}

func TestVerifC07Random(t *testing.T) {
	defer c07Restore()()
	seed, _ := strconv.ParseInt(os.Getenv("VERIF_SEED"), 10, 64)
	ntr, _ := strconv.Atoi(os.Getenv("NTRACES"))
	if ntr == 0 {
		ntr = 100
	}
	rng := rand.New(rand.NewSource(seed*7919 + 7))
	out := c07Out(t)
	defer out.Close()
	m := c07New(out)
	budgets := []int{0, 1, 2, 5, 17, 48}
	for tr := 0; tr < ntr; tr++ {
		m.begin()
		// some traces start by eating most of the address space so that the cursor gets small
		if rng.Intn(3) == 0 {
			m.do("reserve", uint64(earlyReserveLastUsed)-uint64(rng.Intn(64))*4096-uint64(rng.Intn(2)), 0, 0)
		}
		nops := 1 + rng.Intn(30)
		for i := 0; i < nops; i++ {
			size := c07Size(rng, uint64(earlyReserveLastUsed))
			frame := uint64(rng.Int63n(1 << 40))
			if rng.Intn(8) == 0 { // boundary frame numbers
				frame = []uint64{0, 1, 1<<40 - 1, 1<<40 - 3, 1 << 39}[rng.Intn(5)]
			}
			k := budgets[rng.Intn(len(budgets))]
			switch rng.Intn(4) {
			case 0, 1:
				m.do("reserve", size, 0, 0)
			case 2:
				m.do("mapregion", size, frame, k)
			case 3:
				m.do("identity", size, frame, k)
			}
		}
		m.end()
	}
	t.Logf("recorded %d traces, %d events", ntr, m.n)
}
