//go:build verif
// +build verif

package vmm

// Conformance harness for C04 (page-table operations).
//
// The REAL Map / Unmap / Translate / MapRegion / IdentityMapRegion /
// MapTemporary / PageDirectoryTable.{Init,Map,Unmap,Activate} run against a
// software MMU over host memory (DESIGN 3.2): a pool of anonymous pages is the
// machine's RAM, frame number = host address >> 12, ptePtrFn resolves the
// *virtual* entry addresses the kernel computes (recursive window) by walking
// the four levels from the active root exactly as the hardware would.  Fresh
// frames hold 0xA5 bytes so that an uncleared table shows up.
//
// There is no oracle here: every call is logged as one JSON event carrying the
// arguments, the result, the flush list, the entries of newly allocated
// tables, a digest of the active space's table memory and the PROJECTION of
// all address spaces (hardware walk of every page of a fixed universe).  The
// events are judged by the TLA+ monitor specs/vmm/PageTablesTrace.tla
// (operators of PageTablesProps.tla).
//
//   TestVerifC04Cases  : replay behaviours TLC emitted from PageTables.tla (leg G)
//   TestVerifC04Random : seeded random histories at real scale (leg T)

import (
	"bufio"
	"encoding/json"
	"fmt"
	"math/bits"
	"math/rand"
	"os"
	"sort"
	"strconv"
	"syscall"
	"testing"
	"unsafe"

	"github.com/ProjectSerenity/firefly/kernel"
	"github.com/ProjectSerenity/firefly/kernel/mm"
)

const (
	c04PoolFrames = 1024
	c04AddrMask   = uintptr(0x000ffffffffff000)
)

type c04Ev map[string]interface{}

func c04W(v uint64) [4]int {
	return [4]int{int(v >> 48 & 0xffff), int(v >> 32 & 0xffff), int(v >> 16 & 0xffff), int(v & 0xffff)}
}

type c04Page [4]int

func (p c04Page) addr() uintptr {
	va := uintptr(p[0])<<39 | uintptr(p[1])<<30 | uintptr(p[2])<<21 | uintptr(p[3])<<12
	if p[0] >= 256 {
		va |= 0xffff000000000000
	}
	return va
}

func (p c04Page) page() mm.Page { return mm.PageFromAddress(p.addr()) }

func c04PageOfAddr(a uintptr) c04Page {
	return c04Page{int(a >> 39 & 511), int(a >> 30 & 511), int(a >> 21 & 511), int(a >> 12 & 511)}
}

// ---- the machine: host "physical memory", allocator, software MMU ----
type c04Machine struct {
	mem      []byte
	base     uintptr
	next     int // frames handed out so far (sequential)
	failAt   int // the failAt-th allocator call from now fails (0 = never)
	afail    bool
	newFr    []uintptr // frames handed out by the allocator during the current call
	active   uintptr   // physical address of the active root
	flushed  []uintptr
	lastVA   uintptr // virtual entry address last resolved by ptePtrFn
	lastPtr  uintptr // and the host pointer it resolved to
	roots    []uintptr            // physical address of each address space's root (id = index+1)
	pdts     []PageDirectoryTable // the real objects
	universe []c04Page
	enc      *json.Encoder
	n        int
}

var c04ErrOOM = &kernel.Error{Module: "verif", Message: "injected frame allocation failure"}

func c04NewMachine(t *testing.T, out *os.File) *c04Machine {
	mem, err := syscall.Mmap(-1, 0, c04PoolFrames*4096, syscall.PROT_READ|syscall.PROT_WRITE, syscall.MAP_ANON|syscall.MAP_PRIVATE)
	if err != nil {
		t.Fatal(err)
	}
	for i := range mem {
		mem[i] = 0xA5
	}
	m := &c04Machine{mem: mem, base: uintptr(unsafe.Pointer(&mem[0])), enc: json.NewEncoder(out)}
	m.next = 0
	return m
}

func (m *c04Machine) inPool(pa uintptr) bool {
	return pa >= m.base && pa < m.base+uintptr(m.next)*4096
}

// take hands out the next pool frame (still holding 0xA5 bytes).
func (m *c04Machine) take() mm.Frame {
	if m.next >= c04PoolFrames {
		panic("verif: frame pool exhausted")
	}
	f := mm.Frame((m.base >> 12) + uintptr(m.next))
	m.next++
	return f
}

func (m *c04Machine) alloc() (mm.Frame, *kernel.Error) {
	if m.failAt > 0 {
		m.failAt--
		if m.failAt == 0 {
			m.afail = true
			return mm.InvalidFrame, c04ErrOOM
		}
	}
	f := m.take()
	m.newFr = append(m.newFr, f.Address())
	return f, nil
}

// walk is the hardware: 4 levels from root, present bit, bits 12-51.
// kind: 0 not present, 1 mapped (entry returned), -1 the walk left the table memory.
func (m *c04Machine) walk(root, va uintptr) (entry uintptr, kind int) {
	table := root
	for lvl := uint(0); lvl < 4; lvl++ {
		if !m.inPool(table) {
			return 0, -1
		}
		idx := (va >> (39 - 9*lvl)) & 511
		e := *(*uintptr)(unsafe.Pointer(table + idx*8))
		if e&1 == 0 {
			return 0, 0
		}
		if lvl == 3 {
			return e, 1
		}
		table = e & c04AddrMask
	}
	return 0, 0
}

// resolve a kernel virtual address to the host pointer the MMU would reach
func (m *c04Machine) resolve(va uintptr) uintptr {
	e, kind := m.walk(m.active, va)
	if kind != 1 || !m.inPool(e&c04AddrMask) {
		panic(fmt.Sprintf("verif: page fault at %#x", va))
	}
	return (e & c04AddrMask) + (va & 4095)
}

func (m *c04Machine) install() func() {
	o1, o2, o3, o4, o5, o6, o7, o8 := ptePtrFn, nextAddrFn, flushTLBEntryFn, activePDTFn, switchPDTFn, mapFn, unmapFn, mapTemporaryFn
	o9, o10, o11 := earlyReserveRegionFn, earlyReserveLastUsed, protectReservedZeroedPage
	ptePtrFn = func(entryAddr uintptr) unsafe.Pointer {
		m.lastVA = entryAddr
		m.lastPtr = m.resolve(entryAddr)
		return unsafe.Pointer(m.lastPtr)
	}
	// Map computes nextTableAddr = uintptr(pte) << bits from the pointer ptePtrFn returned.  On real hardware
	// that pointer IS the virtual entry address; here it is a host pointer, so the same shift is applied to
	// the virtual entry address and the result is resolved through the MMU.
	nextAddrFn = func(given uintptr) uintptr {
		for k := uint(0); k < 64; k++ {
			if m.lastPtr<<k == given {
				return m.resolve(m.lastVA << k)
			}
		}
		panic("verif: page fault (next table address not derived from the entry address)")
	}
	flushTLBEntryFn = func(a uintptr) { m.flushed = append(m.flushed, a) }
	activePDTFn = func() uintptr { return m.active }
	switchPDTFn = func(a uintptr) { m.active = a }
	mapFn, unmapFn, mapTemporaryFn, earlyReserveRegionFn = Map, Unmap, MapTemporary, EarlyReserveRegion
	protectReservedZeroedPage = false
	mm.SetFrameAllocator(m.alloc)
	return func() {
		ptePtrFn, nextAddrFn, flushTLBEntryFn, activePDTFn, switchPDTFn, mapFn, unmapFn, mapTemporaryFn = o1, o2, o3, o4, o5, o6, o7, o8
		earlyReserveRegionFn, earlyReserveLastUsed, protectReservedZeroedPage = o9, o10, o11
		mm.SetFrameAllocator(nil)
	}
}

func (m *c04Machine) emit(e c04Ev) { m.enc.Encode(e); m.n++ }

// ---- projection (the only trusted logic): hardware walk of every universe page from every root ----
func c04Bits(v uintptr) []int {
	out := []int{}
	for v != 0 {
		b := bits.TrailingZeros64(uint64(v))
		out = append(out, b)
		v &^= 1 << uint(b)
	}
	return out
}

func (m *c04Machine) proj() [][]interface{} {
	out := make([][]interface{}, len(m.roots))
	for r, root := range m.roots {
		row := make([]interface{}, len(m.universe))
		for i, p := range m.universe {
			e, kind := m.walk(root, p.addr())
			switch kind {
			case 1:
				row[i] = []interface{}{c04W(uint64((e & c04AddrMask) >> 12)), c04Bits(e &^ c04AddrMask)}
			case -1:
				row[i] = []int{-1}
			default:
				row[i] = []int{}
			}
		}
		out[r] = row
	}
	return out
}

// table frames reachable from the active root (the recursive slot is not followed)
func (m *c04Machine) reach(table uintptr, lvl int, acc *[]uintptr) {
	if !m.inPool(table) {
		return
	}
	*acc = append(*acc, table)
	if lvl == 3 {
		return
	}
	for i := uintptr(0); i < 512; i++ {
		if lvl == 0 && i == 511 {
			continue
		}
		e := *(*uintptr)(unsafe.Pointer(table + i*8))
		if e&1 != 0 {
			m.reach(e&c04AddrMask, lvl+1, acc)
		}
	}
}

func (m *c04Machine) digest(frames []uintptr) string {
	h := uint64(14695981039346656037)
	for _, f := range frames {
		b := (*[4096]byte)(unsafe.Pointer(f))
		for _, x := range b {
			h = (h ^ uint64(x)) * 1099511628211
		}
	}
	return strconv.FormatUint(h, 16)
}

func (m *c04Machine) newtab() [][]int {
	out := [][]int{}
	for _, f := range m.newFr {
		nz := []int{}
		for i := uintptr(0); i < 512; i++ {
			if *(*uintptr)(unsafe.Pointer(f + i*8)) != 0 {
				nz = append(nz, int(i))
			}
		}
		out = append(out, nz)
	}
	return out
}

func (m *c04Machine) activeID() int {
	for i, r := range m.roots {
		if r == m.active {
			return i + 1
		}
	}
	return 0
}

// ---- case life cycle ----
func (m *c04Machine) begin(u []c04Page) {
	for i := 0; i < m.next*4096; i++ {
		m.mem[i] = 0xA5
	}
	m.next = 0
	m.universe = u
	// the boot loader's address space: an empty root whose last entry maps the root itself
	root := m.take()
	kernel.Memset(root.Address(), 0, 4096)
	*(*uintptr)(unsafe.Pointer(root.Address() + 511*8)) = root.Address() | uintptr(FlagPresent|FlagRW)
	m.active = root.Address()
	m.roots = []uintptr{root.Address()}
	var boot PageDirectoryTable
	boot.pdtFrame = root
	m.pdts = []PageDirectoryTable{boot}
	earlyReserveLastUsed = tempMappingAddr
	m.failAt = 0
	m.emit(c04Ev{"k": "ptinit", "U": u, "temp": c04PageOfAddr(tempMappingAddr), "proj": m.proj()})
}

func (m *c04Machine) end() { m.emit(c04Ev{"k": "reset"}) }

type c04Op struct {
	Op   string  `json:"op"`
	Pdt  int     `json:"pdt"`
	Via  string  `json:"via"`
	Pg   c04Page `json:"pg"`
	F    uint64  `json:"f"`
	Fl   []int   `json:"fl"`
	Fail int     `json:"fail"`
	Size uint64  `json:"size"`
	Off  int     `json:"off"`
	Lvl  int     `json:"lvl"`
	Bits []int   `json:"bits"`
}

func c04Flags(bitsl []int) PageTableEntryFlag {
	var f PageTableEntryFlag
	for _, b := range bitsl {
		f |= 1 << uint(b)
	}
	return f
}

func (m *c04Machine) result(err *kernel.Error) string {
	switch {
	case err == nil:
		return "ok"
	case err == c04ErrOOM:
		return "enomem"
	default:
		return "err:" + err.Message
	}
}

// do runs one real operation and logs it.
func (m *c04Machine) do(o c04Op) {
	if o.Fl == nil {
		o.Fl = []int{}
	}
	if o.Op == "translate" {
		e := c04Ev{"k": "translate", "pg": o.Pg, "off": o.Off}
		var pa uintptr
		res := func() (s string) {
			defer func() {
				if r := recover(); r != nil {
					s = "panic"
				}
			}()
			var err *kernel.Error
			pa, err = Translate(o.Pg.addr() + uintptr(o.Off))
			return m.result(err)
		}()
		if res != "ok" {
			pa = 0
		}
		e["res"], e["pa"] = res, c04W(uint64(pa))
		m.emit(e)
		return
	}
	if o.Op == "poke" {
		// the environment (CPU setting accessed/dirty, boot loader setting global/NX/cache bits) ORs flag bits into
		// the recursive entry of space o.Pdt (lvl 0) or into the present level-lvl entry on the way to page o.Pg
		hit := false
		if o.Pdt >= 1 && o.Pdt <= len(m.roots) {
			table, ok := m.roots[o.Pdt-1], true
			idx := uintptr(511)
			if o.Lvl > 0 {
				va := o.Pg.addr()
				for l := 1; l <= o.Lvl && ok; l++ {
					idx = (va >> (39 - 9*uint(l-1))) & 511
					if l < o.Lvl {
						e := *(*uintptr)(unsafe.Pointer(table + idx*8))
						table = e & c04AddrMask
						ok = e&1 != 0 && m.inPool(table)
					}
				}
			}
			if ok && o.Lvl < 4 {
				pe := (*uintptr)(unsafe.Pointer(table + idx*8))
				if *pe&1 != 0 {
					*pe |= uintptr(c04Flags(o.Bits))
					hit = true
				}
			}
		}
		m.emit(c04Ev{"k": "poke", "pdt": o.Pdt, "pg": o.Pg, "lvl": o.Lvl, "bits": o.Bits, "hit": hit, "proj": m.proj()})
		return
	}
	if o.Op == "switch" {
		func() {
			defer func() { recover() }()
			m.pdts[o.Pdt-1].Activate()
		}()
		m.emit(c04Ev{"k": "switch", "pdt": m.activeID(), "proj": m.proj()})
		return
	}

	var reach []uintptr
	m.reach(m.active, 0, &reach)
	ah0 := m.digest(reach)
	m.flushed, m.newFr, m.afail, m.failAt = nil, nil, false, o.Fail
	e := c04Ev{"k": o.Op, "via": "fn", "pdt": m.activeID(), "fail": o.Fail}
	var retPage mm.Page
	var newRoot mm.Frame
	res := func() (s string) {
		defer func() {
			if r := recover(); r != nil {
				s = "panic"
			}
		}()
		var err *kernel.Error
		switch o.Op {
		case "map":
			e["pg"], e["f"], e["fl"] = o.Pg, c04W(o.F), o.Fl
			if o.Via == "pdt" {
				e["via"], e["pdt"] = "pdt", o.Pdt
				err = m.pdts[o.Pdt-1].Map(o.Pg.page(), mm.Frame(o.F), c04Flags(o.Fl))
			} else {
				err = Map(o.Pg.page(), mm.Frame(o.F), c04Flags(o.Fl))
			}
		case "unmap":
			e["pg"] = o.Pg
			if o.Via == "pdt" {
				e["via"], e["pdt"] = "pdt", o.Pdt
				err = m.pdts[o.Pdt-1].Unmap(o.Pg.page())
			} else {
				err = Unmap(o.Pg.page())
			}
		case "maptemp":
			e["f"] = c04W(o.F)
			retPage, err = MapTemporary(mm.Frame(o.F))
		case "mapregion":
			e["f"], e["fl"], e["size"] = c04W(o.F), o.Fl, c04W(o.Size)
			retPage, err = MapRegion(mm.Frame(o.F), uintptr(o.Size), c04Flags(o.Fl))
		case "identity":
			e["f"], e["fl"], e["size"] = c04W(o.F), o.Fl, c04W(o.Size)
			retPage, err = IdentityMapRegion(mm.Frame(o.F), uintptr(o.Size), c04Flags(o.Fl))
		case "pdtinit":
			// a fresh (0xA5-filled) frame becomes a new address space through the real Init.  Init writes through
			// the temporary mapping: the wrapper lets the real MapTemporary run and hands Init the host alias of
			// whatever frame the temporary page translates to NOW (what a store through that page would hit).
			newRoot = m.take()
			e["pdt"] = len(m.roots) + 1
			mapTemporaryFn = func(f mm.Frame) (mm.Page, *kernel.Error) {
				p, err := MapTemporary(f)
				if err != nil {
					return 0, err
				}
				return mm.Page(m.resolve(p.Address()) >> 12), nil
			}
			unmapFn = func(mm.Page) *kernel.Error { return Unmap(mm.PageFromAddress(tempMappingAddr)) }
			defer func() { mapTemporaryFn, unmapFn = MapTemporary, Unmap }()
			var pdt PageDirectoryTable
			err = pdt.Init(newRoot)
			if err == nil {
				m.pdts = append(m.pdts, pdt)
				m.roots = append(m.roots, newRoot.Address())
			}
		}
		return m.result(err)
	}()
	m.failAt = 0
	e["res"], e["afail"] = res, m.afail
	if o.Op == "maptemp" || o.Op == "mapregion" || o.Op == "identity" {
		if res != "ok" {
			retPage = 0
		}
		e["page"] = c04PageOfAddr(retPage.Address())
	}
	fl := []c04Page{}
	for _, a := range m.flushed {
		fl = append(fl, c04PageOfAddr(a))
	}
	e["flush"] = fl
	e["newtab"] = m.newtab()
	e["proj"] = m.proj()
	e["ah0"], e["ah1"] = ah0, m.digest(reach)
	m.emit(e)
}

func c04Out(t *testing.T) *os.File {
	f, err := os.Create(os.Getenv("TRACE_OUT"))
	if err != nil {
		t.Fatal(err)
	}
	return f
}

type c04Case struct {
	U      []c04Page `json:"U"`
	Script []c04Op   `json:"script"`
}

func TestVerifC04Cases(t *testing.T) {
	in, err := os.Open(os.Getenv("CASES"))
	if err != nil {
		t.Fatal(err)
	}
	defer in.Close()
	out := c04Out(t)
	defer out.Close()
	w := bufio.NewWriterSize(out, 1<<20)
	defer w.Flush()
	m := c04NewMachine(t, out)
	m.enc = json.NewEncoder(w)
	defer m.install()()
	sc := bufio.NewScanner(in)
	sc.Buffer(make([]byte, 1<<20), 1<<26)
	n := 0
	for sc.Scan() {
		if len(sc.Bytes()) == 0 {
			continue
		}
		var c c04Case
		if err := json.Unmarshal(sc.Bytes(), &c); err != nil {
			t.Fatalf("bad case line %d: %v", n, err)
		}
		m.begin(c.U)
		for _, o := range c.Script {
			m.do(o)
		}
		m.end()
		n++
	}
	t.Logf("replayed %d cases, %d events", n, m.n)
}

// ---- leg T: random histories at real scale ----
func c04Universe(rng *rand.Rand) (u []c04Page, free []c04Page, idrun []c04Page, window int) {
	top := []int{0, 1, 255, 256, 509, 510}
	mid := []int{0, 1, 255, 256, 510, 511}
	seen := map[c04Page]bool{}
	add := func(p c04Page) bool {
		if seen[p] {
			return false
		}
		seen[p] = true
		u = append(u, p)
		return true
	}
	// the temporary-mapping page and the reservation window below it (12 pages)
	tp := c04PageOfAddr(tempMappingAddr)
	add(tp)
	window = 12
	for i := 1; i <= window; i++ {
		add(c04PageOfAddr(tempMappingAddr - uintptr(i)*4096))
	}
	// a run of consecutive low-half pages crossing a table boundary, for identity mappings
	b1, b2 := mid[rng.Intn(3)], rng.Intn(510)
	for i := 0; i < 7; i++ {
		p := c04Page{0, b1, b2, 508 + i}
		if p[3] > 511 {
			p[2], p[3] = p[2]+1, p[3]-512
		}
		add(p)
		idrun = append(idrun, p)
	}
	// pages sharing three / two / one / no upper-level tables with an earlier page
	for len(free) < 26 {
		var p c04Page
		if len(free) > 0 && rng.Intn(4) != 0 {
			q := free[rng.Intn(len(free))]
			keep := 1 + rng.Intn(3)
			p = q
			for l := keep; l < 4; l++ {
				if l == 3 {
					p[l] = rng.Intn(512)
				} else {
					p[l] = mid[rng.Intn(len(mid))]
				}
			}
		} else {
			p = c04Page{top[rng.Intn(len(top))], mid[rng.Intn(len(mid))], mid[rng.Intn(len(mid))], rng.Intn(512)}
		}
		if p[0] == 510 && p[1] == 511 && p[2] >= 510 {
			continue // keep clear of the reservation window / temp page
		}
		if add(p) {
			free = append(free, p)
		}
	}
	return
}

func TestVerifC04Random(t *testing.T) {
	seed, _ := strconv.ParseInt(os.Getenv("VERIF_SEED"), 10, 64)
	ntr, _ := strconv.Atoi(os.Getenv("NTRACES"))
	if ntr == 0 {
		ntr = 20
	}
	rng := rand.New(rand.NewSource(seed*104729 + 4))
	out := c04Out(t)
	defer out.Close()
	w := bufio.NewWriterSize(out, 1<<20)
	defer w.Flush()
	m := c04NewMachine(t, out)
	m.enc = json.NewEncoder(w)
	defer m.install()()
	flagBits := []int{0, 1, 2, 3, 4, 5, 6, 7, 8, 9, 63} // every declared PageTableEntryFlag bit (7 = FlagHugePage = PAT on a 4K leaf)
	avlBits := []int{10, 11, 52, 58, 62}                    // undeclared but legal flag bits outside the frame field (software-available / ignored bits)
	sizes := []uint64{0, 1, 4095, 4096, 4097, 8191, 8192, 8193, 12287, 12288}
	for tr := 0; tr < ntr; tr++ {
		u, pages, idrun, window := c04Universe(rng)
		m.begin(u)
		used := 0 // window pages consumed by region mappings
		nops := 25 + rng.Intn(40)
		randFlags := func() []int {
			fl := []int{}
			if rng.Intn(6) != 0 { // one request in six asks for a NON-present leaf
				fl = append(fl, 0)
			}
			for _, b := range flagBits[1:] {
				if rng.Intn(3) == 0 {
					fl = append(fl, b)
				}
			}
			if rng.Intn(4) == 0 {
				fl = append(fl, avlBits[rng.Intn(len(avlBits))])
				sort.Ints(fl)
			}
			return fl
		}
		fail := func(max int) int {
			if rng.Intn(4) == 0 {
				return 1 + rng.Intn(max)
			}
			return 0
		}
		for i := 0; i < nops; i++ {
			pg := pages[rng.Intn(len(pages))]
			if rng.Intn(12) == 0 {
				pg = u[rng.Intn(len(u))] // also the temp page, window and identity pages
			}
			frame := uint64(rng.Int63n(1 << 40))
			switch rng.Intn(10) {
			case 0: // boundary frame numbers of the 40-bit frame field
				frame = []uint64{0, 1, 1<<40 - 1, 1<<40 - 4, 1 << 39}[rng.Intn(5)]
			case 1: // a frame that holds one of the page tables themselves (as the temporary mapping of a root does)
				frame = uint64((m.base >> 12) + uintptr(rng.Intn(m.next)))
			}
			pdt := 1 + rng.Intn(len(m.roots))
			via := "pdt"
			if pdt == m.activeID() && rng.Intn(2) == 0 {
				via = "fn"
			}
			if rng.Intn(8) == 0 {
				// environment: extra bits (user, PWT, PCD, accessed, dirty, global, NX) on a recursive entry or an upper-level entry
				pb := []int{}
				for _, b := range []int{2, 3, 4, 5, 6, 8, 63} {
					if rng.Intn(3) == 0 {
						pb = append(pb, b)
					}
				}
				if len(pb) == 0 {
					pb = []int{5}
				}
				if rng.Intn(2) == 0 {
					m.do(c04Op{Op: "poke", Pdt: m.activeID(), Lvl: 0, Bits: pb})
				} else {
					m.do(c04Op{Op: "poke", Pdt: pdt, Pg: pg, Lvl: rng.Intn(4), Bits: pb})
				}
			}
			switch k := rng.Intn(20); {
			case k < 7:
				m.do(c04Op{Op: "map", Pdt: pdt, Via: via, Pg: pg, F: frame, Fl: randFlags(), Fail: fail(3)})
			case k < 11:
				m.do(c04Op{Op: "unmap", Pdt: pdt, Via: via, Pg: pg})
			case k < 14:
				m.do(c04Op{Op: "translate", Pg: u[rng.Intn(len(u))], Off: []int{0, 1, 5, 2048, 4095, rng.Intn(4096)}[rng.Intn(6)]})
			case k == 14:
				m.do(c04Op{Op: "maptemp", F: frame, Fail: fail(3)})
			case k == 15 || k == 16:
				size := sizes[rng.Intn(len(sizes))]
				n := int((size + 4095) / 4096)
				if used+n+1 <= window {
					if frame+uint64(n) > 1<<40 { // the physical range itself must lie below 2^52 bytes
						frame = 1<<40 - uint64(n)
					}
					used += n
					m.do(c04Op{Op: "mapregion", F: frame, Size: size, Fl: randFlags(), Fail: fail(7)})
				}
			case k == 17:
				size := sizes[rng.Intn(len(sizes))]
				n := int((size + 4095) / 4096)
				start := rng.Intn(len(idrun) - n)
				m.do(c04Op{Op: "identity", F: uint64(idrun[start].page()), Size: size, Fl: randFlags(), Fail: fail(7)})
			case k == 18:
				if len(m.roots) < 3 {
					m.do(c04Op{Op: "pdtinit", Fail: fail(3)})
				} else {
					m.do(c04Op{Op: "switch", Pdt: pdt})
				}
			default:
				if len(m.roots) > 1 {
					m.do(c04Op{Op: "switch", Pdt: pdt})
				} else {
					m.do(c04Op{Op: "pdtinit"})
				}
			}
		}
		m.end()
	}
	t.Logf("recorded %d traces, %d events", ntr, m.n)
}
