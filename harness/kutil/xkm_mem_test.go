//go:build verif
// +build verif

package kernel

// extra-kutil (c): conformance harness for kernel.Memset / kernel.Memcopy.
// No oracle: it calls the REAL functions on an arena that lies between two
// PROT_NONE guard pages and logs the whole arena before and after each call as
// segment lists [[start,len,stride],...] (KuSeg.tla: stride 0 = run of equal
// bytes, stride 1 = the serial pattern (start+i) % 251 the arena is filled with).
// Judged by specs/kutil/KutilTrace.tla (KMem!KMMon).
//
//   {"k":"memset","off":o,"val":v,"size":s,"pre":segs,"post":segs,"res":"ok|panic"}
//   {"k":"memcopy","src":a,"dst":b,"size":s,"pre":segs,"post":segs,"res":"ok|panic"}
//
// Offsets are relative to the arena, whose first byte is page aligned; `n` (arena
// bytes, a multiple of the page size) and `base` (first pattern byte) belong to the
// case.  A fault inside the call is recovered (debug.SetPanicOnFault) and logged;
// should the process die all the same, the intent file names the call for the runner.
//
//   TestVerifXkmCases   replays $CASES - legs G, replay
//   TestVerifXkmRandom  seeded random calls at real scale - leg T

import (
	"bufio"
	"encoding/json"
	"math/rand"
	"os"
	"path/filepath"
	"runtime/debug"
	"strconv"
	"syscall"
	"testing"
	"unsafe"
)

type xkmEv map[string]interface{}

const xkmPage = 4096
const xkmMaxPages = 20
const xkmMaxSegs = 48

func xkmSegs(b []byte) [][3]int {
	out := [][3]int{}
	for _, c := range b {
		v := int(c)
		if n := len(out); n > 0 {
			s := &out[n-1]
			switch {
			case s[1] == 1 && s[0] == v:
				s[1], s[2] = 2, 0
				continue
			case s[1] == 1 && s[0] < 251 && v < 251 && (s[0]+1)%251 == v:
				s[1], s[2] = 2, 1
				continue
			case s[1] > 1 && s[2] == 0 && s[0] == v:
				s[1]++
				continue
			case s[1] > 1 && s[2] == 1 && v < 251 && (s[0]+s[1])%251 == v:
				s[1]++
				continue
			}
			if n >= xkmMaxSegs {
				return out // a wrecked arena: the total no longer matches, which the monitor reports
			}
		}
		out = append(out, [3]int{v, 1, 0})
	}
	return out
}

type xkmArena struct {
	all  []byte  // guard | xkmMaxPages | guard
	base uintptr // address of the first usable byte
	rw   int     // pages currently accessible
}

func xkmNewArena(t *testing.T) *xkmArena {
	all, err := syscall.Mmap(-1, 0, (xkmMaxPages+2)*xkmPage, syscall.PROT_NONE, syscall.MAP_ANON|syscall.MAP_PRIVATE)
	if err != nil {
		t.Fatal(err)
	}
	return &xkmArena{all: all, base: uintptr(unsafe.Pointer(&all[xkmPage]))}
}

// window makes exactly the first n bytes (n a multiple of the page size) accessible, guards on both sides
func (a *xkmArena) window(t *testing.T, n int) []byte {
	if n%xkmPage != 0 || n <= 0 || n > xkmMaxPages*xkmPage {
		t.Fatalf("xkm: bad arena size %d", n)
	}
	if err := syscall.Mprotect(a.all, syscall.PROT_NONE); err != nil {
		t.Fatal(err)
	}
	if err := syscall.Mprotect(a.all[xkmPage:xkmPage+n], syscall.PROT_READ|syscall.PROT_WRITE); err != nil {
		t.Fatal(err)
	}
	return a.all[xkmPage : xkmPage+n]
}

type xkmCase struct {
	Op   string `json:"op"`
	N    int    `json:"n"`
	Base int    `json:"base"`
	Off  int    `json:"off"`
	Val  int    `json:"val"`
	Src  int    `json:"src"`
	Dst  int    `json:"dst"`
	Size int    `json:"size"`
}

type xkmRun struct {
	t      *testing.T
	enc    *json.Encoder
	flush  func()
	arena  *xkmArena
	intent string
}

func xkmStart(t *testing.T) *xkmRun {
	f, err := os.Create(os.Getenv("TRACE_OUT"))
	if err != nil {
		t.Fatal(err)
	}
	bw := bufio.NewWriterSize(f, 1<<20)
	debug.SetPanicOnFault(true)
	work := os.Getenv("VERIF_WORK")
	if work == "" {
		work = os.TempDir()
	}
	return &xkmRun{t: t, enc: json.NewEncoder(bw), flush: func() { bw.Flush() }, arena: xkmNewArena(t),
		intent: filepath.Join(work, "xkm_intent.json")}
}

func (r *xkmRun) do(c *xkmCase) {
	if c.N == 0 {
		c.N = xkmPage
	}
	mem := r.arena.window(r.t, c.N)
	for i := range mem {
		mem[i] = byte((c.Base + i) % 251)
	}
	ok := c.Size >= 0
	if c.Op == "memset" {
		ok = ok && c.Off >= 0 && c.Off+c.Size <= c.N
	} else {
		ok = ok && c.Src >= 0 && c.Dst >= 0 && c.Src+c.Size <= c.N && c.Dst+c.Size <= c.N
	}
	if !ok {
		r.t.Fatalf("xkm: case outside its arena: %+v", *c)
	}
	// the runner turns a dead process into a "crash" event for the call named here
	r.flush()
	line, _ := json.Marshal(c)
	os.WriteFile(r.intent, line, 0644)
	pre := xkmSegs(mem)
	e := xkmEv{"k": c.Op, "size": c.Size, "pre": pre, "res": "ok"}
	func() {
		defer func() {
			if x := recover(); x != nil {
				e["res"] = "panic"
			}
		}()
		if c.Op == "memset" {
			e["off"], e["val"] = c.Off, c.Val
			Memset(r.arena.base+uintptr(c.Off), byte(c.Val), uintptr(c.Size))
		} else {
			e["src"], e["dst"] = c.Src, c.Dst
			Memcopy(r.arena.base+uintptr(c.Src), r.arena.base+uintptr(c.Dst), uintptr(c.Size))
		}
	}()
	e["post"] = xkmSegs(mem)
	r.enc.Encode(e)
}

func (r *xkmRun) finish() {
	r.flush()
	os.Remove(r.intent)
}

func TestVerifXkmCases(t *testing.T) {
	in, err := os.Open(os.Getenv("CASES"))
	if err != nil {
		t.Skip("CASES not set")
	}
	defer in.Close()
	r := xkmStart(t)
	sc := bufio.NewScanner(in)
	sc.Buffer(make([]byte, 1<<16), 1<<22)
	n := 0
	for sc.Scan() {
		if len(sc.Bytes()) == 0 {
			continue
		}
		var c xkmCase
		if err := json.Unmarshal(sc.Bytes(), &c); err != nil {
			t.Fatalf("case %d: %v", n, err)
		}
		r.do(&c)
		n++
	}
	r.finish()
	t.Logf("replayed %d cases", n)
}

func TestVerifXkmRandom(t *testing.T) {
	seed, _ := strconv.ParseInt(os.Getenv("VERIF_SEED"), 10, 64)
	n, _ := strconv.Atoi(os.Getenv("NCASES"))
	if n == 0 {
		n = 200
	}
	rng := rand.New(rand.NewSource(seed*15485863 + 7))
	r := xkmStart(t)
	size := func(max int) int {
		var s int
		switch rng.Intn(10) {
		case 0:
			s = rng.Intn(4)
		case 1, 2:
			s = 1<<uint(rng.Intn(15)) + rng.Intn(3) - 1 // 2^k-1, 2^k, 2^k+1
		case 3, 4:
			s = xkmPage*(1+rng.Intn(4)) + rng.Intn(3) - 1
		case 5:
			s = max - rng.Intn(3)
		default:
			s = rng.Intn(max + 1)
		}
		if s < 0 {
			s = 0
		}
		if s > max {
			s = max
		}
		return s
	}
	place := func(n, s int) int { // flush with the leading guard, flush with the trailing guard, or anywhere
		switch rng.Intn(4) {
		case 0:
			return 0
		case 1:
			return n - s
		}
		return rng.Intn(n - s + 1)
	}
	for i := 0; i < n; i++ {
		c := xkmCase{N: xkmPage * (1 + rng.Intn(5)), Base: rng.Intn(251)}
		if rng.Intn(12) == 0 {
			c.N = xkmPage * xkmMaxPages
		}
		if rng.Intn(2) == 0 {
			c.Op, c.Val = "memset", rng.Intn(256)
			c.Size = size(c.N)
			c.Off = place(c.N, c.Size)
		} else {
			c.Op = "memcopy"
			c.Size = size(c.N)
			c.Src = place(c.N, c.Size)
			switch rng.Intn(3) {
			case 0: // overlapping or adjacent
				d := rng.Intn(2*c.Size+3) - c.Size - 1
				c.Dst = c.Src + d
				if c.Dst < 0 {
					c.Dst = 0
				}
				if c.Dst+c.Size > c.N {
					c.Dst = c.N - c.Size
				}
			default:
				c.Dst = place(c.N, c.Size)
			}
		}
		r.do(&c)
	}
	r.finish()
}
