//go:build verif
// +build verif

package cpu

// extra-kutil (d): conformance harness for cpu.IsIntel.
// No oracle: CPUID is replaced through the package's cpuidFn seam by a table
// (leaf 0 -> the case's registers, any other leaf -> the case's "alt" registers)
// and the real IsIntel's answer is logged.  Registers travel as four bytes, little
// endian, in the order EAX, EBX, ECX, EDX.  Judged by KGate!KCMon.
//
//   {"k":"intel","l0":[[4]x4],"alt":[[4]x4],"res":"true|false|panic"}

import (
	"bufio"
	"encoding/json"
	"math/rand"
	"os"
	"strconv"
	"testing"
)

type xkgCpuCase struct {
	L0  [4][4]int `json:"l0"`
	Alt [4][4]int `json:"alt"`
}

func xkgWord(b [4]int) uint32 {
	return uint32(b[0]&255) | uint32(b[1]&255)<<8 | uint32(b[2]&255)<<16 | uint32(b[3]&255)<<24
}

func xkgCpuDo(enc *json.Encoder, c *xkgCpuCase) {
	save := cpuidFn
	defer func() { cpuidFn = save }()
	cpuidFn = func(leaf uint32) (uint32, uint32, uint32, uint32) {
		r := &c.Alt
		if leaf == 0 {
			r = &c.L0
		}
		return xkgWord(r[0]), xkgWord(r[1]), xkgWord(r[2]), xkgWord(r[3])
	}
	res := "panic"
	func() {
		defer func() { recover() }()
		if IsIntel() {
			res = "true"
		} else {
			res = "false"
		}
	}()
	enc.Encode(map[string]interface{}{"k": "intel", "l0": c.L0, "alt": c.Alt, "res": res})
}

func xkgCpuOut(t *testing.T) (*json.Encoder, func()) {
	f, err := os.Create(os.Getenv("TRACE_OUT"))
	if err != nil {
		t.Fatal(err)
	}
	bw := bufio.NewWriterSize(f, 1<<20)
	return json.NewEncoder(bw), func() { bw.Flush(); f.Close() }
}

func TestVerifXkgCpuCases(t *testing.T) {
	in, err := os.Open(os.Getenv("CASES"))
	if err != nil {
		t.Skip("CASES not set")
	}
	defer in.Close()
	enc, done := xkgCpuOut(t)
	defer done()
	sc := bufio.NewScanner(in)
	n := 0
	for sc.Scan() {
		if len(sc.Bytes()) == 0 {
			continue
		}
		var c xkgCpuCase
		if err := json.Unmarshal(sc.Bytes(), &c); err != nil {
			t.Fatalf("case %d: %v", n, err)
		}
		xkgCpuDo(enc, &c)
		n++
	}
	t.Logf("replayed %d cases", n)
}

func TestVerifXkgCpuRandom(t *testing.T) {
	seed, _ := strconv.ParseInt(os.Getenv("VERIF_SEED"), 10, 64)
	n, _ := strconv.Atoi(os.Getenv("NCASES"))
	if n == 0 {
		n = 200
	}
	rng := rand.New(rand.NewSource(seed*49979687 + 11))
	enc, done := xkgCpuOut(t)
	defer done()
	vendors := []string{"GenuineIntel", "AuthenticAMD", "GenuineIotel", "genuineintel", "CentaurHauls", "KVMKVMKVM\x00\x00\x00", "GenuntelineI", "ineIGenuntel"}
	word := func(s string) [4]int { return [4]int{int(s[0]), int(s[1]), int(s[2]), int(s[3])} }
	for i := 0; i < n; i++ {
		var c xkgCpuCase
		v := vendors[rng.Intn(len(vendors))]
		if rng.Intn(3) > 0 {
			v = vendors[0]
		}
		// the vendor string sits in EBX, EDX, ECX
		regs := [4][4]int{{rng.Intn(256), 0, 0, 0}, word(v[0:4]), word(v[8:12]), word(v[4:8])}
		switch rng.Intn(6) {
		case 0: // a single flipped bit somewhere in the twelve bytes
			r, b := 1+rng.Intn(3), rng.Intn(4)
			regs[r][b] ^= 1 << uint(rng.Intn(8))
		case 1: // registers permuted
			p := rng.Perm(3)
			regs[1], regs[2], regs[3] = regs[1+p[0]], regs[1+p[1]], regs[1+p[2]]
		case 2: // one register random
			r := 1 + rng.Intn(3)
			regs[r] = [4]int{rng.Intn(256), rng.Intn(256), rng.Intn(256), rng.Intn(256)}
		case 3: // the vendor string also (or only) in EAX
			regs[0] = word(vendors[0][0:4])
		}
		c.L0 = regs
		if rng.Intn(2) == 0 {
			c.Alt = [4][4]int{{1, 0, 0, 0}, word("Genu"), word("ntel"), word("ineI")}
		} else {
			c.Alt = [4][4]int{{rng.Intn(256), 6, 0, 0}, {rng.Intn(256), 8, 16, 0}, {rng.Intn(256), 0, 0, 0}, {rng.Intn(256), 251, 139, 7}}
		}
		xkgCpuDo(enc, &c)
	}
}
