//go:build verif
// +build verif

package kfmt

// extra-kutil (a) + (b): conformance harness for kfmt.PrefixWriter and kfmt.Panic.
// No oracle: it feeds the REAL code and logs one JSON event per call; the events
// are judged by specs/kutil/KutilTrace.tla (PrefixWriter!PWMon, KPanic!KPMon).
//
// Byte strings are logged as segment lists [[start,len,stride],...] (KuSeg.tla);
// this file only produces runs (stride 0): a lossless run-length encoding.
//
//   {"k":"pwcase","prefix":segs,"failAt":n,"period":n,"sticky":bool}
//   {"k":"w","p":segs,"res":"ok|panic","n":ret,"err":"nil|sink|other","got":segs,"serr":sink errors in the call,"pmod":bool}
//   {"k":"pcase","rt":segs}
//   {"k":"panic","kind":..,"mod":segs,"msg":segs,"hmode":"ret|unwind","res":"returned|unwound|panicked",
//    "out":segs,"halts":n,"before":n}
//   {"k":"reset"}
//
//   TestVerifXkfCases   replays $CASES (ndjson; PrefixWriter cases {"pw":{...}} and Panic cases {"kp":{...}}) - legs G, replay
//   TestVerifXkfRandom  seeded random cases at real scale - leg T

import (
	"bufio"
	"encoding/json"
	"errors"
	"math/rand"
	"os"
	"strconv"
	"testing"

	"github.com/ProjectSerenity/firefly/kernel"
)

type xkfEv map[string]interface{}

func xkfSegs(b []byte) [][3]int {
	out := [][3]int{}
	for _, c := range b {
		if n := len(out); n > 0 && out[n-1][0] == int(c) {
			out[n-1][1]++
		} else {
			out = append(out, [3]int{int(c), 1, 0})
		}
	}
	return out
}

func xkfBytes(segs [][3]int) []byte {
	var b []byte
	for _, s := range segs {
		for i := 0; i < s[1]; i++ {
			if s[2] == 0 {
				b = append(b, byte(s[0]))
			} else {
				b = append(b, byte((s[0]+i)%251))
			}
		}
	}
	return b
}

func xkfOut(t *testing.T) (*json.Encoder, func()) {
	f, err := os.Create(os.Getenv("TRACE_OUT"))
	if err != nil {
		t.Fatal(err)
	}
	bw := bufio.NewWriterSize(f, 1<<20)
	return json.NewEncoder(bw), func() { bw.Flush(); f.Close() }
}

// ---------------------------------------------------------------- PrefixWriter

var xkfSinkErr = errors.New("xkf sink refuses")

// xkfSink is the environment of PrefixWriter!SinkWrite: it accepts bytes until `failAt` bytes
// have been taken in total, cuts the call that crosses that mark short and answers it with an
// error; afterwards it is dead (sticky), or armed again `period` bytes later, or never fails again.
type xkfSink struct {
	acc, failAt, period int
	sticky, dead        bool
	got                 []byte
	errs                int // calls answered with an error
}

func (s *xkfSink) Write(b []byte) (int, error) {
	if s.dead {
		s.errs++
		return 0, xkfSinkErr
	}
	if s.failAt >= 0 && s.acc+len(b) > s.failAt {
		n := s.failAt - s.acc
		s.errs++
		s.got = append(s.got, b[:n]...)
		s.acc = s.failAt
		switch {
		case s.sticky:
			s.dead = true
		case s.period > 0:
			s.failAt += s.period
		default:
			s.failAt = -1
		}
		return n, xkfSinkErr
	}
	s.got = append(s.got, b...)
	s.acc += len(b)
	return len(b), nil
}

type xkfPWCase struct {
	Prefix [][3]int   `json:"prefix"`
	FailAt int        `json:"failAt"`
	Period int        `json:"period"`
	Sticky bool       `json:"sticky"`
	Chunks [][][3]int `json:"chunks"`
}

func xkfRunPW(enc *json.Encoder, c *xkfPWCase) {
	prefix := xkfBytes(c.Prefix)
	sink := &xkfSink{failAt: c.FailAt, period: c.Period, sticky: c.Sticky}
	w := &PrefixWriter{Sink: sink, Prefix: prefix}
	enc.Encode(xkfEv{"k": "pwcase", "prefix": xkfSegs(prefix), "failAt": c.FailAt, "period": c.Period, "sticky": c.Sticky})
	prefixCopy := append([]byte(nil), prefix...)
	for _, ch := range c.Chunks {
		p := xkfBytes(ch)
		pCopy := append([]byte(nil), p...)
		sink.got, sink.errs = sink.got[:0], 0
		e := xkfEv{"k": "w", "p": xkfSegs(p), "res": "ok", "n": 0, "err": "nil", "pmod": false}
		func() {
			defer func() {
				if x := recover(); x != nil {
					e["res"] = "panic"
				}
			}()
			n, err := w.Write(p)
			e["n"] = n
			switch err {
			case nil:
			case xkfSinkErr:
				e["err"] = "sink"
			default:
				e["err"] = "other"
			}
		}()
		e["got"], e["serr"] = xkfSegs(sink.got), sink.errs
		e["pmod"] = string(p) != string(pCopy) || string(w.Prefix) != string(prefixCopy)
		enc.Encode(e)
	}
	enc.Encode(xkfEv{"k": "reset"})
}

// ---------------------------------------------------------------- Panic

type xkfCall struct {
	Kind  string   `json:"kind"`
	Mod   [][3]int `json:"mod"`
	Msg   [][3]int `json:"msg"`
	Hmode string   `json:"hmode"`
}

type xkfKPCase struct {
	Calls []xkfCall `json:"calls"`
}

type xkfForeignErr struct{ s string }

func (e xkfForeignErr) Error() string { return e.s }

type xkfUnwind struct{}

type xkfRec struct{ b []byte }

func (r *xkfRec) Write(p []byte) (int, error) { r.b = append(r.b, p...); return len(p), nil }

func xkfRunKP(enc *json.Encoder, c *xkfKPCase) {
	saveHalt, saveSink := cpuHaltFn, outputSink
	defer func() { cpuHaltFn = saveHalt; outputSink = saveSink }()
	rec := &xkfRec{}
	SetOutputSink(rec)
	enc.Encode(xkfEv{"k": "pcase", "rt": xkfSegs([]byte(errRuntimePanic.Message))})
	for _, call := range c.Calls {
		mod, msg := string(xkfBytes(call.Mod)), string(xkfBytes(call.Msg))
		var arg interface{}
		switch call.Kind {
		case "kerr":
			arg = &kernel.Error{Module: mod, Message: msg}
		case "kerrnil":
			arg = (*kernel.Error)(nil)
		case "err":
			arg = xkfForeignErr{msg}
		case "str":
			arg = msg
		case "nil":
			arg = nil
		case "other":
			arg = 42
		case "rtself":
			arg = errRuntimePanic
		default:
			panic("xkf: unknown kind " + call.Kind)
		}
		rec.b = rec.b[:0]
		halts, before := 0, -1
		cpuHaltFn = func() {
			if halts == 0 {
				before = len(rec.b)
			}
			halts++
			if call.Hmode == "unwind" {
				panic(xkfUnwind{})
			}
		}
		res := "returned"
		func() {
			defer func() {
				if x := recover(); x != nil {
					if _, ok := x.(xkfUnwind); ok {
						res = "unwound"
					} else {
						res = "panicked"
					}
				}
			}()
			Panic(arg)
		}()
		if halts == 0 {
			before = len(rec.b)
		}
		enc.Encode(xkfEv{"k": "panic", "kind": call.Kind, "mod": xkfSegs([]byte(mod)), "msg": xkfSegs([]byte(msg)), "hmode": call.Hmode,
			"res": res, "out": xkfSegs(rec.b), "halts": halts, "before": before})
	}
	enc.Encode(xkfEv{"k": "reset"})
}

// ---------------------------------------------------------------- drivers

func TestVerifXkfCases(t *testing.T) {
	in, err := os.Open(os.Getenv("CASES"))
	if err != nil {
		t.Skip("CASES not set")
	}
	defer in.Close()
	enc, done := xkfOut(t)
	defer done()
	sc := bufio.NewScanner(in)
	sc.Buffer(make([]byte, 1<<16), 1<<24)
	n := 0
	for sc.Scan() {
		if len(sc.Bytes()) == 0 {
			continue
		}
		var c struct {
			PW *xkfPWCase `json:"pw"`
			KP *xkfKPCase `json:"kp"`
		}
		if err := json.Unmarshal(sc.Bytes(), &c); err != nil {
			t.Fatalf("case %d: %v", n, err)
		}
		if c.PW != nil {
			xkfRunPW(enc, c.PW)
		}
		if c.KP != nil {
			xkfRunKP(enc, c.KP)
		}
		n++
	}
	t.Logf("replayed %d cases", n)
}

func xkfRandRuns(rng *rand.Rand, maxRuns int, nlProb float64) [][3]int {
	var out [][3]int
	lens := []int{1, 1, 1, 2, 3, 7, 31, 200, 1500}
	for k := rng.Intn(maxRuns + 1); k > 0; k-- {
		b := rng.Intn(256)
		n := lens[rng.Intn(len(lens))]
		if rng.Float64() < nlProb {
			b = '\n'
			n = []int{1, 1, 1, 2, 3}[rng.Intn(5)]
		}
		out = append(out, [3]int{b, n, 0})
	}
	return out
}

func xkfTotal(s [][3]int) int {
	n := 0
	for _, x := range s {
		n += x[1]
	}
	return n
}

func TestVerifXkfRandom(t *testing.T) {
	seed, _ := strconv.ParseInt(os.Getenv("VERIF_SEED"), 10, 64)
	n, _ := strconv.Atoi(os.Getenv("NCASES"))
	if n == 0 {
		n = 100
	}
	rng := rand.New(rand.NewSource(seed*7919 + 31))
	enc, done := xkfOut(t)
	defer done()
	kinds := []string{"kerr", "kerr", "kerrnil", "err", "err", "str", "str", "nil", "other", "rtself"}
	for i := 0; i < n; i++ {
		// PrefixWriter: random prefix (may contain '\n'), random chunking, random sink
		c := &xkfPWCase{FailAt: -1}
		switch rng.Intn(4) {
		case 0:
		case 1:
			c.Prefix = [][3]int{{rng.Intn(256), 1, 0}}
		default:
			c.Prefix = xkfRandRuns(rng, 4, 0.1)
			for j := range c.Prefix {
				if c.Prefix[j][1] > 7 {
					c.Prefix[j][1] = 7
				}
			}
		}
		total := 0
		for k := 1 + rng.Intn(10); k > 0; k-- {
			var ch [][3]int
			if rng.Intn(8) > 0 {
				ch = xkfRandRuns(rng, 8, 0.3)
			}
			total += xkfTotal(ch) + 3*xkfTotal(c.Prefix)
			c.Chunks = append(c.Chunks, ch)
		}
		if rng.Intn(2) == 0 {
			c.FailAt = rng.Intn(total + 2)
			if rng.Intn(3) == 0 {
				c.FailAt = rng.Intn(20)
			}
			switch rng.Intn(4) {
			case 0:
				c.Sticky = true
			case 1:
				c.Period = 1 + rng.Intn(4)
			case 2:
				c.Period = 10 + rng.Intn(400)
			}
		}
		xkfRunPW(enc, c)
		// Panic: a short history of calls with random texts
		kp := &xkfKPCase{}
		for k := 1 + rng.Intn(4); k > 0; k-- {
			call := xkfCall{Kind: kinds[rng.Intn(len(kinds))], Hmode: "ret"}
			if rng.Intn(3) == 0 {
				call.Hmode = "unwind"
			}
			text := func(max int) [][3]int {
				var s [][3]int
				for j := rng.Intn(max + 1); j > 0; j-- {
					b := 32 + rng.Intn(95)
					switch rng.Intn(12) {
					case 0:
						b = '%'
					case 1:
						b = '\n'
					case 2:
						b = rng.Intn(256)
					}
					s = append(s, [3]int{b, 1 + rng.Intn(3)/2, 0})
				}
				return s
			}
			if call.Kind == "kerr" {
				call.Mod = text(12)
			}
			if call.Kind == "kerr" || call.Kind == "err" || call.Kind == "str" {
				call.Msg = text(120)
			}
			kp.Calls = append(kp.Calls, call)
		}
		xkfRunKP(enc, kp)
	}
}
