//go:build verif
// +build verif

package gate

// extra-kutil (d): conformance harness for gate.HandleInterrupt.
// No oracle: it calls the REAL assembly routine and logs a projection of the two
// static tables it maintains (gateHandlers and the IDT).  The tables are private
// assembler symbols, so their addresses are decoded from the package's own machine
// code (the LEAQ operands of HandleInterrupt); the entry stub an IDT descriptor
// points to is decoded the same way (which handler slot it loads, which number it
// pushes in place of the CPU's error code).  If the code does not have the expected
// shape the harness fails (machinery broken), it never guesses.
// Judged by specs/kutil/KutilTrace.tla (KGate!KGMon).
//
//   {"k":"greset"}                                   both tables zeroed (power-on state)
//   {"k":"reg","v":v,"ist":i,"h":id,"res":"ok|panic","rows":[[v,handler,type,sel,ist,stub,pushed,rsv],...]}
//       rows: every vector whose slot or descriptor is not all zero; handler = id of the harness
//       function whose code address is stored (999 unknown); stub = slot the stub loads (999 = the
//       offset is not an entry stub); pushed = number the stub pushes (256 = none, 999 = n/a)
//
//   TestVerifXkgCases / TestVerifXkgRandom

import (
	"bufio"
	"encoding/binary"
	"encoding/json"
	"math/rand"
	"os"
	"path/filepath"
	"strconv"
	"testing"
	"unsafe"
)

type xkgEv map[string]interface{}

var xkgHit [9]int

func xkgH1(*Registers) { xkgHit[1]++ }
func xkgH2(*Registers) { xkgHit[2] += 2 }
func xkgH3(*Registers) { xkgHit[3] += 3 }
func xkgH4(*Registers) { xkgHit[4] += 4 }
func xkgH5(*Registers) { xkgHit[5] += 5 }
func xkgH6(*Registers) { xkgHit[6] += 6 }
func xkgH7(*Registers) { xkgHit[7] += 7 }
func xkgH8(*Registers) { xkgHit[8] += 8 }

var xkgHandlers = []func(*Registers){nil, xkgH1, xkgH2, xkgH3, xkgH4, xkgH5, xkgH6, xkgH7, xkgH8}

func xkgCodeOf(h func(*Registers)) uintptr { return **(**uintptr)(unsafe.Pointer(&h)) }

func xkgMem(addr uintptr, n int) []byte { // (the module's language version predates unsafe.Slice)
	return (*[1 << 30]byte)(unsafe.Pointer(addr))[:n:n]
}

func xkgRel(addr uintptr) uintptr { // operand of a RIP-relative instruction whose rel32 starts at addr
	return uintptr(int64(addr) + 4 + int64(int32(binary.LittleEndian.Uint32(xkgMem(addr, 4)))))
}

type xkgTables struct {
	handlers, idt, entries uintptr
	ids                    map[uintptr]int
}

func xkgHas(b []byte, at int, pat ...byte) bool {
	if at+len(pat) > len(b) {
		return false
	}
	for i, p := range pat {
		if b[at+i] != p {
			return false
		}
	}
	return true
}

// xkgLocate decodes the table addresses from HandleInterrupt's code.
func xkgLocate(t *testing.T) *xkgTables {
	hi := HandleInterrupt
	w := **(**uintptr)(unsafe.Pointer(&hi))
	// the Go-callable entry is an ABI wrapper that CALLs the assembly body (which starts with MOVZX 8(SP), CX)
	var body uintptr
	wb := xkgMem(w, 64)
	for i := 0; i+5 <= len(wb); i++ {
		if wb[i] == 0xe8 {
			cand := xkgRel(w + uintptr(i) + 1)
			if cand > w-(1<<20) && cand < w+(1<<20) && xkgHas(xkgMem(cand, 6), 0, 0x48, 0x0f, 0xb6, 0x4c, 0x24, 0x08) {
				body = cand
				break
			}
		}
	}
	if body == 0 {
		if xkgHas(wb, 0, 0x48, 0x0f, 0xb6, 0x4c, 0x24, 0x08) {
			body = w // no wrapper: the function value is the body itself
		} else {
			t.Fatalf("xkg: cannot find the assembly body of HandleInterrupt: % x", wb)
		}
	}
	b := xkgMem(body, 128)
	tb := &xkgTables{}
	var leaDI []uintptr
	for i := 0; i+7 <= len(b); i++ {
		if xkgHas(b, i, 0x48, 0x8d, 0x3d) { // LEAQ x(SB), DI
			leaDI = append(leaDI, xkgRel(body+uintptr(i)+3))
			i += 6
		} else if xkgHas(b, i, 0x48, 0x8d, 0x35) && tb.entries == 0 { // LEAQ x(SB), SI
			tb.entries = xkgRel(body + uintptr(i) + 3)
			i += 6
		} else if b[i] == 0xc3 && tb.entries != 0 && len(leaDI) >= 2 {
			break
		}
	}
	if len(leaDI) != 2 || tb.entries == 0 {
		t.Fatalf("xkg: HandleInterrupt does not have the expected shape (LEAQ DI x%d, entries %x): % x", len(leaDI), tb.entries, b)
	}
	tb.handlers, tb.idt = leaDI[0], leaDI[1]
	// sanity: the first stub must load handler slot 0
	if s, _ := tb.stub(tb.entries); s != 0 {
		t.Fatalf("xkg: the stub area does not start with the stub of vector 0 (decoded slot %d)", s)
	}
	tb.ids = map[uintptr]int{}
	for i, h := range xkgHandlers {
		if h != nil {
			tb.ids[xkgCodeOf(h)] = i
		}
	}
	if len(tb.ids) != len(xkgHandlers)-1 {
		t.Fatalf("xkg: harness handlers share code addresses")
	}
	return tb
}

// stub decodes the entry stub at addr: (handler slot it loads, number it pushes or 256); 999 = not a stub
func (tb *xkgTables) stub(addr uintptr) (int, int) {
	if addr < tb.entries || addr > tb.entries+256*64 {
		return 999, 999
	}
	b := xkgMem(addr, 32)
	// SUBQ $0x18|$0x10, SP ; MOVQ R15, 0(SP) ; MOVQ gateHandlers+8*slot(SB), R15 ; MOVQ R15, 8(SP)
	if !xkgHas(b, 0, 0x48, 0x83, 0xec) || !xkgHas(b, 4, 0x4c, 0x89, 0x3c, 0x24) || !xkgHas(b, 8, 0x4c, 0x8b, 0x3d) ||
		!xkgHas(b, 15, 0x4c, 0x89, 0x7c, 0x24, 0x08) {
		return 999, 999
	}
	// a stub starts right behind a 4xNOP delimiter (or at the start of the area)
	if addr != tb.entries && !xkgHas(xkgMem(addr-4, 4), 0, 0x90, 0x90, 0x90, 0x90) {
		return 999, 999
	}
	target := xkgRel(addr + 11)
	if target < tb.handlers || (target-tb.handlers)%8 != 0 || (target-tb.handlers)/8 > 255 {
		return 999, 999
	}
	slot := int((target - tb.handlers) / 8)
	switch b[3] {
	case 0x10: // the CPU pushes an error code itself
		return slot, 256
	case 0x18: // MOVQ $num, 16(SP)
		if !xkgHas(b, 20, 0x48, 0xc7, 0x44, 0x24, 0x10) {
			return 999, 999
		}
		return slot, int(binary.LittleEndian.Uint32(b[25:29]))
	}
	return 999, 999
}

func (tb *xkgTables) reset() {
	for i, n := 0, 256*8; i < n; i++ {
		xkgMem(tb.handlers, n)[i] = 0
	}
	for i, n := 0, 256*16; i < n; i++ {
		xkgMem(tb.idt, n)[i] = 0
	}
}

func (tb *xkgTables) rows() [][8]int {
	out := [][8]int{}
	hs := xkgMem(tb.handlers, 256*8)
	idt := xkgMem(tb.idt, 256*16)
	for v := 0; v < 256; v++ {
		code := uintptr(binary.LittleEndian.Uint64(hs[v*8:]))
		d := idt[v*16 : v*16+16]
		zero := code == 0
		for _, x := range d {
			zero = zero && x == 0
		}
		if zero {
			continue
		}
		hid := 0
		if code != 0 {
			var ok bool
			if hid, ok = tb.ids[code]; !ok {
				hid = 999
			}
		}
		off := uintptr(binary.LittleEndian.Uint16(d[0:])) | uintptr(binary.LittleEndian.Uint16(d[6:]))<<16 | uintptr(binary.LittleEndian.Uint32(d[8:]))<<32
		slot, push := tb.stub(off)
		rsv := 0
		if d[12]|d[13]|d[14]|d[15] != 0 {
			rsv = 1
		}
		out = append(out, [8]int{v, hid, int(d[5]), int(binary.LittleEndian.Uint16(d[2:])), int(d[4]), slot, push, rsv})
	}
	return out
}

type xkgCase struct {
	Regs [][3]int `json:"regs"` // [vector, ist, handler id]
}

type xkgRun struct {
	t      *testing.T
	enc    *json.Encoder
	flush  func()
	tb     *xkgTables
	intent string
}

func xkgStart(t *testing.T) *xkgRun {
	f, err := os.Create(os.Getenv("TRACE_OUT"))
	if err != nil {
		t.Fatal(err)
	}
	bw := bufio.NewWriterSize(f, 1<<20)
	work := os.Getenv("VERIF_WORK")
	if work == "" {
		work = os.TempDir()
	}
	return &xkgRun{t: t, enc: json.NewEncoder(bw), flush: func() { bw.Flush() }, tb: xkgLocate(t), intent: filepath.Join(work, "xkg_intent.json")}
}

func (r *xkgRun) do(c *xkgCase) {
	r.tb.reset()
	r.enc.Encode(xkgEv{"k": "greset"})
	for _, reg := range c.Regs {
		v, ist, h := reg[0], reg[1], reg[2]
		if v < 0 || v > 255 || ist < 0 || ist > 255 || h < 1 || h >= len(xkgHandlers) {
			r.t.Fatalf("xkg: bad registration %v", reg)
		}
		r.flush()
		line, _ := json.Marshal(reg)
		os.WriteFile(r.intent, line, 0644)
		e := xkgEv{"k": "reg", "v": v, "ist": ist, "h": h, "res": "ok"}
		func() {
			defer func() {
				if x := recover(); x != nil {
					e["res"] = "panic"
				}
			}()
			HandleInterrupt(InterruptNumber(v), uint8(ist), xkgHandlers[h])
		}()
		e["rows"] = r.tb.rows()
		r.enc.Encode(e)
	}
	r.enc.Encode(xkgEv{"k": "reset"})
}

func (r *xkgRun) finish() {
	r.flush()
	os.Remove(r.intent)
}

func TestVerifXkgCases(t *testing.T) {
	in, err := os.Open(os.Getenv("CASES"))
	if err != nil {
		t.Skip("CASES not set")
	}
	defer in.Close()
	r := xkgStart(t)
	sc := bufio.NewScanner(in)
	sc.Buffer(make([]byte, 1<<16), 1<<22)
	n := 0
	for sc.Scan() {
		if len(sc.Bytes()) == 0 {
			continue
		}
		var c xkgCase
		if err := json.Unmarshal(sc.Bytes(), &c); err != nil {
			t.Fatalf("case %d: %v", n, err)
		}
		r.do(&c)
		n++
	}
	r.finish()
	t.Logf("replayed %d cases", n)
}

func TestVerifXkgRandom(t *testing.T) {
	seed, _ := strconv.ParseInt(os.Getenv("VERIF_SEED"), 10, 64)
	n, _ := strconv.Atoi(os.Getenv("NCASES"))
	if n == 0 {
		n = 50
	}
	rng := rand.New(rand.NewSource(seed*32452843 + 3))
	r := xkgStart(t)
	special := []int{0, 1, 7, 8, 9, 10, 14, 15, 16, 17, 18, 29, 30, 31, 32, 127, 128, 144, 254, 255}
	for i := 0; i < n; i++ {
		var c xkgCase
		pool := []int{}
		for k := 1 + rng.Intn(6); k > 0; k-- {
			if rng.Intn(2) == 0 {
				pool = append(pool, special[rng.Intn(len(special))])
			} else {
				pool = append(pool, rng.Intn(256))
			}
		}
		for k := 1 + rng.Intn(14); k > 0; k-- {
			ist := rng.Intn(8)
			if rng.Intn(6) == 0 {
				ist = rng.Intn(256)
			}
			c.Regs = append(c.Regs, [3]int{pool[rng.Intn(len(pool))], ist, 1 + rng.Intn(len(xkgHandlers)-1)})
		}
		r.do(&c)
	}
	r.finish()
}
