//go:build verif
// +build verif

package aml

// Input side of the C12 harness: a generator of well-formed AML programs (byte encoder), a tolerant
// splitter that cuts the shipped tables into small well-formed fragments, and the seeded random
// driver of leg T (random byte strings, token soups, stacked random mutations of generated programs
// and of the three shipped tables).  Nothing in here knows what the parser should answer.

import (
	"encoding/hex"
	"encoding/json"
	"fmt"
	"math/rand"
	"os"
	"sort"
	"strconv"
	"testing"
)

// ---------------------------------------------------------------- byte encoder

func c12PkgLen(n, width int) []byte { // n = length of what follows the PkgLength; the encoded value counts itself
	for w := width; w <= 4; w++ {
		v := n + w
		switch {
		case w == 1 && v <= 0x3f:
			return []byte{byte(v)}
		case w == 2 && v <= 0xfff:
			return []byte{byte(0x40 | v&0xf), byte(v >> 4)}
		case w == 3 && v <= 0xfffff:
			return []byte{byte(0x80 | v&0xf), byte(v >> 4), byte(v >> 12)}
		case w == 4:
			return []byte{byte(0xc0 | v&0xf), byte(v >> 4), byte(v >> 12), byte(v >> 20)}
		}
	}
	panic("c12PkgLen")
}

func c12Cat(parts ...[]byte) []byte {
	var out []byte
	for _, p := range parts {
		out = append(out, p...)
	}
	return out
}

func c12Pkg(op []byte, width int, body ...[]byte) []byte {
	b := c12Cat(body...)
	return c12Cat(op, c12PkgLen(len(b), width), b)
}

type c12Gen struct {
	rng    *rand.Rand
	names  []string // segment pool
	scopes [][]string
	budget int // rough number of objects still to emit
	// construct-directed seeds: kind of the first top-level object / first field element (-1: random)
	forceObj, forceField int
}

var c12Segs = []string{"A000", "A001", "B000", "C___", "_SB_", "_HID", "PCI0", "X_Y1"}

func (g *c12Gen) seg() string { return g.names[g.rng.Intn(len(g.names))] }

func c12NameBytes(abs bool, carets int, segs []string) []byte {
	var b []byte
	if abs {
		b = append(b, '\\')
	}
	for i := 0; i < carets; i++ {
		b = append(b, '^')
	}
	switch len(segs) {
	case 0:
		b = append(b, 0)
	case 1:
	case 2:
		b = append(b, 0x2e)
	default:
		b = append(b, 0x2f, byte(len(segs)))
	}
	for _, s := range segs {
		b = append(b, s...)
	}
	return b
}

// declName: name of a new object; mostly a simple segment, sometimes a path form
func (g *c12Gen) declName(cur []string) ([]byte, string) {
	s := g.seg()
	switch k := g.rng.Intn(12); {
	case k < 7:
		return c12NameBytes(false, 0, []string{s}), s
	case k == 7 && len(cur) > 0:
		return c12NameBytes(false, 1+g.rng.Intn(2), []string{s}), s
	case k == 8:
		return c12NameBytes(true, 0, []string{s}), s
	case k == 9 && len(g.scopes) > 0:
		sc := g.scopes[g.rng.Intn(len(g.scopes))]
		return c12NameBytes(true, 0, append(append([]string{}, sc...), s)), s
	case k == 10:
		return c12NameBytes(false, 0, []string{g.seg(), s}), s
	default:
		return c12NameBytes(false, 0, []string{s}), s
	}
}

func (g *c12Gen) refName() []byte {
	switch g.rng.Intn(6) {
	case 0:
		return c12NameBytes(true, 0, []string{g.seg()})
	case 1:
		return c12NameBytes(false, 1, []string{g.seg()})
	case 2:
		return c12NameBytes(false, 0, []string{g.seg(), g.seg()})
	default:
		return c12NameBytes(false, 0, []string{g.seg()})
	}
}

// width of a PkgLength encoding: mostly 1 byte, often 2, now and then 3 or 4 (all four are legal for
// any length that fits)
func (g *c12Gen) width() int {
	switch k := g.rng.Intn(12); {
	case k < 7:
		return 1
	case k < 10:
		return 2
	case k == 10:
		return 3
	default:
		return 4
	}
}

func (g *c12Gen) constant() []byte {
	switch g.rng.Intn(8) {
	case 0:
		return []byte{0x00}
	case 1:
		return []byte{0x01}
	case 2:
		return []byte{0xff}
	case 3:
		return []byte{0x0b, byte(g.rng.Intn(256)), byte(g.rng.Intn(256))}
	case 4:
		return []byte{0x0c, byte(g.rng.Intn(256)), 0, 0, byte(g.rng.Intn(256))}
	case 5:
		return []byte{0x0e, 1, 2, 3, 4, 5, 6, 7, byte(g.rng.Intn(256))}
	default:
		return []byte{0x0a, byte(g.rng.Intn(256))}
	}
}

func (g *c12Gen) data(depth int) []byte {
	switch k := g.rng.Intn(10); {
	case k < 4:
		return g.constant()
	case k == 4:
		s := []string{"", "A", "PNP0A03", "\\_SB.PCI0"}[g.rng.Intn(4)]
		return c12Cat([]byte{0x0d}, []byte(s), []byte{0})
	case k == 5 || k == 6: // Buffer(len){bytes}
		n := g.rng.Intn(5)
		body := make([]byte, n)
		for i := range body {
			body[i] = byte(g.rng.Intn(256))
		}
		ln := []byte{0x0a, byte(n + g.rng.Intn(2))}
		switch g.rng.Intn(8) {
		case 0, 1:
			ln = c12NameBytes(false, 0, []string{g.seg()}) // length given by a named object
		case 2:
			ln = g.term(1) // length given by an expression
		case 3:
			if depth < 2 { // length operand that itself carries a package (Buffer / Package in TermArg position)
				ln = g.data(depth + 1)
			}
		}
		return c12Pkg([]byte{0x11}, g.width(), ln, body)
	case k == 7 && depth < 2: // Package
		n := g.rng.Intn(3)
		var els [][]byte
		for i := 0; i < n; i++ {
			els = append(els, g.data(depth+1))
		}
		return c12Pkg([]byte{0x12}, g.width(), []byte{byte(n)}, c12Cat(els...))
	default:
		return g.constant()
	}
}

func (g *c12Gen) term(depth int) []byte {
	switch k := g.rng.Intn(12); {
	case k < 3:
		return []byte{byte(0x60 + g.rng.Intn(8))} // LocalN
	case k < 5:
		return []byte{byte(0x68 + g.rng.Intn(7))} // ArgN
	case k < 7:
		return g.constant()
	case k == 7:
		return g.refName()
	case k == 8 && depth < 2: // Add(a, b, target)
		return c12Cat([]byte{byte([]int{0x72, 0x74, 0x7b, 0x7d}[g.rng.Intn(4)])}, g.term(depth+1), g.term(depth+1), g.target())
	case k == 9 && depth < 2: // LEqual / LLess
		return c12Cat([]byte{byte(0x93 + g.rng.Intn(3))}, g.term(depth+1), g.term(depth+1))
	case k == 10 && depth < 2: // SizeOf / DerefOf / Index
		return c12Cat([]byte{0x87}, g.target1())
	default:
		return g.constant()
	}
}

func (g *c12Gen) target1() []byte {
	if g.rng.Intn(2) == 0 {
		return []byte{byte(0x60 + g.rng.Intn(8))}
	}
	return c12NameBytes(false, 0, []string{g.seg()})
}

func (g *c12Gen) target() []byte {
	if g.rng.Intn(3) == 0 {
		return []byte{0}
	}
	return g.target1()
}

func (g *c12Gen) stmts(depth int) []byte {
	var out []byte
	n := 1 + g.rng.Intn(3)
	for i := 0; i < n && g.budget > 0; i++ {
		g.budget--
		switch k := g.rng.Intn(12); {
		case k < 3:
			out = append(out, c12Cat([]byte{0x70}, g.term(0), g.target1())...) // Store
		case k < 5:
			out = append(out, c12Cat([]byte{0xa4}, g.term(0))...) // Return
		case k == 5:
			out = append(out, c12Cat([]byte{0x75}, g.target1())...) // Increment
		case k == 6 && depth < 2:
			out = append(out, c12Pkg([]byte{0xa0}, g.width(), g.term(1), g.stmts(depth+1))...) // If
			if g.rng.Intn(2) == 0 {
				out = append(out, c12Pkg([]byte{0xa1}, g.width(), g.stmts(depth+1))...) // Else
			}
		case k == 7 && depth < 2:
			out = append(out, c12Pkg([]byte{0xa2}, g.width(), g.term(1), g.stmts(depth+1))...) // While
		case k == 8: // method call with 0-2 args (the callee may or may not exist)
			out = append(out, g.refName()...)
			for j := g.rng.Intn(3); j > 0; j-- {
				out = append(out, g.term(1)...)
			}
		case k == 9:
			out = append(out, c12Cat([]byte{0x8a}, g.target1(), g.constant(), c12NameBytes(false, 0, []string{g.seg()}))...) // CreateDWordField
		case k == 10:
			out = append(out, c12Cat([]byte{0x86}, g.target1(), g.constant())...) // Notify
		default:
			out = append(out, 0xa3) // Noop
		}
	}
	return out
}

func (g *c12Gen) fieldList() []byte {
	var out []byte
	for n := 1 + g.rng.Intn(3); n > 0; n-- {
		k := g.rng.Intn(10)
		if g.forceField >= 0 {
			k, g.forceField = g.forceField, -1
		}
		switch {
		case k < 5:
			out = append(out, c12Cat([]byte(g.seg()), []byte{byte(g.rng.Intn(0x40))})...) // NamedField, width in bits (a raw PkgLength value)
		case k == 5:
			out = append(out, 0x00, byte(g.rng.Intn(0x40))) // ReservedField
		case k == 6:
			out = append(out, 0x01, byte(g.rng.Intn(6)), byte(g.rng.Intn(16))) // AccessField
		case k == 7:
			out = append(out, 0x03, byte(g.rng.Intn(6)), byte(g.rng.Intn(16)), byte(g.rng.Intn(8))) // ExtendedAccessField
		case k == 8:
			out = append(out, c12Cat([]byte{0x02}, c12NameBytes(false, 0, []string{g.seg()}))...) // Connection(name)
		default: // Connection(Buffer(n){...})
			n := 1 + g.rng.Intn(4)
			body := make([]byte, n)
			for i := range body {
				body[i] = byte(g.rng.Intn(256))
			}
			out = append(out, c12Cat([]byte{0x02}, c12Pkg([]byte{0x11}, 1, []byte{0x0a, byte(n)}, body))...)
		}
	}
	return out
}

func (g *c12Gen) objects(cur []string, depth int) []byte {
	var out []byte
	n := 1 + g.rng.Intn(3)
	if depth == 0 {
		n = g.budget // the top level uses up the budget
	}
	for i := 0; i < n && g.budget > 0; i++ {
		g.budget--
		k := g.rng.Intn(16)
		if g.forceObj >= 0 {
			k, g.forceObj = g.forceObj, -1
		}
		switch {
		case k < 3:
			nm, _ := g.declName(cur)
			out = append(out, c12Cat([]byte{0x08}, nm, g.data(0))...)
		case k < 5 && depth < 3:
			nm, s := g.declName(cur)
			sub := append(append([]string{}, cur...), s)
			op := [][]byte{{0x5b, 0x82}, {0x5b, 0x85}}[g.rng.Intn(2)]
			out = append(out, c12Pkg(op, g.width(), nm, g.objects(sub, depth+1))...)
			g.scopes = append(g.scopes, sub)
		case k == 5 && depth < 3:
			nm, s := g.declName(cur)
			sub := append(append([]string{}, cur...), s)
			if g.rng.Intn(2) == 0 {
				out = append(out, c12Pkg([]byte{0x5b, 0x83}, g.width(), nm, []byte{1, 0x10, 0x04, 0, 0, 6}, g.objects(sub, depth+1))...)
			} else {
				out = append(out, c12Pkg([]byte{0x5b, 0x84}, g.width(), nm, []byte{1, 2, 0}, g.objects(sub, depth+1))...)
			}
		case k < 9:
			nm, _ := g.declName(cur)
			out = append(out, c12Pkg([]byte{0x14}, g.width(), nm, []byte{byte(g.rng.Intn(8))}, g.stmts(0))...)
		case k == 9 && depth < 3: // Scope(existing or not)
			var nm []byte
			sub := cur
			if len(g.scopes) > 0 && g.rng.Intn(3) > 0 {
				sub = g.scopes[g.rng.Intn(len(g.scopes))]
				if g.rng.Intn(2) == 0 {
					nm = c12NameBytes(true, 0, sub)
				} else {
					nm = c12NameBytes(false, 0, sub[len(sub)-1:])
				}
			} else {
				nm = c12NameBytes(true, 0, []string{"_SB_"})
				sub = []string{"_SB_"}
			}
			out = append(out, c12Pkg([]byte{0x10}, g.width(), nm, g.objects(sub, depth+1))...)
		case k == 10 || k == 11: // OpRegion + Field
			r := g.seg()
			out = append(out, c12Cat([]byte{0x5b, 0x80}, []byte(r), []byte{byte(g.rng.Intn(10))}, g.constant(), g.constant())...)
			out = append(out, c12Pkg([]byte{0x5b, 0x81}, g.width(), []byte(r), []byte{byte(g.rng.Intn(128))}, g.fieldList())...)
		case k == 12: // IndexField / BankField
			if g.rng.Intn(2) == 0 {
				out = append(out, c12Pkg([]byte{0x5b, 0x86}, g.width(), []byte(g.seg()), []byte(g.seg()), []byte{byte(g.rng.Intn(128))}, g.fieldList())...)
			} else {
				out = append(out, c12Pkg([]byte{0x5b, 0x87}, g.width(), []byte(g.seg()), []byte(g.seg()), g.constant(), []byte{byte(g.rng.Intn(128))}, g.fieldList())...)
			}
		case k == 13:
			nm, _ := g.declName(cur)
			if g.rng.Intn(2) == 0 {
				out = append(out, c12Cat([]byte{0x5b, 0x01}, nm, []byte{byte(g.rng.Intn(16))})...) // Mutex
			} else {
				out = append(out, c12Cat([]byte{0x5b, 0x02}, nm)...) // Event
			}
		case k == 14:
			out = append(out, c12Cat([]byte{0x06}, g.refName(), c12NameBytes(false, 0, []string{g.seg()}))...) // Alias
		default:
			out = append(out, g.stmts(1)...) // load-time executable code
		}
	}
	return out
}

// c12Program returns one generated well-formed program of roughly `size` objects.
func c12Program(seed int64, size int) []byte {
	return c12ProgramOf(seed, size, -1, -1)
}

// c12ProgramOf forces the kind of the first top-level object and of the first field element, so
// that a small set of seeds shows every construct of the generator's grammar.
func c12ProgramOf(seed int64, size, obj, field int) []byte {
	if seed < 0 {
		seed = -seed
	}
	g := &c12Gen{rng: rand.New(rand.NewSource(seed)), names: c12Segs[:3+int(seed%5)], budget: size, forceObj: obj, forceField: field}
	return g.objects(nil, 0)
}

// ---------------------------------------------------------------- splitting the shipped tables into fragments

func c12DecodePkgLen(b []byte, i int) (val, width int, ok bool) {
	if i >= len(b) {
		return 0, 0, false
	}
	width = int(b[i]>>6) + 1
	if i+width > len(b) {
		return 0, 0, false
	}
	if width == 1 {
		return int(b[i]), 1, true
	}
	val = int(b[i] & 0xf)
	for k := 1; k < width; k++ {
		val |= int(b[i+k]) << (4 + 8*(k-1))
	}
	return val, width, true
}

func c12SkipName(b []byte, i int) (int, bool) {
	for i < len(b) && (b[i] == '\\' || b[i] == '^') {
		i++
	}
	if i >= len(b) {
		return 0, false
	}
	n := 4
	switch b[i] {
	case 0:
		return i + 1, true
	case 0x2e:
		i, n = i+1, 8
	case 0x2f:
		if i+1 >= len(b) {
			return 0, false
		}
		i, n = i+2, 4*int(b[i+1])
	default:
		if !(b[i] == '_' || (b[i] >= 'A' && b[i] <= 'Z')) {
			return 0, false
		}
	}
	if i+n > len(b) {
		return 0, false
	}
	return i + n, true
}

// c12SkipObject returns the end of the object starting at b[i], and for scoped objects the start of
// its nested term list (0 if none).  ok=false when the walker does not know the construct.
func c12SkipObject(b []byte, i int) (end, body int, ok bool) {
	if i >= len(b) {
		return 0, 0, false
	}
	op := int(b[i])
	j := i + 1
	if op == 0x5b {
		if j >= len(b) {
			return 0, 0, false
		}
		op = 0x5b00 | int(b[j])
		j++
	}
	term := func(k int) (int, bool) { e, _, ok := c12SkipObject(b, k); return e, ok }
	switch op {
	case 0x00, 0x01, 0xff, 0xa3, 0xa5, 0x9f, 0xcc, 0x5b30, 0x5b31, 0x5b33:
		return j, 0, true
	case 0x60, 0x61, 0x62, 0x63, 0x64, 0x65, 0x66, 0x67, 0x68, 0x69, 0x6a, 0x6b, 0x6c, 0x6d, 0x6e:
		return j, 0, true
	case 0x0a:
		return j + 1, 0, j+1 <= len(b)
	case 0x0b:
		return j + 2, 0, j+2 <= len(b)
	case 0x0c:
		return j + 4, 0, j+4 <= len(b)
	case 0x0e:
		return j + 8, 0, j+8 <= len(b)
	case 0x0d:
		for j < len(b) && b[j] != 0 {
			j++
		}
		return j + 1, 0, j < len(b)
	case 0x08: // Name
		k, ok := c12SkipName(b, j)
		if !ok {
			return 0, 0, false
		}
		e, ok := term(k)
		return e, 0, ok
	case 0x06: // Alias
		k, ok := c12SkipName(b, j)
		if !ok {
			return 0, 0, false
		}
		e, ok := c12SkipName(b, k)
		return e, 0, ok
	case 0x10, 0x14, 0x5b82, 0x5b83, 0x5b84, 0x5b85: // scoped, with a term list
		v, w, ok := c12DecodePkgLen(b, j)
		if !ok || j+v > len(b) || v < w {
			return 0, 0, false
		}
		k, ok := c12SkipName(b, j+w)
		if !ok {
			return 0, 0, false
		}
		switch op {
		case 0x14:
			k++
		case 0x5b83:
			k += 6
		case 0x5b84:
			k += 3
		}
		if k > j+v {
			return 0, 0, false
		}
		return j + v, k, true
	case 0x11, 0x12, 0x13, 0xa0, 0xa1, 0xa2, 0x5b81, 0x5b86, 0x5b87:
		v, w, ok := c12DecodePkgLen(b, j)
		if !ok || j+v > len(b) || v < w {
			return 0, 0, false
		}
		return j + v, 0, true
	case 0x5b80: // OpRegion name space offset len
		k, ok := c12SkipName(b, j)
		if !ok {
			return 0, 0, false
		}
		k++
		if k, ok = term(k); !ok {
			return 0, 0, false
		}
		e, ok := term(k)
		return e, 0, ok
	case 0x5b01:
		k, ok := c12SkipName(b, j)
		return k + 1, 0, ok && k+1 <= len(b)
	case 0x5b02, 0x5b24, 0x5b26, 0x5b27:
		k, ok := c12SkipName(b, j)
		return k, 0, ok
	case 0x5b88:
		k, ok := c12SkipName(b, j)
		for n := 0; ok && n < 3; n++ {
			k, ok = term(k)
		}
		return k, 0, ok
	case 0x70: // Store(term, supername)
		k, ok := term(j)
		if !ok {
			return 0, 0, false
		}
		e, ok := term(k)
		return e, 0, ok
	case 0xa4, 0x75, 0x76: // Return/Increment/Decrement
		e, ok := term(j)
		return e, 0, ok
	}
	if k, ok := c12SkipName(b, i); ok && b[i] != 0 {
		return k, 0, true
	}
	return 0, 0, false
}

// c12Fragments cuts aml into its objects, recursively through scoped objects.
func c12Fragments(aml []byte, minLen, maxLen int, out map[string][]byte) {
	for i := 0; i < len(aml); {
		end, body, ok := c12SkipObject(aml, i)
		if !ok || end <= i || end > len(aml) {
			return
		}
		if n := end - i; n >= minLen && n <= maxLen {
			out[string(aml[i:end])] = aml[i:end]
		}
		if body > 0 && body < end {
			c12Fragments(aml[body:end], minLen, maxLen, out)
		}
		i = end
	}
}

var c12Tables = []string{"parser-testsuite-DSDT", "SSDT", "DSDT"}

// TestVerifC12Seeds writes the candidate seed programs of the mutation plans (C12_SEEDS_OUT):
// generated programs and fragments of the shipped tables, as {name, b: [bytes]}.
func TestVerifC12Seeds(t *testing.T) {
	outPath := os.Getenv("C12_SEEDS_OUT")
	if outPath == "" {
		t.Skip("C12_SEEDS_OUT not set")
	}
	seed, _ := strconv.ParseInt(os.Getenv("VERIF_SEED"), 10, 64)
	nGen, _ := strconv.Atoi(os.Getenv("C12_NGEN"))
	maxLen, _ := strconv.Atoi(os.Getenv("C12_MAXLEN"))
	if maxLen == 0 {
		maxLen = 96
	}
	f, err := os.Create(outPath)
	if err != nil {
		t.Fatal(err)
	}
	defer f.Close()
	enc := json.NewEncoder(f)
	emit := func(name string, b []byte) {
		ints := make([]int, len(b))
		for i, v := range b {
			ints[i] = int(v)
		}
		_ = enc.Encode(map[string]interface{}{"name": name, "b": ints})
	}
	if os.Getenv("C12_SEEDS_TABLES") != "" {
		// the two small shipped tables as whole seeds (every truncation and bit flip: AmlRobustPlansTab.cfg)
		for _, tb := range c12Tables[:2] {
			aml, err := c12Fixture(tb)
			if err != nil {
				t.Fatal(err)
			}
			emit("table:"+tb, aml)
		}
		return
	}
	seen := map[string]bool{}
	// directed seeds: a package-bearing object (Buffer / Package) in the TermArg position of another
	// package-bearing construct, so that the PkgLength plans cover "inner package ends after the outer one"
	for i, p := range c12DirectedSeeds() {
		seen[string(p)] = true
		emit(fmt.Sprintf("dir#%d", i), p)
	}
	for i, tries := 0, 0; i < nGen && tries < 100*nGen; tries++ {
		p := c12ProgramOf(seed*1000003+int64(tries), 1+tries%4, tries%16, (tries/16)%10)
		if len(p) < 6 || len(p) > maxLen || seen[string(p)] {
			continue
		}
		seen[string(p)] = true
		emit(fmt.Sprintf("gen%d.%d", seed, tries), p)
		i++
	}
	for _, tb := range c12Tables {
		aml, err := c12Fixture(tb)
		if err != nil {
			t.Fatal(err)
		}
		frags := map[string][]byte{}
		c12Fragments(aml, 6, maxLen, frags)
		keys := make([]string, 0, len(frags))
		for k := range frags {
			keys = append(keys, k)
		}
		sort.Strings(keys)
		for i, k := range keys {
			if !seen[k] {
				seen[k] = true
				emit(fmt.Sprintf("%s#%d", tb, i), frags[k])
			}
		}
	}
}

func c12DirectedSeeds() [][]byte {
	nm := func(n string, v []byte) []byte { return c12Cat([]byte{0x08}, []byte(n), v) }
	buf := func(size []byte, data ...byte) []byte { return c12Pkg([]byte{0x11}, 1, size, data) }
	pkg := func(n byte, els ...[]byte) []byte { return c12Pkg([]byte{0x12}, 1, []byte{n}, c12Cat(els...)) }
	meth := func(n string, body ...[]byte) []byte {
		return c12Pkg([]byte{0x14}, 1, []byte(n), []byte{0}, c12Cat(body...))
	}
	one, tail := []byte{0x01}, nm("A001", []byte{0x01})
	inner := buf([]byte{0x0a, 2}, 0, 1)
	// Every construct that stores a byte list, string, name or buffer in the tree, placed so that it
	// ends with the LAST byte of the table: the plans over its length / size / count operands then
	// cover "declares a few bytes more than are there" exactly where more means behind the table.
	opr := func(n string) []byte {
		return c12Cat([]byte{0x5b, 0x80}, []byte(n), []byte{0x09, 0x00, 0x0b, 0x00, 0x01})
	}
	field := func(n string, els ...[]byte) []byte {
		return c12Pkg([]byte{0x5b, 0x81}, 1, []byte(n), []byte{0x05}, c12Cat(els...))
	}
	conn := func(b []byte) []byte { return c12Cat([]byte{0x02}, b) }
	unit := func(n string) []byte { return c12Cat([]byte(n), []byte{0x08}) }
	str := func(v string) []byte { return c12Cat([]byte{0x0d}, []byte(v), []byte{0}) }
	atEnd := [][]byte{
		// Connection(Buffer) as the last field element, size operand as byte / word / dword, 1- and 2-byte PkgLength
		c12Cat(opr("TOP1"), field("TOP1", unit("FLD0"), conn(buf([]byte{0x0a, 4}, 1, 2, 3, 4)))),
		c12Cat(opr("TOP1"), field("TOP1", conn(buf([]byte{0x0b, 3, 0}, 1, 2, 3)))),
		c12Cat(opr("TOP1"), field("TOP1", conn(buf([]byte{0x0c, 2, 0, 0, 0}, 1, 2)))),
		c12Cat(opr("TOP1"), field("TOP1", conn(c12Pkg([]byte{0x11}, 2, []byte{0x0a, 5}, []byte{1, 2, 3, 4, 5})))),
		c12Cat(opr("TOP1"), c12Pkg([]byte{0x5b, 0x86}, 1, []byte("TOP1"), []byte("IDX0"), []byte{0x05}, conn(buf([]byte{0x0a, 2}, 8, 9)))),                  // IndexField
		c12Cat(opr("TOP1"), c12Pkg([]byte{0x5b, 0x87}, 1, []byte("TOP1"), []byte("BNK0"), []byte{0x0a, 0}, []byte{0x05}, conn(buf([]byte{0x0a, 2}, 8, 9)))), // BankField
		// the other field elements last: Connection(name), named unit, reserved, access, extended access (with its access length)
		c12Cat(opr("TOP1"), field("TOP1", unit("FLD0"), conn([]byte("SDB0")))),
		c12Cat(opr("TOP1"), field("TOP1", conn([]byte("SDB0")), unit("FLD1"))),
		c12Cat(opr("TOP1"), field("TOP1", unit("FLD0"), []byte{0x00, 0x10})),
		c12Cat(opr("TOP1"), field("TOP1", unit("FLD0"), []byte{0x01, 0x05, 0x0a})),
		c12Cat(opr("TOP1"), field("TOP1", unit("FLD0"), []byte{0x03, 0x05, 0x0b, 0x04})),
		// Buffer / String / Package / name as the last term of the table
		nm("BUF3", buf([]byte{0x0a, 3}, 1, 2, 3)),
		nm("BUF4", buf([]byte{0x0b, 2, 0}, 1, 2)),
		nm("BUF5", c12Pkg([]byte{0x11}, 2, []byte{0x0a, 4}, []byte{1, 2, 3, 4})),
		nm("STR0", str("ABC")),
		nm("PKG1", pkg(2, str("AB"), buf([]byte{0x0a, 2}, 1, 2))),
		nm("PKG2", pkg(1, []byte("A001"))),
		c12Cat(tail, []byte{0x06}, []byte("A001"), []byte("A002")),                                                              // Alias: a NameString ends the table
		c12Cat(tail, []byte{0x08, 0x2e}, []byte("A001"), []byte("A003"), one),                                                   // dual name path
		meth("M002", []byte{0xa4}, buf([]byte{0x0a, 2}, 1, 2)),                                                                  // Return(Buffer) ends the table
		meth("M003", []byte{0x70}, str("XY"), []byte{0x60}, []byte{0xa4}, str("Z")),                                             // Return("Z")
		c12Cat(opr("TOP1"), []byte{0x5b, 0x88}, []byte("REG0"), str("FOOF"), str("BAR"), str("BAZ")),                            // DataTableRegion strings
		c12Cat([]byte{0x5b, 0x82}, c12PkgLen(4+len(nm("_HID", str("PNP0A03"))), 1), []byte("DEV0"), nm("_HID", str("PNP0A03"))), // string last inside a Device
	}
	// Path-prefixed declarations over the name alphabet {A___, B___} next to scoped objects of the same
	// names, one character away from "the path leads back into the object itself" (the complete family
	// is enumerated by TLC: specs/aml/AmlRobustShapes.tla): seeds for the single-mutation plans.
	a, b := []byte("A___"), []byte("B___")
	dev := func(n []byte, body ...[]byte) []byte { return c12Pkg([]byte{0x5b, 0x82}, 1, n, c12Cat(body...)) }
	atEnd = append(atEnd,
		c12Cat([]byte{0x08, 0x2f, 0x03}, b, b, a, dev(b)),                                       // Name(B.B.A) adopting Device(B)
		c12Cat([]byte{0x5b, 0x80, 0x2f, 0x03}, a, b, a, []byte{0x00}, dev(a), []byte{1}),        // OperationRegion(A.B.A) adopting Device(A)
		c12Cat(dev(a, dev(b)), c12Pkg([]byte{0x14}, 1, []byte{0x2f, 0x03}, a, b, b, []byte{0})), // Method(A.B.B) into a grandchild scope
		c12Cat(dev(a), c12Pkg([]byte{0x5b, 0x82}, 1, []byte{'\\', 0x2e}, a, b)),                 // Device(\A.B) into a sibling's scope
		c12Cat([]byte{0x5b, 0x01, 0x2e}, a, b, []byte{0}, dev(b)),                               // Mutex(A.B) then Device(B)
	)
	// PkgLength encodings of three and four bytes (legal for any length) on every package-bearing kind
	atEnd = append(atEnd,
		c12Pkg([]byte{0x10}, 3, []byte("\\_SB_"), nm("A001", one)),
		c12Pkg([]byte{0x14}, 4, []byte("M004"), []byte{0}, []byte{0xa4, 0x01}),
		nm("BUF6", c12Pkg([]byte{0x11}, 3, []byte{0x0a, 2}, []byte{1, 2})),
		nm("PKG3", c12Pkg([]byte{0x12}, 4, []byte{1}, one)),
		c12Cat(opr("TOP1"), c12Pkg([]byte{0x5b, 0x81}, 3, []byte("TOP1"), []byte{0x05}, conn(c12Pkg([]byte{0x11}, 4, []byte{0x0a, 2}, []byte{8, 9})))),
		c12Pkg([]byte{0x5b, 0x82}, 2, []byte("DEV1"), c12Pkg([]byte{0x14}, 3, []byte("M005"), []byte{0}, c12Pkg([]byte{0xa0}, 4, one, []byte{0xa4, 0x01}))),
	)
	return append(atEnd, [][]byte{
		c12Cat(nm("BUF0", buf(inner, 1)), tail),
		c12Cat(nm("BUF1", buf(pkg(1, buf([]byte{0x0a, 1}, 7)), 2, 3)), tail),
		c12Cat(nm("PKG0", c12Pkg([]byte{0x13}, 1, inner, one)), tail),
		c12Cat(meth("M000", c12Pkg([]byte{0xa0}, 1, buf([]byte{0x0a, 1}, 1), []byte{0xa4, 0x01})), tail),
		c12Cat(meth("M001", c12Pkg([]byte{0xa2}, 1, pkg(1, one), []byte{0xa5})), tail),
		c12Cat(nm("BUF2", buf(c12Cat([]byte{0x72}, buf([]byte{0x0a, 1}, 1), one, []byte{0x60}), 9)), tail),
	}...)
}

// ---------------------------------------------------------------- leg T: seeded random driver

var c12Vocabulary = [][]byte{
	{0x10}, {0x14}, {0x08}, {0x06}, {0x11}, {0x12}, {0x13}, {0x70}, {0xa0}, {0xa1}, {0xa2}, {0xa4}, {0x72}, {0x93}, {0x86}, {0x87}, {0x8a},
	{0x5b, 0x80}, {0x5b, 0x81}, {0x5b, 0x82}, {0x5b, 0x83}, {0x5b, 0x84}, {0x5b, 0x85}, {0x5b, 0x86}, {0x5b, 0x87}, {0x5b, 0x01}, {0x5b, 0x02}, {0x5b, 0x88},
	{0x00}, {0x01}, {0x02}, {0x03}, {0xff}, {0x0a}, {0x0b}, {0x0c}, {0x0d}, {0x0e}, {0x2e}, {0x2f}, {'\\'}, {'^'}, {0x60}, {0x68},
	[]byte("A000"), []byte("A001"), []byte("B000"), []byte("_SB_"), []byte("A000A000"), {0x2e, 'A', '0', '0', '0', 'A', '0', '0', '0'},
}

func c12Soup(rng *rand.Rand, maxLen int) []byte {
	var b []byte
	for n := 1 + rng.Intn(12); n > 0 && len(b) < maxLen; n-- {
		switch rng.Intn(6) {
		case 0:
			b = append(b, byte(rng.Intn(256)))
		case 1:
			b = append(b, byte(rng.Intn(0x40))) // small PkgLength / small constant
		default:
			b = append(b, c12Vocabulary[rng.Intn(len(c12Vocabulary))]...)
		}
	}
	return b
}

// c12Mutate applies one random mutation of the five kinds of AmlRobust.tla to b.
func c12Mutate(rng *rand.Rand, b []byte, donor []byte) ([]byte, string) {
	out := append([]byte{}, b...)
	if len(out) == 0 {
		return []byte{byte(rng.Intn(256))}, "SetByte"
	}
	switch rng.Intn(5) {
	case 0:
		k := rng.Intn(len(out))
		return out[:k], "Truncate(" + strconv.Itoa(k) + ")"
	case 1:
		i, bit := rng.Intn(len(out)), rng.Intn(8)
		out[i] ^= 1 << bit
		return out, fmt.Sprintf("FlipBit(%d,%d)", i, bit)
	case 2:
		i, v := rng.Intn(len(out)), byte(rng.Intn(256))
		switch rng.Intn(3) {
		case 0:
			v = c12Vocabulary[rng.Intn(len(c12Vocabulary))][0]
		case 1: // a length / size / count that is off by a few
			v = out[i] + byte(1+rng.Intn(3))
			if rng.Intn(2) == 0 {
				v = out[i] - byte(1+rng.Intn(3))
			}
		}
		out[i] = v
		return out, fmt.Sprintf("SetByte(%d,%d)", i, v)
	case 3: // CorruptPkgLen: pick a position that decodes as a plausible PkgLength after a package opcode
		var sites []int
		for i := 0; i+1 < len(out); i++ {
			switch out[i] {
			case 0x10, 0x11, 0x12, 0x13, 0x14, 0xa0, 0xa1, 0xa2, 0x81, 0x82, 0x83, 0x84, 0x85, 0x86, 0x87:
				if v, _, ok := c12DecodePkgLen(out, i+1); ok && i+1+v <= len(out) {
					sites = append(sites, i+1)
				}
			}
		}
		if len(sites) == 0 {
			i := rng.Intn(len(out))
			out[i] = byte(rng.Intn(256))
			return out, fmt.Sprintf("SetByte(%d,%d)", i, out[i])
		}
		s := sites[rng.Intn(len(sites))]
		v, w, _ := c12DecodePkgLen(out, s)
		nv := v + []int{-3, -2, -1, 1, 2, 3, 16, 255, 4096, -v, 1 << 27}[rng.Intn(11)]
		if nv < 0 {
			nv = 0
		}
		if w == 1 {
			out[s] = byte(nv & 0x3f)
		} else {
			out[s] = out[s]&0xc0 | byte(nv&0xf)
			for k := 1; k < w; k++ {
				out[s+k] = byte(nv >> (4 + 8*(k-1)))
			}
		}
		return out, fmt.Sprintf("CorruptPkgLen(%d,%d)", s, nv-v)
	default: // Splice: insert a piece of the donor
		if len(donor) == 0 {
			donor = b
		}
		i, j := rng.Intn(len(out)+1), rng.Intn(len(donor))
		k := 1 + rng.Intn(16)
		if j+k > len(donor) {
			k = len(donor) - j
		}
		res := append(append(append([]byte{}, out[:i]...), donor[j:j+k]...), out[i:]...)
		return res, fmt.Sprintf("Splice(%d,%d,%d)", i, j, k)
	}
}

// c12Generate builds the inputs of leg T.  kind "small": random bytes, token soups and mutated
// generated programs; kind "tables": stacked random mutations of the three shipped tables.
func c12Generate(kind string, seed int64, n int) ([]*c12Input, error) {
	rng := rand.New(rand.NewSource(seed*7919 + int64(len(kind))))
	var ins []*c12Input
	add := func(src string, pre []string, b []byte) {
		in := &c12Input{ID: fmt.Sprintf("%s%d.%d", kind[:1], seed, len(ins)+1), Src: src, Pre: pre, Hex: hex.EncodeToString(b), data: b}
		// every fifth case goes on with a pristine table on the same parser (the SSDT only needs the default \_PR_ scope)
		if len(ins)%5 == 4 {
			in.Post = []string{"SSDT"}
			in.Src += " then SSDT"
		}
		ins = append(ins, in)
	}
	var fixtures [][]byte
	for _, tb := range c12Tables {
		b, err := c12Fixture(tb)
		if err != nil {
			return nil, err
		}
		fixtures = append(fixtures, b)
	}
	switch kind {
	case "small":
		for i := 0; i < n; i++ {
			switch i % 4 {
			case 0:
				n := rng.Intn(49)
				if i%64 == 0 { // arbitrary bytes come in every length: now and then a long string
					n = 49 + rng.Intn(4048)
				}
				b := make([]byte, n)
				rng.Read(b)
				add("random-bytes", nil, b)
			case 1:
				add("token-soup", nil, c12Soup(rng, 96))
			default:
				p := c12Program(rng.Int63(), 3+rng.Intn(30))
				src := "gen"
				for m := 1 + rng.Intn(3); m > 0; m-- {
					var what string
					p, what = c12Mutate(rng, p, fixtures[0])
					src += "+" + what
				}
				if len(p) > 4096 {
					p = p[:4096]
				}
				add(src, nil, p)
			}
		}
	case "tables":
		for i := 0; i < n; i++ {
			k := []int{0, 0, 0, 1, 1, 2}[i%6] // DSDT events are big: take fewer of them
			b := fixtures[k]
			src := c12Tables[k]
			var pre []string
			if c12Tables[k] == "SSDT" {
				pre = []string{"DSDT"}
			}
			for m := 1 + rng.Intn(3); m > 0; m-- {
				var what string
				b, what = c12Mutate(rng, b, fixtures[rng.Intn(len(fixtures))])
				src += "+" + what
			}
			add(src, pre, b)
		}
	case "scale":
		// n = largest size in bytes.  Long and deep inputs: the bound on time (and stack) is proportional
		// to the input, so the property is about every size, not only about what fits a small seed.
		for _, c := range c12Scale(n) {
			ins = append(ins, &c12Input{ID: fmt.Sprintf("z%d.%d", seed, len(ins)+1), Src: c.name, Hex: hex.EncodeToString(c.b), data: c.b})
		}
		// tables shorter than their own header: every length from the end of the length field on
		for l := 8; l <= c12HeaderLen; l++ {
			ins = append(ins, &c12Input{ID: fmt.Sprintf("z%d.%d", seed, len(ins)+1), Src: fmt.Sprintf("header only, %d bytes", l), Short: l, data: []byte{}})
		}
	case "sweep":
		// n = stride.  Every n-th truncation point of the big shipped table (phase = seed mod n; the two
		// small tables are swept completely by TLC, see AmlRobustPlansTab.cfg)
		if n < 1 {
			n = 1
		}
		b := fixtures[2]
		for k := int(seed % int64(n)); k < len(b); k += n {
			ins = append(ins, &c12Input{ID: fmt.Sprintf("w%d.%d", seed, len(ins)+1), Src: fmt.Sprintf("DSDT+Truncate(%d)", k), Hex: hex.EncodeToString(b[:k]), data: b[:k]})
		}
	default:
		return nil, fmt.Errorf("unknown C12_GEN %q", kind)
	}
	return ins, nil
}

type c12Named struct {
	name string
	b    []byte
}

// c12Nest wraps leaf into depth packages op PkgLength hdr(i) ...
func c12Nest(op []byte, hdr func(int) []byte, depth int, leaf []byte) []byte {
	b := leaf
	for i := 0; i < depth; i++ {
		b = c12Pkg(op, 1, hdr(i), b)
	}
	return b
}

// c12Scale builds long, deep and wide programs of up to max bytes: chains of one-byte operators
// (every byte one more nesting level), deeply nested packages of every scoped kind, long sibling
// lists, long names, strings and buffers.
func c12Scale(max int) []c12Named {
	var out []c12Named
	rep := func(b byte, n int) []byte {
		r := make([]byte, n)
		for i := range r {
			r[i] = b
		}
		return r
	}
	name4 := func(p byte, i int) []byte { return []byte(fmt.Sprintf("%c%03X", p, i%4096)) }
	var sizes []int
	for _, n := range []int{64, 1024, 8192, 65536, 1 << 20} {
		if n <= max {
			sizes = append(sizes, n)
		}
	}
	for _, n := range sizes {
		add := func(name string, parts ...[]byte) {
			out = append(out, c12Named{fmt.Sprintf("%s x%d", name, n), c12Cat(parts...)})
		}
		add("Store(One,RefOf(RefOf(..)))", []byte{0x70, 0x01}, rep(0x71, n), []byte{0x60})
		add("Store(DerefOf(DerefOf(..)))", []byte{0x70}, rep(0x83, n), []byte{0x60, 0x60})
		add("Increment(Increment(..))", rep(0x75, n), []byte{0x60})
		add("SizeOf(SizeOf(..))", rep(0x87, n), []byte{0x60})
		add("LNot(LNot(..))", rep(0x92, n), []byte{0x60})
		add("Add(Add(..))", rep(0x72, n/3), rep(0x60, 2*(n/3)+1))
		add("Noop list", rep(0xa3, n))
		add("Ones list", rep(0xff, n))
		var names, same, scopes, calls []byte
		for i := 0; i < n/6; i++ {
			names = append(names, c12Cat([]byte{0x08}, name4('N', i), []byte{0x01})...)
			same = append(same, 0x08, 'A', 'A', 'A', 'A', 0x01)
		}
		for i := 0; i < n/7; i++ {
			scopes = append(scopes, 0x10, 0x06, '\\', '_', 'S', 'B', '_')
			calls = append(calls, 'M', 'T', 'H', '1')
		}
		add("Name list", names)
		add("Name list, one name", same)
		add("Scope(\\_SB_){} list", scopes)
		add("MTH1(MTH1(..))", []byte{0x14, 0x08, 'M', 'T', 'H', '1', 0x01, 0xa4, 0x68}, calls, []byte{0x01})
		add("long string", []byte{0x08, 'S', 'T', 'R', '0', 0x0d}, rep('A', n), []byte{0})
		add("long buffer", []byte{0x08, 'B', 'U', 'F', '0'}, c12Pkg([]byte{0x11}, 1, []byte{0x0a, 4}, rep(7, n)))
		add("carets", []byte{0x08}, rep('^', n), []byte("AAAA"), []byte{1})
		var units []byte
		for i := 0; i < n/5; i++ {
			units = append(units, c12Cat(name4('F', i), []byte{8})...)
		}
		add("Field with many units", []byte{0x5b, 0x80, 'R', 'E', 'G', '0', 0, 0x0a, 0, 0x0a, 0x10}, c12Pkg([]byte{0x5b, 0x81}, 1, []byte("REG0"), []byte{1}, units))
		d := n / 8
		add("nested Scope", c12Nest([]byte{0x10}, func(int) []byte { return []byte("\\_SB_") }, d, nil))
		add("nested Device", c12Nest([]byte{0x5b, 0x82}, func(i int) []byte { return name4('D', i) }, d, nil))
		add("nested Device, one name", c12Nest([]byte{0x5b, 0x82}, func(int) []byte { return []byte("DEV0") }, d, nil))
		add("nested Method", c12Nest([]byte{0x14}, func(i int) []byte { return append(name4('M', i), 0) }, d, nil))
		add("nested If", c12Pkg([]byte{0x14}, 1, []byte("MTH0"), []byte{0}, c12Nest([]byte{0xa0}, func(int) []byte { return []byte{0x01} }, d, nil)))
		add("nested While", c12Pkg([]byte{0x14}, 1, []byte("MTH0"), []byte{0}, c12Nest([]byte{0xa2}, func(int) []byte { return []byte{0x01} }, d, nil)))
		add("nested Package", []byte{0x08, 'P', 'K', 'G', '0'}, c12Nest([]byte{0x12}, func(int) []byte { return []byte{0x01} }, d, nil))
		add("nested Buffer size", []byte{0x08, 'B', 'U', 'F', '0'}, c12Nest([]byte{0x11}, func(int) []byte { return nil }, d, []byte{0x0a, 0x01}))
	}
	segs := 255
	var path []byte
	for i := 0; i < segs; i++ {
		path = append(path, 'A', 'A', 'A', 'A')
	}
	out = append(out, c12Named{"multi-name path, 255 segments", c12Cat([]byte{0x08, 0x2f, byte(segs)}, path, []byte{1})})
	return out
}
