//go:build verif
// +build verif

package aml

// Conformance harness for C13 (namespace tree well-formedness and path lookup).
//
// It contains no oracle.  It (a) executes scripts of tree-editing operations
// and lookups on the REAL ObjectTree (scripts come from the TLC-generated
// transition graph / tree enumeration, or from a replay file), or (b) runs a
// seeded random driver that chooses legal operations by inspecting the real
// tree, and logs one ndjson event per call: the inputs, the returned value and
// - at checkpoints - the projection of the whole object pool (all link fields
// of all slots plus the child lists the API enumerates).  Every event is
// judged by the TLA+ monitor specs/aml/ObjTreeTrace.tla.
//
// Indices are logged 1-based (index+1); InvalidIndex is 0; an index outside
// the pool is -1 (so that TLC's JSON reader never sees a value >= 2^31).

import (
	"bufio"
	"encoding/json"
	"math/rand"
	"os"
	"strconv"
	"testing"
)

type c13Log struct {
	w   *bufio.Writer
	buf []byte
}

func c13NewLog(t *testing.T, path string) (*c13Log, func()) {
	f, err := os.Create(path)
	if err != nil {
		t.Fatal(err)
	}
	l := &c13Log{w: bufio.NewWriterSize(f, 1<<20)}
	return l, func() {
		if err := l.w.Flush(); err != nil {
			t.Fatal(err)
		}
		if err := f.Close(); err != nil {
			t.Fatal(err)
		}
	}
}

func (l *c13Log) str(s string)       { l.buf = append(l.buf, s...) }
func (l *c13Log) num(v int)          { l.buf = strconv.AppendInt(l.buf, int64(v), 10) }
func (l *c13Log) kv(k string, v int) { l.str(`,"`); l.str(k); l.str(`":`); l.num(v) }
func (l *c13Log) ints(k string, v []int) {
	l.str(`,"`)
	l.str(k)
	l.str(`":`)
	l.arr(v)
}
func (l *c13Log) arr(v []int) {
	l.buf = append(l.buf, '[')
	for i, x := range v {
		if i > 0 {
			l.buf = append(l.buf, ',')
		}
		l.num(x)
	}
	l.buf = append(l.buf, ']')
}
func (l *c13Log) bytes(k string, v []byte) {
	l.str(`,"`)
	l.str(k)
	l.str(`":[`)
	for i, x := range v {
		if i > 0 {
			l.buf = append(l.buf, ',')
		}
		l.num(int(x))
	}
	l.buf = append(l.buf, ']')
}
func (l *c13Log) begin(kind string) { l.buf = l.buf[:0]; l.str(`{"k":"`); l.str(kind); l.str(`"`) }
func (l *c13Log) res(ok bool) {
	if ok {
		l.str(`,"res":"ok"`)
	} else {
		l.str(`,"res":"panic"`)
	}
}
func (l *c13Log) end() { l.str("}\n"); _, _ = l.w.Write(l.buf) }

// c13Ix maps a real index to the logged 1-based form.
func c13Ix(tree *ObjectTree, v uint32) int {
	if v == InvalidIndex {
		return 0
	}
	if v >= uint32(len(tree.objPool)) {
		return -1
	}
	return int(v) + 1
}

// c13State appends the projection of the whole pool as field "st".
func (l *c13Log) state(tree *ObjectTree) {
	n := len(tree.objPool)
	fr, par, prev, next, first, last, na := make([]int, n), make([]int, n), make([]int, n), make([]int, n), make([]int, n), make([]int, n), make([]int, n)
	for i, o := range tree.objPool {
		next[i] = c13Ix(tree, o.nextSiblingIndex)
		if o.opcode == pOpIntFreedObject {
			fr[i] = 1
			continue
		}
		par[i], prev[i] = c13Ix(tree, o.parentIndex), c13Ix(tree, o.prevSiblingIndex)
		first[i], last[i] = c13Ix(tree, o.firstArgIndex), c13Ix(tree, o.lastArgIndex)
	}
	l.str(`,"st":{"n":`)
	l.num(n)
	l.kv("fh", c13Ix(tree, tree.freeListHeadIndex))
	l.ints("fr", fr)
	l.ints("par", par)
	l.ints("prev", prev)
	l.ints("next", next)
	l.ints("first", first)
	l.ints("last", last)
	l.str(`,"nm":[`)
	for i, o := range tree.objPool {
		if i > 0 {
			l.str(",")
		}
		if fr[i] == 1 {
			l.str("[0,0,0,0]")
		} else {
			l.arr([]int{int(o.name[0]), int(o.name[1]), int(o.name[2]), int(o.name[3])})
		}
	}
	// the child lists as the exported API enumerates them
	l.str(`],"kids":[`)
	for i, o := range tree.objPool {
		if i > 0 {
			l.str(",")
		}
		if fr[i] == 1 {
			l.str("[]")
			continue
		}
		kids, ended := c13ApiKids(tree, o)
		l.arr(kids)
		na[i] = -1
		if ended {
			func() {
				defer func() {
					if recover() != nil {
						na[i] = -1
					}
				}()
				na[i] = int(tree.NumArgs(o))
			}()
		}
	}
	l.str("]")
	l.ints("na", na)
	l.str("}")
}

// c13ApiKids enumerates obj's children with ArgAt; the walk is bounded by the
// pool size so that it ends on a corrupted (cyclic) list too.
func c13ApiKids(tree *ObjectTree, obj *Object) (kids []int, ended bool) {
	kids = []int{}
	defer func() {
		if recover() != nil {
			kids, ended = []int{-1}, false
		}
	}()
	for i := 0; i <= len(tree.objPool); i++ {
		a := tree.ArgAt(obj, uint32(i))
		if a == nil {
			return kids, true
		}
		kids = append(kids, c13Ix(tree, a.index))
	}
	return []int{-1}, false
}

func c13Name(v []int) (nm [amlNameLen]byte) {
	for i := 0; i < amlNameLen && i < len(v); i++ {
		nm[i] = byte(v[i])
	}
	return nm
}

// ---- the operations: call the real code, recover panics, log the event ----

// c13Opcode is the opcode given to the next created objects (the tree operations must not depend on it).
var c13Opcode = pOpIntScopeBlock

func (l *c13Log) opNew(tree *ObjectTree, named bool, nm [amlNameLen]byte, withState bool) (idx int) {
	ok := true
	func() {
		defer func() {
			if recover() != nil {
				ok = false
			}
		}()
		var o *Object
		if named {
			o = tree.newNamedObject(c13Opcode, 0, nm)
		} else {
			o = tree.newObject(c13Opcode, 0)
		}
		idx = c13Ix(tree, o.index)
	}()
	l.begin("new")
	if named {
		l.kv("named", 1)
		l.ints("nm", []int{int(nm[0]), int(nm[1]), int(nm[2]), int(nm[3])})
	} else {
		l.kv("named", 0)
		l.ints("nm", []int{})
	}
	l.kv("r", idx)
	l.kv("n", len(tree.objPool))
	l.res(ok)
	if withState {
		l.state(tree)
	}
	l.end()
	return idx
}

func (l *c13Log) opEdit(tree *ObjectTree, kind string, p, c, a, o int, withState bool) {
	ok := true
	func() {
		defer func() {
			if recover() != nil {
				ok = false
			}
		}()
		obj := func(i int) *Object { return tree.objPool[i-1] }
		switch kind {
		case "app":
			tree.append(obj(p), obj(c))
		case "aft":
			tree.appendAfter(obj(p), obj(c), obj(a))
		case "det":
			tree.detach(obj(p), obj(c))
		case "free":
			tree.free(obj(o))
		default:
			panic("c13: unknown op " + kind)
		}
	}()
	l.begin(kind)
	switch kind {
	case "app", "det":
		l.kv("p", p)
		l.kv("c", c)
	case "aft":
		l.kv("p", p)
		l.kv("c", c)
		l.kv("a", a)
	case "free":
		l.kv("o", o)
		l.kv("pa", c13Ix(tree, tree.objPool[o-1].parentIndex)) // o's parent after the call (0 for a freed slot too)
	}
	l.res(ok)
	if withState {
		l.state(tree)
	}
	l.end()
}

// opBulk runs CreateDefaultScopes on the (empty) pool and records the resulting pool.
func (l *c13Log) opBulk(tree *ObjectTree, handle uint8) {
	ok := true
	func() {
		defer func() {
			if recover() != nil {
				ok = false
			}
		}()
		tree.CreateDefaultScopes(handle)
	}()
	l.begin("bulk")
	l.res(ok)
	l.state(tree)
	l.end()
}

func (l *c13Log) opCheckpoint(tree *ObjectTree) {
	l.begin("ck")
	l.res(true)
	l.state(tree)
	l.end()
}

func (l *c13Log) opFind(tree *ObjectTree, scope int, expr []byte) {
	ok, r := true, 0
	func() {
		defer func() {
			if recover() != nil {
				ok = false
			}
		}()
		r = c13Ix(tree, tree.Find(uint32(scope-1), expr))
	}()
	l.begin("find")
	l.kv("s", scope)
	l.bytes("x", expr)
	l.kv("r", r)
	l.res(ok)
	l.end()
}

func (l *c13Log) reset(why string) {
	l.begin("reset")
	if why != "" {
		l.str(`,"why":"` + why + `"`)
	}
	l.end()
}

// c13WalksEnd reports whether every sibling list and every parent chain of the real pool ends within
// len(pool) steps.  Find has no bound of its own: on a cyclic list (a broken tree, which the checkpoint
// just recorded shows to the monitor) it would never return, so lookups are only issued when this holds.
func c13WalksEnd(tree *ObjectTree) bool {
	n := len(tree.objPool)
	for _, o := range tree.objPool {
		if o.opcode == pOpIntFreedObject {
			continue
		}
		steps := 0
		for i := o.firstArgIndex; i != InvalidIndex; i = tree.objPool[i].nextSiblingIndex {
			if steps++; steps > n || i >= uint32(n) {
				return false
			}
		}
		steps = 0
		for i := o.parentIndex; i != InvalidIndex; i = tree.objPool[i].parentIndex {
			if steps++; steps > n || i >= uint32(n) {
				return false
			}
		}
	}
	return true
}

// c13LiveSlots lists every live slot (nodes of the tree and of detached subtrees).
func c13LiveSlots(tree *ObjectTree) (out []int) {
	for i := range tree.objPool {
		if tree.ObjectAt(uint32(i)) != nil {
			out = append(out, i+1)
		}
	}
	return out
}

// c13Reachable lists the slots reachable from the root (slot 1) through the exported API.
func c13Reachable(tree *ObjectTree) []int {
	root := tree.ObjectAt(0)
	if root == nil {
		return nil
	}
	out, queue := []int{1}, []*Object{root}
	for len(queue) > 0 && len(out) <= len(tree.objPool) {
		o := queue[0]
		queue = queue[1:]
		kids, _ := c13ApiKids(tree, o)
		for _, k := range kids {
			if k > 0 && len(out) <= len(tree.objPool) {
				out = append(out, k)
				queue = append(queue, tree.objPool[k-1])
			}
		}
	}
	return out
}

// ---- script mode (leg G and replay) ----

type c13Op struct {
	K     string `json:"k"`
	P     int    `json:"p"`
	C     int    `json:"c"`
	A     int    `json:"a"`
	O     int    `json:"o"`
	R     int    `json:"r"` // new: the slot the refinement model expects (0: none); used only to stop a script that no longer applies
	Named int    `json:"named"`
	Nm    []int  `json:"nm"`
	S     int    `json:"s"`
	X     []int  `json:"x"`
}

type c13Script struct {
	Exprs   [][]int `json:"exprs"`   // a line that only defines the expression set used by "findall"
	Ops     []c13Op `json:"ops"`     // edits (k = new/app/aft/det/free/ck) and lookups (k = find)
	St      int     `json:"st"`      // log the pool projection after every St-th edit (0: never)
	FindAll int     `json:"findall"` // after the ops: every expression of the set from every live object and from InvalidIndex
}

func c13Bytes(v []int) []byte {
	b := make([]byte, len(v))
	for i, x := range v {
		b[i] = byte(x)
	}
	return b
}

func (l *c13Log) runScript(sc *c13Script, exprs [][]byte) {
	tree := NewObjectTree()
	edits := 0
	inPool := func(is ...int) bool {
		for _, i := range is {
			if i < 1 || i > len(tree.objPool) {
				return false
			}
		}
		return true
	}
	for _, op := range sc.Ops {
		withState := false
		if op.K != "find" && op.K != "ck" {
			edits++
			withState = sc.St > 0 && edits%sc.St == 0
		}
		switch op.K {
		case "new":
			idx := l.opNew(tree, op.Named == 1, c13Name(op.Nm), withState)
			if op.R != 0 && idx != op.R {
				// the script was derived from a model with a particular slot-reuse policy; the
				// real tree chose another slot, so the remaining steps do not apply
				l.reset("script-diverged")
				return
			}
		case "app", "det":
			if !inPool(op.P, op.C) {
				l.reset("script-diverged")
				return
			}
			l.opEdit(tree, op.K, op.P, op.C, 0, 0, withState)
		case "aft":
			if !inPool(op.P, op.C, op.A) {
				l.reset("script-diverged")
				return
			}
			l.opEdit(tree, op.K, op.P, op.C, op.A, 0, withState)
		case "free":
			if !inPool(op.O) {
				l.reset("script-diverged")
				return
			}
			l.opEdit(tree, op.K, 0, 0, 0, op.O, withState)
		case "ck":
			l.opCheckpoint(tree)
		case "bulk":
			l.opBulk(tree, 7)
		case "find":
			if c13WalksEnd(tree) {
				l.opFind(tree, op.S, c13Bytes(op.X))
			}
		}
	}
	if sc.FindAll == 1 {
		l.opCheckpoint(tree)
		if !c13WalksEnd(tree) {
			l.reset("")
			return
		}
		// from every live object (tree nodes and nodes of detached subtrees) and from InvalidIndex (scope 0)
		for _, s := range append([]int{0}, c13LiveSlots(tree)...) {
			for _, x := range exprs {
				l.opFind(tree, s, x)
			}
		}
	}
	l.reset("")
}

func TestVerifC13Scripts(t *testing.T) {
	in, err := os.Open(os.Getenv("C13_SCRIPTS"))
	if err != nil {
		t.Fatal(err)
	}
	defer in.Close()
	l, done := c13NewLog(t, os.Getenv("C13_TRACE"))
	defer done()
	var exprs [][]byte
	sc := bufio.NewScanner(in)
	sc.Buffer(make([]byte, 1<<20), 1<<28)
	n := 0
	for sc.Scan() {
		if len(sc.Bytes()) == 0 {
			continue
		}
		var s c13Script
		if err := json.Unmarshal(sc.Bytes(), &s); err != nil {
			t.Fatalf("script line %d: %v", n+1, err)
		}
		if s.Exprs != nil {
			exprs = exprs[:0]
			for _, x := range s.Exprs {
				exprs = append(exprs, c13Bytes(x))
			}
			continue
		}
		l.runScript(&s, exprs)
		n++
	}
	if err := sc.Err(); err != nil {
		t.Fatal(err)
	}
	t.Logf("c13: %d scripts", n)
}

// ---- random mode (leg T) ----

var c13BaseNames = [][amlNameLen]byte{
	{'A', '_', '_', '_'}, {'B', '_', '_', '_'}, {'C', '_', '_', '_'}, {'_', 'S', 'B', '_'}, {'P', 'C', 'I', '0'},
	{'A', '1', '_', '_'}, {'X', '9', 'Z', '_'}, {'_', '_', '_', '_'}, {'_', 'T', '_', '0'}, {'Z', 'Z', 'Z', 'Z'},
}

var c13Opcodes = []uint16{pOpIntScopeBlock, pOpIntScopeBlock, pOpDevice, pOpMethod, pOpName, pOpScope, pOpPackage, pOpProcessor, pOpThermalZone, pOpIf, pOpAdd}

// c13NameOf returns the i-th name of an unbounded pool of valid NameSegs.
func c13NameOf(i int) [amlNameLen]byte {
	if i < len(c13BaseNames) {
		return c13BaseNames[i]
	}
	const lead = "ABCDEFGHIJKLMNOPQRSTUVWXYZ_"
	const rest = "ABCDEFGHIJKLMNOPQRSTUVWXYZ_0123456789"
	k := i - len(c13BaseNames)
	return [amlNameLen]byte{lead[k%len(lead)], rest[(k/27)%len(rest)], rest[(k/999)%len(rest)], rest[(k*7)%len(rest)]}
}

const (
	c13KindRandom = iota // attach anywhere
	c13KindWide          // most nodes go under a few hubs: scopes with 100+ children
	c13KindDeep          // most nodes go under the deepest node: long chains
	c13KindSmall
	c13KindBulk // starts from CreateDefaultScopes
	c13NKinds
)

type c13Driver struct {
	l      *c13Log
	rng    *rand.Rand
	tree   *ObjectTree
	kind   int
	nNames int
}

func (d *c13Driver) live() (all, detached, attached []int) {
	for i, o := range d.tree.objPool {
		if o.opcode == pOpIntFreedObject {
			continue
		}
		all = append(all, i+1)
		if i == 0 {
			continue
		}
		if o.parentIndex == InvalidIndex {
			detached = append(detached, i+1)
		} else {
			attached = append(attached, i+1)
		}
	}
	return
}

func (d *c13Driver) obj(i int) *Object { return d.tree.objPool[i-1] }
func (d *c13Driver) pick(v []int) int  { return v[d.rng.Intn(len(v))] }
func (d *c13Driver) name() [amlNameLen]byte {
	return c13NameOf(d.rng.Intn(d.nNames))
}

// depth counts the ancestors of i (bounded walk over the real parent links).
func (d *c13Driver) depth(i int) (n int) {
	for i = c13Ix(d.tree, d.obj(i).parentIndex); i > 0 && n <= len(d.tree.objPool); i = c13Ix(d.tree, d.obj(i).parentIndex) {
		n++
	}
	return n
}

// isAncestorOrSelf reports whether a is p or an ancestor of p.
func (d *c13Driver) isAncestorOrSelf(a, p int) bool {
	for steps := 0; p > 0 && steps <= len(d.tree.objPool); steps++ {
		if p == a {
			return true
		}
		p = c13Ix(d.tree, d.obj(p).parentIndex)
	}
	return false
}

// nameClash reports whether p already has a child carrying c's name.
func (d *c13Driver) nameClash(p, c int) bool {
	nm := d.obj(c).name
	if nm[0] == 0 {
		return false
	}
	kids, _ := c13ApiKids(d.tree, d.obj(p))
	for _, k := range kids {
		if k > 0 && d.obj(k).name == nm {
			return true
		}
	}
	return false
}

// parentFor chooses where the next node is attached, according to the shape this tree is meant to get.
func (d *c13Driver) parentFor(all, attached []int) int {
	switch {
	case d.kind == c13KindWide && d.rng.Intn(20) < 17:
		hubs := []int{1}
		if len(attached) > 0 {
			hubs = append(hubs, attached[0])
		}
		if len(attached) > 3 {
			hubs = append(hubs, attached[3])
		}
		return d.pick(hubs)
	case d.kind == c13KindDeep && d.rng.Intn(20) < 17:
		best, bd := 1, 0
		for _, c := range c13Reachable(d.tree) {
			if dc := d.depth(c); dc > bd {
				best, bd = c, dc
			}
		}
		return best
	case d.rng.Intn(3) == 0 && len(attached) > 0:
		return d.pick(attached)
	}
	return d.pick(all)
}

// step performs one random operation whose preconditions hold on the real tree; grow biases towards a bigger tree.
func (d *c13Driver) step(maxObj int, grow bool) {
	all, detached, attached := d.live()
	for try := 0; try < 20; try++ {
		r := d.rng.Intn(100)
		switch {
		case r < 30: // new
			if len(all) >= maxObj || len(detached) > 6 {
				continue
			}
			c13Opcode = c13Opcodes[d.rng.Intn(len(c13Opcodes))]
			if d.rng.Intn(5) == 0 {
				d.l.opNew(d.tree, false, [amlNameLen]byte{}, false)
			} else {
				d.l.opNew(d.tree, true, d.name(), false)
			}
			return
		case r < 60: // append / appendAfter a detached node (possibly a whole subtree)
			if len(detached) == 0 {
				continue
			}
			c, p := d.pick(detached), d.parentFor(all, attached)
			if d.isAncestorOrSelf(c, p) {
				continue
			}
			if d.nameClash(p, c) && d.rng.Intn(10) > 0 { // now and then a scope gets two children of one name
				continue
			}
			kids, _ := c13ApiKids(d.tree, d.obj(p))
			if len(kids) > 0 && d.rng.Intn(2) == 0 {
				d.l.opEdit(d.tree, "aft", p, c, d.pick(kids), 0, false)
			} else {
				d.l.opEdit(d.tree, "app", p, c, 0, 0, false)
			}
			return
		case r < 80: // detach
			if len(attached) == 0 || (grow && r < 72) {
				continue
			}
			c := d.pick(attached)
			d.l.opEdit(d.tree, "det", c13Ix(d.tree, d.obj(c).parentIndex), c, 0, 0, false)
			return
		default: // free
			if grow && r < 92 {
				continue
			}
			var leaves, inner []int
			for _, i := range all {
				if o := d.obj(i); o.firstArgIndex == InvalidIndex && o.lastArgIndex == InvalidIndex {
					if i != 1 {
						leaves = append(leaves, i)
					}
				} else {
					inner = append(inner, i)
				}
			}
			if len(inner) > 0 && d.rng.Intn(12) == 0 { // an object that still has children: the API refuses
				d.l.opEdit(d.tree, "free", 0, 0, 0, d.pick(inner), false)
				return
			}
			if len(leaves) == 0 {
				continue
			}
			d.l.opEdit(d.tree, "free", 0, 0, 0, d.pick(leaves), false)
			return
		}
	}
}

// path returns the names from ancestor a (exclusive) down to node t (inclusive); ok=false if a is not an ancestor of t.
func (d *c13Driver) path(a, t int) (segs [][amlNameLen]byte, ok bool) {
	for steps := 0; t != a; steps++ {
		if t <= 0 || steps > len(d.tree.objPool) {
			return nil, false
		}
		segs = append([][amlNameLen]byte{d.obj(t).name}, segs...)
		t = c13Ix(d.tree, d.obj(t).parentIndex)
	}
	return segs, true
}

// randomExpr builds a lookup expression; most are aimed at an existing node so that all
// resolution rules produce hits as well as misses.
func (d *c13Driver) randomExpr(scope int, reach []int) []byte {
	rng := d.rng
	var prefix []byte
	var segs [][amlNameLen]byte
	target := d.pick(reach)
	switch rng.Intn(10) {
	case 0, 1, 2: // absolute path of the target
		prefix = []byte{'\\'}
		segs, _ = d.path(1, target)
	case 3, 4: // '^'-relative: up k levels, then down to the target if it lives there
		k := 1 + rng.Intn(4)
		if rng.Intn(5) == 0 {
			k = rng.Intn(d.depth(scope) + 3)
		}
		a := scope
		for i := 0; i < k && a > 0; i++ {
			prefix = append(prefix, '^')
			a = c13Ix(d.tree, d.obj(a).parentIndex)
		}
		if rng.Intn(4) == 0 {
			prefix = append(prefix, '^', '^')
		}
		if s, ok := d.path(a, target); ok && a > 0 {
			segs = s
		} else if rng.Intn(2) == 0 {
			segs = [][amlNameLen]byte{d.name()}
		}
	case 5, 6: // relative multi-segment path below the scope
		if s, ok := d.path(scope, target); ok {
			segs = s
		} else {
			segs, _ = d.path(1, target)
			if len(segs) > 2 {
				segs = segs[len(segs)-2:]
			}
		}
	case 7, 8: // single segment: the target's own name (found iff an enclosing scope holds it)
		segs = [][amlNameLen]byte{d.obj(target).name}
	default: // random names
		for n := rng.Intn(4); n > 0; n-- {
			segs = append(segs, d.name())
		}
	}
	if len(segs) > 255 { // SegCount is one byte; longer paths only exist in the joined form
		if rng.Intn(2) == 0 {
			segs = segs[:255]
		}
	}
	if rng.Intn(12) == 0 && len(segs) > 0 { // perturb one segment
		segs[rng.Intn(len(segs))] = d.name()
	}
	if rng.Intn(15) == 0 && len(segs) > 1 { // drop the last segment
		segs = segs[:len(segs)-1]
	}
	x := append([]byte{}, prefix...)
	switch form := rng.Intn(10); {
	case len(segs) == 2 && form < 6:
		x = append(x, 0x2e)
	case len(segs) >= 1 && len(segs) <= 255 && (form < 5 || (len(segs) > 2 && form < 8)):
		cnt := len(segs)
		if rng.Intn(25) == 0 {
			cnt = rng.Intn(256) // SegCount that does not match
		}
		x = append(x, 0x2f, byte(cnt))
	}
	// now and then a dual/multi-name prefix item sits in front of later segments too (it is stepped over)
	embed := rng.Intn(8) == 0
	for i, s := range segs {
		if embed && i > 0 && rng.Intn(3) > 0 {
			switch rng.Intn(4) {
			case 0, 1:
				x = append(x, 0x2e)
			case 2:
				x = append(x, 0x2f, byte(len(segs)-i))
			default:
				x = append(x, 0x2f, []byte{0, 1, 2, 9, 48, 64, 65, 95, 96, 255}[rng.Intn(10)])
			}
		}
		x = append(x, s[:]...)
	}
	if embed && rng.Intn(6) == 0 { // a trailing item: no name follows
		x = append(x, [][]byte{{0x2e}, {0x2f}, {0x2f, 1}}[rng.Intn(3)]...)
	}
	switch rng.Intn(40) {
	case 0, 1, 2: // too-short: cut 1..3 bytes off the end
		if cut := 1 + rng.Intn(3); len(x) >= cut {
			x = x[:len(x)-cut]
		}
	case 3: // stray byte somewhere
		if len(x) > 0 {
			x[rng.Intn(len(x))] = byte(rng.Intn(256))
		}
	case 4: // trailing garbage
		x = append(x, byte(rng.Intn(256)))
	case 5:
		x = append(x, 0)
	case 6, 7: // the prefixes followed by a dual/multi-name prefix byte and no name at all
		x = append([]byte{}, prefix...)
		switch rng.Intn(3) {
		case 0:
			x = append(x, 0x2e)
		case 1:
			x = append(x, 0x2f)
		default:
			x = append(x, 0x2f, []byte{0, 1, 2, 65, byte(rng.Intn(256))}[rng.Intn(5)])
		}
	case 8: // a prefix after a prefix
		x = append([]byte{"\\^"[rng.Intn(2)]}, x...)
	}
	return x
}

// lookups runs n random lookups: mostly from nodes of the tree, some from nodes of detached subtrees,
// a few from InvalidIndex.  They need a live root in slot 1 (absolute paths start there).
func (d *c13Driver) lookups(n int) {
	if root := d.tree.ObjectAt(0); root == nil || root.parentIndex != InvalidIndex || !c13WalksEnd(d.tree) {
		return
	}
	reach, all := c13Reachable(d.tree), c13LiveSlots(d.tree)
	for q := 0; q < n; q++ {
		scope := d.pick(reach)
		switch r := d.rng.Intn(50); {
		case r == 0:
			d.l.opFind(d.tree, 0, d.randomExpr(1, reach))
			continue
		case r < 5:
			scope = d.pick(all)
		}
		d.l.opFind(d.tree, scope, d.randomExpr(scope, reach))
	}
}

func TestVerifC13Random(t *testing.T) {
	seed, _ := strconv.ParseInt(os.Getenv("VERIF_SEED"), 10, 64)
	nTrees, _ := strconv.Atoi(os.Getenv("C13_NTREES"))
	nLookups, _ := strconv.Atoi(os.Getenv("C13_NLOOKUPS"))
	maxObjAll, _ := strconv.Atoi(os.Getenv("C13_MAXOBJ"))
	if maxObjAll == 0 {
		maxObjAll = 300
	}
	l, done := c13NewLog(t, os.Getenv("C13_TRACE_T"))
	defer done()
	defer func() { c13Opcode = pOpIntScopeBlock }()
	for ti := 0; ti < nTrees; ti++ {
		rng := rand.New(rand.NewSource(seed*1000003 + int64(ti)))
		d := &c13Driver{l: l, rng: rng, tree: NewObjectTree(), kind: ti % c13NKinds, nNames: len(c13BaseNames)}
		maxObj := maxObjAll
		switch d.kind {
		case c13KindWide:
			d.nNames = 400
		case c13KindDeep:
			d.nNames = 40
		case c13KindSmall, c13KindBulk:
			maxObj = 8 + rng.Intn(maxObjAll-7)
		}
		if d.kind == c13KindBulk {
			l.opBulk(d.tree, uint8(rng.Intn(256)))
		} else {
			l.opNew(d.tree, true, [amlNameLen]byte{'\\'}, false)
		}
		nOps := maxObj*6 + rng.Intn(maxObj*2)
		every := 25 + rng.Intn(50)
		for i := 1; i <= nOps; i++ {
			d.step(maxObj, i < nOps*2/3 || rng.Intn(3) > 0)
			if i%every == 0 {
				l.opCheckpoint(d.tree)
				d.lookups(12) // lookups interleaved with the edits
			}
		}
		// bring most detached subtrees back so that the final lookups run on a large namespace
		_, detached, _ := d.live()
		for _, c := range detached {
			if rng.Intn(8) == 0 {
				continue
			}
			for try := 0; try < 5; try++ {
				p := d.parentFor(c13Reachable(d.tree), nil)
				if d.isAncestorOrSelf(c, p) || (d.nameClash(p, c) && try < 4) {
					continue
				}
				l.opEdit(d.tree, "app", p, c, 0, 0, false)
				break
			}
		}
		l.opCheckpoint(d.tree)
		d.lookups(nLookups)
		l.reset("")
	}
}
