//go:build verif
// +build verif

package aml

// C12 harness (malformed AML).  No oracle lives here.  The file
//   - places each input table flush against a PROT_NONE guard page,
//   - runs the REAL Parser.ParseAML / ObjectTree.PrettyPrint on it inside a child process
//     (bounded stack, CPU-time and heap watchdog; a dead child is pinned to the single input
//     through begin markers and re-run alone),
//   - projects the resulting tree into link arrays and [table, offset, length] triples of every
//     byte slice stored in the tree, and
//   - writes one ndjson event per input.
// Whether an event is acceptable is decided by TLC with specs/aml/AmlRobustTrace.tla.

import (
	"bufio"
	"bytes"
	"encoding/hex"
	"encoding/json"
	"fmt"
	"io"
	"os"
	"os/exec"
	"path/filepath"
	"reflect"
	"runtime"
	"runtime/debug"
	"runtime/metrics"
	"strconv"
	"strings"
	"sync"
	"sync/atomic"
	"syscall"
	"testing"
	"time"
	"unsafe"

	"github.com/ProjectSerenity/firefly/kernel/device/acpi/table"
)

const (
	c12HeaderLen   = int(unsafe.Sizeof(table.SDTHeader{}))
	c12StackLimit  = 32 << 20   // per started 8 KiB of input, like the CPU budget; never above Go's own default maximum
	c12StackMax    = 1000000000 // runtime default maximum stack size on 64-bit systems
	c12HeapLimit   = 3 << 30    // bytes of live heap objects: far beyond anything proportional to a table of a few KiB
	c12CPUQuantum  = 8192       // CPU budget is c12CPUPerQuant for every started 8 KiB of input
	c12CPUPerQuant = 5 * time.Second
)

// ---------------------------------------------------------------- inputs

// c12Input is one case: Pre names pristine shipped tables that are parsed first (table numbers
// 0..len(Pre)-1), B is the AML byte code (without the 36-byte SDT header) of the table under test,
// Post names pristine shipped tables presented to the same parser afterwards, whatever the outcome.
type c12Input struct {
	ID   string   `json:"id"`
	Src  string   `json:"src,omitempty"`
	Pre  []string `json:"pre,omitempty"`
	Post []string `json:"post,omitempty"`
	// Short > 0: the table under test is shorter than an SDT header; it consists of the first Short
	// bytes of a header whose length field says Short (Short >= 8, the length field itself is present)
	Short int             `json:"short,omitempty"`
	Hex   string          `json:"hex,omitempty"`
	B     []int           `json:"b,omitempty"`
	Plan  json.RawMessage `json:"plan,omitempty"`
	Seed  json.RawMessage `json:"seed,omitempty"`
	data  []byte
}

func (in *c12Input) bytes() []byte {
	if in.data != nil {
		return in.data
	}
	if in.Hex != "" || len(in.B) == 0 {
		in.data, _ = hex.DecodeString(in.Hex)
		if in.data == nil {
			in.data = []byte{}
		}
		return in.data
	}
	in.data = make([]byte, len(in.B))
	for i, v := range in.B {
		in.data[i] = byte(v)
	}
	return in.data
}

func c12ReadInputs(path string) ([]*c12Input, error) {
	f, err := os.Open(path)
	if err != nil {
		return nil, err
	}
	defer f.Close()
	var out []*c12Input
	sc := bufio.NewScanner(f)
	sc.Buffer(make([]byte, 1<<22), 1<<26)
	n := 0
	for sc.Scan() {
		line := bytes.TrimSpace(sc.Bytes())
		if len(line) == 0 {
			continue
		}
		// TLC's CSVWrite of ToJson(..) yields plain JSON or a JSON string literal holding JSON
		if line[0] == '"' {
			var s string
			if err := json.Unmarshal(line, &s); err != nil {
				return nil, fmt.Errorf("bad case line %d: %v", n+1, err)
			}
			line = []byte(s)
		}
		in := &c12Input{}
		if err := json.Unmarshal(line, in); err != nil {
			return nil, fmt.Errorf("bad case line %d: %v", n+1, err)
		}
		n++
		if in.ID == "" {
			in.ID = "c" + strconv.Itoa(n)
		}
		out = append(out, in)
	}
	return out, sc.Err()
}

// ---------------------------------------------------------------- guarded table memory

// c12Guarded is an anonymous mapping whose last page is PROT_NONE; tables are copied so that their
// last byte is the last accessible byte.
type c12Guarded struct {
	mem  []byte
	page int
}

func c12NewGuarded(capacity int) (*c12Guarded, error) {
	page := syscall.Getpagesize()
	n := (capacity + page - 1) / page * page
	mem, err := syscall.Mmap(-1, 0, n+page, syscall.PROT_READ|syscall.PROT_WRITE, syscall.MAP_ANON|syscall.MAP_PRIVATE)
	if err != nil {
		return nil, err
	}
	if err := syscall.Mprotect(mem[n:], syscall.PROT_NONE); err != nil {
		return nil, err
	}
	return &c12Guarded{mem: mem[:n], page: page}, nil
}

// place copies header+aml to the end of the accessible area and returns the table's base address.
// short > 0 presents only the first short bytes of the header (its length field says so).
func (g *c12Guarded) place(aml []byte, sig string, short int) (uintptr, int) {
	total := c12HeaderLen + len(aml)
	if short > 0 {
		var full [c12HeaderLen]byte
		h := (*table.SDTHeader)(unsafe.Pointer(&full[0]))
		copy(h.Signature[:], sig)
		h.Length = uint32(short)
		h.Revision = 2
		start := len(g.mem) - short
		copy(g.mem[start:], full[:short])
		return uintptr(unsafe.Pointer(&g.mem[start])), short
	}
	start := len(g.mem) - total
	for i := 0; i < start; i++ { // poison what lies below the table
		g.mem[i] = 0xA5
	}
	tbl := g.mem[start:]
	for i := range tbl[:c12HeaderLen] {
		tbl[i] = 0
	}
	copy(tbl[c12HeaderLen:], aml)
	h := (*table.SDTHeader)(unsafe.Pointer(&tbl[0]))
	copy(h.Signature[:], sig)
	h.Length = uint32(total)
	h.Revision = 2
	return uintptr(unsafe.Pointer(&tbl[0])), total
}

func (g *c12Guarded) release() { _ = syscall.Munmap(g.mem[:len(g.mem)+g.page]) }

// ---------------------------------------------------------------- event + projection

func c12Limbs(v uint64) [4]int {
	return [4]int{int(v >> 48 & 0xffff), int(v >> 32 & 0xffff), int(v >> 16 & 0xffff), int(v & 0xffff)}
}

type c12Event struct {
	K     string          `json:"k"`
	ID    string          `json:"id"`
	Src   string          `json:"src,omitempty"`
	N     int             `json:"n"`   // AML bytes of the table under test
	TL    []int           `json:"TL"`  // total length (header included) of every table parsed, in order
	Res   string          `json:"res"` // ok | error | panic | fatal | timeout | memout
	Msg   string          `json:"msg"`
	CPU   int             `json:"cpu"`   // CPU milliseconds consumed by ParseAML of all tables of the case
	PP    int             `json:"pp"`    // 1 PrettyPrint returned, 0 it panicked, -1 not attempted (no tree to print)
	PPMsg string          `json:"ppmsg"` //
	L     [][6]int        `json:"L"`     // per pool slot: [freed, parent, prev, next, first, last], -1 = no link
	S     [][]interface{} `json:"S"`     // per []byte held by a live object: [slot, table, off(4 limbs), len(4 limbs)]
	Alone int             `json:"alone"` // 1 when the outcome was reproduced with the input alone in a fresh process
	Pre   []string        `json:"pre,omitempty"`
	Post  []string        `json:"post,omitempty"`
	Short int             `json:"short,omitempty"`
	Hex   string          `json:"hex"`
	Plan  json.RawMessage `json:"plan,omitempty"`
	Seed  json.RawMessage `json:"seed,omitempty"`
}

func c12Idx(i uint32) int {
	if i == InvalidIndex {
		return -1
	}
	return int(i)
}

// c12Project copies the link fields of every pool slot and the location of every byte slice.
// bases[t] is the address of table number t.
func c12Project(tree *ObjectTree, bases []uintptr, ev *c12Event) {
	ev.L = make([][6]int, len(tree.objPool))
	ev.S = [][]interface{}{}
	for i, o := range tree.objPool {
		freed := 0
		if o.opcode == pOpIntFreedObject {
			freed = 1
		}
		ev.L[i] = [6]int{freed, c12Idx(o.parentIndex), c12Idx(o.prevSiblingIndex), c12Idx(o.nextSiblingIndex), c12Idx(o.firstArgIndex), c12Idx(o.lastArgIndex)}
		if freed == 1 {
			continue
		}
		if b, ok := o.value.([]byte); ok {
			var base uintptr
			if int(o.tableHandle) < len(bases) {
				base = bases[o.tableHandle]
			}
			ptr := (*reflect.SliceHeader)(unsafe.Pointer(&b)).Data
			ev.S = append(ev.S, []interface{}{i, int(o.tableHandle), c12Limbs(uint64(ptr - base)), c12Limbs(uint64(len(b)))})
		}
	}
}

var c12Fixtures sync.Map

func c12Fixture(name string) ([]byte, error) {
	if v, ok := c12Fixtures.Load(name); ok {
		return v.([]byte), nil
	}
	raw, err := os.ReadFile(filepath.Join("..", "table", "tabletest", name+".aml"))
	if err != nil {
		return nil, err
	}
	if len(raw) < c12HeaderLen {
		return nil, fmt.Errorf("fixture %s too short", name)
	}
	c12Fixtures.Store(name, raw[c12HeaderLen:])
	return raw[c12HeaderLen:], nil
}

func c12CPUNow() time.Duration {
	var ru syscall.Rusage
	_ = syscall.Getrusage(syscall.RUSAGE_SELF, &ru)
	return time.Duration(ru.Utime.Nano() + ru.Stime.Nano())
}

func c12Budget(n int) time.Duration {
	q := (n + c12CPUQuantum - 1) / c12CPUQuantum
	if q < 1 {
		q = 1
	}
	return time.Duration(q) * c12CPUPerQuant
}

// c12PanicText renders a recovered panic and the innermost frame of the package under test
// (diagnostic only; call it from the deferred function that recovered).
// c12StackBudget is the stack the parser may use for total bytes of input: proportional to the
// input (32 MiB for every started 8 KiB), capped at what the Go runtime grants by default.
func c12StackBudget(total int) int {
	q := (total + c12CPUQuantum - 1) / c12CPUQuantum
	if q < 1 {
		q = 1
	}
	if q > c12StackMax/c12StackLimit {
		return c12StackMax
	}
	return q * c12StackLimit
}

func c12PanicText(r interface{}) string {
	s := fmt.Sprint(r)
	if len(s) > 200 {
		s = s[:200]
	}
	pcs := make([]uintptr, 64)
	frames := runtime.CallersFrames(pcs[:runtime.Callers(2, pcs)])
	for {
		f, more := frames.Next()
		if strings.Contains(f.Function, "/acpi/aml.") && !strings.Contains(f.File, "zz_verif_") && !strings.Contains(f.Function, "c12") {
			return s + " at " + filepath.Base(f.File) + ":" + strconv.Itoa(f.Line)
		}
		if !more {
			return s
		}
	}
}

// c12RunOne parses the case with the real parser and fills in the event.  It recovers panics
// (including memory faults on the guard page); fatal errors and overruns are the parent's business.
func c12RunOne(in *c12Input, ev *c12Event) {
	aml := in.bytes()
	ev.K, ev.ID, ev.Src, ev.N, ev.Pre, ev.Post, ev.Plan, ev.Seed, ev.Short = "parse", in.ID, in.Src, len(aml), in.Pre, in.Post, in.Plan, in.Seed, in.Short
	ev.Hex = hex.EncodeToString(aml)
	ev.PP, ev.L, ev.S, ev.TL = -1, [][6]int{}, [][]interface{}{}, []int{}

	var tables [][]byte
	for _, p := range in.Pre {
		b, err := c12Fixture(p)
		if err != nil {
			panic("c12: cannot load fixture " + p + ": " + err.Error())
		}
		tables = append(tables, b)
	}
	tables = append(tables, aml)
	for _, p := range in.Post {
		b, err := c12Fixture(p)
		if err != nil {
			panic("c12: cannot load fixture " + p + ": " + err.Error())
		}
		tables = append(tables, b)
	}
	var guards []*c12Guarded
	var bases []uintptr
	defer func() {
		for _, g := range guards {
			g.release()
		}
	}()
	for i, tb := range tables {
		g, err := c12NewGuarded(c12HeaderLen + len(tb))
		if err != nil {
			panic("c12: mmap: " + err.Error())
		}
		guards = append(guards, g)
		sig := "SSDT"
		if i == 0 {
			sig = "DSDT"
		}
		short := 0
		if i == len(in.Pre) {
			short = in.Short
		}
		base, total := g.place(tb, sig, short)
		bases = append(bases, base)
		ev.TL = append(ev.TL, total)
	}

	tree := NewObjectTree()
	tree.CreateDefaultScopes(42)
	parser := NewParser(io.Discard, tree)
	start := c12CPUNow()
	func() {
		defer func() {
			if r := recover(); r != nil {
				ev.Res, ev.Msg = "panic", c12PanicText(r)
			}
		}()
		ev.Res = "ok"
		for i := range tables {
			// a rejected table does not end the case: the tables after it are presented to the same parser
			if err := parser.ParseAML(uint8(i), "T"+strconv.Itoa(i), (*table.SDTHeader)(unsafe.Pointer(bases[i]))); err != nil {
				ev.Res = "error"
				ev.Msg += "table " + strconv.Itoa(i) + ": " + err.Message + "; "
			}
		}
	}()
	ev.CPU = int((c12CPUNow() - start) / time.Millisecond)
	if ev.Res == "panic" {
		return
	}
	c12Project(tree, bases, ev)
	func() {
		defer func() {
			if r := recover(); r != nil {
				ev.PP, ev.PPMsg = 0, c12PanicText(r)
			}
		}()
		tree.PrettyPrint(io.Discard)
		ev.PP = 1
	}()
}

// ---------------------------------------------------------------- child process

type c12Begin struct {
	K  string `json:"k"`
	ID string `json:"id"`
}

type c12Current struct {
	in     *c12Input
	start  time.Duration
	budget time.Duration
}

// TestVerifC12Child runs a batch of inputs (C12_IN) and appends one begin marker and one event per
// input to C12_OUT.  It only runs as a child of TestVerifC12Run.
func TestVerifC12Child(t *testing.T) {
	if os.Getenv("C12_CHILD") != "1" {
		t.Skip("child entry point")
	}
	debug.SetMaxStack(c12StackLimit)
	debug.SetPanicOnFault(true)
	debug.SetGCPercent(400)
	ins, err := c12ReadInputs(os.Getenv("C12_IN"))
	if err != nil {
		t.Fatal(err)
	}
	out, err := os.OpenFile(os.Getenv("C12_OUT"), os.O_CREATE|os.O_WRONLY|os.O_APPEND, 0644)
	if err != nil {
		t.Fatal(err)
	}
	defer out.Close()
	var mu sync.Mutex
	write := func(v interface{}) {
		b, _ := json.Marshal(v)
		b = append(b, '\n')
		mu.Lock()
		_, _ = out.Write(b)
		mu.Unlock()
	}
	var cur atomic.Value // *c12Current (nil pointer while idle)
	cur.Store((*c12Current)(nil))
	// watchdog: CPU time and heap of the input being parsed
	go func() {
		sample := []metrics.Sample{{Name: "/memory/classes/heap/objects:bytes"}}
		for {
			time.Sleep(20 * time.Millisecond)
			c := cur.Load().(*c12Current)
			if c == nil {
				continue
			}
			used := c12CPUNow() - c.start
			metrics.Read(sample)
			heap := sample[0].Value.Uint64()
			if used <= c.budget && heap <= c12HeapLimit {
				continue
			}
			if cur.Load().(*c12Current) != c {
				continue
			}
			ev := &c12Event{K: "parse", ID: c.in.ID, Src: c.in.Src, N: len(c.in.bytes()), TL: []int{}, PP: -1, L: [][6]int{}, S: [][]interface{}{},
				Hex: hex.EncodeToString(c.in.bytes()), Pre: c.in.Pre, Post: c.in.Post, Short: c.in.Short, Plan: c.in.Plan, Seed: c.in.Seed, CPU: int(used / time.Millisecond)}
			if used > c.budget {
				ev.Res, ev.Msg = "timeout", fmt.Sprintf("still running after %d ms CPU (budget %d ms for %d bytes)", used/time.Millisecond, c.budget/time.Millisecond, ev.N)
			} else {
				ev.Res, ev.Msg = "memout", fmt.Sprintf("%d MiB of live heap for %d bytes of input", heap>>20, ev.N)
			}
			write(ev)
			os.Exit(3)
		}
	}()
	for _, in := range ins {
		write(c12Begin{K: "begin", ID: in.ID})
		total := c12HeaderLen + len(in.bytes()) // the bound is on the bytes presented: all tables, headers included
		for _, p := range append(append([]string{}, in.Pre...), in.Post...) {
			if b, err := c12Fixture(p); err == nil {
				total += c12HeaderLen + len(b)
			}
		}
		debug.SetMaxStack(c12StackBudget(total))
		cur.Store(&c12Current{in: in, start: c12CPUNow(), budget: c12Budget(total)})
		ev := &c12Event{}
		c12RunOne(in, ev)
		cur.Store((*c12Current)(nil))
		write(ev)
	}
}

// ---------------------------------------------------------------- parent

type c12Runner struct {
	t       *testing.T
	work    string
	out     *bufio.Writer
	nEvents int
	nDead   int
	nSkip   int
	seq     int
	// deaths of a batch child that did not reproduce with the input alone
	anomalies []string
}

// c12Overruns counts CPU / heap overruns over all runners.  Every overrun costs its full budget, so
// after c12MaxOverruns of them the exploration stops early: the recorded events (with the overruns)
// are judged as usual and the number of inputs left out is written next to the trace.
var c12Overruns int32

const c12MaxOverruns = 2

func c12WriteInputs(path string, ins []*c12Input) error {
	f, err := os.Create(path)
	if err != nil {
		return err
	}
	w := bufio.NewWriter(f)
	for _, in := range ins {
		rec := map[string]interface{}{"id": in.ID, "src": in.Src, "hex": hex.EncodeToString(in.bytes())}
		if len(in.Pre) > 0 {
			rec["pre"] = in.Pre
		}
		if len(in.Post) > 0 {
			rec["post"] = in.Post
		}
		if in.Short > 0 {
			rec["short"] = in.Short
		}
		if in.Plan != nil {
			rec["plan"] = in.Plan
		}
		if in.Seed != nil {
			rec["seed"] = in.Seed
		}
		b, _ := json.Marshal(rec)
		w.Write(b)
		w.WriteByte('\n')
	}
	if err := w.Flush(); err != nil {
		return err
	}
	return f.Close()
}

// spawn runs one child over ins; it returns the event lines the child completed, the index of the
// input the child died on (-1 when it finished) and a description of the death.
func (r *c12Runner) spawn(ins []*c12Input) (events [][]byte, deadAt int, death string) {
	r.seq++
	inPath := filepath.Join(r.work, fmt.Sprintf("c12in.%d.ndjson", r.seq))
	outPath := filepath.Join(r.work, fmt.Sprintf("c12out.%d.ndjson", r.seq))
	defer os.Remove(inPath)
	defer os.Remove(outPath)
	if err := c12WriteInputs(inPath, ins); err != nil {
		c12Die("%v", err)
	}
	cmd := exec.Command(os.Args[0], "-test.run", "^TestVerifC12Child$", "-test.timeout", "0")
	cmd.Env = append(os.Environ(), "C12_CHILD=1", "C12_IN="+inPath, "C12_OUT="+outPath, "GOTRACEBACK=single", "GOMAXPROCS=2")
	var stderr bytes.Buffer
	cmd.Stdout = &stderr
	cmd.Stderr = &stderr
	if err := cmd.Start(); err != nil {
		c12Die("%v", err)
	}
	done := make(chan error, 1)
	go func() { done <- cmd.Wait() }()
	// wall-clock backstop only (machinery): the verdict about non-termination is the child's CPU watchdog
	budget := 120 * time.Second
	for _, in := range ins {
		budget += 3 * c12Budget(len(in.bytes())) / 1000
	}
	var werr error
	select {
	case werr = <-done:
	case <-time.After(budget):
		_ = cmd.Process.Kill()
		<-done
		c12Die("c12: child made no progress within %v wall clock (machinery problem, not a verdict)", budget)
	}
	raw, _ := os.ReadFile(outPath)
	begun := -1
	finished := -1
	for _, line := range bytes.Split(raw, []byte{'\n'}) {
		if len(line) == 0 {
			continue
		}
		if bytes.HasPrefix(line, []byte(`{"k":"begin"`)) {
			begun++
			continue
		}
		events = append(events, append([]byte{}, line...))
		finished++
	}
	if werr == nil && finished == len(ins)-1 {
		return events, -1, ""
	}
	if ee, ok := werr.(*exec.ExitError); ok && ee.ExitCode() == 3 && finished == begun {
		// the watchdog reported the overrun as the last event and stopped the child
		return events, -2 - finished, "watchdog"
	}
	if strings.Contains(stderr.String(), "panic: c12") {
		c12Die("c12: harness trouble in the child (machinery, not a verdict):\n%s", c12Tail(stderr.String(), 1500))
	}
	if begun > finished && begun < len(ins) {
		msg := stderr.String()
		death = "child died: " + fmt.Sprint(werr)
		for _, key := range []string{"fatal error: ", "runtime: goroutine stack exceeds", "signal: ", "panic: "} {
			if i := strings.Index(msg, key); i >= 0 {
				line := msg[i:]
				if j := strings.IndexByte(line, '\n'); j >= 0 {
					line = line[:j]
				}
				death += "; " + line
			}
		}
		return events, begun, death
	}
	c12Die("c12: child ended unexpectedly (%v) after %d/%d inputs:\n%s", werr, finished+1, len(ins), c12Tail(stderr.String(), 2000))
	return nil, -1, ""
}

func c12Die(format string, a ...interface{}) { panic("c12 harness: " + fmt.Sprintf(format, a...)) }

func c12Tail(s string, n int) string {
	if len(s) > n {
		return s[len(s)-n:]
	}
	return s
}

func (r *c12Runner) emit(line []byte) {
	r.out.Write(line)
	r.out.WriteByte('\n')
	r.nEvents++
}

func (r *c12Runner) deadEvent(in *c12Input, death string, alone int) []byte {
	ev := &c12Event{K: "parse", ID: in.ID, Src: in.Src, N: len(in.bytes()), TL: []int{}, Res: "fatal", Msg: death, PP: -1,
		L: [][6]int{}, S: [][]interface{}{}, Alone: alone, Pre: in.Pre, Post: in.Post, Short: in.Short, Hex: hex.EncodeToString(in.bytes()), Plan: in.Plan, Seed: in.Seed}
	b, _ := json.Marshal(ev)
	return b
}

// c12BatchLen returns how many of the leading inputs form the next batch: at most max inputs and
// about 300 KB of AML (events of big tables are big).
func c12BatchLen(ins []*c12Input, max int) int {
	n, bytes := 0, 0
	for n < len(ins) && n < max {
		bytes += len(ins[n].bytes()) + 64
		n++
		if bytes > 300<<10 {
			break
		}
	}
	return n
}

// run pushes all inputs through child processes, batch by batch.
func (r *c12Runner) run(ins []*c12Input, batch int) {
	for len(ins) > 0 {
		if atomic.LoadInt32(&c12Overruns) >= c12MaxOverruns {
			r.nSkip += len(ins)
			return
		}
		n := c12BatchLen(ins, batch)
		events, deadAt, death := r.spawn(ins[:n])
		for _, e := range events {
			r.emit(e)
		}
		switch {
		case deadAt == -1:
			ins = ins[n:]
		case deadAt <= -2: // watchdog stopped the child after reporting input number -2-deadAt
			r.nDead++
			atomic.AddInt32(&c12Overruns, 1)
			ins = ins[(-2-deadAt)+1:]
		default:
			// the child died while parsing ins[deadAt]: run that input alone in a fresh process
			r.nDead++
			culprit := ins[deadAt]
			ev2, dead2, death2 := r.spawn([]*c12Input{culprit})
			switch {
			case dead2 == 0:
				r.emit(r.deadEvent(culprit, death2, 1))
			case len(ev2) == 1 && dead2 <= -2:
				atomic.AddInt32(&c12Overruns, 1)
				r.emit(ev2[0])
			case len(ev2) == 1:
				// The input alone in a fresh process behaves: the death of the batch child is not
				// attributable to this input (the inputs share nothing but the Go runtime; think of the
				// OOM killer on a crowded machine).  The isolated run is the observation; the anomaly
				// is reported next to the trace.
				r.anomalies = append(r.anomalies, culprit.ID+": "+death)
				r.emit(ev2[0])
			default:
				c12Die("c12: could not re-run input %s alone", culprit.ID)
			}
			ins = ins[deadAt+1:]
		}
	}
}

// TestVerifC12Run is the entry point of legs G, T and of replays: it reads the inputs (C12_CASES),
// or generates them (C12_GEN), runs them in child processes and writes the events to C12_TRACE_OUT.
func TestVerifC12Run(t *testing.T) {
	if os.Getenv("C12_CHILD") == "1" {
		t.Skip("parent entry point")
	}
	outPath := os.Getenv("C12_TRACE_OUT")
	if outPath == "" {
		t.Skip("C12_TRACE_OUT not set")
	}
	work := os.Getenv("VERIF_WORK")
	if work == "" {
		work = os.TempDir()
	}
	var ins []*c12Input
	// C12_CASES: colon-separated ndjson files; inputs without an id get <C12_ID_PREFIX><n>
	for _, p := range strings.Split(os.Getenv("C12_CASES"), ":") {
		if p == "" {
			continue
		}
		part, err := c12ReadInputs(p)
		if err != nil {
			t.Fatal(err)
		}
		for i, in := range part {
			if strings.HasPrefix(in.ID, "c") && in.ID == "c"+strconv.Itoa(i+1) {
				in.ID = os.Getenv("C12_ID_PREFIX") + strconv.Itoa(i+1)
			}
		}
		ins = append(ins, part...)
	}
	// C12_GEN: comma-separated kind:count of the seeded random driver
	seed, _ := strconv.ParseInt(os.Getenv("VERIF_SEED"), 10, 64)
	for _, spec := range strings.Split(os.Getenv("C12_GEN"), ",") {
		kv := strings.Split(spec, ":")
		if len(kv) != 2 {
			continue
		}
		n, _ := strconv.Atoi(kv[1])
		part, err := c12Generate(kv[0], seed, n)
		if err != nil {
			t.Fatal(err)
		}
		ins = append(ins, part...)
	}
	if len(ins) == 0 {
		t.Fatal("c12: no inputs (C12_CASES / C12_GEN)")
	}
	f, err := os.Create(outPath)
	if err != nil {
		t.Fatal(err)
	}
	defer f.Close()
	r := &c12Runner{t: t, work: work, out: bufio.NewWriterSize(f, 1<<20)}
	batch, _ := strconv.Atoi(os.Getenv("C12_BATCH"))
	if batch <= 0 {
		batch = 4000
	}
	par, _ := strconv.Atoi(os.Getenv("C12_PAR"))
	if par <= 1 || len(ins) < 2000 {
		r.run(ins, batch)
	} else {
		// independent runners over interleaved shares (input i goes to runner i mod par)
		if par > runtime.NumCPU() {
			par = runtime.NumCPU()
		}
		bufs := make([]*bytes.Buffer, par)
		rs := make([]*c12Runner, par)
		var wg sync.WaitGroup
		for i := 0; i < par; i++ {
			var part []*c12Input
			for k := i; k < len(ins); k += par {
				part = append(part, ins[k])
			}
			bufs[i] = &bytes.Buffer{}
			rs[i] = &c12Runner{t: t, work: work, out: bufio.NewWriterSize(bufs[i], 1<<16), seq: i * 1000000}
			wg.Add(1)
			go func(rr *c12Runner, part []*c12Input) {
				defer wg.Done()
				rr.run(part, batch)
				rr.out.Flush()
			}(rs[i], part)
		}
		wg.Wait()
		for i := 0; i < par; i++ {
			r.out.Write(bufs[i].Bytes())
			r.nEvents += rs[i].nEvents
			r.nDead += rs[i].nDead
			r.nSkip += rs[i].nSkip
			r.anomalies = append(r.anomalies, rs[i].anomalies...)
		}
	}
	if err := r.out.Flush(); err != nil {
		t.Fatal(err)
	}
	if r.nEvents+r.nSkip != len(ins) {
		t.Fatalf("c12: %d events and %d skipped for %d inputs", r.nEvents, r.nSkip, len(ins))
	}
	if r.nSkip > 0 {
		_ = os.WriteFile(outPath+".truncated", []byte(strconv.Itoa(r.nSkip)), 0644)
	}
	if len(r.anomalies) > 0 {
		_ = os.WriteFile(outPath+".anomalies", []byte(strings.Join(r.anomalies, "\n")), 0644)
	}
	t.Logf("c12: %d inputs, %d events, %d child deaths/overruns, %d not run after %d overruns", len(ins), r.nEvents, r.nDead, r.nSkip, atomic.LoadInt32(&c12Overruns))
}
