//go:build verif
// +build verif

package aml

// Conformance harness for C11 (well-formed AML -> namespace).
//
// It contains no oracle.  A program is an abstract TOKEN STREAM (the history variable `prog` of
// specs/aml/AmlNs.tla).  This file (a) encodes the tokens into AML byte code (all package-length
// widths), (b) runs the REAL parser (Parser.ParseAML, one call per table, one ObjectTree per
// program) in a CHILD PROCESS per batch (a Go stack overflow is fatal), (c) projects the resulting
// object tree through ObjectAt/ArgAt/NumArgs into a list of namespace entries and method-call
// nodes, and (d) writes one ndjson line per program {id, toks, obs}.  Whether `obs` is what the
// token stream means is decided by TLC with specs/aml/AmlNsTrace.tla.

import (
	"bufio"
	"bytes"
	"encoding/json"
	"fmt"
	"os"
	"os/exec"
	"runtime/debug"
	"sort"
	"strconv"
	"strings"
	"sync"
	"syscall"
	"testing"
	"time"
	"unsafe"

	"github.com/ProjectSerenity/firefly/kernel/device/acpi/table"
)

// ---------------------------------------------------------------------------------- tokens

type c11Form struct {
	Abs    bool     `json:"abs"`
	Carets int      `json:"carets"`
	Segs   []string `json:"segs"`
}

// c11Term is a value / expression.  Canonical field sets per type (both in tokens and in the
// projection): zero|one|ones {t}; byte|word {t,n:[v]}; dword {t,n:[hi16,lo16]}; qword {t,n:[4 limbs]};
// string {t,s}; buffer {t,a:[len],n:[bytes]}; package {t,n:[count],a:[elements]}; arg|local {t,n:[i]};
// tokens only: ref {t,f} call {t,f,a}; projection only: ref {t,p} call {t,p,a} name {t,f} op {t,s,a}
// unit {t,s:kind of the field container (Field|IndexField|BankField),n:[off,bits,accType,accAttrib,lock,update],
// a:the container's arguments before its flags byte (region / index,data / region,bank,bank value; names as written)}.
type c11Term struct {
	T string
	N []int
	S string
	A []c11Term
	F *c11Form
	P []string
}

func (t c11Term) MarshalJSON() ([]byte, error) {
	m := map[string]interface{}{"t": t.T}
	ints := func() []int {
		if t.N == nil {
			return []int{}
		}
		return t.N
	}
	terms := func() []c11Term {
		if t.A == nil {
			return []c11Term{}
		}
		return t.A
	}
	switch t.T {
	case "zero", "one", "ones":
	case "byte", "word", "dword", "qword", "arg", "local":
		m["n"] = ints()
	case "string":
		m["s"] = t.S
	case "buffer", "package":
		m["n"] = ints()
		m["a"] = terms()
	case "ref", "name":
		if t.F != nil {
			m["f"] = t.F
		} else {
			m["p"] = c11Strs(t.P)
		}
	case "call":
		if t.F != nil {
			m["f"] = t.F
		} else {
			m["p"] = c11Strs(t.P)
		}
		m["a"] = terms()
	case "unit":
		m["s"] = t.S
		m["n"] = ints()
		m["a"] = terms()
	default: // op and anything unexpected
		m["s"] = t.S
		m["a"] = terms()
	}
	return json.Marshal(m)
}

func (t *c11Term) UnmarshalJSON(b []byte) error {
	var r struct {
		T string    `json:"t"`
		N []int     `json:"n"`
		S string    `json:"s"`
		A []c11Term `json:"a"`
		F *c11Form  `json:"f"`
		P []string  `json:"p"`
	}
	if err := json.Unmarshal(b, &r); err != nil {
		return err
	}
	*t = c11Term{T: r.T, N: r.N, S: r.S, A: r.A, F: r.F, P: r.P}
	return nil
}

func c11Strs(s []string) []string {
	if s == nil {
		return []string{}
	}
	return s
}

type c11El struct {
	E    string `json:"e"` // unit | skip | access
	Name string `json:"name,omitempty"`
	Bits int    `json:"bits"`
	Wl   int    `json:"wl"` // encoding width of the bit count (1..4, widened if needed)
	At   int    `json:"at"`
	Aa   int    `json:"aa"`
}

type c11Tok struct {
	K     string    `json:"k"` // scope open method close decl field stmt if else endtable
	Kind  string    `json:"kind,omitempty"`
	F     *c11Form  `json:"f,omitempty"`
	G     *c11Form  `json:"g,omitempty"` // second name of IndexField (data) / BankField (bank)
	V     []c11Term `json:"v,omitempty"` // bank value of a BankField (one term)
	W     int       `json:"w,omitempty"`
	Flags int       `json:"flags"`
	Args  []c11Term `json:"args,omitempty"`
	Els   []c11El   `json:"els,omitempty"`
	Op    string    `json:"op,omitempty"`
	X     []c11Term `json:"x,omitempty"`
}

// canonical token JSON (exactly the fields AmlNs.tla uses for that token kind)
func (t c11Tok) MarshalJSON() ([]byte, error) {
	m := map[string]interface{}{"k": t.K}
	args := t.Args
	if args == nil {
		args = []c11Term{}
	}
	x := t.X
	if x == nil {
		x = []c11Term{}
	}
	switch t.K {
	case "scope":
		m["f"], m["w"] = t.F, t.W
	case "open":
		m["kind"], m["f"], m["w"], m["args"] = t.Kind, t.F, t.W, args
	case "method":
		m["f"], m["w"], m["flags"] = t.F, t.W, t.Flags
	case "decl":
		m["kind"], m["f"], m["args"] = t.Kind, t.F, args
	case "field":
		els := []map[string]interface{}{}
		for _, e := range t.Els {
			switch e.E {
			case "unit":
				els = append(els, map[string]interface{}{"e": "unit", "name": e.Name, "bits": e.Bits, "wl": e.Wl})
			case "skip":
				els = append(els, map[string]interface{}{"e": "skip", "bits": e.Bits, "wl": e.Wl})
			default:
				els = append(els, map[string]interface{}{"e": "access", "at": e.At, "aa": e.Aa})
			}
		}
		kind := t.Kind
		if kind == "" {
			kind = "Field"
		}
		m["kind"], m["f"], m["w"], m["flags"], m["els"] = kind, t.F, t.W, t.Flags, els
		if kind != "Field" {
			m["g"] = t.G
		}
		if kind == "BankField" {
			m["v"] = t.V
		}
	case "stmt":
		m["op"], m["x"] = t.Op, x
	case "if", "while":
		m["x"], m["w"] = x, t.W
	case "else":
		m["w"] = t.W
	}
	return json.Marshal(m)
}

type c11Prog struct {
	ID   int             `json:"id"`
	Toks []c11Tok        `json:"-"`
	Raw  json.RawMessage `json:"toks"`
}

// ---------------------------------------------------------------------------------- encoder (trusted, no expected results)

// PkgLength that counts itself, at least `width` bytes wide
func c11EncPkg(body []byte, width int) []byte {
	if width < 1 {
		width = 1
	}
	for w := width; w <= 4; w++ {
		n := len(body) + w
		switch w {
		case 1:
			if n <= 0x3f {
				return append([]byte{byte(n)}, body...)
			}
		case 2:
			if n <= 0xfff {
				return append([]byte{byte(0x40 | n&0xf), byte(n >> 4)}, body...)
			}
		case 3:
			if n <= 0xfffff {
				return append([]byte{byte(0x80 | n&0xf), byte(n >> 4), byte(n >> 12)}, body...)
			}
		case 4:
			return append([]byte{byte(0xc0 | n&0xf), byte(n >> 4), byte(n >> 12), byte(n >> 20)}, body...)
		}
	}
	panic("c11: package too long")
}

// PkgLength-style encoding of a plain value (field widths)
func c11EncPkgVal(v int, width int) []byte {
	if width < 1 {
		width = 1
	}
	for w := width; w <= 4; w++ {
		switch w {
		case 1:
			if v <= 0x3f {
				return []byte{byte(v)}
			}
		case 2:
			if v <= 0xfff {
				return []byte{byte(0x40 | v&0xf), byte(v >> 4)}
			}
		case 3:
			if v <= 0xfffff {
				return []byte{byte(0x80 | v&0xf), byte(v >> 4), byte(v >> 12)}
			}
		case 4:
			return []byte{byte(0xc0 | v&0xf), byte(v >> 4), byte(v >> 12), byte(v >> 20)}
		}
	}
	panic("c11: value too long")
}

func c11EncName(f *c11Form) []byte {
	var b []byte
	if f.Abs {
		b = append(b, '\\')
	}
	for i := 0; i < f.Carets; i++ {
		b = append(b, '^')
	}
	switch len(f.Segs) {
	case 0:
		b = append(b, 0x00)
	case 1:
	case 2:
		b = append(b, 0x2e)
	default:
		b = append(b, 0x2f, byte(len(f.Segs)))
	}
	for _, s := range f.Segs {
		if len(s) != 4 {
			panic("c11: bad name segment " + s)
		}
		b = append(b, s...)
	}
	return b
}

func c11EncTerm(t c11Term) []byte {
	switch t.T {
	case "zero":
		return []byte{0x00}
	case "one":
		return []byte{0x01}
	case "ones":
		return []byte{0xff}
	case "byte":
		return []byte{0x0a, byte(t.N[0])}
	case "word":
		return []byte{0x0b, byte(t.N[0]), byte(t.N[0] >> 8)}
	case "dword":
		return []byte{0x0c, byte(t.N[1]), byte(t.N[1] >> 8), byte(t.N[0]), byte(t.N[0] >> 8)}
	case "qword":
		return []byte{0x0e, byte(t.N[3]), byte(t.N[3] >> 8), byte(t.N[2]), byte(t.N[2] >> 8), byte(t.N[1]), byte(t.N[1] >> 8), byte(t.N[0]), byte(t.N[0] >> 8)}
	case "string":
		return append(append([]byte{0x0d}, t.S...), 0x00)
	case "buffer":
		body := c11EncTerm(t.A[0])
		for _, v := range t.N {
			body = append(body, byte(v))
		}
		return append([]byte{0x11}, c11EncPkg(body, 1+len(body)%4)...)
	case "package":
		body := []byte{byte(t.N[0])}
		for _, e := range t.A {
			body = append(body, c11EncTerm(e)...)
		}
		return append([]byte{0x12}, c11EncPkg(body, 1+len(body)%4)...)
	case "arg":
		return []byte{byte(0x68 + t.N[0])}
	case "local":
		return []byte{byte(0x60 + t.N[0])}
	case "ref":
		return c11EncName(t.F)
	case "call":
		b := c11EncName(t.F)
		for _, a := range t.A {
			b = append(b, c11EncTerm(a)...)
		}
		return b
	case "op": // operator expression; s = the operator's name; operators with a Target get the null target
		op, ok := c11Ops[t.S]
		if !ok {
			panic("c11: bad op " + t.S)
		}
		b := []byte{op.code}
		for _, a := range t.A {
			b = append(b, c11EncTerm(a)...)
		}
		if op.target {
			b = append(b, 0x00)
		}
		return b
	}
	panic("c11: cannot encode term " + t.T)
}

var c11Ops = map[string]struct {
	code   byte
	target bool
}{"Add": {0x72, true}, "Subtract": {0x74, true}, "LEqual": {0x93, false}, "LLess": {0x95, false}, "LGreater": {0x94, false}}
var c11OpenOp = map[string][]byte{"Device": {0x5b, 0x82}, "ThermalZone": {0x5b, 0x85}, "Processor": {0x5b, 0x83}, "PowerRes": {0x5b, 0x84}}
var c11StmtOp = map[string][]byte{"ret": {0xa4}, "store": {0x70}, "inc": {0x75}, "dec": {0x76}, "call": {}, "noop": {0xa3}}

type c11Frame struct {
	head  []byte // opcode bytes
	body  []byte
	width int
}

// c11Encode turns a token stream into the AML byte code of its tables.
func c11Encode(toks []c11Tok) (tables [][]byte, err error) {
	defer func() {
		if r := recover(); r != nil {
			err = fmt.Errorf("encoder: %v", r)
		}
	}()
	stack := []*c11Frame{{}}
	top := func() *c11Frame { return stack[len(stack)-1] }
	raw := func(t c11Term) []byte { // fixed-width argument data (ByteData/WordData/DwordData): constant without its prefix
		return c11EncTerm(t)[1:]
	}
	for _, t := range toks {
		switch t.K {
		case "scope":
			stack = append(stack, &c11Frame{head: []byte{0x10}, body: c11EncName(t.F), width: t.W})
		case "open":
			b := c11EncName(t.F)
			for _, a := range t.Args {
				b = append(b, raw(a)...)
			}
			stack = append(stack, &c11Frame{head: c11OpenOp[t.Kind], body: b, width: t.W})
		case "method":
			stack = append(stack, &c11Frame{head: []byte{0x14}, body: append(c11EncName(t.F), byte(t.Flags)), width: t.W})
		case "if":
			stack = append(stack, &c11Frame{head: []byte{0xa0}, body: c11EncTerm(t.X[0]), width: t.W})
		case "else":
			stack = append(stack, &c11Frame{head: []byte{0xa1}, width: t.W})
		case "while":
			stack = append(stack, &c11Frame{head: []byte{0xa2}, body: c11EncTerm(t.X[0]), width: t.W})
		case "close":
			f := top()
			stack = stack[:len(stack)-1]
			top().body = append(top().body, append(f.head, c11EncPkg(f.body, f.width)...)...)
		case "decl":
			var b []byte
			switch t.Kind {
			case "Name":
				b = append(append([]byte{0x08}, c11EncName(t.F)...), c11EncTerm(t.Args[0])...)
			case "OpRegion":
				b = append(append([]byte{0x5b, 0x80}, c11EncName(t.F)...), raw(t.Args[0])...)
				b = append(append(b, c11EncTerm(t.Args[1])...), c11EncTerm(t.Args[2])...)
			case "Mutex":
				b = append(append([]byte{0x5b, 0x01}, c11EncName(t.F)...), raw(t.Args[0])...)
			case "Event":
				b = append([]byte{0x5b, 0x02}, c11EncName(t.F)...)
			default:
				panic("c11: decl kind " + t.Kind)
			}
			top().body = append(top().body, b...)
		case "field":
			b := c11EncName(t.F)
			op := byte(0x81)
			switch t.Kind {
			case "IndexField":
				op = 0x86
				b = append(b, c11EncName(t.G)...)
			case "BankField":
				op = 0x87
				b = append(append(b, c11EncName(t.G)...), c11EncTerm(t.V[0])...)
			}
			b = append(b, byte(t.Flags))
			for _, e := range t.Els {
				switch e.E {
				case "unit":
					b = append(append(b, e.Name...), c11EncPkgVal(e.Bits, e.Wl)...)
				case "skip":
					b = append(append(b, 0x00), c11EncPkgVal(e.Bits, e.Wl)...)
				case "access":
					b = append(b, 0x01, byte(e.At), byte(e.Aa))
				}
			}
			top().body = append(top().body, append([]byte{0x5b, op}, c11EncPkg(b, t.W)...)...)
		case "stmt":
			op, ok := c11StmtOp[t.Op]
			if !ok {
				panic("c11: stmt op " + t.Op)
			}
			b := append([]byte{}, op...)
			for _, x := range t.X {
				b = append(b, c11EncTerm(x)...)
			}
			top().body = append(top().body, b...)
		case "endtable":
			if len(stack) != 1 {
				panic("c11: unbalanced token stream")
			}
			tables = append(tables, top().body)
			stack = []*c11Frame{{}}
		default:
			panic("c11: token kind " + t.K)
		}
	}
	if len(stack) != 1 || len(top().body) != 0 {
		panic("c11: token stream does not end with endtable")
	}
	return tables, nil
}

// ---------------------------------------------------------------------------------- running the real parser

// The table handles are the caller's choice (any uint8): they are varied with the input (first table 1, 0, 42
// or 253, the following ones counting up; predefined scopes tagged 0 or 42, which may coincide with a table).
func c11Handles(tables [][]byte) (base, dflt uint8) {
	n := 0
	for _, t := range tables {
		n += len(t)
	}
	return []uint8{1, 0, 42, 253}[n%4], []uint8{0, 42}[(n/4)%2]
}

func c11Parse(tables [][]byte) (tree *ObjectTree, res string, msg string, passes []int) {
	base, dflt := c11Handles(tables)
	tree = NewObjectTree()
	tree.CreateDefaultScopes(dflt)
	var errb bytes.Buffer
	p := NewParser(&errb, tree)
	res = "ok"
	defer func() {
		if r := recover(); r != nil {
			res, msg = "panic", fmt.Sprint(r)
		}
	}()
	for i, data := range tables {
		headerLen := int(unsafe.Sizeof(table.SDTHeader{}))
		stream := make([]byte, headerLen+len(data))
		copy(stream[headerLen:], data)
		header := (*table.SDTHeader)(unsafe.Pointer(&stream[0]))
		header.Signature = [4]byte{'D', 'S', 'D', 'T'}
		header.Length = uint32(len(stream))
		header.Revision = 2
		err := p.ParseAML(base+uint8(i), "T"+strconv.Itoa(i+1), header)
		passes = append(passes, int(p.resolvePasses)) // merge/relocate passes the parser took (evidence only)
		if err != nil {
			return tree, "error", strings.TrimSpace(errb.String()), passes
		}
	}
	return tree, "ok", "", passes
}

// ---------------------------------------------------------------------------------- projection (trusted, no expected results)

type c11Entry struct {
	P    []string  `json:"p"`
	Kind string    `json:"kind"`
	Args []c11Term `json:"args"`
}
type c11Call struct {
	Tab int       `json:"tab"`
	P   []string  `json:"p"`
	A   []c11Term `json:"a"`
	off uint32
}
type c11Obs struct {
	Res   string     `json:"res"`
	Err   string     `json:"err"`
	Pass  []int      `json:"passes"`
	NS    []c11Entry `json:"ns"`
	Calls []c11Call  `json:"calls"`
}

// objects that occupy a name in a scope.  The field containers IndexField / BankField carry the
// parser's "named" flag (their first argument is a name string) but declare no object themselves.
func c11Named(o *Object) bool {
	if o.opcode == pOpIndexField || o.opcode == pOpBankField {
		return false
	}
	return pOpcodeTable[o.infoIndex].flags&pOpFlagNamed != 0 || o.opcode == pOpIntNamedField
}

func c11Args(tree *ObjectTree, o *Object) []*Object {
	var out []*Object
	for i, n := uint32(0), tree.NumArgs(o); i < n; i++ {
		out = append(out, tree.ArgAt(o, i))
	}
	return out
}

// absolute namespace path of an object: names of its named ancestors (anonymous scope blocks are
// the scope of the object that owns them)
func c11PathOf(tree *ObjectTree, o *Object) []string {
	var rev []string
	for guard := 0; o != nil && o.index != 0 && guard < 1<<16; guard++ {
		if c11Named(o) && o.name != [amlNameLen]byte{} {
			rev = append(rev, string(o.name[:]))
		}
		o = tree.ObjectAt(o.parentIndex)
	}
	out := make([]string, 0, len(rev))
	for i := len(rev) - 1; i >= 0; i-- {
		out = append(out, rev[i])
	}
	return out
}

func c11DecodeName(b []byte) *c11Form {
	f := &c11Form{Segs: []string{}}
	i := 0
	for ; i < len(b) && (b[i] == '\\' || b[i] == '^'); i++ {
		if b[i] == '\\' {
			f.Abs = true
		} else {
			f.Carets++
		}
	}
	if i < len(b) && b[i] == 0x2e {
		i++
	} else if i+1 < len(b) && b[i] == 0x2f {
		i += 2
	}
	for ; i+4 <= len(b); i += 4 {
		f.Segs = append(f.Segs, string(b[i:i+4]))
	}
	if i != len(b) {
		f.Segs = append(f.Segs, fmt.Sprintf("?%x", b[i:]))
	}
	return f
}

func c11Limbs(v uint64, n int) []int {
	out := make([]int, n)
	for i := n - 1; i >= 0; i-- {
		out[i] = int(v & 0xffff)
		v >>= 16
	}
	return out
}

func c11Term1(tree *ObjectTree, o *Object, depth int) c11Term {
	if o == nil {
		return c11Term{T: "op", S: "nil"}
	}
	if depth > 64 {
		return c11Term{T: "op", S: "too-deep"}
	}
	sub := func(objs []*Object) []c11Term {
		out := []c11Term{}
		for _, a := range objs {
			out = append(out, c11Term1(tree, a, depth+1))
		}
		return out
	}
	u64 := func() uint64 { v, _ := o.value.(uint64); return v }
	switch o.opcode {
	case pOpZero:
		return c11Term{T: "zero"}
	case pOpOne:
		return c11Term{T: "one"}
	case pOpOnes:
		return c11Term{T: "ones"}
	case pOpBytePrefix:
		return c11Term{T: "byte", N: []int{int(u64())}}
	case pOpWordPrefix:
		return c11Term{T: "word", N: []int{int(u64())}}
	case pOpDwordPrefix:
		return c11Term{T: "dword", N: c11Limbs(u64(), 2)}
	case pOpQwordPrefix:
		return c11Term{T: "qword", N: c11Limbs(u64(), 4)}
	case pOpStringPrefix:
		b, _ := o.value.([]byte)
		return c11Term{T: "string", S: string(b)}
	case pOpBuffer:
		args := c11Args(tree, o)
		if len(args) == 2 && args[1].opcode == pOpIntByteList {
			bl, _ := args[1].value.([]byte)
			n := make([]int, len(bl))
			for i, v := range bl {
				n[i] = int(v)
			}
			return c11Term{T: "buffer", A: sub(args[:1]), N: n}
		}
		return c11Term{T: "op", S: "Buffer", A: sub(args)}
	case pOpPackage:
		args := c11Args(tree, o)
		if len(args) == 2 && args[0].opcode == pOpBytePrefix && args[1].opcode == pOpIntScopeBlock {
			v, _ := args[0].value.(uint64)
			return c11Term{T: "package", N: []int{int(v)}, A: sub(c11Args(tree, args[1]))}
		}
		return c11Term{T: "op", S: "Package", A: sub(args)}
	case pOpIntNamePath, pOpIntNamePathOrMethodCall:
		b, _ := o.value.([]byte)
		return c11Term{T: "name", F: c11DecodeName(b)}
	case pOpIntResolvedNamePath:
		idx, _ := o.value.(uint32)
		return c11Term{T: "ref", P: c11PathOf(tree, tree.ObjectAt(idx))}
	case pOpIntMethodCall:
		idx, _ := o.value.(uint32)
		return c11Term{T: "call", P: c11PathOf(tree, tree.ObjectAt(idx)), A: sub(c11Args(tree, o))}
	}
	switch {
	case o.opcode >= pOpArg0 && o.opcode <= pOpArg6:
		return c11Term{T: "arg", N: []int{int(o.opcode - pOpArg0)}}
	case o.opcode >= pOpLocal0 && o.opcode <= pOpLocal7:
		return c11Term{T: "local", N: []int{int(o.opcode - pOpLocal0)}}
	}
	return c11Term{T: "op", S: pOpcodeName(o.opcode), A: sub(c11Args(tree, o))}
}

// c11Project walks the tree from the root scope: the children of a scope block are the objects of
// that scope; the scope of a scoped object is the scope block among its arguments.
func c11Project(tree *ObjectTree, base uint8) (ns []c11Entry, calls []c11Call) {
	ns, calls = []c11Entry{}, []c11Call{}
	budget := 1 << 20
	var walk func(scope *Object, path []string)
	walk = func(scope *Object, path []string) {
		for _, o := range c11Args(tree, scope) {
			if budget--; budget < 0 {
				return
			}
			if !c11Named(o) && o.opcode != pOpScope {
				continue
			}
			p := append(append([]string{}, path...), string(o.name[:]))
			switch {
			case o.opcode == pOpIntScopeBlock:
				ns = append(ns, c11Entry{P: p, Kind: "ScopeBlock", Args: []c11Term{}})
				walk(o, p)
			case o.opcode == pOpScope:
				ns = append(ns, c11Entry{P: p, Kind: "Scope(unmerged)", Args: []c11Term{}})
			case o.opcode == pOpIntNamedField:
				fe, _ := o.value.(*fieldElement)
				u := c11Term{T: "unit", S: "?", N: []int{}, A: []c11Term{}}
				if fe != nil {
					u.N = []int{int(fe.offset), int(fe.width), int(fe.accessType), int(fe.accessAttrib), int(fe.lockType), int(fe.updateType)}
					if fo := tree.ObjectAt(fe.fieldIndex); fo != nil {
						u.S = pOpcodeName(fo.opcode)
						args := c11Args(tree, fo)
						for i, a := range args {
							if i == len(args)-1 || a.opcode == pOpIntConnection {
								continue // the flags byte; connections are not generated
							}
							u.A = append(u.A, c11Term1(tree, a, 0))
						}
					}
				}
				ns = append(ns, c11Entry{P: p, Kind: "NamedField", Args: []c11Term{u}})
			default:
				e := c11Entry{P: p, Kind: pOpcodeName(o.opcode), Args: []c11Term{}}
				var block *Object
				for i, a := range c11Args(tree, o) {
					if i == 0 && a.opcode == pOpIntNamePath {
						continue // the object's own name
					}
					if a.opcode == pOpIntScopeBlock {
						block = a
						continue
					}
					e.Args = append(e.Args, c11Term1(tree, a, 0))
				}
				ns = append(ns, e)
				if block != nil && o.opcode != pOpMethod {
					walk(block, p)
				}
			}
		}
	}
	walk(tree.ObjectAt(0), nil)
	// method invocations: every call node reachable from the root, in source order
	var find func(o *Object, depth int)
	find = func(o *Object, depth int) {
		if budget--; budget < 0 || depth > 4096 {
			return
		}
		if o.opcode == pOpIntMethodCall {
			t := c11Term1(tree, o, 0)
			calls = append(calls, c11Call{Tab: int(o.tableHandle-base) + 1, P: c11Strs(t.P), A: t.A, off: o.amlOffset})
		} else if o.opcode == pOpIntNamePathOrMethodCall {
			calls = append(calls, c11Call{Tab: int(o.tableHandle-base) + 1, P: []string{"<unresolved>"}, A: []c11Term{c11Term1(tree, o, 0)}, off: o.amlOffset})
		}
		for _, a := range c11Args(tree, o) {
			find(a, depth+1)
		}
	}
	find(tree.ObjectAt(0), 0)
	sort.SliceStable(calls, func(i, j int) bool {
		if calls[i].Tab != calls[j].Tab {
			return calls[i].Tab < calls[j].Tab
		}
		return calls[i].off < calls[j].off
	})
	return ns, calls
}

func c11RunOne(toks []c11Tok) c11Obs {
	tables, err := c11Encode(toks)
	if err != nil {
		return c11Obs{Res: "bad-input", Err: err.Error(), NS: []c11Entry{}, Calls: []c11Call{}}
	}
	tree, res, msg, passes := c11Parse(tables)
	if passes == nil {
		passes = []int{}
	}
	obs := c11Obs{Res: res, Err: msg, Pass: passes, NS: []c11Entry{}, Calls: []c11Call{}}
	if res == "ok" {
		func() {
			defer func() {
				if r := recover(); r != nil {
					obs = c11Obs{Res: "panic", Err: "projection: " + fmt.Sprint(r), NS: []c11Entry{}, Calls: []c11Call{}}
				}
			}()
			base, _ := c11Handles(tables)
			obs.NS, obs.Calls = c11Project(tree, base)
		}()
	}
	return obs
}

// ---------------------------------------------------------------------------------- program files

func c11ReadProgs(path string) ([]c11Prog, error) {
	f, err := os.Open(path)
	if err != nil {
		return nil, err
	}
	defer f.Close()
	var out []c11Prog
	sc := bufio.NewScanner(f)
	sc.Buffer(make([]byte, 1<<24), 1<<26)
	for sc.Scan() {
		line := bytes.TrimSpace(sc.Bytes())
		if len(line) == 0 {
			continue
		}
		if line[0] == '"' { // TLC's CSVWrite may wrap the JSON into a string literal
			var s string
			if err := json.Unmarshal(line, &s); err != nil {
				return nil, err
			}
			line = []byte(s)
		}
		var p c11Prog
		if err := json.Unmarshal(line, &p); err != nil {
			return nil, fmt.Errorf("bad program line %q: %v", line[:c11Min(len(line), 200)], err)
		}
		if err := json.Unmarshal(p.Raw, &p.Toks); err != nil {
			return nil, fmt.Errorf("bad token list %q: %v", line[:c11Min(len(line), 200)], err)
		}
		if p.ID == 0 {
			p.ID = len(out) + 1
		}
		out = append(out, p)
	}
	return out, sc.Err()
}

func c11Min(a, b int) int {
	if a < b {
		return a
	}
	return b
}

func c11WriteLine(w *bufio.Writer, p c11Prog, obs c11Obs) {
	if obs.Pass == nil {
		obs.Pass = []int{}
	}
	b, _ := json.Marshal(map[string]interface{}{"id": p.ID, "toks": p.Raw, "obs": obs})
	w.Write(b)
	w.WriteByte('\n')
	w.Flush()
}

// ---------------------------------------------------------------------------------- child process

// TestVerifC11Child parses the programs of C11_CHILD_IN one after the other and appends one line per
// finished program to C11_CHILD_OUT.  A fatal error (stack overflow) or a CPU overrun kills the
// process; the parent then knows that the first unfinished program is the culprit.
func TestVerifC11Child(t *testing.T) {
	in, out := os.Getenv("C11_CHILD_IN"), os.Getenv("C11_CHILD_OUT")
	if in == "" {
		t.Skip("child entry point")
	}
	debug.SetMaxStack(64 << 20)
	progs, err := c11ReadProgs(in)
	if err != nil {
		t.Fatal(err)
	}
	f, err := os.OpenFile(out, os.O_CREATE|os.O_WRONLY|os.O_APPEND, 0644)
	if err != nil {
		t.Fatal(err)
	}
	defer f.Close()
	w := bufio.NewWriterSize(f, 1<<16)
	var mu sync.Mutex
	cpu := func() time.Duration {
		var ru syscall.Rusage
		syscall.Getrusage(syscall.RUSAGE_SELF, &ru)
		return time.Duration(ru.Utime.Nano() + ru.Stime.Nano())
	}
	started, startedCPU := time.Now(), cpu()
	go func() { // watchdog: normal programs take well under 50 ms of CPU
		for {
			time.Sleep(100 * time.Millisecond)
			mu.Lock()
			d, c := time.Since(started), cpu()-startedCPU
			mu.Unlock()
			if c > 4*time.Second || d > 120*time.Second {
				os.Exit(7)
			}
		}
	}()
	for _, p := range progs {
		mu.Lock()
		started, startedCPU = time.Now(), cpu()
		mu.Unlock()
		c11WriteLine(w, p, c11RunOne(p.Toks))
	}
}

// c11RunIsolated runs the programs in child processes and appends exactly one line per program to out.
// After c11MaxFatal programs that killed their process the rest of the list is dropped (each of them
// is already a reported result; a parser that dies on most inputs would otherwise cost minutes).
const c11MaxFatal = 3

var errC11Aborted = fmt.Errorf("aborted after %d fatal programs", c11MaxFatal)

func c11RunIsolated(progs []c11Prog, outPath string, work string, tag string) error {
	rest := progs
	fatal := 0
	for round := 0; len(rest) > 0; round++ {
		if fatal >= c11MaxFatal {
			return errC11Aborted
		}
		inPath := fmt.Sprintf("%s/c11_%s_in_%d.ndjson", work, tag, round)
		chOut := fmt.Sprintf("%s/c11_%s_out_%d.ndjson", work, tag, round)
		f, err := os.Create(inPath)
		if err != nil {
			return err
		}
		bw := bufio.NewWriter(f)
		for _, p := range rest {
			b, _ := json.Marshal(map[string]interface{}{"id": p.ID, "toks": p.Raw})
			bw.Write(b)
			bw.WriteByte('\n')
		}
		bw.Flush()
		f.Close()
		os.Remove(chOut)
		cmd := exec.Command(os.Args[0], "-test.run", "^TestVerifC11Child$", "-test.timeout", "3600s")
		cmd.Env = append(os.Environ(), "C11_CHILD_IN="+inPath, "C11_CHILD_OUT="+chOut)
		var stderr bytes.Buffer
		cmd.Stdout, cmd.Stderr = &stderr, &stderr
		runErr := cmd.Run()
		done := 0
		outF, err := os.OpenFile(outPath, os.O_CREATE|os.O_WRONLY|os.O_APPEND, 0644)
		if err != nil {
			return err
		}
		ow := bufio.NewWriterSize(outF, 1<<16)
		if cf, err := os.Open(chOut); err == nil {
			sc := bufio.NewScanner(cf)
			sc.Buffer(make([]byte, 1<<24), 1<<26)
			for sc.Scan() {
				if !json.Valid(sc.Bytes()) {
					break // torn last line of a killed child
				}
				ow.Write(sc.Bytes())
				ow.WriteByte('\n')
				done++
			}
			cf.Close()
		}
		if done > len(rest) {
			return fmt.Errorf("child wrote %d lines for %d programs", done, len(rest))
		}
		if done < len(rest) {
			// the child died while working on rest[done]
			why := "child died"
			se := stderr.String()
			switch {
			case strings.Contains(se, "stack overflow") || strings.Contains(se, "goroutine stack exceeds"):
				why = "fatal stack overflow (unbounded recursion)"
			case runErr != nil && strings.Contains(runErr.Error(), "exit status 7"):
				why = "no result after 4 s of CPU time (non-termination)"
			case runErr == nil:
				return fmt.Errorf("child exited cleanly after %d of %d programs:\n%s", done, len(rest), c11Tail(se))
			default:
				why = "child died: " + runErr.Error() + ": " + c11Tail(se)
			}
			c11WriteLine(ow, rest[done], c11Obs{Res: "crash", Err: why, NS: []c11Entry{}, Calls: []c11Call{}})
			done++
			fatal++
		} else if runErr != nil {
			return fmt.Errorf("child failed after finishing its programs: %v\n%s", runErr, c11Tail(stderr.String()))
		}
		ow.Flush()
		outF.Close()
		os.Remove(inPath)
		os.Remove(chOut)
		rest = rest[done:]
	}
	return nil
}

func c11Tail(s string) string {
	if len(s) > 600 {
		return s[len(s)-600:]
	}
	return s
}

func c11Work(t *testing.T) string {
	w := os.Getenv("VERIF_WORK")
	if w == "" {
		w = t.TempDir()
	}
	return w
}

// TestVerifC11Cases: legs G / reproducers / replay.  C11_IN = programs (ndjson, {"toks":[...]}),
// C11_OUT = trace.  The programs are distributed over C11_PAR child processes.
func TestVerifC11Cases(t *testing.T) {
	if os.Getenv("C11_IN") == "" {
		t.Skip("no C11_IN")
	}
	progs, err := c11ReadProgs(os.Getenv("C11_IN"))
	if err != nil {
		t.Fatal(err)
	}
	c11RunParallel(t, progs, os.Getenv("C11_OUT"))
}

// TestVerifC11Repro: the pinned reproducers of the open findings (C11_REPRO_IN -> C11_REPRO_OUT), one
// child process per program: each of them may kill its process.
func TestVerifC11Repro(t *testing.T) {
	if os.Getenv("C11_REPRO_IN") == "" {
		t.Skip("no C11_REPRO_IN")
	}
	progs, err := c11ReadProgs(os.Getenv("C11_REPRO_IN"))
	if err != nil {
		t.Fatal(err)
	}
	out := os.Getenv("C11_REPRO_OUT")
	os.Remove(out)
	if err := c11RunReproducers(progs, out, c11Work(t)); err != nil {
		t.Fatal(err)
	}
	if len(progs) == 0 {
		os.WriteFile(out, nil, 0644)
	}
}

// every reproducer gets its own child (several of them are expected to kill it)
func c11RunReproducers(progs []c11Prog, out, work string) error {
	for i := range progs {
		if err := c11RunIsolated(progs[i:i+1], out, work, "repro"); err != nil && err != errC11Aborted {
			return err
		}
	}
	return nil
}

func c11RunParallel(t *testing.T, progs []c11Prog, outPath string) {
	par, _ := strconv.Atoi(os.Getenv("C11_PAR"))
	if par < 1 {
		par = 4
	}
	if par > len(progs) {
		par = c11Max(1, len(progs))
	}
	work := c11Work(t)
	os.Remove(outPath)
	var wg sync.WaitGroup
	parts := make([]string, par)
	errs := make([]error, par)
	for i := 0; i < par; i++ {
		lo, hi := len(progs)*i/par, len(progs)*(i+1)/par
		parts[i] = fmt.Sprintf("%s.part%d", outPath, i)
		os.Remove(parts[i])
		wg.Add(1)
		go func(i int, sub []c11Prog) {
			defer wg.Done()
			errs[i] = c11RunIsolated(sub, parts[i], work, fmt.Sprintf("p%d", i))
		}(i, progs[lo:hi])
	}
	wg.Wait()
	aborted := false
	for _, e := range errs {
		if e == errC11Aborted {
			aborted = true
		} else if e != nil {
			t.Fatal(e)
		}
	}
	out, err := os.Create(outPath)
	if err != nil {
		t.Fatal(err)
	}
	defer out.Close()
	n := 0
	for _, pth := range parts {
		b, err := os.ReadFile(pth)
		if err == nil {
			out.Write(b)
			n += bytes.Count(b, []byte{'\n'})
		}
		os.Remove(pth)
	}
	if n != len(progs) && !aborted {
		t.Fatalf("recorded %d results for %d programs", n, len(progs))
	}
	t.Logf("c11: %d programs parsed", n)
}

func c11Max(a, b int) int {
	if a > b {
		return a
	}
	return b
}
