//go:build verif
// +build verif

package aml

// Leg T of C11: seeded random well-formed programs of 50-400 objects (token streams), run on the real
// parser like the TLC-generated ones.  The generator keeps its own list of the scopes and methods it
// has declared only to write programs that are well formed and stay inside the sub-language without
// the trigger constructs of the OPEN findings (env C11_OPEN = comma separated ids); nothing of it is
// used to judge a result: the TLA+ monitor re-derives well-formedness, the triggers and the expected
// namespace from the token stream alone (a generator slip shows up as "GEN" = broken check).

import (
	"encoding/json"
	"fmt"
	"math/rand"
	"os"
	"strconv"
	"strings"
	"testing"
)

type c11Scope struct {
	path   []string
	object bool // scope of an object (false: root / predefined scope)
	table  int
	ord    int  // position in the program (name counter when it was written)
	bank   bool // unit of a BankField
}

type c11Method struct {
	path  []string
	argc  int
	table int
	node  *c11Node
	ord   int // position in the program (name counter when it was written)
}

type c11Node struct {
	tok  c11Tok
	kids []*c11Node
	body []c11Tok // method body tokens (filled in the second phase)
	blk  bool     // token opens a block closed by "close"
	fill func()   // second phase: operands that invoke methods / name objects of the whole table
}

type c11Gen struct {
	rng       *rand.Rand
	open      map[string]bool
	ctr       int
	scopes    []c11Scope
	displaced map[string]bool // objects of the current table that are not written where they belong
	methods   []*c11Method
	names     []c11Scope // Name objects (path, table) usable as references
	regions   []c11Scope
	units     []c11Scope // field units (index / data / bank registers of later IndexField / BankField)
	objs      []c11Scope // every object that is no method and no Name (targets of name references)
	ixShadow  []c11Scope // pairs (scope an IndexField is written in, name of its index register): finding D10
	table     int
	budget    int
	maxDepth  int
	scopeLvl  bool // expressions outside a method body: no ArgN / LocalN
	inBufSize bool // generating the size term of a Buffer
	inWhile   bool // generating the predicate or body of a While (read in the deferred pass)
	noBuf     bool // no Buffer here: something follows in the same deferred term
	fills     []func()
}

func c11Key(p []string) string { return strings.Join(p, ".") }
func c11Cat(p []string, s ...string) []string {
	return append(append([]string{}, p...), s...)
}
func c11HasPrefix(p, pre []string) bool {
	if len(pre) > len(p) {
		return false
	}
	for i := range pre {
		if p[i] != pre[i] {
			return false
		}
	}
	return true
}

var c11Predef = []string{"_GPE", "_PR_", "_SB_", "_SI_", "_TZ_"}

const c11NameChars = "ABCDEFGHIJKLMNOPQRSTUVWXYZ0123456789_"

func (g *c11Gen) fresh() string {
	g.ctr++
	n := g.ctr
	// LeadNameChar := 'A'-'Z' | '_' ; the boundaries of the range are drawn more often
	b := []byte{"ABCDEFGHIJKLMNOPQRSTUVWXYZ_AZ__"[g.rng.Intn(31)], 0, 0, 0}
	for i := 3; i >= 1; i-- {
		b[i] = c11NameChars[n%len(c11NameChars)]
		n /= len(c11NameChars)
	}
	for _, pre := range c11Predef { // never a predefined scope's name (that would be a re-used name, finding D3)
		if string(b) == pre {
			return g.fresh()
		}
	}
	// uniqueness comes from the counter in the last three characters; the first one is free
	return string(b)
}

func (g *c11Gen) width() int { return 1 + g.rng.Intn(4) }

func (g *c11Gen) isObjectScope(p []string) bool {
	for _, s := range g.scopes {
		if c11Key(s.path) == c11Key(p) {
			return s.object
		}
	}
	return false
}

// a path handed to a lookup that the parser can follow: no object before its last segment
func (g *c11Gen) d2Safe(p []string) bool {
	if !g.open["D2"] {
		return true
	}
	for i := 1; i < len(p); i++ {
		if g.isObjectScope(p[:i]) {
			return false
		}
	}
	return true
}

// form for a NEW object declared while the current scope is cur; returns the form and the path it gets
func (g *c11Gen) declForm(cur []string, late bool) (*c11Form, []string) {
	seg := g.fresh()
	for try := 0; try < 8; try++ {
		switch k := g.rng.Intn(20); {
		case k < 11:
			return &c11Form{Segs: []string{seg}}, c11Cat(cur, seg)
		case k < 13: // \seg
			return &c11Form{Abs: true, Segs: []string{seg}}, []string{seg}
		case k < 16: // absolute path of an existing scope + seg
			s := g.scopes[g.rng.Intn(len(g.scopes))]
			if len(s.path) == 0 || !g.d2Safe(s.path) {
				continue
			}
			return &c11Form{Abs: true, Segs: c11Cat(s.path, seg)}, c11Cat(s.path, seg)
		case k < 18: // child.seg
			var kids []c11Scope
			for _, s := range g.scopes {
				if len(s.path) == len(cur)+1 && c11HasPrefix(s.path, cur) {
					kids = append(kids, s)
				}
			}
			if len(kids) == 0 {
				continue
			}
			s := kids[g.rng.Intn(len(kids))]
			return &c11Form{Segs: []string{s.path[len(s.path)-1], seg}}, c11Cat(s.path, seg)
		default: // ^seg
			if len(cur) == 0 || (g.open["D1"] && g.isObjectScope(cur)) || (g.open["D1b"] && late) {
				continue
			}
			n := 1
			if !g.open["D1"] && len(cur) > 1 && g.rng.Intn(3) == 0 {
				n = 2
			}
			return &c11Form{Carets: n, Segs: []string{seg}}, c11Cat(cur[:len(cur)-n], seg)
		}
	}
	return &c11Form{Segs: []string{seg}}, c11Cat(cur, seg)
}

// Scope directive to an existing scope, written from cur
func (g *c11Gen) scopeForm(cur []string, late bool) (*c11Form, []string) {
	// a ^ may be written where the current scope is a predefined one (D1) that is not under a late directive (D1b)
	caretOK := len(cur) == 1 && !g.isObjectScope(cur) && !(g.open["D1b"] && late)
	for try := 0; try < 8; try++ {
		s := g.scopes[g.rng.Intn(len(g.scopes))]
		if len(s.path) == 0 {
			if g.open["D8"] {
				continue
			}
			if caretOK && g.rng.Intn(2) == 0 {
				return &c11Form{Carets: 1, Segs: []string{}}, s.path // Scope(^)
			}
			return &c11Form{Abs: true, Segs: []string{}}, s.path
		}
		last := s.path[len(s.path)-1]
		if caretOK && len(s.path) == 1 && g.rng.Intn(3) == 0 {
			return &c11Form{Carets: 1, Segs: []string{last}}, s.path // Scope(^X)
		}
		switch g.rng.Intn(3) {
		case 0: // single segment, found by the search rule: its parent scope encloses cur
			if c11HasPrefix(cur, s.path[:len(s.path)-1]) {
				return &c11Form{Segs: []string{last}}, s.path
			}
		case 1:
			if g.d2Safe(s.path) {
				return &c11Form{Abs: true, Segs: s.path}, s.path
			}
		default: // child of cur, two segments relative
			if len(s.path) == len(cur)+2 && c11HasPrefix(s.path, cur) && (!g.open["D2"] || !g.isObjectScope(s.path[:len(cur)+1])) {
				return &c11Form{Segs: s.path[len(cur):]}, s.path
			}
		}
	}
	return nil, nil
}

func (g *c11Gen) constTerm() c11Term {
	switch g.rng.Intn(9) {
	case 0:
		return c11Term{T: "zero"}
	case 1:
		return c11Term{T: "one"}
	case 2:
		return c11Term{T: "ones"}
	case 3, 4:
		return c11Term{T: "byte", N: []int{g.rng.Intn(256)}}
	case 5:
		return c11Term{T: "word", N: []int{g.rng.Intn(65536)}}
	case 6:
		return c11Term{T: "dword", N: []int{[]int{0, 0x7fff, 0x8000, 0xffff, g.rng.Intn(65536)}[g.rng.Intn(5)], g.rng.Intn(65536)}}
	case 7:
		return c11Term{T: "qword", N: []int{[]int{0, 0x8000, 0xffff, g.rng.Intn(65536)}[g.rng.Intn(4)], g.rng.Intn(65536), g.rng.Intn(65536), g.rng.Intn(65536)}}
	default:
		n := g.rng.Intn(13)
		if g.rng.Intn(12) == 0 {
			n = []int{62, 63, 64, 300, 4100}[g.rng.Intn(5)]
		}
		b := make([]byte, n)
		for i := range b { // AsciiChar := 0x01 - 0x7f (quotes, backslash, control characters and DEL included)
			switch g.rng.Intn(6) {
			case 0:
				b[i] = []byte{0x01, 0x09, 0x0a, 0x1f, '"', '\\', 0x7e, 0x7f, '<', '&'}[g.rng.Intn(10)]
			default:
				b[i] = byte(0x20 + g.rng.Intn(0x5f))
			}
		}
		return c11Term{T: "string", S: string(b)}
	}
}

func (g *c11Gen) bufferTerm() c11Term {
	n := g.rng.Intn(9)
	if g.rng.Intn(10) == 0 {
		n = []int{61, 62, 63, 300, 4090, 5000}[g.rng.Intn(6)] // around the package-length width boundaries
	}
	bs := make([]int, n)
	for i := range bs {
		bs[i] = g.rng.Intn(256)
	}
	ln := c11Term{T: "byte", N: []int{n + g.rng.Intn(4)}}
	switch k := g.rng.Intn(8); {
	case k < 2 || n+3 > 255:
		ln = c11Term{T: "word", N: []int{n + g.rng.Intn(300)}}
	case k == 2:
		ln = c11Term{T: "dword", N: []int{g.rng.Intn(3), n + g.rng.Intn(300)}}
	case k == 3 && n <= 1:
		ln = c11Term{T: []string{"zero", "one"}[n]}
	}
	return c11Term{T: "buffer", A: []c11Term{ln}, N: bs}
}

func (g *c11Gen) valueTerm(depth int) c11Term {
	switch k := g.rng.Intn(10); {
	case k < 6 || depth > 2:
		return g.constTerm()
	case k < 8:
		return g.bufferTerm()
	default:
		n := g.rng.Intn(5)
		p := c11Term{T: "package", N: []int{n + []int{0, 0, 0, 1, 200}[g.rng.Intn(5)]}, A: []c11Term{}}
		for i := 0; i < n; i++ {
			p.A = append(p.A, g.valueTerm(depth+1))
		}
		return p
	}
}

// one table level: the objects written inside the scope cur
// late / off: see D1b in AmlNs.tla (directive that the parser cannot merge in its first pass / place that is not final then)
func (g *c11Gen) level(cur []string, depth int, late, off bool, n int) []*c11Node {
	var out []*c11Node
	for i := 0; i < n && g.budget > 0; i++ {
		g.budget--
		switch k := g.rng.Intn(100); {
		case k < 16 && depth < g.maxDepth: // scoped object
			kind := []string{"Device", "Device", "ThermalZone", "Processor", "PowerRes"}[g.rng.Intn(5)]
			f, p := g.declForm(cur, late)
			t := c11Tok{K: "open", Kind: kind, F: f, W: g.width()}
			switch kind {
			case "Processor":
				t.Args = []c11Term{{T: "byte", N: []int{g.rng.Intn(256)}}, {T: "dword", N: []int{g.rng.Intn(65536), g.rng.Intn(65536)}}, {T: "byte", N: []int{g.rng.Intn(256)}}}
			case "PowerRes":
				t.Args = []c11Term{{T: "byte", N: []int{g.rng.Intn(6)}}, {T: "word", N: []int{g.rng.Intn(65536)}}}
			}
			g.declared(cur, p, off)
			g.scopes = append(g.scopes, c11Scope{path: p, object: true, table: g.table})
			nd := &c11Node{tok: t, blk: true}
			nd.kids = g.level(p, depth+1, late, off || g.displaced[c11Key(p)], g.rng.Intn(6))
			out = append(out, nd)
		case k < 28 && depth < g.maxDepth: // Scope directive
			f, p := g.scopeForm(cur, late)
			if f == nil {
				continue
			}
			l := late || (!f.Abs && off)
			for j := 1; j <= len(p); j++ {
				if g.displaced[c11Key(p[:j])] {
					l = true
				}
			}
			nd := &c11Node{tok: c11Tok{K: "scope", F: f, W: g.width()}, blk: true}
			nd.kids = g.level(p, depth+1, l, l, g.rng.Intn(6))
			out = append(out, nd)
		case k < 42: // method
			f, p := g.declForm(cur, late)
			argc := g.rng.Intn(8)
			if g.rng.Intn(3) > 0 {
				argc = g.rng.Intn(4)
			}
			flags := argc | g.rng.Intn(2)<<3 | g.rng.Intn(16)<<4
			g.declared(cur, p, off)
			nd := &c11Node{tok: c11Tok{K: "method", F: f, W: g.width(), Flags: flags}, blk: true}
			g.methods = append(g.methods, &c11Method{path: p, argc: argc, table: g.table, node: nd, ord: g.ctr})
			out = append(out, nd)
		case k < 62: // Name
			if g.rng.Intn(4) == 0 {
				// value = invocation / name / Buffer whose size is an invocation: written with a plain name (D13),
				// filled in when all methods of the table are known (forward references)
				seg := g.fresh()
				p := c11Cat(cur, seg)
				g.declared(cur, p, off)
				g.names = append(g.names, c11Scope{path: p, table: g.table})
				nd := &c11Node{tok: c11Tok{K: "decl", Kind: "Name", F: &c11Form{Segs: []string{seg}}, Args: []c11Term{g.constTerm()}}}
				m := &c11Method{path: p, table: g.table, ord: g.ctr}
				g.fills = append(g.fills, func() {
					var v c11Term
					if g.rng.Intn(4) == 0 {
						g.inBufSize = true
						v = c11Term{T: "buffer", A: []c11Term{g.scopeExpr(m)}, N: []int{1, 2, 3}}
						g.inBufSize = false
					} else {
						v = g.scopeExpr(m)
					}
					nd.tok.Args = []c11Term{v}
				})
				out = append(out, nd)
				continue
			}
			f, p := g.declForm(cur, late)
			g.declared(cur, p, off)
			g.names = append(g.names, c11Scope{path: p, table: g.table})
			out = append(out, &c11Node{tok: c11Tok{K: "decl", Kind: "Name", F: f, Args: []c11Term{g.valueTerm(0)}}})
		case k < 76: // OpRegion + Field
			f, p := g.declForm(cur, late)
			g.declared(cur, p, off)
			g.regions = append(g.regions, c11Scope{path: p, table: g.table})
			off := c11Term{T: "dword", N: []int{g.rng.Intn(65536), g.rng.Intn(65536)}}
			if g.rng.Intn(2) == 0 {
				off = c11Term{T: "word", N: []int{g.rng.Intn(65536)}}
			}
			rn := &c11Node{tok: c11Tok{K: "decl", Kind: "OpRegion", F: f, Args: []c11Term{{T: "byte", N: []int{g.rng.Intn(10)}}, off,
				[]c11Term{{T: "byte", N: []int{g.rng.Intn(256)}}, {T: "word", N: []int{g.rng.Intn(65536)}}, {T: "dword", N: []int{g.rng.Intn(65536), g.rng.Intn(65536)}}, {T: "one"}}[g.rng.Intn(4)]}}}
			if len(f.Segs) == 1 && !f.Abs && f.Carets == 0 && g.rng.Intn(4) == 0 {
				// length = invocation (last operand); offset = invocation without arguments or a name (D12)
				m := &c11Method{path: p, table: g.table, ord: g.ctr}
				g.fills = append(g.fills, func() {
					rn.tok.Args[2] = g.scopeExpr(m)
					if o := g.scopeExpr(m); o.T != "call" || len(o.A) == 0 {
						rn.tok.Args[1] = o
					}
				})
			}
			out = append(out, rn)
			if g.rng.Intn(4) > 0 {
				if fl := g.field(cur, late); fl != nil {
					out = append(out, fl)
				}
			}
		case k < 82:
			if fl := g.field(cur, late); fl != nil {
				out = append(out, fl)
			}
		case k < 91:
			f, p := g.declForm(cur, late)
			g.declared(cur, p, off)
			out = append(out, &c11Node{tok: c11Tok{K: "decl", Kind: "Mutex", F: f, Args: []c11Term{{T: "byte", N: []int{g.rng.Intn(16)}}}}})
		default:
			f, p := g.declForm(cur, late)
			g.declared(cur, p, off)
			out = append(out, &c11Node{tok: c11Tok{K: "decl", Kind: "Event", F: f}})
		}
	}
	return out
}

func (g *c11Gen) declared(cur, p []string, off bool) {
	g.objs = append(g.objs, c11Scope{path: p, table: g.table})
	if off || c11Key(p[:len(p)-1]) != c11Key(cur) {
		g.displaced[c11Key(p)] = true
	}
}

// Field / IndexField / BankField over a region and registers that the search rule finds from cur
func (g *c11Gen) field(cur []string, late bool) *c11Node {
	visible := func(all []c11Scope) []c11Scope {
		var vis []c11Scope
		for _, r := range all {
			if c11HasPrefix(cur, r.path[:len(r.path)-1]) {
				vis = append(vis, r)
			}
		}
		return vis
	}
	pick := func(vis []c11Scope) c11Scope { return vis[len(vis)-1-g.rng.Intn(c11Min(len(vis), 4))] }
	one := func(s c11Scope) *c11Form { return &c11Form{Segs: []string{s.path[len(s.path)-1]}} }
	// a container's region / data / bank name as written: mostly the plain segment, else absolute or with a ^
	// (the index register of an IndexField only as a plain segment: finding D11)
	form := func(sc c11Scope) *c11Form {
		switch k := g.rng.Intn(8); {
		case k == 0:
			return &c11Form{Abs: true, Segs: sc.path}
		case k == 1 && len(cur) == 1 && len(sc.path) == 1 && !g.isObjectScope(cur) && !(g.open["D1b"] && late):
			return &c11Form{Carets: 1, Segs: sc.path}
		}
		return one(sc)
	}
	regs, units := visible(g.regions), visible(g.units)
	t := c11Tok{K: "field", Kind: "Field", W: g.width(), Flags: g.rng.Intn(6) | g.rng.Intn(2)<<4 | g.rng.Intn(3)<<5}
	switch k := g.rng.Intn(10); {
	case k < 2 && len(units) >= 2:
		i, d := pick(units), pick(units)
		if c11Key(i.path) == c11Key(d.path) {
			d = units[0]
			if c11Key(i.path) == c11Key(d.path) {
				d = units[1]
			}
		}
		t.Kind, t.F, t.G = "IndexField", one(i), form(d)
		g.ixShadow = append(g.ixShadow, c11Scope{path: cur, table: g.table}, c11Scope{path: []string{i.path[len(i.path)-1]}})
	case k < 4 && len(units) >= 1 && len(regs) >= 1:
		v := c11Term{T: "byte", N: []int{g.rng.Intn(256)}}
		switch g.rng.Intn(3) {
		case 0:
			v = c11Term{T: "word", N: []int{g.rng.Intn(65536)}}
		case 1:
			v = c11Term{T: "dword", N: []int{g.rng.Intn(65536), g.rng.Intn(65536)}}
		}
		t.Kind, t.F, t.G, t.V = "BankField", form(pick(regs)), form(pick(units)), []c11Term{v}
	default:
		if len(regs) == 0 {
			return nil
		}
		t.F = form(pick(regs))
	}
	for i, n := 0, g.rng.Intn(6); i < n; i++ {
		bits := []int{1, 3, 8, 16, 32, 63, 64, 100, 4095, 4096, 70000, 1<<20 - 1, 1<<20 + 5, 1 << 27}[g.rng.Intn(14)]
		switch g.rng.Intn(6) {
		case 0:
			t.Els = append(t.Els, c11El{E: "skip", Bits: bits, Wl: g.width()})
		case 1:
			t.Els = append(t.Els, c11El{E: "access", At: g.rng.Intn(6), Aa: g.rng.Intn(16)})
		default:
			nm := g.fresh()
			t.Els = append(t.Els, c11El{E: "unit", Name: nm, Bits: bits, Wl: g.width()})
			g.units = append(g.units, c11Scope{path: c11Cat(cur, nm), table: g.table})
			g.objs = append(g.objs, c11Scope{path: c11Cat(cur, nm), table: g.table, ord: g.ctr, bank: t.Kind == "BankField"})
		}
	}
	return &c11Node{tok: t}
}

// ---- method bodies (level L1: straight-line statements, If/Else, nested and forward invocations)

func (g *c11Gen) callable(m *c11Method) []*c11Method {
	var out []*c11Method
	for _, c := range g.methods {
		if c.table > m.table {
			continue
		}
		par := c.path[:len(c.path)-1]
		if c11HasPrefix(m.path, par) || len(par) == 0 || (len(par) == 1 && !g.isObjectScope(par)) {
			out = append(out, c)
		}
	}
	return out
}

func (g *c11Gen) nameOf(m *c11Method, target []string) *c11Form {
	par := target[:len(target)-1]
	if c11HasPrefix(m.path, par) && (g.rng.Intn(4) > 0 || len(par) > 1 || (len(par) == 1 && g.isObjectScope(par))) {
		return &c11Form{Segs: []string{target[len(target)-1]}}
	}
	return &c11Form{Abs: true, Segs: target}
}

func (g *c11Gen) expr(m *c11Method, depth int, cs []*c11Method) c11Term {
	k := g.rng.Intn(12)
	if depth > 2 && k >= 8 {
		k = g.rng.Intn(8)
	}
	switch {
	case k < 3:
		if g.rng.Intn(6) == 0 && !((g.inBufSize || g.noBuf) && g.open["D14"]) { // deferred Buffer as an operand; its size may itself be an invocation
			b := g.bufferTerm()
			if len(cs) > 0 && depth < 2 && g.rng.Intn(3) == 0 && !(g.inWhile && g.open["D6"]) {
				was := g.inBufSize
				g.inBufSize = true // no Buffer inside the size term of a Buffer (finding D14)
				b.A = []c11Term{g.call(m, depth+2, cs)}
				g.inBufSize = was
			}
			return b
		}
		return g.constTerm()
	case (k == 3 || k == 4) && g.scopeLvl:
		return g.constTerm()
	case k == 3:
		return c11Term{T: "arg", N: []int{g.rng.Intn(7)}}
	case k == 4:
		return c11Term{T: "local", N: []int{g.rng.Intn(8)}}
	case k == 5 || k == 6:
		var vis []c11Scope
		pool := g.names
		if g.rng.Intn(3) == 0 {
			pool = g.objs // devices, regions, field units, mutexes, events, processors, ... (any object but a method)
		}
		isMethod := map[string]bool{}
		for _, c := range g.methods {
			isMethod[c11Key(c.path)] = true
		}
	nextName:
		for _, n := range pool {
			if isMethod[c11Key(n.path)] {
				continue // a method's name is an invocation, not a reference
			}
			if (g.inBufSize || g.inWhile) && g.open["D15"] && n.bank && n.table == m.table {
				continue // Buffer size naming a unit of a BankField of the same table (finding D15)
			}
			par := n.path[:len(n.path)-1]
			if n.table <= m.table && (c11HasPrefix(m.path, par) || len(par) == 0 || (len(par) == 1 && !g.isObjectScope(par))) {
				for i := 0; g.open["D10"] && i+1 < len(g.ixShadow); i += 2 {
					if g.ixShadow[i+1].path[0] == n.path[len(n.path)-1] && (c11HasPrefix(m.path, g.ixShadow[i].path) || c11Key(g.ixShadow[i].path) == c11Key(par)) {
						continue nextName
					}
				}
				vis = append(vis, n)
			}
		}
		if len(vis) == 0 {
			return g.constTerm()
		}
		return c11Term{T: "ref", F: g.nameOf(m, vis[g.rng.Intn(len(vis))].path)}
	case k == 7 && !g.open["D5"] && (!g.inWhile || !g.open["D6"]):
		return c11Term{T: "op", S: "Add", A: []c11Term{g.expr(m, depth+1, cs), g.expr(m, depth+1, cs)}}
	case k == 7 && g.inWhile: // inside a While operators are read properly, as long as they contain no names (finding D6)
		return c11Term{T: "op", S: []string{"Add", "Subtract"}[g.rng.Intn(2)], A: []c11Term{g.simple(), g.simple()}}
	default:
		if len(cs) == 0 {
			return g.constTerm()
		}
		return g.call(m, depth, cs)
	}
}

// expression outside a method body, evaluated in the scope of the declaration that m stands for
func (g *c11Gen) scopeExpr(m *c11Method) c11Term {
	g.scopeLvl = true
	defer func() { g.scopeLvl = false }()
	cs := g.callable(m)
	if len(cs) > 0 && g.rng.Intn(4) > 0 {
		return g.call(m, 1, cs)
	}
	return g.expr(m, 1, cs)
}

func (g *c11Gen) call(m *c11Method, depth int, cs []*c11Method) c11Term {
	c := cs[g.rng.Intn(len(cs))]
	t := c11Term{T: "call", F: g.nameOf(m, c.path), A: []c11Term{}}
	was := g.noBuf
	for i := 0; i < c.argc; i++ {
		// inside a While no Buffer among the arguments of an invocation (finding D14)
		g.noBuf = was || g.inWhile
		t.A = append(t.A, g.expr(m, depth+1, cs))
	}
	g.noBuf = was
	return t
}

func (g *c11Gen) stmts(m *c11Method, depth int, cs []*c11Method, n int) []c11Tok {
	var out []c11Tok
	for i := 0; i < n; i++ {
		// inside a While body a nested block may only be the last item of its block and has no Else (finding D7)
		blockOK := depth < 3 && (!g.inWhile || !g.open["D7"] || i == n-1)
		switch k := g.rng.Intn(11); {
		case k < 2:
			out = append(out, c11Tok{K: "stmt", Op: "ret", X: []c11Term{g.expr(m, 0, cs)}})
		case k < 4:
			out = append(out, c11Tok{K: "stmt", Op: "store", X: []c11Term{g.expr(m, 0, cs), {T: "local", N: []int{g.rng.Intn(8)}}}})
		case k == 4:
			out = append(out, c11Tok{K: "stmt", Op: []string{"inc", "dec"}[g.rng.Intn(2)], X: []c11Term{{T: "local", N: []int{g.rng.Intn(8)}}}})
		case k < 7 && blockOK:
			wasNB := g.noBuf
			g.noBuf = g.noBuf || g.inWhile // no Buffer in a block nested in a While body (finding D14)
			out = append(out, c11Tok{K: "if", X: []c11Term{g.expr(m, 1, cs)}, W: g.width()})
			lo := 1
			if !g.open["D9"] {
				lo = 0
			}
			out = append(out, g.stmts(m, depth+1, cs, lo+g.rng.Intn(3))...)
			out = append(out, c11Tok{K: "close"})
			if g.rng.Intn(2) == 0 && !(g.inWhile && g.open["D7"]) {
				out = append(out, c11Tok{K: "else", W: g.width()})
				out = append(out, g.stmts(m, depth+1, cs, g.rng.Intn(3))...)
				out = append(out, c11Tok{K: "close"})
			}
			g.noBuf = wasNB
		case k == 7 && blockOK && !g.open["D7"]: // While (whole class excluded while finding D7 is open); read in the deferred pass
			was, wasNB := g.inWhile, g.noBuf
			g.noBuf = g.noBuf || g.inWhile // a While nested in a While body: no Buffer (finding D14)
			g.inWhile = true
			var pred c11Term
			switch g.rng.Intn(3) {
			case 0:
				pred = c11Term{T: "op", S: []string{"LLess", "LEqual", "LGreater"}[g.rng.Intn(3)], A: []c11Term{g.simple(), g.simple()}}
			case 1:
				pred = c11Term{T: "local", N: []int{g.rng.Intn(8)}}
			default:
				pred = g.expr(m, 1, cs)
			}
			out = append(out, c11Tok{K: "while", X: []c11Term{pred}, W: g.width()})
			out = append(out, g.stmts(m, depth+1, cs, 1+g.rng.Intn(4))...)
			out = append(out, c11Tok{K: "close"})
			g.inWhile, g.noBuf = was, wasNB
		default:
			if len(cs) > 0 {
				out = append(out, c11Tok{K: "stmt", Op: "call", X: []c11Term{g.call(m, 0, cs)}})
			} else {
				out = append(out, c11Tok{K: "stmt", Op: "noop"})
			}
		}
	}
	return out
}

// operand without names: a constant, ArgN or LocalN
func (g *c11Gen) simple() c11Term {
	switch g.rng.Intn(3) {
	case 0:
		return c11Term{T: "arg", N: []int{g.rng.Intn(7)}}
	case 1:
		return c11Term{T: "local", N: []int{g.rng.Intn(8)}}
	}
	return []c11Term{{T: "zero"}, {T: "one"}, {T: "byte", N: []int{g.rng.Intn(256)}}, {T: "word", N: []int{g.rng.Intn(65536)}}}[g.rng.Intn(4)]
}

// chain builds a dependency chain that the parser can only resolve in 3 (deep=false) or 4 (deep=true)
// merge/relocate passes: a Scope directive into an object that arrives by relocation, into which the next
// object arrives by a Scope merge, ... with the last user wrapped in a Scope on a predefined scope (merged
// into a block that is visited before the table's own objects).  Every target is declared before its use,
// no ^ is written inside an object's scope or under a late directive, no path runs through an object.
func (g *c11Gen) chain(deep bool) []*c11Node {
	abs := func(p ...string) *c11Form { return &c11Form{Abs: true, Segs: p} }
	seg := func(s string) *c11Form { return &c11Form{Segs: []string{s}} }
	sc := func(f *c11Form, kids ...*c11Node) *c11Node {
		return &c11Node{tok: c11Tok{K: "scope", F: f, W: g.width()}, blk: true, kids: kids}
	}
	dev := func(f *c11Form, p []string, kids ...*c11Node) *c11Node {
		g.scopes = append(g.scopes, c11Scope{path: p, object: true, table: g.table})
		g.displaced[c11Key(p)] = true
		return &c11Node{tok: c11Tok{K: "open", Kind: "Device", F: f, W: g.width()}, blk: true, kids: kids}
	}
	leaf := func(cur []string) *c11Node {
		n := g.fresh()
		g.names = append(g.names, c11Scope{path: c11Cat(cur, n), table: g.table})
		g.displaced[c11Key(c11Cat(cur, n))] = true
		return &c11Node{tok: c11Tok{K: "decl", Kind: "Name", F: seg(n), Args: []c11Term{g.constTerm()}}}
	}
	i := g.rng.Intn(len(c11Predef) - 1)
	early, lateP := c11Predef[i], c11Predef[i+1+g.rng.Intn(len(c11Predef)-1-i)]
	any := c11Predef[g.rng.Intn(len(c11Predef))]
	a, b, c := g.fresh(), g.fresh(), g.fresh()
	if !deep {
		return []*c11Node{
			sc(abs(lateP), dev(&c11Form{Carets: 1, Segs: []string{a}}, []string{a})),
			sc(abs(a), dev(seg(b), []string{a, b})),
			sc(abs(any), sc(abs(a), sc(seg(b), leaf([]string{a, b})))),
		}
	}
	return []*c11Node{
		sc(abs(lateP), dev(&c11Form{Carets: 1, Segs: []string{a}}, []string{a})),
		sc(abs(early), dev(abs(a, b), []string{a, b})),
		sc(abs(a), sc(seg(b), dev(seg(c), []string{a, b, c}))),
		sc(abs(early), sc(abs(a), sc(seg(b), sc(seg(c), leaf([]string{a, b, c}))))),
	}
}

func c11Flatten(nodes []*c11Node, out *[]c11Tok) {
	for _, n := range nodes {
		*out = append(*out, n.tok)
		c11Flatten(n.kids, out)
		*out = append(*out, n.body...)
		if n.blk {
			*out = append(*out, c11Tok{K: "close"})
		}
	}
}

func c11RandomProgram(seed int64, open map[string]bool) []c11Tok {
	g := &c11Gen{rng: rand.New(rand.NewSource(seed)), open: open, maxDepth: 6}
	g.scopes = []c11Scope{{path: []string{}}}
	for _, p := range c11Predef {
		g.scopes = append(g.scopes, c11Scope{path: []string{p}})
	}
	ntab := 1 + g.rng.Intn(3)
	total := 50 + g.rng.Intn(351)
	if g.rng.Intn(8) == 0 {
		total = 5 + g.rng.Intn(40)
	}
	var tables [][]*c11Node
	for g.table = 1; g.table <= ntab; g.table++ {
		g.displaced = map[string]bool{}
		g.budget = total / ntab
		var top []*c11Node
		if ntab > 1 && g.rng.Intn(12) == 0 {
			tables = append(tables, top) // a table without any object
			continue
		}
		if k := g.rng.Intn(10); k < 3 {
			top = append(top, g.chain(k == 0)...)
		}
		if g.rng.Intn(15) == 0 { // a tower of nested objects far deeper than the usual nesting
			cur := []string{}
			var inner *c11Node
			for d := 8 + g.rng.Intn(40); d > 0; d-- {
				seg := g.fresh()
				cur = c11Cat(cur, seg)
				g.scopes = append(g.scopes, c11Scope{path: cur, object: true, table: g.table})
				g.objs = append(g.objs, c11Scope{path: cur, table: g.table})
				nd := &c11Node{tok: c11Tok{K: "open", Kind: "Device", F: &c11Form{Segs: []string{seg}}, W: g.width()}, blk: true}
				if inner == nil {
					top = append(top, nd)
				} else {
					inner.kids = append(inner.kids, nd)
				}
				inner = nd
			}
			inner.kids = g.level(cur, g.maxDepth-1, false, false, 3)
		}
		for g.budget > 0 {
			top = append(top, g.level(nil, 0, false, false, 2+g.rng.Intn(8))...)
		}
		tables = append(tables, top)
	}
	for _, m := range g.methods {
		m.node.body = g.stmts(m, 0, g.callable(m), g.rng.Intn(5))
	}
	for _, f := range g.fills {
		f()
	}
	var toks []c11Tok
	for _, top := range tables {
		c11Flatten(top, &toks)
		toks = append(toks, c11Tok{K: "endtable"})
	}
	return toks
}

// TestVerifC11Random: C11_N programs from VERIF_SEED, results to C11_RAND_OUT.
func TestVerifC11Random(t *testing.T) {
	if os.Getenv("C11_RAND_OUT") == "" {
		t.Skip("no C11_RAND_OUT")
	}
	seed, _ := strconv.ParseInt(os.Getenv("VERIF_SEED"), 10, 64)
	n, _ := strconv.Atoi(os.Getenv("C11_N"))
	open := map[string]bool{}
	for _, id := range strings.Split(os.Getenv("C11_OPEN"), ",") {
		if id != "" {
			open[id] = true
		}
	}
	var progs []c11Prog
	for i := 0; i < n; i++ {
		toks := c11RandomProgram(seed*1000003+int64(i), open)
		raw, err := json.Marshal(toks)
		if err != nil {
			t.Fatal(err)
		}
		p := c11Prog{ID: 1000001 + i, Raw: raw}
		if err := json.Unmarshal(raw, &p.Toks); err != nil { // the same decoding path as TLC-made programs
			t.Fatal(fmt.Errorf("generator wrote tokens it cannot read back: %v", err))
		}
		progs = append(progs, p)
	}
	if n > 0 {
		// one fixed program per run whose Device is longer than 2^20 bytes: the only way to a 4-byte package
		// length with a non-zero top byte (a string keeps the token stream small)
		big := strings.Repeat("firefly ", 1<<17+5)
		one := func(s string) *c11Form { return &c11Form{Segs: []string{s}} }
		toks := []c11Tok{{K: "open", Kind: "Device", F: one("BIG0"), W: 1},
			{K: "decl", Kind: "Name", F: one("STR0"), Args: []c11Term{{T: "string", S: big}}},
			{K: "decl", Kind: "Name", F: one("AFT0"), Args: []c11Term{{T: "byte", N: []int{7}}}},
			{K: "close"}, {K: "decl", Kind: "Name", F: one("AFT1"), Args: []c11Term{{T: "one"}}}, {K: "endtable"}}
		raw, _ := json.Marshal(toks)
		p := c11Prog{ID: 1000001 + n, Raw: raw}
		if err := json.Unmarshal(raw, &p.Toks); err != nil {
			t.Fatal(err)
		}
		progs = append(progs, p)
	}
	if n > 0 && os.Getenv("VERIF_TIER") == "thorough" {
		// (thorough tier only: judging it costs the monitor several minutes)
		// one fixed FLAT program per run at scale: 1300 scope-level buffers whose size term names one and the same
		// object (state that a parser accumulates per table - counters, stacks, budgets - only shows with many
		// references in one table; the random programs above have at most a few hundred objects)
		one := func(s string) *c11Form { return &c11Form{Segs: []string{s}} }
		toks := []c11Tok{{K: "decl", Kind: "Name", F: one("LEN0"), Args: []c11Term{{T: "byte", N: []int{2}}}}}
		for i := 0; i < 1300; i++ {
			seg := fmt.Sprintf("%c%03d", 'B'+byte(i/1000), i%1000)
			toks = append(toks, c11Tok{K: "decl", Kind: "Name", F: one(seg),
				Args: []c11Term{{T: "buffer", A: []c11Term{{T: "ref", F: one("LEN0")}}, N: []int{1, 2}}}})
		}
		toks = append(toks, c11Tok{K: "endtable"})
		raw, _ := json.Marshal(toks)
		p := c11Prog{ID: 1000002 + n, Raw: raw}
		if err := json.Unmarshal(raw, &p.Toks); err != nil {
			t.Fatal(err)
		}
		progs = append(progs, p)
	}
	c11RunParallel(t, progs, os.Getenv("C11_RAND_OUT"))
}
