//go:build verif
// +build verif

package main

// Conformance harness for the extension family extra-kbuild, package main of
// /repo/kbuild: CompleteRedirects (cr), CompileLinkerScript (ls), GetOffsets +
// WriteOffsets (wo), the tool version checks (ve), CheckDeps over a fake PATH
// (cd) and CompileRT0 + LinkKernel over fake tools (rt).
//
// It contains no oracle.  It
//   - turns an abstract case (emitted by TLC from specs/kbuildx/KbxModel.tla or
//     drawn by the seeded generator below) into the files the real code reads
//     (a synthetic ELF image, constants.inc / linker.ld.in, fake tools ...),
//   - runs the REAL code on it, always in child processes (most steps end the
//     process on their error path): XKB_RUNS times in one process and once
//     more in each of XKB_CHILDREN fresh processes,
//   - projects what the code left behind (image bytes, files written, log
//     lines, Context fields) into one `run` event per run.
// The events are judged by the TLA+ monitor specs/kbuildx/KbxTrace.tla.
//
// env: XKB_CASES (ndjson, optional), XKB_NRAND (random cases), XKB_REAL=1 (the
// repository's own inputs), XKB_TRACE (output), XKB_RUNS, XKB_CHILDREN.

import (
	"bufio"
	"bytes"
	"encoding/binary"
	"encoding/json"
	"fmt"
	"io/ioutil"
	"math/rand"
	"os"
	"os/exec"
	"path/filepath"
	"sort"
	"strconv"
	"strings"
	"syscall"
	"testing"
	"time"
)

// ---------------------------------------------------------------- cases

type xkbSym struct {
	Name string
	Val  [4]int
}

func (s *xkbSym) UnmarshalJSON(b []byte) error {
	var raw []json.RawMessage
	if err := json.Unmarshal(b, &raw); err != nil || len(raw) != 2 {
		return fmt.Errorf("bad symbol %s", b)
	}
	if err := json.Unmarshal(raw[0], &s.Name); err != nil {
		return err
	}
	return json.Unmarshal(raw[1], &s.Val)
}

func (s xkbSym) MarshalJSON() ([]byte, error) {
	return json.Marshal([]interface{}{s.Name, s.Val})
}

type xkbTool struct {
	Name   string
	State  string // absent | present
	Rc     int
	Banner []string
}

func (s *xkbTool) UnmarshalJSON(b []byte) error {
	var raw []json.RawMessage
	if err := json.Unmarshal(b, &raw); err != nil || len(raw) != 4 {
		return fmt.Errorf("bad tool %s", b)
	}
	json.Unmarshal(raw[0], &s.Name)
	json.Unmarshal(raw[1], &s.State)
	json.Unmarshal(raw[2], &s.Rc)
	return json.Unmarshal(raw[3], &s.Banner)
}

func (s xkbTool) MarshalJSON() ([]byte, error) {
	return json.Marshal([]interface{}{s.Name, s.State, s.Rc, xkbNN(s.Banner)})
}

type xkbRegEntry struct {
	Ver   string
	Table []xkbSym
}

func (s *xkbRegEntry) UnmarshalJSON(b []byte) error {
	var raw []json.RawMessage
	if err := json.Unmarshal(b, &raw); err != nil || len(raw) != 2 {
		return fmt.Errorf("bad registry entry %s", b)
	}
	json.Unmarshal(raw[0], &s.Ver)
	return json.Unmarshal(raw[1], &s.Table)
}

func (s xkbRegEntry) MarshalJSON() ([]byte, error) {
	t := s.Table
	if t == nil {
		t = []xkbSym{}
	}
	return json.Marshal([]interface{}{s.Ver, t})
}

type xkbRtFile struct {
	Rank int
	Kind string
}

func (s *xkbRtFile) UnmarshalJSON(b []byte) error {
	var raw []json.RawMessage
	if err := json.Unmarshal(b, &raw); err != nil || len(raw) != 2 {
		return fmt.Errorf("bad rt0 file %s", b)
	}
	json.Unmarshal(raw[0], &s.Rank)
	return json.Unmarshal(raw[1], &s.Kind)
}

func (s xkbRtFile) MarshalJSON() ([]byte, error) {
	return json.Marshal([]interface{}{s.Rank, s.Kind})
}

// xkbIn is the union of the inputs of all components (only the fields of the case's component are set).
type xkbIn struct {
	// cr
	Syms   []xkbSym    `json:"syms,omitempty"`
	Reds   [][2]string `json:"reds,omitempty"`
	Symtab *bool       `json:"symtab,omitempty"`
	Sec    *int        `json:"sec,omitempty"`
	Fill   *[4]int     `json:"fill,omitempty"`
	// ls
	Have   string     `json:"have,omitempty"`
	Consts [][]string `json:"consts,omitempty"`
	Script []string   `json:"script,omitempty"`
	// wo
	Reg  []xkbRegEntry `json:"reg,omitempty"`
	Ver  string        `json:"ver,omitempty"`
	Real bool          `json:"real,omitempty"`
	// ve
	Tool   string   `json:"tool,omitempty"`
	Banner []string `json:"banner,omitempty"`
	// cd
	Tools []xkbTool `json:"tools,omitempty"`
	// rt
	Files  []xkbRtFile `json:"files,omitempty"`
	Nred   *int        `json:"nred,omitempty"`
	Failat *int        `json:"failat,omitempty"`
	// ck
	Lines   [][]string `json:"lines,omitempty"` // the script `go build -n` prints
	Nm      [][]string `json:"nm,omitempty"`    // the lines `go tool nm` prints
	Buildrc *int       `json:"buildrc,omitempty"`
	Nmrc    *int       `json:"nmrc,omitempty"`
	Objrc   *int       `json:"objrc,omitempty"`
}

type xkbCase struct {
	Comp string `json:"comp"`
	Leg  string `json:"leg,omitempty"`
	Runs int    `json:"runs,omitempty"` // runs in the first process (default XKB_RUNS)
	In   xkbIn  `json:"in"`
}

func xkbNN(s []string) []string {
	if s == nil {
		return []string{}
	}
	return s
}

func xkbChars(s string) []string {
	out := make([]string, 0, len(s))
	for i := 0; i < len(s); i++ {
		out = append(out, s[i:i+1])
	}
	return out
}

func xkbStr(c []string) string { return strings.Join(c, "") }

func xkbLimbs(v uint64) [4]int {
	return [4]int{int(v >> 48 & 0xffff), int(v >> 32 & 0xffff), int(v >> 16 & 0xffff), int(v & 0xffff)}
}

func xkbWord(l [4]int) uint64 {
	return uint64(l[0])<<48 | uint64(l[1])<<32 | uint64(l[2])<<16 | uint64(l[3])
}

// xkbCaseJSON renders the input of a case exactly as the monitor reads it (empty sequences as [], all fields of the component present).
func xkbCaseJSON(c xkbCase) map[string]interface{} {
	in := map[string]interface{}{}
	switch c.Comp {
	case "cr":
		syms := c.In.Syms
		if syms == nil {
			syms = []xkbSym{}
		}
		reds := c.In.Reds
		if reds == nil {
			reds = [][2]string{}
		}
		in["syms"], in["reds"], in["symtab"], in["sec"], in["fill"] = syms, reds, *c.In.Symtab, *c.In.Sec, *c.In.Fill
	case "ls":
		cs := [][]string{}
		for _, l := range c.In.Consts {
			cs = append(cs, xkbNN(l))
		}
		in["have"], in["consts"], in["script"] = c.In.Have, cs, xkbNN(c.In.Script)
	case "wo":
		reg := c.In.Reg
		if reg == nil {
			reg = []xkbRegEntry{}
		}
		in["reg"], in["ver"] = reg, c.In.Ver
	case "ve":
		in["tool"], in["banner"] = c.In.Tool, xkbNN(c.In.Banner)
	case "cd":
		in["tools"] = c.In.Tools
	case "rt":
		fs := c.In.Files
		if fs == nil {
			fs = []xkbRtFile{}
		}
		in["files"], in["nred"], in["failat"] = fs, *c.In.Nred, *c.In.Failat
	case "ck":
		nn := func(ls [][]string) [][]string {
			out := [][]string{}
			for _, l := range ls {
				out = append(out, xkbNN(l))
			}
			return out
		}
		in["lines"], in["nm"], in["buildrc"], in["nmrc"], in["objrc"] = nn(c.In.Lines), nn(c.In.Nm), *c.In.Buildrc, *c.In.Nmrc, *c.In.Objrc
	}
	return in
}

// xkbDecodeCase decodes one line of a cases file; ok is false for a case of the other package's harness.
func xkbDecodeCase(line []byte) (c xkbCase, ok bool, err error) {
	if line[0] == '"' { // TLC's CSVWrite of ToJson(..) yields a JSON string literal containing JSON
		var s string
		if err := json.Unmarshal(line, &s); err != nil {
			return c, false, fmt.Errorf("bad case line: %v", err)
		}
		line = []byte(s)
	}
	var raw struct {
		Comp string          `json:"comp"`
		Leg  string          `json:"leg"`
		Runs int             `json:"runs"`
		In   json.RawMessage `json:"in"`
	}
	if err := json.Unmarshal(line, &raw); err != nil {
		return c, false, fmt.Errorf("bad case %s: %v", line, err)
	}
	if !xkbMine(raw.Comp) {
		return c, false, nil
	}
	c = xkbCase{Comp: raw.Comp, Leg: raw.Leg, Runs: raw.Runs}
	if err := json.Unmarshal(raw.In, &c.In); err != nil {
		return c, false, fmt.Errorf("bad case %s: %v", line, err)
	}
	return c, true, nil
}

func xkbReadCases(t *testing.T, path string) []xkbCase {
	f, err := os.Open(path)
	if err != nil {
		t.Fatal(err)
	}
	defer f.Close()
	var cases []xkbCase
	sc := bufio.NewScanner(f)
	sc.Buffer(make([]byte, 1<<20), 1<<26)
	for sc.Scan() {
		line := bytes.TrimSpace(sc.Bytes())
		if len(line) == 0 {
			continue
		}
		c, ok, err := xkbDecodeCase(line)
		if err != nil {
			t.Fatal(err)
		}
		if ok {
			cases = append(cases, c)
		}
	}
	return cases
}

// ---------------------------------------------------------------- encoders: abstract input -> the files the code reads

// xkbELF builds a little-endian ELF64 image: .text, [.goredirectstbl of sec bytes], .guard, [.symtab, .strtab], .shstrtab.
// The table section and the guard behind it are filled with the word `fill`.  Returns the image, the file offset of
// the table section (where it would be, when absent) and the length of the observation window.
func xkbELF(in xkbIn) (img []byte, off, win int) {
	n := len(in.Reds)
	sec := *in.Sec
	secBytes := sec
	if secBytes < 0 {
		secBytes = 0
	}
	secBytes = (secBytes + 7) &^ 7
	win = secBytes
	if 16*n > win {
		win = 16 * n
	}
	win += 32
	guard := win - secBytes + 64
	var fill [8]byte
	binary.LittleEndian.PutUint64(fill[:], xkbWord(*in.Fill))

	type shdr struct {
		name           string
		typ            uint32
		flags          uint64
		off, size      uint64
		link, info     uint32
		align, entsize uint64
		nameOff        uint32
	}
	buf := make([]byte, 64)
	secs := []shdr{{}}
	align := 16
	add := func(name string, typ uint32, flags uint64, data []byte, link, info uint32, entsize uint64) {
		for len(buf)%align != 0 {
			buf = append(buf, 0)
		}
		secs = append(secs, shdr{name: name, typ: typ, flags: flags, off: uint64(len(buf)), size: uint64(len(data)), link: link, info: info,
			align: 8, entsize: entsize})
		buf = append(buf, data...)
	}
	add(".text", 1, 6, bytes.Repeat([]byte{0x90}, 16), 0, 0, 0)
	for len(buf) < 0x100 {
		buf = append(buf, 0)
	}
	off = len(buf)
	if sec >= 0 {
		add(".goredirectstbl", 1, 3, bytes.Repeat(fill[:], secBytes/8), 0, 0, 0)
	}
	align = 8 // the guard follows the table section without a gap
	add(".guard", 1, 3, bytes.Repeat(fill[:], guard/8), 0, 0, 0)
	align = 16
	if *in.Symtab {
		strtab := []byte{0}
		symtab := make([]byte, 24)
		for _, s := range in.Syms {
			var e [24]byte
			binary.LittleEndian.PutUint32(e[0:], uint32(len(strtab)))
			strtab = append(strtab, s.Name...)
			strtab = append(strtab, 0)
			e[4] = 1<<4 | 2 // STB_GLOBAL, STT_FUNC
			v := xkbWord(s.Val)
			shndx := uint16(1)
			if v == 0 {
				shndx = 0 // an undefined symbol
			}
			binary.LittleEndian.PutUint16(e[6:], shndx)
			binary.LittleEndian.PutUint64(e[8:], v)
			symtab = append(symtab, e[:]...)
		}
		add(".symtab", 2, 0, symtab, uint32(len(secs)+1), 1, 24)
		add(".strtab", 3, 0, strtab, 0, 0, 0)
	}
	shstr := []byte{0}
	for i := range secs {
		if secs[i].name != "" {
			secs[i].nameOff = uint32(len(shstr))
			shstr = append(shstr, secs[i].name...)
			shstr = append(shstr, 0)
		}
	}
	nameOff := uint32(len(shstr))
	shstr = append(shstr, ".shstrtab"...)
	shstr = append(shstr, 0)
	add(".shstrtab", 3, 0, shstr, 0, 0, 0)
	secs[len(secs)-1].nameOff = nameOff
	for len(buf)%16 != 0 {
		buf = append(buf, 0)
	}
	shoff := len(buf)
	for _, s := range secs {
		var h [64]byte
		binary.LittleEndian.PutUint32(h[0:], s.nameOff)
		binary.LittleEndian.PutUint32(h[4:], s.typ)
		binary.LittleEndian.PutUint64(h[8:], s.flags)
		binary.LittleEndian.PutUint64(h[24:], s.off)
		binary.LittleEndian.PutUint64(h[32:], s.size)
		binary.LittleEndian.PutUint32(h[40:], s.link)
		binary.LittleEndian.PutUint32(h[44:], s.info)
		binary.LittleEndian.PutUint64(h[48:], s.align)
		binary.LittleEndian.PutUint64(h[56:], s.entsize)
		buf = append(buf, h[:]...)
	}
	copy(buf, []byte{0x7f, 'E', 'L', 'F', 2, 1, 1, 0})
	binary.LittleEndian.PutUint16(buf[16:], 2)  // ET_EXEC
	binary.LittleEndian.PutUint16(buf[18:], 62) // EM_X86_64
	binary.LittleEndian.PutUint32(buf[20:], 1)
	binary.LittleEndian.PutUint64(buf[24:], 0x100000)
	binary.LittleEndian.PutUint64(buf[40:], uint64(shoff))
	binary.LittleEndian.PutUint16(buf[52:], 64)
	binary.LittleEndian.PutUint16(buf[58:], 64)
	binary.LittleEndian.PutUint16(buf[60:], uint16(len(secs)))
	binary.LittleEndian.PutUint16(buf[62:], uint16(len(secs)-1))
	return buf, off, win
}

func xkbScript(path, text string, rc int) error {
	// a fake tool: prints the text stored next to it and ends with the given exit status
	if err := ioutil.WriteFile(path+".txt", []byte(text), 0644); err != nil {
		return err
	}
	return ioutil.WriteFile(path, []byte("#!/bin/sh\n/bin/cat \"$0.txt\"\nexit "+strconv.Itoa(rc)+"\n"), 0755)
}

func xkbRtName(rank int, kind string) string {
	base := fmt.Sprintf("f%02d", rank)
	switch kind {
	case "s", "dir.s":
		return base + ".s"
	case "S":
		return base + ".S"
	}
	return base + "." + kind
}

const xkbRecorder = "#!/bin/sh\nfor a in \"$@\"; do printf '%s\\037' \"$a\"; done >> \"$0.log\"\nprintf '\\n' >> \"$0.log\"\n"

// ---------------------------------------------------------------- one run of the code under test

var xkbHome string

const xkbTag = "main"

// xkbGlobals remembers the process-wide state a run may change and returns the function that restores it.
func xkbGlobals() func() {
	path0 := os.Getenv("PATH")
	reg0 := offsetsByVersion
	return func() {
		os.Setenv("PATH", path0)
		offsetsByVersion = reg0
	}
}

type xkbState struct {
	ctx *Context
}

// xkbSetup writes the input files of the case into dir.
func xkbSetup(c xkbCase, dir string) error {
	in := c.In
	switch c.Comp {
	case "cr":
		img, off, win := xkbELF(in)
		if err := ioutil.WriteFile(filepath.Join(dir, "kernel.bin"), img, 0755); err != nil {
			return err
		}
		if err := ioutil.WriteFile(filepath.Join(dir, "kernel.orig"), img, 0644); err != nil {
			return err
		}
		return ioutil.WriteFile(filepath.Join(dir, "window"), []byte(fmt.Sprintf("%d %d", off, win)), 0644)
	case "ls":
		rt0 := filepath.Join(dir, "arch", "amd64", "rt0")
		scr := filepath.Join(dir, "arch", "amd64", "script")
		for _, d := range []string{rt0, scr, filepath.Join(dir, "work")} {
			if err := os.MkdirAll(d, 0755); err != nil {
				return err
			}
		}
		if in.Have != "noconst" {
			var b strings.Builder
			for _, l := range in.Consts {
				b.WriteString(xkbStr(l))
				b.WriteString("\n")
			}
			if err := ioutil.WriteFile(filepath.Join(rt0, "constants.inc"), []byte(b.String()), 0644); err != nil {
				return err
			}
		}
		if in.Have != "noscript" {
			return ioutil.WriteFile(filepath.Join(scr, "linker.ld.in"), []byte(xkbStr(in.Script)), 0644)
		}
	case "cd":
		bin := filepath.Join(dir, "bin")
		if err := os.MkdirAll(bin, 0755); err != nil {
			return err
		}
		for _, tl := range in.Tools {
			if tl.State != "present" {
				continue
			}
			if err := xkbScript(filepath.Join(bin, tl.Name), xkbStr(tl.Banner), tl.Rc); err != nil {
				return err
			}
		}
	case "rt":
		rt0 := filepath.Join(dir, "arch", "amd64", "rt0")
		for _, d := range []string{rt0, filepath.Join(dir, "work"), filepath.Join(dir, "tools"), filepath.Join(dir, "bin")} {
			if err := os.MkdirAll(d, 0755); err != nil {
				return err
			}
		}
		for _, f := range in.Files {
			p := filepath.Join(rt0, xkbRtName(f.Rank, f.Kind))
			if f.Kind == "dir.s" {
				if err := os.MkdirAll(p, 0755); err != nil {
					return err
				}
				continue
			}
			if err := ioutil.WriteFile(p, []byte("; "+filepath.Base(p)+"\n"), 0644); err != nil {
				return err
			}
		}
		fail := ""
		if *in.Failat > 0 {
			fail = fmt.Sprintf("f%02d.s", *in.Failat)
		}
		nasm := xkbRecorder + "for a in \"$@\"; do last=\"$a\"; done\ncase \"$last\" in */" + fail + ") exit 1;; esac\nexit 0\n"
		if fail == "" {
			nasm = xkbRecorder + "exit 0\n"
		}
		if err := ioutil.WriteFile(filepath.Join(dir, "tools", "nasm"), []byte(nasm), 0755); err != nil {
			return err
		}
		return ioutil.WriteFile(filepath.Join(dir, "tools", "ld"), []byte(xkbRecorder+"exit 0\n"), 0755)
	case "ck":
		tools := filepath.Join(dir, "tools")
		for _, d := range []string{tools, filepath.Join(dir, "work")} {
			if err := os.MkdirAll(d, 0755); err != nil {
				return err
			}
		}
		join := func(ls [][]string) string {
			var b strings.Builder
			for _, l := range ls {
				b.WriteString(xkbStr(l) + "\n")
			}
			return b.String()
		}
		w := func(name, text string, mode os.FileMode) error {
			return ioutil.WriteFile(filepath.Join(tools, name), []byte(text), mode)
		}
		for _, f := range [][2]string{{"script.txt", join(in.Lines)}, {"nm.txt", join(in.Nm)}, {"build.rc", strconv.Itoa(*in.Buildrc)}, {"nm.rc", strconv.Itoa(*in.Nmrc)}} {
			if err := w(f[0], f[1], 0644); err != nil {
				return err
			}
		}
		// harmless stand-ins for the tools a build script calls
		for _, n := range []string{"buildid", "xbuildid", "compile"} {
			if err := w(n, "#!/bin/sh\nexit 0\n", 0755); err != nil {
				return err
			}
		}
		if err := w("objcopy", xkbRecorder+"exit "+strconv.Itoa(*in.Objrc)+"\n", 0755); err != nil {
			return err
		}
		return w("go", xkbFakeGoMain, 0755)
	}
	return nil
}

// a fake go tool for CompileKernel: `go build ... -n` prints the script and records its arguments and environment,
// `go tool nm` prints the symbol list
const xkbFakeGoMain = `#!/bin/sh
d="$(dirname "$0")"
case "$1" in
build) printf '%s\n' "GOARCH=$GOARCH CGO_ENABLED=$CGO_ENABLED GOPATH=$GOPATH" > "$d/go.env"
  for a in "$@"; do printf '%s\037' "$a"; done > "$d/go.args"
  /bin/cat "$d/script.txt"; exit $(/bin/cat "$d/build.rc");;
tool) /bin/cat "$d/nm.txt"; exit $(/bin/cat "$d/nm.rc");;
esac
exit 2
`

// xkbCall runs the real code.  It may end the process (log.Fatalf / os.Exit in the code under test).
func xkbCall(c xkbCase, dir string, st *xkbState, out map[string]interface{}) {
	in := c.In
	switch c.Comp {
	case "cr":
		ctx := &Context{kernel: filepath.Join(dir, "kernel.bin"), WorkDir: dir}
		for i, r := range in.Reds {
			ctx.Redirects = append(ctx.Redirects, &SymbolRedirect{Comment: fmt.Sprintf("f%d.go:%d:1", i+1, i+1), SrcSymbol: r[0], DstSymbol: r[1]})
		}
		st.ctx = ctx
		ctx.CompleteRedirects()
	case "ls":
		if err := os.Chdir(dir); err != nil {
			panic("harness: " + err.Error())
		}
		ctx := &Context{Architectures: []string{"amd64"}, WorkDir: filepath.Join(dir, "work")}
		st.ctx = ctx
		ctx.CompileLinkerScript()
	case "wo":
		reg := make(map[string][]SymbolOffset)
		for _, e := range in.Reg {
			var t []SymbolOffset
			for _, s := range e.Table {
				t = append(t, SymbolOffset{Symbol: s.Name, Offset: uintptr(xkbWord(s.Val))})
			}
			reg[e.Ver] = t
		}
		offsetsByVersion = reg
		ctx := &Context{GoVersion: in.Ver, WorkDir: dir}
		st.ctx = ctx
		ctx.GetOffsets()
		ctx.WriteOffsets()
	case "ve":
		b := []byte(xkbStr(in.Banner))
		if in.Tool == "objcopy" {
			m := checkObjcopyVersion(b)
			out["ok"], out["msg"] = m == "", xkbChars(m)
		} else {
			m := checkXorrisoVersion(b)
			out["ok"], out["msg"] = m == "", xkbChars(m)
		}
	case "cd":
		os.Setenv("PATH", filepath.Join(dir, "bin"))
		ctx := &Context{}
		st.ctx = ctx
		ctx.CheckDeps()
	case "rt":
		if err := os.Chdir(dir); err != nil {
			panic("harness: " + err.Error())
		}
		os.Setenv("PATH", filepath.Join(dir, "tools"))
		ctx := &Context{Architectures: []string{"amd64"}, WorkDir: filepath.Join(dir, "work"), cwd: dir, nasm: filepath.Join(dir, "tools", "nasm")}
		for i := 0; i < *in.Nred; i++ {
			ctx.Redirects = append(ctx.Redirects, &SymbolRedirect{})
		}
		st.ctx = ctx
		ctx.CompileRT0()
		ctx.LinkKernel()
	case "ck":
		if err := os.Chdir(dir); err != nil {
			panic("harness: " + err.Error())
		}
		os.Setenv("PATH", filepath.Join(dir, "tools")+":/bin:/usr/bin")
		ctx := &Context{Architectures: []string{"amd64"}, WorkDir: filepath.Join(dir, "work"), cwd: dir, objcopy: filepath.Join(dir, "tools", "objcopy")}
		st.ctx = ctx
		ctx.CompileKernel()
	default:
		panic("harness: unknown component " + c.Comp)
	}
}

// xkbWordIn reports whether sym occurs in line as a word of its own (not inside a longer symbol name).
func xkbWordIn(line, sym string) bool {
	isSym := func(c byte) bool {
		return c == '_' || c == '.' || c == '/' || c == '(' || c == ')' || c == '*' || c == '-' || c >= '0' && c <= '9' || c >= 'a' && c <= 'z' || c >= 'A' && c <= 'Z'
	}
	if sym == "" {
		return false
	}
	for from := 0; ; {
		i := strings.Index(line[from:], sym)
		if i < 0 {
			return false
		}
		i += from
		j := i + len(sym)
		if (i == 0 || !isSym(line[i-1])) && (j == len(line) || !isSym(line[j]) || line[j] == '.' && (j+1 == len(line) || line[j+1] == ' ')) {
			return true
		}
		from = i + 1
	}
}

// xkbNasmDefs reads `NAME equ NUMBER` definitions the way the assembler does (comments and blank lines dropped);
// a line that is no such definition yields the name "?".
func xkbNasmDefs(text string) []xkbSym {
	defs := []xkbSym{}
	for _, l := range strings.Split(text, "\n") {
		if i := strings.IndexByte(l, ';'); i >= 0 {
			l = l[:i]
		}
		f := strings.Fields(l)
		if len(f) == 0 {
			continue
		}
		d := xkbSym{"?", [4]int{-1, -1, -1, -1}}
		if len(f) == 3 && strings.EqualFold(f[1], "equ") {
			num, base := f[2], 10
			switch {
			case strings.HasPrefix(num, "0x") || strings.HasPrefix(num, "0X"):
				num, base = num[2:], 16
			case strings.HasSuffix(num, "h") || strings.HasSuffix(num, "H"):
				num, base = num[:len(num)-1], 16
			}
			if v, err := strconv.ParseUint(num, base, 64); err == nil {
				d = xkbSym{f[0], xkbLimbs(v)}
			}
		}
		defs = append(defs, d)
	}
	return defs
}

func xkbLogLines(dir string) []string {
	data, _ := ioutil.ReadFile(filepath.Join(dir, "log.txt"))
	lines := []string{}
	if len(data) == 0 {
		return lines
	}
	s := strings.TrimSuffix(string(data), "\n")
	for _, l := range strings.Split(s, "\n") {
		lines = append(lines, strings.Replace(l, dir, "$DIR", -1)) // the scratch directory differs from run to run
	}
	return lines
}

func xkbRankOf(path, ext string) int {
	b := filepath.Base(path)
	if len(b) == 3+len(ext) && b[0] == 'f' && strings.HasSuffix(b, ext) {
		if r, err := strconv.Atoi(b[1:3]); err == nil {
			return r
		}
	}
	return -2
}

func xkbRecorded(path string) [][]string {
	data, _ := ioutil.ReadFile(path)
	var calls [][]string
	for _, l := range strings.Split(string(data), "\n") {
		if l == "" {
			continue
		}
		calls = append(calls, strings.Split(strings.TrimSuffix(l, "\x1f"), "\x1f"))
	}
	return calls
}

// xkbObserve projects what the run left behind.  st is nil when the process ended inside the code under test.
func xkbObserve(c xkbCase, dir string, st *xkbState, out map[string]interface{}) {
	in := c.In
	switch c.Comp {
	case "cr":
		orig, _ := ioutil.ReadFile(filepath.Join(dir, "kernel.orig"))
		now, _ := ioutil.ReadFile(filepath.Join(dir, "kernel.bin"))
		var off, win int
		w, _ := ioutil.ReadFile(filepath.Join(dir, "window"))
		fmt.Sscanf(string(w), "%d %d", &off, &win)
		words := [][4]int{}
		for p := off; p+8 <= off+win && p+8 <= len(now); p += 8 {
			words = append(words, xkbLimbs(binary.LittleEndian.Uint64(now[p:])))
		}
		outside := 0
		for p := 0; p < len(orig) || p < len(now); p++ {
			if p >= off && p < off+win && p < len(now) && p < len(orig) {
				continue
			}
			if p >= len(orig) || p >= len(now) || orig[p] != now[p] {
				outside++
			}
		}
		lines := xkbLogLines(dir)
		named := []bool{}
		for i, r := range in.Reds {
			pos := fmt.Sprintf("f%d.go:%d:1", i+1, i+1)
			n := false
			for _, l := range lines {
				if strings.Contains(l, pos) || xkbWordIn(l, r[0]) || xkbWordIn(l, r[1]) {
					n = true
					break
				}
			}
			named = append(named, n)
		}
		out["words"], out["outside"], out["named"] = words, outside, named
	case "ls":
		data, err := ioutil.ReadFile(filepath.Join(dir, "work", "linker.ld"))
		out["written"], out["text"] = err == nil, string(data)
	case "wo":
		offs := []xkbSym{}
		if st != nil && st.ctx != nil {
			for _, o := range st.ctx.Offsets {
				offs = append(offs, xkbSym{o.Symbol, xkbLimbs(uint64(o.Offset))})
			}
		}
		data, err := ioutil.ReadFile(filepath.Join(dir, "go_asm_offsets.inc"))
		out["offs"], out["written"], out["defs"] = offs, err == nil, xkbNasmDefs(string(data))
	case "cd":
		paths := []string{}
		if st != nil && st.ctx != nil {
			for _, p := range []string{st.ctx.objcopy, st.ctx.xorriso, st.ctx.grubMkrescue, st.ctx.nasm} {
				if rel, err := filepath.Rel(filepath.Join(dir, "bin"), p); err == nil {
					p = rel
				}
				paths = append(paths, p)
			}
		}
		printed := strings.Join(xkbLogLines(dir), "\n")
		mention := []int{}
		for _, tl := range in.Tools {
			mention = append(mention, strings.Index(printed, tl.Name))
		}
		out["paths"], out["mention"] = paths, mention
	case "rt":
		calls := []map[string]interface{}{}
		for _, a := range xkbRecorded(filepath.Join(dir, "tools", "nasm.log")) {
			call := map[string]interface{}{"src": -2, "obj": -2, "nred": -1, "fmt": ""}
			for i, x := range a {
				switch {
				case x == "-f" && i+1 < len(a):
					call["fmt"] = a[i+1]
				case x == "-o" && i+1 < len(a):
					if filepath.Dir(a[i+1]) == filepath.Join(dir, "work") {
						call["obj"] = xkbRankOf(a[i+1], ".o")
					}
				case strings.HasPrefix(x, "-dNUM_REDIRECTS="):
					if v, err := strconv.Atoi(strings.TrimPrefix(x, "-dNUM_REDIRECTS=")); err == nil {
						call["nred"] = v
					}
				}
			}
			if len(a) > 0 {
				call["src"] = xkbRankOf(a[len(a)-1], ".s")
			}
			calls = append(calls, call)
		}
		link := []int{}
		for _, a := range xkbRecorded(filepath.Join(dir, "tools", "ld.log")) {
			for i, x := range a {
				if x == "-o" && i+1 < len(a) {
					for _, o := range a[i+2:] {
						switch {
						case o == filepath.Join(dir, "work", "go.o"):
							link = append(link, -1)
						case filepath.Dir(o) == filepath.Join(dir, "work"):
							link = append(link, xkbRankOf(o, ".o"))
						default:
							link = append(link, -3)
						}
					}
				}
			}
		}
		out["calls"], out["link"] = calls, link
	case "ck":
		norm := func(x string) string { return strings.Replace(x, dir, "$DIR", -1) }
		data, err := ioutil.ReadFile(filepath.Join(dir, "work", "build.sh"))
		lines := []string{}
		if len(data) > 0 {
			lines = strings.Split(strings.TrimSuffix(norm(string(data)), "\n"), "\n")
		}
		out["written"], out["lines"] = err == nil, lines
		env, _ := ioutil.ReadFile(filepath.Join(dir, "tools", "go.env"))
		out["goenv"] = strings.TrimSuffix(string(env), "\n")
		goargs := []string{}
		for _, a := range xkbRecorded(filepath.Join(dir, "tools", "go.args")) {
			for _, x := range a {
				goargs = append(goargs, norm(x))
			}
		}
		out["goargs"] = goargs
		obj := [][]string{}
		for _, a := range xkbRecorded(filepath.Join(dir, "tools", "objcopy.log")) {
			call := []string{}
			for _, x := range a {
				call = append(call, norm(x))
			}
			obj = append(obj, call)
		}
		out["objcopy"] = obj
	}
	_ = in
}

func xkbRunDir(work string, pass, i, r int) string {
	return filepath.Join(work, "xkb-"+xkbTag, fmt.Sprintf("p%d_%d_%d", pass, i, r))
}

// ---------------------------------------------------------------- child: runs cases[from:], `runs` times each

type xkbRec struct {
	I     int                    `json:"i"`
	R     int                    `json:"r"`
	Begin bool                   `json:"begin,omitempty"`
	Out   map[string]interface{} `json:"out,omitempty"`
}

func TestVerifXkbChild(t *testing.T) {
	inp := os.Getenv("XKB_CHILD_IN")
	if inp == "" {
		t.Skip("not a child")
	}
	xkbHome, _ = os.Getwd()
	from, _ := strconv.Atoi(os.Getenv("XKB_CHILD_FROM"))
	to, _ := strconv.Atoi(os.Getenv("XKB_CHILD_TO"))
	offset, _ := strconv.ParseInt(os.Getenv("XKB_CHILD_OFFSET"), 10, 64)
	// the parent wrote one case per line and tells us where case `from` starts: cases are decoded as they are reached
	cf, err := os.Open(inp)
	if err != nil {
		t.Fatal(err)
	}
	defer cf.Close()
	if _, err := cf.Seek(offset, 0); err != nil {
		t.Fatal(err)
	}
	csc := bufio.NewScanner(cf)
	csc.Buffer(make([]byte, 1<<20), 1<<26)
	runs, _ := strconv.Atoi(os.Getenv("XKB_CHILD_RUNS"))
	pass, _ := strconv.Atoi(os.Getenv("XKB_CHILD_PASS"))
	work := os.Getenv("VERIF_WORK")
	outf, err := os.OpenFile(os.Getenv("XKB_CHILD_OUT"), os.O_APPEND|os.O_CREATE|os.O_WRONLY, 0644)
	if err != nil {
		t.Fatal(err)
	}
	defer outf.Close()
	enc := json.NewEncoder(outf)
	restore := xkbGlobals()
	for i := from; i < to && csc.Scan(); i++ {
		cs, ok, err := xkbDecodeCase(csc.Bytes())
		if err != nil || !ok {
			t.Fatalf("harness: bad case %d: %v", i, err)
		}
		n := runs
		if pass == 0 && cs.Runs > 0 {
			n = cs.Runs
		}
		for r := 0; r < n; r++ {
			dir := xkbRunDir(work, pass, i, r)
			os.RemoveAll(dir)
			if err := os.MkdirAll(dir, 0755); err != nil {
				t.Fatal(err)
			}
			if err := xkbSetup(cs, dir); err != nil {
				t.Fatal(err)
			}
			lf, err := os.Create(filepath.Join(dir, "log.txt"))
			if err != nil {
				t.Fatal(err)
			}
			enc.Encode(xkbRec{I: i, R: r, Begin: true})
			// everything the run prints (log output, stdout, stderr, a Go crash report) goes to the run's own file
			o1, _ := syscall.Dup(1)
			o2, _ := syscall.Dup(2)
			syscall.Dup2(int(lf.Fd()), 1)
			syscall.Dup2(int(lf.Fd()), 2)
			out := map[string]interface{}{}
			st := &xkbState{}
			func() {
				defer func() {
					if p := recover(); p != nil {
						out["res"] = "panic"
						out["panicmsg"] = fmt.Sprint(p)
					}
				}()
				xkbCall(cs, dir, st, out)
				out["res"] = "ok"
			}()
			syscall.Dup2(o1, 1)
			syscall.Dup2(o2, 2)
			syscall.Close(o1)
			syscall.Close(o2)
			lf.Close()
			os.Chdir(xkbHome)
			restore()
			xkbObserve(cs, dir, st, out)
			enc.Encode(xkbRec{I: i, R: r, Out: out})
			os.RemoveAll(dir)
		}
	}
}

// ---------------------------------------------------------------- parent

// xkbPass runs every case `runs` times.  The cases are cut into XKB_PAR slices, each handled by a chain of child
// processes: a child that ends inside the code under test is replaced by a fresh one that continues with the next case.
func xkbPass(t *testing.T, work string, casesPath string, offsets []int64, cases []xkbCase, pass, runs int) [][]map[string]interface{} {
	res := make([][]map[string]interface{}, len(cases))
	par := xkbEnvInt("XKB_PAR", 4)
	if par > len(cases) {
		par = len(cases)
	}
	if par < 1 {
		par = 1
	}
	errs := make(chan error, par)
	for w := 0; w < par; w++ {
		lo, hi := len(cases)*w/par, len(cases)*(w+1)/par
		go func(w, lo, hi int) {
			errs <- xkbChain(work, casesPath, offsets, cases, res, pass, runs, w, lo, hi)
		}(w, lo, hi)
	}
	for w := 0; w < par; w++ {
		if err := <-errs; err != nil {
			t.Fatal(err)
		}
	}
	return res
}

func xkbChain(work string, casesPath string, offsets []int64, cases []xkbCase, res [][]map[string]interface{}, pass, runs, w, lo, hi int) error {
	outp := filepath.Join(work, fmt.Sprintf("xkb-%s-child%d_%d.out", xkbTag, pass, w))
	os.Remove(outp)
	defer os.Remove(outp)
	from := lo
	var offset int64
	for from < hi {
		cmd := exec.Command(os.Args[0], "-test.run", "^TestVerifXkbChild$", "-test.timeout", "1200s")
		cmd.Dir = xkbHome
		cmd.Env = append(os.Environ(), "XKB_CHILD_IN="+casesPath, "XKB_CHILD_OUT="+outp, "XKB_CHILD_FROM="+strconv.Itoa(from),
			"XKB_CHILD_TO="+strconv.Itoa(hi), "XKB_CHILD_OFFSET="+strconv.FormatInt(offsets[from], 10), "XKB_CHILD_RUNS="+strconv.Itoa(runs), "XKB_CHILD_PASS="+strconv.Itoa(pass))
		done := make(chan error, 1)
		var msg []byte
		go func() {
			var err error
			msg, err = cmd.CombinedOutput()
			done <- err
		}()
		var cerr error
		select {
		case cerr = <-done:
		case <-time.After(20 * time.Minute):
			cmd.Process.Kill()
			return fmt.Errorf("harness: child process timed out")
		}
		exitErr, exited := cerr.(*exec.ExitError)
		if cerr != nil && !exited {
			return fmt.Errorf("harness: child process could not be run: %v", cerr)
		}
		// read what this child appended
		f, err := os.Open(outp)
		if err != nil {
			return fmt.Errorf("harness: child wrote nothing: %v\n%s", err, msg)
		}
		f.Seek(offset, 0)
		sc := bufio.NewScanner(f)
		sc.Buffer(make([]byte, 1<<20), 1<<26)
		open := -1
		openR := 0
		for sc.Scan() {
			offset += int64(len(sc.Bytes())) + 1
			var rec xkbRec
			if err := json.Unmarshal(sc.Bytes(), &rec); err != nil {
				f.Close()
				return fmt.Errorf("harness: bad child record: %v", err)
			}
			if rec.Begin {
				open, openR = rec.I, rec.R
				continue
			}
			res[rec.I] = append(res[rec.I], rec.Out)
			open = -1
		}
		f.Close()
		if cerr == nil {
			if open >= 0 {
				return fmt.Errorf("harness: child ended normally inside case %d", open)
			}
			break
		}
		if open < 0 {
			return fmt.Errorf("harness: child failed outside the code under test: %v\n%s", cerr, msg)
		}
		// the process ended inside the code under test: observe what it left behind
		out := map[string]interface{}{"res": "exit", "code": exitErr.ExitCode()}
		dir := xkbRunDir(work, pass, open, openR)
		printed, _ := ioutil.ReadFile(filepath.Join(dir, "log.txt"))
		if exitErr.ExitCode() < 0 || bytes.Contains(printed, []byte("\npanic:")) || bytes.HasPrefix(printed, []byte("panic:")) || bytes.Contains(printed, []byte("fatal error:")) {
			out["res"] = "died"
			tail := string(printed)
			if len(tail) > 400 {
				tail = tail[len(tail)-400:]
			}
			out["panicmsg"] = tail
		}
		xkbObserve(cases[open], dir, nil, out)
		os.RemoveAll(dir)
		res[open] = append(res[open], out)
		from = open + 1
	}
	return nil
}

func xkbEnvInt(name string, def int) int {
	if v, err := strconv.Atoi(os.Getenv(name)); err == nil {
		return v
	}
	return def
}

func TestVerifXkbRun(t *testing.T) {
	xkbHome, _ = os.Getwd()
	work := os.Getenv("VERIF_WORK")
	if work == "" {
		work = t.TempDir()
	}
	defer os.RemoveAll(filepath.Join(work, "xkb-"+xkbTag))
	var cases []xkbCase
	if p := os.Getenv("XKB_CASES"); p != "" {
		for _, c := range xkbReadCases(t, p) {
			if c.Leg == "" {
				c.Leg = "G"
			}
			if xkbMine(c.Comp) {
				cases = append(cases, c)
			}
		}
	}
	seed := int64(xkbEnvInt("VERIF_SEED", 1))
	rng := rand.New(rand.NewSource(seed*104729 + 7))
	if os.Getenv("XKB_REAL") == "1" {
		cases = append(cases, xkbRealCases(t)...)
	}
	for i, n := 0, xkbEnvInt("XKB_NRAND", 0); i < n; i++ {
		cases = append(cases, xkbRandCase(rng))
	}
	for i := range cases {
		if cases[i].Comp == "wo" && cases[i].In.Real {
			cases[i].In.Reg = xkbRealRegistry()
		}
	}
	cp := filepath.Join(work, "xkb-"+xkbTag+"-cases.ndjson")
	cf, err := os.Create(cp)
	if err != nil {
		t.Fatal(err)
	}
	w := bufio.NewWriter(cf)
	offsets := make([]int64, 0, len(cases)+1)
	var pos int64
	for _, c := range cases {
		line, err := json.Marshal(c)
		if err != nil {
			t.Fatal(err)
		}
		offsets = append(offsets, pos)
		w.Write(line)
		w.WriteByte('\n')
		pos += int64(len(line)) + 1
	}
	offsets = append(offsets, pos)
	w.Flush()
	cf.Close()
	defer os.Remove(cp)

	runs, children := xkbEnvInt("XKB_RUNS", 2), xkbEnvInt("XKB_CHILDREN", 1)
	var passes [][][]map[string]interface{}
	passes = append(passes, xkbPass(t, work, cp, offsets, cases, 0, runs))
	for c := 1; c <= children; c++ {
		passes = append(passes, xkbPass(t, work, cp, offsets, cases, c, 1))
	}
	out, err := os.Create(os.Getenv("XKB_TRACE"))
	if err != nil {
		t.Fatal(err)
	}
	tw := bufio.NewWriterSize(out, 1<<20)
	tenc := json.NewEncoder(tw)
	tenc.SetEscapeHTML(false)
	for i, c := range cases {
		tenc.Encode(map[string]interface{}{"k": "case", "leg": c.Leg, "comp": c.Comp, "in": xkbCaseJSON(c)})
		for p, pass := range passes {
			for r, o := range pass[i] {
				tenc.Encode(map[string]interface{}{"k": "run", "proc": fmt.Sprintf("process %d run %d", p+1, r+1), "out": o})
			}
		}
		tenc.Encode(map[string]interface{}{"k": "reset"})
	}
	tw.Flush()
	out.Close()
	t.Logf("cases: %d", len(cases))
}

func xkbMine(comp string) bool {
	switch comp {
	case "cr", "ls", "wo", "ve", "cd", "rt", "ck":
		return true
	}
	return false
}

// ---------------------------------------------------------------- the repository's own inputs

func xkbRealRegistry() []xkbRegEntry {
	var keys []string
	for k := range offsetsByVersion {
		keys = append(keys, k)
	}
	sort.Strings(keys)
	var reg []xkbRegEntry
	for _, k := range keys {
		e := xkbRegEntry{Ver: k}
		for _, o := range offsetsByVersion[k] {
			e.Table = append(e.Table, xkbSym{o.Symbol, xkbLimbs(uint64(o.Offset))})
		}
		reg = append(reg, e)
	}
	return reg
}

func xkbPtrB(b bool) *bool { return &b }
func xkbPtrI(i int) *int   { return &i }

func xkbRealCases(t *testing.T) []xkbCase {
	var cases []xkbCase
	kernel := filepath.Join(xkbHome, "..", "kernel")
	// the kernel's constants and linker script
	cdata, err1 := ioutil.ReadFile(filepath.Join(kernel, "arch", "amd64", "rt0", "constants.inc"))
	sdata, err2 := ioutil.ReadFile(filepath.Join(kernel, "arch", "amd64", "script", "linker.ld.in"))
	if err1 == nil && err2 == nil {
		var lines [][]string
		for _, l := range strings.Split(strings.TrimSuffix(string(cdata), "\n"), "\n") {
			lines = append(lines, xkbChars(l))
		}
		cases = append(cases, xkbCase{Comp: "ls", Leg: "T", In: xkbIn{Have: "both", Consts: lines, Script: xkbChars(string(sdata))}})
	}
	// the registered offset tables, for the versions around them
	for _, v := range []string{"go1.8", "go1.15", "go1.14", "go1.16", "go1.9", "go1.1", "go1.150", "go1.15.3", "go1", "1.15", "", "go1.8 "} {
		cases = append(cases, xkbCase{Comp: "wo", Leg: "T", In: xkbIn{Real: true, Ver: v}})
	}
	// the kernel's rt0 directory
	if ents, err := ioutil.ReadDir(filepath.Join(kernel, "arch", "amd64", "rt0")); err == nil {
		var files []xkbRtFile
		for i, e := range ents {
			kind := strings.TrimPrefix(filepath.Ext(e.Name()), ".")
			if e.IsDir() {
				kind = "dir." + kind
			}
			if kind != "s" && kind != "dir.s" && kind != "S" {
				kind = "inc"
			}
			files = append(files, xkbRtFile{i + 1, kind})
		}
		cases = append(cases, xkbCase{Comp: "rt", Leg: "T", In: xkbIn{Files: files, Nred: xkbPtrI(8), Failat: xkbPtrI(0)}})
	}
	return cases
}

// ---------------------------------------------------------------- seeded generator at real scale (leg T)

var xkbSymNames = []string{"runtime.sysAlloc", "runtime.sysMap", "runtime.sysMapX", "runtime.sysMa", "runtime.sysReserve", "runtime.nanotime",
	"runtime.nanotime1", "runtime.gopanic", "runtime.throw", "runtime.init", "runtime.init.0", "runtime.getRandomData", "main.main",
	"github.com/ProjectSerenity/firefly/kernel/goruntime.sysAlloc", "github.com/ProjectSerenity/firefly/kernel/goruntime.sysMap",
	"github.com/ProjectSerenity/firefly/kernel/goruntime.sysReserve", "github.com/ProjectSerenity/firefly/kernel/goruntime.nanotime",
	"github.com/ProjectSerenity/firefly/kernel/kfmt.Panic", "github.com/ProjectSerenity/firefly/kernel/kfmt.panicString",
	"github.com/ProjectSerenity/firefly/kernel/goruntime.mSysStatInc", "kernel.Kmain", "_rt0_redirect_table", "runtime.(*mheap).alloc"}

func xkbRandAddr(rng *rand.Rand) uint64 {
	switch rng.Intn(8) {
	case 0:
		return uint64(rng.Intn(4)) // 0 (undefined) and tiny addresses
	case 1:
		return 0xffff800000100000 + uint64(rng.Intn(1<<20))
	case 2:
		return ^uint64(0) - uint64(rng.Intn(3))
	case 3:
		return uint64(1) << uint(rng.Intn(64))
	case 4:
		return uint64(rng.Uint32()) // high half zero
	case 5:
		return uint64(rng.Uint32()) << 32 // low half zero
	}
	return rng.Uint64()
}

func xkbPick(rng *rand.Rand, s []string) string { return s[rng.Intn(len(s))] }

var xkbVersions = []string{"2.34", "2.26", "2.25.99", "2.26.0", "2.26.1", "2.9", "2.100", "3.0", "1.99.99", "2.30-93.el8", "2.35-18.fc33", "2.35.1.20201123-1",
	"2.25-1", "2.26.0-rc1", "2.26.1-rc1", "2.26.0+build", "02.34", "2.034", "2.34.", ".34", "2..34", "Ubuntu)", "", "v2.34", "2.34.0.1", "1.5.2", "1.5.0", "1.4.99",
	"1.5.6.pl02", "1.4.8.pl01", "1.5", "1", "2", "10.0.0", "1.10", "1.5.0-a.b", "1.5.0-01", "1.5.0-0", "1.5.0+", "99999999999999999999.1", "2.99999999999999999999"}

func xkbRandBanner(rng *rand.Rand, tool string) string {
	v := xkbPick(rng, xkbVersions)
	if rng.Intn(3) == 0 {
		v = fmt.Sprintf("%d.%d", rng.Intn(4), rng.Intn(40))
		if rng.Intn(2) == 0 {
			v += fmt.Sprintf(".%d", rng.Intn(100))
		}
	}
	if tool == "objcopy" && rng.Intn(3) == 0 {
		// a plain banner whose first line ends in different ways (LF, CRLF, trailing blank or tab)
		return xkbPick(rng, []string{"GNU objcopy (GNU Binutils for Ubuntu) ", "GNU objcopy version ", "objcopy "}) +
			xkbPick(rng, []string{"2.34", "2.26", "2.26.1", "2.38", "3.0.1", "2.25.1", "2.30"}) + xkbPick(rng, []string{"\n", "\r\n", "\r\n", " \n", "\t\n", ""}) +
			xkbPick(rng, []string{"", "Copyright (C) 2020 Free Software Foundation, Inc.\n"})
	}
	if tool == "objcopy" {
		first := xkbPick(rng, []string{"GNU objcopy (GNU Binutils for Ubuntu) ", "GNU objcopy (GNU Binutils for Debian) ", "GNU objcopy version ", "GNU objcopy (GNU Binutils) ",
			"objcopy ", "", "GNU objcopy (GNU Binutils; openSUSE Tumbleweed) "}) + v
		switch rng.Intn(8) {
		case 0:
			first += " "
		case 1:
			first += "\r"
		case 2:
			first += "\t"
		}
		switch rng.Intn(4) {
		case 0:
			return first
		case 1:
			return first + "\n"
		}
		return first + "\nCopyright (C) 2020 Free Software Foundation, Inc.\nThis program has absolutely no warranty.\n"
	}
	head := xkbPick(rng, []string{"xorriso ", "xorriso ", "xorriso ", "GNU xorriso ", "xorriso: ", "xorriso  ", ""})
	rest := xkbPick(rng, []string{" : RockRidge filesystem manipulator, libburnia project.\n\nxorriso " + v + "\nISO 9660 Rock Ridge filesystem manipulator\n",
		" : RockRidge filesystem manipulator, libburnia project.", "\n", "", "\nISO 9660 Rock Ridge\n", "\txorriso version   :  " + v + "\n"})
	return head + v + rest
}

func xkbRandCase(rng *rand.Rand) xkbCase {
	switch x := rng.Intn(100); {
	case x < 30: // CompleteRedirects
		ns := rng.Intn(40)
		in := xkbIn{Symtab: xkbPtrB(rng.Intn(12) != 0), Syms: []xkbSym{}, Reds: [][2]string{}}
		pool := xkbSymNames[:3+rng.Intn(len(xkbSymNames)-2)]
		for i := 0; i < ns; i++ {
			name := xkbPick(rng, pool)
			if rng.Intn(3) == 0 {
				name = fmt.Sprintf("sym%d", i) // unique filler
			}
			in.Syms = append(in.Syms, xkbSym{name, xkbLimbs(xkbRandAddr(rng))})
		}
		nr := rng.Intn(13)
		for i := 0; i < nr; i++ {
			var r [2]string
			for k := 0; k < 2; k++ {
				if len(in.Syms) > 0 && rng.Intn(10) != 0 {
					r[k] = in.Syms[rng.Intn(len(in.Syms))].Name
				} else {
					r[k] = xkbPick(rng, xkbSymNames)
				}
			}
			in.Reds = append(in.Reds, r)
		}
		sec := 16 * nr
		switch rng.Intn(10) {
		case 0:
			sec = -1
		case 1:
			sec = 16 * rng.Intn(nr+1)
		case 2, 3:
			sec += 8 * rng.Intn(9)
		case 4:
			sec = 4096
		}
		in.Sec = &sec
		fill := xkbLimbs([]uint64{0, 0, 0xeeeeeeeeeeeeeeee, 0xffffffffffffffff, 0x0123456789abcdef}[rng.Intn(5)])
		in.Fill = &fill
		return xkbCase{Comp: "cr", Leg: "T", In: in}
	case x < 45: // CompileLinkerScript
		names := []string{"LOAD_ADDRESS", "PAGE_OFFSET", "PAGE", "PAGE_SIZE", "VMA", "STACK", "KERNEL_STACK", "A", "AB", "B", "_end", "4K"}
		vals := []string{"0x100000", "0xffff800000000000", "4096", "PAGE_OFFSET + LOAD_ADDRESS", "A", "B", "(1 << 12)", "0", "VMA", "PAGE"}
		nn := 1 + rng.Intn(4)
		var lines [][]string
		var used []string
		for i := 0; i < nn; i++ {
			if rng.Intn(3) == 0 {
				lines = append(lines, xkbChars(xkbPick(rng, []string{"", "; a comment", "   ", "\t; PAGE equ 1", ";LOAD_ADDRESS equ 2"})))
			}
			name := xkbPick(rng, names)
			used = append(used, name)
			l := xkbPick(rng, []string{"", " ", "\t"}) + name + xkbPick(rng, []string{" equ ", "  equ  ", " equ \t"}) + xkbPick(rng, vals) + xkbPick(rng, []string{"", " ", "\r"})
			if rng.Intn(25) == 0 {
				l = xkbPick(rng, []string{name + " = 5", name + "\tequ\t5", name + " equ 1 equ 2", name + " equ", "equ 5", "%define " + name + " 5"})
			}
			lines = append(lines, xkbChars(l))
		}
		var sb strings.Builder
		nt := 3 + rng.Intn(25)
		for i := 0; i < nt; i++ {
			switch rng.Intn(5) {
			case 0, 1:
				sb.WriteString(xkbPick(rng, used))
			case 2:
				sb.WriteString(xkbPick(rng, names))
			default:
				sb.WriteString(xkbPick(rng, []string{"\n\t. = ", ";\n", " + ", "ENTRY(_rt0_32_entry)\n", "SECTIONS {", "}", " : AT(ADDR(.text) - ", ")\n", "X", "_", " equ ", "ALIGN(4K)"}))
			}
		}
		have := "both"
		if rng.Intn(20) == 0 {
			have = xkbPick(rng, []string{"noconst", "noscript"})
		}
		return xkbCase{Comp: "ls", Leg: "T", In: xkbIn{Have: have, Consts: lines, Script: xkbChars(sb.String())}}
	case x < 57: // offsets
		vers := []string{"go1.8", "go1.15", "go1.14", "go1.16", "go1.23", "go1.1", "go1.150", "go1.15.3", "go1", "devel", "", "go1.15 ", "Go1.15"}
		var reg []xkbRegEntry
		for _, v := range vers[:1+rng.Intn(5)] {
			e := xkbRegEntry{Ver: v}
			for i, n := 0, 1+rng.Intn(50); i < n; i++ {
				off := xkbRandAddr(rng)
				if rng.Intn(2) == 0 {
					off = uint64(rng.Intn(2000))
				}
				e.Table = append(e.Table, xkbSym{"GO_" + xkbPick(rng, []string{"G", "M", "STACK"}) + "_" + strings.ToUpper(xkbPick(rng, xkbSymNames)[:4+rng.Intn(4)]) + strconv.Itoa(i), xkbLimbs(off)})
			}
			reg = append(reg, e)
		}
		rng.Shuffle(len(reg), func(i, j int) { reg[i], reg[j] = reg[j], reg[i] })
		return xkbCase{Comp: "wo", Leg: "T", In: xkbIn{Reg: reg, Ver: xkbPick(rng, vers)}}
	case x < 82: // version banners
		tool := xkbPick(rng, []string{"objcopy", "xorriso"})
		return xkbCase{Comp: "ve", Leg: "T", In: xkbIn{Tool: tool, Banner: xkbChars(xkbRandBanner(rng, tool))}}
	case x < 90: // CheckDeps
		var tools []xkbTool
		for _, n := range []string{"objcopy", "xorriso", "grub-mkrescue", "nasm"} {
			tl := xkbTool{Name: n, State: "present", Banner: []string{}}
			switch rng.Intn(8) {
			case 0:
				tl.State = "absent"
			case 1:
				tl.Rc = 1 + rng.Intn(120)
			}
			switch n {
			case "objcopy":
				tl.Banner = xkbChars("GNU objcopy (GNU Binutils for Ubuntu) " + xkbPick(rng, []string{"2.34", "2.34", "2.34", "2.26", "2.25.1", "2.38", "unknown"}) + "\nCopyright\n")
			case "xorriso":
				tl.Banner = xkbChars("xorriso " + xkbPick(rng, []string{"1.5.2", "1.5.2", "1.5.2", "1.5.0", "1.4.8", "1.5.4", "x"}) + " : RockRidge filesystem manipulator, libburnia project.\n")
			default:
				tl.Banner = xkbChars(n + " 2.04\n")
			}
			tools = append(tools, tl)
		}
		return xkbCase{Comp: "cd", Leg: "T", In: xkbIn{Tools: tools}}
	case x < 95: // CompileKernel over a fake go tool
		// every line is harmless for the shell that runs the script (the stand-in tools exist, ":" does nothing)
		pool := []string{": compile -o $WORK/b001/_pkg_.a -trimpath \"$WORK/b001=>\" -p runtime", "mkdir -p $WORK/b001/", "mv $WORK/b001/exe/a.out main", "mv  a b",
			"$WORK/../tools/buildid -w $WORK/b001/_pkg_.a # internal", "$WORK/../tools/buildid -w", "$WORK/../tools/buildid  -w x", "$WORK/../tools/buildid -x $WORK/a",
			"$WORK/../tools/xbuildid -w $WORK/b001/_pkg_.a", "$WORK/../tools/buildid", ": buildid -w x", ":", "", "#", "# import config", ": mv a b", "buildid -w $WORK/x",
			"$WORK/../tools/compile -o $WORK/go.o $WORK$WORK", "# packagefile runtime=$WORK/b002/_pkg_.a", ": $WORKX $ WORK"}
		var lines [][]string
		for i, n := 0, rng.Intn(25); i < n; i++ {
			lines = append(lines, xkbChars(xkbPick(rng, pool)))
		}
		const kp = "github.com/ProjectSerenity/firefly/kernel/"
		names := []string{kp + "kmain.Kmain", kp + "kmain.Kmain", kp + "kmain.Kmain.func1", kp + "xkmain.Kmain", "main.main", "runtime.g0", "kmain.Kmain",
			kp + "kmain.kmain", kp + "kmain.KmainX", "type..eq.[2]" + kp + "kmain.Kmain"}
		var nm [][]string
		for i, n := 0, rng.Intn(12); i < n; i++ {
			l := fmt.Sprintf("%8x %s %s", rng.Intn(1<<28), xkbPick(rng, []string{"T", "t", "D", "R", "U"}), xkbPick(rng, names))
			switch rng.Intn(12) {
			case 0:
				l = "         U " + xkbPick(rng, names)
			case 1:
				l = xkbPick(rng, names) // no address column
			case 2:
				l += " "
			}
			nm = append(nm, xkbChars(l))
		}
		rc := func() *int {
			if rng.Intn(12) == 0 {
				return xkbPtrI(1 + rng.Intn(3))
			}
			return xkbPtrI(0)
		}
		return xkbCase{Comp: "ck", Leg: "T", In: xkbIn{Lines: lines, Nm: nm, Buildrc: rc(), Nmrc: rc(), Objrc: rc()}}
	default: // CompileRT0 + LinkKernel
		var files []xkbRtFile
		perm := rng.Perm(30)
		var srcs []int
		for i, n := 0, rng.Intn(12); i < n; i++ {
			kind := xkbPick(rng, []string{"s", "s", "s", "s", "inc", "dir.s", "S", "asm", "o"})
			files = append(files, xkbRtFile{perm[i] + 1, kind})
			if kind == "s" {
				srcs = append(srcs, perm[i]+1)
			}
		}
		failat := 0
		if len(srcs) > 0 && rng.Intn(4) == 0 {
			failat = srcs[rng.Intn(len(srcs))]
		}
		return xkbCase{Comp: "rt", Leg: "T", In: xkbIn{Files: files, Nred: xkbPtrI(rng.Intn(20)), Failat: &failat}}
	}
}
