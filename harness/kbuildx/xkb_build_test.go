//go:build verif
// +build verif

package build

// Conformance harness for the extension family extra-kbuild, package
// internal/build of /repo/kbuild: goMajorMinorVersion (mm), GoVersion over a
// fake go tool (gv), OverrideEnv (oe), WriteOffsets (bw) and DeriveOffsets
// over a fake go tool and a synthetic WORK tree (do).
//
// It contains no oracle: it encodes the abstract case (emitted by TLC from
// specs/kbuildx/KbxModel.tla or drawn by the seeded generator below) into
// arguments / files / fake tools, runs the REAL code (XKB_RUNS times in one
// child process, once more in each of XKB_CHILDREN fresh ones) and projects
// the results into `run` events judged by specs/kbuildx/KbxTrace.tla.  The
// generated Go file of WriteOffsets is projected with go/parser (what the Go
// compiler would see in it).

import (
	"bufio"
	"bytes"
	"encoding/json"
	"fmt"
	"go/ast"
	"go/parser"
	"go/token"
	"io/ioutil"
	"math/rand"
	"os"
	"os/exec"
	"path/filepath"
	"regexp"
	"strconv"
	"strings"
	"syscall"
	"testing"
	"time"
)

// ---------------------------------------------------------------- cases

type xkbSym struct {
	Name string
	Val  [4]int
}

func (s *xkbSym) UnmarshalJSON(b []byte) error {
	var raw []json.RawMessage
	if err := json.Unmarshal(b, &raw); err != nil || len(raw) != 2 {
		return fmt.Errorf("bad entry %s", b)
	}
	if err := json.Unmarshal(raw[0], &s.Name); err != nil {
		return err
	}
	return json.Unmarshal(raw[1], &s.Val)
}

func (s xkbSym) MarshalJSON() ([]byte, error) {
	return json.Marshal([]interface{}{s.Name, s.Val})
}

// xkbEnvEntry is one environment entry: NAME=VALUE, or NAME alone when Eq is false.
type xkbEnvEntry struct {
	Name, Val string
	Eq        bool
}

func (s *xkbEnvEntry) UnmarshalJSON(b []byte) error {
	var raw []json.RawMessage
	if err := json.Unmarshal(b, &raw); err != nil || len(raw) != 3 {
		return fmt.Errorf("bad environment entry %s", b)
	}
	json.Unmarshal(raw[0], &s.Name)
	json.Unmarshal(raw[1], &s.Val)
	return json.Unmarshal(raw[2], &s.Eq)
}

func (s xkbEnvEntry) MarshalJSON() ([]byte, error) {
	return json.Marshal([]interface{}{s.Name, s.Val, s.Eq})
}

type xkbAsmLine struct {
	Form string   `json:"form"`
	Name []string `json:"name"`
	Val  [4]int   `json:"val"`
	Hex  bool     `json:"hex,omitempty"`
}

type xkbAsmFile struct {
	Key   []int        `json:"key"` // directory ranks, then 50 for the file itself
	Asm   bool         `json:"asm"` // named go_asm.h
	Lines []xkbAsmLine `json:"lines"`
}

type xkbIn struct {
	// mm
	V []string `json:"v,omitempty"`
	// gv
	Banner []string `json:"banner,omitempty"`
	Rc     *int     `json:"rc,omitempty"`
	// oe
	Env []xkbEnvEntry `json:"env,omitempty"`
	Ovr []xkbEnvEntry `json:"ovr,omitempty"`
	// bw
	Pkg     string   `json:"pkg,omitempty"`
	Ver     []string `json:"ver,omitempty"`
	Entries []xkbSym `json:"entries,omitempty"`
	// do
	Goarch  string       `json:"goarch,omitempty"`
	Dist    [][2]string  `json:"dist,omitempty"`
	Distrc  *int         `json:"distrc,omitempty"`
	Buildrc *int         `json:"buildrc,omitempty"`
	Work    *bool        `json:"work,omitempty"`
	Files   []xkbAsmFile `json:"files,omitempty"`
}

type xkbCase struct {
	Comp string `json:"comp"`
	Leg  string `json:"leg,omitempty"`
	Runs int    `json:"runs,omitempty"` // runs in the first process (default XKB_RUNS)
	In   xkbIn  `json:"in"`
}

func xkbNN(s []string) []string {
	if s == nil {
		return []string{}
	}
	return s
}

func xkbChars(s string) []string {
	out := make([]string, 0, len(s))
	for i := 0; i < len(s); i++ {
		out = append(out, s[i:i+1])
	}
	return out
}

func xkbStr(c []string) string { return strings.Join(c, "") }

func xkbLimbs(v uint64) [4]int {
	return [4]int{int(v >> 48 & 0xffff), int(v >> 32 & 0xffff), int(v >> 16 & 0xffff), int(v & 0xffff)}
}

func xkbWord(l [4]int) uint64 {
	return uint64(l[0])<<48 | uint64(l[1])<<32 | uint64(l[2])<<16 | uint64(l[3])
}

func xkbEnvNN(e []xkbEnvEntry) []xkbEnvEntry {
	if e == nil {
		return []xkbEnvEntry{}
	}
	return e
}

// xkbCaseJSON renders the input of a case exactly as the monitor reads it.
func xkbCaseJSON(c xkbCase) map[string]interface{} {
	in := map[string]interface{}{}
	switch c.Comp {
	case "mm":
		in["v"] = xkbNN(c.In.V)
	case "gv":
		in["banner"], in["rc"] = xkbNN(c.In.Banner), *c.In.Rc
	case "oe":
		in["env"], in["ovr"] = xkbEnvNN(c.In.Env), xkbEnvNN(c.In.Ovr)
	case "bw":
		es := c.In.Entries
		if es == nil {
			es = []xkbSym{}
		}
		in["pkg"], in["ver"], in["entries"] = c.In.Pkg, xkbNN(c.In.Ver), es
	case "do":
		dist := c.In.Dist
		if dist == nil {
			dist = [][2]string{}
		}
		files := []map[string]interface{}{}
		for _, f := range c.In.Files {
			lines := []map[string]interface{}{}
			for _, l := range f.Lines {
				lines = append(lines, map[string]interface{}{"form": l.Form, "name": xkbNN(l.Name), "val": l.Val})
			}
			key := f.Key
			if key == nil {
				key = []int{}
			}
			files = append(files, map[string]interface{}{"key": key, "asm": f.Asm, "lines": lines})
		}
		in["goarch"], in["dist"], in["distrc"], in["buildrc"], in["work"], in["files"] = c.In.Goarch, dist, *c.In.Distrc, *c.In.Buildrc, *c.In.Work, files
	}
	return in
}

// xkbDecodeCase decodes one line of a cases file; ok is false for a case of the other package's harness.
func xkbDecodeCase(line []byte) (c xkbCase, ok bool, err error) {
	if line[0] == '"' { // TLC's CSVWrite of ToJson(..) yields a JSON string literal containing JSON
		var s string
		if err := json.Unmarshal(line, &s); err != nil {
			return c, false, fmt.Errorf("bad case line: %v", err)
		}
		line = []byte(s)
	}
	var raw struct {
		Comp string          `json:"comp"`
		Leg  string          `json:"leg"`
		Runs int             `json:"runs"`
		In   json.RawMessage `json:"in"`
	}
	if err := json.Unmarshal(line, &raw); err != nil {
		return c, false, fmt.Errorf("bad case %s: %v", line, err)
	}
	if !xkbMine(raw.Comp) {
		return c, false, nil
	}
	c = xkbCase{Comp: raw.Comp, Leg: raw.Leg, Runs: raw.Runs}
	if err := json.Unmarshal(raw.In, &c.In); err != nil {
		return c, false, fmt.Errorf("bad case %s: %v", line, err)
	}
	return c, true, nil
}

func xkbReadCases(t *testing.T, path string) []xkbCase {
	f, err := os.Open(path)
	if err != nil {
		t.Fatal(err)
	}
	defer f.Close()
	var cases []xkbCase
	sc := bufio.NewScanner(f)
	sc.Buffer(make([]byte, 1<<20), 1<<26)
	for sc.Scan() {
		line := bytes.TrimSpace(sc.Bytes())
		if len(line) == 0 {
			continue
		}
		c, ok, err := xkbDecodeCase(line)
		if err != nil {
			t.Fatal(err)
		}
		if ok {
			cases = append(cases, c)
		}
	}
	return cases
}

// ---------------------------------------------------------------- encoders

const xkbFakeGo = `#!/bin/sh
d="$(dirname "$0")"
case "$1 $2" in
"tool dist") /bin/cat "$d/dist.txt"; exit $(/bin/cat "$d/dist.rc");;
"build -a") if [ -f "$d/work.line" ]; then /bin/cat "$d/work.line" >&2; fi; exit $(/bin/cat "$d/build.rc");;
"version ") /bin/cat "$d/version.txt"; exit $(/bin/cat "$d/version.rc");;
esac
exit 2
`

func xkbSegName(rank int) string {
	if rank < 50 {
		return fmt.Sprintf("b%03d", rank)
	}
	return fmt.Sprintf("z%03d", rank)
}

func xkbEnvString(e xkbEnvEntry) string {
	if e.Eq {
		return e.Name + "=" + e.Val
	}
	return e.Name
}

func xkbEnvDecode(s string) xkbEnvEntry {
	if i := strings.IndexByte(s, '='); i >= 0 {
		return xkbEnvEntry{s[:i], s[i+1:], true}
	}
	return xkbEnvEntry{s, "", false}
}

func xkbAsmText(l xkbAsmLine) string {
	name := xkbStr(l.Name)
	val := strconv.FormatUint(xkbWord(l.Val), 10)
	if l.Hex {
		val = "0x" + strconv.FormatUint(xkbWord(l.Val), 16)
	}
	switch l.Form {
	case "def":
		return "#define " + name + " " + val
	case "bare":
		return name + " " + val
	case "indent":
		return " #define " + name + " " + val
	case "tabdef":
		return "#define\t" + name + " " + val
	case "three":
		return "#define " + name + " " + val + " extra"
	case "one":
		return "#define " + name
	case "badnum":
		return "#define " + name + " " + val + "q"
	case "neg":
		return "#define " + name + " -" + val
	}
	return "// " + name
}

var xkbHome string

const xkbTag = "build"

func xkbGlobals() func() {
	return func() {}
}

type xkbState struct{}

func xkbSetup(c xkbCase, dir string) error {
	in := c.In
	switch c.Comp {
	case "gv":
		if err := ioutil.WriteFile(filepath.Join(dir, "version.txt"), []byte(xkbStr(in.Banner)), 0644); err != nil {
			return err
		}
		if err := ioutil.WriteFile(filepath.Join(dir, "version.rc"), []byte(strconv.Itoa(*in.Rc)), 0644); err != nil {
			return err
		}
		return ioutil.WriteFile(filepath.Join(dir, "go"), []byte(xkbFakeGo), 0755)
	case "do":
		var b strings.Builder
		for i, d := range in.Dist {
			l := d[0] + "/" + d[1]
			switch i % 3 { // surrounding blanks are not part of an entry
			case 1:
				l = "  " + l
			case 2:
				l = l + " \t"
			}
			b.WriteString(l + "\n")
		}
		w := func(name, text string) error { return ioutil.WriteFile(filepath.Join(dir, name), []byte(text), 0644) }
		if err := w("dist.txt", b.String()); err != nil {
			return err
		}
		if err := w("dist.rc", strconv.Itoa(*in.Distrc)); err != nil {
			return err
		}
		if err := w("build.rc", strconv.Itoa(*in.Buildrc)); err != nil {
			return err
		}
		work := filepath.Join(dir, "gowork")
		if err := os.MkdirAll(work, 0755); err != nil {
			return err
		}
		if *in.Work {
			if err := w("work.line", "WORK="+work+"\n"); err != nil {
				return err
			}
		}
		for fi, f := range in.Files {
			p := work
			for _, r := range f.Key[:len(f.Key)-1] {
				p = filepath.Join(p, xkbSegName(r))
			}
			if err := os.MkdirAll(p, 0755); err != nil {
				return err
			}
			base := "go_asm.h"
			if !f.Asm {
				base = []string{"go_asm.hh", "xgo_asm.h", "go_asm.h.txt", "Go_asm.h"}[fi%4]
			}
			var t strings.Builder
			t.WriteString("// generated by compile -asmhdr from package runtime\n\n")
			for _, l := range f.Lines {
				t.WriteString(xkbAsmText(l) + "\n")
			}
			if err := ioutil.WriteFile(filepath.Join(p, base), []byte(t.String()), 0644); err != nil {
				return err
			}
		}
		return ioutil.WriteFile(filepath.Join(dir, "go"), []byte(xkbFakeGo), 0755)
	}
	return nil
}

func xkbCall(c xkbCase, dir string, st *xkbState, out map[string]interface{}) {
	in := c.In
	switch c.Comp {
	case "mm":
		out["majmin"], out["ok"] = goMajorMinorVersion(xkbStr(in.V))
	case "gv":
		v, err := GoVersion(filepath.Join(dir, "go"))
		out["ver"] = v
		out["gores"] = "ok"
		if err != nil {
			out["gores"], out["err"] = "err", strings.Replace(err.Error(), dir, "$DIR", -1)
		}
	case "oe":
		env := make([]string, 0, len(in.Env)+2)
		for _, e := range in.Env {
			env = append(env, xkbEnvString(e))
		}
		env = env[:len(env):len(env)]
		var ovr []string
		for _, e := range in.Ovr {
			ovr = append(ovr, xkbEnvString(e))
		}
		after := []xkbEnvEntry{}
		res := []xkbEnvEntry{}
		defer func() {
			for _, s := range env {
				after = append(after, xkbEnvDecode(s))
			}
			out["out"], out["envafter"] = res, after
		}()
		got := OverrideEnv(env, ovr...)
		for _, s := range got {
			res = append(res, xkbEnvDecode(s))
		}
	case "bw":
		var es []*Entry
		for _, e := range in.Entries {
			es = append(es, &Entry{Symbol: e.Name, Offset: uintptr(xkbWord(e.Val))})
		}
		err := WriteOffsets(filepath.Join(dir, "offsets.go"), in.Pkg, xkbStr(in.Ver), "amd64", es)
		out["wres"] = "ok"
		if err != nil {
			out["wres"], out["err"] = "err", strings.Replace(err.Error(), dir, "$DIR", -1)
		}
	case "do":
		es, err := DeriveOffsets(filepath.Join(dir, "go"), "go1.15", in.Goarch)
		out["dres"] = "ok"
		if err != nil {
			out["dres"], out["err"] = "err", strings.Replace(err.Error(), dir, "$DIR", -1)
		}
		entries := []xkbSym{}
		for _, e := range es {
			entries = append(entries, xkbSym{e.Symbol, xkbLimbs(uint64(e.Offset))})
		}
		out["entries"] = entries
	default:
		panic("harness: unknown component " + c.Comp)
	}
}

// the convention by which Go tools recognise generated files
var xkbGenerated = regexp.MustCompile(`^// Code generated .* DO NOT EDIT\.$`)

// xkbParseOffsetsFile describes the generated file as the Go parser sees it.
func xkbParseOffsetsFile(path string, out map[string]interface{}) {
	out["parsed"], out["pkg"], out["header"], out["key"], out["initvar"], out["varname"], out["marker"] = false, "", "", "", "", "", false
	entries := []xkbSym{}
	defer func() { out["entries"] = entries }()
	data, err := ioutil.ReadFile(path)
	if err != nil {
		return
	}
	if i := bytes.IndexByte(data, '\n'); i >= 0 {
		out["header"] = string(data[:i])
	} else {
		out["header"] = string(data)
	}
	out["marker"] = xkbGenerated.MatchString(out["header"].(string))
	fset := token.NewFileSet()
	f, err := parser.ParseFile(fset, path, data, parser.ParseComments)
	if err != nil {
		return
	}
	out["parsed"], out["pkg"] = true, f.Name.Name
	for _, d := range f.Decls {
		switch d := d.(type) {
		case *ast.FuncDecl:
			if d.Name.Name != "init" || d.Body == nil {
				continue
			}
			for _, s := range d.Body.List {
				as, ok := s.(*ast.AssignStmt)
				if !ok || len(as.Lhs) != 1 || len(as.Rhs) != 1 {
					continue
				}
				ix, ok := as.Lhs[0].(*ast.IndexExpr)
				if !ok {
					continue
				}
				if m, ok := ix.X.(*ast.Ident); !ok || m.Name != "offsetsByVersion" {
					continue
				}
				if k, ok := ix.Index.(*ast.BasicLit); ok && k.Kind == token.STRING {
					if s, err := strconv.Unquote(k.Value); err == nil {
						out["key"] = out["key"].(string) + s
					}
				}
				if v, ok := as.Rhs[0].(*ast.Ident); ok {
					out["initvar"] = out["initvar"].(string) + v.Name
				}
			}
		case *ast.GenDecl:
			if d.Tok != token.VAR {
				continue
			}
			for _, sp := range d.Specs {
				vs, ok := sp.(*ast.ValueSpec)
				if !ok || len(vs.Names) != 1 || len(vs.Values) != 1 {
					continue
				}
				out["varname"] = out["varname"].(string) + vs.Names[0].Name
				cl, ok := vs.Values[0].(*ast.CompositeLit)
				if !ok {
					continue
				}
				for _, el := range cl.Elts {
					e := xkbSym{Name: "?", Val: [4]int{-1, -1, -1, -1}}
					if ecl, ok := el.(*ast.CompositeLit); ok {
						for _, kv := range ecl.Elts {
							kve, ok := kv.(*ast.KeyValueExpr)
							if !ok {
								continue
							}
							k, _ := kve.Key.(*ast.Ident)
							v, _ := kve.Value.(*ast.BasicLit)
							if k == nil || v == nil {
								continue
							}
							switch k.Name {
							case "Symbol":
								if s, err := strconv.Unquote(v.Value); err == nil {
									e.Name = s
								}
							case "Offset":
								if n, err := strconv.ParseUint(v.Value, 0, 64); err == nil {
									e.Val = xkbLimbs(n)
								}
							}
						}
					}
					entries = append(entries, e)
				}
			}
		}
	}
}

func xkbObserve(c xkbCase, dir string, st *xkbState, out map[string]interface{}) {
	switch c.Comp {
	case "gv":
		if out["res"] == "ok" {
			out["res"] = out["gores"]
		}
		delete(out, "gores")
	case "bw":
		if out["res"] == "ok" {
			out["res"] = out["wres"]
		}
		delete(out, "wres")
		xkbParseOffsetsFile(filepath.Join(dir, "offsets.go"), out)
	case "do":
		if out["res"] == "ok" {
			out["res"] = out["dres"]
		}
		delete(out, "dres")
		if _, ok := out["entries"]; !ok {
			out["entries"] = []xkbSym{}
		}
		_, err := os.Stat(filepath.Join(dir, "gowork"))
		out["workleft"] = err == nil
	case "oe":
		if _, ok := out["out"]; !ok {
			out["out"], out["envafter"] = []xkbEnvEntry{}, []xkbEnvEntry{}
		}
	}
}

func xkbRunDir(work string, pass, i, r int) string {
	return filepath.Join(work, "xkb-"+xkbTag, fmt.Sprintf("p%d_%d_%d", pass, i, r))
}

// ---------------------------------------------------------------- child: runs cases[from:], `runs` times each

type xkbRec struct {
	I     int                    `json:"i"`
	R     int                    `json:"r"`
	Begin bool                   `json:"begin,omitempty"`
	Out   map[string]interface{} `json:"out,omitempty"`
}

func TestVerifXkbChild(t *testing.T) {
	inp := os.Getenv("XKB_CHILD_IN")
	if inp == "" {
		t.Skip("not a child")
	}
	xkbHome, _ = os.Getwd()
	from, _ := strconv.Atoi(os.Getenv("XKB_CHILD_FROM"))
	to, _ := strconv.Atoi(os.Getenv("XKB_CHILD_TO"))
	offset, _ := strconv.ParseInt(os.Getenv("XKB_CHILD_OFFSET"), 10, 64)
	// the parent wrote one case per line and tells us where case `from` starts: cases are decoded as they are reached
	cf, err := os.Open(inp)
	if err != nil {
		t.Fatal(err)
	}
	defer cf.Close()
	if _, err := cf.Seek(offset, 0); err != nil {
		t.Fatal(err)
	}
	csc := bufio.NewScanner(cf)
	csc.Buffer(make([]byte, 1<<20), 1<<26)
	runs, _ := strconv.Atoi(os.Getenv("XKB_CHILD_RUNS"))
	pass, _ := strconv.Atoi(os.Getenv("XKB_CHILD_PASS"))
	work := os.Getenv("VERIF_WORK")
	outf, err := os.OpenFile(os.Getenv("XKB_CHILD_OUT"), os.O_APPEND|os.O_CREATE|os.O_WRONLY, 0644)
	if err != nil {
		t.Fatal(err)
	}
	defer outf.Close()
	enc := json.NewEncoder(outf)
	restore := xkbGlobals()
	for i := from; i < to && csc.Scan(); i++ {
		cs, ok, err := xkbDecodeCase(csc.Bytes())
		if err != nil || !ok {
			t.Fatalf("harness: bad case %d: %v", i, err)
		}
		n := runs
		if pass == 0 && cs.Runs > 0 {
			n = cs.Runs
		}
		for r := 0; r < n; r++ {
			dir := xkbRunDir(work, pass, i, r)
			os.RemoveAll(dir)
			if err := os.MkdirAll(dir, 0755); err != nil {
				t.Fatal(err)
			}
			if err := xkbSetup(cs, dir); err != nil {
				t.Fatal(err)
			}
			lf, err := os.Create(filepath.Join(dir, "log.txt"))
			if err != nil {
				t.Fatal(err)
			}
			enc.Encode(xkbRec{I: i, R: r, Begin: true})
			// everything the run prints (log output, stdout, stderr, a Go crash report) goes to the run's own file
			o1, _ := syscall.Dup(1)
			o2, _ := syscall.Dup(2)
			syscall.Dup2(int(lf.Fd()), 1)
			syscall.Dup2(int(lf.Fd()), 2)
			out := map[string]interface{}{}
			st := &xkbState{}
			func() {
				defer func() {
					if p := recover(); p != nil {
						out["res"] = "panic"
						out["panicmsg"] = fmt.Sprint(p)
					}
				}()
				xkbCall(cs, dir, st, out)
				out["res"] = "ok"
			}()
			syscall.Dup2(o1, 1)
			syscall.Dup2(o2, 2)
			syscall.Close(o1)
			syscall.Close(o2)
			lf.Close()
			os.Chdir(xkbHome)
			restore()
			xkbObserve(cs, dir, st, out)
			enc.Encode(xkbRec{I: i, R: r, Out: out})
			os.RemoveAll(dir)
		}
	}
}

// ---------------------------------------------------------------- parent

// xkbPass runs every case `runs` times.  The cases are cut into XKB_PAR slices, each handled by a chain of child
// processes: a child that ends inside the code under test is replaced by a fresh one that continues with the next case.
func xkbPass(t *testing.T, work string, casesPath string, offsets []int64, cases []xkbCase, pass, runs int) [][]map[string]interface{} {
	res := make([][]map[string]interface{}, len(cases))
	par := xkbEnvInt("XKB_PAR", 4)
	if par > len(cases) {
		par = len(cases)
	}
	if par < 1 {
		par = 1
	}
	errs := make(chan error, par)
	for w := 0; w < par; w++ {
		lo, hi := len(cases)*w/par, len(cases)*(w+1)/par
		go func(w, lo, hi int) {
			errs <- xkbChain(work, casesPath, offsets, cases, res, pass, runs, w, lo, hi)
		}(w, lo, hi)
	}
	for w := 0; w < par; w++ {
		if err := <-errs; err != nil {
			t.Fatal(err)
		}
	}
	return res
}

func xkbChain(work string, casesPath string, offsets []int64, cases []xkbCase, res [][]map[string]interface{}, pass, runs, w, lo, hi int) error {
	outp := filepath.Join(work, fmt.Sprintf("xkb-%s-child%d_%d.out", xkbTag, pass, w))
	os.Remove(outp)
	defer os.Remove(outp)
	from := lo
	var offset int64
	for from < hi {
		cmd := exec.Command(os.Args[0], "-test.run", "^TestVerifXkbChild$", "-test.timeout", "1200s")
		cmd.Dir = xkbHome
		cmd.Env = append(os.Environ(), "XKB_CHILD_IN="+casesPath, "XKB_CHILD_OUT="+outp, "XKB_CHILD_FROM="+strconv.Itoa(from),
			"XKB_CHILD_TO="+strconv.Itoa(hi), "XKB_CHILD_OFFSET="+strconv.FormatInt(offsets[from], 10), "XKB_CHILD_RUNS="+strconv.Itoa(runs), "XKB_CHILD_PASS="+strconv.Itoa(pass))
		done := make(chan error, 1)
		var msg []byte
		go func() {
			var err error
			msg, err = cmd.CombinedOutput()
			done <- err
		}()
		var cerr error
		select {
		case cerr = <-done:
		case <-time.After(20 * time.Minute):
			cmd.Process.Kill()
			return fmt.Errorf("harness: child process timed out")
		}
		exitErr, exited := cerr.(*exec.ExitError)
		if cerr != nil && !exited {
			return fmt.Errorf("harness: child process could not be run: %v", cerr)
		}
		// read what this child appended
		f, err := os.Open(outp)
		if err != nil {
			return fmt.Errorf("harness: child wrote nothing: %v\n%s", err, msg)
		}
		f.Seek(offset, 0)
		sc := bufio.NewScanner(f)
		sc.Buffer(make([]byte, 1<<20), 1<<26)
		open := -1
		openR := 0
		for sc.Scan() {
			offset += int64(len(sc.Bytes())) + 1
			var rec xkbRec
			if err := json.Unmarshal(sc.Bytes(), &rec); err != nil {
				f.Close()
				return fmt.Errorf("harness: bad child record: %v", err)
			}
			if rec.Begin {
				open, openR = rec.I, rec.R
				continue
			}
			res[rec.I] = append(res[rec.I], rec.Out)
			open = -1
		}
		f.Close()
		if cerr == nil {
			if open >= 0 {
				return fmt.Errorf("harness: child ended normally inside case %d", open)
			}
			break
		}
		if open < 0 {
			return fmt.Errorf("harness: child failed outside the code under test: %v\n%s", cerr, msg)
		}
		// the process ended inside the code under test: observe what it left behind
		out := map[string]interface{}{"res": "exit", "code": exitErr.ExitCode()}
		dir := xkbRunDir(work, pass, open, openR)
		printed, _ := ioutil.ReadFile(filepath.Join(dir, "log.txt"))
		if exitErr.ExitCode() < 0 || bytes.Contains(printed, []byte("\npanic:")) || bytes.HasPrefix(printed, []byte("panic:")) || bytes.Contains(printed, []byte("fatal error:")) {
			out["res"] = "died"
			tail := string(printed)
			if len(tail) > 400 {
				tail = tail[len(tail)-400:]
			}
			out["panicmsg"] = tail
		}
		xkbObserve(cases[open], dir, nil, out)
		os.RemoveAll(dir)
		res[open] = append(res[open], out)
		from = open + 1
	}
	return nil
}

func xkbEnvInt(name string, def int) int {
	if v, err := strconv.Atoi(os.Getenv(name)); err == nil {
		return v
	}
	return def
}

func TestVerifXkbRun(t *testing.T) {
	xkbHome, _ = os.Getwd()
	work := os.Getenv("VERIF_WORK")
	if work == "" {
		work = t.TempDir()
	}
	defer os.RemoveAll(filepath.Join(work, "xkb-"+xkbTag))
	var cases []xkbCase
	if p := os.Getenv("XKB_CASES"); p != "" {
		for _, c := range xkbReadCases(t, p) {
			if c.Leg == "" {
				c.Leg = "G"
			}
			if xkbMine(c.Comp) {
				cases = append(cases, c)
			}
		}
	}
	seed := int64(xkbEnvInt("VERIF_SEED", 1))
	rng := rand.New(rand.NewSource(seed*15485863 + 11))
	if os.Getenv("XKB_REAL") == "1" {
		cases = append(cases, xkbRealCases(t)...)
	}
	for i, n := 0, xkbEnvInt("XKB_NRAND", 0); i < n; i++ {
		cases = append(cases, xkbRandCase(rng))
	}
	cp := filepath.Join(work, "xkb-"+xkbTag+"-cases.ndjson")
	cf, err := os.Create(cp)
	if err != nil {
		t.Fatal(err)
	}
	w := bufio.NewWriter(cf)
	offsets := make([]int64, 0, len(cases)+1)
	var pos int64
	for _, c := range cases {
		line, err := json.Marshal(c)
		if err != nil {
			t.Fatal(err)
		}
		offsets = append(offsets, pos)
		w.Write(line)
		w.WriteByte('\n')
		pos += int64(len(line)) + 1
	}
	offsets = append(offsets, pos)
	w.Flush()
	cf.Close()
	defer os.Remove(cp)

	runs, children := xkbEnvInt("XKB_RUNS", 2), xkbEnvInt("XKB_CHILDREN", 1)
	var passes [][][]map[string]interface{}
	passes = append(passes, xkbPass(t, work, cp, offsets, cases, 0, runs))
	for c := 1; c <= children; c++ {
		passes = append(passes, xkbPass(t, work, cp, offsets, cases, c, 1))
	}
	out, err := os.Create(os.Getenv("XKB_TRACE"))
	if err != nil {
		t.Fatal(err)
	}
	tw := bufio.NewWriterSize(out, 1<<20)
	tenc := json.NewEncoder(tw)
	tenc.SetEscapeHTML(false)
	for i, c := range cases {
		tenc.Encode(map[string]interface{}{"k": "case", "leg": c.Leg, "comp": c.Comp, "in": xkbCaseJSON(c)})
		for p, pass := range passes {
			for r, o := range pass[i] {
				tenc.Encode(map[string]interface{}{"k": "run", "proc": fmt.Sprintf("process %d run %d", p+1, r+1), "out": o})
			}
		}
		tenc.Encode(map[string]interface{}{"k": "reset"})
	}
	tw.Flush()
	out.Close()
	t.Logf("cases: %d", len(cases))
}

func xkbMine(comp string) bool {
	switch comp {
	case "mm", "gv", "oe", "bw", "do":
		return true
	}
	return false
}

func xkbPtrB(b bool) *bool { return &b }
func xkbPtrI(i int) *int   { return &i }

// ---------------------------------------------------------------- the machine's own go tool

func xkbRealCases(t *testing.T) []xkbCase {
	var cases []xkbCase
	// the banner of the installed toolchain, and the banners of the toolchains the offset tables were made for
	if out, err := exec.Command("go", "version").Output(); err == nil {
		cases = append(cases, xkbCase{Comp: "gv", Leg: "T", In: xkbIn{Banner: xkbChars(string(out)), Rc: xkbPtrI(0)}})
	}
	for _, b := range []string{"go version go1.15.3 linux/amd64\n", "go version go1.8 linux/amd64\n", "go version go1.15 linux/amd64\n",
		"go version go1.14.15 linux/amd64\n", "go version go1.16beta1 linux/amd64\n", "go version go1.16rc1 linux/amd64\n",
		"go version devel +a1b2c3d4e5 Mon Jan 4 10:00:00 2021 +0000 linux/amd64\n", "go version devel go1.18-9d3e4f2 Tue Nov 2 2021 linux/amd64\n",
		"go version go1.21.0 linux/amd64\n", "go version go1.15.3\n", "go version go1.15.3", "go1.15.3 linux/amd64\n", "", "go version  go1.15 linux/amd64\n"} {
		cases = append(cases, xkbCase{Comp: "gv", Leg: "T", In: xkbIn{Banner: xkbChars(b), Rc: xkbPtrI(0)}})
	}
	return cases
}

// ---------------------------------------------------------------- seeded generator at real scale (leg T)

func xkbPick(rng *rand.Rand, s []string) string { return s[rng.Intn(len(s))] }

var xkbGoVersions = []string{"go1.15", "go1.15.3", "go1.8", "go1.14", "go1", "go1.0", "go1.21.0", "go1.16beta1", "go1.16rc1", "go1.9beta2", "go1.15.03", "go01.15", "go1.015",
	"go1.15.", "go1..15", "go.15", "go", "g", "", "1.15", "v1.15", "Go1.15", "gov1.15", "go1.15-pre", "go1.15.0-pre", "go1.15.0-pre.1+meta", "go1.15.0+meta", "go1.15.0-", "go1.15.0-01",
	"go1.15.0-0a", "go1.15 ", " go1.15", "go1.15\n", "devel", "go11.22.33", "go99999999999.88888888888.1", "go1.15.3.4", "go1.2beta", "go1.2rc0", "go1.2rc01", "go1.2.3rc1", "go1beta1"}

func xkbRandUint(rng *rand.Rand) uint64 {
	switch rng.Intn(6) {
	case 0:
		return uint64(rng.Intn(10))
	case 1:
		return uint64(rng.Intn(4096))
	case 2:
		return ^uint64(0) - uint64(rng.Intn(2))
	case 3:
		return uint64(1) << uint(rng.Intn(64))
	case 4:
		return uint64(rng.Uint32())
	}
	return rng.Uint64()
}

var xkbAsmNames = []string{"g_stack", "g_stackguard0", "g_m", "g__size", "g_sched", "m_g0", "m_curg", "m__size", "m_tls", "stack_lo", "stack_hi", "stack__size",
	"gobuf_sp", "gobuf__size", "const_stackGuard", "G_upper", "mm_x", "stackx_lo", "g", "m_", "g_", "sigctxt_x", "p_m", "funcval_fn", "g_timer9", "m_a_b_c"}

func xkbRandCase(rng *rand.Rand) xkbCase {
	switch x := rng.Intn(100); {
	case x < 25:
		return xkbCase{Comp: "mm", Leg: "T", In: xkbIn{V: xkbChars(xkbPick(rng, xkbGoVersions))}}
	case x < 40:
		v := xkbPick(rng, xkbGoVersions)
		b := xkbPick(rng, []string{"go version ", "go version ", "go version ", "", "go  version ", "go version  "}) + v +
			xkbPick(rng, []string{" linux/amd64\n", " linux/amd64\n", "\n", "", " darwin/arm64\n", " X:boringcrypto linux/amd64\n"})
		rc := 0
		if rng.Intn(10) == 0 {
			rc = 1 + rng.Intn(3)
		}
		return xkbCase{Comp: "gv", Leg: "T", In: xkbIn{Banner: xkbChars(b), Rc: &rc}}
	case x < 65:
		names := []string{"GOOS", "GOARCH", "GO", "GOPATH", "CGO_ENABLED", "PATH", "HOME", "A", "a", "", "GOCACHE", "GOFLAGS"}
		vals := []string{"linux", "amd64", "", "0", "/kernel", "a=b", "=", "x y", "-mod=mod", "/usr/bin:/bin"}
		mk := func(n int, noeq int) []xkbEnvEntry {
			var es []xkbEnvEntry
			for i := 0; i < n; i++ {
				e := xkbEnvEntry{xkbPick(rng, names), xkbPick(rng, vals), true}
				if noeq > 0 && rng.Intn(noeq) == 0 {
					e.Val, e.Eq = "", false
				}
				es = append(es, e)
			}
			return es
		}
		ne := rng.Intn(30)
		if rng.Intn(3) == 0 {
			ne = rng.Intn(5)
		}
		return xkbCase{Comp: "oe", Leg: "T", In: xkbIn{Env: mk(ne, 40), Ovr: mk(rng.Intn(6), 25)}}
	case x < 80:
		ver := xkbPick(rng, []string{"go1.15", "go1.8", "go1.23", "go11.5", "go1", "1.15", "gogo1.2", "go1.15.3"})
		var es []xkbSym
		for i, n := 0, rng.Intn(70); i < n; i++ {
			es = append(es, xkbSym{"GO_" + strings.ToUpper(xkbPick(rng, xkbAsmNames)), xkbLimbs(xkbRandUint(rng))})
		}
		return xkbCase{Comp: "bw", Leg: "T", In: xkbIn{Pkg: xkbPick(rng, []string{"main", "main", "offsets", "x"}), Ver: xkbChars(ver), Entries: es}}
	default:
		in := xkbIn{Goarch: xkbPick(rng, []string{"amd64", "amd64", "arm64", "386", "amd64p32", "amd"}), Distrc: xkbPtrI(0), Buildrc: xkbPtrI(0), Work: xkbPtrB(true)}
		switch rng.Intn(8) {
		case 0: // near misses only
			in.Dist = append(in.Dist, [2]string{"linux", in.Goarch + "p32"}, [2]string{"linuxx", in.Goarch}, [2]string{"linu", in.Goarch})
		case 1:
		default:
			in.Dist = append(in.Dist, [2]string{"linux", in.Goarch})
		}
		for i, n := 0, rng.Intn(45); i < n; i++ {
			in.Dist = append(in.Dist, [2]string{xkbPick(rng, []string{"linux", "linux", "darwin", "windows", "js", "linuxx", "android"}),
				xkbPick(rng, []string{"amd64", "arm64", "386", "amd64p32", "wasm", "amd", "riscv64"})})
		}
		switch rng.Intn(14) {
		case 0:
			in.Distrc = xkbPtrI(1 + rng.Intn(2))
		case 1:
			in.Buildrc = xkbPtrI(1 + rng.Intn(2))
		case 2:
			in.Work = xkbPtrB(false)
		}
		seen := map[string]bool{}
		for i, n := 0, rng.Intn(8); i < n; i++ {
			var key []int
			for d, nd := 0, rng.Intn(4); d < nd; d++ {
				r := 1 + rng.Intn(12)
				if rng.Intn(4) == 0 {
					r = 51 + rng.Intn(5)
				}
				key = append(key, r)
			}
			key = append(key, 50)
			f := xkbAsmFile{Key: key, Asm: rng.Intn(5) != 0}
			ks := fmt.Sprint(key, f.Asm || true)
			if seen[ks] {
				continue
			}
			seen[ks] = true
			for j, nl := 0, rng.Intn(40); j < nl; j++ {
				l := xkbAsmLine{Form: "def", Name: xkbChars(xkbPick(rng, xkbAsmNames)), Val: xkbLimbs(xkbRandUint(rng)), Hex: rng.Intn(4) == 0}
				switch y := rng.Intn(60); {
				case y < 3:
					l.Form = "bare"
				case y < 5:
					l.Form = "indent"
				case y < 7:
					l.Form = "tabdef"
				case y < 9:
					l.Form = "three"
				case y < 11:
					l.Form = "one"
				case y == 11:
					l.Form = "badnum"
				case y == 12:
					l.Form = "neg"
				case y < 16:
					l.Form = "comment"
				}
				f.Lines = append(f.Lines, l)
			}
			in.Files = append(in.Files, f)
		}
		return xkbCase{Comp: "do", Leg: "T", In: in}
	}
}
