// lockskel - lock-skeleton extraction for C09 (DESIGN 3.5 / 4.7).
//
// Parses kernel/mm/pmm/bitmap_allocator.go of a repository tree with go/ast and
// abstracts every control-flow path of BitmapAllocator.AllocFrame / FreeFrame
// into the sequence of events
//
//	A        alloc.mutex.Acquire()
//	L        alloc.mutex.Release()
//	R        read of a mutable allocator field
//	W:<f>    write (=, op=, ++, --) of mutable field f
//
// ending at one `return` statement.  A field is mutable when one of the two
// methods (or a method of the same receiver they call) assigns it; everything
// else (pool bounds, the pools slice itself) is set up by init and only read
// afterwards.  Consecutive equal events are collapsed and loops are closed under
// repetition, so the set of abstract paths is finite.  Anything outside the small
// statement dictionary (goroutines, closures, labels, other mutex methods,
// sync/atomic on allocator fields, ...) makes the result "inconclusive": the
// caller then contributes nothing from this tool - never an alarm.
//
// usage: go run . <path/to/bitmap_allocator.go>      (JSON on stdout, exit 0)
package main

import (
	"encoding/json"
	"fmt"
	"go/ast"
	"go/parser"
	"go/token"
	"os"
	"sort"
	"strings"
)

const (
	recvType  = "BitmapAllocator"
	lockField = "mutex"
	maxPaths  = 400
)

type inconclusive struct{ why string }

func giveUp(format string, a ...interface{}) { panic(inconclusive{fmt.Sprintf(format, a...)}) }

// a partial path: collapsed event list + how the statement was left
type path struct {
	ev   string // events joined by " "
	exit string // "" fall through | "break" | "continue" | "ret:<n>"
}

type extractor struct {
	fset    *token.FileSet
	methods map[string]*ast.FuncDecl
	mutable map[string]bool
	recv    string // receiver identifier of the method being walked
	rets    []*ast.ReturnStmt
	depth   int
	deferL  bool
}

func appendEv(a, b string) string {
	if a == "" {
		return b
	}
	if b == "" {
		return a
	}
	as, bs := strings.Split(a, " "), strings.Split(b, " ")
	for len(bs) > 0 && as[len(as)-1] == bs[0] {
		bs = bs[1:]
	}
	return strings.Join(append(as, bs...), " ")
}

func dedup(ps []path) []path {
	seen := map[path]bool{}
	var out []path
	for _, p := range ps {
		if !seen[p] {
			seen[p] = true
			out = append(out, p)
		}
	}
	if len(out) > maxPaths {
		giveUp("more than %d abstract paths", maxPaths)
	}
	return out
}

// seq continues every path that falls through with the paths of the next statement.
func seq(ps []path, next func() []path) []path {
	var out []path
	var nx []path
	for _, p := range ps {
		if p.exit != "" {
			out = append(out, p)
			continue
		}
		if nx == nil {
			nx = next()
		}
		for _, n := range nx {
			out = append(out, path{appendEv(p.ev, n.ev), n.exit})
		}
	}
	return dedup(out)
}

func just(ev string) []path { return []path{{ev, ""}} }

// ---- expressions ---------------------------------------------------------

// rootedAtRecv reports whether the selector/index chain e starts at the receiver identifier.
func (x *extractor) rootedAtRecv(e ast.Expr) bool {
	for {
		switch v := e.(type) {
		case *ast.Ident:
			return v.Name == x.recv
		case *ast.SelectorExpr:
			e = v.X
		case *ast.IndexExpr:
			e = v.X
		case *ast.ParenExpr:
			e = v.X
		case *ast.StarExpr:
			e = v.X
		case *ast.SliceExpr:
			e = v.X
		default:
			return false
		}
	}
}

// lastField returns the innermost-to-outermost field names on a chain rooted at the receiver.
func fieldsOf(e ast.Expr) []string {
	var fs []string
	for {
		switch v := e.(type) {
		case *ast.SelectorExpr:
			fs = append(fs, v.Sel.Name)
			e = v.X
		case *ast.IndexExpr:
			e = v.X
		case *ast.ParenExpr:
			e = v.X
		case *ast.StarExpr:
			e = v.X
		case *ast.SliceExpr:
			e = v.X
		default:
			return fs
		}
	}
}

// reads returns the events of evaluating e (reads of mutable fields, inlined method calls).
func (x *extractor) reads(e ast.Expr) string {
	ev := ""
	var walk func(n ast.Expr)
	walk = func(n ast.Expr) {
		switch v := n.(type) {
		case nil:
		case *ast.Ident, *ast.BasicLit:
		case *ast.ParenExpr:
			walk(v.X)
		case *ast.StarExpr:
			walk(v.X)
		case *ast.UnaryExpr:
			if v.Op == token.AND && x.rootedAtRecv(v.X) {
				giveUp("address of an allocator field taken at %s", x.fset.Position(v.Pos()))
			}
			if v.Op == token.ARROW {
				giveUp("channel operation")
			}
			walk(v.X)
		case *ast.BinaryExpr:
			walk(v.X)
			walk(v.Y)
		case *ast.IndexExpr:
			walk(v.Index)
			walk(v.X)
		case *ast.SliceExpr:
			walk(v.Low)
			walk(v.High)
			walk(v.Max)
			walk(v.X)
		case *ast.SelectorExpr:
			if x.rootedAtRecv(v) {
				for _, f := range fieldsOf(v) {
					if f == lockField {
						giveUp("the lock is used other than through Acquire/Release at %s", x.fset.Position(v.Pos()))
					}
					if x.mutable[f] {
						ev = appendEv(ev, "R")
						break
					}
				}
			}
			walk(v.X)
		case *ast.CallExpr:
			ev = appendEv(ev, x.call(v))
		case *ast.CompositeLit:
			for _, el := range v.Elts {
				walk(el)
			}
		case *ast.KeyValueExpr:
			walk(v.Value)
		case *ast.TypeAssertExpr:
			walk(v.X)
		default:
			giveUp("expression %T outside the dictionary at %s", n, x.fset.Position(n.Pos()))
		}
	}
	walk(e)
	return ev
}

// call: lock operations, inlined methods of the receiver, other calls (arguments only).
func (x *extractor) call(c *ast.CallExpr) string {
	ev := ""
	for _, a := range c.Args {
		ev = appendEv(ev, x.reads(a))
	}
	if sel, ok := c.Fun.(*ast.SelectorExpr); ok {
		// alloc.mutex.Acquire() / Release()
		if in, ok := sel.X.(*ast.SelectorExpr); ok && in.Sel.Name == lockField && x.rootedAtRecv(in) {
			switch sel.Sel.Name {
			case "Acquire":
				return appendEv(ev, "A")
			case "Release":
				return appendEv(ev, "L")
			default:
				giveUp("lock operation %s is not modelled", sel.Sel.Name)
			}
		}
		// alloc.method(...)
		if id, ok := sel.X.(*ast.Ident); ok && id.Name == x.recv {
			m, ok := x.methods[sel.Sel.Name]
			if !ok {
				giveUp("call of unknown method %s", sel.Sel.Name)
			}
			return appendEv(ev, x.inline(m))
		}
		if id, ok := sel.X.(*ast.Ident); ok && id.Name == "atomic" {
			for _, a := range c.Args {
				if u, ok := a.(*ast.UnaryExpr); ok && x.rootedAtRecv(u.X) {
					giveUp("sync/atomic used on an allocator field")
				}
			}
		}
		return appendEv(ev, x.reads(sel.X))
	}
	switch f := c.Fun.(type) {
	case *ast.Ident, *ast.ParenExpr, *ast.ArrayType, *ast.StarExpr:
		_ = f // conversion or plain function: only the arguments matter
		return ev
	case *ast.FuncLit:
		giveUp("function literal")
	}
	giveUp("call shape outside the dictionary at %s", x.fset.Position(c.Pos()))
	return ""
}

// inline: a callee must have one abstract behaviour (e.g. poolForFrame: no event at all).
func (x *extractor) inline(m *ast.FuncDecl) string {
	if x.depth > 3 {
		giveUp("method calls nested deeper than 3")
	}
	saveRecv, saveRets, saveDefer := x.recv, x.rets, x.deferL
	x.depth++
	x.recv = recvName(m)
	x.rets, x.deferL = nil, false
	ps := x.block(m.Body.List)
	x.depth--
	x.recv, x.rets, x.deferL = saveRecv, saveRets, saveDefer
	evs := map[string]bool{}
	for _, p := range ps {
		if p.exit == "break" || p.exit == "continue" {
			giveUp("stray break/continue in %s", m.Name.Name)
		}
		evs[p.ev] = true
	}
	if len(evs) != 1 {
		keys := []string{}
		for k := range evs {
			keys = append(keys, "["+k+"]")
		}
		sort.Strings(keys)
		giveUp("called method %s has more than one lock/access behaviour: %s", m.Name.Name, strings.Join(keys, " "))
	}
	for k := range evs {
		return k
	}
	return ""
}

// ---- statements ----------------------------------------------------------

func (x *extractor) lhs(e ast.Expr) string {
	ev := ""
	// index expressions on the way are evaluated (reads)
	var idx func(n ast.Expr)
	idx = func(n ast.Expr) {
		switch v := n.(type) {
		case *ast.IndexExpr:
			ev = appendEv(ev, x.reads(v.Index))
			idx(v.X)
		case *ast.SelectorExpr:
			idx(v.X)
		case *ast.ParenExpr:
			idx(v.X)
		case *ast.StarExpr:
			idx(v.X)
		}
	}
	idx(e)
	if x.rootedAtRecv(e) {
		fs := fieldsOf(e)
		for _, f := range fs {
			if f == lockField {
				giveUp("assignment to the lock")
			}
		}
		if len(fs) > 0 {
			return appendEv(ev, "W:"+fs[0])
		}
		giveUp("assignment to the receiver itself")
	}
	return ev
}

func (x *extractor) stmt(s ast.Stmt) []path {
	switch v := s.(type) {
	case nil, *ast.EmptyStmt:
		return just("")
	case *ast.ExprStmt:
		return just(x.reads(v.X))
	case *ast.IncDecStmt:
		return just(x.lhs(v.X))
	case *ast.AssignStmt:
		ev := ""
		for _, r := range v.Rhs {
			ev = appendEv(ev, x.reads(r))
		}
		for _, l := range v.Lhs {
			ev = appendEv(ev, x.lhs(l))
		}
		return just(ev)
	case *ast.DeclStmt:
		ev := ""
		if gd, ok := v.Decl.(*ast.GenDecl); ok {
			for _, sp := range gd.Specs {
				if vs, ok := sp.(*ast.ValueSpec); ok {
					for _, val := range vs.Values {
						ev = appendEv(ev, x.reads(val))
					}
				}
			}
		}
		return just(ev)
	case *ast.BlockStmt:
		return x.block(v.List)
	case *ast.ReturnStmt:
		ev := ""
		for _, r := range v.Results {
			ev = appendEv(ev, x.reads(r))
		}
		if x.deferL {
			ev = appendEv(ev, "L")
		}
		x.rets = append(x.rets, v)
		return []path{{ev, fmt.Sprintf("ret:%d", x.retIndex(v))}}
	case *ast.BranchStmt:
		if v.Label != nil {
			giveUp("labelled %s", v.Tok)
		}
		switch v.Tok {
		case token.BREAK:
			return []path{{"", "break"}}
		case token.CONTINUE:
			return []path{{"", "continue"}}
		}
		giveUp("%s statement", v.Tok)
	case *ast.IfStmt:
		ps := x.stmt(v.Init)
		return seq(ps, func() []path {
			c := x.reads(v.Cond)
			var out []path
			for _, p := range x.block(v.Body.List) {
				out = append(out, path{appendEv(c, p.ev), p.exit})
			}
			if v.Else != nil {
				for _, p := range x.stmt(v.Else) {
					out = append(out, path{appendEv(c, p.ev), p.exit})
				}
			} else {
				out = append(out, path{c, ""})
			}
			return dedup(out)
		})
	case *ast.SwitchStmt:
		ps := x.stmt(v.Init)
		return seq(ps, func() []path {
			c := x.reads(v.Tag)
			var out []path
			hasDefault := false
			for _, cc := range v.Body.List {
				cl := cc.(*ast.CaseClause)
				ce := c
				if cl.List == nil {
					hasDefault = true
				}
				for _, e := range cl.List {
					ce = appendEv(ce, x.reads(e))
				}
				for _, p := range x.block(cl.Body) {
					ex := p.exit
					if ex == "break" {
						ex = ""
					}
					out = append(out, path{appendEv(ce, p.ev), ex})
				}
			}
			if !hasDefault {
				out = append(out, path{c, ""})
			}
			return dedup(out)
		})
	case *ast.ForStmt:
		ps := x.stmt(v.Init)
		return seq(ps, func() []path {
			cond := ""
			if v.Cond != nil {
				cond = x.reads(v.Cond)
			}
			post := ""
			if v.Post != nil {
				pp := x.stmt(v.Post)
				if len(pp) != 1 || pp[0].exit != "" {
					giveUp("loop post statement")
				}
				post = pp[0].ev
			}
			return x.loop(cond, post, v.Body.List, v.Cond == nil)
		})
	case *ast.RangeStmt:
		head := x.reads(v.X)
		out := []path{}
		for _, p := range x.loop("", "", v.Body.List, false) {
			out = append(out, path{appendEv(head, p.ev), p.exit})
		}
		return dedup(out)
	case *ast.DeferStmt:
		if ev := x.call(v.Call); ev == "L" && x.depth == 0 {
			x.deferL = true
			return just("")
		}
		giveUp("defer of something else than the lock release")
	default:
		giveUp("statement %T outside the dictionary at %s", s, x.fset.Position(s.Pos()))
	}
	return nil
}

// loop closes the body under repetition.
func (x *extractor) loop(cond, post string, body []ast.Stmt, forever bool) []path {
	bodyPaths := x.block(body)
	iter := map[string]bool{} // event strings of one full iteration that comes back to the head
	var leave []path          // iteration prefixes that leave the loop: break (-> fall) or return
	for _, p := range bodyPaths {
		e := appendEv(cond, p.ev)
		switch p.exit {
		case "", "continue":
			iter[appendEv(e, post)] = true
		case "break":
			leave = append(leave, path{e, ""})
		default:
			leave = append(leave, path{e, p.exit})
		}
	}
	if !forever {
		leave = append(leave, path{cond, ""}) // condition false / range exhausted
	}
	heads := map[string]bool{"": true} // event strings with which the head can be reached
	for changed := true; changed; {
		changed = false
		for h := range heads {
			for it := range iter {
				n := appendEv(h, it)
				if !heads[n] {
					heads[n] = true
					changed = true
				}
			}
		}
		if len(heads) > maxPaths {
			giveUp("a loop repeats lock operations or accesses without bound")
		}
	}
	var out []path
	for h := range heads {
		for _, l := range leave {
			out = append(out, path{appendEv(h, l.ev), l.exit})
		}
	}
	return dedup(out)
}

func (x *extractor) block(list []ast.Stmt) []path {
	ps := just("")
	for _, s := range list {
		s := s
		ps = seq(ps, func() []path { return x.stmt(s) })
	}
	return ps
}

func (x *extractor) retIndex(r *ast.ReturnStmt) int {
	return int(r.Pos())
}

func recvName(m *ast.FuncDecl) string {
	if m.Recv == nil || len(m.Recv.List) == 0 || len(m.Recv.List[0].Names) == 0 {
		return "_"
	}
	return m.Recv.List[0].Names[0].Name
}

// assigned collects the field names the method (and the receiver methods it calls) assigns.
func (x *extractor) assigned(m *ast.FuncDecl, seen map[string]bool) {
	if seen[m.Name.Name] {
		return
	}
	seen[m.Name.Name] = true
	x.recv = recvName(m)
	recv := x.recv
	ast.Inspect(m.Body, func(n ast.Node) bool {
		mark := func(e ast.Expr) {
			x.recv = recv
			if x.rootedAtRecv(e) {
				if fs := fieldsOf(e); len(fs) > 0 {
					x.mutable[fs[0]] = true
				}
			}
		}
		switch v := n.(type) {
		case *ast.AssignStmt:
			for _, l := range v.Lhs {
				mark(l)
			}
		case *ast.IncDecStmt:
			mark(v.X)
		case *ast.CallExpr:
			if sel, ok := v.Fun.(*ast.SelectorExpr); ok {
				if id, ok := sel.X.(*ast.Ident); ok && id.Name == recv {
					if callee, ok := x.methods[sel.Sel.Name]; ok {
						x.assigned(callee, seen)
					}
				}
			}
		}
		return true
	})
}

type outPath struct {
	Ret  int      `json:"ret"`
	Line int      `json:"line"`
	Kind string   `json:"kind"`
	Text string   `json:"text"`
	Ev   []string `json:"ev"`
}

type outMethod struct {
	Conclusive bool      `json:"conclusive"`
	Note       string    `json:"note,omitempty"`
	Paths      []outPath `json:"paths"`
}

func main() {
	res := map[string]interface{}{}
	methodsOut := map[string]*outMethod{}
	res["methods"] = methodsOut
	defer func() {
		b, _ := json.MarshalIndent(res, "", " ")
		fmt.Println(string(b))
	}()
	if len(os.Args) < 2 {
		res["error"] = "usage: lockskel <bitmap_allocator.go>"
		return
	}
	fset := token.NewFileSet()
	f, err := parser.ParseFile(fset, os.Args[1], nil, 0)
	if err != nil {
		res["error"] = err.Error()
		return
	}
	x := &extractor{fset: fset, methods: map[string]*ast.FuncDecl{}, mutable: map[string]bool{}}
	for _, d := range f.Decls {
		if fd, ok := d.(*ast.FuncDecl); ok && fd.Recv != nil && len(fd.Recv.List) == 1 && fd.Body != nil {
			t := fd.Recv.List[0].Type
			if st, ok := t.(*ast.StarExpr); ok {
				t = st.X
			}
			if id, ok := t.(*ast.Ident); ok && id.Name == recvType {
				x.methods[fd.Name.Name] = fd
			}
		}
	}
	seen := map[string]bool{}
	for _, name := range []string{"AllocFrame", "FreeFrame"} {
		if m, ok := x.methods[name]; ok {
			x.assigned(m, seen)
		}
	}
	mut := []string{}
	for k := range x.mutable {
		mut = append(mut, k)
	}
	sort.Strings(mut)
	res["mutable"] = mut
	for _, name := range []string{"AllocFrame", "FreeFrame"} {
		om := &outMethod{}
		methodsOut[name] = om
		m, ok := x.methods[name]
		if !ok {
			om.Note = "method not found"
			continue
		}
		func() {
			defer func() {
				if r := recover(); r != nil {
					if inc, ok := r.(inconclusive); ok {
						om.Note = inc.why
						om.Paths = nil
						return
					}
					panic(r)
				}
			}()
			x.recv, x.rets, x.depth, x.deferL = recvName(m), nil, 0, false
			ps := x.block(m.Body.List)
			retNo := map[int]int{}
			retStmt := map[int]*ast.ReturnStmt{}
			var order []int
			for _, r := range x.rets {
				p := int(r.Pos())
				if _, ok := retStmt[p]; !ok {
					retStmt[p] = r
					order = append(order, p)
				}
			}
			sort.Ints(order)
			for i, p := range order {
				retNo[p] = i
			}
			for _, p := range ps {
				if !strings.HasPrefix(p.exit, "ret:") {
					giveUp("a path of %s ends without return (%q)", name, p.exit)
				}
				var pos int
				fmt.Sscanf(p.exit, "ret:%d", &pos)
				r := retStmt[pos]
				kind := "fail"
				if n := len(r.Results); n > 0 {
					if id, ok := r.Results[n-1].(*ast.Ident); ok && id.Name == "nil" {
						kind = "ok"
					}
				}
				var txt []string
				for _, e := range r.Results {
					txt = append(txt, exprText(fset, e))
				}
				ev := []string{}
				if p.ev != "" {
					ev = strings.Split(p.ev, " ")
				}
				om.Paths = append(om.Paths, outPath{Ret: retNo[pos], Line: fset.Position(r.Pos()).Line, Kind: kind,
					Text: strings.Join(txt, ", "), Ev: ev})
			}
			sort.Slice(om.Paths, func(i, j int) bool {
				if om.Paths[i].Ret != om.Paths[j].Ret {
					return om.Paths[i].Ret < om.Paths[j].Ret
				}
				return strings.Join(om.Paths[i].Ev, " ") < strings.Join(om.Paths[j].Ev, " ")
			})
			om.Conclusive = true
		}()
	}
}

func exprText(fset *token.FileSet, e ast.Expr) string {
	src, err := os.ReadFile(fset.Position(e.Pos()).Filename)
	if err != nil {
		return ""
	}
	a, b := fset.Position(e.Pos()).Offset, fset.Position(e.End()).Offset
	if a < 0 || b > len(src) || a > b {
		return ""
	}
	s := string(src[a:b])
	if len(s) > 60 {
		s = s[:60]
	}
	return strings.Join(strings.Fields(s), " ")
}
