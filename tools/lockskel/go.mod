module lockskel

go 1.23
