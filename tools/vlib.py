#!/usr/bin/env python3
"""Shared runner library for the firefly TLA+ verification checks.

Every check is a python module tools/checks/<ID>.py exposing run(ctx).  The
context offers: running TLC on a spec directory (exhaustive, simulation, trace
validation), running an in-package Go harness injected into the repository by
`go test -overlay` (build tag `verif`), reporting violations / known findings,
and writing the evidence file.

Exit codes: 0 property held on everything explored; 1 at least one VIOLATION
(line `VIOLATION property=<id> replay=<path>` printed); 2 the machinery itself is
broken or inconclusive (never a verdict about the repository).
"""
import json, os, re, shutil, subprocess, sys, time, hashlib, signal

VERIF = os.path.dirname(os.path.dirname(os.path.abspath(__file__)))
REPO = os.environ.get("VERIF_REPO", "/repo")
TLA_CP = "/opt/veriftools/tla/tla2tools.jar:/opt/veriftools/tla/CommunityModules-deps.jar"
NCPU = os.cpu_count() or 4


def maxpar():
    """Parallelism cap: env VERIF_MAXPAR, or the developer override file .work/maxpar (used while many
    engineers share the machine), else all cores."""
    try:
        if os.environ.get("VERIF_MAXPAR"):
            return max(1, int(os.environ["VERIF_MAXPAR"]))
        with open(os.path.join(VERIF, ".work", "maxpar")) as f:
            return max(1, int(f.read().strip()))
    except Exception:
        return NCPU


class Broken(Exception):
    pass


class TLCResult:
    def __init__(self):
        self.rc = None
        self.out = ""
        self.generated = 0
        self.distinct = 0
        self.violated = None      # name of violated invariant / property, or "deadlock", "postcondition", "eval-error"
        self.trace = None         # list of states (dict var -> value) from -dumpTrace json
        self.wall = 0.0
        self.coverage_zero = []
        self.ok = False
        self.diameter = 0


def _parse_tlc(out, res):
    m = None
    for m in re.finditer(r"(\d+) states generated, (\d+) distinct states found", out):
        pass
    if m:
        res.generated, res.distinct = int(m.group(1)), int(m.group(2))
    m = re.search(r"The depth of the complete state graph search is (\d+)", out)
    if m:
        res.diameter = int(m.group(1))
    m = re.search(r"Error: Invariant (\S+) is violated", out)
    if m:
        res.violated = m.group(1)
    elif re.search(r"Error: Action property (\S+)", out):
        res.violated = re.search(r"Error: Action property (\S+)", out).group(1)
    elif "Temporal properties were violated" in out or re.search(r"Temporal property \S+ was violated", out):
        m2 = re.search(r"Temporal property (\S+) was violated", out)
        res.violated = m2.group(1) if m2 else "temporal"
    elif "Deadlock reached" in out:
        res.violated = "deadlock"
    elif re.search(r"[Pp]ost-?condition", out) and ("violated" in out or "false" in out.lower()) and "Error" in out:
        res.violated = "postcondition"
    elif "Error:" in out:
        res.violated = "eval-error"
    res.ok = (res.violated is None) and ("Model checking completed. No error has been found." in out
                                         or "Finished in" in out and "Error" not in out)


class Ctx:
    def __init__(self, prop, tier, seed, level="model_checking"):
        self.prop = prop
        self.tier = tier
        self.seed = seed
        self.level = level
        self.t0 = time.time()
        self.work = os.path.join(VERIF, ".work", "%s.%d" % (prop, os.getpid()))
        shutil.rmtree(self.work, ignore_errors=True)
        os.makedirs(self.work)
        self.replays = os.path.join(VERIF, "replays")
        os.makedirs(self.replays, exist_ok=True)
        self.violations = []
        self.known = []
        self.cov = {"states": 0, "transitions": 0, "traces_validated_against_impl": 0, "evaluations": 0,
                    "distinct_nontrivial": 0, "samples": [], "legs": {}, "refinement_notes": []}
        self.assumptions = []
        self.rule = ""
        self._distinct = set()
        self.kf = load_known_findings()
        self.quick = tier == "quick"

    # ---------------------------------------------------------------- logging
    def log(self, *a):
        print("[%s %6.1fs]" % (self.prop, time.time() - self.t0), *a, flush=True)

    # ---------------------------------------------------------------- TLC
    def spec_dir(self, *subdirs):
        """Copy spec modules from specs/<subdir> (and specs/lib) into a fresh work dir."""
        self._ndirs = getattr(self, "_ndirs", 0) + 1
        d = os.path.join(self.work, "tlc%d_%d" % (self._ndirs, len(os.listdir(self.work))))
        os.makedirs(d)
        for s in ("lib",) + subdirs:
            sd = os.path.join(VERIF, "specs", s)
            for f in os.listdir(sd):
                if f.endswith((".tla", ".cfg")):
                    shutil.copy(os.path.join(sd, f), d)
        return d

    def tlc(self, d, module, cfg=None, workers=None, env=None, timeout=600, simulate=None, depth=None,
            coverage=False, deque=False, xmx=None, extra=None, dump_trace=True, deadlock=None, name=None):
        """Run TLC in directory d.  Returns TLCResult.  Raises Broken on JVM trouble/timeouts."""
        res = TLCResult()
        cfg = cfg or module
        workers = min(workers or 16, NCPU, maxpar() if (workers or 16) > 1 else 1)
        xmx = xmx or ("4g" if self.quick else "8g")
        meta = os.path.join(d, "meta.%s.%d" % (cfg, int(time.time() * 1000) % 100000))
        jtmp = os.path.join(d, "jtmp")          # TLC unpacks its standard modules into java.io.tmpdir on every run:
        os.makedirs(jtmp, exist_ok=True)        # keep that inside the work dir (removed at exit), not in /tmp
        cmd = ["java", "-XX:+UseParallelGC", "-Xmx" + xmx, "-Xss64m", "-Djava.io.tmpdir=" + jtmp]
        if deque:
            cmd.append("-Dtlc2.tool.queue.IStateQueue=StateDeque")
        cmd += ["-cp", TLA_CP, "tlc2.TLC", "-workers", str(workers), "-metadir", meta, "-config", cfg + ".cfg",
                "-noGenerateSpecTE"]
        tracefile = os.path.join(d, "cex.%s.json" % cfg)
        if dump_trace:
            cmd += ["-dumpTrace", "json", tracefile]
        if simulate:
            cmd += ["-simulate", simulate]
            if depth:
                cmd += ["-depth", str(depth)]
            cmd += ["-seed", str(self.seed)]
        if coverage:
            cmd += ["-coverage", "1"]
        if deadlock is False:
            cmd += ["-deadlock"]
        if extra:
            cmd += extra
        cmd.append(module + ".tla")
        e = dict(os.environ)
        e.pop("JAVA_TOOL_OPTIONS", None)
        if env:
            e.update({k: str(v) for k, v in env.items()})
        t = time.time()
        try:
            p = subprocess.run(cmd, cwd=d, env=e, stdout=subprocess.PIPE, stderr=subprocess.STDOUT,
                               timeout=timeout, text=True, errors="replace")
        except subprocess.TimeoutExpired:
            subprocess.run(["pkill", "-f", meta], check=False)
            raise Broken("TLC timed out after %ds on %s/%s" % (timeout, module, cfg))
        res.wall = time.time() - t
        res.rc, res.out = p.returncode, p.stdout
        with open(os.path.join(d, "tlc.%s.out" % cfg), "w") as f:
            f.write(res.out)
        _parse_tlc(res.out, res)
        if "java.lang.OutOfMemoryError" in res.out or "StackOverflowError" in res.out:
            raise Broken("TLC ran out of memory/stack on %s/%s:\n%s" % (module, cfg, res.out[-1500:]))
        if res.generated == 0 and not simulate and res.violated in (None, "eval-error"):
            raise Broken("TLC produced no states on %s/%s:\n%s" % (module, cfg, res.out[-3000:]))
        if coverage:
            res.coverage_zero = re.findall(r"^\s*(<\S+ line \d+, col \d+ to line \d+, col \d+ of module \S+>): 0:0\s*$",
                                           res.out, re.M)
        if dump_trace and os.path.exists(tracefile) and res.violated:
            try:
                with open(tracefile) as f:
                    j = json.load(f)
                res.trace = [s[1] if isinstance(s, list) else s for s in j.get("state", [])]
            except Exception:
                res.trace = None
        shutil.rmtree(meta, ignore_errors=True)
        leg = name or cfg
        self.cov["legs"][leg] = {"module": module, "cfg": cfg, "generated": res.generated, "distinct": res.distinct,
                                 "wall_s": round(res.wall, 1), "violated": res.violated}
        return res

    def model_check(self, d, module, cfg=None, **kw):
        """Leg M: exhaustive check of the specification.  A counterexample here is a defect of the
        specification (our machinery), never a verdict about the repository: exit 2."""
        r = self.tlc(d, module, cfg, **kw)
        if r.violated or not r.ok:
            raise Broken("specification %s/%s does not satisfy its own properties (%s):\n%s"
                         % (module, cfg or module, r.violated, r.out[-4000:]))
        self.cov["states"] += r.distinct
        self.cov["transitions"] += r.generated
        self.log("M %s/%s: %d distinct states, %d generated, %.1fs" % (module, cfg or module, r.distinct, r.generated, r.wall))
        return r

    def expect_model_violation(self, d, module, cfg, **kw):
        """Design mutant: TLC must report a violation, otherwise the invariant is vacuous."""
        r = self.tlc(d, module, cfg, **kw)
        if not r.violated or r.violated == "eval-error":
            raise Broken("design mutant %s/%s was not rejected by TLC (vacuous invariant?)\n%s" % (module, cfg, r.out[-2000:]))
        self.cov["legs"][cfg]["design_mutant_rejected"] = r.violated
        return r

    # ---------------------------------------------------------------- trace validation (leg V)
    def validate_traces(self, module, cfg, trace_path, subdirs, parallel=None, timeout=900, env=None,
                        is_reset=None, name=None, deque=False, max_events_per_chunk=None):
        """Validate a recorded ndjson trace file against the monitor spec <module>/<cfg>.

        The file holds many cases, each terminated by a reset event (is_reset(line_dict) -> bool,
        default: k == "reset").  It is split at case boundaries into `parallel` chunks that are checked by
        independent single-worker TLC processes.  Monitors print `<<"VERIF-MISMATCH", json>>` and
        stop at the first event the specification does not allow.
        Returns (n_cases_accepted, n_events, mismatches) with mismatches = list of dicts
        {mismatch, case_events, line_in_case, chunk}.  Anything else than accept / mismatch is Broken."""
        import concurrent.futures
        is_reset = is_reset or (lambda e: e.get("k") == "reset")
        cases, cur = [], []
        with open(trace_path) as f:
            for line in f:
                if not line.strip():
                    continue
                cur.append(line)
                try:
                    ev = json.loads(line)
                except Exception:
                    raise Broken("unparsable trace line in %s: %r" % (trace_path, line[:200]))
                if is_reset(ev):
                    cases.append(cur)
                    cur = []
        if cur:
            cases.append(cur)
        if not cases:
            raise Broken("empty trace " + trace_path)
        parallel = max(1, min(parallel or NCPU, len(cases), maxpar()))
        chunks = [[] for _ in range(parallel)]
        sizes = [0] * parallel
        for c in sorted(cases, key=len, reverse=True):   # greedy balance
            i = sizes.index(min(sizes))
            chunks[i].append(c)
            sizes[i] += len(c)
        d = self.spec_dir(*subdirs)
        jobs = []
        for i, ch in enumerate(chunks):
            p = os.path.join(d, "chunk%d.ndjson" % i)
            with open(p, "w") as f:
                for c in ch:
                    f.writelines(c)
            jobs.append((i, p, ch))

        def one(job):
            i, p, ch = job
            e = dict(env or {})
            e["TRACE"] = p
            sub = os.path.join(d, "w%d" % i)
            os.makedirs(sub)
            for fn in os.listdir(d):
                if fn.endswith((".tla", ".cfg")):
                    os.symlink(os.path.join(d, fn), os.path.join(sub, fn))
            return i, ch, self.tlc(sub, module, cfg, workers=1, env=e, timeout=timeout, dump_trace=False,
                                   deque=deque, xmx="2g", name="%s#%d" % (name or cfg, i))

        mism, accepted, nev = [], 0, 0
        t = time.time()
        with concurrent.futures.ThreadPoolExecutor(max_workers=parallel) as ex:
            results = list(ex.map(one, jobs))
        gen = 0
        for i, ch, r in results:
            gen += r.generated
            m = re.search(r'<<"VERIF-MISMATCH", "(.*)">>', r.out)
            n_lines = sum(len(c) for c in ch)
            if m:
                mm = json.loads(json.loads('"' + m.group(1) + '"'))
                line = mm[0]
                k = 0
                for c in ch:
                    if line <= k + len(c):
                        mism.append({"mismatch": mm, "case_events": [json.loads(x) for x in c],
                                     "line_in_case": line - k, "chunk": i})
                        break
                    k += len(c)
                    accepted += 1
                    nev += len(c)
            elif r.violated is None and r.ok and r.generated >= n_lines:
                accepted += len(ch)
                nev += n_lines
            else:
                raise Broken("trace validation %s/%s chunk %d neither accepted nor rejected the trace (%s):\n%s"
                             % (module, cfg, i, r.violated, r.out[-3000:]))
        for k in [k for k in self.cov["legs"] if k.startswith("%s#" % (name or cfg))]:
            del self.cov["legs"][k]
        self.cov["legs"][name or cfg] = {"module": module, "cfg": cfg, "cases": len(cases), "accepted": accepted,
                                         "events": sum(len(c) for c in cases), "states_generated": gen,
                                         "mismatches": len(mism), "wall_s": round(time.time() - t, 1)}
        self.cov["traces_validated_against_impl"] += accepted
        self.cov["evaluations"] += sum(len(c) for c in cases)
        self.log("V %s/%s: %d cases, %d events, %d mismatch(es), %.1fs" % (module, cfg, len(cases),
                 sum(len(c) for c in cases), len(mism), time.time() - t))
        return accepted, nev, mism

    # ---------------------------------------------------------------- Go
    def gotest(self, module, pkg, files, run, env=None, timeout=600, tags="verif", extra_files=None, race=False, hang_guard=None):
        """Run an in-package harness: files (paths relative to /verif/harness) are overlaid into
        <repo>/<module>/<pkg>/ and `go test -tags verif -run <run>` is executed there."""
        ov = {"Replace": {}}
        for f in files:
            src = os.path.join(VERIF, "harness", f)
            if not os.path.exists(src):
                raise Broken("missing harness file " + src)
            dst = os.path.join(REPO, module, pkg, "zz_verif_" + os.path.basename(f))
            ov["Replace"][dst] = src
        for dst, src in (extra_files or {}).items():
            ov["Replace"][os.path.join(REPO, dst)] = os.path.join(VERIF, "harness", src)
        self._novl = getattr(self, "_novl", 0) + 1
        ovp = os.path.join(self.work, "overlay%d_%d.json" % (self._novl, len(os.listdir(self.work))))
        with open(ovp, "w") as f:
            json.dump(ov, f)
        e = dict(os.environ)
        e.update({"GOFLAGS": "-mod=mod", "GOPROXY": "off", "GOSUMDB": "off", "GOTOOLCHAIN": "local",
                  "VERIF_SEED": str(self.seed), "VERIF_TIER": self.tier, "VERIF_WORK": self.work})
        if env:
            e.update({k: str(v) for k, v in env.items()})
        cmd = ["go", "test", "-vet=off", "-count=1", "-tags", tags, "-overlay", ovp, "-run", run,
               "-timeout", "%ds" % timeout]
        if race:
            cmd.append("-race")
        cmd.append("./" + pkg if pkg else ".")
        t = time.time()
        if hang_guard:
            # The code under test not returning is a verdict, not a machinery failure.  The harness writes the call it is
            # about to make into a small side record (VERIF_PENDING) before every call of the real code; if the test
            # process tree burns more than cpu_s CPU-seconds (decided by CPU time, not wall clock) it is killed and the
            # pending call is handed back to the check, which reports it.
            pend = hang_guard["pending"]
            e["VERIF_PENDING"] = pend
            outp = os.path.join(self.work, "gotest_hg%d.out" % self._novl)
            with open(outp, "w") as fo:
                pr = subprocess.Popen(cmd, cwd=os.path.join(REPO, module), env=e, stdout=fo, stderr=subprocess.STDOUT,
                                      start_new_session=True)
                hung = None
                while pr.poll() is None:
                    time.sleep(1.0)
                    cpu = _session_cpu(pr.pid)
                    if cpu > hang_guard.get("cpu_s", 150) or time.time() - t > timeout + 60:
                        try:
                            os.killpg(pr.pid, signal.SIGKILL)
                        except Exception:
                            pass
                        pr.wait()
                        if cpu > hang_guard.get("cpu_s", 150):
                            hung = {"cpu_s": round(cpu), "pending": _read_pending(pend)}
                        else:
                            raise Broken("go test timed out (wall clock, %.0f CPU-s used): %s %s" % (cpu, pkg, run))
                        break
            out = open(outp, errors="replace").read()
            if hung is not None:
                self.last_hang = hung
                return -9, out, time.time() - t
            p = pr
            p.stdout = out
        else:
            try:
                p = subprocess.run(cmd, cwd=os.path.join(REPO, module), env=e, stdout=subprocess.PIPE,
                                   stderr=subprocess.STDOUT, timeout=timeout + 60, text=True, errors="replace")
            except subprocess.TimeoutExpired:
                raise Broken("go test timed out: %s %s" % (pkg, run))
        out = p.stdout
        with open(os.path.join(self.work, "gotest%d_%d.out" % (self._novl, len(os.listdir(self.work)))), "w") as f:
            f.write(out)
        if "[build failed]" in out or "[setup failed]" in out:
            raise Broken("harness for %s does not build against the current tree:\n%s" % (pkg, out[-3000:]))
        if "no tests to run" in out:
            raise Broken("harness test %s not found in %s" % (run, pkg))
        return p.returncode, out, time.time() - t

    # ---------------------------------------------------------------- verdicts
    def violation(self, what, replay):
        n = len(self.violations)
        path = os.path.join(self.replays, "%s-%s-seed%d-%d.json" % (self.prop, self.tier, self.seed, n))
        with open(path, "w") as f:
            json.dump({"property": self.prop, "what": what, "replay": replay}, f, indent=1, default=str)
        self.violations.append({"what": what, "replay": path})
        print("VIOLATION property=%s replay=%s" % (self.prop, path), flush=True)
        self.log("violation:", json.dumps(what, default=str)[:1500])

    def known_finding(self, what):
        if what not in self.known:
            self.known.append(what)
            print("KNOWN-FINDING: property=%s %s" % (self.prop, what), flush=True)

    def open_findings(self):
        return [f for f in self.kf.get("findings", []) if f.get("property") == self.prop]

    def distinct(self, key):
        self._distinct.add(hashlib.sha1(json.dumps(key, sort_keys=True, default=str).encode()).hexdigest())

    def sample(self, s):
        if len(self.cov["samples"]) < 4:
            self.cov["samples"].append(s)

    def note(self, s):
        if s not in self.cov["refinement_notes"]:
            self.cov["refinement_notes"].append(s)

    def finish(self, rc=None):
        self.cov["distinct_nontrivial"] = max(self.cov["distinct_nontrivial"], len(self._distinct))
        self.cov["rule"] = self.rule
        ev = {"property_id": self.prop, "tier": self.tier, "seed": self.seed, "level": self.level,
              "coverage": self.cov, "assumptions": self.assumptions, "wall_s": round(time.time() - self.t0, 2),
              "violations": len(self.violations), "known_findings": self.known}
        # evidence describes runs against /repo itself; mutant self-tests (VERIF_REPO=scratch copy) leave it alone
        if os.path.realpath(REPO) == "/repo" and os.environ.get("VERIF_NO_EVIDENCE") != "1":
            os.makedirs(os.path.join(VERIF, "evidence"), exist_ok=True)
            with open(os.path.join(VERIF, "evidence", self.prop + ".json"), "w") as f:
                json.dump(ev, f, indent=1, default=str)
        if os.environ.get("VERIF_KEEP_WORK") != "1":
            shutil.rmtree(self.work, ignore_errors=True)
        if rc is None:
            rc = 1 if self.violations else 0
        self.log("done: %d violation(s), %d known finding(s), exit %d" % (len(self.violations), len(self.known), rc))
        return rc


def _session_cpu(sid):
    """CPU seconds (user+system) used so far by the live processes of session sid."""
    tck = os.sysconf("SC_CLK_TCK")
    total = 0.0
    for d in os.listdir("/proc"):
        if not d.isdigit():
            continue
        try:
            with open("/proc/%s/stat" % d) as f:
                st = f.read()
            rest = st[st.rindex(")") + 2:].split()
            if int(rest[3]) == sid:          # field 6: session id
                total += (int(rest[11]) + int(rest[12])) / tck   # utime + stime
        except Exception:
            continue
    return total


def _read_pending(path):
    try:
        with open(path, "rb") as f:
            raw = f.read(512).split(b"\x00")[0].decode(errors="replace").strip()
        return json.loads(raw) if raw.startswith("{") else raw
    except Exception:
        return None


def load_known_findings():
    p = os.path.join(VERIF, "known_findings.json")
    if os.path.exists(p):
        with open(p) as f:
            return json.load(f)
    return {"findings": [], "fixed": []}


def read_ndjson(path):
    out = []
    with open(path) as f:
        for line in f:
            line = line.strip()
            if line:
                out.append(json.loads(line))
    return out


def w64(v):
    v &= (1 << 64) - 1
    return [(v >> 48) & 0xffff, (v >> 32) & 0xffff, (v >> 16) & 0xffff, v & 0xffff]


def main():
    import importlib
    if len(sys.argv) < 3:
        print("usage: vcheck.py <property-id> quick|thorough [--replay FILE]")
        sys.exit(2)
    prop, tier = sys.argv[1], sys.argv[2]
    tier = os.environ.get("VERIF_TIER_OVERRIDE", tier)
    seed = int(os.environ.get("VERIF_SEED", "1") or 1)
    sys.path.insert(0, os.path.join(VERIF, "tools"))
    mod = importlib.import_module("checks." + prop.replace("-", "_"))
    ctx = Ctx(prop, tier, seed, level=getattr(mod, "LEVEL", "model_checking"))
    replay = None
    if "--replay" in sys.argv:
        replay = sys.argv[sys.argv.index("--replay") + 1]
    try:
        if replay:
            rc = mod.replay(ctx, replay)
            sys.exit(ctx.finish(rc) if rc is None else rc)
        mod.run(ctx)
        sys.exit(ctx.finish())
    except Broken as e:
        print("CHECK-BROKEN property=%s: %s" % (prop, e), flush=True)
        if os.environ.get("VERIF_KEEP_WORK") != "1":
            shutil.rmtree(ctx.work, ignore_errors=True)
        sys.exit(2)


if __name__ == "__main__":
    main()
