#!/usr/bin/env python3
"""process_benign.py <prefix e.g. /tmp/benign> <ID>... : for each delivered property-preserving change
(<prefix>-<ID>/<n>/patch.diff + meta.json; n from env BENIGN_NUMS, default "1 2 3") apply it to a scratch copy of /repo, run the quick check of that property
with VERIF_REPO pointing there and record the outcome (expected: exit 0, no VIOLATION) under /verif/benign/<ID>-<n>/."""
import json, os, shutil, subprocess, sys, tempfile, time
V = os.path.dirname(os.path.dirname(os.path.abspath(__file__)))
prefix = sys.argv[1]
for pid in sys.argv[2:]:
    for n in os.environ.get("BENIGN_NUMS", "1 2 3").split():
        src = "%s-%s/%s" % (prefix, pid, n)
        if not os.path.exists(os.path.join(src, "patch.diff")):
            print("%s-%s: not delivered" % (pid, n)); continue
        tmp = tempfile.mkdtemp(prefix="verif-benign.")
        try:
            dst = os.path.join(tmp, "repo")
            subprocess.run(["rsync", "-a", "--exclude", ".git", "/repo/", dst + "/"], check=True)
            p = subprocess.run(["patch", "-p1", "-s", "-d", dst, "-i", os.path.join(src, "patch.diff")], stdout=subprocess.PIPE, stderr=subprocess.STDOUT, text=True)
            if p.returncode != 0:
                print("%s-%s: PATCH-FAILED" % (pid, n)); continue
            e = dict(os.environ, VERIF_REPO=dst, VERIF_SEED="1", VERIF_NO_EVIDENCE="1")
            t = time.time()
            p = subprocess.run([sys.executable, os.path.join(V, "tools", "vcheck.py"), pid, "quick"], cwd=V, env=e, stdout=subprocess.PIPE, stderr=subprocess.STDOUT, text=True)
            dt = time.time() - t
            viol = [l for l in p.stdout.splitlines() if l.startswith("VIOLATION")]
            status = "quiet" if p.returncode == 0 and not viol else ("ALARM" if p.returncode == 1 else "BROKEN rc=%d" % p.returncode)
            out = os.path.join(V, "benign", "%s-%s" % (pid, n)); os.makedirs(out, exist_ok=True)
            shutil.copy(os.path.join(src, "patch.diff"), out)
            meta = {}
            try: meta = json.load(open(os.path.join(src, "meta.json")))
            except Exception: pass
            meta["check_result"] = {"status": status, "wall_s": round(dt), "tier": "quick", "seed": 1}
            if status != "quiet":
                meta["check_output_tail"] = "\n".join(l for l in p.stdout.splitlines() if "violation" in l.lower() or "BROKEN" in l)[-3000:]
            json.dump(meta, open(os.path.join(out, "meta.json"), "w"), indent=1)
            print("%s-%s: %s (%.0fs) %s" % (pid, n, status, dt, meta.get("title", "")[:100]), flush=True)
            for v in viol:
                try: os.remove(v.split("replay=")[1].strip())
                except Exception: pass
        finally:
            shutil.rmtree(tmp, ignore_errors=True)
