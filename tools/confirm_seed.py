#!/usr/bin/env python3
"""confirm_seed.py <seed-dir> <name> [worktree]: independently confirm a seeded defect produced by a sub-agent:
 - patch applies to a clean scratch worktree of /repo, repository tests stay green with it,
 - the demonstration fails with the patch and passes without it,
then store it as /verif/seeded/<name>/ (patch.diff, demo, meta.json with what was run)."""
import json, os, shutil, subprocess, sys
V = os.path.dirname(os.path.dirname(os.path.abspath(__file__)))
src, name = sys.argv[1], sys.argv[2]
wt = sys.argv[3] if len(sys.argv) > 3 else "/tmp/wt-confirm"
env = dict(os.environ, GOFLAGS="-mod=mod", GOPROXY="off", GOSUMDB="off", GOTOOLCHAIN="local")
def sh(cmd, cwd=None, ok=None):
    p = subprocess.run(cmd, shell=True, cwd=cwd, env=env, stdout=subprocess.PIPE, stderr=subprocess.STDOUT, text=True)
    return p.returncode, p.stdout
made = False
if not os.path.exists(wt):
    rc, out = sh("git -C /repo worktree add -q --detach %s HEAD" % wt); made = True
    if rc: sys.exit(out)
ran = []
try:
    sh("git checkout -q -- . && git clean -fdq", wt)
    meta = json.load(open(os.path.join(src, "meta.json")))
    demo = meta["demo"]; ddir = os.path.join(wt, demo["dir"])
    mod = "kbuild" if demo["dir"].startswith("kbuild") else "kernel"
    rc, out = sh("git apply %s" % os.path.join(src, "patch.diff"), wt); ran.append(["git apply patch.diff", rc])
    if rc: sys.exit("patch does not apply: " + out)
    rc, out = sh("go vet ./... >/dev/null 2>&1; go test -vet=off -count=1 ./... 2>&1 | grep -E '^(--- FAIL|FAIL\\s|panic:)' | grep -v goruntime", os.path.join(wt, mod))
    suite_ok = out.strip() == ""   # (goruntime does not link under the host toolchain: baseline)
    ran.append(["existing suite with patch: failing lines = %r" % out.strip(), 0 if suite_ok else 1])
    if mod == "kernel" and out.strip() == "FAIL":
        pass
    shutil.copy(os.path.join(src, demo["file"]), os.path.join(ddir, "zz_seed_" + demo["file"]))
    runcmd = demo.get("run", "go test -vet=off -count=1 .")
    import re
    m = re.search(r"-run\s+'?\"?([^\s'\"]+)", runcmd); runre = m.group(1) if m else "."
    cmd = "go test -vet=off -count=1 -run '%s' ." % runre
    rc1, out1 = sh(cmd, ddir); ran.append([cmd + " (with patch)", rc1])
    sh("git apply -R %s" % os.path.join(src, "patch.diff"), wt)
    rc2, out2 = sh(cmd, ddir); ran.append([cmd + " (without patch)", rc2])
    print(json.dumps(ran, indent=1))
    if not suite_ok or rc1 == 0 or rc2 != 0:
        print("NOT CONFIRMED\n", out1[-1500:], out2[-1500:]); sys.exit(1)
    dst = os.path.join(V, "seeded", name); os.makedirs(dst, exist_ok=True)
    shutil.copy(os.path.join(src, "patch.diff"), dst); shutil.copy(os.path.join(src, demo["file"]), dst)
    meta["confirmed_by_lead"] = ran
    meta["demo_fail_output_tail"] = out1[-600:]
    json.dump(meta, open(os.path.join(dst, "meta.json"), "w"), indent=1)
    print("CONFIRMED ->", dst)
finally:
    sh("git checkout -q -- . && git clean -fdq", wt)
    if made:
        sh("git -C /repo worktree remove --force %s" % wt)
