#!/bin/sh
# process_seed_wave.sh <wave-prefix e.g. /tmp/seed2> <wt-prefix e.g. /tmp/wt2> <suffix-for-a> <suffix-for-b> <ID>...
# confirms each delivered seeded defect, stores it under seeded/<ID>-<suffix>, runs the quick check against it
sp=$1; wp=$2; sa=$3; sb=$4; shift 4
cd "$(dirname "$0")/.."
for p in "$@"; do
  for pair in a:$sa b:$sb; do
    v=${pair%%:*}; s=${pair##*:}
    [ -f $sp-$p/$v/patch.diff ] || { echo "$p-$s: not delivered"; continue; }
    r=$(python3 tools/confirm_seed.py $sp-$p/$v $p-$s $wp-$p 2>&1 | tail -1)
    case "$r" in CONFIRMED*) ;; *) echo "$p-$s: NOT CONFIRMED ($r)"; continue;; esac
    python3 tools/selftest.py $p seeded/$p-$s/patch.diff 2>&1 | head -1
  done
  git -C /repo worktree remove --force $wp-$p 2>/dev/null
done
