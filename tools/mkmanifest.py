#!/usr/bin/env python3
"""Regenerates MANIFEST.json from the table below (one entry per claimed property)."""
import json, os
V = os.path.dirname(os.path.dirname(os.path.abspath(__file__)))
ALL = ["C%02d" % i for i in range(1, 21)]
MC = "model_checking"
CHECKS = {
 "C01": dict(cat=MC, ref="4.1", tech="TLA+ monitor PmmProps: TLC exhaustive on the transcribed allocator model + TLC trace validation of real pmm executions (TLC-enumerated small maps and random real-scale maps)",
   text="The statement is an invariant of PmmProps (frame usable, not kernel, not early-boot, not held). TLC checks it on the transcribed design for every map of the small scope, then every TLC-enumerated map/kernel placement and alloc/free script is replayed on the real package and, with seeded random real-scale histories, every recorded event is judged by the same TLA+ operators.",
   note="Exhaustive only inside the TLC scope (<=2 regions over 4-7 frames in quarter-page units, 4-bit bitmap words, <=6 ops); real-scale maps are sampled. Trusted: multiboot encoder + event logger in harness/pmm, seams reserveRegionFn/mapFn. Kernel/early frames are never freed by the drivers."),
 "C02": dict(cat=MC, ref="4.1", tech="TLA+ monitor PmmProps (boot allocator events) checked by TLC on the transcribed BootMemAllocator for every small map and on traces of the real allocator drained, reset and replayed",
   text="Ascending, usable, non-kernel frames and replay determinism are checked by TLC for every map/kernel placement of the small scope on the transcription and, through trace validation, on the real BootMemAllocator for the same maps (scaled) and for random real-scale maps, drained to exhaustion, reset and replayed.",
   note="An early out-of-memory (frames remain but are skipped) is not flagged: the statement only forbids returning a wrong frame. Same scope/trust as C01."),
 "C03": dict(cat=MC, ref="4.1", tech="TLA+ monitor PmmProps (accounting, OOM-iff-exhausted, free contract, no panic) via TLC model checking + trace validation of real pmm executions",
   text="Init outcome, OOM exactly at exhaustion, totals after every step and the error contract of FreeFrame are monitor checks evaluated by TLC on every event of the design model and of real executions (word-boundary pool sizes 63/64/65/128/129..., sub-page regions, unaligned bounds).",
   note="Same scope/trust as C01. The pinned tree violated this (bitmap one bit short, frameless regions); repaired by a fix: commit, see known_findings.json."),
}
NA = {}
def main():
    checks = []
    for pid in ALL:
        if pid not in CHECKS:
            continue
        c = CHECKS[pid]
        checks.append({
            "property_id": pid,
            "quick_cmd": "python3 tools/vcheck.py %s quick" % pid,
            "thorough_cmd": "python3 tools/vcheck.py %s thorough" % pid,
            "evidence_file": "/verif/evidence/%s.json" % pid,
            "replay_cmd_template": "python3 tools/vcheck.py %s quick --replay {path}" % pid,
            "engine": "tlc+go-overlay-harness",
            "level_claimed": {"category": c["cat"], "text": c["text"], "design_ref": "DESIGN.md section " + c["ref"]},
            "level_note": c["note"],
            "technique": c["tech"],
        })
    na = [{"property_id": p, "reason": NA.get(p, "check not built yet in this round (work in progress; see DESIGN.md section 4 for the planned TLA+ specification)")}
          for p in ALL if p not in CHECKS]
    m = {
        "version": 1,
        "setup_cmd": "python3 tools/setup.py",
        "hooks": {"guard": "verif",
                  "enable": "go test -tags verif -overlay <generated overlay.json mapping /verif/harness/*_test.go into the package directories> (no instrumentation is committed to /repo)",
                  "baseline_off_cmd": "for m in kbuild kernel; do (cd /repo/$m && GOFLAGS=-mod=mod GOPROXY=off GOSUMDB=off go test -json -vet=off -count=1 -timeout 25m ./...); done",
                  "source_commits": [], "add_only": True},
        "engines": [{"name": "tlc+go-overlay-harness", "path": "tools/vcheck.py", "serves_properties": sorted(CHECKS),
                     "kind_free_text": "explicit TLA+ specifications (specs/) model-checked by TLC; small-scope cases emitted by TLC are replayed on the real Go packages and traces recorded from the real packages are validated by TLC against TLA+ monitor specs"}],
        "checks": checks,
        "not_applicable": na,
        "notes": "Exit codes: 0 held, 1 VIOLATION, 2 machinery broken/inconclusive. VERIF_SEED and VERIF_REPO are honoured. known_findings.json lists recorded and fixed defects.",
    }
    with open(os.path.join(V, "MANIFEST.json"), "w") as f:
        json.dump(m, f, indent=1)
if __name__ == "__main__":
    main()
