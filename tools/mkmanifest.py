#!/usr/bin/env python3
"""Regenerates MANIFEST.json from the table below (one entry per claimed property)."""
import json, os
V = os.path.dirname(os.path.dirname(os.path.abspath(__file__)))
ALL = ["C%02d" % i for i in range(1, 21)]
MC = "model_checking"
# one JSON fragment per claimed property: tools/manifest/<ID>.json with keys
#   cat (level category), ref (DESIGN.md section), tech (technique), text (level_claimed.text), note (level_note)
# a property without a fragment is listed under not_applicable (reason from tools/manifest/NA.json if present)
CHECKS = {}
# only checks the lead has run and reviewed on the unchanged tree are claimed (tools/manifest/ENABLED)
ENABLED = open(os.path.join(V, "tools", "manifest", "ENABLED")).read().split()
for pid in ENABLED:
    p = os.path.join(V, "tools", "manifest", pid + ".json")
    if os.path.exists(p):
        CHECKS[pid] = json.load(open(p))
NA = json.load(open(os.path.join(V, "tools", "manifest", "NA.json"))) if os.path.exists(os.path.join(V, "tools", "manifest", "NA.json")) else {}
def main():
    checks = []
    for pid in ALL:
        if pid not in CHECKS:
            continue
        c = CHECKS[pid]
        checks.append({
            "property_id": pid,
            "quick_cmd": "python3 tools/vcheck.py %s quick" % pid,
            "thorough_cmd": "python3 tools/vcheck.py %s thorough" % pid,
            "evidence_file": "/verif/evidence/%s.json" % pid,
            "replay_cmd_template": "python3 tools/vcheck.py %s quick --replay {path}" % pid,
            "engine": "tlc+go-overlay-harness",
            "level_claimed": {"category": c["cat"], "text": c["text"], "design_ref": "DESIGN.md section " + c["ref"]},
            "level_note": c["note"],
            "technique": c["tech"],
        })
    na = [{"property_id": p, "reason": NA.get(p, "check not built yet in this round (work in progress; see DESIGN.md section 4 for the planned TLA+ specification)")}
          for p in ALL if p not in CHECKS]
    m = {
        "version": 1,
        "setup_cmd": "python3 tools/setup.py",
        "hooks": {"guard": "verif",
                  "enable": "go test -tags verif -overlay <generated overlay.json mapping /verif/harness/*_test.go into the package directories> (no instrumentation is committed to /repo)",
                  "baseline_off_cmd": "for m in kbuild kernel; do (cd /repo/$m && GOFLAGS=-mod=mod GOPROXY=off GOSUMDB=off go test -json -vet=off -count=1 -timeout 25m ./...); done",
                  "source_commits": [], "add_only": True},
        "engines": [{"name": "tlc+go-overlay-harness", "path": "tools/vcheck.py", "serves_properties": sorted(CHECKS),
                     "kind_free_text": "explicit TLA+ specifications (specs/) model-checked by TLC; small-scope cases emitted by TLC are replayed on the real Go packages and traces recorded from the real packages are validated by TLC against TLA+ monitor specs"}],
        "checks": checks,
        "not_applicable": na,
        "notes": "Exit codes: 0 held, 1 VIOLATION, 2 machinery broken/inconclusive. VERIF_SEED and VERIF_REPO are honoured. known_findings.json lists recorded and fixed defects.",
    }
    # extension families (spec growth beyond the listed properties): listed as engines only, never as checks
    import glob
    for fp in sorted(glob.glob(os.path.join(V, "tools", "manifest", "extra-*.json"))):
        name = os.path.basename(fp)[:-5]
        try:
            j = json.load(open(fp))
        except Exception:
            continue
        m["engines"].append({"name": name, "path": "tools/checks/%s.py" % name.replace("-", "_"), "serves_properties": [],
                             "kind_free_text": "extension family (not a listed property; run: python3 tools/vcheck.py %s quick|thorough): %s"
                                               % (name, (j.get("tech") or j.get("text") or "")[:300])})
    with open(os.path.join(V, "MANIFEST.json"), "w") as f:
        json.dump(m, f, indent=1)
if __name__ == "__main__":
    main()
