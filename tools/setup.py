#!/usr/bin/env python3
"""MANIFEST.setup_cmd: nothing to build ahead of time (checks compile the Go harness from /repo's
working tree on every run); verify the toolchain is present and warm the Go build cache."""
import os, shutil, subprocess, sys
ok = True
for tool in ("java", "go", "python3"):
    if not shutil.which(tool):
        print("missing tool:", tool); ok = False
for p in ("/opt/veriftools/tla/tla2tools.jar", "/opt/veriftools/tla/CommunityModules-deps.jar"):
    if not os.path.exists(p):
        print("missing:", p); ok = False
e = dict(os.environ, GOFLAGS="-mod=mod", GOPROXY="off", GOSUMDB="off", GOTOOLCHAIN="local")
for m in ("kernel", "kbuild"):
    subprocess.run(["go", "build", "./..."], cwd="/repo/" + m, env=e, stdout=subprocess.DEVNULL, stderr=subprocess.DEVNULL)
os.makedirs(os.path.join(os.path.dirname(os.path.dirname(os.path.abspath(__file__))), "evidence"), exist_ok=True)
sys.exit(0 if ok else 1)
