#!/bin/sh
# developer helper: tlcrun.sh <family> <module> <cfg> [workers] [extra TLC args...]
# copies specs/lib + specs/<family> to a scratch dir under .work and runs TLC there
fam=$1; mod=$2; cfg=$3; w=${4:-16}; shift 4 2>/dev/null || shift 3
V=$(cd "$(dirname "$0")/.." && pwd)
d=$V/.work/dev.$fam.$$
mkdir -p $d && cp $V/specs/lib/*.tla $V/specs/$fam/*.tla $V/specs/$fam/*.cfg $d/ 2>/dev/null
cd $d
timeout ${TLC_TIMEOUT:-1800} java -Djava.io.tmpdir=$d -XX:+UseParallelGC -Xmx${TLC_XMX:-12g} -Xss64m -cp /opt/veriftools/tla/tla2tools.jar:/opt/veriftools/tla/CommunityModules-deps.jar tlc2.TLC -workers $w -metadir $d/meta -config $cfg.cfg -noGenerateSpecTE "$@" $mod.tla 2>&1 | grep -v "^Semantic processing\|^Linting of\|^Parsing file"
rc=$?
[ -n "$KEEP" ] && echo "kept $d" || rm -rf $d
exit $rc
