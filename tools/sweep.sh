#!/bin/sh
# sweep.sh <tier> <seeds...> : run every claimed check for the given seeds; print one line per run
tier=$1; shift
cd "$(dirname "$0")/.."; mkdir -p .work
for s in "$@"; do
  for p in ${PROPS:-$(cat tools/manifest/ENABLED)}; do
    t0=$(date +%s)
    VERIF_SEED=$s VERIF_NO_EVIDENCE=1 python3 tools/vcheck.py $p $tier > .work/sweep.$p.$s.$tier.log 2>&1
    rc=$?
    echo "$p seed=$s tier=$tier rc=$rc $(( $(date +%s) - t0 ))s $(grep -c '^VIOLATION' .work/sweep.$p.$s.$tier.log) violations"
    [ $rc = 0 ] && rm -f .work/sweep.$p.$s.$tier.log
  done
done
