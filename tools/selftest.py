#!/usr/bin/env python3
"""Mutant self-test: for each patch in selftest/mutants/<ID>/ (or seeded/<name>/patch.diff whose
meta.json names the property) copy /repo to a scratch dir, apply the patch, run the quick check
of that property with VERIF_REPO pointing at the copy and expect exit 1 + a VIOLATION line.
usage: selftest.py <ID> [patch ...] [--tier quick|thorough] [--seed N]"""
import glob, json, os, shutil, subprocess, sys, tempfile, time
VERIF = os.path.dirname(os.path.dirname(os.path.abspath(__file__)))

def run_one(prop, patch, tier, seed):
    tmp = tempfile.mkdtemp(prefix="verif-selftest.")
    try:
        dst = os.path.join(tmp, "repo")
        subprocess.run(["rsync", "-a", "--exclude", ".git", "/repo/", dst + "/"], check=True)
        p = subprocess.run(["patch", "-p1", "-s", "-d", dst, "-i", patch], stdout=subprocess.PIPE, stderr=subprocess.STDOUT, text=True)
        if p.returncode != 0:
            return "PATCH-FAILED", p.stdout
        e = dict(os.environ, VERIF_REPO=dst, VERIF_SEED=str(seed), VERIF_NO_EVIDENCE="1")
        t = time.time()
        p = subprocess.run([sys.executable, os.path.join(VERIF, "tools", "vcheck.py"), prop, tier],
                           cwd=VERIF, env=e, stdout=subprocess.PIPE, stderr=subprocess.STDOUT, text=True)
        dt = time.time() - t
        viol = [l for l in p.stdout.splitlines() if l.startswith("VIOLATION")]
        if p.returncode == 1 and viol:
            return "CAUGHT (%.0fs)" % dt, p.stdout
        return "MISSED rc=%d (%.0fs)" % (p.returncode, dt), p.stdout
    finally:
        shutil.rmtree(tmp, ignore_errors=True)

def main():
    args = sys.argv[1:]
    tier, seed = "quick", 1
    if "--tier" in args:
        i = args.index("--tier"); tier = args[i + 1]; del args[i:i + 2]
    if "--seed" in args:
        i = args.index("--seed"); seed = int(args[i + 1]); del args[i:i + 2]
    verbose = "-v" in args
    if verbose: args.remove("-v")
    prop = args[0]
    patches = args[1:] or sorted(glob.glob(os.path.join(VERIF, "selftest", "mutants", prop, "*.patch")))
    for m in sorted(glob.glob(os.path.join(VERIF, "seeded", "*", "meta.json"))):
        if not args[1:]:
            try:
                if json.load(open(m)).get("property") == prop:
                    patches.append(os.path.join(os.path.dirname(m), "patch.diff"))
            except Exception:
                pass
    bad = 0
    for pt in patches:
        res, out = run_one(prop, os.path.abspath(pt), tier, seed)
        print("%-60s %s" % (os.path.relpath(pt, VERIF), res), flush=True)
        if not res.startswith("CAUGHT"):
            bad += 1
            print("\n".join(out.splitlines()[-15:]))
        elif verbose:
            print("\n".join(l for l in out.splitlines() if "violation" in l.lower())[:800])
    # the evidence file belongs to runs against /repo: restore by re-running is the caller's job
    sys.exit(1 if bad else 0)

if __name__ == "__main__":
    main()
