#!/usr/bin/env python3
"""asm2tla.py - model extraction for C08 (DESIGN 3.5 / 4.6).

Reads the CURRENT kernel/sync/spinlock_amd64.s and kernel/sync/spinlock.go of a repository
tree and writes a TLA+ module `SpinProg` holding
  ExtractedProg      the instruction table of archAcquireSpinlock (labels resolved to indices)
  ExtractedAttempts  the constant Acquire passes as attemptsBeforeYielding
  ExtractedTry       the atomic operation of TryToAcquire
  ExtractedRel       the store of Release
for the interpreter specs/sync/SpinAsm.tla.  Only a fixed dictionary of instruction shapes and
of Go statement shapes is understood; anything else makes that part "inconclusive" (the part is
left out of the model and the caller writes a note) - never an alarm.

usage: asm2tla.py <repo> <out.tla> [<out.json>]      (exit 0 always; the JSON says what was understood)
"""
import json, os, re, sys

REGS = {"AX", "BX", "CX"}
NOREC = [{"op": "nop", "d": "AX", "s": "AX", "v": 0, "to": 0}]


def ins(op, d="AX", s="AX", v=0, to=0):
    return {"op": op, "d": d, "s": s, "v": v, "to": to}


def parse_operand(o):
    o = o.strip()
    m = re.fullmatch(r"\$(-?(?:0x[0-9a-fA-F]+|\d+))", o)
    if m:
        return ("imm", int(m.group(1), 0))
    if o in REGS:
        return ("reg", o)
    m = re.fullmatch(r"(?:0)?\((AX|BX|CX)\)", o)
    if m:
        return ("mem", m.group(1))
    m = re.fullmatch(r"(\w+)\+(\d+)\(FP\)", o)
    if m:
        return ("arg", m.group(1), int(m.group(2)))
    m = re.fullmatch(r"[·\w.]*yieldFn(?:\+0)?\(SB\)", o)
    if m:
        return ("yieldfn",)
    return ("unknown", o)


def extract_asm(text):
    """-> (prog list, listing) or raises ValueError(reason)"""
    lines = []
    in_fn = False
    for raw in text.splitlines():
        line = raw.split("//")[0].strip()
        if not line or line.startswith("#"):
            continue
        if line.startswith("TEXT"):
            if in_fn:
                break
            if "archAcquireSpinlock" in line:
                in_fn = True
                m = re.search(r"\$(\d+)-(\d+)", line)
                if not m or m.group(2) != "12":
                    raise ValueError("unexpected frame/argument size in TEXT line: " + line)
            continue
        if in_fn:
            lines.append(line)
    if not in_fn:
        raise ValueError("TEXT archAcquireSpinlock not found")
    labels, code = {}, []
    for line in lines:
        m = re.fullmatch(r"(\w+):\s*(.*)", line)
        if m:
            labels[m.group(1)] = len(code) + 1
            line = m.group(2).strip()
            if not line:
                continue
        code.append(line)
    prog, listing = [], []
    args = {}
    for k, line in enumerate(code):
        parts = line.split(None, 1)
        mn = parts[0].upper()
        ops = [parse_operand(x) for x in parts[1].split(",")] if len(parts) > 1 else []
        if mn in ("JNZ", "JNE", "JZ", "JE", "JEQ", "JMP"):
            if len(parts) != 2 or parts[1].strip() not in labels:
                raise ValueError("jump to unknown label: " + line)
        for o in ops:
            if o[0] == "unknown" and mn not in ("JNZ", "JNE", "JZ", "JE", "JEQ", "JMP"):
                raise ValueError("operand not understood: " + line)
        kinds = tuple(o[0] for o in ops)
        if mn in ("PAUSE", "NOP") and not ops:
            i = ins("nop")
        elif mn == "RET" and not ops:
            i = ins("ret")
        elif mn == "MOVQ" and kinds == ("arg", "reg"):
            if ops[0][2] != 0:
                raise ValueError("MOVQ of an argument that is not state+0(FP): " + line)
            i = ins("ldstate", d=ops[1][1])
        elif mn == "MOVL" and kinds == ("arg", "reg"):
            if ops[0][2] != 8:
                raise ValueError("MOVL of an argument that is not attemptsBeforeYielding+8(FP): " + line)
            i = ins("ldatt", d=ops[1][1])
        elif mn == "MOVQ" and kinds == ("yieldfn", "reg"):
            i = ins("ldyield", d=ops[1][1])
        elif mn in ("MOVL", "MOVQ") and kinds == ("imm", "reg"):
            if not 0 <= ops[0][1] <= 3:
                raise ValueError("immediate outside the modelled range 0..3: " + line)
            i = ins("movi", d=ops[1][1], v=ops[0][1])
        elif mn in ("MOVL", "MOVQ") and kinds == ("reg", "reg"):
            i = ins("movr", d=ops[1][1], s=ops[0][1])
        elif mn == "MOVL" and kinds == ("mem", "reg"):
            i = ins("load", d=ops[1][1], s=ops[0][1])
        elif mn == "MOVL" and kinds == ("reg", "mem"):
            i = ins("store", d=ops[1][1], s=ops[0][1])
        elif mn == "MOVL" and kinds == ("imm", "mem"):
            if not 0 <= ops[0][1] <= 3:
                raise ValueError("immediate outside the modelled range 0..3: " + line)
            i = ins("storei", d=ops[1][1], v=ops[0][1])
        elif mn == "XCHGL" and kinds == ("mem", "reg"):
            i = ins("xchg", d=ops[1][1], s=ops[0][1])
        elif mn == "XCHGL" and kinds == ("reg", "mem"):
            i = ins("xchg", d=ops[0][1], s=ops[1][1])
        elif mn in ("TESTL", "TESTQ") and kinds == ("reg", "reg") and ops[0][1] == ops[1][1]:
            i = ins("test", d=ops[0][1])
        elif mn in ("CMPL", "CMPQ") and kinds == ("reg", "imm"):
            if not 0 <= ops[1][1] <= 3:
                raise ValueError("immediate outside the modelled range 0..3: " + line)
            i = ins("cmpi", d=ops[0][1], v=ops[1][1])
        elif mn in ("DECL", "DECQ") and kinds == ("reg",):
            i = ins("dec", d=ops[0][1])
        elif mn in ("INCL", "INCQ") and kinds == ("reg",):
            i = ins("inc", d=ops[0][1])
        elif mn in ("JNZ", "JNE"):
            i = ins("jnz", to=labels[parts[1].strip()])
        elif mn in ("JZ", "JE", "JEQ"):
            i = ins("jz", to=labels[parts[1].strip()])
        elif mn == "JMP":
            i = ins("jmp", to=labels[parts[1].strip()])
        elif mn == "CALL" and kinds in (("mem",), ("reg",)):
            i = ins("call", s=ops[0][1])
        else:
            raise ValueError("instruction outside the dictionary: " + line)
        prog.append(i)
        listing.append("%2d  %s" % (k + 1, line))
    if not prog:
        raise ValueError("empty routine")
    if len(prog) > 40:
        raise ValueError("routine longer than 40 instructions")
    return prog, listing


def func_body(src, name):
    m = re.search(r"func \(l \*Spinlock\) %s\(\)[^{]*\{" % name, src)
    if not m:
        raise ValueError("method %s not found" % name)
    i, depth = m.end(), 1
    while depth:
        if i >= len(src):
            raise ValueError("unbalanced braces in " + name)
        depth += {"{": 1, "}": -1}.get(src[i], 0)
        i += 1
    body = src[m.end():i - 1]
    body = re.sub(r"//[^\n]*", "", body)
    return " ".join(body.split())


def small(v):
    n = int(v, 0)
    if not 0 <= n <= 3:
        raise ValueError("constant outside the modelled range 0..3: " + v)
    return n


def extract_go(src):
    out, notes = {}, []
    try:
        b = func_body(src, "Acquire")
        m = re.fullmatch(r"archAcquireSpinlock\(&l\.state, (\w+)\)", b)
        if not m:
            raise ValueError("Acquire is not a single call archAcquireSpinlock(&l.state, N): " + b)
        out["attempts"] = int(m.group(1), 0)
    except ValueError as e:
        notes.append("Acquire: " + str(e))
    try:
        b = func_body(src, "TryToAcquire")
        m = re.fullmatch(r"return atomic\.SwapUint32\(&l\.state, (\w+)\) (==|!=) (\w+)", b)
        m2 = re.fullmatch(r"return atomic\.CompareAndSwapUint32\(&l\.state, (\w+), (\w+)\)", b)
        if m:
            out["try"] = {"kind": "swap", "v": small(m.group(1)), "cmp": "eq" if m.group(2) == "==" else "ne", "c": small(m.group(3)),
                          "old": 0, "new": 0}
        elif m2:
            out["try"] = {"kind": "cas", "v": 0, "cmp": "eq", "c": 0, "old": small(m2.group(1)), "new": small(m2.group(2))}
        else:
            raise ValueError("TryToAcquire is not `return atomic.SwapUint32(&l.state, V) ==|!= C` nor a CompareAndSwap: " + b)
    except ValueError as e:
        notes.append("TryToAcquire: " + str(e))
    try:
        b = func_body(src, "Release")
        m = re.fullmatch(r"atomic\.StoreUint32\(&l\.state, (\w+)\)", b)
        m2 = re.fullmatch(r"l\.state = (\w+)", b)
        if m:
            out["rel"] = {"kind": "atomic", "v": small(m.group(1))}
        elif m2:
            out["rel"] = {"kind": "plain", "v": small(m2.group(1))}
        else:
            raise ValueError("Release is not a single store to l.state: " + b)
    except ValueError as e:
        notes.append("Release: " + str(e))
    return out, notes


def tla_rec(d):
    def val(v):
        return '"%s"' % v if isinstance(v, str) else str(v)
    return "[" + ", ".join("%s |-> %s" % (k, val(v)) for k, v in d.items()) + "]"


def extract(repo):
    res = {"notes": [], "prog": None, "listing": [], "attempts": None, "try": None, "rel": None}
    try:
        with open(os.path.join(repo, "kernel/sync/spinlock_amd64.s")) as f:
            res["prog"], res["listing"] = extract_asm(f.read())
    except (ValueError, OSError) as e:
        res["notes"].append("spinlock_amd64.s: " + str(e))
    try:
        with open(os.path.join(repo, "kernel/sync/spinlock.go")) as f:
            go, notes = extract_go(f.read())
        res["notes"] += notes
        res["attempts"], res["try"], res["rel"] = go.get("attempts"), go.get("try"), go.get("rel")
    except OSError as e:
        res["notes"].append("spinlock.go: " + str(e))
    if res["attempts"] is None and res["prog"] is not None:
        res["notes"].append("acquire path left out: the Go wrapper Acquire was not understood")
        res["prog"] = None
    return res


def module(res, name="SpinProg"):
    prog = res["prog"]
    lines = ["---- MODULE %s ----" % name,
             "(* GENERATED by tools/asm2tla.py from kernel/sync/spinlock_amd64.s and spinlock.go - do not edit *)"]
    for l in res["listing"]:
        lines.append("\\* " + l)
    if prog:
        lines.append("ExtractedProg == <<\n  " + ",\n  ".join(tla_rec(i) for i in prog) + " >>")
    else:
        lines.append("ExtractedProg == <<>>")
    lines.append("ExtractedAttempts == %d" % (res["attempts"] if res["attempts"] is not None else 1))
    t = res["try"] or {"kind": "none", "v": 0, "cmp": "eq", "c": 0, "old": 0, "new": 0}
    lines.append("ExtractedTry == " + tla_rec(t))
    r = res["rel"] or {"kind": "none", "v": 0}
    lines.append("ExtractedRel == " + tla_rec(r))
    lines.append("====")
    return "\n".join(lines) + "\n"


def main():
    repo, out = sys.argv[1], sys.argv[2]
    res = extract(repo)
    with open(out, "w") as f:
        f.write(module(res, os.path.splitext(os.path.basename(out))[0]))
    if len(sys.argv) > 3:
        with open(sys.argv[3], "w") as f:
            json.dump(res, f, indent=1)
    for n in res["notes"]:
        print("asm2tla: inconclusive: " + n)


if __name__ == "__main__":
    main()
