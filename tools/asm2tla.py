#!/usr/bin/env python3
"""asm2tla.py - model extraction for C08 (DESIGN 3.5 / 4.6).

Reads the CURRENT kernel/sync/spinlock_amd64.s and kernel/sync/spinlock.go of a repository
tree and writes a TLA+ module `SpinProg` holding
  ExtractedProg      one instruction table: archAcquireSpinlock (labels resolved to indices) followed by the
                     compiled bodies of Spinlock.Acquire, TryToAcquire and Release
  ExtractedEntryAcq/Try/Rel   index of the first instruction of each method (0 = not understood)
for the interpreter specs/sync/SpinAsm.tla.  Only a fixed dictionary of instruction shapes and
of Go statement shapes is understood; anything else makes that part "inconclusive" (the part is
left out of the model and the caller writes a note) - never an alarm.

usage: asm2tla.py <repo> <out.tla> [<out.json>]      (exit 0 always; the JSON says what was understood)
"""
import json, os, re, sys

REGS = {"AX", "BX", "CX", "DX", "SI", "DI"}
SLOTS = ("S1", "S2")        # local stack slots of the routine (survive a CALL)

# Concrete values are abstracted: 0..3 stand for themselves (0 = free is the only value with a fixed meaning),
# every other constant that occurs in the sources - e.g. a "held" marker such as 0x4c4f434b - gets its own
# non-zero class id 10, 11, ...; the same table serves the assembly and the Go side.
CONSTS = {}


def cid(n):
    n &= 0xFFFFFFFFFFFFFFFF
    if n <= 3:
        return n
    if n not in CONSTS:
        if len(CONSTS) >= 40:
            raise ValueError("too many distinct constants")
        CONSTS[n] = 10 + len(CONSTS)
    return CONSTS[n]
NOREC = [{"op": "nop", "d": "AX", "s": "AX", "v": 0, "to": 0}]


def ins(op, d="AX", s="AX", v=0, to=0, w=4):
    """w = operand width in bytes of the instruction (memory is the 4-byte lock word followed by 4 neighbour bytes)"""
    return {"op": op, "d": d, "s": s, "v": v, "to": to, "w": w}


WIDTH = {"B": 1, "W": 2, "L": 4, "Q": 8}


def split_width(mn):
    """MOVL -> ("MOV", 4); mnemonics without a width suffix -> (mn, 0)"""
    for base in ("CMPXCHG", "MOV", "XCHG", "TEST", "CMP", "DEC", "INC", "BTS", "SHL", "SHR", "SAR", "ADD", "SUB", "AND", "OR", "XOR",
                 "NEG", "NOT", "IMUL", "LEA", "ROL", "ROR"):
        if mn.startswith(base) and mn[len(base):] in WIDTH:
            return base, WIDTH[mn[len(base):]]
    return mn, 0


def parse_operand(o):
    o = o.strip()
    m = re.fullmatch(r"\$(-?(?:0x[0-9a-fA-F]+|\d+))", o)
    if m:
        return ("imm", int(m.group(1), 0))
    if o in REGS:
        return ("reg", o)
    m = re.fullmatch(r"(?:0)?\((AX|BX|CX|DX|SI|DI)\)", o)
    if m:
        return ("mem", m.group(1))
    m = re.fullmatch(r"(\d+)\((AX|BX|CX|DX|SI|DI)\)", o)
    if m and int(m.group(1)) != 0:
        return ("disp", int(m.group(1)), m.group(2))
    m = re.fullmatch(r"(\w+)\+(\d+)\(FP\)", o)
    if m:
        return ("arg", m.group(1), int(m.group(2)))
    m = re.fullmatch(r"(?:\w+)?-(\d+)\(SP\)", o)
    if m:
        return ("slot", int(m.group(1)))
    m = re.fullmatch(r"[·\w.]*yieldFn(?:\+0)?\(SB\)", o)
    if m:
        return ("yieldfn",)
    return ("unknown", o)


def extract_asm(text):
    """-> (prog list, listing) or raises ValueError(reason)"""
    lines = []
    in_fn = False
    macros = {}
    for raw in text.splitlines():
        line = raw.split("//")[0].strip()
        m = re.fullmatch(r"#define\s+(\w+)\s+(\S+)", line)
        if m:
            macros[m.group(1)] = m.group(2)
            continue
        if not line or line.startswith("#"):
            continue
        if line.startswith("TEXT"):
            if in_fn:
                break
            if "archAcquireSpinlock" in line:
                in_fn = True
                m = re.search(r"\$(\d+)-(\d+)", line)
                if not m or m.group(2) != "12" or int(m.group(1)) > 8 * len(SLOTS):
                    raise ValueError("unexpected frame/argument size in TEXT line: " + line)
            continue
        if in_fn:
            lines.append(re.sub(r"\b\w+\b", lambda mm: macros.get(mm.group(0), mm.group(0)), line))
    if not in_fn:
        raise ValueError("TEXT archAcquireSpinlock not found")
    labels, code = {}, []
    lines = [part.strip() for line in lines for part in line.split(";") if part.strip()]
    locked = False
    for line in lines:
        m = re.fullmatch(r"(\w+):\s*(.*)", line)
        if m:
            labels[m.group(1)] = len(code) + 1
            line = m.group(2).strip()
            if not line:
                continue
        if line.upper() == "LOCK":           # prefix of the next instruction
            locked = True
            continue
        code.append(("LOCK " if locked else "") + line)
        locked = False
    prog, listing = [], []
    slots = {}
    for k, line in enumerate(code):
        lockpfx = line.startswith("LOCK ")
        parts = (line[5:] if lockpfx else line).split(None, 1)
        mn = parts[0].upper()
        ops = [parse_operand(x) for x in parts[1].split(",")] if len(parts) > 1 else []
        JUMPS = ("JNZ", "JNE", "JZ", "JE", "JEQ", "JMP", "JC", "JCS", "JNC", "JCC", "JHS", "JAE", "JLO", "JB", "JLS", "JBE",
                 "JHI", "JA", "JLT", "JGE", "JLE", "JGT", "JMI", "JPL", "JOS", "JOC", "JPS", "JPC")
        if mn in JUMPS:
            if len(parts) != 2 or parts[1].strip() not in labels:
                raise ValueError("jump to unknown label: " + line)
        for o in ops:
            if o[0] == "unknown" and mn not in JUMPS:
                raise ValueError("operand not understood: " + line)
        # local stack slots behave like extra registers
        for k2, o in enumerate(ops):
            if o[0] == "slot":
                slots.setdefault(o[1], SLOTS[len(slots)] if len(slots) < len(SLOTS) else None)
                if slots[o[1]] is None:
                    raise ValueError("more than %d stack slots: %s" % (len(SLOTS), line))
                ops[k2] = ("reg", slots[o[1]])
        kinds = tuple(o[0] for o in ops)
        base, w = split_width(mn)

        def small(n):
            return cid(n)
        if lockpfx and base not in ("BTS", "XCHG", "CMPXCHG"):
            raise ValueError("LOCK prefix on an instruction outside the dictionary: " + line)
        if mn in ("PAUSE", "NOP") and not ops:
            i = ins("nop")
        elif base == "CMPXCHG" and w == 4 and kinds == ("reg", "mem") and lockpfx:
            i = ins("cmpxchg", d=ops[0][1], s=ops[1][1], w=w)      # LOCK CMPXCHGL src, mem (compares with AX)
        elif base == "BTS" and w in (4, 8) and kinds == ("imm", "mem") and ops[0][1] == 0:
            i = ins("lbts" if lockpfx else "bts", s=ops[1][1], w=w)
        elif mn in ("JC", "JCS"):
            i = ins("jc", to=labels[parts[1].strip()])
        elif mn in ("JNC", "JCC", "JHS", "JAE"):
            i = ins("jnc", to=labels[parts[1].strip()])
        elif mn in ("JLO", "JB"):
            i = ins("jc", to=labels[parts[1].strip()])
        elif mn in ("JLS", "JBE"):
            i = ins("jls", to=labels[parts[1].strip()])
        elif mn in ("JHI", "JA"):
            i = ins("jhi", to=labels[parts[1].strip()])
        elif mn in ("JLT", "JGE", "JLE", "JGT", "JMI", "JPL", "JOS", "JOC", "JPS", "JPC"):
            i = ins("jnd", to=labels[parts[1].strip()])      # sign/overflow/parity flags are not modelled: either way
        elif mn == "RET" and not ops:
            i = ins("ret")
        elif mn == "MOVQ" and kinds == ("arg", "reg"):
            if ops[0][2] != 0:
                raise ValueError("MOVQ of an argument that is not state+0(FP): " + line)
            i = ins("ldstate", d=ops[1][1], w=8)
        elif mn == "MOVL" and kinds == ("arg", "reg"):
            if ops[0][2] != 8:
                raise ValueError("MOVL of an argument that is not attemptsBeforeYielding+8(FP): " + line)
            i = ins("ldatt", d=ops[1][1])
        elif mn == "MOVQ" and kinds == ("yieldfn", "reg"):
            i = ins("ldyield", d=ops[1][1], w=8)
        elif base == "MOV" and w in (4, 8) and kinds == ("imm", "reg"):
            i = ins("movi", d=ops[1][1], v=small(ops[0][1]), w=w)
        elif base == "MOV" and w in (4, 8) and kinds == ("reg", "reg"):
            i = ins("movr", d=ops[1][1], s=ops[0][1], w=w)
        elif base == "MOV" and w in (4, 8) and kinds == ("mem", "reg"):
            i = ins("load", d=ops[1][1], s=ops[0][1], w=w)
        elif base == "MOV" and w and kinds == ("reg", "mem"):
            i = ins("store", d=ops[1][1], s=ops[0][1], w=w)
        elif base == "MOV" and w and kinds == ("imm", "mem"):
            i = ins("storei", d=ops[1][1], v=small(ops[0][1]), w=w)
        elif base == "XCHG" and w in (4, 8) and kinds == ("mem", "reg"):
            i = ins("xchg", d=ops[1][1], s=ops[0][1], w=w)
        elif base == "XCHG" and w in (4, 8) and kinds == ("reg", "mem"):
            i = ins("xchg", d=ops[0][1], s=ops[1][1], w=w)
        elif base == "TEST" and w in (4, 8) and kinds == ("reg", "reg") and ops[0][1] == ops[1][1]:
            i = ins("test", d=ops[0][1], w=w)
        elif base == "LEA" and w in (4, 8) and kinds == ("disp", "reg") and ops[0][1] <= 3:
            i = ins("lea", d=ops[1][1], s=ops[0][2], v=ops[0][1], w=w)
        elif base == "TEST" and w in (4, 8) and kinds == ("imm", "reg") and ops[0][1] == 1:
            i = ins("testi", d=ops[1][1], v=1, w=w)
        elif base == "CMP" and w in (4, 8) and kinds == ("reg", "imm"):
            i = ins("cmpi", d=ops[0][1], v=small(ops[1][1]), w=w)
        elif base in ("CMP", "TEST") and w in (4, 8) and kinds == ("reg", "reg"):
            i = ins("flags")         # flags of a register/register comparison: not modelled, any outcome
        elif base in ("SHL", "SHR", "SAR", "ADD", "SUB", "AND", "OR", "XOR", "IMUL", "ROL", "ROR") and w in (4, 8) \
                and kinds in (("imm", "reg"), ("reg", "reg")):
            i = ins("havoc", d=ops[1][1])   # local computation on a register / stack slot: any small value, any flags
        elif base in ("NEG", "NOT") and w in (4, 8) and kinds == ("reg",):
            i = ins("havoc", d=ops[0][1])
        elif base == "CMP" and w and kinds == ("mem", "imm"):
            i = ins("cmpm", s=ops[0][1], v=small(ops[1][1]), w=w)
        elif base == "DEC" and w in (4, 8) and kinds == ("reg",):
            i = ins("dec", d=ops[0][1], w=w)
        elif base == "INC" and w in (4, 8) and kinds == ("reg",):
            i = ins("inc", d=ops[0][1], w=w)
        elif mn in ("JNZ", "JNE"):
            i = ins("jnz", to=labels[parts[1].strip()])
        elif mn in ("JZ", "JE", "JEQ"):
            i = ins("jz", to=labels[parts[1].strip()])
        elif mn == "JMP":
            i = ins("jmp", to=labels[parts[1].strip()])
        elif mn == "CALL" and kinds == ("mem",):
            i = ins("call", s=ops[0][1])
        elif mn == "CALL" and kinds == ("reg",):
            i = ins("callr", s=ops[0][1])
        else:
            raise ValueError("instruction (or operand width) outside the dictionary: " + line)
        prog.append(i)
        listing.append("%2d  %s" % (k + 1, line))
    for k, i in enumerate(prog):       # CMP whose carry is consumed: the carry outcome is not modelled
        if i["op"] == "cmpi" and k + 1 < len(prog) and prog[k + 1]["op"] in ("jc", "jnc", "jls", "jhi"):
            i["op"] = "cmpc"
    if not prog:
        raise ValueError("empty routine")
    if len(prog) > 40:
        raise ValueError("routine longer than 40 instructions")
    return prog, listing


def func_body(src, name):
    m = re.search(r"func \(l \*Spinlock\) %s\(\)[^{]*\{" % name, src)
    if not m:
        raise ValueError("method %s not found" % name)
    i, depth = m.end(), 1
    while depth:
        if i >= len(src):
            raise ValueError("unbalanced braces in " + name)
        depth += {"{": 1, "}": -1}.get(src[i], 0)
        i += 1
    return re.sub(r"//[^\n]*", "", src[m.end():i - 1])


# ---- a compiler for the three method bodies: statements over sync/atomic operations on l.state -------------
TOKEN = re.compile(r"\s*(?:(\n)|([A-Za-z_][\w.]*)|(0x[0-9a-fA-F]+|\d+)|(==|!=|:=|&&|\|\||[(){},;&=!^+]))", re.S)


def tokenize(body):
    toks, pos = [], 0
    body = body.replace("\t", " ")
    while pos < len(body):
        if body[pos] in " \r":
            pos += 1
            continue
        if body[pos] == "\n":
            # Go's automatic semicolon: after an identifier, literal, ) or }
            if toks and (toks[-1][0] in ("id", "num") or toks[-1][1] in (")", "}")):
                toks.append(("p", ";"))
            pos += 1
            continue
        m = TOKEN.match(body, pos)
        if not m or m.end() == pos:
            raise ValueError("character not understood: %r" % body[pos:pos + 20])
        if m.group(2):
            toks.append(("id", m.group(2)))
        elif m.group(3):
            toks.append(("num", int(m.group(3), 0)))
        elif m.group(4):
            toks.append(("p", m.group(4)))
        pos = m.end()
    toks.append(("p", ";"))
    return toks


class GoCompiler:
    """Compiles one method body into instructions (jump targets are local labels, resolved by link())."""

    def __init__(self, toks, boolean):
        self.t, self.i, self.code, self.vars, self.boolean, self.nlab = toks, 0, [], {}, boolean, 0

    def peek(self, k=0):
        return self.t[self.i + k] if self.i + k < len(self.t) else ("eof", None)

    def take(self, kind=None, val=None):
        tk = self.peek()
        if (kind and tk[0] != kind) or (val is not None and tk[1] != val):
            raise ValueError("unexpected %r (wanted %r)" % (tk[1], val or kind))
        self.i += 1
        return tk

    def accept(self, val):
        if self.peek()[1] == val and self.peek()[0] in ("p", "id"):
            self.i += 1
            return True
        return False

    def label(self):
        self.nlab += 1
        return "L%d" % self.nlab

    def emit(self, op, d="AX", s="AX", v=0, to=0):
        self.code.append({"op": op, "d": d, "s": s, "v": v, "to": to, "w": 4})

    def place(self, lab):
        self.code.append({"label": lab})

    def raw(self):
        """an integer literal or a package-level constant"""
        tk = self.peek()
        if tk[0] == "id" and tk[1] in GOCONSTS:
            self.take()
            return GOCONSTS[tk[1]]
        if tk[0] == "id" and tk[1] == "uint32" and self.peek(1) == ("p", "("):
            self.take()
            self.take()
            n = self.raw()
            self.take("p", ")")
            return n
        return self.take("num")[1]

    def num(self):
        return cid(self.raw())

    def delta(self):
        """second argument of atomic.AddUint32: a small constant or ^uint32(n) (= -(n+1))"""
        if self.accept("^"):
            self.take("id", "uint32")
            self.take("p", "(")
            n = self.raw()
            self.take("p", ")")
            return -(n + 1)
        n = self.raw()
        if n > 3:
            raise ValueError("atomic add of a constant outside the modelled range 0..3")
        return n

    def lockaddr(self):
        self.take("p", "&")
        self.take("id", "l.state")

    def temp(self):
        self.ntemp = getattr(self, "ntemp", 0) + 1
        return ("DX", "SI", "DI")[self.ntemp % 3]

    # value expression -> register name holding it (atomics deliver in AX, locals live in BX / CX)
    def value(self):
        tk = self.take("id")
        name = tk[1]
        if name == "atomic.SwapUint32":
            self.take("p", "(")
            self.lockaddr()
            self.take("p", ",")
            v = self.num()
            self.take("p", ")")
            self.emit("gswap", d="AX", v=v)
            r = "AX"
        elif name == "atomic.LoadUint32":
            self.take("p", "(")
            self.lockaddr()
            self.take("p", ")")
            self.emit("gload", d="AX")
            r = "AX"
        elif name == "atomic.AddUint32":
            self.take("p", "(")
            self.lockaddr()
            self.take("p", ",")
            v = self.delta()
            self.take("p", ")")
            self.emit("gadd", d="AX", v=v)
            r = "AX"
        elif name == "l.state":
            self.emit("gload", d="AX")
            r = "AX"
        elif name in self.vars:
            r = self.vars[name]
        else:
            raise ValueError("expression not understood: " + name)
        return self.suffix(r)

    def suffix(self, r):
        """r & 1   /   r + n"""
        if self.peek() == ("p", "&") and self.peek(1)[0] in ("num", "id") and self.peek(1)[1] != "l.state":
            self.take()
            if self.raw() != 1:
                raise ValueError("bit mask other than 1")
            t = self.temp()
            self.emit("andi", d=t, s=r, v=1)
            return t
        if self.peek() == ("p", "+"):
            self.take()
            n = self.raw()
            if n > 3:
                raise ValueError("addend outside the modelled range 0..3")
            t = self.temp()
            self.emit("lea", d=t, s=r, v=n)
            return t
        return r

    def operand(self):
        """argument of a store / compare-and-swap: ("imm", class) or ("reg", name)"""
        tk = self.peek()
        if tk[0] == "num" or (tk[0] == "id" and (tk[1] in GOCONSTS or tk[1] == "uint32")):
            return ("imm", self.num())
        return ("reg", self.value())

    def inreg(self, o):
        if o[0] == "reg":
            return o[1]
        t = self.temp()
        self.emit("movi", d=t, v=o[1])
        return t

    # condition -> sense: after the emitted code, the condition is TRUE iff (Z == sense)
    def cond(self):
        if self.accept("!"):
            return not self.cond()
        if self.peek() == ("p", "("):
            self.take()
            sense = self.cond()
            self.take("p", ")")
            return sense
        if self.peek() == ("id", "true") or self.peek() == ("id", "false"):
            self.emit("setz", v=1 if self.take()[1] == "true" else 0)
            return True
        if self.peek() == ("id", "atomic.CompareAndSwapUint32"):
            self.take()
            self.take("p", "(")
            self.lockaddr()
            self.take("p", ",")
            old = self.operand()
            self.take("p", ",")
            new = self.operand()
            self.take("p", ")")
            if old[0] == "imm" and new[0] == "imm":
                self.emit("gcas", v=old[1], to=new[1])
            else:
                ro = self.inreg(old)
                self.emit("gcasr", d=ro, s=self.inreg(new))
            return True
        r = self.value()
        op = self.take("p")[1]
        if op not in ("==", "!="):
            raise ValueError("comparison expected, got %r" % op)
        self.emit("cmpi", d=r, v=self.num())
        return op == "=="

    def branch_if_false(self, sense, lab):
        self.code.append({"op": "jnz" if sense else "jz", "d": "AX", "s": "AX", "v": 0, "to": lab, "w": 4})

    def block(self):
        self.take("p", "{")
        self.stmts()
        self.take("p", "}")

    def stmts(self):
        while self.peek()[1] not in ("}", None):
            if self.accept(";"):
                continue
            self.stmt()

    def simple(self):
        """assignment / call statements"""
        tk = self.peek()
        if tk == ("id", "_") and self.peek(1) == ("p", "="):      # _ = expr: evaluated for its effect
            self.take()
            self.take()
            if self.peek() == ("id", "atomic.CompareAndSwapUint32"):
                self.cond()
            else:
                self.value()
            return
        if tk[0] == "id" and self.peek(1) == ("p", ":="):
            name = self.take()[1]
            self.take()
            r = self.value()
            if name not in self.vars:
                free = [x for x in ("BX", "CX") if x not in self.vars.values()]
                if not free:
                    raise ValueError("more than two local variables")
                self.vars[name] = free[0]
            if self.vars[name] != r:
                self.emit("movr", d=self.vars[name], s=r)
            return
        if tk == ("id", "atomic.StoreUint32"):
            self.take()
            self.take("p", "(")
            self.lockaddr()
            self.take("p", ",")
            o = self.operand()
            self.take("p", ")")
            if o[0] == "imm":
                self.emit("gastore", v=o[1])
            else:
                self.emit("gastorer", s=o[1])
            return
        if tk == ("id", "l.state") and self.peek(1) == ("p", "="):
            self.take()
            self.take()
            o = self.operand()
            if o[0] == "imm":
                self.emit("gstore", v=o[1])
            else:
                self.emit("gstorer", s=o[1])
            return
        if tk == ("id", "archAcquireSpinlock"):
            self.take()
            self.take("p", "(")
            self.lockaddr()
            self.take("p", ",")
            n = self.raw()
            self.take("p", ")")
            self.emit("tail", v=min(n, 2))       # the spin budget only matters as "runs out now / later"
            return
        if tk[0] == "id" and tk[1] in ("atomic.SwapUint32", "atomic.CompareAndSwapUint32", "atomic.LoadUint32", "atomic.AddUint32"):
            if tk[1] == "atomic.CompareAndSwapUint32":
                self.cond()
            else:
                self.value()
            return
        raise ValueError("statement not understood at %r" % (tk[1],))

    def stmt(self):
        if self.peek() == ("id", "for") and self.peek(1) == ("p", "{"):
            self.take()
            top = self.label()
            self.place(top)
            self.block()
            self.code.append({"op": "jmp", "d": "AX", "s": "AX", "v": 0, "to": top, "w": 4})
            return
        if self.accept("if"):
            # optional init statement
            j, depth, has_init = self.i, 0, False
            while self.t[j][1] != "{" or depth:
                depth += {"(": 1, ")": -1}.get(self.t[j][1], 0)
                if self.t[j] == ("p", ";") and not depth:
                    has_init = True
                    break
                j += 1
            if has_init:
                self.simple()
                self.take("p", ";")
            sense = self.cond()
            l_else, l_end = self.label(), self.label()
            self.branch_if_false(sense, l_else)
            self.block()
            if self.accept("else"):
                self.code.append({"op": "jmp", "d": "AX", "s": "AX", "v": 0, "to": l_end, "w": 4})
                self.place(l_else)
                if self.peek() == ("id", "if"):
                    self.stmt()
                else:
                    self.block()
                self.place(l_end)
            else:
                self.place(l_else)
            return
        if self.accept("return"):
            if not self.boolean:
                self.emit("ret")
                return
            if self.peek() == ("id", "true") and self.peek(1)[1] in (";", "}"):
                self.take()
                self.emit("rett")
                return
            if self.peek() == ("id", "false") and self.peek(1)[1] in (";", "}"):
                self.take()
                self.emit("retf")
                return
            sense = self.cond()
            lf = self.label()
            self.branch_if_false(sense, lf)
            self.emit("rett")
            self.place(lf)
            self.emit("retf")
            return
        self.simple()

    def compile(self):
        self.stmts()
        if self.peek()[0] != "eof" and self.peek()[1] is not None:
            raise ValueError("trailing tokens: %r" % (self.peek()[1],))
        if not self.boolean:
            self.emit("ret")
        elif not self.code or self.code[-1].get("op") not in ("rett", "retf", "jmp"):
            raise ValueError("boolean method can fall off its end")
        return self.code


def link(code, base):
    """Resolve local labels; instruction k of the result gets global index base + k."""
    pos, out = {}, []
    for c in code:
        if "label" in c:
            pos[c["label"]] = base + len(out) + 1
        else:
            out.append(dict(c))
    for c in out:
        if isinstance(c["to"], str):
            c["to"] = pos[c["to"]]
    return out


GOCONSTS = {}


def go_consts(src):
    """package-level integer constants:  name [type] = literal"""
    GOCONSTS.clear()
    for m in re.finditer(r"^\s*(?:const\s+)?(\w+)(?:\s+u?int\d*)?\s*=\s*(0x[0-9a-fA-F]+|\d+)\s*(?://.*)?$", src, re.M):
        GOCONSTS[m.group(1)] = int(m.group(2), 0)


def compile_method(src, name, boolean):
    toks = tokenize(func_body(src, name))
    toks = [t for t in toks]
    return GoCompiler(toks, boolean).compile()


def extract_go(src):
    out, notes = {}, []
    go_consts(src)
    for key, name, boolean in (("acq", "Acquire", False), ("try", "TryToAcquire", True), ("rel", "Release", False)):
        try:
            out[key] = compile_method(src, name, boolean)
            if len([c for c in out[key] if "op" in c]) > 30:
                raise ValueError("method longer than 30 instructions")
            if key != "acq" and any(c.get("op") == "tail" for c in out[key]):
                raise ValueError("archAcquireSpinlock called outside Acquire")
        except ValueError as e:
            notes.append("%s: %s" % (name, e))
            out[key] = None
    return out, notes


def tla_rec(d):
    def val(v):
        if isinstance(v, str):
            return '"%s"' % v
        return str(v) if v >= 0 else "(0 - %d)" % -v
    return "[" + ", ".join("%s |-> %s" % (k, val(v)) for k, v in d.items()) + "]"


def extract(repo):
    CONSTS.clear()
    res = {"notes": [], "prog": [], "listing": [], "entry": {"acq": 0, "try": 0, "rel": 0}}
    asm = None
    try:
        with open(os.path.join(repo, "kernel/sync/spinlock_amd64.s")) as f:
            asm, res["listing"] = extract_asm(f.read())
    except (ValueError, OSError) as e:
        res["notes"].append("spinlock_amd64.s: " + str(e))
    go = {"acq": None, "try": None, "rel": None}
    try:
        with open(os.path.join(repo, "kernel/sync/spinlock.go")) as f:
            go, notes = extract_go(f.read())
        res["notes"] += notes
    except OSError as e:
        res["notes"].append("spinlock.go: " + str(e))
    prog = list(asm or [])
    if not asm:
        prog = [ins("nop")]          # index 1 is reserved for the assembly routine
    for key in ("acq", "try", "rel"):
        code = go.get(key)
        if code is None:
            continue
        if key == "acq" and not asm and any(c.get("op") == "tail" for c in code):
            res["notes"].append("Acquire left out: it calls the assembly routine, which was not understood")
            continue
        res["entry"][key] = len(prog) + 1
        linked = link(code, len(prog))
        res["listing"] += ["%2d  %s: %s" % (len(prog) + 1 + k, key, " ".join(str(c[x]) for x in ("op", "d", "v", "to")))
                           for k, c in enumerate(linked)]
        prog += linked
    res["prog"] = prog
    return res


def module(res, name="SpinProg"):
    lines = ["---- MODULE %s ----" % name,
             "(* GENERATED by tools/asm2tla.py from kernel/sync/spinlock_amd64.s and spinlock.go - do not edit *)",
             "EXTENDS Integers"]
    for l in res["listing"]:
        lines.append("\\* " + l)
    lines.append("ExtractedProg == <<\n  " + ",\n  ".join(tla_rec(i) for i in res["prog"]) + " >>")
    lines.append("ExtractedEntryAcq == %d" % res["entry"]["acq"])
    lines.append("ExtractedEntryTry == %d" % res["entry"]["try"])
    lines.append("ExtractedEntryRel == %d" % res["entry"]["rel"])
    lines.append("====")
    return "\n".join(lines) + "\n"


def main():
    repo, out = sys.argv[1], sys.argv[2]
    res = extract(repo)
    with open(out, "w") as f:
        f.write(module(res, os.path.splitext(os.path.basename(out))[0]))
    if len(sys.argv) > 3:
        with open(sys.argv[3], "w") as f:
            json.dump(res, f, indent=1)
    for n in res["notes"]:
        print("asm2tla: inconclusive: " + n)


if __name__ == "__main__":
    main()
