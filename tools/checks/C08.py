"""C08: spinlock gives mutual exclusion; try-acquire never lies.  DESIGN.md 4.6, specs/sync/*.tla.

Legs
  M   Spinlock.tla (property level, any interleaving of 3 tasks, liveness under weak fairness) with design
      mutants; SpinAsm.tla = the same lock at instruction granularity over the instruction table that
      tools/asm2tla.py extracts from the CURRENT spinlock_amd64.s / spinlock.go on every run.  A TLC
      counterexample on the extracted table (while the pinned table passes) is a statement about the code.
  G   SpinSched.tla emits every controlled schedule of N commands; harness/sync replays them on the real
      lock with one goroutine per task.
  T   2..16 OS threads hammer one real lock; events stamped by a global atomic counter.
  V   SpinTrace.tla explains every recorded event by the actions of Spinlock.tla (silent exchange/store
      steps placed by TLC's search, high-water mark).
"""
import json, os, random, shutil, subprocess, sys
import vlib

HARNESS = ["sync/c08_spin_test.go"]
ASM_INVS = "MutualExclusion HeldMeansLocked FreeWhenIdle Visibility EntrySeesAll NoWildAccess NeighbourIntact TryFailsClean".split()


def extract(ctx, d):
    """Regenerate SpinProg.tla in spec dir d from the current sources; returns the extraction record."""
    sys.path.insert(0, os.path.join(vlib.VERIF, "tools"))
    import asm2tla
    res = asm2tla.extract(vlib.REPO)
    with open(os.path.join(vlib.VERIF, "specs", "sync", "SpinProg.tla")) as f:
        pinned = f.read()
    text = asm2tla.module(res)
    with open(os.path.join(d, "SpinProg.tla"), "w") as f:
        f.write(text)
    res["same_as_pinned"] = (text == pinned)
    return res


def compact_cex(trace, n=14):
    out = []
    for s in (trace or [])[-n:]:
        out.append({k: s.get(k) for k in ("state", "pc", "cur", "counter", "done", "wild", "buf") if k in s})
    return out


def asm_leg(ctx, d_pin, cfgs, mutants):
    """Instruction-level model checking on the extracted table.  Returns the extraction record."""
    d = ctx.spec_dir("sync")
    ext = extract(ctx, d)
    for n in ext["notes"]:
        ctx.note("model extraction inconclusive (contributes nothing, never an alarm): " + n)
        ctx.log("extraction inconclusive:", n)
    ent = ext["entry"]
    usable = ent["rel"] > 0 and (ent["acq"] > 0 or ent["try"] > 0)
    ctx.cov["legs"]["extraction"] = {"instructions": len(ext["prog"]), "entry": ent, "same_as_pinned": ext["same_as_pinned"],
                                     "conclusive": usable and not ext["notes"]}
    if not usable:
        ctx.note("instruction-level leg skipped: Release (or both acquire paths) not understood by the extractor")
        d, ext_used = d_pin, False
    else:
        ext_used = True
    for cfg, timeout in cfgs:
        live = "Live" in cfg
        r = ctx.tlc(d, "MCSpinAsm", cfg, timeout=timeout, name="asm:" + cfg)
        import re
        mt = re.search(r"Temporal propert(?:y (\S+) was|ies were) violated", r.out)
        if mt and r.violated in ("eval-error", "temporal"):      # this TLC names the property; vlib only knows the older wording
            r.violated = "temporal:" + (mt.group(1) or "")
            ctx.cov["legs"]["asm:" + cfg]["violated"] = r.violated
        if r.violated is None and r.ok:
            ctx.cov["states"] += r.distinct
            ctx.cov["transitions"] += r.generated
            ctx.log("M SpinAsm/%s on the %s table: %d distinct states, %.1fs" %
                    (cfg, "extracted" if ext_used else "pinned", r.distinct, r.wall))
            continue
        if not ext_used or ext["same_as_pinned"]:
            raise vlib.Broken("SpinAsm/%s fails on the pinned instruction table (%s):\n%s" % (cfg, r.violated, r.out[-3000:]))
        if r.violated == "eval-error" or r.violated is None:
            ctx.note("instruction-level model of the current sources could not be evaluated (%s); inconclusive" % cfg)
            ctx.log("SpinAsm/%s: evaluation problem on the extracted table, inconclusive" % cfg)
            continue
        # the pinned table must pass the very same configuration, otherwise the specification is at fault
        rp = ctx.tlc(d_pin, "MCSpinAsm", cfg, timeout=timeout, name="asm-pinned:" + cfg)
        if rp.violated or not rp.ok:
            raise vlib.Broken("SpinAsm/%s fails on the pinned instruction table (%s)" % (cfg, rp.violated))
        what = {"leg": "M (instruction table extracted from the current spinlock_amd64.s / spinlock.go)", "cfg": cfg,
                "violated": r.violated if not r.violated.startswith("temporal") else
                "EventuallyAcquired: under fair scheduling a blocking Acquire never returns although the lock is released",
                "listing": ext["listing"], "entry": ext["entry"], "counterexample_tail": compact_cex(r.trace)}
        ctx.violation(what, {"kind": "extract", "cfg": cfg, "timeout": timeout})
        break
    for cfg in mutants:
        ctx.expect_model_violation(d_pin, "MCSpinAsm", cfg, timeout=600)
    return ext


def coverage_guard(ctx, d, module, cfg, allowed):
    r = ctx.tlc(d, module, cfg, coverage=True, timeout=900, name="coverage:" + cfg)
    if r.violated or not r.ok:
        raise vlib.Broken("%s/%s fails on the pinned sources (%s)" % (module, cfg, r.violated))
    zero = [z for z in r.coverage_zero if z.split()[0].lstrip("<") not in allowed]
    if zero:
        raise vlib.Broken("vacuous bound: action(s) never taken in %s/%s: %s" % (module, cfg, zero))
    ctx.cov["legs"]["coverage:" + cfg]["untaken_actions"] = 0


def tlaps(ctx, d):
    """Optional (thorough): TLAPS proof of mutual exclusion of Spinlock.tla for ANY set of tasks.  Its absence of a
    result is never a failure; TLC and the traces decide."""
    try:
        p = subprocess.run(["tlapm", "--threads", "16", "SpinlockProofs.tla"], cwd=d, stdout=subprocess.PIPE,
                           stderr=subprocess.STDOUT, text=True, timeout=300)
        out = p.stdout
    except (OSError, subprocess.TimeoutExpired) as e:
        out = "tlapm not available or timed out: %s" % e
    import re
    m = re.search(r"All (\d+) obligations? proved", out)
    ctx.cov["legs"]["tlaps"] = {"module": "SpinlockProofs", "theorem": "MutualExclusionForAnyTasks",
                                "obligations_proved": int(m.group(1)) if m else 0, "ok": bool(m)}
    if m:
        ctx.log("TLAPS: mutual exclusion of Spinlock.tla proved for any number of tasks (%s obligations)" % m.group(1))
    else:
        ctx.note("TLAPS proof of mutual exclusion for arbitrary N did not complete in this run (optional leg): " + out[-200:])
    shutil.rmtree(os.path.join(d, ".tlacache"), ignore_errors=True)


def clean_trace(path):
    """Drop `stuck` markers (the harness gave up on a call); returns (clean path, stuck events)."""
    stuck, out = [], path + ".clean"
    with open(path) as f, open(out, "w") as g:
        for line in f:
            if '"k":"stuck"' in line:
                stuck.append(json.loads(line))
            elif line.strip():
                g.write(line)
    return out, stuck


def validate(ctx, name, path, par):
    clean, stuck = clean_trace(path)
    if os.path.getsize(clean) == 0:
        return [], stuck, 0
    acc, nev, mism = ctx.validate_traces("SpinTrace", "SpinTrace", clean, ("sync",), name=name, deque=True,
                                         parallel=par, timeout=900)
    return mism, stuck, acc


def case_sched(events):
    """Rebuild the command list of a controlled-schedule case from its events (for the replay file)."""
    sched = []
    for e in events:
        if e.get("t") == 0:          # the observer's probes are made by the harness itself, not by the schedule
            continue
        if e["k"] == "call":
            sched.append([e["op"], e["t"]])
            if e["op"] == "try":
                continue
        elif e["k"] == "ok" and sched and not (sched[-1] == ["try", e["t"]]):
            sched.append(["await", e["t"]])
        elif e["k"] == "rel":
            sched.append(["rel", e["t"]])
        elif e["k"] == "srel":
            sched.append(["srel", e["t"]])
    return sched


def run_sched(ctx, cases_path, name, par):
    tr = os.path.join(ctx.work, "trace_%s.ndjson" % name)
    rc, out, _ = ctx.gotest("kernel", "sync", HARNESS, "TestVerifC08Sched", env={"CASES": cases_path, "TRACE_OUT": tr}, timeout=900)
    if rc != 0 or not os.path.exists(tr):
        raise vlib.Broken("spinlock schedule harness failed:\n" + out[-3000:])
    return tr, validate(ctx, name, tr, par)


def report(ctx, leg, mism, replay_of):
    for m in mism[:3]:
        ev = m["case_events"][m["line_in_case"] - 1] if m["line_in_case"] <= len(m["case_events"]) else None
        ctx.violation({"leg": leg, "mismatch": m["mismatch"], "event": ev,
                       "events_before": m["case_events"][max(0, m["line_in_case"] - 9):m["line_in_case"] - 1]},
                      replay_of(m))


def run(ctx):
    q = ctx.quick
    ctx.rule = ("G: one case = one controlled schedule (sequence of acq/await/try/rel commands over 3 tasks) emitted by TLC "
                "from SpinSched (incl. a stray Release on a free lock) and replayed on the real lock; T: one case = one window of 2-16 OS threads x N random "
                "Acquire/TryToAcquire/Release operations on one real lock; distinct by full event sequence; every case "
                "contains at least one successful acquisition and is therefore non-trivial")
    ctx.assumptions += [
        "memory model of SpinAsm: the 4-byte lock word followed by 4 neighbour bytes (a non-zero datum, or another lock the "
        "environment takes and releases); every instruction acts with its operand width (B/W/L/Q)",
        "no assumption on how the lock word encodes held/free: models and monitor observe it only through the lock's own "
        "operations (a TryToAcquire that runs all alone must succeed; an observer task's TryToAcquire/Release in the harness), "
        "the raw word is only compared with itself for equality around a failed try",
        "hardware: XCHG with a memory operand is atomic and drains the store buffer, plain 32-bit loads/stores are single "
        "accesses, x86-TSO store buffers are FIFO (SpinAsm, TSO = TRUE); CALL clobbers every register",
        "the Go atomics used by TryToAcquire/Release are sequentially consistent (Go memory model)",
        "trusted Go: the schedule replayer / event recorder in harness/sync (no expected results in it); yieldFn is bound "
        "to runtime.Gosched as in the repository's own test",
        "tools/asm2tla.py understands a fixed dictionary of instruction and statement shapes; anything else is reported "
        "as inconclusive and the instruction-level leg contributes nothing",
    ]
    d = ctx.spec_dir("sync")
    # ---- leg M, property level
    ctx.model_check(d, "MCSpinlock", "MCSpinlock3", timeout=600)
    if not q:
        ctx.model_check(d, "MCSpinlock", "MCSpinlock4", timeout=900)
    for b in (["ReleaseStoresOne", "TryLies", "ReleaseDecrements"] if q else
              ["ReleaseStoresOne", "TryLies", "TryFailClobbers", "NonAtomicXchg", "ReleaseDecrements"]):
        ctx.expect_model_violation(d, "MCSpinlock", "MCSpinlockBug_" + b, timeout=300)
    if not q:
        tlaps(ctx, d)
        # guard against vacuous bounds: no action of the specifications may go untaken (except the ones that
        # exist only for design mutants / variants that are switched off in that configuration)
        coverage_guard(ctx, d, "MCSpinlock", "MCSpinlock3", set())
        coverage_guard(ctx, d, "MCSpinAsm", "MCSpinAsmQ3", {"Drain", "PlainRel", "XchgWrite", "Env"})
        coverage_guard(ctx, d, "MCSpinAsm", "MCSpinAsmF2TSOPlainRel", {"XchgWrite", "Env"})
    # ---- leg M, instruction level, on the table extracted from the current sources
    if q:
        cfgs = [("MCSpinAsmQ1", 300), ("MCSpinAsmQ3", 600), ("MCSpinAsmQ2Live", 900), ("MCSpinAsmQ2TSO", 600)]
        muts = ["MCSpinAsmBug_XchgNotAtomic", "MCSpinAsmBug_BufferNotFifo"]
    else:
        cfgs = [("MCSpinAsmQ1", 300), ("MCSpinAsmQ3Att0", 600), ("MCSpinAsmQ3Att3", 600), ("MCSpinAsmQ2LiveAtt0", 900),
                ("MCSpinAsmF3", 1500), ("MCSpinAsmF3NoYield", 1500), ("MCSpinAsmF3Env", 1500),
                ("MCSpinAsmQ3NoYield", 600), ("MCSpinAsmQ3Env", 600), ("MCSpinAsmF2Mod", 900),
                ("MCSpinAsmQ2Live", 900), ("MCSpinAsmQ2EnvLive", 900), ("MCSpinAsmF3Live", 900), ("MCSpinAsmF4", 900),
                ("MCSpinAsmF3TSO", 900), ("MCSpinAsmQ2TSO", 600)]
        muts = ["MCSpinAsmBug_XchgNotAtomic", "MCSpinAsmBug_BufferNotFifo"]
    if os.environ.get("VERIF_CONC_DYNAMIC_ONLY") != "1":      # development switch: measure the dynamic legs alone
        asm_leg(ctx, d, cfgs, muts)
    # ---- legs G, T, V on the real lock
    try:
        if ctx.violations:
            # the model extracted from the current source already contradicts the specification
            raise vlib.Broken("skipped")
        stuck_all, lines, total = dynamic_legs(ctx, d, q)
    except vlib.Broken as e:
        if not ctx.violations:
            raise
        # the extracted model already contradicts the specification; a harness that crashes or hangs on
        # such code adds nothing
        ctx.note("dynamic legs did not complete on code whose extracted model already violates the specification: %s" % str(e)[:300])
        stuck_all, lines, total = [], [], -1
    if stuck_all and not ctx.violations:
        extra = ""
        if stuck_all[0].get("op") == "acq" and stuck_all[0].get("c", 0) > 0:
            extra = ("; while it waited a third task took and released the lock %d times, i.e. the lock was provably free - "
                     "a waiter may lose every such race on a correct lock, so this is reported as inconclusive, the "
                     "instruction-level model decides" % stuck_all[0]["c"])
        raise vlib.Broken("inconclusive: a call on the real lock did not return within the deadline (%s) and no recorded "
                          "event contradicts the specification%s" % (json.dumps(stuck_all[0]), extra))
    if stuck_all:
        ctx.note("a call on the real lock did not return within the deadline: %s" % json.dumps(stuck_all[0]))
    ctx.cov["exhaustive"] = (not q) and not ctx.violations and len(lines) == total
    ctx.cov["explanation"] = ("exhaustive = every controlled schedule of the SpinSched scope (3 tasks, %d commands) was replayed on the "
                              "real lock and every interleaving of the extracted instruction table was explored in the stated scopes; "
                              "the quick tier replays a seeded sample of the schedules" % (8 if q else 9))


def dynamic_legs(ctx, d, q):
    stuck_all, lines, total = [], [], 0
    # ---- leg G: controlled schedules
    cases = os.path.join(ctx.work, "sched_all.ndjson")
    ctx.model_check(d, "SpinSched", "SpinSchedQuick" if q else "SpinSchedFull", workers=1, env={"CASES": cases},
                    timeout=900, name="emit-schedules")
    with open(cases) as f:
        lines = sorted(set(l for l in f if l.strip()))
    total = len(lines)
    if q and total > 800:
        lines = random.Random(ctx.seed).sample(lines, 800)
    def blocking(line):
        # number of Acquire calls that have to wait (not followed at once by their own await): schedules without
        # waiting calls are replayed first, so that a lock that never lets a waiter in cannot hide what the
        # non-blocking probes already show
        c = json.loads(json.loads(line)) if line.lstrip().startswith('"') else json.loads(line)
        return sum(1 for i, x in enumerate(c) if x[0] == "acq" and (i + 1 >= len(c) or c[i + 1] != ["await", x[1]]))
    lines.sort(key=lambda l: (blocking(l), l))
    sel = os.path.join(ctx.work, "sched_sel.ndjson")
    with open(sel, "w") as f:
        f.writelines(lines)
    ctx.cov["legs"]["emit-schedules"].update({"schedules": total, "replayed": len(lines)})
    par = 6 if q else 12
    tr, (mism, stuck, acc) = run_sched(ctx, sel, "G-schedules", par)
    report(ctx, "G", mism, lambda m: {"kind": "sched", "sched": case_sched(m["case_events"])})
    stuck_all += stuck
    ng = 0
    with open(tr) as f:
        cur = []
        for line in f:
            e = json.loads(line)
            if e["k"] == "reset":
                ctx.distinct(["G", cur])
                if ng < 2:
                    ctx.sample({"leg": "G", "events": cur[:12]})
                ng += 1
                cur = []
            elif e["k"] != "stuck":
                cur.append([e["k"], e.get("t"), e.get("op"), e.get("c")])
    # ---- leg T: 16-thread stress
    if not (stuck_all and not ctx.violations):
        tr2 = os.path.join(ctx.work, "trace_T.ndjson")
        nwin, nops = (24, 10) if q else (400, 14)
        rc, out, _ = ctx.gotest("kernel", "sync", HARNESS, "TestVerifC08Stress",
                                env={"TRACE_OUT": tr2, "NWIN": nwin, "NOPS": nops}, timeout=900)
        if rc != 0 or not os.path.exists(tr2):
            raise vlib.Broken("spinlock stress harness failed:\n" + out[-3000:])
        if os.path.exists(tr2 + ".shapes"):
            with open(tr2 + ".shapes") as f:
                shapes = json.load(f)
            dims = {}
            for sh in shapes:
                for k, v in sh.items():
                    dims.setdefault(k, {})
                    dims[k][str(v)] = dims[k].get(str(v), 0) + 1
            ctx.cov["legs"]["T-window-shapes"] = dims
        mism, stuck, acc = validate(ctx, "T-stress", tr2, par)
        report(ctx, "T", mism, lambda m: {"kind": "stress", "seed": ctx.seed, "nwin": nwin, "nops": nops,
                                          "note": "real-thread schedule: re-running the seed repeats the inputs, not necessarily the interleaving",
                                          "events": m["case_events"][:m["line_in_case"]]})
        stuck_all += stuck
        nt = 0
        with open(tr2) as f:
            cur = []
            for line in f:
                e = json.loads(line)
                if e["k"] == "reset":
                    ctx.distinct(["T", cur])
                    if nt < 2:
                        ctx.sample({"leg": "T", "events": cur[:12]})
                    nt += 1
                    cur = []
                elif e["k"] != "stuck":
                    cur.append([e["k"], e.get("t"), e.get("c")])
    return stuck_all, lines, total


def replay(ctx, path):
    with open(path) as f:
        rep = json.load(f)["replay"]
    ctx.cov["states"] = ctx.cov["transitions"] = 1
    d = ctx.spec_dir("sync")
    if rep["kind"] == "extract":
        asm_leg(ctx, d, [(rep["cfg"], rep.get("timeout", 600))], [])
    elif rep["kind"] == "sched":
        sel = os.path.join(ctx.work, "replay_sched.ndjson")
        with open(sel, "w") as f:
            f.write(json.dumps(rep["sched"]) + "\n")
        tr, (mism, stuck, acc) = run_sched(ctx, sel, "replay", 1)
        report(ctx, "replay", mism, lambda m: rep)
        if stuck and not ctx.violations:
            raise vlib.Broken("inconclusive: a call did not return during the replay")
    else:
        tr2 = os.path.join(ctx.work, "trace_T.ndjson")
        rc, out, _ = ctx.gotest("kernel", "sync", HARNESS, "TestVerifC08Stress",
                                env={"TRACE_OUT": tr2, "NWIN": rep["nwin"], "NOPS": rep["nops"], "VERIF_SEED": rep["seed"]}, timeout=900)
        if rc != 0:
            raise vlib.Broken("spinlock stress harness failed:\n" + out[-3000:])
        mism, stuck, acc = validate(ctx, "replay", tr2, 8)
        report(ctx, "replay", mism, lambda m: rep)
        # the recorded window itself is part of the replay file: the monitor judges it again (consistency of the
        # file; it says nothing about the current tree)
        tr3 = os.path.join(ctx.work, "trace_rec.ndjson")
        with open(tr3, "w") as f:
            for e in rep.get("events", []):
                f.write(json.dumps(e) + "\n")
            f.write(json.dumps({"k": "reset", "t": 0, "c": 0}) + "\n")
        m2, _, _ = validate(ctx, "replay-recorded", tr3, 1)
        ctx.log("recorded window of the replay file: %s by the monitor" % ("still rejected" if m2 else "accepted"))
    return None
