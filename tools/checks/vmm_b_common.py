"""Helpers shared by C05 and C06 (family vmm-b): case sampling, limb decoding, event grouping."""
import json, random
import vlib


def limbs(w):
    v = 0
    for x in w:
        v = (v << 16) | x
    return v


def sample_lines(src, dst, n, seed):
    """Copy a seeded sample of n lines (all if n == 0 or fewer lines exist); returns (total, used)."""
    with open(src) as f:
        lines = [l for l in f if l.strip()]
    total = len(lines)
    if n and total > n:
        lines = random.Random(seed).sample(lines, n)
    with open(dst, "w") as f:
        f.writelines(lines)
    return total, len(lines)


def cases_of(path, with_reset=False):
    """Yield the event lists of the cases of a trace file (split at reset events)."""
    cur = []
    with open(path) as f:
        for line in f:
            if not line.strip():
                continue
            e = json.loads(line)
            if e.get("k") == "reset":
                if with_reset:
                    cur.append(e)
                yield cur
                cur = []
            else:
                cur.append(e)
    if cur:
        yield cur


def pick_bugs(all_bugs, n, seed):
    """Quick tier: n design mutants, rotating with the seed so that all of them are exercised over seeds."""
    if n >= len(all_bugs):
        return list(all_bugs)
    k = (seed * n) % len(all_bugs)
    return [all_bugs[(k + i) % len(all_bugs)] for i in range(n)]
