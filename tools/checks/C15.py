"""C15: kernel printf output is exact, bounded and allocation-free.  DESIGN.md 4.13, specs/kfmt/Kfmt*.tla."""
import concurrent.futures, json, os, random
import vlib

HARNESS = ["kfmt/c15_fmt_test.go"]
VERBS = {100, 120, 111, 115, 116}


def load_cases(src, dst, n, seed):
    """TLC wrote one JSON *string* per line (CSVWrite of ToJson); unwrap, sample (quick tier), write plain ndjson."""
    with open(src) as f:
        lines = [json.loads(l) for l in f if l.strip()]
    total = len(lines)
    if n and total > n:
        lines = random.Random(seed).sample(lines, n)
    with open(dst, "w") as f:
        for l in lines:
            f.write(l + "\n")
    return total, len(lines)


def show(ev):
    """human-readable rendering of an event for the violation text (the replay keeps the exact encoding)"""
    def runs(rs):
        out = []
        for b, c in rs:
            ch = chr(b) if 32 <= b < 127 else "\\x%02x" % b
            out.append(ch if c == 1 else "%s{%d}" % (ch, c))
        return "".join(out)

    def arg(a):
        if a["ty"] in ("string", "bytes"):
            return "%s(%r)" % (a["ty"], runs(a["s"]))
        if a["ty"] == "bool":
            return "bool(%s)" % a["bv"]
        if a["ty"].startswith(("int", "uint")):
            v = 0
            for x in a["mag"]:
                v = (v << 16) | x
            return "%s(%s%d)" % (a["ty"], "-" if a["neg"] else "", v)
        return a["ty"]
    return {"format": bytes(ev["f"]).decode("latin-1"), "args": [arg(a) for a in ev["a"]], "got": runs(ev["out"]),
            "panic": ev["panic"], "hang": ev.get("hang", False), "allocs": ev["allocs"], **({"call_site": ev["shape"]} if ev.get("shape") else {})}


def judge(ctx, legs):
    """legs: [(name, trace path)].  All events go through one validate_traces call (fewer JVM starts); each event is its own case."""
    allp = os.path.join(ctx.work, "c15_trace_all.ndjson")
    with open(allp, "w") as w:
        for name, path in legs:
            ns = 0
            with open(path) as f:
                for line in f:
                    e = json.loads(line)
                    e["leg"] = name
                    w.write(json.dumps(e, separators=(",", ":")) + "\n")
                    if any(b in VERBS for b in e["f"]) or e["a"]:
                        ctx.distinct([e["f"], e["a"]])
                    if ns < 1 and len(e["a"]) >= 2 and len(e["f"]) >= 4:
                        ctx.sample({"leg": name, "event": e})
                        ns += 1
    acc, nev, mism = ctx.validate_traces("KfmtTrace", "KfmtTrace", allp, ("kfmt",), name="V-" + "+".join(n for n, _ in legs),
                                         timeout=1500, is_reset=lambda e: True, parallel=5 if ctx.quick else 16)
    seen = {}
    for m in mism:
        ev = m["case_events"][m["line_in_case"] - 1]
        if seen.get(ev["leg"], 0) >= 3:
            continue
        seen[ev["leg"]] = seen.get(ev["leg"], 0) + 1
        mm = m["mismatch"]
        what = {"leg": ev["leg"], "input": show(ev), "why": mm[2][0]}
        if len(mm[2]) >= 4 and isinstance(mm[2][1], list):
            what["want"] = show({"f": [], "a": [], "out": mm[2][1], "panic": False, "allocs": 0})["got"]
        case = {"f": ev["f"], "a": ev["a"]}
        if ev.get("shape"):
            case.update({"shape": ev["shape"], "seed": ev.get("seed", 0)})
        ctx.violation(what, {"cases": [case], "mismatch": mm})
    return mism


def run(ctx):
    q = ctx.quick
    ctx.rule = ("a case = (format bytes, tagged argument list); leg G replays the cases TLC enumerated (all byte strings up to length "
                "3/4 (quick) or 4/5 (thorough) over the 10- and 6-symbol alphabets with <= 2 arguments, plus 2-3 adjacent directives (with/without widths, %t, %%) with exact / short / long argument lists, plus % width verb for boundary "
                "widths x every boundary value of the eleven integer types, strings, byte slices, booleans and wrong types); leg T draws "
                "seeded random formats (widths to 10^6, 64-bit values of random bit length, strings to 3 kB, short/long/mistyped argument "
                "lists, arbitrary byte strings); a case is distinct by (format, arguments) and non-trivial when it has a verb or an argument")
    ctx.assumptions += [
        "the marker texts (MISSING) %!(WRONGTYPE) %!(EXTRA) and true/false are those of the package interface (Kfmt.tla constants)",
        "grammar: literal | %% | % digits verb with width <= 10^6; %t ignores the width; octal/hex sign precedes the zero padding; for other format strings only no-panic and no-allocation are required",
        "wrongly-typed = any argument whose dynamic type is not one of the eleven built-in integer types / string, []byte / bool for the verb (named types are not generated)",
        "allocation-freeness is testing.AllocsPerRun(3, Fprintf(pre-sized writer, format, pre-built args...)) = 0, measured by the harness and required by the monitor; it is also measured for 12 dedicated non-inlined call sites whose arguments live in the caller's stack frame ([]byte of local arrays of 1..200 bytes, strings built from local arrays, local integers), where escape analysis of Fprintf/doWrite decides",
        "non-termination is decided by CPU time (3 s for one case; the slowest legitimate case needs about 30 ms) of a child process and logged as an event with hang = true, which the monitor rejects",
        "input domain (audited against the quantifier): TLC widths are boundary representatives, leg T draws 0..10^6; strings to 3 kB plus 0.3-1 MB ones and nil []byte; all 256 byte values and kB-long formats in leg T; widths of up to 25 digits only with argument lists that hold no string/[]byte; named types, %<width>% and multi-megabyte inputs are not covered",
        "trusted Go: the case decoder/encoder (value <-> {ty, neg, 16-bit limbs}, run-length encoding) in harness/kfmt/c15_fmt_test.go",
    ]
    d = ctx.spec_dir("kfmt")
    cases = os.path.join(ctx.work, "c15_cases.ndjson")
    bugs = ["NoUint", "SignOutsidePad", "PadLeak"] if q else ["NoUint", "Clamp32", "SignOutsidePad", "OctalPadSpace", "PctEndIndex", "BlockStartStay", "PadLeak"]

    # ---- leg M (design model satisfies the property on every case of the scope; emits the cases) + design mutants, side by side
    with concurrent.futures.ThreadPoolExecutor(max_workers=3) as ex:
        fm = ex.submit(ctx.model_check, d, "MCKfmt", "MCKfmtQuick" if q else "MCKfmtFull", env={"CASES": cases},
                       workers=6 if q else 12, timeout=1500)
        fb = [ex.submit(ctx.expect_model_violation, d, "MCKfmt", "MCKfmtBug_" + b, workers=2, timeout=600) for b in bugs]
        fm.result()
        for x in fb:
            x.result()

    # ---- leg G: replay the emitted cases on the real package
    gcases = os.path.join(ctx.work, "c15_gcases.ndjson")
    total, used = load_cases(cases, gcases, 6000 if q else 0, ctx.seed)
    ctx.cov["legs"]["emitted-cases"] = {"emitted": total, "replayed": used}
    trg = os.path.join(ctx.work, "c15_trace_g.ndjson")
    rc, out, _ = ctx.gotest("kernel", "kfmt", HARNESS, "TestVerifC15Cases", env={"CASES": gcases, "TRACE_OUT": trg}, timeout=900)
    if rc != 0:
        raise vlib.Broken("kfmt case harness failed:\n" + out[-3000:])
    # ---- leg T: seeded random cases at real scale
    trt = os.path.join(ctx.work, "c15_trace_t.ndjson")
    rc, out, _ = ctx.gotest("kernel", "kfmt", HARNESS, "TestVerifC15Random",
                            env={"NCASES": 3000 if q else 150000, "TRACE_OUT": trt}, timeout=900)
    if rc != 0:
        raise vlib.Broken("kfmt random harness failed:\n" + out[-3000:])

    # ---- leg V: the TLA+ monitor judges every recorded event
    judge(ctx, [("G-cases", trg), ("T-random", trt)])
    ctx.cov["exhaustive"] = (not q) and not ctx.violations
    ctx.cov["explanation"] = ("exhaustive = every case of the TLC small scope was replayed on the real code and judged (thorough tier); "
                              "the quick tier replays a seeded sample of 6000 of them")


def replay(ctx, path):
    with open(path) as f:
        rep = json.load(f)["replay"]
    cf = os.path.join(ctx.work, "c15_replay_cases.ndjson")
    with open(cf, "w") as f:
        for c in rep["cases"]:
            f.write(json.dumps(c) + "\n")
    tr = os.path.join(ctx.work, "c15_trace_replay.ndjson")
    rc, out, _ = ctx.gotest("kernel", "kfmt", HARNESS, "TestVerifC15Cases", env={"CASES": cf, "TRACE_OUT": tr}, timeout=300)
    if rc != 0:
        raise vlib.Broken("replay harness failed:\n" + out[-2000:])
    judge(ctx, [("replay", tr)])
    ctx.cov["states"] = max(ctx.cov["states"], 1)
    ctx.cov["transitions"] = max(ctx.cov["transitions"], 1)
    return None
